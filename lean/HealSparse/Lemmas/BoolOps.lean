/-
  Helper lemmas for the boolean mask algebra (`boolConst`, `invertMap`, `boolMapInPlace`,
  `boolMapCopy`): guarded maps over the storage, block-wise folds, and the equality of the
  copying and the in-place form on well-formed operands.
-/
import HealSparse.Lemmas.Core
import HealSparse.Lemmas.Coverage
import HealSparse.Lemmas.Valid
import HealSparse.Model.BoolOps
namespace HS

/-! ### guarded map over the storage (`sparse_map[nfine:] = f(sparse_map[nfine:])`) -/

/-- common shape of `boolConst` and `invertMap` -/
def mapGuard (c : Cfg) (s : State Bool) (f : Bool → Bool) : State Bool :=
  { s with sp := s.sp.mapIdx fun i x => if c.nfine ≤ i then f x else x }

theorem boolConst_eq_mapGuard (c : Cfg) (s : State Bool) (op : Bool → Bool → Bool) (k : Bool) :
    boolConst c s op k = mapGuard c s (fun x => op x k) := rfl

theorem invertMap_eq_mapGuard (c : Cfg) (s : State Bool) :
    invertMap c s = mapGuard c s (fun x => !x) := rfl

theorem mapGuard_spec (c : Cfg) (vc : VCfg Bool) (s : State Bool) (f : Bool → Bool)
    (h : Inv c vc s) :
    Inv c vc (mapGuard c s f) ∧
    (∀ p, p < c.npix → abs c vc (mapGuard c s f) p
        = if covered c s (p >>> c.shift) then f (abs c vc s p) else abs c vc s p) ∧
    (∀ j, covered c (mapGuard c s f) j = covered c s j) := by
  refine ⟨?_, ?_, fun _ => rfl⟩
  · refine inv_of_cov_eq h rfl (by simp [mapGuard]) ?_
    intro i hi
    have : ¬ c.nfine ≤ i := by omega
    simp only [mapGuard, Array.getElem?_mapIdx, h.2.2.1 i hi, Option.map_some, if_neg this]
  · intro p hp
    show rd (s.sp.mapIdx _) (idxOf c s p) vc.sentinel = _
    have habs : abs c vc s p = rd s.sp (idxOf c s p) vc.sentinel := rfl
    rw [habs]
    cases hc : covered c s (p >>> c.shift) with
    | true =>
      have hi := h.idxOf_covered hp hc
      simp only [rd, Array.getElem?_mapIdx, Array.getElem?_eq_getElem hi.2.1, Option.map_some,
        Option.getD_some, if_pos hi.1, if_true]
    | false =>
      have hi := h.idxOf_uncovered hp hc
      have : ¬ c.nfine ≤ idxOf c s p := by omega
      have hlt : idxOf c s p < s.sp.size := Nat.lt_of_lt_of_le hi.2 h.nfine_le_size
      simp only [rd, Array.getElem?_mapIdx, Array.getElem?_eq_getElem hlt, Option.map_some,
        Option.getD_some, if_neg this, Bool.false_eq_true, if_false]

theorem invertMap_invertMap (c : Cfg) (s : State Bool) : invertMap c (invertMap c s) = s := by
  cases s with
  | mk cov sp =>
    simp only [invertMap]
    congr 1
    apply Array.ext_getElem?
    intro i
    rw [Array.getElem?_mapIdx, Array.getElem?_mapIdx]
    cases sp[i]? with
    | none => rfl
    | some x =>
      simp only [Option.map_some]
      split <;> simp

/-! ### folds of point updates over a contiguous range -/

section blocks
variable {α : Type}

theorem foldl_range_modify_size (n : Nat) (g : Nat → α → α) (a : Array α) (dst : Nat) :
    ((List.range n).foldl (fun sp j => sp.modify (dst + j) (g j)) a).size = a.size := by
  induction n with
  | zero => rfl
  | succ n ih => rw [List.range_succ, List.foldl_append]; simp [ih]

theorem foldl_range_modify_getElem? (n : Nat) (g : Nat → α → α) (a : Array α) (dst i : Nat) :
    ((List.range n).foldl (fun sp j => sp.modify (dst + j) (g j)) a)[i]? =
      if dst ≤ i ∧ i < dst + n then (a[i]?).map (g (i - dst)) else a[i]? := by
  induction n with
  | zero => rw [if_neg (by omega)]; rfl
  | succ n ih =>
    rw [List.range_succ, List.foldl_append, List.foldl_cons, List.foldl_nil,
      Array.getElem?_modify, ih]
    by_cases h1 : dst + n = i
    · subst h1
      rw [if_pos rfl, if_neg (by omega), if_pos (by omega), Nat.add_sub_cancel_left]
    · rw [if_neg h1]
      by_cases h2 : dst ≤ i ∧ i < dst + n
      · rw [if_pos h2, if_pos (by omega)]
      · rw [if_neg h2, if_neg (by omega)]

theorem foldl_range_set_size (n : Nat) (v : Nat → α) (a : Array α) (dst : Nat) :
    ((List.range n).foldl (fun sp j => sp.setIfInBounds (dst + j) (v j)) a).size = a.size := by
  induction n with
  | zero => rfl
  | succ n ih => rw [List.range_succ, List.foldl_append]; simp [ih]

theorem foldl_range_set_getElem? (n : Nat) (v : Nat → α) (a : Array α) (dst i : Nat) :
    ((List.range n).foldl (fun sp j => sp.setIfInBounds (dst + j) (v j)) a)[i]? =
      if dst ≤ i ∧ i < dst + n then (a[i]?).map (fun _ => v (i - dst)) else a[i]? := by
  induction n with
  | zero => rw [if_neg (by omega)]; rfl
  | succ n ih =>
    rw [List.range_succ, List.foldl_append, List.foldl_cons, List.foldl_nil,
      Array.getElem?_setIfInBounds, foldl_range_set_size, ih]
    by_cases h1 : dst + n = i
    · subst h1
      have hc : dst ≤ dst + n ∧ dst + n < dst + (n + 1) := by omega
      rw [if_pos rfl, if_pos hc, Nat.add_sub_cancel_left]
      by_cases h3 : dst + n < a.size
      · rw [if_pos h3, Array.getElem?_eq_getElem h3]; rfl
      · rw [if_neg h3, Array.getElem?_eq_none (by omega)]; rfl
    · rw [if_neg h1]
      by_cases h2 : dst ≤ i ∧ i < dst + n
      · rw [if_pos h2, if_pos (by omega)]
      · rw [if_neg h2, if_neg (by omega)]

/-- prefix copy: `sp[:n] = v[:n]` -/
theorem foldl_range_prefix_getElem? (n : Nat) (v : Nat → α) (a : Array α) (i : Nat) :
    ((List.range n).foldl (fun sp j => sp.setIfInBounds j (v j)) a)[i]? =
      if i < n then (a[i]?).map (fun _ => v i) else a[i]? := by
  have := foldl_range_set_getElem? n v a 0 i
  simp only [Nat.zero_add, Nat.zero_le, true_and, Nat.sub_zero] at this
  exact this

/-- A fold of block-local steps: a cell outside every block is unchanged, a cell inside the
    block of exactly one key is changed by that key's step alone. -/
theorem foldl_blocks_getElem? {κ : Type} (F : Array α → κ → Array α) (P : κ → Nat → Prop)
    (h : κ → Nat → Option α → Option α)
    (hin : ∀ sp k i, P k i → (F sp k)[i]? = h k i sp[i]?)
    (hout : ∀ sp k i, ¬ P k i → (F sp k)[i]? = sp[i]?)
    (run : List κ) (sp0 : Array α) (i : Nat) :
    ((∀ k ∈ run, ¬ P k i) → (run.foldl F sp0)[i]? = sp0[i]?) ∧
    (∀ k ∈ run, P k i → run.Nodup → (∀ k' ∈ run, P k' i → k' = k) →
      (run.foldl F sp0)[i]? = h k i sp0[i]?) := by
  induction run generalizing sp0 with
  | nil => exact ⟨fun _ => rfl, fun k hk => nomatch hk⟩
  | cons x xs ih =>
    constructor
    · intro hno
      rw [List.foldl_cons, (ih (F sp0 x)).1 (fun k hk => hno k (List.mem_cons_of_mem _ hk))]
      exact hout sp0 x i (hno x List.mem_cons_self)
    · intro k hk hP hnd huniq
      rw [List.nodup_cons] at hnd
      rw [List.foldl_cons]
      rcases List.mem_cons.1 hk with rfl | hmem
      · rw [(ih (F sp0 k)).1]
        · exact hin sp0 k i hP
        · intro k' hk' hP'
          have := huniq k' (List.mem_cons_of_mem _ hk') hP'
          exact hnd.1 (this ▸ hk')
      · have hx : ¬ P x i := by
          intro hPx
          have := huniq x List.mem_cons_self hPx
          exact hnd.1 (this ▸ hmem)
        rw [(ih (F sp0 x)).2 k hmem hP hnd.2
          (fun k' hk' hP' => huniq k' (List.mem_cons_of_mem _ hk') hP'), hout sp0 x i hx]

theorem foldl_size_of_step {κ : Type} (F : Array α → κ → Array α)
    (hF : ∀ sp k, (F sp k).size = sp.size) (run : List κ) (sp0 : Array α) :
    (run.foldl F sp0).size = sp0.size := by
  induction run generalizing sp0 with
  | nil => rfl
  | cons x xs ih => rw [List.foldl_cons, ih, hF]

end blocks

/-! ### `blockCombine`, `blockCopy` -/

theorem blockCombine_size (c : Cfg) (op : Bool → Bool → Bool) (sp other : Array Bool)
    (dst src : Nat) : (blockCombine c op sp other dst src).size = sp.size :=
  foldl_range_modify_size c.nfine (fun j x => op x (rd other (src + j) false)) sp dst

theorem blockCombine_getElem? (c : Cfg) (op : Bool → Bool → Bool) (sp other : Array Bool)
    (dst src i : Nat) :
    (blockCombine c op sp other dst src)[i]? =
      if dst ≤ i ∧ i < dst + c.nfine then
        (sp[i]?).map (fun x => op x (rd other (src + (i - dst)) false))
      else sp[i]? :=
  foldl_range_modify_getElem? c.nfine (fun j x => op x (rd other (src + j) false)) sp dst i

theorem blockCopy_size (c : Cfg) (sp src : Array Bool) (dst s0 : Nat) :
    (blockCopy c sp src dst s0).size = sp.size :=
  foldl_range_set_size c.nfine (fun j => rd src (s0 + j) false) sp dst

theorem blockCopy_getElem? (c : Cfg) (sp src : Array Bool) (dst s0 i : Nat) :
    (blockCopy c sp src dst s0)[i]? =
      if dst ≤ i ∧ i < dst + c.nfine then (sp[i]?).map (fun _ => rd src (s0 + (i - dst)) false)
      else sp[i]? :=
  foldl_range_set_getElem? c.nfine (fun j => rd src (s0 + j) false) sp dst i

/-! ### block geometry of a well-formed state -/

/-- cell `i` lies in the storage block addressed by coverage pixel `k` -/
def inBlk {V : Type} (c : Cfg) (t : State V) (k i : Nat) : Prop :=
  (blockStart c t k).toNat ≤ i ∧ i < (blockStart c t k).toNat + c.nfine

section geom
variable {V : Type} [DecidableEq V] {c : Cfg} {vc : VCfg V} {t : State V}

theorem Inv.block_range (h : Inv c vc t) {k : Nat} (hk : k < c.ncov)
    (hc : covered c t k = true) :
    ∃ m, m < nblk c t ∧ (blockStart c t k).toNat = (m + 1) * c.nfine ∧
      blockStart c t k = (((blockStart c t k).toNat : Nat) : Int) ∧
      c.nfine ≤ (blockStart c t k).toNat ∧ (blockStart c t k).toNat + c.nfine ≤ t.sp.size := by
  obtain ⟨m, hm, hbs⟩ := h.covered_blk hk hc
  have h1 : (blockStart c t k).toNat = (m + 1) * c.nfine := by rw [hbs]; exact Int.toNat_natCast _
  refine ⟨m, hm, h1, by rw [h1]; exact hbs, by rw [h1]; exact le_succ_mul _ _, ?_⟩
  rw [h1, h.size_eq]
  have : (m + 1 + 1) * c.nfine ≤ (nblk c t + 1) * c.nfine := Nat.mul_le_mul_right _ (by omega)
  rw [Nat.succ_mul (m + 1)] at this
  exact this

theorem Inv.block_disjoint (h : Inv c vc t) {k k' i : Nat} (hk : k < c.ncov) (hk' : k' < c.ncov)
    (hc : covered c t k = true) (hc' : covered c t k' = true)
    (h1 : inBlk c t k i) (h2 : inBlk c t k' i) : k' = k := by
  obtain ⟨m, _, e1, b1, _, _⟩ := h.block_range hk hc
  obtain ⟨m', _, e2, b2, _, _⟩ := h.block_range hk' hc'
  unfold inBlk at h1 h2
  rw [e1] at h1
  rw [e2] at h2
  have d1 : i / c.nfine = m + 1 := Nat.div_eq_of_lt_le h1.1 (by rw [Nat.succ_mul (m + 1)]; exact h1.2)
  have d2 : i / c.nfine = m' + 1 :=
    Nat.div_eq_of_lt_le h2.1 (by rw [Nat.succ_mul (m' + 1)]; exact h2.2)
  have hm : m' = m := by omega
  subst hm
  exact h.2.2.2.2.1 k' hk' k hk ((covered_eq_true_iff c t k').1 hc') (by rw [b1, b2, e1, e2])

theorem Inv.idxOf_blk (h : Inv c vc t) {p : Nat} (hp : p < c.npix) :
    idxOf c t p = (blockStart c t (p >>> c.shift)).toNat + p % c.nfine := by
  unfold idxOf
  rw [lookup_eq]
  have : 0 ≤ blockStart c t (p >>> c.shift) := by
    rcases h.2.2.2.1 _ (covpix_lt c p hp) with h0 | ⟨h1, _, _⟩ <;> omega
  omega

theorem Inv.inBlk_idxOf (h : Inv c vc t) {p : Nat} (hp : p < c.npix) :
    inBlk c t (p >>> c.shift) (idxOf c t p) := by
  have := Nat.mod_lt p c.nfine_pos
  unfold inBlk
  rw [h.idxOf_blk hp]
  omega

end geom

/-! ### the run over `b`'s covered coverage pixels -/

/-- ascending covered coverage pixels of `b` -/
def bRun (c : Cfg) (b : State Bool) : List Nat := (List.range c.ncov).filter (covered c b)

theorem mem_bRun (c : Cfg) (b : State Bool) (k : Nat) :
    k ∈ bRun c b ↔ k < c.ncov ∧ covered c b k = true := by
  simp [bRun]

theorem nodup_bRun (c : Cfg) (b : State Bool) : (bRun c b).Nodup :=
  List.filter_sublist.nodup List.nodup_range

/-- A fold of steps local to the blocks (in `t`) of `b`'s covered coverage pixels, all of which
    `t` covers. -/
theorem blkFold {c : Cfg} {vc : VCfg Bool} {t b : State Bool} (ht : Inv c vc t)
    (hsub : ∀ k, k < c.ncov → covered c b k = true → covered c t k = true)
    (F : Array Bool → Nat → Array Bool) (h : Nat → Nat → Option Bool → Option Bool)
    (hin : ∀ sp k i, inBlk c t k i → (F sp k)[i]? = h k i sp[i]?)
    (hout : ∀ sp k i, ¬ inBlk c t k i → (F sp k)[i]? = sp[i]?)
    (sp0 : Array Bool) (i : Nat) :
    (∀ k, k < c.ncov → covered c b k = true → inBlk c t k i →
      ((bRun c b).foldl F sp0)[i]? = h k i sp0[i]?) ∧
    ((∀ k, k < c.ncov → covered c b k = true → ¬ inBlk c t k i) →
      ((bRun c b).foldl F sp0)[i]? = sp0[i]?) := by
  have key := foldl_blocks_getElem? F (inBlk c t) h hin hout (bRun c b) sp0 i
  constructor
  · intro k hk hcb hi
    refine key.2 k ((mem_bRun c b k).2 ⟨hk, hcb⟩) hi (nodup_bRun c b) ?_
    intro k' hk' hi'
    obtain ⟨hk'', hcb'⟩ := (mem_bRun c b k').1 hk'
    exact ht.block_disjoint hk hk'' (hsub k hk hcb) (hsub k' hk'' hcb') hi hi'
  · intro hno
    exact key.1 fun k hk => hno k ((mem_bRun c b k).1 hk).1 ((mem_bRun c b k).1 hk).2

/-! ### the in-place form -/

/-- one step of the in-place form -/
def ipStep (c : Cfg) (op : Bool → Bool → Bool) (t b : State Bool) (sp : Array Bool) (k : Nat) :
    Array Bool :=
  blockCombine c op sp b.sp (blockStart c t k).toNat (blockStart c b k).toNat

/-- what the in-place step does to a cell of block `k` -/
def ipCell (c : Cfg) (op : Bool → Bool → Bool) (t b : State Bool) (k i : Nat) (o : Option Bool) :
    Option Bool :=
  o.map fun x => op x (rd b.sp ((blockStart c b k).toNat + (i - (blockStart c t k).toNat)) false)

theorem ipStep_in (c : Cfg) (op : Bool → Bool → Bool) (t b : State Bool) (sp : Array Bool)
    (k i : Nat) (h : inBlk c t k i) : (ipStep c op t b sp k)[i]? = ipCell c op t b k i sp[i]? := by
  unfold ipStep ipCell
  rw [blockCombine_getElem?]
  exact if_pos h

theorem ipStep_out (c : Cfg) (op : Bool → Bool → Bool) (t b : State Bool) (sp : Array Bool)
    (k i : Nat) (h : ¬ inBlk c t k i) : (ipStep c op t b sp k)[i]? = sp[i]? := by
  unfold ipStep
  rw [blockCombine_getElem?]
  exact if_neg h

theorem ipStep_size (c : Cfg) (op : Bool → Bool → Bool) (t b : State Bool) (sp : Array Bool)
    (k : Nat) : (ipStep c op t b sp k).size = sp.size := blockCombine_size ..

theorem boolMapInPlace_eq (c : Cfg) (vc : VCfg Bool) (a b : State Bool)
    (op : Bool → Bool → Bool) :
    boolMapInPlace c vc a b op =
      { cov := (reserve c vc a (boolNewCov c a b)).cov
        sp := (bRun c b).foldl (ipStep c op (reserve c vc a (boolNewCov c a b)) b)
          (reserve c vc a (boolNewCov c a b)).sp } := rfl

theorem mem_boolNewCov (c : Cfg) (a b : State Bool) (k : Nat) :
    k ∈ boolNewCov c a b ↔ k < c.ncov ∧ covered c a k = false ∧ covered c b k = true := by
  simp only [boolNewCov, List.mem_filter, List.mem_range]
  cases covered c a k <;> cases covered c b k <;> simp

theorem nodup_boolNewCov (c : Cfg) (a b : State Bool) : (boolNewCov c a b).Nodup :=
  List.filter_sublist.nodup List.nodup_range

/-- the state after `_reserve_cov_pix`, common to both forms -/
theorem boolReserve_spec (c : Cfg) (vc : VCfg Bool) (a b : State Bool) (ha : Inv c vc a) :
    Inv c vc (reserve c vc a (boolNewCov c a b)) ∧
    (∀ p, p < c.npix → abs c vc (reserve c vc a (boolNewCov c a b)) p = abs c vc a p) ∧
    (∀ k, k < c.ncov → covered c (reserve c vc a (boolNewCov c a b)) k
        = (covered c a k || covered c b k)) := by
  have hnew : ∀ k ∈ boolNewCov c a b, k < c.ncov ∧ covered c a k = false := fun k hk =>
    ⟨((mem_boolNewCov c a b k).1 hk).1, ((mem_boolNewCov c a b k).1 hk).2.1⟩
  refine ⟨inv_reserve' c vc a _ ha (nodup_boolNewCov c a b) hnew,
    reserve_abs' c vc a _ ha (nodup_boolNewCov c a b) hnew, ?_⟩
  intro k hk
  rw [reserve_covered' c vc a _ ha (nodup_boolNewCov c a b) k hk]
  cases hca : covered c a k with
  | true => rfl
  | false =>
    cases hcb : covered c b k with
    | true => simp [mem_boolNewCov, hk, hca, hcb]
    | false => simp [mem_boolNewCov, hk, hca, hcb]

theorem boolMapInPlace_spec' (c : Cfg) (vc : VCfg Bool) (hs : vc.sentinel = false)
    (a b : State Bool) (op : Bool → Bool → Bool) (ha : Inv c vc a) (hb : Inv c vc b) :
    Inv c vc (boolMapInPlace c vc a b op) ∧
    (∀ p, p < c.npix → abs c vc (boolMapInPlace c vc a b op) p
        = denseBoolMap c (abs c vc a) (abs c vc b) (covered c b) op p) ∧
    (∀ k, k < c.ncov → covered c (boolMapInPlace c vc a b op) k
        = (covered c a k || covered c b k)) := by
  rw [boolMapInPlace_eq]
  obtain ⟨h1, habs1, hcov1⟩ := boolReserve_spec c vc a b ha
  generalize reserve c vc a (boolNewCov c a b) = a1 at *
  have hsub : ∀ k, k < c.ncov → covered c b k = true → covered c a1 k = true := by
    intro k hk hcb; rw [hcov1 k hk, hcb, Bool.or_true]
  have hfold := blkFold h1 hsub (ipStep c op a1 b) (ipCell c op a1 b)
    (fun sp k i => ipStep_in c op a1 b sp k i) (fun sp k i => ipStep_out c op a1 b sp k i) a1.sp
  refine ⟨?_, ?_, fun k hk => hcov1 k hk⟩
  · refine inv_of_cov_eq h1 rfl (foldl_size_of_step _ (ipStep_size c op a1 b) _ _) ?_
    intro i hi
    show ((bRun c b).foldl (ipStep c op a1 b) a1.sp)[i]? = _
    rw [(hfold i).2]
    · exact h1.2.2.1 i hi
    · intro k hk hcb hin
      obtain ⟨_, _, _, _, hge, _⟩ := h1.block_range hk (hsub k hk hcb)
      unfold inBlk at hin
      omega
  · intro p hp
    show rd ((bRun c b).foldl (ipStep c op a1 b) a1.sp) (idxOf c a1 p) vc.sentinel = _
    have hk := covpix_lt c p hp
    have hin := h1.inBlk_idxOf hp
    unfold denseBoolMap
    rw [← habs1 p hp]
    have habs : abs c vc a1 p = rd a1.sp (idxOf c a1 p) vc.sentinel := rfl
    cases hcb : covered c b (p >>> c.shift) with
    | true =>
      rw [if_pos rfl]
      unfold rd at habs ⊢
      rw [(hfold _).1 _ hk hcb hin]
      have hlt : idxOf c a1 p < a1.sp.size := h1.idxOf_lt_size hp
      obtain ⟨x, hx⟩ : ∃ x, a1.sp[idxOf c a1 p]? = some x := ⟨_, Array.getElem?_eq_getElem hlt⟩
      rw [hx] at habs ⊢
      have hb' : abs c vc b p = rd b.sp (idxOf c b p) false := by rw [← hs]; rfl
      have hoff : idxOf c a1 p - (blockStart c a1 (p >>> c.shift)).toNat = p % c.nfine := by
        rw [h1.idxOf_blk hp]; omega
      rw [habs, hb', hb.idxOf_blk hp]
      simp only [ipCell, hoff, Option.map_some, Option.getD_some]
    | false =>
      rw [if_neg (by simp)]
      unfold rd at habs ⊢
      rw [(hfold _).2, habs]
      intro k' hk' hcb' hin'
      cases hc1 : covered c a1 (p >>> c.shift) with
      | true =>
        have := h1.block_disjoint hk hk' hc1 (hsub k' hk' hcb') hin hin'
        rw [this, hcb] at hcb'
        cases hcb'
      | false =>
        have hi := h1.idxOf_uncovered hp hc1
        obtain ⟨_, _, _, _, hge, _⟩ := h1.block_range hk' (hsub k' hk' hcb')
        unfold inBlk at hin'
        omega

/-! ### counting covered coverage pixels -/

theorem filter_or_length {α : Type} (f g : α → Bool) (l : List α) :
    (l.filter fun k => f k || g k).length =
      (l.filter f).length + (l.filter fun k => (f k || g k) && !f k).length := by
  induction l with
  | nil => rfl
  | cons x xs ih =>
    simp only [List.filter_cons]
    cases f x <;> cases g x <;> simp [ih] <;> omega

theorem Inv.count_covered {V : Type} [DecidableEq V] {c : Cfg} {vc : VCfg V} {s : State V}
    (h : Inv c vc s) : ((List.range c.ncov).filter (covered c s)).length = nblk c s := by
  have hperm : ((List.range c.ncov).filter (covered c s)).Perm (blockToCov c s).toList := by
    rw [List.perm_ext_iff_of_nodup (List.filter_sublist.nodup List.nodup_range) h.blockToCov_nodup]
    intro k
    rw [List.mem_filter, List.mem_range, List.mem_iff_getElem?]
    constructor
    · rintro ⟨hk, hc⟩
      obtain ⟨b, hb⟩ := (h.covered_iff_blockToCov hk).1 hc
      exact ⟨b, by rw [Array.getElem?_toList]; exact hb⟩
    · rintro ⟨b, hb⟩
      rw [Array.getElem?_toList] at hb
      have hk := (h.blockToCov_some hb).2.1
      exact ⟨hk, (h.covered_iff_blockToCov hk).2 ⟨b, hb⟩⟩
  rw [hperm.length_eq, Array.length_toList, blockToCov_size]

/-! ### the copying form -/

theorem reserve_sp_getElem?_lt {V : Type} (c : Cfg) (vc : VCfg V) (s : State V) (new : List Nat)
    {i : Nat} (hi : i < s.sp.size) : (reserve c vc s new).sp[i]? = s.sp[i]? := by
  simp only [reserve]
  exact Array.getElem?_append_left hi

theorem reserve_sp_getElem?_ge {V : Type} (c : Cfg) (vc : VCfg V) (s : State V) (new : List Nat)
    {i : Nat} {x : V} (hi : s.sp.size ≤ i) (hx : (reserve c vc s new).sp[i]? = some x) :
    x = rd s.sp 0 vc.sentinel := by
  simp only [reserve] at hx
  rw [Array.getElem?_append_right hi, Array.getElem?_replicate] at hx
  split at hx
  · exact (Option.some.inj hx).symm
  · cases hx

/-- zeroed storage with `a`'s storage copied over its prefix -/
def cpInit (c : Cfg) (a b : State Bool) : Array Bool :=
  (List.range a.sp.size).foldl (fun sp i => sp.setIfInBounds i (rd a.sp i false))
    (Array.replicate
      ((((List.range c.ncov).filter fun k => covered c a k || covered c b k).length + 1) * c.nfine)
      false)

theorem cpInit_eq (c : Cfg) (vc : VCfg Bool) (hs : vc.sentinel = false) (a b : State Bool)
    (ha : Inv c vc a) : cpInit c a b = (reserve c vc a (boolNewCov c a b)).sp := by
  have hsz : (((List.range c.ncov).filter fun k => covered c a k || covered c b k).length + 1)
      * c.nfine = a.sp.size + (boolNewCov c a b).length * c.nfine := by
    rw [filter_or_length, ha.count_covered, ha.size_eq, ← Nat.add_mul]
    congr 1
    unfold boolNewCov
    omega
  have h0 : rd a.sp 0 vc.sentinel = false := by rw [ha.sp_zero, hs]
  apply Array.ext_getElem?
  intro i
  unfold cpInit
  rw [foldl_range_prefix_getElem?, hsz, Array.getElem?_replicate]
  simp only [reserve]
  by_cases hi : i < a.sp.size
  · rw [if_pos hi, if_pos (by omega), Array.getElem?_append_left hi, rd_eq_getElem _ _ _ hi,
      Array.getElem?_eq_getElem hi]
    rfl
  · rw [if_neg hi, Array.getElem?_append_right (by omega), Array.getElem?_replicate, h0]
    by_cases h2 : i < a.sp.size + (boolNewCov c a b).length * c.nfine
    · rw [if_pos h2, if_pos (by omega)]
    · rw [if_neg h2, if_neg (by omega)]

/-- one step of the copying form -/
def cpStep (c : Cfg) (op : Bool → Bool → Bool) (t a b : State Bool) (sp : Array Bool) (k : Nat) :
    Array Bool :=
  blockCombine c op (blockCopy c sp a.sp (blockStart c t k).toNat (blockStart c a k).toNat) b.sp
    (blockStart c t k).toNat (blockStart c b k).toNat

/-- what the copying step does to a cell of block `k` -/
def cpCell (c : Cfg) (op : Bool → Bool → Bool) (t a b : State Bool) (k i : Nat) (o : Option Bool) :
    Option Bool :=
  (o.map fun _ => rd a.sp ((blockStart c a k).toNat + (i - (blockStart c t k).toNat)) false).map
    fun x => op x (rd b.sp ((blockStart c b k).toNat + (i - (blockStart c t k).toNat)) false)

theorem cpStep_in (c : Cfg) (op : Bool → Bool → Bool) (t a b : State Bool) (sp : Array Bool)
    (k i : Nat) (h : inBlk c t k i) :
    (cpStep c op t a b sp k)[i]? = cpCell c op t a b k i sp[i]? := by
  unfold cpStep cpCell
  rw [blockCombine_getElem?, blockCopy_getElem?]
  exact (if_pos h).trans (congrArg _ (if_pos h))

theorem cpStep_out (c : Cfg) (op : Bool → Bool → Bool) (t a b : State Bool) (sp : Array Bool)
    (k i : Nat) (h : ¬ inBlk c t k i) : (cpStep c op t a b sp k)[i]? = sp[i]? := by
  unfold cpStep
  rw [blockCombine_getElem?, blockCopy_getElem?]
  exact (if_neg h).trans (if_neg h)

theorem boolMapCopy_eq (c : Cfg) (a b : State Bool) (op : Bool → Bool → Bool) :
    boolMapCopy c a b op =
      { cov := appendPixels c a.cov a.sp.size (boolNewCov c a b)
        sp := (bRun c b).foldl
          (cpStep c op ⟨appendPixels c a.cov a.sp.size (boolNewCov c a b), cpInit c a b⟩ a b)
          (cpInit c a b) } := rfl

/-- On well-formed operands the copying form builds literally the state the in-place form builds. -/
theorem boolMapCopy_eq_inPlace (c : Cfg) (vc : VCfg Bool) (hs : vc.sentinel = false)
    (a b : State Bool) (op : Bool → Bool → Bool) (ha : Inv c vc a) :
    boolMapCopy c a b op = boolMapInPlace c vc a b op := by
  rw [boolMapCopy_eq, boolMapInPlace_eq, cpInit_eq c vc hs a b ha]
  obtain ⟨h1, _, hcov1⟩ := boolReserve_spec c vc a b ha
  have hnd := nodup_boolNewCov c a b
  have hsub : ∀ k, k < c.ncov → covered c b k = true →
      covered c (reserve c vc a (boolNewCov c a b)) k = true := by
    intro k hk hcb; rw [hcov1 k hk, hcb, Bool.or_true]
  show State.mk (reserve c vc a (boolNewCov c a b)).cov
    ((bRun c b).foldl (cpStep c op (reserve c vc a (boolNewCov c a b)) a b)
      (reserve c vc a (boolNewCov c a b)).sp) = _
  congr 1
  apply Array.ext_getElem?
  intro i
  have hip := blkFold h1 hsub (ipStep c op _ b) (ipCell c op _ b)
    (fun sp k i => ipStep_in c op _ b sp k i) (fun sp k i => ipStep_out c op _ b sp k i)
    (reserve c vc a (boolNewCov c a b)).sp i
  have hcp := blkFold h1 hsub (cpStep c op _ a b) (cpCell c op _ a b)
    (fun sp k i => cpStep_in c op _ a b sp k i) (fun sp k i => cpStep_out c op _ a b sp k i)
    (reserve c vc a (boolNewCov c a b)).sp i
  by_cases hex : ∃ k, k < c.ncov ∧ covered c b k = true ∧
      inBlk c (reserve c vc a (boolNewCov c a b)) k i
  · obtain ⟨k, hk, hcb, hin⟩ := hex
    rw [hip.1 k hk hcb hin, hcp.1 k hk hcb hin]
    obtain ⟨_, _, _, _, hge, hle⟩ := h1.block_range hk (hsub k hk hcb)
    have hin' := hin
    unfold inBlk at hin'
    have hlt : i < (reserve c vc a (boolNewCov c a b)).sp.size := by omega
    obtain ⟨x, hx⟩ : ∃ x, (reserve c vc a (boolNewCov c a b)).sp[i]? = some x :=
      ⟨_, Array.getElem?_eq_getElem hlt⟩
    rw [hx]
    unfold ipCell cpCell
    simp only [Option.map_some]
    congr 2
    -- the cell of `a1` holds what the block copy writes
    cases hca : covered c a k with
    | true =>
      have hnm : k ∉ boolNewCov c a b := fun hm => by
        rw [((mem_boolNewCov c a b k).1 hm).2.1] at hca; cases hca
      have hbs := reserve_blockStart_not_mem c vc a _ k hnm
      obtain ⟨_, _, _, _, _, hle'⟩ := ha.block_range hk hca
      rw [hbs] at hin'
      have hia : i < a.sp.size := by omega
      rw [reserve_sp_getElem?_lt c vc a _ hia] at hx
      rw [hbs]
      have : (blockStart c a k).toNat + (i - (blockStart c a k).toNat) = i := by omega
      rw [this, rd, hx]
      rfl
    | false =>
      have hm : k ∈ boolNewCov c a b := (mem_boolNewCov c a b k).2 ⟨hk, hca, hcb⟩
      obtain ⟨t, ht⟩ := List.getElem?_of_mem hm
      have hbs := reserve_blockStart_mem c vc a _ k t (by rw [ha.1]; exact hk) hnd ht
      rw [hbs, Int.toNat_natCast] at hin'
      have hx' := reserve_sp_getElem?_ge c vc a _ (by omega) hx
      rw [ha.sp_zero, hs] at hx'
      rw [hx', ha.uncovered_bs hk hca]
      have hj : i - (blockStart c (reserve c vc a (boolNewCov c a b)) k).toNat < c.nfine := by
        unfold inBlk at hin; omega
      have := ha.2.2.1 _ hj
      rw [hs] at this
      simp only [Int.toNat_zero, Nat.zero_add, rd, this]
      rfl
  · have hno : ∀ k, k < c.ncov → covered c b k = true →
        ¬ inBlk c (reserve c vc a (boolNewCov c a b)) k i :=
      fun k hk hcb hin => hex ⟨k, hk, hcb, hin⟩
    rw [hip.2 hno, hcp.2 hno]

/-! ### specifications in the form the property theorems use -/

theorem boolMapCopy_spec' (c : Cfg) (vc : VCfg Bool) (hs : vc.sentinel = false)
    (a b : State Bool) (op : Bool → Bool → Bool) (ha : Inv c vc a) (hb : Inv c vc b) :
    Inv c vc (boolMapCopy c a b op) ∧
    (∀ p, p < c.npix → abs c vc (boolMapCopy c a b op) p
        = denseBoolMap c (abs c vc a) (abs c vc b) (covered c b) op p) ∧
    (∀ k, k < c.ncov → covered c (boolMapCopy c a b op) k
        = (covered c a k || covered c b k)) := by
  rw [boolMapCopy_eq_inPlace c vc hs a b op ha]
  exact boolMapInPlace_spec' c vc hs a b op ha hb

/-- inside `b`'s coverage the copying form is the pointwise operation -/
theorem boolMapCopy_abs_on (c : Cfg) (vc : VCfg Bool) (hs : vc.sentinel = false)
    (a b : State Bool) (op : Bool → Bool → Bool) (ha : Inv c vc a) (hb : Inv c vc b)
    {p : Nat} (hp : p < c.npix) (hcb : covered c b (p >>> c.shift) = true) :
    abs c vc (boolMapCopy c a b op) p = op (abs c vc a p) (abs c vc b p) := by
  rw [(boolMapCopy_spec' c vc hs a b op ha hb).2.1 p hp]
  unfold denseBoolMap
  rw [if_pos hcb]

/-- inside the coverage inversion negates -/
theorem invertMap_abs_on (c : Cfg) (vc : VCfg Bool) (s : State Bool) (h : Inv c vc s)
    {p : Nat} (hp : p < c.npix) (hc : covered c s (p >>> c.shift) = true) :
    abs c vc (invertMap c s) p = !(abs c vc s p) := by
  rw [invertMap_eq_mapGuard, (mapGuard_spec c vc s _ h).2.1 p hp, if_pos hc]

end HS
