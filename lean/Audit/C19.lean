import HealSparse.Props.C19
#print axioms HS.C19.dor_eq
#print axioms HS.C19.dor_full
#print axioms HS.C19.dorW_spec
