"""C17 — a MOC written from a map covers exactly the map's valid pixels."""
import gen
import translate_kernels

PID = 'C17'
RULE = ("maps of any kind with a non-empty valid set (sparse scatter; full and nearly-full blocks at every hierarchy "
        "level: whole coverage pixels, whole sub-cells at each intermediate order, and the same with exactly one or two "
        "children removed) are written with write_moc; the UNIQ column read with astropy is compared with the Lean "
        "writer (mocWrite), the file is read back with the library and with the Lean reader (mocRead) and the valid "
        "set of the result, its nside and layout are compared; thorough adds single-coverage-pixel maps 9-10 levels "
        "deep with one missing child; non-trivial = at least one cell merged above the sparse order")
ASSUMPTIONS = ["astropy's BinTableHDU / the TFORM1 patch preserve the int64 UNIQ column",
               "np.log2 flooring is exact for UNIQ < 2^50"]


def block_pixels(c, order, cell):
    """all order-spord pixels below cell `cell` of order `order`"""
    g = 4 ** (c.spord - order)
    return list(range(cell * g, (cell + 1) * g))


def one_history(rng, covord, spord, kind='bool'):
    if kind == 'bool':
        c = gen.MapCfg('m', 'plain', covord, spord, dtype='b1')
    elif kind == 'packed':
        c = gen.MapCfg('m', 'packed', covord, spord)
    elif kind == 'flt':
        c = gen.MapCfg('m', 'plain', covord, spord, dtype='f8')
    else:
        c = gen.MapCfg('m', 'plain', covord, spord, dtype='i4')
    pix = set()
    for _ in range(rng.randint(1, 4)):
        o = rng.randint(covord, spord)
        cell = rng.randrange(12 * 4 ** o)
        blk = block_pixels(c, o, cell)
        r = rng.random()
        if r < 0.4:
            pix.update(blk)
        elif r < 0.8:
            miss = set(rng.sample(blk, min(len(blk), rng.choice([1, 1, 2]))))
            pix.update(p for p in blk if p not in miss)
        else:
            pix.update(rng.sample(blk, max(1, len(blk) // 3)))
    for _ in range(rng.randint(0, 5)):
        pix.add(rng.randrange(c.npix))
    pix = sorted(pix)
    rng.shuffle(pix)
    h = [c.line()]
    val = {'bool': 'T', 'packed': 'T', 'flt': '5^1', 'int': '3'}[kind]
    for ch in (pix[0::2], pix[1::2]):
        if ch:
            h.append('upd m op=replace pix=%s val=%s' % (','.join(map(str, ch)), val))
    h += ['moc m f=f1', 'mocread r=r f=f1 covord=%d' % covord, 'info r', 'valid r', 'state r', 'state m']
    if rng.random() < 0.3:
        h += ['mocread r=r2 f=f1 covord=0', 'info r2', 'valid r2']
    if spord > covord and rng.random() < 0.4:
        # read back with a FINER coverage resolution than the writing map had: cells coarser than the reader's
        # coverage pixels (a completely valid coverage pixel of the writer) span several of them (seeded C17h)
        h += ['mocread r=r3 f=f1 covord=%d' % rng.randint(covord + 1, spord), 'info r3', 'valid r3', 'nvalid r3']
    return h


def histories(rng, tier):
    out = []
    n = 250 if tier == 'quick' else 1500
    for _ in range(n):
        covord = rng.choice([0, 0, 1])
        spord = covord + rng.choice([0, 1, 2, 3]) if covord == 0 else covord + rng.choice([0, 1, 2])
        kind = rng.choice(['bool', 'bool', 'flt', 'int', 'packed'])
        if kind == 'packed' and spord - covord < 2:
            kind = 'bool'
        out.append(one_history(rng, covord, spord, kind))
    # deep hierarchies: one coverage pixel, one missing child many levels down
    deep = [(0, 6)] if tier == 'quick' else [(0, 7), (0, 9), (1, 9)]
    for covord, spord in deep:
        c = gen.MapCfg('m', 'plain', covord, spord, dtype='b1')
        cell = rng.randrange(12 * 4 ** covord)
        lo, hi = cell * c.nfine, (cell + 1) * c.nfine
        miss = rng.randrange(lo, hi)
        h = [c.line()]
        if miss > lo:
            h.append('updr m op=replace ranges=%d:%d val=T path=slice' % (lo, miss))
        if miss + 1 < hi:
            h.append('updr m op=replace ranges=%d:%d val=T path=slice' % (miss + 1, hi))
        h += ['moc m f=f1', 'mocread r=r f=f1 covord=%d' % covord, 'info r', 'nvalid r', 'nvalid m']
        out.append(h)
    # high orders (uniq values beyond 2^32: order >= 15): a few single pixels and one whole cell of a coarser
    # order, in base pixels on both sides of 8; blocks are 4^8 cells, so only a handful of coverage pixels
    # (orders 13-16: the UNIQ values cross 2^30, 2^31 and 2^32 — every place where a column width or an integer
    #  type could be chosen from the ORDER alone: seeded change C17f wrote order-14 codes >= 2^31 into 32 bits)
    for spord in ([14, 13, 15, 16] if tier == 'quick' else [14, 13, 15, 16] * 3 + [14, 15]):
        covord = spord - 8
        c = gen.MapCfg('m', 'plain', covord, spord, dtype='b1')
        h = [c.line()]
        base = 4 ** spord
        cells = [rng.randrange(4, 12), rng.randrange(12)]         # at least one base pixel beyond the first four
        rng.shuffle(cells)
        pix = []
        for b in cells:
            k0 = b * base + rng.randrange(base)
            pix += [k0, min(k0 + rng.choice([1, 2, 5]), 12 * base - 1)]
        h.append('upd m op=replace pix=%s val=T' % ','.join(map(str, sorted(set(pix)))))
        if rng.random() < 0.7:
            o = rng.randint(spord - 3, spord - 1)                 # a cell that merges up to order o
            g = 4 ** (spord - o)
            cell = (pix[0] // g)
            h.append('updr m op=replace ranges=%d:%d val=T path=slice' % (cell * g, (cell + 1) * g))
        h += ['moc m f=f1', 'mocread r=r f=f1 covord=%d' % covord, 'info r', 'valid r', 'nvalid r', 'valid m', 'nvalid m']
        out.append(h)
    return [gen.file_variants(rng, h) for h in out]


def nontrivial(h):
    return any(ln.startswith('moc ') for ln in h)


def translate():
    """regenerate Generated/Kernels.lean from /repo (obligations: Props/C17Kernels.lean)"""
    return translate_kernels.translate()


def kernel_failing_rows():
    return translate_kernels.failing_rows(PID)
