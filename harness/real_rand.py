"""Random-point generators driven with a recording proxy around a seeded RandomState."""
import signal
import numpy as np
import hpgeom as hpg

SCALE = 2 ** 40


class Recorder(object):
    """passes through uniform / choice / randint of a RandomState and records args and results"""

    def __init__(self, seed):
        self.rs = np.random.RandomState(seed)
        self.uniform_calls = []
        self.choice_calls = []
        self.randint_calls = []
        self.drawn = 0

    def _count(self, r):
        # a rejection loop that never terminates is reported as a hang long before memory runs out
        self.drawn += int(np.size(r))
        if self.drawn > 50000000:
            raise Hang()

    def uniform(self, low=0.0, high=1.0, size=None):
        r = self.rs.uniform(low=low, high=high, size=size)
        self._count(r)
        self.uniform_calls.append((float(low), float(high), r.copy()))
        return r

    def choice(self, a, size=None, replace=True):
        r = self.rs.choice(a, size=size, replace=replace)
        self._count(r)
        self.choice_calls.append(np.array(r).copy())
        return r

    def randint(self, low, high=None, size=None):
        r = self.rs.randint(low, high=high, size=size)
        self._count(r)
        self.randint_calls.append((int(low), None if high is None else int(high), np.array(r).copy()))
        return r


class Hang(Exception):
    pass


def _alarm(signum, frame):
    raise Hang()


def with_watchdog(seconds, fn):
    old = signal.signal(signal.SIGALRM, _alarm)
    signal.alarm(seconds)
    try:
        return fn()
    finally:
        signal.alarm(0)
        signal.signal(signal.SIGALRM, old)


def ints(a):
    return ','.join(str(int(x)) for x in a) if len(a) else '_'


class RandOps(object):
    def op_rand(self, pos, kv):
        import healsparse
        m = self.m(pos[0])
        n = int(kv['n'])
        seed = int(kv.get('seed', '1'))
        gen = kv.get('gen', 'uniform')
        nside = m.nside_sparse
        vp = np.sort(m.valid_pixels)
        if gen == 'fast':
            nsr = 2 ** int(kv['nsr'])
            rec = Recorder(seed)
            ra, dec = with_watchdog(20, lambda: healsparse.make_uniform_randoms_fast(m, n, nside_randoms=nsr, rng=rec))
            ra2, dec2 = healsparse.make_uniform_randoms_fast(m, n, nside_randoms=nsr, rng=np.random.RandomState(seed))
            det = int(np.array_equal(ra, ra2) and np.array_equal(dec, dec2))
            valid = int(bool(np.all(m.get_values_pos(ra, dec, valid_mask=True)))) if n > 0 else 1
            child = hpg.angle_to_pixel(nsr, ra, dec) if n > 0 else np.zeros(0, dtype=np.int64)
            shift = 2 * int(round(np.log2(nsr / nside)))
            starved = self._starved(m, ra, dec, vp, n)
            obs = "len=%d valid=%d det=%d starved=%d child=%s" % (len(ra) if len(ra) == len(dec) else -1, valid, det,
                                                                  starved, ints(child))
            line = "rand %s gen=fast n=%d shift=%d vp=%s choice=%s sub=%s" % (
                pos[0], n, shift, ints(vp), ints(rec.choice_calls[0]) if rec.choice_calls else '_',
                ints(rec.randint_calls[0][2]) if rec.randint_calls else '_')
            return obs, line
        rec = Recorder(seed)
        try:
            ra, dec = with_watchdog(20, lambda: healsparse.make_uniform_randoms(m, n, rng=rec))
        except Hang:
            return 'hang', 'rand %s gen=uniform n=%d batches= T=1 thr=0 ivs=0:1 rot=0:1' % (pos[0], n)
        ra2, dec2 = healsparse.make_uniform_randoms(m, n, rng=np.random.RandomState(seed))
        det = int(np.array_equal(ra, ra2) and np.array_equal(dec, dec2))
        valid = int(bool(np.all(m.get_values_pos(ra, dec, valid_mask=True)))) if n > 0 else 1
        # the geometry inputs of the window, recomputed from hpgeom exactly as documented
        cov_pix, = np.where(m.coverage_mask)
        cov_theta, cov_phi = hpg.pixel_to_angle(m.nside_coverage, cov_pix, nest=True, lonlat=False)
        eb = 2.0 * hpg.nside_to_resolution(m.nside_coverage, units="radians")
        st = np.sin(cov_theta)
        lo, hi = cov_phi - eb / st, cov_phi + eb / st
        phir = cov_phi + np.pi
        phir[phir > 2.0 * np.pi] -= 2.0 * np.pi
        rlo, rhi = phir - eb / st, phir + eb / st

        def sc(x):
            return int(round(float(x) * SCALE))
        ivs = ','.join("%d:%d" % (sc(a), sc(b)) for a, b in zip(lo, hi))
        rot = ','.join("%d:%d" % (sc(a), sc(b)) for a, b in zip(rlo, rhi))
        # candidate stream: uniform calls come in (z, phi) pairs
        calls = rec.uniform_calls
        # the rotation (sampling in a frame turned by 180 degrees) is not observable through the proxy and is the
        # same for every batch of one call: build the candidate stream in both frames and keep the one in which the
        # returned points are candidates flagged valid (a per-batch guess goes wrong when early batches hold no
        # valid point at all — tiny footprints)
        win = (0, 0)
        best = None
        for r in (False, True):
            batches, cand = [], {}
            off = 0
            for i in range(0, len(calls) - 1, 2):
                (zl, zh, z), (pl, ph, phi) = calls[i], calls[i + 1]
                win = (sc(pl), sc(ph))
                rac = np.degrees(phi)
                decc = np.degrees(np.arcsin(z))
                rr = (rac - 180.0 if r else rac) % 360.0
                flags = m.get_values_pos(rr, decc, lonlat=True, valid_mask=True)
                batches.append(''.join('1' if f else '0' for f in flags))
                for jj in np.where(flags)[0]:
                    cand.setdefault((float(rr[jj]), float(decc[jj])), off + int(jj))
                off += len(flags)
            sel = []
            ok = True
            for a, b in zip(ra, dec):
                k = cand.get((float(a), float(b)))
                if k is None:
                    ok = False
                    break
                sel.append(k)
            if best is None or (ok and not best[0]):
                best = (ok, batches, sel)
            if ok:
                break
        ok, batches, sel = best
        starved = self._starved(m, ra, dec, vp, n)
        obs = "len=%d valid=%d det=%d starved=%d win=%d:%d sel=%s" % (
            len(ra) if len(ra) == len(dec) else -1, valid, det, starved, win[0], win[1],
            ints(sel) if ok else 'unmatched')
        line = "rand %s gen=uniform n=%d batches=%s T=%d thr=%d ivs=%s rot=%s" % (
            pos[0], n, ';'.join(batches), sc(2.0 * np.pi), sc(0.1), ivs, rot)
        if not calls:
            obs = "len=%d valid=%d det=%d starved=%d win=na sel=_" % (len(ra), valid, det, starved)
            line += ' nowin=1'
        return obs, line

    def _starved(self, m, ra, dec, vp, n):
        """fixed rule: with n >= 200*|V| and |V| <= 64 every valid pixel receives at least one point"""
        if len(vp) == 0 or len(vp) > 64 or n < 200 * len(vp):
            return 0
        hit = np.unique(hpg.angle_to_pixel(m.nside_sparse, ra, dec))
        return int(len(np.setdiff1d(vp, hit)))
