/-
  Dense refinement, continued: FILES, METADATA, HEALPix interchange, MOC, inspection and
  housekeeping lines.

  Lemmas/ApiDenseAll.lean relates the protocol to a coverage-aware dense interpreter on worlds
  that consist of maps only (`DenseWorldC`).  Here the dense world is extended with what the
  remaining lines of the protocol look at:

    DenseWorldIO = maps    (name ↦ `DenseMapC`: header, one value per pixel, one bit per coverage
                            pixel — as before)
                 + files   (name ↦ `DenseFile`: the `DenseMapC` SNAPSHOT that was written and the
                            user metadata stored with it; no arrays, no block order, no header
                            keywords)
                 + hpfiles (name ↦ `DenseHp`: the snapshot an EXPLICIT HEALPix-format file was
                            written from — the file lists the valid pixels in storage order, which
                            no dense view shows — or the columns of a file given literally)
                 + mocs    (MOC files: the UNIQ column)
                 + metas   (user metadata per map name, as the driver keeps it)

  `RelIO w D` extends `RelC`: the maps agree (`RelC`); every file of the world IS the written
  form `apiWrite m md` of a `FileTyped` map object `m` that agrees with the dense snapshot
  (`FileCorr`); every HEALPix-format file is the literal one or `apiWriteHealpix m` of an `Ok`
  map that agrees with the dense snapshot (`HpCorr`); MOC files and metadata are equal.

  `dstepArgsIO` interprets, on such a world,
    `info` `vpsc` `drop` `reset`                   (inspection / housekeeping)
    `meta` `getmeta`                               (user metadata)
    `write` `read` (full and `pixels=`) `covread`  (healsparse FITS files)
    `fromhp` `genhp` (no key; NEST, or RING through a table no longer than the output)
    `hpxwrite` `hpximplicit` `hpxread`             (HEALPix-format files)
    `moc` `mocread`                                (MOC files)
    `pack`                                         (re-stated: it also moves user metadata)
  and falls back to `ApiDenseAll.dstepArgsAll` on every other line of the five families.

  `rel_stepArgsIO` / `rel_stepIO`: one line keeps `RelIO` and is answered alike, from a world
  satisfying the reachable invariants `Good2` (well-formedness, fresh caches) and `Typed` (every
  map is typed the way a file can express — needed for `write`: the reader recovers the kind from
  the header alone).  `rel_runLinesIO`, `answers_eq_danswersIO`: histories, unconditionally.
-/
import HealSparse.Lemmas.ApiDenseAll
import HealSparse.Lemmas.FrameWorld
import HealSparse.Lemmas.TypedWorld
import HealSparse.Props.C02
import HealSparse.Props.C03
import HealSparse.Lemmas.ApiHealpixRT
import HealSparse.Lemmas.ApiMoc
namespace HS
namespace ApiDenseIO

open ApiDense ApiDenseCov ApiDenseAll

/-! ### named tables -/

/-- look a name up in a table of named objects (the driver's `find?` … `map (·.2)`) -/
def lookup {α : Type} (t : List (String × α)) (k : String) : Option α :=
  (t.find? (·.1 == k)).map (·.2)

/-- (re)bind a name in a table of named objects -/
def insert {α : Type} (t : List (String × α)) (k : String) (x : α) : List (String × α) :=
  (k, x) :: t.filter (·.1 != k)

theorem lookup_insert_self {α : Type} (t : List (String × α)) (k : String) (x : α) :
    lookup (insert t k x) k = some x := by
  simp [lookup, insert]

theorem lookup_insert_ne {α : Type} (t : List (String × α)) {k y : String} (h : y ≠ k) (x : α) :
    lookup (insert t k x) y = lookup t y := by
  unfold lookup insert
  have h2 : (k == y) = false := by simp; exact fun e => h e.symm
  simp only [List.find?_cons, h2, HS.List.find?_filter_ne _ y k h]

theorem lookup_filter_self {α : Type} (t : List (String × α)) (k : String) :
    lookup (t.filter (·.1 != k)) k = none := by
  unfold lookup
  rw [Option.map_eq_none_iff, List.find?_eq_none]
  intro x hx
  have := (List.mem_filter.1 hx).2
  simpa using this

theorem lookup_filter_ne {α : Type} (t : List (String × α)) {k y : String} (h : y ≠ k) :
    lookup (t.filter (·.1 != k)) y = lookup t y := by
  unfold lookup
  rw [HS.List.find?_filter_ne _ y k h]

/-- two tables with the same names, bound to related objects -/
def TabRel {α β : Type} (R : α → β → Prop) (t : List (String × α)) (t' : List (String × β)) :
    Prop :=
  ∀ x, match lookup t x, lookup t' x with
    | some a, some b => R a b
    | none, none => True
    | _, _ => False

theorem TabRel.nil {α β : Type} (R : α → β → Prop) : TabRel R [] [] := fun _ => trivial

theorem TabRel.insert {α β : Type} {R : α → β → Prop} {t : List (String × α)}
    {t' : List (String × β)} (h : TabRel R t t') (k : String) {a : α} {b : β} (hab : R a b) :
    TabRel R (insert t k a) (insert t' k b) := by
  intro x
  by_cases hx : x = k
  · subst hx
    rw [lookup_insert_self, lookup_insert_self]
    exact hab
  · rw [lookup_insert_ne _ hx, lookup_insert_ne _ hx]
    exact h x

/-! ### the dense world with files -/

/-- a healsparse FITS file, densely: the map that was written (values and coverage mask) and the
    user metadata stored with it -/
structure DenseFile where
  snap : DenseMapC
  mdata : List (String × String)

/-- a HEALPix-format file, densely: the snapshot of the map an EXPLICIT file was written from
    (`hpxwrite`: the file lists the valid pixels in storage order, which the dense view does not
    show), or a file given by its columns (`hpximplicit`) -/
inductive DenseHp where
  | written (d : DenseMapC)
  | file (f : HpFile)

/-- maps, files, HEALPix-format files, MOC files and user metadata, by name -/
structure DenseWorldIO where
  maps : DenseWorldC := []
  files : List (String × DenseFile) := []
  hpfiles : List (String × DenseHp) := []
  mocs : List (String × List Nat) := []
  metas : List (String × List (String × String)) := []

/-- the user metadata kept for a map name -/
def metaOfT (t : List (String × List (String × String))) (n : String) : List (String × String) :=
  (lookup t n).getD []

/-- a file of the world and a dense file agree: the file is what `_write_map_fits` produces for
    a map object that agrees with the dense snapshot and is typed the way a header can express -/
def FileCorr (fo : FileObj) (df : DenseFile) : Prop :=
  ∃ m : MapObj, CorrC m df.snap ∧ m.FileTyped ∧ fo = apiWrite m df.mdata

/-- a HEALPix-format file of the world and a dense one agree: literally the same columns, or the
    file is what `write(format='healpix')` produces for a map object that agrees with the dense
    snapshot -/
def HpCorr (f : HpFile) : DenseHp → Prop
  | .file f' => f = f'
  | .written d => ∃ m : MapObj, CorrC m d ∧ m.Ok ∧ apiWriteHealpix m = .ok f

/-- **the relation**: maps as in `RelC`; files related by `FileCorr`; HEALPix files by `HpCorr`;
    MOCs and user metadata literally equal -/
structure RelIO (w : World) (D : DenseWorldIO) : Prop where
  rel : RelC w D.maps
  files : TabRel FileCorr w.files D.files
  hpfiles : TabRel HpCorr w.hpfiles D.hpfiles
  mocs : w.mocs = D.mocs
  metas : w.metas = D.metas

theorem relIO_empty : RelIO {} {} := ⟨relC_empty, TabRel.nil _, TabRel.nil _, rfl, rfl⟩

/-- a step that changes the maps only -/
theorem RelIO.of_maps {w w' : World} {D : DenseWorldIO} {M : DenseWorldC} (h : RelIO w D)
    (hr : RelC w' M) (h1 : w'.files = w.files) (h2 : w'.hpfiles = w.hpfiles)
    (h3 : w'.mocs = w.mocs) (h4 : w'.metas = w.metas) : RelIO w' { D with maps := M } :=
  ⟨hr, by rw [h1]; exact h.files, by rw [h2]; exact h.hpfiles, by rw [h3]; exact h.mocs,
    by rw [h4]; exact h.metas⟩

/-- `RelC` looks at the pool only -/
theorem relC_of_pool {w w' : World} {M : DenseWorldC} (h : RelC w M) (hp : w'.pool = w.pool) :
    RelC w' M := by
  refine ⟨fun e he => h.owning e (hp ▸ he), fun x => ?_⟩
  have := h.maps x
  unfold World.raw? at this ⊢
  rw [hp]
  exact this

def dWithMapIO (D : DenseWorldIO) (a : Args) (k : DenseMapC → DenseWorldIO × String) :
    DenseWorldIO × String :=
  match a.pos with
  | n :: _ => match D.maps.get? n with
    | some d => k d
    | none => (D, "bad-op:no-such-map")
  | [] => (D, "bad-op:no-map-name")

theorem relIO_withMap {w : World} {D : DenseWorldIO} {a : Args} {k : MapObj → World × String}
    {k' : DenseMapC → DenseWorldIO × String} (h : RelIO w D)
    (hk : ∀ m d, w.get? (a.pos.headD "") = some m → D.maps.get? (a.pos.headD "") = some d →
      CorrC m d → RelIO (k m).1 (k' d).1 ∧ (k m).2 = (k' d).2) :
    RelIO (withMap w a k).1 (dWithMapIO D a k').1 ∧ (withMap w a k).2 = (dWithMapIO D a k').2 := by
  unfold withMap dWithMapIO
  cases hpos : a.pos with
  | nil => exact ⟨h, rfl⟩
  | cons n rest =>
    simp only []
    have hm := h.rel.maps n
    have hg := h.rel.get?_eq n
    rw [hg]
    cases hr : w.raw? n with
    | none =>
      rw [hr] at hm
      cases hd : D.maps.get? n with
      | none => exact ⟨h, rfl⟩
      | some d => rw [hd] at hm; exact hm.elim
    | some m =>
      rw [hr] at hm
      cases hd : D.maps.get? n with
      | none => rw [hd] at hm; exact hm.elim
      | some d =>
        rw [hd] at hm
        have hn : a.pos.headD "" = n := by rw [hpos]; rfl
        exact hk m d (by rw [hn, hg, hr]) (by rw [hn, hd]) hm

/-! ### (1) inspection and housekeeping: `info`, `vpsc`, `drop`, `reset` -/

/-- the line `info` prints, from the header -/
def infoLine (kind : Kind) (co so : Nat) (sent : Val) : String :=
  let dts : DT → String := fun dt => match dt with
    | .int b sg => (if sg then "i" else "u") ++ toString (b / 8)
    | .flt b => "f" ++ toString (b / 8)
    | .bool => "b1"
  let k := match kind with
    | .plain dt => "plain:" ++ dts dt
    | .packed => "packed"
    | .wide n => "wide:" ++ toString n
    | .recd fs pr => "rec:" ++ ",".intercalate (fs.map dts) ++ ":" ++ toString pr
  s!"kind={k} covord={co} spord={so} sentinel={showVal sent}"

theorem opInfo_eq (w : World) (a : Args) :
    opInfo w a = withMap w a fun m => (w, infoLine m.kind m.covord m.spord m.sent) := rfl

/-- `info n`: the header -/
def dInfoOp (D : DenseWorldIO) (a : Args) : DenseWorldIO × String :=
  dWithMapIO D a fun d =>
    (D, infoLine d.toDense.kind d.toDense.covord d.toDense.spord d.toDense.sent)

theorem relIO_info {w : World} {D : DenseWorldIO} (h : RelIO w D) (a : Args) :
    RelIO (opInfo w a).1 (dInfoOp D a).1 ∧ (opInfo w a).2 = (dInfoOp D a).2 := by
  rw [opInfo_eq]
  unfold dInfoOp
  refine relIO_withMap h fun m d _ _ hc => ⟨h, ?_⟩
  show infoLine _ _ _ _ = infoLine _ _ _ _
  rw [hc.corr.kind, hc.corr.covord, hc.corr.spord, hc.corr.sent]

/-- `vpsc n k=K` (valid_pixels_single_covpix): IndexError outside the coverage map, else the
    members of the valid set inside coverage pixel `K`, ascending -/
def dVpscOp (D : DenseWorldIO) (a : Args) : DenseWorldIO × String :=
  dWithMapIO D a fun d =>
    match a.nat? "k" with
    | none => (D, "bad-op:k")
    | some k =>
      if k ≥ d.c.ncov then (D, errLine .index) else
      (D, showList toString
        (((ApiDenseScalar.dValidSet d.toDense).filter fun p => p >>> d.c.shift == k).map
          fun p => ((p : Nat) : Int)))

theorem relIO_vpsc {w : World} {D : DenseWorldIO} (h : RelIO w D) (hw : w.Good) (a : Args) :
    RelIO (opVpsc w a).1 (dVpscOp D a).1 ∧ (opVpsc w a).2 = (dVpscOp D a).2 := by
  unfold opVpsc dVpscOp
  refine relIO_withMap h fun m d hg _ hc => ?_
  have hok := hw.get hg
  have hv := hok.2.1.blankInvalid
  cases a.nat? "k" with
  | none => exact ⟨h, rfl⟩
  | some k =>
    simp only []
    rw [← hc.c_eq]
    by_cases hk : k ≥ m.c.ncov
    · rw [if_pos hk, if_pos hk]; exact ⟨h, rfl⟩
    · rw [if_neg hk, if_neg hk, C02.vpsc_eq m.c m.vc m.st hok.1.2 hv k (by omega)]
      simp only []
      refine ⟨h, ?_⟩
      rw [← ApiDenseScalar.corr_validSet hc.corr,
        ← C02.validIn_eq_filter m.c m.vc m.st (by omega : k < m.c.ncov), List.map_map,
        List.mergeSort_of_pairwise]
      · rfl
      · rw [List.pairwise_map]
        exact (C02.validIn_sorted m.c m.vc m.st k).imp fun h => by
          simp only [decide_eq_true_eq]
          omega

/-- `drop n`: the name is unbound (its user metadata stay, as in the driver) -/
def dDropOp (D : DenseWorldIO) (a : Args) : DenseWorldIO × String :=
  match a.pos with
  | n :: _ => ({ D with maps := D.maps.filter (·.1 != n) }, "ok")
  | [] => (D, "bad-op:drop")

theorem relC_drop {w : World} {M : DenseWorldC} (h : RelC w M) (n : String) :
    RelC { w with pool := w.pool.filter (·.1 != n) } (M.filter (·.1 != n)) := by
  refine ⟨fun e he => h.owning e (List.mem_filter.1 he).1, fun x => ?_⟩
  have hm := h.maps x
  show match lookup (w.pool.filter (·.1 != n)) x, lookup (M.filter (·.1 != n)) x with
    | some m, some d => CorrC m d
    | none, none => True
    | _, _ => False
  by_cases hx : x = n
  · subst hx
    rw [lookup_filter_self, lookup_filter_self]
    trivial
  · rw [lookup_filter_ne _ hx, lookup_filter_ne _ hx]
    exact hm

theorem relIO_drop {w : World} {D : DenseWorldIO} (h : RelIO w D) (a : Args) :
    RelIO (opDrop w a).1 (dDropOp D a).1 ∧ (opDrop w a).2 = (dDropOp D a).2 := by
  unfold opDrop dDropOp
  cases a.pos with
  | nil => exact ⟨h, rfl⟩
  | cons n rest => exact ⟨h.of_maps (relC_drop h.rel n) rfl rfl rfl rfl, rfl⟩

/-- `reset`: the empty world -/
theorem relIO_reset (w : World) (a : Args) :
    RelIO (opReset w a).1 ({} : DenseWorldIO) ∧ (opReset w a).2 = "ok" :=
  ⟨relIO_empty, rfl⟩

/-! ### (2a) user metadata: `meta`, `getmeta` -/

/-- `meta n k=K v=V`: set one key of the name's user metadata -/
def dMetaOp (D : DenseWorldIO) (a : Args) : DenseWorldIO × String :=
  dWithMapIO D a fun _ =>
    ({ D with metas := (insert D.metas (a.pos.headD "")
        ((a.getD "k" "", a.getD "v" "") ::
          (metaOfT D.metas (a.pos.headD "")).filter (·.1 != a.getD "k" ""))) }, "ok")

theorem relIO_meta {w : World} {D : DenseWorldIO} (h : RelIO w D) (a : Args) :
    RelIO (opMeta w a).1 (dMetaOp D a).1 ∧ (opMeta w a).2 = (dMetaOp D a).2 := by
  unfold opMeta dMetaOp
  refine relIO_withMap h fun m d _ _ _ => ⟨?_, rfl⟩
  refine ⟨h.rel.with_metas _, h.files, h.hpfiles, h.mocs, ?_⟩
  show insert w.metas _ (_ :: (metaOfT w.metas _).filter _) = _
  rw [h.metas]

/-- `getmeta n k=K`: the value of one key, `none` if unset -/
def dGetmetaOp (D : DenseWorldIO) (a : Args) : DenseWorldIO × String :=
  dWithMapIO D a fun _ =>
    (D, (lookup (metaOfT D.metas (a.pos.headD "")) (a.getD "k" "")).getD "none")

theorem relIO_getmeta {w : World} {D : DenseWorldIO} (h : RelIO w D) (a : Args) :
    RelIO (opGetmeta w a).1 (dGetmetaOp D a).1 ∧ (opGetmeta w a).2 = (dGetmetaOp D a).2 := by
  unfold opGetmeta dGetmetaOp
  refine relIO_withMap h fun m d _ _ _ => ⟨h, ?_⟩
  show (lookup (metaOfT w.metas _) _).getD "none" = _
  rw [h.metas]

/-- `pack n r=R` on the extended world: the bit-packed copy, and the user metadata of `n` travel
    to `R` (a bit-packed source goes through `copy()`, which drops them) -/
def dPackIO (D : DenseWorldIO) (a : Args) : DenseWorldIO × String :=
  dWithMapIO D a fun d =>
    match dPack d with
    | .ok d' =>
      ({ D with maps := D.maps.bind (a.getD "r" "tmp") d',
                metas := (insert D.metas (a.getD "r" "tmp")
                  (if d.toDense.kind == .packed then [] else metaOfT D.metas (a.pos.headD ""))) },
        "ok")
    | .error e => (D, errLine e)

theorem relIO_pack {w : World} {D : DenseWorldIO} (h : RelIO w D) (hw : w.Good) (a : Args) :
    RelIO (opPack w a).1 (dPackIO D a).1 ∧ (opPack w a).2 = (dPackIO D a).2 := by
  unfold opPack dPackIO
  refine relIO_withMap h fun m d hg hd hc => ?_
  have hr := apiAsBitPacked_corrC hc (hw.get hg).2.1.blankInvalid
  simp only []
  revert hr
  cases apiAsBitPacked m <;> cases dPack d <;> intro hr
  · cases hr; exact ⟨h, rfl⟩
  · exact hr.elim
  · exact hr.elim
  · refine ⟨⟨(h.rel.bind _ hr).with_metas _, h.files, h.hpfiles, h.mocs, ?_⟩, rfl⟩
    show insert w.metas _ (if m.kind == .packed then [] else metaOfT w.metas _) = _
    rw [h.metas, hc.corr.kind]

/-- the map part and the answer of `pack` are those of the five-family interpreter -/
theorem dPackIO_maps (D : DenseWorldIO) (a : Args) :
    (dPackIO D a).1.maps = (dstepArgsAll D.maps "pack" a).1 ∧
      (dPackIO D a).2 = (dstepArgsAll D.maps "pack" a).2 := by
  show _ = (dPackOp D.maps a).1 ∧ _ = (dPackOp D.maps a).2
  unfold dPackIO dPackOp dWithMapIO dWithMapC
  cases a.pos with
  | nil => exact ⟨rfl, rfl⟩
  | cons n rest =>
    simp only []
    cases D.maps.get? n with
    | none => exact ⟨rfl, rfl⟩
    | some d =>
      simp only []
      cases dPack d <;> exact ⟨rfl, rfl⟩

/-! ### (2b) healsparse FITS files: `write`, `read`, `covread` -/

/-- `write n f=F`: the file holds a snapshot of the map and the name's user metadata (the
    compression flag plays no role) -/
def dWriteOp (D : DenseWorldIO) (a : Args) : DenseWorldIO × String :=
  dWithMapIO D a fun d =>
    ({ D with files := insert D.files (a.getD "f" "f") ⟨d, metaOfT D.metas (a.pos.headD "")⟩ },
      "ok")

theorem relIO_write {w : World} {D : DenseWorldIO} (h : RelIO w D) (hw : w.Good) (ht : w.Typed)
    (a : Args) :
    RelIO (opWrite w a).1 (dWriteOp D a).1 ∧ (opWrite w a).2 = (dWriteOp D a).2 := by
  unfold opWrite dWriteOp
  refine relIO_withMap h fun m d hg _ hc => ⟨?_, rfl⟩
  refine ⟨relC_of_pool h.rel rfl, ?_, h.hpfiles, h.mocs, h.metas⟩
  refine TabRel.insert h.files _ ⟨m, hc, (ht.get hw hg).fileTyped, ?_⟩
  show apiWrite m (metaOfT w.metas _) = _
  rw [h.metas]

/-- the request names at least one covered coverage pixel of the dense map -/
def DRequested (d : DenseMapC) (px : List Nat) : Prop :=
  ∃ k ∈ px, k < d.c.ncov ∧ d.cov k = true

instance (d : DenseMapC) (px : List Nat) : Decidable (DRequested d px) := by
  unfold DRequested; infer_instance

/-- the values of a partial read: inside a requested covered coverage pixel the map's, outside
    the blank -/
def readF (d : DenseMapC) (px : List Nat) : Nat → Val := fun p =>
  if decide ((p >>> d.c.shift) ∈ px) && d.cov (p >>> d.c.shift) then d.toDense.f p
  else d.toDense.blank

/-- … and its mask: the requested covered coverage pixels -/
def readCov (d : DenseMapC) (px : List Nat) : Nat → Bool := fun j => decide (j ∈ px) && d.cov j

/-- **`HealSparseMap.read(file, pixels=…)` densely**: the full read returns the snapshot; a
    partial read is refused (RuntimeError) for a request with duplicates or naming no covered
    coverage pixel (out-of-range entries are ignored), and otherwise returns the restriction of
    the snapshot to the requested ∧ covered coverage pixels -/
def dReadMap (d : DenseMapC) : Option (List Nat) → Except Err DenseMapC
  | none => .ok d
  | some px =>
    if px.Nodup ∧ DRequested d px then .ok ⟨{ d.toDense with f := readF d px }, readCov d px⟩
    else .error .runtime

theorem requested_iff {m : MapObj} {d : DenseMapC} (hc : CorrC m d) (px : List Nat) :
    C03.Requested m px ↔ DRequested d px := by
  unfold C03.Requested DRequested
  rw [← hc.c_eq]
  constructor
  · rintro ⟨k, hk, h1, h2⟩
    exact ⟨k, hk, h1, by rw [← hc.cov k h1]; exact h2⟩
  · rintro ⟨k, hk, h1, h2⟩
    exact ⟨k, hk, h1, by rw [hc.cov k h1]; exact h2⟩

/-- **reading back what was written**: the reader's outcome on the written form of a typed map
    that agrees with `d` is the dense read of `d` -/
theorem apiRead_corrC {m : MapObj} {d : DenseMapC} (hc : CorrC m d) (ht : m.FileTyped)
    (md : List (String × String)) (px : Option (List Nat)) :
    OutRelM (apiRead (apiWrite m md) px) (dReadMap d px) := by
  cases px with
  | none =>
    rw [C03.api_read_write_full_partial m md ht]
    show CorrC _ d
    have hv : ({ m with cache := none, view := none } : MapObj) = { m with cache := none } := by
      have := hc.corr.view
      cases m
      simp only at this
      subst this
      rfl
    rw [hv]
    exact hc.cache none
  | some px =>
    show OutRelM _ (if px.Nodup ∧ DRequested d px then
      .ok ⟨{ d.toDense with f := readF d px }, readCov d px⟩ else .error .runtime)
    by_cases hreq : px.Nodup ∧ DRequested d px
    · rw [if_pos hreq]
      obtain ⟨m', hr, he, hwf, _, _, habs, hcov⟩ :=
        C03.api_read_pixels_spec_typed m md px hc.corr.wf ht hreq.1 ((requested_iff hc px).2 hreq.2)
      rw [hr]
      have hcfg : m'.c = m.c := by rw [he]; rfl
      have hnp : m'.npix = m.npix := by rw [he]; rfl
      refine ⟨⟨hwf, by rw [he], ?_, ?_, ?_, ?_, ?_⟩, ?_⟩
      · rw [he]; exact hc.corr.covord
      · rw [he]; exact hc.corr.spord
      · rw [he]; exact hc.corr.kind
      · rw [he]; exact hc.corr.sent
      · intro p hp
        rw [hnp] at hp
        rw [habs p hp]
        show _ = readF d px p
        unfold readF
        rw [← hc.c_eq, ← hc.cov _ (covpix_lt m.c p hp), hc.corr.abs p hp,
          ApiDenseScalar.corr_blank hc.corr]
      · intro j hj
        rw [hcfg] at hj
        rw [hcov j hj]
        show _ = readCov d px j
        unfold readCov
        rw [hc.cov j hj]
    · rw [if_neg hreq]
      have : apiRead (apiWrite m md) (some px) = .error .runtime := by
        rw [C03.api_read_pixels_error_iff_typed m md px ht, requested_iff hc px]
        by_cases h1 : px.Nodup
        · exact Or.inr fun h2 => hreq ⟨h1, h2⟩
        · exact Or.inl h1
      rw [this]
      exact rfl

/-- the `pixels=` argument of a `read` line -/
def readPx (a : Args) : Option (Option (List Nat)) :=
  match a.get? "pixels" with
  | none => some none
  | some t => (parseNats t).map some

theorem opRead_eqIO (w : World) (a : Args) :
    opRead w a =
      match lookup w.files (a.getD "f" "f") with
      | none => (w, "bad-op:no-such-map")
      | some fo =>
        match readPx a with
        | none => (w, "bad-op:pixels")
        | some px =>
          match apiRead fo px with
          | .ok m =>
            ({ (w.bind (a.getD "r" "tmp") m) with
                metas := insert w.metas (a.getD "r" "tmp") fo.mdata }, "ok")
          | .error e => (w, errLine e) := by
  unfold opRead readPx
  cases a.get? "pixels" <;> rfl

/-- `read f=F r=R [pixels=…]`: the (restricted) snapshot is bound to `R`, the file's user
    metadata become the metadata of `R` -/
def dReadOp (D : DenseWorldIO) (a : Args) : DenseWorldIO × String :=
  match lookup D.files (a.getD "f" "f") with
  | none => (D, "bad-op:no-such-map")
  | some df =>
    match readPx a with
    | none => (D, "bad-op:pixels")
    | some px =>
      match dReadMap df.snap px with
      | .ok d =>
        ({ D with maps := D.maps.bind (a.getD "r" "tmp") d,
                  metas := insert D.metas (a.getD "r" "tmp") df.mdata }, "ok")
      | .error e => (D, errLine e)

theorem relIO_read {w : World} {D : DenseWorldIO} (h : RelIO w D) (a : Args) :
    RelIO (opRead w a).1 (dReadOp D a).1 ∧ (opRead w a).2 = (dReadOp D a).2 := by
  rw [opRead_eqIO]
  unfold dReadOp
  have hf := h.files (a.getD "f" "f")
  revert hf
  cases lookup w.files (a.getD "f" "f") <;> cases lookup D.files (a.getD "f" "f") <;> intro hf
  · exact ⟨h, rfl⟩
  · exact hf.elim
  · exact hf.elim
  · rename_i fo df
    obtain ⟨m, hc, ht, rfl⟩ := hf
    simp only []
    cases readPx a with
    | none => exact ⟨h, rfl⟩
    | some px =>
      simp only []
      have hr := apiRead_corrC hc ht df.mdata px
      revert hr
      cases apiRead (apiWrite m df.mdata) px <;> cases dReadMap df.snap px <;> intro hr
      · cases hr; exact ⟨h, rfl⟩
      · exact hr.elim
      · exact hr.elim
      · refine ⟨⟨(h.rel.bind _ hr).with_metas _, h.files, h.hpfiles, h.mocs, ?_⟩, rfl⟩
        show insert w.metas _ df.mdata = _
        rw [h.metas]

/-- `covread f=F` (`HealSparseCoverage.read`): the coverage mask of the snapshot -/
def dCovreadOp (D : DenseWorldIO) (a : Args) : DenseWorldIO × String :=
  match lookup D.files (a.getD "f" "f") with
  | none => (D, "bad-op:no-such-map")
  | some df => (D, showBits df.snap.covMask)

theorem opCovread_eqIO (w : World) (a : Args) :
    opCovread w a =
      match lookup w.files (a.getD "f" "f") with
      | none => (w, "bad-op:no-such-map")
      | some fo => (w, showBits (readCoverage (cfgOf fo.covord fo.spord) fo.file)) := rfl

theorem relIO_covread {w : World} {D : DenseWorldIO} (h : RelIO w D) (a : Args) :
    RelIO (opCovread w a).1 (dCovreadOp D a).1 ∧ (opCovread w a).2 = (dCovreadOp D a).2 := by
  rw [opCovread_eqIO]
  unfold dCovreadOp
  have hf := h.files (a.getD "f" "f")
  revert hf
  cases lookup w.files (a.getD "f" "f") <;> cases lookup D.files (a.getD "f" "f") <;> intro hf
  · exact ⟨h, rfl⟩
  · exact hf.elim
  · exact hf.elim
  · obtain ⟨m, hc, _, rfl⟩ := hf
    refine ⟨h, ?_⟩
    show showBits (apiCovMask m) = _
    rw [hc.covMask_eq]

/-! ### (3) HEALPix interchange: `fromhp`, `genhp` (NEST), `hpximplicit`, `hpxread` -/

open ApiHealpixRT in
/-- **`HealSparseMap(healpix_map=…)` densely**: the checks of the constructor (orders, length,
    integer array ⇔ integer sentinel, `check_sentinel`); the map holds the array's entry at every
    SELECTED pixel (`hp[p] > UNSEEN`) and its own sentinel elsewhere; a coverage pixel is covered
    iff it holds a selected pixel -/
def dFromHp (co so : Nat) (dt : DT) (sentinel : Option Val) (hp : List Val) (py : Bool) :
    Except Err DenseMapC :=
  if so < co then .error .value else
  if hp.length != (cfgOf co so).npix then .error .value else
  if dt.isInt && !(sentinel.isSome && py) then .error .value else
  if dt.isFlt && (sentinel.isSome && py) then .error .value else
  match checkSentinel dt sentinel with
  | .error e => .error e
  | .ok sent =>
    .ok ⟨⟨co, so, .plain dt, sent,
        fun p => if hpSel dt (hp[p]?.getD sent) = true then hp[p]?.getD sent else sent⟩,
      fun k => (List.range hp.length).any fun p =>
        hpSel dt (hp[p]?.getD sent) && p >>> (cfgOf co so).shift == k⟩

open ApiHealpixRT in
theorem apiFromHealpix_corrC (co so : Nat) (dt : DT) (sentinel : Option Val) (hp : List Val)
    (py : Bool) : OutRelM (apiFromHealpix co so dt sentinel hp py) (dFromHp co so dt sentinel hp py) := by
  cases hA : apiFromHealpix co so dt sentinel hp py with
  | error e =>
    have hA' := hA
    rw [apiFromHealpix_eq] at hA'
    unfold fromHpSpec at hA'
    unfold dFromHp
    by_cases h1 : so < co
    · rw [if_pos h1] at hA' ⊢; cases hA'; rfl
    · rw [if_neg h1] at hA' ⊢
      by_cases h2 : (hp.length != (cfgOf co so).npix) = true
      · rw [if_pos h2] at hA' ⊢; cases hA'; rfl
      · rw [if_neg h2] at hA' ⊢
        by_cases h3 : (dt.isInt && !(sentinel.isSome && py)) = true
        · rw [if_pos h3] at hA' ⊢; cases hA'; rfl
        · rw [if_neg h3] at hA' ⊢
          by_cases h4 : (dt.isFlt && (sentinel.isSome && py)) = true
          · rw [if_pos h4] at hA' ⊢; cases hA'; rfl
          · rw [if_neg h4] at hA' ⊢
            cases hcs : checkSentinel dt sentinel with
            | error e' => rw [hcs] at hA'; cases hA'; rfl
            | ok sent => rw [hcs] at hA'; cases hA'
  | ok m =>
    obtain ⟨g1, g2, g3, g4, g5, gok, glen, gabs, gcov⟩ := fromHp_ok hA
    have hA' := hA
    rw [apiFromHealpix_eq] at hA'
    unfold fromHpSpec at hA'
    unfold dFromHp
    by_cases h1 : so < co
    · rw [if_pos h1] at hA'; cases hA'
    · rw [if_neg h1] at hA' ⊢
      by_cases h2 : (hp.length != (cfgOf co so).npix) = true
      · rw [if_pos h2] at hA'; cases hA'
      · rw [if_neg h2] at hA' ⊢
        by_cases h3 : (dt.isInt && !(sentinel.isSome && py)) = true
        · rw [if_pos h3] at hA'; cases hA'
        · rw [if_neg h3] at hA' ⊢
          by_cases h4 : (dt.isFlt && (sentinel.isSome && py)) = true
          · rw [if_pos h4] at hA'; cases hA'
          · rw [if_neg h4] at hA' ⊢
            cases hcs : checkSentinel dt sentinel with
            | error e' => rw [hcs] at hA'; cases hA'
            | ok sent =>
              rw [hcs] at hA'
              have hs : m.sent = sent := by cases hA'; rfl
              have hcfg : m.c = cfgOf co so := by unfold MapObj.c; rw [g1, g2]
              refine ⟨⟨gok.1, g5, g1, g2, g3, hs, ?_⟩, ?_⟩
              · intro p hp'
                have hlt : p < hp.length := by rw [glen]; exact hp'
                rw [gabs p hlt]
                show _ = if hpSel dt (hp[p]?.getD sent) = true then hp[p]?.getD sent else sent
                rw [List.getElem?_eq_getElem hlt, Option.getD_some, hs]
              · intro k hk
                show _ = (List.range hp.length).any fun p =>
                  hpSel dt (hp[p]?.getD sent) && p >>> (cfgOf co so).shift == k
                rw [Bool.eq_iff_iff, gcov k hk, List.any_eq_true, hcfg]
                constructor
                · rintro ⟨p, hlt, h5, h6⟩
                  refine ⟨p, List.mem_range.2 hlt, ?_⟩
                  rw [List.getElem?_eq_getElem hlt, Option.getD_some, h5, h6]
                  simp
                · rintro ⟨p, hp1, hp2⟩
                  have hlt := List.mem_range.1 hp1
                  rw [List.getElem?_eq_getElem hlt, Option.getD_some] at hp2
                  simp only [Bool.and_eq_true, beq_iff_eq] at hp2
                  exact ⟨p, hlt, hp2.1, hp2.2⟩

/-- the arguments of a `fromhp` line -/
def fromhpReq (a : Args) : Option (DT × Nat × Nat × Option Val × List Val) :=
  match (a.get? "dtype").bind parseDT, a.nat? "covord", a.nat? "spord", optVal a "sentinel",
        parseVals (a.getD "vals" "_") with
  | some dt, some co, some so, some sent, some vals => some (dt, co, so, sent, vals)
  | _, _, _, _, _ => none

/-- the NEST array of a `fromhp` line: the values, or the RING values reordered through `r2n=` -/
def fromhpNest (a : Args) (vals : List Val) : Option (List Val) :=
  if a.getD "nest" "1" == "1" then some vals
  else (parseNats (a.getD "r2n" "_")).map fun t =>
    (reorderRingToNest (fun i => rd t.toArray i 0) vals.toArray (.num 0 0)).toList

theorem opFromhp_eqIO (w : World) (a : Args) :
    opFromhp w a = match fromhpReq a with
      | some (dt, co, so, sent, vals) =>
        (match fromhpNest a vals with
         | none => (w, "bad-op:r2n")
         | some nest =>
           match apiFromHealpix co so dt sent nest
              (a.getD "senttype" (if dt.isInt then "int" else "flt") == "int") with
           | .ok m => (w.bind (a.getD "r" "tmp") m, "ok")
           | .error e => (w, errLine e))
      | none => (w, "bad-op:fromhp") := by
  unfold opFromhp fromhpReq
  cases (a.get? "dtype").bind parseDT <;> cases a.nat? "covord" <;> cases a.nat? "spord" <;>
    cases optVal a "sentinel" <;> cases parseVals (a.getD "vals" "_") <;> rfl

/-- `fromhp r=R dtype= covord= spord= sentinel= vals= [nest=0 r2n=]` -/
def dFromhpOp (D : DenseWorldIO) (a : Args) : DenseWorldIO × String :=
  match fromhpReq a with
  | some (dt, co, so, sent, vals) =>
    (match fromhpNest a vals with
     | none => (D, "bad-op:r2n")
     | some nest =>
       match dFromHp co so dt sent nest
          (a.getD "senttype" (if dt.isInt then "int" else "flt") == "int") with
       | .ok d => ({ D with maps := D.maps.bind (a.getD "r" "tmp") d }, "ok")
       | .error e => (D, errLine e))
  | none => (D, "bad-op:fromhp")

theorem relIO_fromhp {w : World} {D : DenseWorldIO} (h : RelIO w D) (a : Args) :
    RelIO (opFromhp w a).1 (dFromhpOp D a).1 ∧ (opFromhp w a).2 = (dFromhpOp D a).2 := by
  rw [opFromhp_eqIO]
  unfold dFromhpOp
  cases fromhpReq a with
  | none => exact ⟨h, rfl⟩
  | some r =>
    obtain ⟨dt, co, so, sent, vals⟩ := r
    simp only []
    cases fromhpNest a vals with
    | none => exact ⟨h, rfl⟩
    | some nest =>
      simp only []
      have hr := apiFromHealpix_corrC co so dt sent nest
        (a.getD "senttype" (if dt.isInt then "int" else "flt") == "int")
      revert hr
      cases apiFromHealpix co so dt sent nest
          (a.getD "senttype" (if dt.isInt then "int" else "flt") == "int") <;>
        cases dFromHp co so dt sent nest
          (a.getD "senttype" (if dt.isInt then "int" else "flt") == "int") <;> intro hr
      · cases hr; exact ⟨h, rfl⟩
      · exact hr.elim
      · exact hr.elim
      · exact ⟨h.of_maps (h.rel.bind _ hr) rfl rfl rfl rfl, rfl⟩

/-- the kinds `generate_healpix_map` refuses without a key -/
def dGenSingleErr (k : Kind) : Option Err :=
  match k with
  | .recd _ _ => some .value
  | .wide _ => some .notImpl
  | _ => none

/-- the exported NEST array: the value at every valid pixel, `UNSEEN` of the output dtype (the
    sentinel of a boolean map) elsewhere -/
def dExport (d : DenseMap) : List Val :=
  (List.range d.npix).map fun p =>
    if ApiDenseScalar.dValid d (d.f p) = true then d.f p else ApiHealpixRT.genFill d.hdr

/-- the exported RING array through the tables `n2r` / `r2n` (ANY tables): position `r` is
    written iff some valid pixel is sent there by `n2r`, and then holds what the map reads at
    `r2n r` (`get_values_pix(ring pixels, nest=False)`) -/
def dExportRing (d : DenseMap) (n2r r2n : Array Nat) : List Val :=
  (List.range d.npix).map fun r =>
    if (ApiDenseScalar.dValidSet d).any (fun p => rd n2r p 0 == r) then d.f (rd r2n r 0)
    else ApiHealpixRT.genFill d.hdr

/-- the export proper -/
def dExportP (d : DenseMap) : Option (Array Nat × Array Nat) → List Val
  | none => dExport d
  | some (n2r, r2n) => dExportRing d n2r r2n

/-- **`generate_healpix_map(nside, reduction, nest)` densely** (no `key`): record maps →
    `ValueError`, wide masks → `NotImplementedError`; every cell must be a float64; a coarser
    order degrades first (`dDegradeC`), a finer one is refused -/
def dGenhp (d : DenseMapC) (ordOut : Option Nat) (red : String)
    (perm : Option (Array Nat × Array Nat)) : Except Err (List Val) :=
  match dGenSingleErr d.toDense.kind with
  | some e => .error e
  | none =>
    if !ApiDenseMulti.dFitF64 d.toDense then .error .inexact else
    if ordOut.getD d.toDense.spord < d.toDense.spord then
      (match dDegradeC d (ordOut.getD d.toDense.spord) red none with
       | .error e => .error e
       | .ok s => .ok (dExportP s.toDense perm))
    else if ordOut.getD d.toDense.spord > d.toDense.spord then .error .value
    else .ok (dExportP d.toDense perm)

theorem genFill_corr {s : MapObj} {ds : DenseMapC} (hc : CorrC s ds) :
    ApiHealpixRT.genFill s = ApiHealpixRT.genFill ds.toDense.hdr := by
  unfold ApiHealpixRT.genFill
  show (match s.kind with
    | .plain (.int _ _) => unseenOf (.flt 64)
    | .plain (.flt b) => unseenOf (.flt b)
    | _ => s.sent) =
    (match ds.toDense.kind with
    | .plain (.int _ _) => unseenOf (.flt 64)
    | .plain (.flt b) => unseenOf (.flt b)
    | _ => ds.toDense.sent)
  rw [hc.corr.kind, hc.corr.sent]

open ApiHealpixRT in
theorem export_corr {s : MapObj} {ds : DenseMapC} (hc : CorrC s ds) (hs : s.Ok) :
    exportFull s none = .ok (dExport ds.toDense) := by
  obtain ⟨l, hl, hlen, hget⟩ := exportFull_nest hs.1 hs.2.1.blankInvalid
  rw [hl]
  congr 1
  have hnp : s.npix = ds.toDense.npix := hc.npix_eq
  apply List.ext_getElem
  · rw [hlen, hnp]; simp [dExport]
  · intro p h1 h2
    rw [hget p h1]
    have hp : p < s.npix := by rw [← hlen]; exact h1
    simp only [dExport, List.getElem_map, List.getElem_range]
    rw [ApiDenseScalar.corr_valid hc.corr, hc.corr.abs p hp, genFill_corr hc]

/-- writes whose value depends on the target position only: the final array does not depend on
    the order (nor on repeats) -/
theorem foldl_set_target {α ι : Type} (L : List ι) (pos : ι → Nat) (g : Nat → α) (A : Array α)
    (r : Nat) :
    (L.foldl (fun a x => a.setIfInBounds (pos x) (g (pos x))) A)[r]? =
      if r < A.size ∧ ∃ x ∈ L, pos x = r then some (g r) else A[r]? := by
  induction L generalizing A with
  | nil => simp
  | cons x L ih =>
    rw [List.foldl_cons, ih, Array.size_setIfInBounds, Array.getElem?_setIfInBounds]
    by_cases h1 : r < A.size
    · by_cases h3 : pos x = r
      · have hR : r < A.size ∧ ∃ y ∈ x :: L, pos y = r := ⟨h1, x, List.mem_cons_self, h3⟩
        rw [if_pos hR]
        by_cases h2 : r < A.size ∧ ∃ y ∈ L, pos y = r
        · rw [if_pos h2]
        · rw [if_neg h2, if_pos h3, if_pos (h3 ▸ h1), h3]
      · have hiff : (r < A.size ∧ ∃ y ∈ x :: L, pos y = r) ↔ (r < A.size ∧ ∃ y ∈ L, pos y = r) := by
          constructor
          · rintro ⟨a, y, hy, hyr⟩
            rcases List.mem_cons.1 hy with rfl | hy
            · exact absurd hyr h3
            · exact ⟨a, y, hy, hyr⟩
          · rintro ⟨a, y, hy, hyr⟩
            exact ⟨a, y, List.mem_cons_of_mem _ hy, hyr⟩
        rw [if_neg h3]
        by_cases h2 : r < A.size ∧ ∃ y ∈ L, pos y = r
        · rw [if_pos h2, if_pos (hiff.2 h2)]
        · rw [if_neg h2, if_neg (fun h => h2 (hiff.1 h))]
    · have hn1 : ¬ (r < A.size ∧ ∃ y ∈ L, pos y = r) := fun h => h1 h.1
      have hn2 : ¬ (r < A.size ∧ ∃ y ∈ x :: L, pos y = r) := fun h => h1 h.1
      rw [if_neg hn1, if_neg hn2]
      have hnone : A[r]? = none := by simp; omega
      rw [hnone]
      by_cases h3 : pos x = r
      · rw [if_pos h3, if_neg (by omega)]
      · rw [if_neg h3]

open ApiHealpixRT in
/-- **the RING export is a function of the dense map**, for ANY pair of tables whose second one
    stays inside the sphere -/
theorem export_ring_corr {s : MapObj} {ds : DenseMapC} (hc : CorrC s ds) (hs : s.Ok)
    (n2r r2n : Array Nat) (hb : ∀ r, rd r2n r 0 < s.npix) :
    exportFull s (some (n2r, r2n)) = .ok (dExportRing ds.toDense n2r r2n) := by
  have hv := hs.2.1.blankInvalid
  unfold exportFull generateHealpixRing
  simp only [validPixels_validList hs.1 hv, Option.map_some, List.foldl_map, Int.toNat_natCast, id]
  congr 1
  have hnp : s.npix = ds.toDense.npix := hc.npix_eq
  apply List.ext_getElem?
  intro r
  rw [Array.getElem?_toList,
    foldl_set_target (validList s) (fun p => rd n2r p 0)
      (fun r => HS.abs s.c s.vc s.st (rd r2n r 0))]
  unfold dExportRing
  rw [List.getElem?_map, Array.size_replicate]
  have hex : (∃ x ∈ validList s, rd n2r x 0 = r) ↔
      (ApiDenseScalar.dValidSet ds.toDense).any (fun p => rd n2r p 0 == r) = true := by
    rw [← ApiDenseScalar.corr_validSet hc.corr, List.any_eq_true]
    constructor
    · rintro ⟨x, hx, hxr⟩
      exact ⟨x, ApiMoc.mem_validSet.2 ((mem_validList hs.1 hv x).1 hx), by simpa using hxr⟩
    · rintro ⟨x, hx, hxr⟩
      exact ⟨x, (mem_validList hs.1 hv x).2 (ApiMoc.mem_validSet.1 hx), by simpa using hxr⟩
  by_cases hr : r < s.npix
  · have hr' : r < ds.toDense.npix := hnp ▸ hr
    rw [List.getElem?_range hr', Option.map_some]
    by_cases he : ∃ x ∈ validList s, rd n2r x 0 = r
    · have e : HS.abs s.c s.vc s.st (rd r2n r 0) = ds.toDense.f (rd r2n r 0) :=
        hc.corr.abs _ (hb r)
      rw [if_pos ⟨hr, he⟩, if_pos (hex.1 he), e]
    · rw [if_neg (fun h => he h.2), if_neg (fun h => he (hex.2 h))]
      simp only [Array.getElem?_replicate]
      rw [if_pos (show r < s.c.npix from hr), genFill_corr hc]
  · have hr' : ¬ r < ds.toDense.npix := hnp ▸ hr
    rw [if_neg (fun h => hr h.1)]
    simp only [Array.getElem?_replicate]
    rw [if_neg (show ¬ r < s.c.npix from hr), List.getElem?_eq_none (by simpa using hr')]
    rfl

theorem export_corrP {s : MapObj} {ds : DenseMapC} (hc : CorrC s ds) (hs : s.Ok)
    (perm : Option (Array Nat × Array Nat))
    (hb : ∀ n2r r2n, perm = some (n2r, r2n) → ∀ r, rd r2n r 0 < s.npix) :
    ApiHealpixRT.exportFull s perm = .ok (dExportP ds.toDense perm) := by
  cases perm with
  | none => exact export_corr hc hs
  | some t =>
    obtain ⟨n2r, r2n⟩ := t
    exact export_ring_corr hc hs n2r r2n (hb n2r r2n rfl)

open ApiHealpixRT in
/-- the export without key is a function of the dense map: same array, same refusals (RING:
    provided the `ring_to_nest` table stays inside the OUTPUT sphere) -/
theorem genhp_corr {m : MapObj} {d : DenseMapC} (hc : CorrC m d) (hm : m.Ok) (ordOut : Option Nat)
    (red : String) (perm : Option (Array Nat × Array Nat))
    (hb : ∀ n2r r2n, perm = some (n2r, r2n) → ∀ r, rd r2n r 0 < 12 * 4 ^ (ordOut.getD m.spord)) :
    apiGenerateHealpix m ordOut red none perm = dGenhp d ordOut red perm := by
  rw [apiGenerateHealpix_eq]
  unfold genSpec dGenhp
  have hgs : genSingle m none =
      match dGenSingleErr m.kind with
      | some e => .error e
      | none => .ok m := by
    unfold genSingle dGenSingleErr
    cases m.kind <;> rfl
  rw [hgs, ← hc.corr.kind, ← hc.corr.spord]
  cases dGenSingleErr m.kind with
  | some e => rfl
  | none =>
    simp only []
    rw [ApiDenseMulti.cellsFitF64_dense hc.corr]
    by_cases hfit : (!ApiDenseMulti.dFitF64 d.toDense) = true
    · rw [if_pos hfit, if_pos hfit]
    · rw [if_neg hfit, if_neg hfit]
      by_cases h1 : ordOut.getD m.spord < m.spord
      · rw [if_pos h1, if_pos h1]
        have hd := degrade_corrC hc hm.2.1 (red := red) (w := none) (wd := none) trivial
          (fun wm hw => nomatch hw) (ordOut.getD m.spord)
        revert hd
        cases hA : apiDegrade m (ordOut.getD m.spord) red none <;>
          cases dDegradeC d (ordOut.getD m.spord) red none <;> intro hd
        · cases hd; rfl
        · exact hd.elim
        · exact hd.elim
        · rename_i s ds
          have hsok := Ok.apiDegrade hm hA
          have hso := (ApiDegrade.apiDegrade_ok hm.1 hm.2.1.blankInvalid h1 hA).spord
          have hnp : s.npix = 12 * 4 ^ (ordOut.getD m.spord) := by
            show (cfgOf s.covord s.spord).npix = _
            rw [ApiDegrade.cfgOf_npix hsok.1.1, hso]
          exact export_corrP hd hsok perm fun n2r r2n hp r => by rw [hnp]; exact hb n2r r2n hp r
      · rw [if_neg h1, if_neg h1]
        by_cases h2 : ordOut.getD m.spord > m.spord
        · rw [if_pos h2, if_pos h2]
        · rw [if_neg h2, if_neg h2]
          have hnp : m.npix = 12 * 4 ^ (ordOut.getD m.spord) := by
            show (cfgOf m.covord m.spord).npix = _
            rw [ApiDegrade.cfgOf_npix hm.1.1, show ordOut.getD m.spord = m.spord by omega]
          exact export_corrP hc hm perm fun n2r r2n hp r => by rw [hnp]; exact hb n2r r2n hp r

/-- writing indices `p < N` into a table of entries `< N` keeps every entry `< N` -/
theorem foldl_set_bound (L : List Nat) (pos : Nat → Nat) (N : Nat) (A : Array Nat)
    (hA : ∀ r, rd A r 0 < N) (hL : ∀ p ∈ L, p < N) :
    ∀ r, rd (L.foldl (fun (a : Array Nat) p => a.setIfInBounds (pos p) p) A) r 0 < N := by
  induction L generalizing A with
  | nil => exact hA
  | cons x L ih =>
    rw [List.foldl_cons]
    refine ih _ (fun r => ?_) fun p hp => hL p (List.mem_cons_of_mem _ hp)
    unfold rd
    rw [Array.getElem?_setIfInBounds]
    split
    · split
      · exact hL x List.mem_cons_self
      · exact Nat.lt_of_le_of_lt (Nat.zero_le _) (hL x List.mem_cons_self)
    · exact hA r

/-- the `ring_to_nest` table the driver computes from a `nest_to_ring` table no longer than the
    sphere stays inside the sphere -/
theorem invTable_bound (n2r : List Nat) {N : Nat} (hN : 0 < N) (hL : n2r.length ≤ N) :
    ∀ r, rd (ApiHealpixRT.invTable n2r) r 0 < N := by
  unfold ApiHealpixRT.invTable
  refine foldl_set_bound _ _ N _ (fun r => ?_) fun p hp => ?_
  · unfold rd
    rw [Array.getElem?_replicate]
    split <;> exact hN
  · exact Nat.lt_of_lt_of_le (List.mem_range.1 hp) hL

/-- the export tables of a `genhp` line: none (NEST), or the `n2r=` table and the inverse table
    the driver computes from it -/
def genhpPerm (a : Args) : Option (Option (Array Nat × Array Nat)) :=
  if a.getD "nest" "1" == "1" then some none
  else match parseNats (a.getD "n2r" "_") with
    | some n2r => some (some (n2r.toArray, ApiHealpixRT.invTable n2r))
    | none => none

/-- the `genhp` lines covered: no `key=`; NEST export (`nest=1`, the default), or RING export
    through an `n2r=` table NO LONGER than the output map, whose order `ord=` is then given on
    the line (a longer table makes the model read `abs` outside the sphere: `C10World`) -/
def genhpOk (a : Args) : Bool :=
  (a.nat? "key").isNone &&
    (a.getD "nest" "1" == "1" ||
      match parseNats (a.getD "n2r" "_"), a.nat? "ord" with
      | some t, some o => decide (t.length ≤ 12 * 4 ^ o)
      | some _, none => false
      | none, _ => true)

/-- `genhp n [ord=] [red=] [nest=0 n2r=]` (no key): the exported array is printed -/
def dGenhpOp (D : DenseWorldIO) (a : Args) : DenseWorldIO × String :=
  dWithMapIO D a fun d =>
    match genhpPerm a with
    | none => (D, "bad-op:n2r")
    | some perm =>
      match dGenhp d (a.nat? "ord") (a.getD "red" "mean") perm with
      | .ok l => (D, showVals l)
      | .error e => (D, errLine e)

theorem relIO_genhp {w : World} {D : DenseWorldIO} (h : RelIO w D) (hw : w.Good) (a : Args)
    (ha : genhpOk a = true) :
    RelIO (opGenhp w a).1 (dGenhpOp D a).1 ∧ (opGenhp w a).2 = (dGenhpOp D a).2 := by
  unfold genhpOk at ha
  rw [Bool.and_eq_true] at ha
  have hkey : a.nat? "key" = none := by
    cases hk : a.nat? "key" with
    | none => rfl
    | some x => rw [hk] at ha; exact absurd ha.1 (by simp)
  have ha2 := ha.2
  unfold opGenhp dGenhpOp genhpPerm
  refine relIO_withMap h fun m d hg _ hc => ?_
  simp only [hkey]
  split
  · rename_i hh
    exfalso
    revert hh
    cases m.kind <;> simp
  · cases hn : (a.getD "nest" "1" == "1") with
    | true =>
      simp only [if_true]
      rw [genhp_corr hc (hw.get hg) _ _ none (fun _ _ hp => nomatch hp)]
      cases dGenhp d (a.nat? "ord") (a.getD "red" "mean") none <;> exact ⟨h, rfl⟩
    | false =>
      rw [hn] at ha2
      simp only [Bool.false_eq_true, if_false, Bool.false_or] at ha2 ⊢
      cases hp : parseNats (a.getD "n2r" "_") with
      | none => exact ⟨h, rfl⟩
      | some n2r =>
        rw [hp] at ha2
        cases ho : a.nat? "ord" with
        | none => rw [ho] at ha2; cases ha2
        | some o =>
          rw [ho] at ha2
          simp only [decide_eq_true_eq] at ha2
          simp only []
          have hN : 0 < 12 * 4 ^ o := Nat.mul_pos (by decide) (Nat.pow_pos (by decide))
          have e : (List.range n2r.length).foldl
              (fun (acc : Array Nat) p => acc.setIfInBounds (rd n2r.toArray p 0) p)
              (Array.replicate n2r.length 0) = ApiHealpixRT.invTable n2r := rfl
          rw [e, genhp_corr hc (hw.get hg) (some o) _ (some (n2r.toArray, ApiHealpixRT.invTable n2r))
            (fun a1 a2 hp r => by cases hp; exact invTable_bound n2r hN ha2 r)]
          cases dGenhp d (some o) (a.getD "red" "mean")
            (some (n2r.toArray, ApiHealpixRT.invTable n2r)) <;> exact ⟨h, rfl⟩

/-- `hpximplicit f=F dtype= spord= vals= [ordering=RING]`: an IMPLICIT HEALPix-format file (a
    full-sky column) is stored as given -/
def dHpximplicitOp (D : DenseWorldIO) (a : Args) : DenseWorldIO × String :=
  match (a.get? "dtype").bind parseDT, a.nat? "spord", parseVals (a.getD "vals" "_") with
  | some dt, some so, some vals =>
    ({ D with hpfiles := (insert D.hpfiles (a.getD "f" "f")
        (.file (.implicit so dt (a.getD "ordering" "NESTED" == "RING") vals))) }, "ok")
  | _, _, _ => (D, "bad-op:hpximplicit")

theorem relIO_hpximplicit {w : World} {D : DenseWorldIO} (h : RelIO w D) (a : Args) :
    RelIO (opHpximplicit w a).1 (dHpximplicitOp D a).1 ∧
      (opHpximplicit w a).2 = (dHpximplicitOp D a).2 := by
  unfold opHpximplicit dHpximplicitOp
  cases (a.get? "dtype").bind parseDT <;> cases a.nat? "spord" <;>
    cases parseVals (a.getD "vals" "_") <;> try exact ⟨h, rfl⟩
  exact ⟨⟨relC_of_pool h.rel rfl, h.files, TabRel.insert h.hpfiles _ rfl, h.mocs, h.metas⟩, rfl⟩

/-- a write request on a coverage-aware dense map (`update_values_pix`): the values by
    `ApiDense.dUpdate`, the mask grown by the coverage pixels of the pixels addressed -/
def dUpdateC (d : DenseMapC) (op : String) (pix : List Nat) (vals : Option (List Val))
    (single : Bool) : Except Err DenseMapC :=
  withCov (grown d (.upd op pix vals single)) (dUpdate d.toDense op pix vals single none)

theorem apiUpdate_corrC {m : MapObj} {d : DenseMapC} (hc : CorrC m d) (op : String)
    (pix : List Nat) (vals : Option (List Val)) (single : Bool) :
    OutRelM (apiUpdate m op pix vals single) (dUpdateC d op pix vals single) := by
  refine outRelM_withCov (apiUpdate_corr hc.corr op pix vals single none) ?_
  intro m' hA k hk
  have hcm : m'.c = m.c := by rw [(ApiRanges.apiUpdate_ok hA).2.2]; rfl
  rw [hcm] at hk ⊢
  rw [apiUpdate_cov hc.corr.wf hA k hk, hc.cov k hk, hc.c_eq]
  rfl

/-- **reading a HEALPix-format file densely**: an EXPLICIT file (pixel / value columns) is
    `make_empty` + `update_values_pix` (IndexError on an empty table); an IMPLICIT file is the
    constructor on the (reordered) column with the default sentinel -/
def dReadHp (f : HpFile) (co : Nat) (r2n : Option (Array Nat)) : Except Err DenseMapC :=
  match f with
  | .explicit so dt S pix vals =>
    if pix.isEmpty then .error .index else
    (match apiMakeEmpty co so (.plain dt) (some S) [] with
     | .error e => .error e
     | .ok e => dUpdateC (dEmptyC e []) "replace" pix (some vals) false)
  | .implicit so dt ring vals =>
    if ring then
      (match r2n with
       | some t => dFromHp co so dt none
          (reorderRingToNest (fun i => rd t i 0) vals.toArray (.num 0 0)).toList dt.isInt
       | none => .error (.bad "r2n"))
    else dFromHp co so dt none vals dt.isInt

theorem apiReadHealpix_corrC (f : HpFile) (co : Nat) (r2n : Option (Array Nat)) :
    OutRelM (apiReadHealpix f co r2n) (dReadHp f co r2n) := by
  cases f with
  | explicit so dt S pix vals =>
    unfold apiReadHealpix dReadHp
    simp only [bind, Except.bind, throw, throwThe, MonadExceptOf.throw]
    by_cases hp : pix.isEmpty = true
    · rw [if_pos hp, if_pos hp]; exact rfl
    · rw [if_neg hp, if_neg hp]
      cases hE : apiMakeEmpty co so (.plain dt) (some S) [] with
      | error e => exact rfl
      | ok e => exact apiUpdate_corrC (apiMakeEmpty_corrC hE) "replace" pix (some vals) false
  | implicit so dt ring vals =>
    cases ring with
    | false => exact apiFromHealpix_corrC co so dt none vals dt.isInt
    | true =>
      cases r2n with
      | none => exact rfl
      | some t => exact apiFromHealpix_corrC co so dt none _ dt.isInt

theorem opHpxread_eqIO (w : World) (a : Args) :
    opHpxread w a =
      match lookup w.hpfiles (a.getD "f" "f"), a.nat? "covord" with
      | some f, some co =>
        (match apiReadHealpix f co ((a.get? "r2n").bind parseNats |>.map List.toArray) with
         | .ok m => (w.bind (a.getD "r" "tmp") { m with cache := none }, "ok")
         | .error e => (w, errLine e))
      | none, _ => (w, "bad-op:no-such-map")
      | _, _ => (w, "bad-op:hpxread") := rfl

/-- **reading back an explicit file written from the snapshot `d`** with coverage order `co`:
    IndexError for a map without valid pixels (`data[0]` of an empty table); `make_empty` decides
    on the orders and the sentinel; a valid value that is not of the cell type is refused; else a
    PLAIN map of the file's dtype (a bit-packed map comes back as a plain boolean map) with the
    snapshot's value at every valid pixel and the sentinel elsewhere, covering the coverage pixels
    that hold a valid pixel -/
def dReadWritten (d : DenseMapC) (co : Nat) : Except Err DenseMapC :=
  match ApiHealpixRT.hpxDT d.toDense.kind with
  | none => .error .index
  | some dt =>
    if ApiDenseScalar.dValidSet d.toDense = [] then .error .index else
    match apiMakeEmpty co d.toDense.spord (.plain dt) (some d.toDense.sent) [] with
    | .error e => .error e
    | .ok _ =>
      if (ApiDenseScalar.dValidSet d.toDense).any
          (fun p => !valMatchesKind (.plain dt) (d.toDense.f p)) then .error .value
      else .ok ⟨⟨co, d.toDense.spord, .plain dt, d.toDense.sent,
          fun p => if ApiDenseScalar.dValid d.toDense (d.toDense.f p) = true then d.toDense.f p
            else d.toDense.sent⟩,
        fun k => (ApiDenseScalar.dValidSet d.toDense).any
          fun p => p >>> (cfgOf co d.toDense.spord).shift == k⟩

open ApiHealpixRT in
theorem readWritten_corrC {m : MapObj} {d : DenseMapC} (hc : CorrC m d) (hm : m.Ok) {f : HpFile}
    (hf : apiWriteHealpix m = .ok f) (co : Nat) (r2n : Option (Array Nat)) :
    OutRelM (apiReadHealpix f co r2n) (dReadWritten d co) := by
  have hv := hm.2.1.blankInvalid
  have hwf := hm.1
  rw [write_eq hwf hv] at hf
  -- the dtype of the file
  have hdt : ∃ dt, hpxDT m.kind = some dt ∧
      f = .explicit m.spord dt m.sent (validList m) ((validList m).map m.abs) := by
    cases hk : m.kind with
    | plain dt => rw [hk] at hf; cases hf; exact ⟨dt, rfl, rfl⟩
    | packed => rw [hk] at hf; cases hf; exact ⟨.bool, rfl, rfl⟩
    | wide n => rw [hk] at hf; cases hf
    | recd fs pr => rw [hk] at hf; cases hf
  obtain ⟨dt, hdt, rfl⟩ := hdt
  have hmem : ∀ p, p ∈ validList m ↔ p ∈ ApiDenseScalar.dValidSet d.toDense := by
    intro p
    rw [mem_validList hwf hv, ← ApiDenseScalar.corr_validSet hc.corr, ApiMoc.mem_validSet]
    rfl
  have hnil : (validList m).isEmpty = true ↔ ApiDenseScalar.dValidSet d.toDense = [] := by
    rw [List.isEmpty_iff]
    constructor
    · intro h
      exact List.eq_nil_iff_forall_not_mem.2 fun p hp => by
        have := (hmem p).2 hp; rw [h] at this; cases this
    · intro h
      exact List.eq_nil_iff_forall_not_mem.2 fun p hp => by
        have := (hmem p).1 hp; rw [h] at this; cases this
  unfold dReadWritten
  rw [← hc.corr.kind, hdt, ← hc.corr.spord, ← hc.corr.sent]
  simp only []
  cases hR : apiReadHealpix (.explicit m.spord dt m.sent (validList m) ((validList m).map m.abs))
      co r2n with
  | ok m1 =>
    obtain ⟨hle, g1, g2, g3, g4, gok, gnp, gabs, gcov⟩ := read_write_content hm hR
    obtain ⟨_, _, _, _, _, gview, _, gne, _, _, gty, _, _⟩ := readExplicit_ok hR (by simp)
    have hne : ¬ ApiDenseScalar.dValidSet d.toDense = [] := fun h =>
      gne (List.isEmpty_iff.1 (hnil.2 h))
    rw [if_neg hne]
    have hE : ∃ e, apiMakeEmpty co m.spord (.plain dt) (some m.sent) [] = .ok e := by
      unfold apiReadHealpix at hR
      simp only [bind, Except.bind, throw, throwThe, MonadExceptOf.throw] at hR
      split at hR
      · cases hR
      · cases he : apiMakeEmpty co m.spord (.plain dt) (some m.sent) [] with
        | error x => rw [he] at hR; cases hR
        | ok e => exact ⟨e, rfl⟩
    obtain ⟨e, hE⟩ := hE
    rw [hE]
    simp only []
    have hty : ¬ ((ApiDenseScalar.dValidSet d.toDense).any
        (fun p => !valMatchesKind (.plain dt) (d.toDense.f p))) = true := by
      intro h
      rw [List.any_eq_true] at h
      obtain ⟨p, hp, hnm⟩ := h
      have hpl := (hmem p).2 hp
      have hpn := ((mem_validList hwf hv p).1 hpl).1
      have := List.all_eq_true.1 gty (m.abs p) (List.mem_map.2 ⟨p, hpl, rfl⟩)
      rw [hc.corr.abs p hpn] at this
      rw [this] at hnm
      cases hnm
    rw [if_neg hty]
    have hcfg : m1.c = cfgOf co m.spord := by unfold MapObj.c; rw [g1, g2]
    refine ⟨⟨gok.1, gview, g1, g2, g3, g4, ?_⟩, ?_⟩
    · intro p hp
      rw [gnp] at hp
      rw [gabs p hp]
      show _ = if ApiDenseScalar.dValid d.toDense (d.toDense.f p) = true then d.toDense.f p
        else m.sent
      rw [ApiDenseScalar.corr_valid hc.corr, hc.corr.abs p hp]
    · intro k hk
      show _ = (ApiDenseScalar.dValidSet d.toDense).any
        fun p => p >>> (cfgOf co m.spord).shift == k
      rw [Bool.eq_iff_iff, gcov k hk, List.any_eq_true, hcfg]
      constructor
      · rintro ⟨p, hp, hval, hpk⟩
        exact ⟨p, (hmem p).1 ((mem_validList hwf hv p).2 ⟨hp, hval⟩), by simpa using hpk⟩
      · rintro ⟨p, hp, hpk⟩
        have := (mem_validList hwf hv p).1 ((hmem p).2 hp)
        exact ⟨p, this.1, this.2, by simpa using hpk⟩
  | error x =>
    unfold apiReadHealpix at hR
    simp only [bind, Except.bind, throw, throwThe, MonadExceptOf.throw] at hR
    by_cases hemp : (validList m).isEmpty = true
    · rw [if_pos hemp] at hR
      cases hR
      rw [if_pos (hnil.1 hemp)]
      exact rfl
    · rw [if_neg hemp] at hR
      rw [if_neg (fun h => hemp (hnil.2 h))]
      cases hE : apiMakeEmpty co m.spord (.plain dt) (some m.sent) [] with
      | error y => rw [hE] at hR; cases hR; exact rfl
      | ok e =>
        rw [hE] at hR
        simp only [] at hR ⊢
        obtain ⟨hle, e1, e2, e3, e4, _⟩ := WFRes.apiMakeEmpty_ok hE
        have hen : e.npix = m.npix := by
          show (cfgOf e.covord e.spord).npix = (cfgOf m.covord m.spord).npix
          rw [e1, e2, ApiDegrade.cfgOf_npix hle, ApiDegrade.cfgOf_npix hwf.1]
        have herr := ApiDenseMulti.replace_errOf (e := e) (pix := validList m)
          (vals := (validList m).map m.abs) e4 (nodup_validList hwf hv) (by simp)
          (fun p hp => by rw [hen]; exact ((mem_validList hwf hv p).1 hp).1)
        rw [hR, if_neg hemp, e3] at herr
        simp only [ApiDenseMulti.errOf'] at herr
        by_cases hall : (!((validList m).map m.abs).all (valMatchesKind (.plain dt))) = true
        · rw [if_pos hall] at herr
          cases herr
          have : ((ApiDenseScalar.dValidSet d.toDense).any
              (fun p => !valMatchesKind (.plain dt) (d.toDense.f p))) = true := by
            simp only [Bool.not_eq_true', List.all_eq_false, List.mem_map] at hall
            obtain ⟨x, ⟨p, hp, rfl⟩, hnm⟩ := hall
            rw [List.any_eq_true]
            refine ⟨p, (hmem p).1 hp, ?_⟩
            rw [← hc.corr.abs p ((mem_validList hwf hv p).1 hp).1]
            simpa using hnm
          rw [if_pos this]
          exact rfl
        · rw [if_neg hall] at herr
          cases herr

/-- reading a stored HEALPix-format file, densely -/
def dReadHpD (f : DenseHp) (co : Nat) (r2n : Option (Array Nat)) : Except Err DenseMapC :=
  match f with
  | .written d => dReadWritten d co
  | .file f => dReadHp f co r2n

theorem readHpD_corrC {f : HpFile} {df : DenseHp} (h : HpCorr f df) (co : Nat)
    (r2n : Option (Array Nat)) : OutRelM (apiReadHealpix f co r2n) (dReadHpD df co r2n) := by
  cases df with
  | file f' => cases h; exact apiReadHealpix_corrC f co r2n
  | written d =>
    obtain ⟨m, hc, hm, hf⟩ := h
    exact readWritten_corrC hc hm hf co r2n

/-- `hpxread f=F r=R covord= [r2n=]` -/
def dHpxreadOp (D : DenseWorldIO) (a : Args) : DenseWorldIO × String :=
  match lookup D.hpfiles (a.getD "f" "f"), a.nat? "covord" with
  | some f, some co =>
    (match dReadHpD f co ((a.get? "r2n").bind parseNats |>.map List.toArray) with
     | .ok d => ({ D with maps := D.maps.bind (a.getD "r" "tmp") d }, "ok")
     | .error e => (D, errLine e))
  | none, _ => (D, "bad-op:no-such-map")
  | _, _ => (D, "bad-op:hpxread")

theorem relIO_hpxread {w : World} {D : DenseWorldIO} (h : RelIO w D) (a : Args) :
    RelIO (opHpxread w a).1 (dHpxreadOp D a).1 ∧ (opHpxread w a).2 = (dHpxreadOp D a).2 := by
  rw [opHpxread_eqIO]
  unfold dHpxreadOp
  have hf := h.hpfiles (a.getD "f" "f")
  revert hf
  cases lookup w.hpfiles (a.getD "f" "f") <;> cases lookup D.hpfiles (a.getD "f" "f") <;>
    intro hf
  · cases a.nat? "covord" <;> exact ⟨h, rfl⟩
  · exact hf.elim
  · exact hf.elim
  · rename_i f df
    cases a.nat? "covord" with
    | none => exact ⟨h, rfl⟩
    | some co =>
      simp only []
      have hr := readHpD_corrC hf co ((a.get? "r2n").bind parseNats |>.map List.toArray)
      revert hr
      cases apiReadHealpix f co ((a.get? "r2n").bind parseNats |>.map List.toArray) <;>
        cases dReadHpD df co ((a.get? "r2n").bind parseNats |>.map List.toArray) <;> intro hr
      · cases hr; exact ⟨h, rfl⟩
      · exact hr.elim
      · exact hr.elim
      · exact ⟨h.of_maps (h.rel.bind _ (hr.cache none)) rfl rfl rfl rfl, rfl⟩

/-- `hpxwrite n f=F` (`write(format='healpix')`): record maps → `NotImplementedError`, wide masks
    → `TypeError`; else the snapshot is stored -/
def dHpxwriteOp (D : DenseWorldIO) (a : Args) : DenseWorldIO × String :=
  dWithMapIO D a fun d =>
    match d.toDense.kind with
    | .recd _ _ => (D, errLine .notImpl)
    | .wide _ => (D, errLine .type)
    | _ => ({ D with hpfiles := insert D.hpfiles (a.getD "f" "f") (.written d) }, "ok")

theorem relIO_hpxwrite {w : World} {D : DenseWorldIO} (h : RelIO w D) (hw : w.Good) (a : Args) :
    RelIO (opHpxwrite w a).1 (dHpxwriteOp D a).1 ∧ (opHpxwrite w a).2 = (dHpxwriteOp D a).2 := by
  unfold opHpxwrite dHpxwriteOp
  refine relIO_withMap h fun m d hg _ hc => ?_
  have hok := hw.get hg
  have hwe := ApiHealpixRT.write_eq hok.1 hok.2.1.blankInvalid
  rw [← hc.corr.kind]
  cases hA : apiWriteHealpix m with
  | error e =>
    rw [hA] at hwe
    cases hk : m.kind with
    | plain dt => rw [hk] at hwe; cases hwe
    | packed => rw [hk] at hwe; cases hwe
    | wide n => rw [hk] at hwe; cases hwe; exact ⟨h, rfl⟩
    | recd fs pr => rw [hk] at hwe; cases hwe; exact ⟨h, rfl⟩
  | ok f =>
    have hrel : RelIO ({ w with hpfiles := (insert w.hpfiles (a.getD "f" "f") f) } : World)
        { D with hpfiles := insert D.hpfiles (a.getD "f" "f") (.written d) } :=
      ⟨relC_of_pool h.rel rfl, h.files, TabRel.insert h.hpfiles _ ⟨m, hc, hok, hA⟩, h.mocs, h.metas⟩
    rw [hA] at hwe
    cases hk : m.kind with
    | plain dt => exact ⟨hrel, rfl⟩
    | packed => exact ⟨hrel, rfl⟩
    | wide n => rw [hk] at hwe; cases hwe
    | recd fs pr => rw [hk] at hwe; cases hwe

/-! ### (4) MOC files: `moc`, `mocread` -/

/-- `moc n f=F`: ValueError on a map without valid pixels; else the UNIQ column of the valid set
    (`mocWrite` at the map's orders) is stored and printed -/
def dMocOp (D : DenseWorldIO) (a : Args) : DenseWorldIO × String :=
  dWithMapIO D a fun d =>
    if ApiDenseScalar.dValidSet d.toDense = [] then (D, errLine .value)
    else
      ({ D with mocs := (insert D.mocs (a.getD "f" "f")
          (mocWrite d.toDense.spord d.toDense.covord (ApiDenseScalar.dValidSet d.toDense))) },
        showNats (mocWrite d.toDense.spord d.toDense.covord (ApiDenseScalar.dValidSet d.toDense)))

theorem relIO_moc {w : World} {D : DenseWorldIO} (h : RelIO w D) (hw : w.Good) (a : Args) :
    RelIO (opMoc w a).1 (dMocOp D a).1 ∧ (opMoc w a).2 = (dMocOp D a).2 := by
  cases hpos : a.pos with
  | nil =>
    unfold opMoc dMocOp withMap dWithMapIO
    simp only [hpos]
    exact ⟨h, trivial⟩
  | cons n rest =>
    have hm := relC_get h.rel n
    revert hm
    cases hg : w.get? n <;> cases hd : D.maps.get? n <;> intro hm
    · unfold opMoc dMocOp withMap dWithMapIO
      simp only [hpos, hg, hd]
      exact ⟨h, trivial⟩
    · exact hm.elim
    · exact hm.elim
    · rename_i m d
      have hok := hw.get hg
      rw [ApiMoc.opMoc_eq hpos hg hok.1 hok.2.1.blankInvalid]
      unfold dMocOp dWithMapIO
      simp only [hpos, hd]
      unfold ApiMoc.mocOf
      rw [ApiDenseScalar.corr_validSet hm.corr, hm.corr.spord, hm.corr.covord]
      by_cases he : ApiDenseScalar.dValidSet d.toDense = []
      · rw [if_pos he, if_pos he]; exact ⟨h, rfl⟩
      · rw [if_neg he, if_neg he]
        refine ⟨⟨relC_of_pool h.rel rfl, h.files, h.hpfiles, ?_, h.metas⟩, rfl⟩
        show insert w.mocs _ _ = _
        rw [h.mocs]

theorem opMocread_eqIO (w : World) (a : Args) :
    opMocread w a =
      match lookup w.mocs (a.getD "f" "f"), a.nat? "covord" with
      | some u, some co =>
        (match apiMakeEmpty co (mocRead u).1 (.plain .bool) none [] with
         | .ok e =>
           (match apiUpdate e "replace" (mocRead u).2 (some [.bool true]) true with
            | .ok m => (w.bind (a.getD "r" "tmp") { m with cache := none }, "ok")
            | .error er => (w, errLine er))
         | .error er => (w, errLine er))
      | _, _ => (w, "bad-op:no-such-map") := rfl

/-- `mocread f=F r=R covord=`: a boolean map at the largest order of the cells, `True` on the
    pixels of the cells (`make_empty` + `update_values_pix` on the pixel list `mocRead` expands) -/
def dMocreadOp (D : DenseWorldIO) (a : Args) : DenseWorldIO × String :=
  match lookup D.mocs (a.getD "f" "f"), a.nat? "covord" with
  | some u, some co =>
    (match apiMakeEmpty co (mocRead u).1 (.plain .bool) none [] with
     | .ok e =>
       (match dUpdateC (dEmptyC e []) "replace" (mocRead u).2 (some [.bool true]) true with
        | .ok d => ({ D with maps := D.maps.bind (a.getD "r" "tmp") d }, "ok")
        | .error er => (D, errLine er))
     | .error er => (D, errLine er))
  | _, _ => (D, "bad-op:no-such-map")

theorem relIO_mocread {w : World} {D : DenseWorldIO} (h : RelIO w D) (a : Args) :
    RelIO (opMocread w a).1 (dMocreadOp D a).1 ∧ (opMocread w a).2 = (dMocreadOp D a).2 := by
  rw [opMocread_eqIO]
  unfold dMocreadOp
  rw [h.mocs]
  cases lookup D.mocs (a.getD "f" "f") <;> cases a.nat? "covord" <;> try exact ⟨h, rfl⟩
  rename_i u co
  simp only []
  cases hE : apiMakeEmpty co (mocRead u).1 (.plain .bool) none [] with
  | error e => exact ⟨h, rfl⟩
  | ok e =>
    simp only []
    have hr := apiUpdate_corrC (apiMakeEmpty_corrC hE) "replace" (mocRead u).2
      (some [.bool true]) true
    revert hr
    cases apiUpdate e "replace" (mocRead u).2 (some [.bool true]) true <;>
      cases dUpdateC (dEmptyC e []) "replace" (mocRead u).2 (some [.bool true]) true <;> intro hr
    · cases hr; exact ⟨h, rfl⟩
    · exact hr.elim
    · exact hr.elim
    · exact ⟨h.of_maps (h.rel.bind _ (hr.cache none)) rfl rfl rfl rfl, rfl⟩

/-! ### the interpreter -/

/-- a line of the five families on the extended world: the maps by `ApiDenseAll.dstepArgsAll`,
    everything else untouched -/
def dOld (D : DenseWorldIO) (op : String) (a : Args) : DenseWorldIO × String :=
  ({ D with maps := (dstepArgsAll D.maps op a).1 }, (dstepArgsAll D.maps op a).2)

/-- **the dense interpreter with files**: one parsed line on a `DenseWorldIO` -/
def dstepArgsIO (D : DenseWorldIO) (op : String) (a : Args) : DenseWorldIO × String :=
  match op with
  | "info" => dInfoOp D a
  | "vpsc" => dVpscOp D a
  | "drop" => dDropOp D a
  | "reset" => ({}, "ok")
  | "meta" => dMetaOp D a
  | "getmeta" => dGetmetaOp D a
  | "pack" => dPackIO D a
  | "write" => dWriteOp D a
  | "read" => dReadOp D a
  | "covread" => dCovreadOp D a
  | "fromhp" => dFromhpOp D a
  | "genhp" => dGenhpOp D a
  | "hpxwrite" => dHpxwriteOp D a
  | "hpximplicit" => dHpximplicitOp D a
  | "hpxread" => dHpxreadOp D a
  | "moc" => dMocOp D a
  | "mocread" => dMocreadOp D a
  | _ => dOld D op a

/-- the new lines: inspection / housekeeping, user metadata, healsparse files, HEALPix import,
    export without key (`genhpOk`), HEALPix-format files (explicit and implicit), MOC files -/
def ioOp (op : String) (a : Args) : Bool :=
  op == "info" || op == "vpsc" || op == "drop" || op == "reset" || op == "meta" ||
    op == "getmeta" || op == "write" || op == "read" || op == "covread" || op == "fromhp" ||
    (op == "genhp" && genhpOk a) || op == "hpximplicit" || op == "hpxread" || op == "moc" ||
    op == "mocread" || op == "hpxwrite"

/-- a parsed line the interpreter answers: a line of the five families (`opOkAll`) or a new one -/
def opOkIO (op : String) (a : Args) : Bool := opOkAll op a || ioOp op a

theorem flagClass_ne_reset (b : Bool) : flagClass b ≠ .reset := by cases b <;> decide

/-- a line of the five families that is not `pack`: the maps step as before, files, HEALPix
    files, MOCs and metadata are not touched (`Frame`) -/
theorem relIO_old {w : World} {D : DenseWorldIO} {op : String} {a : Args} {c : PoolClass}
    (h : RelIO w D) (hw : w.Good2) (hp : opOkAll op a = true)
    (hf : Frame c false false false .same w a (stepArgs w op a).1) (hc : c ≠ .reset) :
    RelIO (stepArgs w op a).1 (dOld D op a).1 ∧ (stepArgs w op a).2 = (dOld D op a).2 := by
  obtain ⟨hr, ha⟩ := rel_stepArgsAll h.rel hw a hp
  have keep : ∀ {α : Type} {t t' : List (String × α)} {k : String},
      (c = .reset ∨ tableFrame false k t t') → t' = t := by
    intro α t t' k hh
    rcases hh with hh | hh | ⟨hh, _⟩
    · exact absurd hh hc
    · exact hh
    · cases hh
  exact ⟨h.of_maps hr (keep hf.files) (keep hf.hpfiles) (keep hf.mocs) hf.metas, ha⟩

/-- **one parsed line**: the protocol and the dense interpreter with files stay in agreement
    and give the same answer (sparse world: `Good2` and `Typed`) -/
theorem rel_stepArgsIO {w : World} {D : DenseWorldIO} (h : RelIO w D) (hw : w.Good2)
    (ht : w.Typed) {op : String} (a : Args) (hp : opOkIO op a = true) :
    RelIO (stepArgs w op a).1 (dstepArgsIO D op a).1 ∧
      (stepArgs w op a).2 = (dstepArgsIO D op a).2 := by
  unfold opOkIO at hp
  rw [Bool.or_eq_true] at hp
  rcases hp with hp | hp
  · have hp0 := hp
    unfold opOkAll at hp
    simp only [Bool.or_eq_true] at hp
    rcases hp with (((hp | hp) | hp) | hp) | hp
    · rcases plainOp_cases hp with rfl | rfl | rfl | rfl | rfl | rfl
      · exact relIO_old h hw hp0 (frame_opCfg w a) (by decide)
      · exact relIO_old h hw hp0 (frame_opUpd w a) (by decide)
      · exact relIO_old h hw hp0 (frame_opUpdr w a) (by decide)
      · exact relIO_old h hw hp0 (frame_opSet w a) (by decide)
      · exact relIO_old h hw hp0 (frame_opGet w a) (by decide)
      · exact relIO_old h hw hp0 (frame_opVals w a) (by decide)
    · rcases ApiDenseCov.famOp_cases hp with rfl | rfl | rfl | rfl | rfl
      · exact relIO_old h hw hp0 (frame_opBop w a) (flagClass_ne_reset _)
      · exact relIO_old h hw hp0 (frame_opInv w a) (flagClass_ne_reset _)
      · exact relIO_pack h hw.1 a
      · exact relIO_old h hw hp0 (frame_opCovmask w a) (by decide)
      · exact relIO_old h hw hp0 (frame_opCopy w a) (by decide)
    · unfold ApiDenseScalar.famArgs at hp
      rw [Bool.and_eq_true] at hp
      rcases ApiDenseScalar.famOp_cases hp.1 with rfl | rfl | rfl | rfl | rfl | rfl | rfl
      · exact relIO_old h hw hp0 (frame_opCopy w a) (by decide)
      · exact relIO_old h hw hp0 (frame_opValid w a) (by decide)
      · exact relIO_old h hw hp0 (frame_opNvalid w a) (by decide)
      · exact relIO_old h hw hp0 (frame_opCovmap w a) (by decide)
      · exact relIO_old h hw hp0 (frame_opSop w a) (flagClass_ne_reset _)
      · exact relIO_old h hw hp0 (frame_opMask w a) (flagClass_ne_reset _)
      · exact relIO_old h hw hp0 (frame_opAstype w a) (by decide)
    · rcases ApiDenseBits.famOp_cases hp with rfl | rfl
      · exact relIO_old h hw hp0 (frame_opBits w a) (by decide)
      · exact relIO_old h hw hp0 (frame_opChk w a) (by decide)
    · unfold ApiDenseMulti.famOp at hp
      simp only [Bool.or_eq_true, beq_iff_eq] at hp
      rcases hp with ((rfl | rfl) | rfl) | rfl
      · exact relIO_old h hw hp0 (frame_opMop w a) (by decide)
      · exact relIO_old h hw hp0 (frame_opUpg w a) (by decide)
      · exact relIO_old h hw hp0 (frame_opDeg w a) (by decide)
      · exact relIO_old h hw hp0 (frame_opFracdet w a) (by decide)
  · unfold ioOp at hp
    simp only [Bool.or_eq_true, beq_iff_eq, Bool.and_eq_true] at hp
    rcases hp with
      ((((((((((((((rfl | rfl) | rfl) | rfl) | rfl) | rfl) | rfl) | rfl) | rfl) | rfl) | ⟨rfl, hg⟩) |
        rfl) | rfl) | rfl) | rfl) | rfl
    · exact relIO_info h a
    · exact relIO_vpsc h hw.1 a
    · exact relIO_drop h a
    · exact relIO_reset w a
    · exact relIO_meta h a
    · exact relIO_getmeta h a
    · exact relIO_write h hw.1 ht a
    · exact relIO_read h a
    · exact relIO_covread h a
    · exact relIO_fromhp h a
    · exact relIO_genhp h hw.1 a hg
    · exact relIO_hpximplicit h a
    · exact relIO_hpxread h a
    · exact relIO_moc h hw.1 a
    · exact relIO_mocread h a
    · exact relIO_hpxwrite h hw.1 a

/-- on a line of the five families the map part and the answer are those of
    `ApiDenseAll.dstepArgsAll` -/
theorem dstepArgsIO_maps (D : DenseWorldIO) {op : String} (a : Args) (hp : opOkAll op a = true) :
    (dstepArgsIO D op a).1.maps = (dstepArgsAll D.maps op a).1 ∧
      (dstepArgsIO D op a).2 = (dstepArgsAll D.maps op a).2 := by
  unfold opOkAll at hp
  simp only [Bool.or_eq_true] at hp
  rcases hp with (((hp | hp) | hp) | hp) | hp
  · rcases plainOp_cases hp with rfl | rfl | rfl | rfl | rfl | rfl <;> exact ⟨rfl, rfl⟩
  · rcases ApiDenseCov.famOp_cases hp with rfl | rfl | rfl | rfl | rfl
    · exact ⟨rfl, rfl⟩
    · exact ⟨rfl, rfl⟩
    · exact dPackIO_maps D a
    · exact ⟨rfl, rfl⟩
    · exact ⟨rfl, rfl⟩
  · unfold ApiDenseScalar.famArgs at hp
    rw [Bool.and_eq_true] at hp
    rcases ApiDenseScalar.famOp_cases hp.1 with rfl | rfl | rfl | rfl | rfl | rfl | rfl <;>
      exact ⟨rfl, rfl⟩
  · rcases ApiDenseBits.famOp_cases hp with rfl | rfl <;> exact ⟨rfl, rfl⟩
  · unfold ApiDenseMulti.famOp at hp
    simp only [Bool.or_eq_true, beq_iff_eq] at hp
    rcases hp with ((rfl | rfl) | rfl) | rfl <;> exact ⟨rfl, rfl⟩

/-! ### raw lines and histories -/

/-- **the lines the interpreter answers**: the empty line and every line whose operation is
    covered (`opOkIO`) -/
def lineOkIO (line : String) : Bool :=
  match lineToks line with
  | [] => true
  | op :: rest => opOkIO op (parseArgs rest)

/-- every line of the five families is covered -/
theorem lineOkIO_of_all {line : String} (h : lineOkAll line = true) : lineOkIO line = true := by
  unfold lineOkAll at h
  unfold lineOkIO
  cases htk : lineToks line with
  | nil => rfl
  | cons op rest =>
    rw [htk] at h
    simp only [] at h ⊢
    unfold opOkIO
    rw [h]
    rfl

/-- the interpreter on a raw line -/
def dstepIO (D : DenseWorldIO) (line : String) : DenseWorldIO × String :=
  match lineToks line with
  | [] => (D, "bad-op:empty")
  | op :: rest => dstepArgsIO D op (parseArgs rest)

/-- … and on a history, from the empty world -/
def drunIO (lines : List String) : DenseWorldIO := lines.foldl (fun D l => (dstepIO D l).1) {}

theorem ioOp_not_packed {op : String} {a : Args} (h : ioOp op a = true) :
    op.startsWith "p." = false := by
  unfold ioOp at h
  simp only [Bool.or_eq_true, beq_iff_eq, Bool.and_eq_true] at h
  rcases h with
    ((((((((((((((rfl | rfl) | rfl) | rfl) | rfl) | rfl) | rfl) | rfl) | rfl) | rfl) | ⟨rfl, _⟩) |
      rfl) | rfl) | rfl) | rfl) | rfl <;> decide +kernel

theorem opOkIO_not_packed {op : String} {a : Args} (h : opOkIO op a = true) :
    op.startsWith "p." = false := by
  unfold opOkIO at h
  rw [Bool.or_eq_true] at h
  rcases h with h | h
  · exact opOkAll_not_packed h
  · exact ioOp_not_packed h

/-- **one raw line**: from related worlds (the sparse one satisfying the reachable invariants
    `Good2` and `Typed`), a covered line leads to related worlds and is answered alike -/
theorem rel_stepIO {w : World} {D : DenseWorldIO} (hR : RelIO w D) (hw : w.Good2) (ht : w.Typed)
    {line : String} (hp : lineOkIO line = true) :
    RelIO (step w line).1 (dstepIO D line).1 ∧ (step w line).2 = (dstepIO D line).2 := by
  have hstep : step w line = match lineToks line with
      | [] => (w, "bad-op:empty")
      | op :: rest =>
        if op.startsWith "p." then
          let (pw, o) := stepPacked w.packed op (parseArgs rest)
          ({ w with packed := pw }, o)
        else stepArgs w op (parseArgs rest) := rfl
  rw [hstep]
  unfold dstepIO
  unfold lineOkIO at hp
  cases htk : lineToks line with
  | nil => exact ⟨hR, rfl⟩
  | cons op rest =>
    rw [htk] at hp
    simp only [opOkIO_not_packed hp, Bool.false_eq_true, if_false]
    exact rel_stepArgsIO hR hw ht _ hp

/-- related worlds, the sparse one satisfying the reachable invariants: the relation one covered
    line preserves -/
structure RelIOA (w : World) (D : DenseWorldIO) : Prop where
  rel : RelIO w D
  good : w.Good2
  typed : w.Typed

theorem relIOA_empty : RelIOA {} {} :=
  ⟨relIO_empty, ⟨World.good_empty, World.cachePool_empty⟩, World.typed_empty⟩

/-- **one raw line, bundled**: `RelIOA` is preserved and the line is answered alike -/
theorem relIOA_step {w : World} {D : DenseWorldIO} (h : RelIOA w D) {line : String}
    (hp : lineOkIO line = true) :
    RelIOA (step w line).1 (dstepIO D line).1 ∧ (step w line).2 = (dstepIO D line).2 :=
  ⟨⟨(rel_stepIO h.rel h.good h.typed hp).1, Good2.step h.good line,
      Typed.step h.good.1 h.typed line⟩, (rel_stepIO h.rel h.good h.typed hp).2⟩

theorem rel_foldlIO (lines : List String) (w : World) (D : DenseWorldIO) (h : RelIOA w D)
    (hp : ∀ l ∈ lines, lineOkIO l = true) :
    RelIOA (lines.foldl (fun w l => (step w l).1) w)
      (lines.foldl (fun D l => (dstepIO D l).1) D) := by
  induction lines generalizing w D with
  | nil => exact h
  | cons l ls ih =>
    exact ih _ _ (relIOA_step h (hp l List.mem_cons_self)).1
      fun l' h' => hp l' (List.mem_cons_of_mem _ h')

/-- **histories**: the world a history of covered lines reaches agrees with the dense world with
    files the interpreter reaches — unconditionally -/
theorem rel_runLinesIO (lines : List String) (hp : ∀ l ∈ lines, lineOkIO l = true) :
    RelIO (runLines lines) (drunIO lines) :=
  (rel_foldlIO lines _ _ relIOA_empty hp).rel

/-- the answers of the interpreter along a history -/
def danswersIO (lines : List String) : List String :=
  (lines.foldl (fun (Do : DenseWorldIO × List String) l =>
    ((dstepIO Do.1 l).1, Do.2 ++ [(dstepIO Do.1 l).2])) ({}, [])).2

theorem answers_foldlIO (lines : List String) (w : World) (D : DenseWorldIO) (acc : List String)
    (h : RelIOA w D) (hp : ∀ l ∈ lines, lineOkIO l = true) :
    (lines.foldl (fun (wo : World × List String) l => ((step wo.1 l).1, wo.2 ++ [(step wo.1 l).2]))
      (w, acc)).2 =
    (lines.foldl (fun (Do : DenseWorldIO × List String) l =>
      ((dstepIO Do.1 l).1, Do.2 ++ [(dstepIO Do.1 l).2])) (D, acc)).2 := by
  induction lines generalizing w D acc with
  | nil => rfl
  | cons l ls ih =>
    obtain ⟨h', ha⟩ := relIOA_step h (hp l List.mem_cons_self)
    simp only [List.foldl_cons]
    rw [ha]
    exact ih _ _ _ h' fun l' hl' => hp l' (List.mem_cons_of_mem _ hl')

/-- **the list of all answers** of a history of covered lines is the list of answers of the dense
    interpreter with files -/
theorem answers_eq_danswersIO (lines : List String) (hp : ∀ l ∈ lines, lineOkIO l = true) :
    answers lines = danswersIO lines :=
  answers_foldlIO lines _ _ _ relIOA_empty hp

end ApiDenseIO
end HS
