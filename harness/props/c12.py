"""C12 — scalar operators, masking and type conversion act on exactly the valid pixels."""
import gen

PID = 'C12'
RULE = ("per history: a map of a random numeric kind/sentinel is filled by 2-5 updates (shuffled growth, values of "
        "both signs, some pixels cleared), then a sequence of scalar operators is applied both in place (on twin a) "
        "and copying (on twin b, result renamed to b; the result is sometimes written to first, growth included), with n_valid queried around each step; plus apply_mask with "
        "integer / wide-mask maps (no bits, mask_bits, mask_bit_arr; in place and copying; negative mask values), "
        "astype over the dtype matrix with default/custom sentinels, and as_bit_packed_map; after each step full "
        "dense values, valid set, layout of operands and results are compared with the Lean model; "
        "non-trivial = at least one valid and one invalid pixel inside the coverage when the operator is applied")
ASSUMPTIONS = ["float values are dyadic rationals on which the issued operation is exact in the map's precision; "
               "histories that would leave that grid are discarded (counted as discarded_inexact)",
               "numpy casting rules for out= of the map dtype (int map with float scalar, out-of-range Python "
               "integers) are modelled as rejections"]


def fill(rng, c, h, n=None):
    focus = rng.sample(range(c.ncov), min(c.ncov, rng.randint(2, 4)))
    for _ in range(n or rng.randint(2, 5)):
        h.append(gen.upd_line(rng, c, focus=focus))
    return focus


def twin(c, name):
    return gen.MapCfg(name, c.kind, c.covord, c.spord, dtype=c.dtype, sentinel=c.sentinel, maxbits=c.maxbits,
                      fields=c.fields, primary=c.primary, covpix=c.covpix)


def hist_scalar(rng):
    c = gen.rand_cfg(rng, kinds=['int', 'int', 'flt', 'flt', 'wide', 'bool', 'rec'], max_npix=768, name='a')
    b = twin(c, 'b')
    h = [c.line(), b.line()]
    n0 = len(h)
    fill(rng, c, h)
    ups = h[n0:]
    h += [u.replace(' a ', ' b ', 1) for u in ups]
    if rng.random() < 0.2:
        h += gen.roundtrip_lines(rng, rng.choice('ab'))
    for _ in range(rng.randint(1, 5)):
        ln = gen.scalar_op_line(rng, c, inplace=True)
        h += ['nvalid a', ln, 'nvalid a', 'state a']
        ln2 = ln.replace(' a ', ' b ', 1).replace(' inplace=1', ' r=t')
        # (the operand's count is cached before the copying form, the result's count read after it)
        h += ['nvalid b', ln2, 'state b', 'state t', 'nvalid t', 'valid t']
        if rng.random() < 0.4:
            # the result is a map like any other: keep writing to it (growth into new coverage pixels included)
            tcfg = twin(c, 't')
            for _ in range(rng.randint(1, 2)):
                h += [gen.upd_line(rng, tcfg), 'state t']
            h += ['vals t', 'valid t']
        h += ['copy t r=b', 'vals a', 'vals b', 'valid a', 'valid b']
    return h


def hist_mask(rng):
    c = gen.rand_cfg(rng, kinds=['int', 'flt', 'flt', 'wide', 'bool', 'rec', 'packed'], max_npix=768, name='a')
    mk_kind = rng.choice(['int', 'int', 'wide'])
    if mk_kind == 'int':
        dt = rng.choice(gen.INT_DTYPES)
        # (a signed mask map with its default sentinel: pixels it does not set are NOT masked)
        mk = gen.MapCfg('k', 'plain', c.covord, c.spord, dtype=dt,
                        sentinel=rng.choice(['0', '0', 'default']) if dt.startswith('i') else '0')
    else:
        mk = gen.MapCfg('k', 'wide', c.covord, c.spord, maxbits=rng.choice([8, 9, 16, 20]))
    if rng.random() < 0.35 and c.spord > 0:
        # a mask map with ANOTHER nside_coverage (same nside_sparse): legal, the coverage pixel numbers of the
        # two maps are then unrelated (seeded change C12d indexed the mask's coverage mask with the map's)
        mk.covord = rng.choice([o for o in range(0, c.spord + 1) if o != c.covord and
                                (mk.kind != 'packed')])
    h = [c.line(), mk.line()]
    focus = fill(rng, c, h)
    kfocus = focus
    if mk.covord != c.covord and focus is not None:
        d = mk.covord - c.covord
        if d > 0:
            kfocus = sorted({k * 4 ** d + rng.randrange(4 ** d) for k in focus for _ in range(2)})
        else:
            kfocus = sorted({k // 4 ** (-d) for k in focus})
    for _ in range(rng.randint(1, 4)):
        h.append(gen.upd_line(rng, mk, focus=kfocus))
    carry = None
    if mk_kind == 'wide' and mk.nbytes >= 2 and rng.random() < 0.5:
        # a mask row whose bytes add up to 256 (bits 7 and 15), on a pixel the map holds: set membership, not a sum
        apix = [int(x) for ln in h if ln.startswith('upd a ') and 'none=1' not in ln
                for t in ln.split() if t.startswith('pix=') and t != 'pix=_' for x in t[4:].split(',')]
        if apix:
            carry = rng.choice(apix)
            row = [128, 128] + [0] * (mk.nbytes - 2)
            h.append('upd k op=replace pix=%d val=b%s' % (carry, '.'.join(map(str, row))))
    for _ in range(rng.randint(1, 3)):
        arg = ''
        if carry is not None:
            arg = rng.choice(['', ' bitarr=7,15', ' bitarr=15,7,0'])
        elif mk_kind == 'int':
            if rng.random() < 0.6:
                arg = ' bits=%d' % rng.choice([1, 2, 3, 4, 255, 128])
        else:
            if rng.random() < 0.6:
                arg = ' bitarr=%s' % ','.join(str(rng.randrange(mk.nbytes * 8)) for _ in range(rng.randint(1, 3)))
        inplace = rng.random() < 0.5
        h += ['nvalid a']
        if inplace:
            h += ['mask a by=k%s inplace=1' % arg, 'nvalid a', 'state a', 'valid a', 'state k']
        else:
            h += ['mask a by=k%s r=t' % arg, 'nvalid a', 'state a', 'state t', 'valid t', 'nvalid t', 'state k']
        if rng.random() < 0.5:
            h.append(gen.upd_line(rng, c, focus=focus))
    return h


def hist_astype(rng):
    c = gen.rand_cfg(rng, kinds=['int', 'int', 'flt', 'flt', 'bool'], max_npix=768, name='a')
    h = [c.line()]
    fill(rng, c, h)
    for _ in range(rng.randint(1, 3)):
        dt = rng.choice(gen.INT_DTYPES + gen.FLT_DTYPES)
        if dt in gen.FLT_DTYPES:
            sent = rng.choice(['default', '-9999', '1^1'])
        else:
            sent = rng.choice(['default', '0', '7'])
            if rng.random() < 0.3:
                # sentinels at the edge of the target type (not exactly representable in float64 for 64 bits)
                bits = gen.BITS[dt]
                if dt.startswith('u'):
                    sent = str(rng.choice([2 ** bits - 1, 2 ** bits - 2]))
                else:
                    sent = str(rng.choice([2 ** (bits - 1) - 1, -(2 ** (bits - 1) - 1), 2 ** (bits - 1) - 2]))
        h += ['astype a r=t dtype=%s sentinel=%s' % (dt, sent), 'state a', 'state t', 'valid t', 'valid a']
    if c.spord - c.covord >= 2:
        h += ['pack a r=p', 'state p', 'valid p', 'valid a', 'state a']
    return h


def histories(rng, tier):
    n = 350 if tier == 'quick' else 3000
    out = []
    # a fixed share of every run: float32 maps with many valid pixels and arithmetic with a float64 numpy scalar
    # float32 cannot hold (the harness checks correct rounding of every result)
    for _ in range(8 if tier == 'quick' else 40):
        c = gen.MapCfg('a', 'plain', 0, rng.choice([1, 2]), dtype='f4')
        pix = rng.sample(range(c.npix), 24)
        h = [c.line(), 'upd a op=replace pix=%s vals=%s' % (','.join(map(str, pix)),
                                                            ','.join(gen.dy(rng, -400, 400, exps=(0, 1, 2, 3)) for _ in pix))]
        for _ in range(3):
            h += ['sop a op=%s k=%s ktype=flt npk=f8 %s' % (
                rng.choice(['mul', 'div', 'mul', 'add']), rng.choice(['53687091^29', '-28633115^26', '11184811^25']),
                rng.choice(['inplace=1', 'r=t'])), 'state a']
        out.append(h)
    for _ in range(n):
        r = rng.random()
        out.append(hist_scalar(rng) if r < 0.5 else hist_mask(rng) if r < 0.8 else hist_astype(rng))
    return out


def nontrivial(h):
    return any(ln.split()[0] in ('sop', 'mask', 'astype', 'pack') for ln in h)
