/-
  C14 at the API level: record-array maps (`Kind.recd fs pr`), single-field copies
  (`apiGetSingleCopy` = `get_single(copy=True)`) and single-field views (`materializeView` /
  `writeBackView` = `get_single(copy=False)`), through the API functions of Model/Api.lean and
  the protocol driver of Model/Dispatch.lean (`opSingle`, `opUpd`, `opUpdr`, `World.get?`,
  `World.put`).

  Contents
  * record cells: `recField` / `recSetField` algebra, the blank record field by field, validity
    of a record cell = primary ≠ sentinel;
  * `apiGetSingleCopy_eq`: total characterisation (errors exactly when); `copy_spec`: values,
    coverage, validity, the sentinel collision;
  * `replace_spec`, `clear_spec`: whole-record `update_values_pix`;
  * the driver: `opSingle_eq` (when a view is registered and what `get?` then answers),
    `put_view` (what a write through a view does to the parent), `get?_view_after_put` (a view
    reflects later writes of its parent).
-/
import HealSparse.Lemmas.WFWorld
import HealSparse.Lemmas.RecArray
import HealSparse.Lemmas.ApiRanges
import HealSparse.Lemmas.ApiBool
namespace HS

/-! ### observers -/

/-- `p` is a valid pixel of `m` (`get_values_pix(p, valid_mask=True)`) -/
def MapObj.validAt (m : MapObj) (p : Nat) : Bool := m.vc.valid (m.abs p)

namespace ApiRecord
open WFApi

/-! ### record cells -/

theorem recField_recd (i : Nat) (l : List (Int × Nat)) :
    recField i (.recd l) = .num (l.getD i (0, 0)).1 (l.getD i (0, 0)).2 := rfl

/-- setting field `i` does not touch field `j ≠ i` -/
theorem recField_recSetField_ne {i j : Nat} (h : j ≠ i) (v x : Val) :
    recField j (recSetField i v x) = recField j v := by
  cases v with
  | recd l =>
    cases x with
    | num n e =>
      show Val.num ((l.set i (n, e)).getD j (0, 0)).1 ((l.set i (n, e)).getD j (0, 0)).2 = _
      rw [List.getD_eq_getElem?_getD, List.getElem?_set_ne (Ne.symm h), ← List.getD_eq_getElem?_getD]
      rfl
    | _ => rfl
  | _ => cases x <;> rfl

/-- setting then reading field `i` of a record that has it -/
theorem recField_recSetField_self {i : Nat} {l : List (Int × Nat)} (h : i < l.length) (n : Int) (e : Nat) :
    recField i (recSetField i (.recd l) (.num n e)) = .num n e := by
  show Val.num ((l.set i (n, e)).getD i (0, 0)).1 ((l.set i (n, e)).getD i (0, 0)).2 = _
  rw [List.getD_eq_getElem?_getD, List.getElem?_set_self h]
  rfl

/-- a record cell is valid iff its PRIMARY field differs from the sentinel -/
theorem valid_recd (fs : List DT) (pr : Nat) (s : Val) (l : List (Int × Nat)) :
    (Kind.recd fs pr).valid s (.recd l) = (l.getD pr (0, 0) != s.numD) := rfl

/-- field `i` of the blank record: the sentinel for the primary, the field type's default
    sentinel for every other field -/
theorem recField_blank {fs : List DT} {pr i : Nat} {dt : DT} (s : Val) (h : fs[i]? = some dt) :
    recField i ((Kind.recd fs pr).blank s) =
      if i = pr then .num s.numD.1 s.numD.2
      else .num dt.defaultSentinel.numD.1 dt.defaultSentinel.numD.2 := by
  obtain ⟨hi, hget⟩ := List.getElem?_eq_some_iff.1 h
  show recField i (.recd _) = _
  rw [recField_recd, List.getD_eq_getElem?_getD, List.getElem?_map, List.getElem?_zipIdx,
    List.getElem?_eq_getElem hi, hget]
  simp only [Option.map_some, Option.getD_some, Nat.zero_add, beq_iff_eq]
  split <;> rfl

theorem blank_length (fs : List DT) (pr : Nat) (s : Val) :
    ∃ l, (Kind.recd fs pr).blank s = .recd l ∧ l.length = fs.length :=
  ⟨_, rfl, by simp⟩

/-! ### `get_single(copy=True)` -/

/-- the single-field copy the API builds -/
def copyOf (m : MapObj) (i : Nat) (dt : DT) (s : Val) : MapObj :=
  { covord := m.covord, spord := m.spord, kind := .plain dt, sent := s,
    st := astypeMap m.vc m.st (recField i) s }

/-- **`get_single(key, sentinel, copy=True)`, totally**: `TypeError` for a map that is not a
    record map, `ValueError` for a field index outside the record, the map's own sentinel for the
    primary field (an override is ignored), `check_sentinel(field type, override)` — default or
    override, `ValueError` when the override does not fit the type — for any other field -/
theorem apiGetSingleCopy_eq (m : MapObj) (i : Nat) (sentinel : Option Val) :
    apiGetSingleCopy m i sentinel =
      match m.kind with
      | .recd fs pr =>
        match fs[i]? with
        | none => .error .value
        | some dt =>
          if i = pr then .ok (copyOf m i dt m.sent)
          else match checkSentinel dt sentinel with
            | .ok s => .ok (copyOf m i dt s)
            | .error e => .error e
      | _ => .error .type := by
  unfold apiGetSingleCopy singleSentinel copyOf
  simp only [bind, Except.bind, pure, Except.pure, throw, throwThe, MonadExceptOf.throw]
  cases hk : m.kind with
  | recd fs pr =>
    simp only
    cases hg : fs[i]? with
    | none => rfl
    | some dt =>
      simp only
      by_cases hip : i = pr
      · simp [hip]
      · simp only [beq_iff_eq, hip, if_false]
        cases checkSentinel dt sentinel <;> rfl
  | plain dt => rfl
  | packed => rfl
  | wide n => rfl

/-- `check_sentinel` refuses with `ValueError` only -/
theorem checkSentinel_error {dt : DT} {s : Option Val} {e : Err} (h : checkSentinel dt s = .error e) :
    e = .value := by
  unfold checkSentinel at h
  repeat' (split at h)
  all_goals first | (cases h; done) | (cases h; rfl)


/-- the storage of the copy, read back (C12.astype_spec at the API types) -/
theorem C12_astype (m : MapObj) (i : Nat) (dt : DT) (s : Val) (hm : m.WF) (hk : m.KindOk) :
    (∀ p, p < m.npix → (copyOf m i dt s).abs p =
        if m.validAt p = true then recField i (m.abs p) else s) ∧
    (∀ j, (copyOf m i dt s).covd j = m.covd j) := by
  have hg : (fun x => if m.vc.valid x then recField i x else s) m.vc.sentinel = s := by
    have := hk.blankInvalid
    unfold MapObj.BlankInvalid at this
    simp [this]
  constructor
  · intro p hp
    exact abs_mapCells m.c m.vc (copyOf m i dt s).vc m.st _ hm.2 p hp
  · intro j; rfl

/-- what a successful copy knows -/
theorem copy_ok {m k : MapObj} {i : Nat} {sentinel : Option Val}
    (h : apiGetSingleCopy m i sentinel = .ok k) :
    ∃ fs pr dt, m.kind = .recd fs pr ∧ fs[i]? = some dt ∧ k = copyOf m i dt k.sent ∧
      ((i = pr ∧ k.sent = m.sent) ∨ (i ≠ pr ∧ checkSentinel dt sentinel = .ok k.sent)) := by
  rw [apiGetSingleCopy_eq] at h
  cases hk : m.kind with
  | recd fs pr =>
    rw [hk] at h
    simp only at h
    cases hg : fs[i]? with
    | none => rw [hg] at h; cases h
    | some dt =>
      rw [hg] at h
      simp only at h
      by_cases hip : i = pr
      · rw [if_pos hip] at h
        cases h
        exact ⟨fs, pr, dt, rfl, hg, rfl, Or.inl ⟨hip, rfl⟩⟩
      · rw [if_neg hip] at h
        cases hc : checkSentinel dt sentinel with
        | error e => rw [hc] at h; cases h
        | ok s =>
          rw [hc] at h
          cases h
          exact ⟨fs, pr, dt, rfl, hg, rfl, Or.inr ⟨hip, hc⟩⟩
  | plain dt => rw [hk] at h; cases h
  | packed => rw [hk] at h; cases h
  | wide n => rw [hk] at h; cases h

/-- a valid record cell's primary never reads as the map's sentinel -/
theorem primary_ne_sent {fs : List DT} {pr : Nat} {s v : Val}
    (hv : (Kind.recd fs pr).valid s v = true) : recField pr v ≠ s := by
  cases v with
  | recd l =>
    rw [valid_recd] at hv
    intro he
    rw [recField_recd] at he
    rw [← he] at hv
    simp [Val.numD] at hv
  | _ =>
    intro he
    simp only [recField] at he
    subst he
    simp [Kind.valid] at hv

/-- **`get_single(copy=True)`**: kind `plain fs[i]`; same orders and coverage; at the pixels
    valid in `m` (primary ≠ sentinel) the stored field, the field map's sentinel everywhere else;
    so `p` is valid in the copy iff it is valid in `m` AND the stored field value is not the field
    map's sentinel (the collision); for the primary field: valid in the copy ⇔ valid in `m` -/
theorem copy_spec {m k : MapObj} {i : Nat} {sentinel : Option Val} (hm : m.WF) (hk : m.KindOk)
    (h : apiGetSingleCopy m i sentinel = .ok k) :
    k.WF ∧ k.covord = m.covord ∧ k.spord = m.spord ∧ k.view = none ∧ k.cache = none ∧
    (∀ j, k.covd j = m.covd j) ∧
    (∀ p, p < m.npix → k.abs p = if m.validAt p = true then recField i (m.abs p) else k.sent) ∧
    (∀ p, p < m.npix → k.validAt p = (m.validAt p && recField i (m.abs p) != k.sent)) ∧
    (∀ fs pr, m.kind = .recd fs pr → i = pr → ∀ p, p < m.npix → k.validAt p = m.validAt p) := by
  obtain ⟨fs, pr, dt, hkind, hg, hcopy, hsent⟩ := copy_ok h
  have hwf := WF.apiGetSingleCopy hm hk h
  have hspec := C12_astype m i dt k.sent hm hk
  have habs : ∀ p, p < m.npix →
      k.abs p = if m.validAt p = true then recField i (m.abs p) else k.sent := by
    intro p hp
    rw [hcopy]
    exact hspec.1 p hp
  have hval : ∀ p, p < m.npix → k.validAt p = (m.validAt p && recField i (m.abs p) != k.sent) := by
    intro p hp
    unfold MapObj.validAt at *
    rw [habs p hp]
    have hkv : ∀ v, k.vc.valid v = (v != k.sent) := by
      intro v; rw [hcopy]; rfl
    rw [hkv]
    cases m.vc.valid (m.abs p) <;> simp
  refine ⟨hwf, by rw [hcopy]; rfl, by rw [hcopy]; rfl, by rw [hcopy]; rfl, by rw [hcopy]; rfl,
    fun j => by rw [hcopy]; exact hspec.2 j, habs, hval, ?_⟩
  intro fs' pr' hk' hip p hp
  rw [hval p hp]
  rw [hkind] at hk'
  cases hk'
  rcases hsent with ⟨_, hs⟩ | ⟨hne, _⟩
  · cases hv : m.validAt p with
    | false => rfl
    | true =>
      have : recField pr (m.abs p) ≠ m.sent := by
        apply primary_ne_sent (fs := fs) (pr := pr)
        have : m.vc.valid (m.abs p) = true := hv
        unfold MapObj.vc at this
        rw [hkind] at this
        exact this
      rw [hs, hip]
      simp [this]
  · exact absurd hip hne


/-! ### whole-record `update_values_pix` -/

open ApiRanges

theorem replace_ok {m m' : MapObj} {pix : List Nat} {vals : Option (List Val)} {single : Bool}
    (hne : pix ≠ []) (h : apiUpdate m "replace" pix vals single = .ok m') :
    pix.Nodup ∧ (∀ p ∈ pix, p < m.npix) ∧
    (∀ vs, vals = some vs → (single || vs.length == 1) = false → vs.length = pix.length) ∧
    (m.view.isSome = true → ∀ p ∈ pix, m.abs p ≠ m.sent) ∧
    m' = { m with cache := none,
                  st := updatePix m.c m.vc m.st none (fun _ w => w) (updPv m pix vals single) vals.isNone } := by
  rw [ApiRanges.apiUpdate_eq] at h
  unfold apiUpdateSpec at h
  have hf : frontErr m "replace" vals.isNone = none := by
    unfold frontErr; simp
  have hpe : pix.isEmpty = false := by cases pix <;> simp_all
  simp only [hf, hpe] at h
  repeat' (split at h)
  all_goals first | (cases h; done) | skip
  · rename_i hh; cases hh
  · rename_i _ h5 h4 h3 h2 h1 _
    cases h
    refine ⟨?_, lt_of_not_any_ge h2, ?_, ?_, rfl⟩
    · apply Decidable.not_not.1
      intro hnd
      apply h4
      simp only [beq_self_eq_true, Bool.true_and, decide_eq_true_eq]
      exact (eraseDups_length_lt_iff pix).2 hnd
    · intro vs hvs hs
      subst hvs
      simp only [Option.isNone_some, Bool.false_or, Option.getD_some, hs, Bool.not_false,
        Bool.true_and, bne_iff_ne, ne_eq, Decidable.not_not] at h3
      exact h3
    · intro hv p hp hab
      apply h1
      rw [hv, Bool.true_and, List.any_eq_true]
      exact ⟨p, hp, by rw [hab]; exact beq_self_eq_true _⟩

/-! the generic "replace with distinct pixels" facts at a map object -/

/-- the replace write of a list with distinct pixels, read back -/
theorem updatePix_replace_abs {m : MapObj} (hm : m.WF) (pv : List (Nat × Val)) (na : Bool)
    (hL : ∀ qw ∈ pv, qw.1 < m.npix) (hnd : (pv.map (·.1)).Nodup) (p : Nat) (hp : p < m.npix) :
    abs m.c m.vc (updatePix m.c m.vc m.st none (fun _ (w : Val) => w) pv na) p =
      if (na && !m.covd (p >>> m.c.shift)) = true then m.abs p
      else match pv.find? (·.1 == p) with
        | some qw => qw.2
        | none => m.abs p := by
  have hL' : ∀ qw ∈ stageList false pv, qw.1 < m.c.npix := by
    intro qw hq
    obtain ⟨pw, hpw, he⟩ := stageList_fst_mem false pv qw hq
    rw [← he]; exact hL pw hpw
  show abs m.c m.vc (updateCore m.c m.vc m.st (stageOp id fun _ (w : Val) => w) (stageList false pv) na) p = _
  rw [updateCore_refines' m.c m.vc m.st _ _ na hm.2 hL' p hp]
  unfold denseUpdate
  show (if (na && !m.covd (p >>> m.c.shift)) = true then m.abs p else _) = _
  split
  · rfl
  · cases hf : pv.find? (·.1 == p) with
    | some qw =>
      have hmem := List.mem_of_find?_eq_some hf
      have hq : qw.1 = p := by simpa using List.find?_some hf
      simp only
      have : (p, qw.2) ∈ pv := by rw [← hq]; exact hmem
      exact denseFold_replace_nodup pv hnd p qw.2 this _
    | none =>
      simp only
      apply denseFold_none
      intro qw hq he
      obtain ⟨pw, hpw, he'⟩ := stageList_fst_mem false pv qw hq
      have := List.find?_eq_none.1 hf pw hpw
      simp [he', he] at this

theorem eq_of_nodup_fst {α : Type} {l : List (Nat × α)} (hnd : (l.map (·.1)).Nodup)
    {a b : Nat × α} (ha : a ∈ l) (hb : b ∈ l) (h : a.1 = b.1) : a = b := by
  induction l with
  | nil => cases ha
  | cons x xs ih =>
    rw [List.map_cons, List.nodup_cons] at hnd
    rcases List.mem_cons.1 ha with rfl | ha' <;> rcases List.mem_cons.1 hb with rfl | hb'
    · rfl
    · exact absurd (List.mem_map.2 ⟨b, hb', h.symm⟩) hnd.1
    · exact absurd (List.mem_map.2 ⟨a, ha', h⟩) hnd.1
    · exact ih hnd.2 ha' hb'

theorem updPv_fst (m : MapObj) (pix : List Nat) (vals : Option (List Val)) (single : Bool)
    (hlen : ∀ vs, vals = some vs → (single || vs.length == 1) = false → vs.length = pix.length) :
    (updPv m pix vals single).map (·.1) = pix := by
  unfold updPv
  cases vals with
  | none => simp [List.map_map, Function.comp_def]
  | some vs =>
    simp only
    split
    · simp [List.map_map, Function.comp_def]
    · rename_i hs
      have := hlen vs rfl (by simpa using hs)
      exact List.map_fst_zip (by omega)

/-- **whole-record `update_values_pix(pix, values)`** (any kind of map, in fact): accepted only
    for distinct in-range pixels; every addressed pixel then shows exactly the value written —
    every field of a record, whether or not its primary is the sentinel —, every other pixel is
    unchanged, and the coverage grows by the coverage pixels addressed -/
theorem replace_spec {m m' : MapObj} {pix : List Nat} {vs : List Val} {single : Bool}
    (hm : m.WF) (hne : pix ≠ []) (h : apiUpdate m "replace" pix (some vs) single = .ok m') :
    m'.WF ∧ m'.kind = m.kind ∧ m'.sent = m.sent ∧ m'.covord = m.covord ∧ m'.spord = m.spord ∧
    pix.Nodup ∧ (∀ p ∈ pix, p < m.npix) ∧
    (∀ qw ∈ updPv m pix (some vs) single, m'.abs qw.1 = qw.2) ∧
    (∀ p, p < m.npix → p ∉ pix → m'.abs p = m.abs p) ∧
    (∀ k, k < m.c.ncov → m'.covd k = (m.covd k || pix.any fun p => p >>> m.c.shift == k)) := by
  have hwf := WF.apiUpdate hm h
  obtain ⟨hnd, hlt, hlen, _, rfl⟩ := replace_ok hne h
  have hfst := updPv_fst m pix (some vs) single hlen
  have hL : ∀ qw ∈ updPv m pix (some vs) single, qw.1 < m.npix := by
    intro qw hq
    apply hlt
    rw [← hfst]
    exact List.mem_map.2 ⟨qw, hq, rfl⟩
  have hnd' : ((updPv m pix (some vs) single).map (·.1)).Nodup := by rw [hfst]; exact hnd
  refine ⟨hwf, rfl, rfl, rfl, rfl, hnd, hlt, ?_, ?_, ?_⟩
  · intro qw hq
    show abs m.c m.vc (updatePix m.c m.vc m.st none (fun _ (w : Val) => w) _ (some vs).isNone) qw.1 = _
    rw [updatePix_replace_abs hm _ _ hL hnd' qw.1 (hL qw hq)]
    simp only [Option.isNone_some, Bool.false_and, Bool.false_eq_true, if_false]
    cases hf : (updPv m pix (some vs) single).find? (·.1 == qw.1) with
    | none =>
      have := List.find?_eq_none.1 hf qw hq
      simp at this
    | some qw' =>
      simp only
      have hmem := List.mem_of_find?_eq_some hf
      have hq' : qw'.1 = qw.1 := by simpa using List.find?_some hf
      -- distinct first components: the two entries coincide
      rw [eq_of_nodup_fst hnd' hmem hq hq']
  · intro p hp hnot
    show abs m.c m.vc (updatePix m.c m.vc m.st none (fun _ (w : Val) => w) _ (some vs).isNone) p = _
    rw [updatePix_replace_abs hm _ _ hL hnd' p hp]
    simp only [Option.isNone_some, Bool.false_and, Bool.false_eq_true, if_false]
    cases hf : (updPv m pix (some vs) single).find? (·.1 == p) with
    | none => rfl
    | some qw =>
      have hmem := List.mem_of_find?_eq_some hf
      have hq : qw.1 = p := by simpa using List.find?_some hf
      exfalso
      apply hnot
      rw [← hfst, ← hq]
      exact List.mem_map.2 ⟨qw, hmem, rfl⟩
  · intro k hk
    have hL' : ∀ qw ∈ stageList false (updPv m pix (some vs) single), qw.1 < m.c.npix := by
      intro qw hq
      obtain ⟨pw, hpw, he⟩ := stageList_fst_mem false _ qw hq
      rw [← he]; exact hL pw hpw
    show covered m.c (updateCore m.c m.vc m.st _ (stageList false _) (some vs).isNone) k = _
    rw [updateCore_covered' m.c m.vc m.st _ _ _ hm.2 hL' k hk]
    unfold denseCov
    simp only [Option.isNone_some, Bool.not_false, Bool.true_and]
    show (m.covd k || _) = _
    congr 1
    have e : stageList false (updPv m pix (some vs) single)
        = (updPv m pix (some vs) single).map fun pw => (pw.1, some pw.2) := by simp [stageList]
    rw [e, List.any_map]
    conv => rhs; rw [← hfst, List.any_map]
    rfl

/-- **`update_values_pix(pix, None)`**: every addressed pixel shows the blank record afterwards
    (each field its own blank: the sentinel for the primary, the field type's default sentinel
    for the others); nothing else changes; no coverage pixel is allocated -/
theorem clear_spec {m m' : MapObj} {pix : List Nat} {single : Bool}
    (hm : m.WF) (hne : pix ≠ []) (h : apiUpdate m "replace" pix none single = .ok m') :
    m'.WF ∧ m'.kind = m.kind ∧ m'.sent = m.sent ∧ pix.Nodup ∧ (∀ p ∈ pix, p < m.npix) ∧
    (∀ p ∈ pix, m'.abs p = m.kind.blank m.sent) ∧
    (∀ p, p < m.npix → p ∉ pix → m'.abs p = m.abs p) ∧
    (∀ k, k < m.c.ncov → m'.covd k = m.covd k) := by
  have hwf := WF.apiUpdate hm h
  obtain ⟨hnd, hlt, hlen, _, rfl⟩ := replace_ok hne h
  have hfst := updPv_fst m pix none single hlen
  have hL : ∀ qw ∈ updPv m pix none single, qw.1 < m.npix := by
    intro qw hq
    apply hlt
    rw [← hfst]
    exact List.mem_map.2 ⟨qw, hq, rfl⟩
  have hnd' : ((updPv m pix none single).map (·.1)).Nodup := by rw [hfst]; exact hnd
  refine ⟨hwf, rfl, rfl, hnd, hlt, ?_, ?_, ?_⟩
  · intro p hp
    show abs m.c m.vc (updatePix m.c m.vc m.st none (fun _ (w : Val) => w) _ (none : Option (List Val)).isNone) p = _
    rw [updatePix_replace_abs hm _ _ hL hnd' p (hlt p hp)]
    simp only [Option.isNone_none, Bool.true_and]
    cases hc : m.covd (p >>> m.c.shift) with
    | false =>
      simp only [Bool.not_false, if_true]
      exact hm.2.abs_uncovered (hlt p hp) hc
    | true =>
      simp only [Bool.not_true, Bool.false_eq_true, if_false]
      have hmem : (p, clearValue m) ∈ updPv m pix none single := by
        unfold updPv
        exact List.mem_map.2 ⟨p, hp, rfl⟩
      cases hf : (updPv m pix none single).find? (·.1 == p) with
      | none =>
        have := List.find?_eq_none.1 hf _ hmem
        simp at this
      | some qw =>
        simp only
        have hmem' := List.mem_of_find?_eq_some hf
        unfold updPv at hmem'
        obtain ⟨x, _, rfl⟩ := List.mem_map.1 hmem'
        rfl
  · intro p hp hnot
    show abs m.c m.vc (updatePix m.c m.vc m.st none (fun _ (w : Val) => w) _ (none : Option (List Val)).isNone) p = _
    rw [updatePix_replace_abs hm _ _ hL hnd' p hp]
    split
    · rfl
    · cases hf : (updPv m pix none single).find? (·.1 == p) with
      | none => rfl
      | some qw =>
        have hmem := List.mem_of_find?_eq_some hf
        have hq : qw.1 = p := by simpa using List.find?_some hf
        exfalso
        apply hnot
        rw [← hfst, ← hq]
        exact List.mem_map.2 ⟨qw, hmem, rfl⟩
  · intro k hk
    have hL' : ∀ qw ∈ stageList false (updPv m pix none single), qw.1 < m.c.npix := by
      intro qw hq
      obtain ⟨pw, hpw, he⟩ := stageList_fst_mem false _ qw hq
      rw [← he]; exact hL pw hpw
    show covered m.c (updateCore m.c m.vc m.st _ (stageList false _) (none : Option (List Val)).isNone) k = _
    rw [updateCore_covered' m.c m.vc m.st _ _ _ hm.2 hL' k hk]
    unfold denseCov
    simp
    rfl


/-! ### a successful `update_values_pix`, in general -/

theorem update_ok_cases {m m' : MapObj} {op : String} {pix : List Nat} {vals : Option (List Val)}
    {single : Bool} {ru : Option Bool} (h : apiUpdate m op pix vals single ru = .ok m') :
    m' = { m with cache := none } ∨
    (pix ≠ [] ∧ (∀ p ∈ pix, p < m.npix) ∧
      (m.view.isSome = true → ∀ p ∈ pix, m.abs p ≠ m.sent) ∧
      m' = { m with cache := none, st := updSt m op pix vals single }) := by
  rw [ApiRanges.apiUpdate_eq] at h
  unfold apiUpdateSpec at h
  simp only at h
  repeat' (split at h)
  all_goals first
    | (cases h; done)
    | (cases h; exact Or.inl rfl)
    | (cases h
       refine Or.inr ⟨?_, lt_of_not_any_ge ‹¬(pix.any fun x => decide (x ≥ m.npix)) = true›, ?_, rfl⟩
       · intro he; exact ‹¬pix.isEmpty = true› (by rw [he]; rfl)
       · intro hv p hp hab
         apply ‹¬(m.view.isSome && pix.any fun p => m.abs p == m.sent) = true›
         rw [hv, Bool.true_and, List.any_eq_true]
         exact ⟨p, hp, by rw [hab]; exact beq_self_eq_true _⟩)

theorem updPv_fst_mem (m : MapObj) (pix : List Nat) (vals : Option (List Val)) (single : Bool)
    (qw : Nat × Val) (h : qw ∈ updPv m pix vals single) : qw.1 ∈ pix := by
  unfold updPv at h
  cases vals with
  | none => obtain ⟨x, hx, rfl⟩ := List.mem_map.1 h; exact hx
  | some vs =>
    simp only at h
    split at h
    · obtain ⟨x, hx, rfl⟩ := List.mem_map.1 h; exact hx
    · exact (List.of_mem_zip (a := qw.1) (b := qw.2) h).1

/-- an update all of whose pixels lie inside the coverage: same index, same storage size, and
    pixels not addressed keep their value -/
theorem updSt_covered {m : MapObj} (hm : m.WF) (op : String) (pix : List Nat)
    (vals : Option (List Val)) (single : Bool) (hlt : ∀ p ∈ pix, p < m.npix)
    (hcov : ∀ p ∈ pix, m.covd (p >>> m.c.shift) = true) :
    (updSt m op pix vals single).cov = m.st.cov ∧
    (updSt m op pix vals single).sp.size = m.st.sp.size ∧
    (∀ q, q < m.npix → q ∉ pix → abs m.c m.vc (updSt m op pix vals single) q = m.abs q) := by
  have hL : ∀ qw ∈ stageList (cellOp m op).1.isSome (updPv m pix vals single),
      qw.1 < m.c.npix ∧ covered m.c m.st (qw.1 >>> m.c.shift) = true := by
    intro qw hq
    obtain ⟨pw, hpw, he⟩ := stageList_fst_mem _ _ qw hq
    have := updPv_fst_mem m pix vals single pw hpw
    rw [← he]
    exact ⟨hlt _ this, hcov _ this⟩
  have he : updSt m op pix vals single =
      stage1 m.c m.st (stageOp ((cellOp m op).1.getD id) (cellOp m op).2)
        (stageList (cellOp m op).1.isSome (updPv m pix vals single)) :=
    updateCore_all_covered m.c m.vc m.st _ _ _ (fun qw hq => (hL qw hq).2)
  refine ⟨by rw [he]; rfl, by rw [he]; unfold stage1; rw [withScatter_size], ?_⟩
  intro q hq hnot
  rw [he, abs_stage1 m.c m.vc m.st _ _ hm.2 (fun qw h => (hL qw h).1) q hq]
  split
  · apply denseFold_none
    intro qw hqw hqe
    obtain ⟨pw, hpw, he'⟩ := stageList_fst_mem _ _ qw hqw
    exact hnot (by rw [← hqe, ← he']; exact updPv_fst_mem m pix vals single pw hpw)
  · rfl


/-! ### single-field views (`get_single(copy=False)`) -/

/-- the materialised view of field `i` (of type `dt`) of `p`: the field column over the parent's
    index -/
def viewOf (p : MapObj) (pn : String) (i : Nat) (dt : DT) (s : Val) (c : Option Nat) : MapObj :=
  { covord := p.covord, spord := p.spord, kind := .plain dt, sent := s,
    st := ⟨p.st.cov, p.st.sp.map (recField i)⟩, cache := c, view := some (pn, i) }

theorem checkSentinel_none (dt : DT) : checkSentinel dt none = .ok dt.defaultSentinel := rfl

theorem materializeView_eq (p : MapObj) (pn : String) (i : Nat) (s : Val) (c : Option Nat) :
    materializeView p pn i s c =
      match p.kind with
      | .recd fs _ =>
        match fs[i]? with
        | some dt => .ok (viewOf p pn i dt s c)
        | none => .error .value
      | _ => .error .type := by
  unfold materializeView singleSentinel viewOf
  simp only [bind, Except.bind, pure, Except.pure, throw, throwThe, MonadExceptOf.throw,
    checkSentinel_none]
  cases p.kind with
  | recd fs pr =>
    simp only
    cases fs[i]? with
    | none => rfl
    | some dt =>
      simp only
      by_cases hip : (i == pr) = true <;> simp [hip]
  | plain dt => rfl
  | packed => rfl
  | wide n => rfl

/-- **what a view shows**: field `i` of the parent's record at EVERY pixel (valid in the parent or
    not), over the parent's coverage; a pixel is valid in the view iff that value differs from the
    view's sentinel; the view of the primary field (a number sentinel) is valid exactly where the
    parent is -/
theorem view_spec {p : MapObj} (hp : p.WF) (pn : String) (i : Nat) (dt : DT) (s : Val)
    (c : Option Nat) :
    (viewOf p pn i dt s c).WFAt (viewBlank p i) ∧
    (s = viewBlank p i → (viewOf p pn i dt s c).WF) ∧
    (∀ q, q < p.npix → (viewOf p pn i dt s c).abs q = recField i (p.abs q)) ∧
    (∀ k, (viewOf p pn i dt s c).covd k = p.covd k) ∧
    (∀ q, q < p.npix → (viewOf p pn i dt s c).validAt q = (recField i (p.abs q) != s)) ∧
    (∀ fs n e, p.kind = .recd fs i → p.sent = .num n e → s = p.sent →
        ∀ q, q < p.npix → (viewOf p pn i dt s c).validAt q = p.validAt q) := by
  have hat : (viewOf p pn i dt s c).WFAt (viewBlank p i) :=
    ⟨hp.1, inv_mapCells p.c p.vc _ p.st (recField i) hp.2 rfl⟩
  have habs : ∀ q, q < p.npix → (viewOf p pn i dt s c).abs q = recField i (p.abs q) := fun q hq =>
    abs_mapCells p.c p.vc (viewOf p pn i dt s c).vc p.st (recField i) hp.2 q hq
  have hval : ∀ q, q < p.npix →
      (viewOf p pn i dt s c).validAt q = (recField i (p.abs q) != s) := by
    intro q hq
    unfold MapObj.validAt
    rw [habs q hq]
    rfl
  refine ⟨hat, ?_, habs, fun _ => rfl, hval, ?_⟩
  · intro hs
    rw [MapObj.WF_iff_WFAt]
    show (viewOf p pn i dt s c).WFAt s
    rw [hs]; exact hat
  · intro fs n e hk hsn hs q hq
    rw [hval q hq, hs, hsn]
    unfold MapObj.validAt MapObj.vc
    rw [hk, hsn]
    cases p.abs q with
    | recd l =>
      show (recField i (Val.recd l) != Val.num n e) = (Kind.recd fs i).valid (Val.num n e) (Val.recd l)
      rw [valid_recd, recField_recd]
      show _ = (l.getD i (0, 0) != (n, e))
      generalize l.getD i (0, 0) = x
      obtain ⟨x1, x2⟩ := x
      by_cases hx : (x1, x2) = (n, e)
      · cases hx; simp
      · have : Val.num x1 x2 ≠ Val.num n e := fun h => hx (by cases h; rfl)
        rw [bne_iff_ne.2 this, bne_iff_ne.2 hx]
    | _ => rfl

/-- the storage `writeBackView` builds when the view kept the parent's storage size -/
theorem writeBackView_st {p v : MapObj} (i : Nat) (hsz : v.st.sp.size = p.st.sp.size) :
    (writeBackView p i v).st =
      ⟨p.st.cov, p.st.sp.mapIdx fun j r => recSetField i r (rd v.st.sp j (recField i r))⟩ := by
  unfold writeBackView
  simp only
  congr 1
  apply Array.ext
  · simp
  · intro j h1 h2
    have hj : j < p.st.sp.size := by simpa using h1
    simp only [Array.getElem_mapIdx]
    rw [rd_eq_getElem _ _ _ (by rw [hsz]; exact hj), rd_eq_getElem _ _ _ (by rw [hsz]; exact hj)]

/-- **a write through a view** (`update_values_pix` on the view, accepted, written back): the
    parent stays well formed, keeps its index (coverage), kind, sentinel; its cache is reset; at
    every pixel the parent's record has field `i` replaced by what the updated view shows there;
    hence every other field of every pixel, and every pixel not addressed, is unchanged -/
theorem view_update_spec {p : MapObj} {pn : String} {i : Nat} {dt : DT} {s : Val} {c : Option Nat}
    {v' : MapObj} {op : String} {pix : List Nat} {vals : Option (List Val)} {single : Bool}
    {ru : Option Bool} {fs : List DT} {pr : Nat}
    (hp : p.WF) (hk : p.kind = .recd fs pr) (hg : fs[i]? = some dt) (hs : s = viewBlank p i)
    (h : apiUpdate (viewOf p pn i dt s c) op pix vals single ru = .ok v') :
    (writeBackView p i v').WF ∧ (writeBackView p i v').st.cov = p.st.cov ∧
    (writeBackView p i v').kind = p.kind ∧ (writeBackView p i v').sent = p.sent ∧
    (writeBackView p i v').covord = p.covord ∧ (writeBackView p i v').spord = p.spord ∧
    (writeBackView p i v').view = p.view ∧ (writeBackView p i v').cache = none ∧
    (∀ k, (writeBackView p i v').covd k = p.covd k) ∧
    (∀ q, q < p.npix → (writeBackView p i v').abs q = recSetField i (p.abs q) (v'.abs q)) ∧
    (∀ q, q < p.npix → q ∉ pix → (writeBackView p i v').abs q = p.abs q) ∧
    (∀ q, q < p.npix → ∀ j, j ≠ i →
        recField j ((writeBackView p i v').abs q) = recField j (p.abs q)) := by
  have hmat : materializeView p pn i s c = .ok (viewOf p pn i dt s c) := by
    rw [materializeView_eq, hk]; simp only [hg]
  have hwf := WF.view_apiUpdate hp hmat h
  obtain ⟨_, hvwf, hvabs, _, _, _⟩ := view_spec hp pn i dt s c
  have hvwf := hvwf hs
  -- index, size and frame of the updated view
  have key : v'.st.cov = p.st.cov ∧ v'.st.sp.size = p.st.sp.size ∧ v'.c = p.c ∧
      (∀ q, q < p.npix → q ∉ pix → v'.abs q = recField i (p.abs q)) := by
    rcases update_ok_cases h with rfl | ⟨_, hlt, hguard, rfl⟩
    · exact ⟨rfl, by simp [viewOf], rfl, fun q hq _ => hvabs q hq⟩
    · have hcov : ∀ q ∈ pix, (viewOf p pn i dt s c).covd (q >>> (viewOf p pn i dt s c).c.shift) = true := by
        intro q hq
        cases hc : (viewOf p pn i dt s c).covd (q >>> (viewOf p pn i dt s c).c.shift) with
        | true => rfl
        | false =>
          exact absurd (hvwf.2.abs_uncovered (hlt q hq) hc) (hguard rfl q hq)
      obtain ⟨h1, h2, h3⟩ := updSt_covered hvwf op pix vals single hlt hcov
      refine ⟨h1, by rw [h2]; simp [viewOf], rfl, fun q hq hnot => ?_⟩
      exact (h3 q hq hnot).trans (hvabs q hq)
  obtain ⟨kcov, ksz, kc, kframe⟩ := key
  have habs : ∀ q, q < p.npix → (writeBackView p i v').abs q = recSetField i (p.abs q) (v'.abs q) := by
    intro q hq
    have hi := hp.2.idxOf_lt_size hq
    show abs p.c p.vc (writeBackView p i v').st q = _
    rw [writeBackView_st i ksz, abs_mapIdx p.c p.vc p.st _ hp.2 q hq]
    congr 1
    have hl : lookup v'.c v'.st q = lookup p.c p.st q := by unfold lookup; rw [kcov, kc]
    show _ = rd v'.st.sp (lookup v'.c v'.st q).toNat _
    rw [hl]
    show rd v'.st.sp (idxOf p.c p.st q) _ = rd v'.st.sp (idxOf p.c p.st q) _
    rw [rd_eq_getElem _ _ _ (by rw [ksz]; exact hi), rd_eq_getElem _ _ _ (by rw [ksz]; exact hi)]
  refine ⟨hwf, rfl, rfl, rfl, rfl, rfl, rfl, rfl, fun _ => rfl, habs, ?_, ?_⟩
  · intro q hq hnot
    rw [habs q hq, kframe q hq hnot, recSetField_recField]
  · intro q hq j hj
    rw [habs q hq, recField_recSetField_ne hj]


/-! ### range updates through a view -/

/-- a view always takes the explicit path: a successful range update of a view is a successful
    pixel update with the expanded ranges and the single value -/
theorem apiUpdateRanges_view_ok {v v' : MapObj} {op : String} {R : List (Nat × Nat)}
    {val : Option Val} {sp : Bool} (hv : v.view.isSome = true)
    (h : apiUpdateRanges v op R val sp = .ok v') :
    ∃ ru, apiUpdate v op (expand R) (val.map fun x => [x]) true ru = .ok v' := by
  unfold apiUpdateRanges at h
  simp only [hv, Bool.or_true, if_true] at h
  split at h
  · rename_i he
    have : R = [] := by cases R <;> simp_all
    subst this
    exact ⟨none, h⟩
  · split at h
    · simp only [bind, Except.bind, throw, throwThe, MonadExceptOf.throw] at h
      split at h <;> cases h
    · exact ⟨_, h⟩

/-! ### what a write through a view stores, field by field -/

/-- **`replace` through a view**: each addressed pixel gets exactly the value written in field `i`
    of the parent's record (all other fields kept) -/
theorem view_replace_spec {p : MapObj} {pn : String} {i : Nat} {dt : DT} {s : Val} {c : Option Nat}
    {v' : MapObj} {pix : List Nat} {vs : List Val} {single : Bool}
    {fs : List DT} {pr : Nat}
    (hp : p.WF) (hk : p.kind = .recd fs pr) (hg : fs[i]? = some dt) (hs : s = viewBlank p i)
    (h : apiUpdate (viewOf p pn i dt s c) "replace" pix (some vs) single = .ok v') :
    ∀ qw ∈ updPv (viewOf p pn i dt s c) pix (some vs) single,
      (writeBackView p i v').abs qw.1 = recSetField i (p.abs qw.1) qw.2 := by
  intro qw hq
  have hmem := updPv_fst_mem _ pix (some vs) single qw hq
  have hne : pix ≠ [] := by intro he; rw [he] at hmem; cases hmem
  have hvwf := (view_spec hp pn i dt s c).2.1 hs
  obtain ⟨_, _, _, _, _, _, hlt, hval, _, _⟩ := replace_spec hvwf hne h
  have := (view_update_spec hp hk hg hs h).2.2.2.2.2.2.2.2.2.1 qw.1 (hlt qw.1 hmem)
  rw [this, hval qw hq]

/-- **writing the sentinel through the view of the PRIMARY field** invalidates the pixel in the
    parent and keeps its other fields -/
theorem primary_sentinel_invalidates {p : MapObj} {fs : List DT} {pr : Nat} {n : Int} {e : Nat}
    {l : List (Int × Nat)} (hk : p.kind = .recd fs pr) (hsn : p.sent = .num n e)
    (hl : pr < l.length) :
    p.vc.valid (recSetField pr (.recd l) (.num n e)) = false ∧
    ∀ j, j ≠ pr → recField j (recSetField pr (.recd l) (.num n e)) = recField j (.recd l) := by
  refine ⟨?_, fun j hj => recField_recSetField_ne hj _ _⟩
  unfold MapObj.vc
  rw [hk, hsn]
  show (Kind.recd fs pr).valid (.num n e) (.recd (l.set pr (n, e))) = false
  rw [valid_recd, List.getD_eq_getElem?_getD, List.getElem?_set_self hl]
  simp [Val.numD]

/-! ### the driver -/

theorem get?_of_owning {w : World} {n : String} {m : MapObj} (h : w.raw? n = some m)
    (hv : m.view = none) : w.get? n = some m := by
  unfold World.get?
  rw [h]
  simp only [hv]

/-- a record map that `get?` answers is an owning entry -/
theorem raw?_of_get?_recd {w : World} {n : String} {m : MapObj} (h : w.get? n = some m)
    (hk : m.kind.isRecd = true) : w.raw? n = some m ∧ m.view = none := by
  rcases World.get?_cases h with ⟨hr, hv⟩ | ⟨d, pn, i, p, _, _, _, _, hm, _, _⟩
  · exact ⟨hr, hv⟩
  · obtain ⟨dt, s, _, _, _, h3, _⟩ := materializeView_ok hm
    rw [h3] at hk; cases hk

/-- `World.get?` of a view descriptor, unfolded -/
theorem get?_view {w : World} {vn pn : String} {i : Nat} {d p : MapObj}
    (hd : w.raw? vn = some d) (hdv : d.view = some (pn, i)) (hp : w.raw? pn = some p) :
    w.get? vn =
      if d.sent != recField i (p.kind.blank p.sent) then none else
      match materializeView p pn i d.sent d.cache with
      | .ok v => if v.kind == d.kind && d.kind != .plain .bool then some v else none
      | .error _ => none := by
  unfold World.get?
  rw [hd]
  simp only [hdv, hp]
  rfl

/-- the view descriptor `single … copy=0` registers -/
def descOf (m : MapObj) (n : String) (i : Nat) (dt : DT) (s : Val) : MapObj :=
  { m with kind := .plain dt, sent := s, st := ⟨#[], #[]⟩, cache := none, view := some (n, i) }

/-- the world after registering a view of field `i` of the map named `n` under the name `r` -/
def register (w : World) (n r : String) (m : MapObj) (i : Nat) (dt : DT) (s : Val) : World :=
  { w with pool := (r, descOf m n i dt s) :: w.pool.filter (·.1 != r) }

/-- **`single m field=i [sentinel=…] r=v`** (view form), totally.  Refused: `TypeError` for a map
    that is not a record map; `ValueError` for a field outside the record, for an override the
    field type does not accept, and for ANY effective re-sentinelling of a non-primary field
    (a view shares the parent's storage, whose unset cells hold the field's default sentinel);
    `bad-op` for a boolean field (not modelled).  Accepted otherwise: the sentinel is the
    map's for the primary field (an override is ignored) and the field type's default for any
    other field. -/
theorem opSingle_view_eq {w : World} {a : Args} {n : String} {rest : List String} {m : MapObj}
    {i : Nat} {sent : Option Val} (ha : a.pos = n :: rest) (hget : w.get? n = some m)
    (hf : a.nat? "field" = some i) (hs : optVal a "sentinel" = some sent)
    (hc : a.flag "copy" = false) :
    opSingle w a =
      match m.kind with
      | .recd fs pr =>
        match fs[i]? with
        | none => (w, "err ValueError")
        | some dt =>
          if dt = .bool then (w, "bad-op:single-of-boolean-field")
          else if i = pr then (register w n (a.getD "r" "tmp") m i dt m.sent, "ok")
          else match checkSentinel dt sent with
            | .error _ => (w, "err ValueError")
            | .ok s =>
              if s ≠ dt.defaultSentinel then (w, "err ValueError")
              else (register w n (a.getD "r" "tmp") m i dt s, "ok")
      | _ => (w, "err TypeError") := by
  unfold opSingle withMap
  simp only [ha, hget, hf, hs, hc, Bool.false_eq_true, if_false, List.headD_cons]
  unfold singleSentinel
  simp only [bind, Except.bind, pure, Except.pure, throw, throwThe, MonadExceptOf.throw]
  cases hk : m.kind with
  | recd fs pr =>
    simp only
    cases hg : fs[i]? with
    | none => rfl
    | some dt =>
      simp only
      by_cases hb : dt = .bool
      · subst hb; simp
      · have hb' : (some dt == some DT.bool) = false := by simpa using hb
        simp only [hb', Bool.false_eq_true, if_false, hb]
        by_cases hip : i = pr
        · subst hip
          simp [register, descOf]
        · have hip' : (i == pr) = false := by simpa using hip
          have hip'' : (i != pr) = true := by simpa using hip
          simp only [hip', Bool.false_eq_true, if_false, hip, hip'', Bool.true_and]
          cases hcs : checkSentinel dt sent with
          | error e =>
            simp only
            rw [checkSentinel_error hcs]
            rfl
          | ok s =>
            simp only
            by_cases hsd : s = dt.defaultSentinel
            · simp [hsd, register, descOf]
            · have : (s != dt.defaultSentinel) = true := by simpa using hsd
              simp only [this, if_true, ne_eq, hsd, not_false_eq_true]
              rfl
  | plain dt => rfl
  | packed => rfl
  | wide k => rfl


theorem errLine_ne_ok (e : Err) : errLine e ≠ "ok" := by
  unfold errLine
  split
  · decide
  · intro h
    have := congrArg String.length h
    rw [String.length_append] at this
    have h1 : "err ".length = 4 := by decide
    have h2 : "ok".length = 2 := by decide
    omega

theorem ite_err_ok {c : Prop} [Decidable c] {x : World} {e : Err} {y : World × String}
    (h : (if c then (x, errLine e) else y).2 = "ok") :
    y.2 = "ok" ∧ (if c then (x, errLine e) else y) = y := by
  by_cases hc : c
  · rw [if_pos hc] at h; exact absurd h (errLine_ne_ok e)
  · rw [if_neg hc] at h ⊢; exact ⟨h, rfl⟩

/-- an operation on a named map that answers `ok` found the map -/
theorem withMap_ok {w : World} {a : Args} {k : MapObj → World × String}
    (h : (withMap w a k).2 = "ok") :
    ∃ n rest m, a.pos = n :: rest ∧ w.get? n = some m ∧ withMap w a k = k m := by
  unfold withMap at h ⊢
  split at h
  · rename_i n rest hpos
    split at h
    · rename_i m hm
      exact ⟨n, rest, m, hpos, hm, rfl⟩
    · exact absurd h (show ¬ "bad-op:no-such-map" = "ok" by decide)
  · exact absurd h (show ¬ "bad-op:no-map-name" = "ok" by decide)

/-- **an accepted `upd` line**: the named map resolved to `m` (a view is materialised), the
    library call on it succeeded with `m'`, and `m'` was stored back under the name (through a
    view: written back into the parent) -/
theorem opUpd_ok {w : World} {a : Args} (h : (opUpd w a).2 = "ok") :
    ∃ n rest m m' pix vals single, a.pos = n :: rest ∧ w.get? n = some m ∧
      parseNats (a.getD "pix" "_") = some pix ∧
      apiUpdate m (a.getD "op" "replace") pix vals single = .ok m' ∧
      opUpd w a = (w.put n m', "ok") := by
  unfold opUpd at h ⊢
  obtain ⟨n, rest, m, hpos, hget, he⟩ := withMap_ok h
  rw [he] at h ⊢
  simp only [hpos, List.headD_cons] at h ⊢
  split at h
  · exact absurd h (show ¬ "bad-op:pix" = "ok" by decide)
  · rename_i pix hpix
    split at h
    · exact absurd h (show ¬ "bad-op:val" = "ok" by decide)
    · rename_i vals single hr
      obtain ⟨h2, he2⟩ := ite_err_ok h
      cases hu : apiUpdate m (a.getD "op" "replace") pix vals single with
      | error e => rw [hu] at h2; exact absurd h2 (errLine_ne_ok e)
      | ok m' =>
        refine ⟨n, rest, m, m', pix, vals, single, rfl, hget, hpix, hu, ?_⟩
        rw [hu] at he2
        exact he2

theorem opUpdr_ok {w : World} {a : Args} (h : (opUpdr w a).2 = "ok") :
    ∃ n rest m m' R val sp, a.pos = n :: rest ∧ w.get? n = some m ∧
      parseRanges (a.getD "ranges" "_") = some R ∧
      apiUpdateRanges m (a.getD "op" "replace") R val sp = .ok m' ∧
      opUpdr w a = (w.put n m', "ok") := by
  unfold opUpdr at h ⊢
  obtain ⟨n, rest, m, hpos, hget, he⟩ := withMap_ok h
  rw [he] at h ⊢
  simp only [hpos, List.headD_cons] at h ⊢
  split at h
  · exact absurd h (show ¬ "bad-op:ranges" = "ok" by decide)
  · rename_i R hR
    split at h
    · exact absurd h (show ¬ "bad-op:val" = "ok" by decide)
    · rename_i val hval
      split at h
      · rename_i m' hu
        refine ⟨n, rest, m, m', R, val, _, rfl, hget, hR, hu, ?_⟩
        rfl
      · exact absurd h (errLine_ne_ok _)


/-! ### the blank field a view's sentinel must equal -/

theorem viewBlank_primary {m : MapObj} {fs : List DT} {pr : Nat} {dt : DT} {n : Int} {e : Nat}
    (hk : m.kind = .recd fs pr) (hg : fs[pr]? = some dt) (hs : m.sent = .num n e) :
    viewBlank m pr = m.sent := by
  unfold viewBlank MapObj.vc
  rw [hk]
  show recField pr ((Kind.recd fs pr).blank m.sent) = _
  rw [recField_blank m.sent hg, if_pos rfl, hs]
  rfl

theorem viewBlank_other {m : MapObj} {fs : List DT} {pr i : Nat} {dt : DT}
    (hk : m.kind = .recd fs pr) (hg : fs[i]? = some dt) (hip : i ≠ pr) (hb : dt ≠ .bool) :
    viewBlank m i = dt.defaultSentinel := by
  unfold viewBlank MapObj.vc
  rw [hk]
  show recField i ((Kind.recd fs pr).blank m.sent) = _
  rw [recField_blank m.sent hg, if_neg hip]
  cases dt with
  | bool => exact absurd rfl hb
  | int b sg => cases sg <;> rfl
  | flt b =>
    unfold DT.defaultSentinel
    split <;> first | rfl | (rename_i h; cases h)

/-! ### lookups after registering a view -/

theorem raw?_register_self (w : World) (n r : String) (m : MapObj) (i : Nat) (dt : DT) (s : Val) :
    (register w n r m i dt s).raw? r = some (descOf m n i dt s) := by
  rw [raw?_eq]; exact rawL_cons_self _ _ _

theorem raw?_register_ne (w : World) (n r : String) (m : MapObj) (i : Nat) (dt : DT) (s : Val)
    {x : String} (hx : r ≠ x) : (register w n r m i dt s).raw? x = w.raw? x := by
  rw [raw?_eq, raw?_eq]
  show rawL ((r, _) :: w.pool.filter (·.1 != r)) x = _
  rw [rawL_cons_ne hx]
  exact rawL_filter (q := fun y => y != r) (by simpa using Ne.symm hx) w.pool

/-- **after an accepted `single … r=v`** (view form): the name `v` resolves to the materialised
    view of the parent's CURRENT storage, the parent is untouched -/
theorem get?_register {w : World} {n r : String} {m : MapObj} {i : Nat} {dt : DT} {s : Val}
    {fs : List DT} {pr : Nat} (hget : w.get? n = some m) (hk : m.kind = .recd fs pr)
    (hg : fs[i]? = some dt) (hb : dt ≠ .bool) (hs : s = viewBlank m i) (hrn : r ≠ n) :
    (register w n r m i dt s).get? r = some (viewOf m n i dt s none) ∧
    (register w n r m i dt s).get? n = some m := by
  obtain ⟨hraw, hmv⟩ := raw?_of_get?_recd hget (by rw [hk]; rfl)
  have hn : (register w n r m i dt s).raw? n = some m := by
    rw [raw?_register_ne w n r m i dt s hrn]; exact hraw
  refine ⟨?_, get?_of_owning hn hmv⟩
  rw [get?_view (raw?_register_self w n r m i dt s) rfl hn]
  have h1 : ((descOf m n i dt s).sent != recField i (m.kind.blank m.sent)) = false := by
    show (s != viewBlank m i) = false
    rw [hs]; simp
  rw [h1]
  simp only [Bool.false_eq_true, if_false]
  rw [materializeView_eq, hk]
  simp only [hg]
  have h2 : ((viewOf m n i dt (descOf m n i dt s).sent (descOf m n i dt s).cache).kind
      == (descOf m n i dt s).kind && (descOf m n i dt s).kind != .plain .bool) = true := by
    show ((Kind.plain dt == Kind.plain dt) && (Kind.plain dt != Kind.plain .bool)) = true
    have : Kind.plain dt ≠ Kind.plain .bool := fun h => hb (by cases h; rfl)
    simp [this]
  rw [if_pos h2]
  rfl

/-! ### `World.put` through a view -/

theorem put_view {w : World} {vn pn : String} {i : Nat} {d p v' : MapObj}
    (hd : w.raw? vn = some d) (hdv : d.view = some (pn, i)) (hp : w.raw? pn = some p)
    (hv' : v'.view.isSome = true) :
    w.put vn v' =
      { w with pool := (vn, { v' with st := ⟨#[], #[]⟩ }) :: (pn, writeBackView p i v') ::
          w.pool.filter (fun e => e.1 != vn && e.1 != pn) } := by
  unfold World.put
  rw [hd]
  simp only [Option.bind_some, hdv]
  cases hv : v'.view with
  | none => rw [hv] at hv'; cases hv'
  | some y => simp only [hp]

/-- after a store through the view `vn` of field `i` of `pn`: the parent's entry is the written-back
    record map, every other name (except the view's) is untouched -/
theorem raw?_put_view {w : World} {vn pn : String} {i : Nat} {d p v' : MapObj}
    (hd : w.raw? vn = some d) (hdv : d.view = some (pn, i)) (hp : w.raw? pn = some p)
    (hv' : v'.view.isSome = true) (hne : vn ≠ pn) :
    (w.put vn v').raw? pn = some (writeBackView p i v') ∧
    (w.put vn v').raw? vn = some { v' with st := ⟨#[], #[]⟩ } ∧
    ∀ x, x ≠ vn → x ≠ pn → (w.put vn v').raw? x = w.raw? x := by
  rw [put_view hd hdv hp hv']
  refine ⟨?_, ?_, ?_⟩
  · rw [raw?_eq]
    show rawL _ pn = _
    rw [rawL_cons_ne hne, rawL_cons_self]
  · rw [raw?_eq]
    exact rawL_cons_self _ _ _
  · intro x hx1 hx2
    rw [raw?_eq, raw?_eq]
    show rawL _ x = _
    rw [rawL_cons_ne (Ne.symm hx1), rawL_cons_ne (Ne.symm hx2)]
    exact rawL_filter (q := fun y => y != vn && y != pn) (by simp [hx1, hx2]) w.pool


/-! ### a looked-up view, resolved -/

/-- what `get?` answered when it answered a view: the parent is an owning, `Ok` record map
    stored under another name, the view is `viewOf` it, and its sentinel is the parent's blank
    field -/
theorem view_resolved {w : World} (hw : w.Good) {vn pn : String} {i : Nat} {v : MapObj}
    (hget : w.get? vn = some v) (hview : v.view = some (pn, i)) :
    ∃ d p fs pr dt, w.raw? vn = some d ∧ d.view = some (pn, i) ∧ w.raw? pn = some p ∧
      p.view = none ∧ p.Ok ∧ w.get? pn = some p ∧ p.kind = .recd fs pr ∧ fs[i]? = some dt ∧
      dt ≠ .bool ∧ d.kind = .plain dt ∧ d.sent = v.sent ∧ d.cache = v.cache ∧
      v = viewOf p pn i dt v.sent v.cache ∧ v.sent = viewBlank p i ∧ vn ≠ pn := by
  rcases World.get?_cases hget with ⟨_, hv⟩ | ⟨d, pn', i', p, hd, hdv, hp, hs, hmat, hkd, hnb⟩
  · rw [hv] at hview; cases hview
  · have hmat' := hmat
    rw [materializeView_eq] at hmat'
    cases hk : p.kind with
    | recd fs pr =>
      rw [hk] at hmat'
      simp only at hmat'
      cases hg : fs[i']? with
      | none => rw [hg] at hmat'; cases hmat'
      | some dt =>
        rw [hg] at hmat'
        simp only at hmat'
        cases hmat'
        have hpi : (pn', i') = (pn, i) := Option.some.inj hview
        cases hpi
        obtain ⟨e, he, _, rfl⟩ := World.raw?_mem hp
        have hpv : e.2.view = none := by
          cases hv : e.2.view with
          | none => rfl
          | some x =>
            have := hw.2.1 e he (by rw [hv]; exact fun h => nomatch h)
            rw [hk] at this; cases this
        have hkd' : d.kind = .plain dt := hkd.symm
        have hne : vn ≠ pn := by
          intro h
          subst h
          rw [hd] at hp
          cases hp
          rw [hk] at hkd'
          cases hkd'
        refine ⟨d, e.2, fs, pr, dt, hd, hdv, hp, hpv, hw.1 e he hpv, get?_of_owning hp hpv, hk, hg,
          ?_, hkd', rfl, rfl, rfl, hs, hne⟩
        intro hb
        rw [hb] at hkd'
        exact hnb hkd'
    | plain dt => rw [hk] at hmat'; cases hmat'
    | packed => rw [hk] at hmat'; cases hmat'
    | wide n => rw [hk] at hmat'; cases hmat'

/-- **a store through a view** (what every accepted in-place operation on a view name does):
    afterwards the parent's name resolves to the written-back record map; names other than the
    view's and the parent's are untouched -/
theorem get?_put_view {w : World} (hw : w.Good) {vn pn : String} {i : Nat} {v v' : MapObj}
    (hget : w.get? vn = some v) (hview : v.view = some (pn, i)) (hv' : v'.view = v.view) :
    ∃ p, w.get? pn = some p ∧ (w.put vn v').get? pn = some (writeBackView p i v') ∧
      ∀ x, x ≠ vn → x ≠ pn → (w.put vn v').raw? x = w.raw? x := by
  obtain ⟨d, p, fs, pr, dt, hd, hdv, hp, hpv, _, hgp, _, _, _, _, _, _, _, _, hne⟩ :=
    view_resolved hw hget hview
  have hsome : v'.view.isSome = true := by rw [hv', hview]; rfl
  obtain ⟨h1, _, h3⟩ := raw?_put_view hd hdv hp hsome hne
  exact ⟨p, hgp, get?_of_owning h1 hpv, h3⟩

/-- **a view is never stale**: after the parent's name has been re-stored with an updated map of
    the same configuration, kind and sentinel (what `upd` / `updr` / every in-place operation on
    the parent does), the view's name resolves to the view of the NEW storage -/
theorem get?_view_after_parent_put {w : World} (hw : w.Good) {vn pn : String} {i : Nat}
    {v m' : MapObj} (hget : w.get? vn = some v) (hview : v.view = some (pn, i))
    (hsame : ∀ p, w.get? pn = some p → m'.Same p) :
    ∃ dt, v.kind = .plain dt ∧
      (w.put pn m').get? vn = some (viewOf m' pn i dt v.sent v.cache) ∧
      (w.put pn m').get? pn = some m' := by
  obtain ⟨d, p, fs, pr, dt, hd, hdv, hp, hpv, _, hgp, hk, hg, hb, hkd, hds, hdc, hv, hs, hne⟩ :=
    view_resolved hw hget hview
  obtain ⟨s1, s2, s3, s4, s5⟩ := hsame p hgp
  have hmv : m'.view = none := s5.trans hpv
  have hput : w.put pn m' = w.bind pn m' := World.put_eq_bind hmv
  have hm'' : ({ m' with view := none } : MapObj) = m' := by
    obtain ⟨co, so, k, se, st, ca, vi⟩ := m'
    simp only at hmv
    subst hmv
    rfl
  have hrp : (w.put pn m').raw? pn = some m' := by
    rw [hput, raw?_eq]
    show rawL ((pn, { m' with view := none }) :: _) pn = _
    rw [rawL_cons_self, hm'']
  have hrv : (w.put pn m').raw? vn = some d := by
    rw [hput, raw?_eq]
    show rawL ((pn, _) :: w.pool.filter (·.1 != pn)) vn = _
    rw [rawL_cons_ne (Ne.symm hne), rawL_filter (q := fun y => y != pn) (by simpa using hne) w.pool,
      ← raw?_eq]
    exact hd
  refine ⟨dt, by rw [hv]; rfl, ?_, get?_of_owning hrp hmv⟩
  rw [get?_view hrv hdv hrp]
  have h1 : (d.sent != recField i (m'.kind.blank m'.sent)) = false := by
    rw [s3, s4, hds, hs]
    show (viewBlank p i != viewBlank p i) = false
    simp
  rw [h1]
  simp only [Bool.false_eq_true, if_false]
  rw [materializeView_eq, s3, hk]
  simp only [hg]
  have h2 : ((viewOf m' pn i dt d.sent d.cache).kind == d.kind && d.kind != .plain .bool) = true := by
    rw [hkd]
    show ((Kind.plain dt == Kind.plain dt) && (Kind.plain dt != Kind.plain .bool)) = true
    have : Kind.plain dt ≠ Kind.plain .bool := fun h => hb (by cases h; rfl)
    simp [this]
  rw [if_pos h2, hds, hdc]


/-- **an accepted `update_values_pix` on a looked-up view, stored back**: the parent's name then
    resolves to a record map `p'` that is well formed, has the parent's kind, sentinel, orders and
    coverage, a reset cache, and differs from the parent at most in field `i` of the addressed
    pixels: `p'.abs q = recSetField i (p.abs q) (v'.abs q)` -/
theorem write_through_view {w : World} (hw : w.Good) {vn pn : String} {i : Nat} {v v' : MapObj}
    {op : String} {pix : List Nat} {vals : Option (List Val)} {single : Bool} {ru : Option Bool}
    (hget : w.get? vn = some v) (hview : v.view = some (pn, i))
    (hu : apiUpdate v op pix vals single ru = .ok v') :
    ∃ p p', w.get? pn = some p ∧ (w.put vn v').get? pn = some p' ∧ p' = writeBackView p i v' ∧
      p'.Ok ∧ p'.kind = p.kind ∧ p'.sent = p.sent ∧ p'.covord = p.covord ∧ p'.spord = p.spord ∧
      p'.cache = none ∧ (∀ k, p'.covd k = p.covd k) ∧
      (∀ q, q < p.npix → p'.abs q = recSetField i (p.abs q) (v'.abs q)) ∧
      (∀ q, q < p.npix → q ∉ pix → p'.abs q = p.abs q) ∧
      (∀ q, q < p.npix → ∀ j, j ≠ i → recField j (p'.abs q) = recField j (p.abs q)) ∧
      (∀ x, x ≠ vn → x ≠ pn → (w.put vn v').raw? x = w.raw? x) := by
  obtain ⟨d, p, fs, pr, dt, hd, hdv, hp, hpv, hpok, hgp, hk, hg, _, _, _, _, hv, hs, hne⟩ :=
    view_resolved hw hget hview
  have hv'view : v'.view = v.view := (WFApi.apiUpdate_ok hu).2.2.2.2.1
  obtain ⟨p0, hgp0, hput, hframe⟩ := get?_put_view hw hget hview hv'view
  rw [hgp] at hgp0
  cases hgp0
  rw [hv] at hu
  obtain ⟨h1, _, h3, h4, h5, h6, _, h8, h9, h10, h11, h12⟩ := view_update_spec hpok.1 hk hg hs hu
  refine ⟨p, _, hgp, hput, rfl, ⟨h1, ?_, ?_⟩, h3, h4, h5, h6, h8, h9, h10, h11, h12, hframe⟩
  · exact (MapObj.KindOk_congr h3 h4).2 hpok.2.1
  · exact (MapObj.SentOK_congr h3 h4).2 hpok.2.2

end ApiRecord
end HS
