import HealSparse.Props.C09
#print axioms HS.C09.sep_step
#print axioms HS.C09.mutate_frame
#print axioms HS.C09.mutate_self
#print axioms HS.C09.produce_frame
#print axioms HS.C09.produce_result
#print axioms HS.C09.no_tie
