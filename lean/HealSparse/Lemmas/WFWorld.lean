/-
  The world invariant of the protocol driver (Model/Dispatch.lean) and its preservation by
  every operation.

  `World.WF` (Model/WellFormed.lean) is not inductive by itself: several operations need more of
  the map they look up than its layout (`KindOk`: the sentinel has the type of the cell,
  Lemmas/WFApi.lean; `SentOK`: a wide mask's scalar sentinel is not a boolean,
  Lemmas/WFFiles.lean), the reader needs the same of what it recovers from a file, and a
  view descriptor must never be resolved against another descriptor.  `World.Good` adds these.

  FINDINGS (counterexamples at the end of the file): even `World.Good` is not preserved by
  every history, through two artefacts of the NAME-based view descriptors of `World`:
    (F-A) a copying operation whose result still carries the `view` flag, stored under an
          `r=` name that is currently bound to a view, enters the write-back branch of
          `World.put` and writes a foreign column into that view's parent;
    (F-B) after the name of a view's parent has been rebound to a record map whose field `i`
          is BOOLEAN (and whose blank value of that field equals the descriptor's sentinel),
          `World.get?` resolves the view to a `plain bool` map with a numeric sentinel.
  `Good.step` therefore carries two explicit hypotheses on the step (`NoBoolView`, `SafeLine`);
  the executable `safeFrom` checks them along a history.
-/
import HealSparse.Lemmas.WFApi
import HealSparse.Lemmas.WFRes
import HealSparse.Lemmas.WFFiles
namespace HS

open WFApi WFRes WFFiles

/-! ### the map-level and file-level predicates -/

def Kind.isRecd : Kind → Bool
  | .recd _ _ => true
  | _ => false

/-- well formed, well typed, sentinel compatible with the file format -/
def MapObj.Ok (m : MapObj) : Prop := m.WF ∧ m.KindOk ∧ m.SentOK

instance (m : MapObj) : Decidable m.Ok := by unfold MapObj.Ok; infer_instance

/-- the kind the reader recovers from the file is well typed with the file's sentinel -/
def FileObj.KindOk (f : FileObj) : Prop :=
  ∀ kind, fileKind f = some kind → ∀ m : MapObj, m.kind = kind → m.sent = f.sentinel → m.KindOk

theorem MapObj.Ok_congr {m m' : MapObj} (h1 : m'.covord = m.covord) (h2 : m'.spord = m.spord)
    (h3 : m'.kind = m.kind) (h4 : m'.sent = m.sent) (h5 : m'.st = m.st) : m'.Ok ↔ m.Ok := by
  unfold MapObj.Ok MapObj.SentOK
  rw [MapObj.WF_congr h1 h2 h3 h4 h5, MapObj.KindOk_congr h3 h4, h3, h4]

theorem MapObj.SentOK_congr {m m' : MapObj} (h3 : m'.kind = m.kind) (h4 : m'.sent = m.sent) :
    m'.SentOK ↔ m.SentOK := by
  unfold MapObj.SentOK; rw [h3, h4]

theorem MapObj.sentOK_of_plain {m : MapObj} {dt : DT} (h : m.kind = .plain dt) : m.SentOK := by
  unfold MapObj.SentOK; rw [h]; exact Kind.sentOK_plain _ _

theorem MapObj.sentOK_of_not_wide {m : MapObj} (h : ∀ n, m.kind ≠ .wide n) : m.SentOK :=
  Kind.sentOK_of_not_wide _ h

@[simp] theorem MapObj.Ok_view (m : MapObj) (x : Option (String × Nat)) :
    ({ m with view := x } : MapObj).Ok ↔ m.Ok := Iff.rfl

@[simp] theorem MapObj.Ok_cache (m : MapObj) (x : Option Nat) :
    ({ m with cache := x } : MapObj).Ok ↔ m.Ok := Iff.rfl

/-- same configuration, kind, sentinel and view flag (what every in-place operation keeps) -/
def MapObj.Same (m' m : MapObj) : Prop :=
  m'.covord = m.covord ∧ m'.spord = m.spord ∧ m'.kind = m.kind ∧ m'.sent = m.sent ∧ m'.view = m.view

theorem MapObj.Same.rfl' {m : MapObj} : m.Same m := ⟨rfl, rfl, rfl, rfl, rfl⟩

@[simp] theorem MapObj.same_withSt (m : MapObj) (st : State Val) (x : Option Nat) :
    ({ m with st := st, cache := x } : MapObj).Same m := ⟨rfl, rfl, rfl, rfl, rfl⟩

@[simp] theorem MapObj.same_cache (m : MapObj) (x : Option Nat) :
    ({ m with cache := x } : MapObj).Same m := ⟨rfl, rfl, rfl, rfl, rfl⟩

/-! ### the world invariant -/

/-- every owning pool entry is well formed, well typed and sentinel compatible; every view
    descriptor has a non-record kind (so a descriptor is never resolved against a descriptor);
    every file is well formed and the kind the reader recovers from it is well typed -/
def World.Good (w : World) : Prop :=
  (∀ e ∈ w.pool, e.2.view = none → e.2.Ok) ∧
  (∀ e ∈ w.pool, e.2.view ≠ none → e.2.kind.isRecd = false) ∧
  (∀ e ∈ w.files, e.2.WF ∧ e.2.KindOk)

theorem World.Good.wf {w : World} (h : w.Good) : w.WF :=
  ⟨fun e he hv => (h.1 e he hv).1, fun e he => (h.2.2 e he).1⟩

theorem World.good_empty : ({} : World).Good := by
  refine ⟨?_, ?_, ?_⟩ <;> intro e he <;> cases he

/-- is the name currently bound to a view descriptor -/
def World.isView (w : World) (n : String) : Bool := ((w.raw? n).bind (·.view)).isSome

/-- no view of a BOOLEAN record field can currently be looked up (finding F-B) -/
def World.NoBoolView (w : World) : Prop :=
  ∀ n m, w.get? n = some m → m.view ≠ none → m.kind ≠ .plain .bool

theorem World.raw?_mem {w : World} {n : String} {m : MapObj} (h : w.raw? n = some m) :
    ∃ e ∈ w.pool, e.1 = n ∧ e.2 = m := by
  unfold World.raw? at h
  cases hf : w.pool.find? (·.1 == n) with
  | none => rw [hf] at h; cases h
  | some e =>
    rw [hf] at h
    cases h
    have hb : (e.1 == n) = true := by
      have := List.find?_some hf
      exact this
    exact ⟨e, List.mem_of_find?_eq_some hf, eq_of_beq hb, rfl⟩

/-- the two ways `World.get?` answers -/
theorem World.get?_cases {w : World} {n : String} {v : MapObj} (h : w.get? n = some v) :
    (w.raw? n = some v ∧ v.view = none) ∨
    ∃ d pn i p, w.raw? n = some d ∧ d.view = some (pn, i) ∧ w.raw? pn = some p ∧
      d.sent = viewBlank p i ∧ materializeView p pn i d.sent d.cache = .ok v := by
  unfold World.get? at h
  split at h
  · cases h
  · rename_i d hd
    split at h
    · cases h
      exact .inl ⟨hd, ‹_›⟩
    · rename_i pn i hv
      split at h
      · cases h
      · rename_i p hp
        split at h
        · cases h
        · rename_i hs
          split at h
          · cases h
            refine .inr ⟨d, pn, i, p, hd, hv, hp, ?_, ‹_›⟩
            exact (by simpa using hs : d.sent = recField i (p.kind.blank p.sent))
          · cases h

/-- a materialised view has a record parent -/
theorem materializeView_parent_recd {p : MapObj} {pn : String} {i : Nat} {sent : Val}
    {cache : Option Nat} {v : MapObj} (h : materializeView p pn i sent cache = .ok v) :
    p.kind.isRecd = true := by
  obtain ⟨dt, s, hs, _⟩ := materializeView_ok h
  obtain ⟨fs, pr, hk, _⟩ := singleSentinel_ok hs
  rw [hk]; rfl

/-- what `World.get?` answers in a good world is well formed, well typed, sentinel compatible -/
theorem World.Good.get {w : World} (hw : w.Good) (hb : w.NoBoolView) {n : String} {v : MapObj}
    (h : w.get? n = some v) : v.Ok := by
  rcases World.get?_cases h with ⟨hr, hv⟩ | ⟨d, pn, i, p, hd, hdv, hp, hs, hm⟩
  · obtain ⟨e, he, _, rfl⟩ := World.raw?_mem hr
    exact hw.1 e he hv
  · obtain ⟨e, he, _, rfl⟩ := World.raw?_mem hp
    have hrec := materializeView_parent_recd hm
    have hpv : e.2.view = none := by
      cases hv : e.2.view with
      | none => rfl
      | some x =>
        have := hw.2.1 e he (by rw [hv]; exact fun h => nomatch h)
        rw [this] at hrec; cases hrec
    have hpok := hw.1 e he hpv
    obtain ⟨dt, s, _, _, _, h3, h4, _, _, h7⟩ := materializeView_ok hm
    refine ⟨WF.materializeView_of_sent hpok.1 hm hs, ?_, MapObj.sentOK_of_plain h3⟩
    apply kindOk_plain h3
    intro hdt
    exact absurd (by rw [h3, hdt]) (hb n v h (by rw [h7]; exact fun h => nomatch h))

/-! ### `World.put` -/

/-- storing under a name that is not a view, or storing a map without the view flag: the map
    becomes an owning entry -/
theorem World.Good.put_fresh {w : World} (hw : w.Good) (r : String) {m : MapObj} (hm : m.Ok)
    (h : m.view = none ∨ w.isView r = false) : (w.put r m).Good := by
  unfold World.put
  split
  · rename_i pn i x h1 h2
    rcases h with h | h
    · rw [h] at h2; cases h2
    · unfold World.isView at h; rw [h1] at h; cases h
  · refine ⟨?_, ?_, hw.2.2⟩
    · intro e he hev
      rcases List.mem_cons.1 he with rfl | he
      · exact hm
      · exact hw.1 e (List.mem_filter.1 he).1 hev
    · intro e he hev
      rcases List.mem_cons.1 he with rfl | he
      · exact absurd rfl hev
      · exact hw.2.1 e (List.mem_filter.1 he).1 hev

/-- storing, under the name it was looked up with, a map that kept the looked-up map's
    configuration, kind, sentinel and view flag (every in-place operation): for a view the column
    is written back into the parent, which stays good -/
theorem World.Good.put_inplace {w : World} (hw : w.Good) {n : String} {v m' : MapObj}
    (hget : w.get? n = some v) (hm : m'.Ok) (hsame : m'.Same v) : (w.put n m').Good := by
  obtain ⟨h1, h2, h3, h4, h5⟩ := hsame
  rcases World.get?_cases hget with ⟨hr, hv⟩ | ⟨d, pn, i, p, hd, hdv, hp, hs, hmat⟩
  · exact hw.put_fresh n hm (.inl (h5.trans hv))
  · obtain ⟨dt, s, _, g1, g2, g3, g4, _, _, g7⟩ := materializeView_ok hmat
    have hrec := materializeView_parent_recd hmat
    obtain ⟨e, he, _, rfl⟩ := World.raw?_mem hp
    have hpv : e.2.view = none := by
      cases hv : e.2.view with
      | none => rfl
      | some x =>
        have := hw.2.1 e he (by rw [hv]; exact fun h => nomatch h)
        rw [this] at hrec; cases hrec
    have hpok := hw.1 e he hpv
    have hdisc : (w.raw? n).bind (·.view) = some (pn, i) := by rw [hd]; exact hdv
    have hmv : m'.view = some (pn, i) := h5.trans g7
    unfold World.put
    split
    · rename_i pn' i' x q1 q2
      rw [hdisc] at q1
      cases q1
      rw [hp]
      simp only
      have hp' : (writeBackView e.2 i m').Ok := by
        refine ⟨?_, (MapObj.KindOk_congr rfl rfl).2 hpok.2.1, (MapObj.SentOK_congr rfl rfl).2 hpok.2.2⟩
        refine WF.writeBackView_of_WF hpok.1 hm.1 ?_ (h1.trans g1) (h2.trans g2)
        show m'.kind.blank m'.sent = _
        rw [h3, g3, h4, g4, hs]
        rfl
      refine ⟨?_, ?_, hw.2.2⟩
      · intro e' he' hev
        rcases List.mem_cons.1 he' with rfl | he'
        · rw [show ({ m' with st := ⟨#[], #[]⟩ } : MapObj).view = m'.view from rfl, hmv] at hev
          cases hev
        · rcases List.mem_cons.1 he' with rfl | he'
          · exact hp'
          · exact hw.1 e' (List.mem_filter.1 he').1 hev
      · intro e' he' hev
        rcases List.mem_cons.1 he' with rfl | he'
        · show m'.kind.isRecd = false
          rw [h3, g3]; rfl
        · rcases List.mem_cons.1 he' with rfl | he'
          · exact absurd hpv hev
          · exact hw.2.1 e' (List.mem_filter.1 he').1 hev
    · rename_i hno
      exact absurd hmv (fun h => hno pn i (pn, i) hdisc h)

end HS
