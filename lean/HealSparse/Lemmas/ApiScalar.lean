/-
  C12 at the API level — helper definitions and lemmas.

  The scalar operators (`apiScalarOp` = `_apply_operation(other, func, int_only, in_place)`),
  `apiApplyMask`, `apiAstype` and `apiAsBitPacked` of Model/Api.lean are `Except` programs in
  `do` notation.  For each of them this file gives

    * a FLAT SPECIFICATION: a small decision function saying which validation error is raised
      (`sopError`, `maskError`, `astypeSrc` + `checkSentinel`), the per-cell function the call
      applies (`sopCell`, `maskBad`, `convCell`), and an EQUATION `api… = (flat form)`
      (`apiScalarOp_eq`, `apiApplyMask_eq`, `apiAstype_eq`, `apiAsBitPacked_eq`): success,
      every error and its kind are all read off that equation;
    * the bridge between the storage-level tests of the API (`sp.toList.filter valid`) and
      sky pixels (`any_valid_iff`);
    * what the protocol driver (`opSop`, Model/Dispatch.lean) stores in the in-place and in
      the copying mode, and which error branches reset the operand's `n_valid` cache.

  The property theorems are in Props/C12.lean (section "API level").
-/
import HealSparse.Lemmas.WFApi
import HealSparse.Lemmas.WFWorld
import HealSparse.Lemmas.ApiRanges
namespace HS
namespace ApiScalar

open WFApi

/-- the object the driver stores for a storage-returning operation (`sop`, `mask`): the
    operand with the new storage and the `n_valid` cache reset — in place under the operand's
    name, copying under the `r=` name -/
@[reducible] def _root_.HS.MapObj.withSt (m : MapObj) (st : State Val) : MapObj :=
  { m with st := st, cache := none }

/-! ### storage cells ↔ sky pixels -/

section cells
variable {V : Type} [DecidableEq V] {c : Cfg} {vc : VCfg V} {s : State V}

/-- the value of a pixel is one of the storage cells -/
theorem abs_mem_sp (h : Inv c vc s) {p : Nat} (hp : p < c.npix) : abs c vc s p ∈ s.sp.toList := by
  have hi : idxOf c s p < s.sp.size := h.idxOf_lt_size hp
  have : abs c vc s p = s.sp[idxOf c s p] := rd_eq_getElem _ _ _ hi
  rw [this]
  exact Array.getElem_mem_toList hi

/-- a valid storage cell is the value of a sky pixel -/
theorem valid_cell_pixel (h : Inv c vc s) (hv : vc.valid vc.sentinel = false) {x : V}
    (hx : x ∈ s.sp.toList) (hval : vc.valid x = true) : ∃ p, p < c.npix ∧ abs c vc s p = x := by
  obtain ⟨i, hi, rfl⟩ := List.getElem_of_mem hx
  have hi' : i < s.sp.size := by simpa using hi
  have hrd : rd s.sp i vc.sentinel = s.sp.toList[i] := by
    rw [rd_eq_getElem _ _ _ hi']; simp
  rw [← hrd] at hval
  obtain ⟨h1, h2⟩ := h.valid_cell_range hv hval
  obtain ⟨hlt, _, _, habs, _⟩ := h.pixOfCell_spec (vc := vc) h1 h2
  exact ⟨pixOfCell c s i, hlt, by rw [habs, hrd]⟩

/-- **a test over the valid storage cells is a test over the valid sky pixels** -/
theorem any_valid_iff (h : Inv c vc s) (hv : vc.valid vc.sentinel = false) (Q : V → Bool) :
    (s.sp.toList.filter vc.valid).any Q = true ↔
      ∃ p, p < c.npix ∧ vc.valid (abs c vc s p) = true ∧ Q (abs c vc s p) = true := by
  rw [List.any_eq_true]
  constructor
  · rintro ⟨x, hx, hq⟩
    obtain ⟨hx1, hx2⟩ := List.mem_filter.1 hx
    obtain ⟨p, hp, rfl⟩ := valid_cell_pixel h hv hx1 hx2
    exact ⟨p, hp, hx2, hq⟩
  · rintro ⟨p, hp, hval, hq⟩
    exact ⟨_, List.mem_filter.2 ⟨abs_mem_sp h hp, hval⟩, hq⟩

end cells

/-! ### scalar operators: the flat specification -/

/-- wide-mask operators with a bit list (only `and`, `or`, `xor` reach the cells) -/
def wideBitop (op : String) (x : Val) (bv : List Nat) : Val :=
  match op with
  | "and" => Val.and (.int 8 false) x (.bytes bv)
  | "or"  => Val.or (.int 8 false) x (.bytes bv)
  | _     => Val.xor (.int 8 false) x (.bytes bv)

/-- **which validation error (if any) `_apply_operation` raises**, in source order, as a
    function of the map's kind, the operator and the operand only:
    * records, booleans (plain or bit-packed): `NotImplementedError`;
    * a wide mask: only the integer-only operators (`and`, `or`, `xor`), only with a bit list;
      the list must be non-empty (`np.max` of an empty list: `ValueError`) and every position
      `< maxbits = 8·nbytes` (`ValueError`);
    * a float map: no integer-only operator, no bit list; any integer or real constant;
    * an integer map: no bit list; a real constant is refused (`NotImplementedError` with an
      integer-only operator, otherwise numpy's casting `TypeError`); a Python integer outside
      the dtype's range is numpy's `OverflowError` (class `.type` of the model); true division
      cannot be written back (`TypeError`); a negative integer power is `ValueError`. -/
def sopError (kind : Kind) (op : String) (k : Scalar) : Option Err :=
  match kind with
  | .recd _ _ => some .notImpl
  | .packed => some .notImpl
  | .plain .bool => some .notImpl
  | .wide n =>
    if !intOnlyOp op then some .notImpl else
    match k with
    | .bits l => if l.isEmpty then some .value else if l.any (· ≥ 8 * n) then some .value else none
    | _ => some .notImpl
  | .plain (.flt _) =>
    if intOnlyOp op then some .notImpl else
    match k with
    | .bits _ => some .notImpl
    | _ => none
  | .plain (.int b sg) =>
    match k with
    | .bits _ => some .notImpl
    | .flt _ => if intOnlyOp op then some .notImpl else some .type
    | .int k =>
      if wrapInt b sg k != k then some .type
      else if op == "div" then some .type
      else if op == "pow" && k < 0 then some .value else none

/-- **the cell function**: numpy `func(cell, operand)` at the map's dtype (`scalarCell`), or the
    byte-wise bit operation of a wide mask; `none` = the exact model does not predict the
    IEEE-rounded result (or the operator name is unknown) -/
def sopCell (kind : Kind) (op : String) (k : Scalar) (x : Val) : Option Val :=
  match kind, k with
  | .wide n, .bits l => some (wideBitop op x (bitvalsToPacked l (8 * n)))
  | .plain dt, .int k => scalarCell dt op (k, 0) x
  | .plain dt, .flt k => scalarCell dt op k x
  | _, _ => none

/-- **`apiScalarOp` is its flat specification**: the validation error of `sopError`, else
    `inexact` when some valid cell has no exact result, else `scalarOp` with `sopCell`. -/
theorem apiScalarOp_eq (m : MapObj) (op : String) (k : Scalar) :
    apiScalarOp m op k =
      match sopError m.kind op k with
      | some e => .error e
      | none =>
        if (m.st.sp.toList.filter m.vc.valid).any (fun x => (sopCell m.kind op k x).isNone) then
          .error .inexact
        else .ok (scalarOp m.vc m.st fun x => (sopCell m.kind op k x).getD x) := by
  obtain ⟨co, so, kind, sent, st, ca, vi⟩ := m
  unfold apiScalarOp sopError
  simp only [bind, Except.bind, pure, Except.pure, throw, throwThe, MonadExceptOf.throw]
  cases kind with
  | recd fs pr => rfl
  | packed => rfl
  | plain dt =>
    cases dt with
    | bool => rfl
    | flt b =>
      cases k <;> by_cases hio : intOnlyOp op = true <;>
        simp [hio, Kind.isBool, Kind.isIntegerMap, sopCell, DT.isInt]
    | int b sg =>
      cases k <;> by_cases hio : intOnlyOp op = true <;>
        simp [hio, Kind.isBool, Kind.isIntegerMap, sopCell, DT.isInt] <;>
        (rename_i k; by_cases h1 : wrapInt b sg k = k <;> by_cases h2 : op = "div" <;>
          by_cases h3 : (op = "pow" ∧ k < 0) <;> simp [h1, h2, h3])
  | wide n =>
      cases k <;> by_cases hio : intOnlyOp op = true <;>
        simp [hio, Kind.isBool, Kind.isIntegerMap, sopCell, MapObj.maxbits] <;>
        (rename_i l; by_cases h1 : l = [] <;> by_cases h2 : (∃ x, x ∈ l ∧ 8 * n ≤ x) <;>
          simp [h1, h2] <;> rfl)

/-- a call that passes validation operates on a wide mask or on a plain numeric map -/
theorem sopError_none_kind {kind : Kind} {op : String} {k : Scalar} (h : sopError kind op k = none) :
    (∃ n, kind = .wide n) ∨ (∃ dt, kind = .plain dt ∧ dt ≠ .bool) := by
  unfold sopError at h
  cases kind with
  | recd fs pr => cases h
  | packed => cases h
  | wide n => exact Or.inl ⟨n, rfl⟩
  | plain dt =>
    cases dt with
    | bool => cases h
    | flt b => exact Or.inr ⟨_, rfl, fun h => nomatch h⟩
    | int b sg => exact Or.inr ⟨_, rfl, fun h => nomatch h⟩

/-- the validation errors are `NotImplementedError`, `ValueError`, `TypeError`/`OverflowError`;
    `inexact` is never a validation error -/
theorem sopError_range (kind : Kind) (op : String) (k : Scalar) :
    sopError kind op k = none ∨ sopError kind op k = some .notImpl ∨
      sopError kind op k = some .value ∨ sopError kind op k = some .type := by
  unfold sopError
  repeat' split
  all_goals simp

theorem sopError_ne_inexact (kind : Kind) (op : String) (k : Scalar) :
    sopError kind op k ≠ some .inexact := by
  rcases sopError_range kind op k with h | h | h | h <;> rw [h] <;> simp

/-- `NotImplementedError`, exactly: a record or boolean map; an integer-only operator on a
    non-integer map or with a real constant; another operator on a wide mask; a bit list on
    anything but a wide mask; a wide mask with anything but a bit list -/
theorem sopError_notImpl_iff (kind : Kind) (op : String) (k : Scalar) :
    sopError kind op k = some .notImpl ↔
      (∃ fs pr, kind = .recd fs pr) ∨ kind.isBool = true ∨
      (intOnlyOp op = true ∧ kind.isIntegerMap = false) ∨
      (intOnlyOp op = false ∧ ∃ n, kind = .wide n) ∨
      ((∃ l, k = .bits l) ∧ ¬ ∃ n, kind = .wide n) ∨
      ((∃ n, kind = .wide n) ∧ ¬ ∃ l, k = .bits l) ∨
      (intOnlyOp op = true ∧ ∃ q, k = .flt q) := by
  unfold sopError
  cases kind with
  | recd fs pr => simp
  | packed => simp [Kind.isBool]
  | wide n =>
    cases k <;> by_cases hio : intOnlyOp op = true <;> simp [hio, Kind.isBool, Kind.isIntegerMap]
    all_goals (repeat' split) <;> simp
  | plain dt =>
    cases dt with
    | bool => simp [Kind.isBool]
    | flt b =>
      cases k <;> by_cases hio : intOnlyOp op = true <;> simp [hio, Kind.isBool, Kind.isIntegerMap]
    | int b sg =>
      cases k <;> by_cases hio : intOnlyOp op = true <;> simp [hio, Kind.isBool, Kind.isIntegerMap]
      all_goals (repeat' split) <;> simp

theorem ex_int_iff {b : Nat} {sg : Bool} {P : Nat → Bool → Prop} :
    (∃ b' sg', Kind.plain (.int b sg) = .plain (.int b' sg') ∧ P b' sg') ↔ P b sg := by
  constructor
  · rintro ⟨_, _, h, hp⟩; cases h; exact hp
  · exact fun hp => ⟨b, sg, rfl, hp⟩

/-- `ValueError`, exactly: a wide mask with an empty bit list or a position `≥ maxbits`; an
    integer map raised to a negative integer power -/
theorem sopError_value_iff (kind : Kind) (op : String) (k : Scalar) :
    sopError kind op k = some .value ↔
      (∃ n l, kind = .wide n ∧ k = .bits l ∧ intOnlyOp op = true ∧ (l = [] ∨ ∃ b ∈ l, 8 * n ≤ b)) ∨
      (∃ b sg, kind = .plain (.int b sg) ∧
        ∃ q, k = .int q ∧ wrapInt b sg q = q ∧ op = "pow" ∧ q < 0) := by
  unfold sopError
  cases kind with
  | recd fs pr => simp
  | packed => simp
  | wide n =>
    cases k <;> by_cases hio : intOnlyOp op = true <;> simp [hio]
    rename_i l
    by_cases h1 : l = [] <;> by_cases h2 : (∃ x, x ∈ l ∧ 8 * n ≤ x) <;> simp [h1, h2]
  | plain dt =>
    cases dt with
    | bool => simp
    | flt b => cases k <;> by_cases hio : intOnlyOp op = true <;> simp [hio]
    | int b sg =>
      simp only [ex_int_iff]
      cases k <;> by_cases hio : intOnlyOp op = true <;> simp [hio]
      all_goals
        rename_i q
        by_cases h1 : wrapInt b sg q = q <;> by_cases h2 : op = "div" <;>
          by_cases h3 : op = "pow" <;> by_cases h4 : q < 0 <;> simp [h1, h2, h3, h4]
        all_goals (subst h2; simp at h3)

/-- `TypeError` / `OverflowError`, exactly: on an integer map, a real constant (with an operator
    that is not integer-only), a Python integer outside the dtype's range, or true division -/
theorem sopError_type_iff (kind : Kind) (op : String) (k : Scalar) :
    sopError kind op k = some .type ↔
      ∃ b sg, kind = .plain (.int b sg) ∧
        ((intOnlyOp op = false ∧ ∃ q, k = .flt q) ∨
         (∃ q, k = .int q ∧ (wrapInt b sg q ≠ q ∨ op = "div"))) := by
  unfold sopError
  cases kind with
  | recd fs pr => simp
  | packed => simp
  | wide n =>
    cases k <;> by_cases hio : intOnlyOp op = true <;> simp [hio]
    all_goals (repeat' split) <;> simp
  | plain dt =>
    cases dt with
    | bool => simp
    | flt b => cases k <;> by_cases hio : intOnlyOp op = true <;> simp [hio]
    | int b sg =>
      simp only [ex_int_iff]
      cases k <;> by_cases hio : intOnlyOp op = true <;> simp [hio]
      all_goals
        rename_i q
        by_cases h1 : wrapInt b sg q = q <;> by_cases h2 : op = "div" <;>
          by_cases h3 : (op = "pow" ∧ q < 0) <;> simp [h1, h2, h3]

/-! ### `apply_mask`: the flat specification -/

/-- **which validation error `apply_mask` raises before looking at a pixel**: the mask must be
    an integer map (integers, booleans, bit-packed, wide; not floats or records:
    `RuntimeError`); `mask_bits` cannot go with a wide mask (`RuntimeError`); a Python integer
    `mask_bits` outside the mask dtype's range is numpy's `OverflowError`; a position of
    `mask_bit_arr` `≥ maxbits` of a wide mask is `IndexError` -/
def maskError (mask : MapObj) (maskBits : Option Int) (bitArr : Option (List Nat)) : Option Err :=
  if !mask.kind.isIntegerMap then some .runtime else
  match mask.kind with
  | .wide n =>
    if maskBits.isSome then some .runtime else
    match bitArr with
    | some l => if l.any (· ≥ 8 * n) then some .index else none
    | none => none
  | .plain (.int b sg) =>
    match maskBits with
    | some k => if wrapInt b sg k != k then some .type else none
    | none => none
  | _ => none

/-- **the "bad cell" decision** on one value `v` of the mask map: a wide mask: any byte
    non-zero / any selected bit set; an integer mask: `≠ 0` / `& mask_bits ≠ 0` (two's
    complement at the mask's dtype) AND the cell is VALID in the mask map (`≠` its sentinel:
    after the `fix:` commit ec2f28a an unset pixel of a signed mask, which reads as the non-zero
    sentinel, no longer masks); a boolean mask: the value (and the lowest selected bit) -/
def maskBadVal (mask : MapObj) (maskBits : Option Int) (bitArr : Option (List Nat)) (v : Val) : Bool :=
  match v, maskBits with
  | .bytes row, _ =>
    (match bitArr with
     | none => row.any (· != 0)
     | some l => (List.zipWith (· &&& ·) row (bitvalsToPacked l mask.maxbits)).any (· != 0))
  | .num n e, none => n != 0 && mask.vc.valid (.num n e)
  | .num n e, some b => intBitop (· &&& ·) mask.kind.dt n b != 0 && mask.vc.valid (.num n e)
  | .bool x, none => x
  | .bool x, some b => x && b % 2 != 0
  | _, _ => false

/-- **the "bad pixel" decision**: `maskBadVal` of what `mask_map.get_values_pix(p)` returns — at
    the MASK's own resolution and coverage (the sentinel / blank row where it has no value) -/
def maskBad (mask : MapObj) (maskBits : Option Int) (bitArr : Option (List Nat)) (p : Nat) : Bool :=
  maskBadVal mask maskBits bitArr (mask.abs p)

/-- **`apiApplyMask` is its flat specification** -/
theorem apiApplyMask_eq (m mask : MapObj) (maskBits : Option Int) (bitArr : Option (List Nat)) :
    apiApplyMask m mask maskBits bitArr =
      match maskError mask maskBits bitArr with
      | some e => .error e
      | none =>
        match validPixels m.c m.vc m.st with
        | none => .error .index
        | some vp =>
          if vp.any (fun p => p < 0 || p.toNat ≥ mask.npix) then .error .index else
          match applyMask m.c m.vc m.st (maskBad mask maskBits bitArr) with
          | some s => .ok s
          | none => .error .index := by
  obtain ⟨co, so, kind, sent, st, ca, vi⟩ := mask
  unfold apiApplyMask maskError
  simp only [bind, Except.bind, pure, Except.pure, throw, throwThe, MonadExceptOf.throw]
  cases kind with
  | recd fs pr => rfl
  | packed => cases maskBits <;> rfl
  | wide n =>
    cases maskBits with
    | some b => rfl
    | none =>
      cases bitArr with
      | none => rfl
      | some l =>
        have hmb : MapObj.maxbits ⟨co, so, .wide n, sent, st, ca, vi⟩ = 8 * n := rfl
        rw [hmb]
        by_cases h2 : (l.any fun x => decide (x ≥ 8 * n)) = true
        · simp only [Kind.isIntegerMap, h2, Option.isSome, Bool.not_true, Bool.false_eq_true, ↓reduceIte, Bool.false_and]
        · simp only [Kind.isIntegerMap, h2, Option.isSome, Bool.not_true, Bool.false_eq_true, ↓reduceIte, Bool.false_and]
          rfl
  | plain dt =>
    cases dt with
    | bool => cases maskBits <;> rfl
    | flt b => rfl
    | int b sg =>
      cases maskBits with
      | none => cases bitArr <;> rfl
      | some q =>
        by_cases h1 : (wrapInt b sg q != q) = true
        · simp only [Kind.isIntegerMap, h1, Option.isSome, Bool.not_true, Bool.false_eq_true, ↓reduceIte, Bool.and_false]
        · simp only [Kind.isIntegerMap, h1, Option.isSome, Bool.not_true, Bool.false_eq_true, ↓reduceIte, Bool.and_false]
          cases bitArr <;> rfl

/-- the masks that pass validation are integer maps -/
theorem maskError_none_integer {mask : MapObj} {maskBits : Option Int} {bitArr : Option (List Nat)}
    (h : maskError mask maskBits bitArr = none) : mask.kind.isIntegerMap = true := by
  unfold maskError at h
  by_cases hint : mask.kind.isIntegerMap = true
  · exact hint
  · simp [hint] at h

/-- `RuntimeError`, exactly: the mask is not an integer map, or `mask_bits` with a wide mask -/
theorem maskError_runtime_iff (mask : MapObj) (maskBits : Option Int) (bitArr : Option (List Nat)) :
    maskError mask maskBits bitArr = some .runtime ↔
      mask.kind.isIntegerMap = false ∨ ((∃ n, mask.kind = .wide n) ∧ maskBits.isSome = true) := by
  unfold maskError
  by_cases hint : mask.kind.isIntegerMap = true
  · simp only [hint, Bool.not_true, Bool.false_eq_true, ↓reduceIte]
    generalize mask.kind = kind
    cases kind with
    | wide n =>
      cases maskBits <;> simp
      cases bitArr <;> simp
    | plain dt =>
      cases dt <;> simp
      cases maskBits <;> simp
    | _ => simp
  · simp [hint]

/-- `OverflowError` (class `.type`), exactly: an integer mask and a `mask_bits` outside its range -/
theorem maskError_type_iff (mask : MapObj) (maskBits : Option Int) (bitArr : Option (List Nat)) :
    maskError mask maskBits bitArr = some .type ↔
      ∃ b sg, mask.kind = .plain (.int b sg) ∧ ∃ q, maskBits = some q ∧ wrapInt b sg q ≠ q := by
  unfold maskError
  by_cases hint : mask.kind.isIntegerMap = true
  · simp only [hint, Bool.not_true, Bool.false_eq_true, ↓reduceIte]
    generalize mask.kind = kind
    cases kind with
    | wide n =>
      cases maskBits <;> simp
      cases bitArr <;> simp
    | plain dt =>
      cases dt with
      | int b sg =>
        simp only [ex_int_iff]
        cases maskBits <;> simp
      | _ => simp
    | _ => simp
  · have : ¬ ∃ b sg, mask.kind = .plain (.int b sg) ∧ ∃ q, maskBits = some q ∧ wrapInt b sg q ≠ q := by
      rintro ⟨b, sg, hk, _⟩
      rw [hk] at hint
      exact hint rfl
    simp only [hint, Bool.not_false, ↓reduceIte, iff_false_intro this, iff_false]
    exact fun h => nomatch h

/-- `IndexError` at validation, exactly: a wide mask, no `mask_bits`, and a position of
    `mask_bit_arr` `≥ maxbits` -/
theorem maskError_index_iff (mask : MapObj) (maskBits : Option Int) (bitArr : Option (List Nat)) :
    maskError mask maskBits bitArr = some .index ↔
      ∃ n, mask.kind = .wide n ∧ maskBits = none ∧ ∃ l, bitArr = some l ∧ ∃ b ∈ l, 8 * n ≤ b := by
  unfold maskError
  by_cases hint : mask.kind.isIntegerMap = true
  · simp only [hint, Bool.not_true, Bool.false_eq_true, ↓reduceIte]
    generalize mask.kind = kind
    cases kind with
    | wide n =>
      cases maskBits <;> simp
      cases bitArr <;> simp
    | plain dt =>
      cases dt <;> simp
      cases maskBits <;> simp
    | _ => simp
  · have : ¬ ∃ n, mask.kind = .wide n ∧ maskBits = none ∧ ∃ l, bitArr = some l ∧ ∃ b ∈ l, 8 * n ≤ b := by
      rintro ⟨n, hk, _⟩
      rw [hk] at hint
      exact hint rfl
    simp only [hint, Bool.not_false, ↓reduceIte, iff_false_intro this, iff_false]
    exact fun h => nomatch h

/-! ### `astype`, `as_bit_packed_map`: the flat specifications -/

/-- the element dtype `astype` converts from (`none`: wide masks and records are refused) -/
def astypeSrc : Kind → Option DT
  | .plain dt => some dt
  | .packed => some .bool
  | _ => none

/-- **`apiAstype` is its flat specification**: `RuntimeError` for wide masks and records, the
    error of `check_sentinel` for a sentinel that does not fit the new dtype, `inexact` when a
    valid cell has no exactly representable conversion (no claim), else `astypeMap`. -/
theorem apiAstype_eq (m : MapObj) (dst : DT) (sentinel : Option Val) :
    apiAstype m dst sentinel =
      match astypeSrc m.kind with
      | none => .error .runtime
      | some src =>
        match checkSentinel dst sentinel with
        | .error e => .error e
        | .ok sent' =>
          if (m.st.sp.toList.filter m.vc.valid).any (fun x => (convCell src dst x).isNone) then
            .error .inexact
          else .ok { m with kind := .plain dst, sent := sent', cache := none,
                            st := astypeMap m.vc m.st (fun x => (convCell src dst x).getD x) sent' } := by
  obtain ⟨co, so, kind, sent, st, ca, vi⟩ := m
  unfold apiAstype astypeSrc
  simp only [bind, Except.bind, pure, Except.pure, throw, throwThe, MonadExceptOf.throw]
  cases kind <;> simp only <;> cases checkSentinel dst sentinel <;> rfl

/-- `apiAsBitPacked` is its flat specification -/
theorem apiAsBitPacked_eq (m : MapObj) :
    apiAsBitPacked m =
      if m.kind = .packed then .ok { m with cache := none }
      else if m.c.nfine % 8 ≠ 0 then .error .value
      else .ok { m with kind := .packed, sent := .bool false, cache := none,
                        st := mapCells (asBitPacked m.c m.vc m.st) Val.bool } := by
  unfold apiAsBitPacked
  simp only [bind, Except.bind, pure, Except.pure, throw, throwThe, MonadExceptOf.throw]
  by_cases hk : m.kind = .packed
  · simp [hk]
  · simp [hk]
    rfl

/-- "at least two healpix levels between coverage and mask" -/
theorem nfine_mod8 (covord spord : Nat) : (cfgOf covord spord).nfine % 8 = 0 ↔ covord + 2 ≤ spord := by
  unfold cfgOf Cfg.nfine
  simp only
  constructor
  · intro h
    apply Nat.le_of_not_lt
    intro hlt
    have : spord - covord = 0 ∨ spord - covord = 1 := by omega
    rcases this with h0 | h0 <;> rw [h0] at h <;> simp at h
  · intro h
    have : 2 * (spord - covord) = 3 + (2 * (spord - covord) - 3) := by omega
    rw [this, Nat.pow_add]
    simp [Nat.mul_mod_right]

/-! ### the protocol driver: `sop` in place and copying -/

open ApiRanges

/-- the operand a protocol line `sop …` denotes (`bits=` a bit list, `k=` with `ktype=int|flt`) -/
def sopArg (a : Args) : Option Scalar :=
  match a.get? "bits", a.get? "k" with
  | some b, _ => (parseNats b).map .bits
  | none, some t =>
    if a.getD "ktype" "int" == "int" then t.toInt?.map .int else (parseDy t).map .flt
  | none, none => none

/-- the validation failures that come BEFORE `self._n_valid = None` (line 2376 of the source):
    records, booleans, integer-only operator on a non-integer map, other operator on a wide mask -/
def sopEarly (kind : Kind) (op : String) : Bool :=
  (match kind with | .recd _ _ => true | _ => false) || kind.isBool ||
    (intOnlyOp op && !kind.isIntegerMap) ||
    (!intOnlyOp op && (match kind with | .wide _ => true | _ => false))

/-- **what `sop` does**, both modes, every branch -/
theorem opSop_eq (w : World) (a : Args) (n : String) (rest : List String) (m : MapObj) (k : Scalar)
    (hpos : a.pos = n :: rest) (hget : w.get? n = some m) (hk : sopArg a = some k) :
    opSop w a =
      match apiScalarOp m (a.getD "op" "add") k with
      | .ok st =>
        if a.flag "inplace" then (w.put n { m with st := st, cache := none }, "ok")
        else (w.bind (a.getD "r" "tmp") { m with st := st, cache := none }, "ok")
      | .error e =>
        ((if a.flag "inplace" && !sopEarly m.kind (a.getD "op" "add") then w.put n { m with cache := none }
          else w), errLine e) := by
  unfold opSop withMap
  unfold sopArg at hk
  simp only [hpos, hget, List.headD_cons]
  have fin : (match (some k : Option Scalar) with
      | none => (w, "bad-op:k")
      | some k =>
        let inPlace := a.flag "inplace"
        let m0 := if inPlace then { m with cache := none } else m
        match apiScalarOp m (a.getD "op" "add") k with
        | .ok st =>
          if inPlace then (w.put n { m0 with st := st }, "ok")
          else (w.bind (a.getD "r" "tmp") { m with st := st, cache := none }, "ok")
        | .error e =>
          let early := (match m.kind with | .recd _ _ => true | _ => false) || m.kind.isBool ||
            (intOnlyOp (a.getD "op" "add") && !m.kind.isIntegerMap) ||
            (!intOnlyOp (a.getD "op" "add") && (match m.kind with | .wide _ => true | _ => false))
          ((if inPlace && !early then w.put n m0 else w), errLine e)) =
      (match apiScalarOp m (a.getD "op" "add") k with
      | .ok st =>
        if a.flag "inplace" then (w.put n { m with st := st, cache := none }, "ok")
        else (w.bind (a.getD "r" "tmp") { m with st := st, cache := none }, "ok")
      | .error e =>
        ((if a.flag "inplace" && !sopEarly m.kind (a.getD "op" "add") then w.put n { m with cache := none }
          else w), errLine e)) := by
    simp only
    cases apiScalarOp m (a.getD "op" "add") k with
    | ok st => cases a.flag "inplace" <;> rfl
    | error e => cases a.flag "inplace" <;> rfl
  cases hb : a.get? "bits" <;> cases hkk : a.get? "k" <;> simp only [hb, hkk] at hk ⊢
  · cases hk
  all_goals (rw [hk]; exact fin)

theorem sameMaps_ite {c : Prop} [Decidable c] {w1 w2 w : World} (h1 : SameMaps w1 w)
    (h2 : SameMaps w2 w) : SameMaps (if c then w1 else w2) w := by
  split <;> assumption

/-- **a `sop` that does not answer `ok` stores nothing**: every map of the world (views included)
    reads as before; at most the `n_valid` cache of the operand is reset -/
theorem opSop_not_ok {w : World} (hw : w.Good) (a : Args) (hne : (opSop w a).2 ≠ "ok") :
    SameMaps (opSop w a).1 w := by
  revert hne
  unfold opSop
  refine withMap_elim (P := fun r => r.2 ≠ "ok" → SameMaps r.1 w) (fun s _ x => rfl)
    fun n m hn hget => ?_
  simp only [hn]
  split
  · exact fun _ _ => rfl
  · rename_i k hk
    cases hr : apiScalarOp m (a.getD "op" "add") k with
    | ok st =>
      show (if _ then _ else _ : World × String).2 ≠ "ok" → _
      split <;> exact fun h => absurd rfl h
    | error e =>
      show (_, _).2 ≠ "ok" → SameMaps (_, _).1 w
      intro _
      cases hip : a.flag "inplace" with
      | false => exact fun _ => rfl
      | true =>
        simp only [Bool.true_and, ↓reduceIte]
        exact sameMaps_ite (fun x => get?_put_cache hw hget x) (fun _ => rfl)

theorem get?_bind_self (w : World) (r : String) (m : MapObj) :
    (w.bind r m).get? r = some { m with view := none } := by
  unfold World.get? World.raw? World.bind
  simp

/-- binding another name does not disturb an owning entry -/
theorem get?_bind_ne {w : World} {n r : String} {m x : MapObj} (hne : r ≠ n)
    (hget : w.get? n = some m) (hv : m.view = none) : (w.bind r x).get? n = some m := by
  rcases World.get?_cases hget with ⟨hr, _⟩ | ⟨d, pn, i, p, _, _, _, _, hmat, _, _⟩
  · have : (w.bind r x).raw? n = some m := by
      unfold World.bind
      rw [raw?_eq] at hr ⊢
      simp only
      rw [rawL_cons_ne hne]
      rw [rawL_filter (q := fun s => s != r) (by simpa using Ne.symm hne) w.pool]
      exact hr
    unfold World.get?
    rw [this]
    simp only [hv]
  · obtain ⟨_, _, _, _, _, _, _, _, _, g7⟩ := WFApi.materializeView_ok hmat
    rw [hv] at g7
    cases g7

/-! ### successful runs, and small facts used by Props/C12.lean -/

theorem apiCovMask_congr {m m' : MapObj} (h1 : m'.covord = m.covord) (h2 : m'.spord = m.spord)
    (h : ∀ k, covered m.c m'.st k = covered m.c m.st k) : apiCovMask m' = apiCovMask m := by
  have hc : m'.c = m.c := by unfold MapObj.c; rw [h1, h2]
  unfold apiCovMask
  rw [hc]
  exact List.map_congr_left fun k _ => h k

/-- what a successful run of `apiScalarOp` returns -/
theorem apiScalarOp_ok_st {m : MapObj} {op : String} {k : Scalar} {st : State Val}
    (hr : apiScalarOp m op k = .ok st) :
    sopError m.kind op k = none ∧
    (m.st.sp.toList.filter m.vc.valid).any (fun x => (sopCell m.kind op k x).isNone) = false ∧
    st = scalarOp m.vc m.st fun x => (sopCell m.kind op k x).getD x := by
  rw [apiScalarOp_eq] at hr
  cases hE : sopError m.kind op k with
  | some e => rw [hE] at hr; cases hr
  | none =>
    rw [hE] at hr
    simp only at hr
    split at hr
    · cases hr
    · rename_i hany
      cases hr
      exact ⟨rfl, by simpa using hany, rfl⟩

/-- what a successful run of `apiApplyMask` on a well-formed map returns -/
theorem apiApplyMask_ok_st {m mask : MapObj} {mb : Option Int} {ba : Option (List Nat)}
    {st : State Val} (h : m.WF) (hv : m.BlankInvalid) (hr : apiApplyMask m mask mb ba = .ok st) :
    maskError mask mb ba = none ∧
    (∀ p, p < m.npix → m.vc.valid (m.abs p) = true → p < mask.npix) ∧
    applyMask m.c m.vc m.st (maskBad mask mb ba) = some st := by
  rw [apiApplyMask_eq] at hr
  cases hE : maskError mask mb ba with
  | some e => rw [hE] at hr; cases hr
  | none =>
    rw [hE, h.2.validPixels_eq hv] at hr
    simp only at hr
    split at hr
    · cases hr
    · rename_i hany
      refine ⟨rfl, fun p hp hval => ?_, ?_⟩
      · apply Nat.lt_of_not_le
        intro hle
        apply hany
        rw [List.any_eq_true]
        refine ⟨((p : Nat) : Int), List.mem_map.2 ⟨p, (h.2.mem_validCells_map hv p).2 ⟨hp, hval⟩, rfl⟩, ?_⟩
        simp only [Int.toNat_natCast, ge_iff_le, Bool.or_eq_true, decide_eq_true_eq]
        exact Or.inr hle
      · cases ham : applyMask m.c m.vc m.st (maskBad mask mb ba) with
        | some s => rw [ham] at hr; cases hr; rfl
        | none => rw [ham] at hr; cases hr

/-- a pixel the mask does not cover is judged by the mask's blank cell -/
theorem maskBad_uncovered {mask : MapObj} (hm : mask.WF) (mb : Option Int) (ba : Option (List Nat))
    {p : Nat} (hp : p < mask.npix) (hc : covered mask.c mask.st (p >>> mask.c.shift) = false) :
    maskBad mask mb ba p = maskBadVal mask mb ba (mask.kind.blank mask.sent) := by
  unfold maskBad
  congr 1
  exact hm.2.abs_uncovered hp hc

/-- a pixel that is not valid in a numeric (or plain boolean) mask — covered or not — is judged
    by the mask's sentinel -/
theorem maskBad_invalid_plain {mask : MapObj} {dt : DT} (hk : mask.kind = .plain dt)
    (mb : Option Int) (ba : Option (List Nat)) {p : Nat}
    (hinv : mask.vc.valid (mask.abs p) = false) :
    maskBad mask mb ba p = maskBadVal mask mb ba mask.sent := by
  unfold maskBad
  congr 1
  unfold MapObj.vc at hinv
  rw [hk] at hinv
  exact eq_of_beq (by simpa [Kind.valid] using hinv)

theorem zipAnd_zero (row bv : List Nat) (h : row.all (· == 0) = true) :
    (List.zipWith (· &&& ·) row bv).any (· != 0) = false := by
  induction row generalizing bv with
  | nil => rfl
  | cons a as ih =>
    cases bv with
    | nil => rfl
    | cons b bs =>
      simp only [List.all_cons, Bool.and_eq_true, beq_iff_eq] at h
      obtain ⟨rfl, has⟩ := h
      simp only [List.zipWith_cons_cons, List.any_cons, Nat.zero_and, bne_self_eq_false, Bool.false_or]
      exact ih bs has

/-- **a numeric cell of the mask is bad only if it is VALID in the mask map** (the conjunct added
    by the `fix:` commit) -/
theorem maskBadVal_num_valid {mask : MapObj} {mb : Option Int} {ba : Option (List Nat)} {n : Int}
    {e : Nat} (h : maskBadVal mask mb ba (.num n e) = true) : mask.vc.valid (.num n e) = true := by
  unfold maskBadVal at h
  cases mb <;> simp only [Bool.and_eq_true] at h <;> exact h.2

/-- an all-zero byte row is never bad -/
theorem maskBadVal_zero_bytes (mask : MapObj) (mb : Option Int) (ba : Option (List Nat))
    (row : List Nat) (hr : row.all (· == 0) = true) : maskBadVal mask mb ba (.bytes row) = false := by
  unfold maskBadVal
  cases ba with
  | none =>
    simp only
    rw [Bool.eq_false_iff]
    intro hany
    obtain ⟨x, hx, hne⟩ := List.any_eq_true.1 hany
    have := List.all_eq_true.1 hr x hx
    simp only [beq_iff_eq] at this
    subst this
    simp at hne
  | some l => exact zipAnd_zero row _ hr

/-- **the sentinel of a numeric mask map is never bad**, whatever its value -/
theorem maskBadVal_sent_num {mask : MapObj} {dt : DT} {s : Int} {e : Nat}
    (hk : mask.kind = .plain dt) (hs : mask.sent = .num s e) (mb : Option Int)
    (ba : Option (List Nat)) : maskBadVal mask mb ba mask.sent = false := by
  rw [Bool.eq_false_iff]
  intro hbad
  rw [hs] at hbad
  have := maskBadVal_num_valid hbad
  unfold MapObj.vc at this
  rw [hk, hs] at this
  simp [Kind.valid] at this

/-- **the blank cell of the mask map is never bad**: unconditionally for wide, bit-packed (and
    record) kinds; for a plain kind when the sentinel is a number (every numeric map) or `False`.
    (The remaining case — a plain BOOLEAN mask with sentinel `True` — is bad in the MODEL, whose
    boolean branches have no validity conjunct; see the note in Props/C12.lean.) -/
theorem maskBadVal_blank (mask : MapObj) (mb : Option Int) (ba : Option (List Nat))
    (hs : ∀ dt, mask.kind = .plain dt → (∃ s e, mask.sent = .num s e) ∨ mask.sent = .bool false) :
    maskBadVal mask mb ba (mask.kind.blank mask.sent) = false := by
  cases hk : mask.kind with
  | wide n => exact maskBadVal_zero_bytes mask mb ba _ (by simp)
  | packed => cases mb <;> rfl
  | recd fs pr => cases mb <;> rfl
  | plain dt =>
    show maskBadVal mask mb ba mask.sent = false
    rcases hs dt hk with ⟨s, e, h⟩ | h
    · exact maskBadVal_sent_num hk h mb ba
    · rw [h]; cases mb <;> rfl

/-- what a successful `apiAstype` returns -/
theorem apiAstype_ok_st {m : MapObj} {dst : DT} {sentinel : Option Val} {m' : MapObj}
    (hr : apiAstype m dst sentinel = .ok m') :
    ∃ src, astypeSrc m.kind = some src ∧ checkSentinel dst sentinel = .ok m'.sent ∧
      (m.st.sp.toList.filter m.vc.valid).any (fun x => (convCell src dst x).isNone) = false ∧
      m' = { m with kind := .plain dst, sent := m'.sent, cache := none,
                    st := astypeMap m.vc m.st (fun x => (convCell src dst x).getD x) m'.sent } := by
  rw [apiAstype_eq] at hr
  cases hS : astypeSrc m.kind with
  | none => rw [hS] at hr; cases hr
  | some src =>
    rw [hS] at hr
    cases hC : checkSentinel dst sentinel with
    | error e => rw [hC] at hr; cases hr
    | ok s' =>
      rw [hC] at hr
      simp only at hr
      split at hr
      · cases hr
      · rename_i hany
        cases hr
        exact ⟨src, rfl, rfl, by simpa using hany, rfl⟩

theorem checkSentinel_error {dt : DT} {s : Option Val} {e : Err} (h : checkSentinel dt s = .error e) :
    e = .value := by
  unfold checkSentinel at h
  repeat' split at h
  all_goals (cases h; try rfl)

theorem withSt_view_none {m : MapObj} (hv : m.view = none) (st : State Val) :
    ({ m.withSt st with view := none } : MapObj) = m.withSt st := by
  obtain ⟨co, so, k, se, s, ca, vi⟩ := m
  simp only at hv
  subst hv
  rfl

theorem errLine_ne_ok (e : Err) : errLine e ≠ "ok" := by
  unfold errLine
  split
  · decide
  · intro h
    have := congrArg String.length h
    rw [String.length_append] at this
    have h1 : "err ".length = 4 := by decide
    have h2 : "ok".length = 2 := by decide
    omega

/-- an early failure is always `NotImplementedError` -/
theorem sopEarly_notImpl {kind : Kind} {op : String} (k : Scalar) (h : sopEarly kind op = true) :
    sopError kind op k = some .notImpl := by
  unfold sopEarly at h
  unfold sopError
  cases kind with
  | recd fs pr => rfl
  | packed => rfl
  | wide n =>
    have : intOnlyOp op = false := by simpa [Kind.isBool, Kind.isIntegerMap] using h
    simp [this]
  | plain dt =>
    cases dt with
    | bool => rfl
    | flt b =>
      have : intOnlyOp op = true := by simpa [Kind.isBool, Kind.isIntegerMap] using h
      simp [this]
    | int b sg => simp [Kind.isBool, Kind.isIntegerMap] at h

/-- the typing discipline of `make_empty` (`KindOk`, part of `MapObj.Ok`) makes the blank cell
    invalid: every `m.Ok` satisfies the hypotheses `m.WF`, `m.BlankInvalid` of Props/C12.lean -/
theorem Ok_blankInvalid {m : MapObj} (h : m.Ok) : m.WF ∧ m.BlankInvalid :=
  ⟨h.1, h.2.1.blankInvalid⟩

end ApiScalar
end HS
