/-
  C20 — random points fall inside the map's valid footprint, in the requested number.
  Property theorems only (helpers in HealSparse/Lemmas).  Proved: the arithmetic of the fast
  generator, the bookkeeping of the rejection loop (count, validity, determinism as a
  function of the candidate stream, divergence when no candidate is valid) and the window
  logic (every per-pixel interval is covered modulo one turn; the clipped pre-fix window was
  not).  Outside Lean: geometry of pixels (hpgeom), the bound on pixel extents, statistics.
-/
import HealSparse.Model.Randoms
import HealSparse.Lemmas.Randoms
import HealSparse.Lemmas.ApiRandoms
namespace HS
namespace C20

/-- fast generator: every point lies in the valid pixel chosen for it … -/
theorem fast_in_parent (s p sub : Nat) (h : sub < 2 ^ s) : fastChild s p sub >>> s = p := by
  exact Randoms.fastChild_shiftRight s p sub h

/-- … and every sub-pixel of a valid pixel is reachable (the range of `sub` is all of `[0, 2^s)`) -/
theorem fast_onto (s p c : Nat) (h : c >>> s = p) : ∃ sub, sub < 2 ^ s ∧ fastChild s p sub = c := by
  exact Randoms.fastChild_onto s p c h

/-- the rejection loop, when it terminates, returns exactly `n` points, all of them valid
    candidates, namely the first `n` valid candidates of the stream in order — so the result is a
    function of the candidate stream alone (determinism per seed) -/
theorem loop_spec {α : Type} (n : Nat) (bs : List (List (α × Bool))) (out : List α)
    (h : rejectionLoop n bs = some out) :
    out.length = n ∧ out = (((bs.flatten).filter (·.2)).take n).map (·.1) := by
  rw [Randoms.rejectionLoop_eq] at h
  split at h
  · next hc =>
    cases h
    refine ⟨?_, rfl⟩
    rw [Randoms.takeValid_length]
    omega
  · cases h

/-- every returned point was drawn and is valid -/
theorem loop_valid {α : Type} (n : Nat) (bs : List (List (α × Bool))) (out : List α)
    (h : rejectionLoop n bs = some out) : ∀ x ∈ out, (x, true) ∈ bs.flatten := by
  rw [Randoms.rejectionLoop_eq] at h
  split at h
  · cases h
    intro x hx
    exact Randoms.takeValid_mem n _ x hx
  · cases h

/-- the loop finds its `n` points as soon as the supply contains `n` valid candidates -/
theorem loop_terminates {α : Type} (n : Nat) (bs : List (List (α × Bool)))
    (h : n ≤ ((bs.flatten).filter (·.2)).length) : (rejectionLoop n bs).isSome = true := by
  rw [Randoms.rejectionLoop_eq, if_pos h]
  rfl

/-- … and never, if no candidate is ever valid (a footprint wholly outside the sampled window
    makes the real loop run forever) -/
theorem loop_may_diverge {α : Type} (n : Nat) (hn : 0 < n) (bs : List (List (α × Bool)))
    (h : ∀ b ∈ bs, ∀ c ∈ b, c.2 = false) : rejectionLoop n bs = none := by
  rw [Randoms.rejectionLoop_eq, if_neg]
  have hz : (bs.flatten).filter (·.2) = [] := by
    rw [List.filter_eq_nil_iff]
    intro c hc
    obtain ⟨b, hb, hcb⟩ := List.mem_flatten.1 hc
    simp [h b hb c hcb]
  rw [hz]
  simp only [List.length_nil]
  omega

/-- **window**: every point of every per-coverage-pixel interval is congruent, modulo one turn,
    to a point of the sampled window (so after wrapping no part of the footprint is starved by
    the window) -/
theorem window_covers (T : Int) (hT : 0 < T) (ivs : List (Int × Int)) (iv : Int × Int) (hiv : iv ∈ ivs)
    (x : Int) (hx : iv.1 ≤ x ∧ x ≤ iv.2) :
    ∃ y, (raWindow T ivs).1 ≤ y ∧ y ≤ (raWindow T ivs).2 ∧ (y - x) % T = 0 := by
  exact Randoms.raWindow_covers T hT ivs iv hiv x hx

/-- the window is never wider than one turn -/
theorem window_width (T : Int) (hT : 0 < T) (ivs : List (Int × Int)) (hne : ivs ≠ [])
    (hwf : ∀ iv ∈ ivs, iv.1 ≤ iv.2) :
    0 ≤ (raWindow T ivs).2 - (raWindow T ivs).1 ∧ (raWindow T ivs).2 - (raWindow T ivs).1 ≤ T := by
  exact Randoms.raWindow_width T hT ivs hne hwf

/-- witness: the pre-fix clipped window starves the part of an interval lying west of 0 -/
theorem Witness.window_clip_starves :
    ¬ ∃ y, (raWindowClipped 360 [(-10, 10)]).1 ≤ y ∧ y ≤ (raWindowClipped 360 [(-10, 10)]).2 ∧
      (y - (-5)) % 360 = 0 := by
  have e : raWindowClipped 360 [(-10, 10)] = (0, 10) := by decide
  rw [e]
  rintro ⟨y, h1, h2, h3⟩
  simp only at h1 h2
  omega

/-- non-vacuity -/
example : rejectionLoop 3 [[(1, false), (2, true)], [(3, true), (4, true), (5, true)]] = some [2, 3, 4] := by
  decide
example : raWindow 360 [(-10, 10), (350, 370)] = (0, 360) := by decide

/-! ## driver level: what the answer of `rand` pins down

`rand NAME gen=fast n=… shift=… vp=… choice=… sub=…` and
`rand NAME gen=uniform n=… batches=… T=… thr=… ivs=… rot=… [nowin=1]` are the two forms of the
protocol line.  The harness (harness/real_rand.py) runs the REAL generator with a recording
proxy around `np.random.RandomState(seed)` and writes the recorded draws into the line; the
model answers with what the arithmetic / bookkeeping of healSparseRandoms.py must produce from
those draws, and the two answers are compared literally.

TRUSTED, by design (this property is partial):
 * the recording proxy and the code that builds the line: `vp=` is `np.sort(m.valid_pixels)`
   of the real map (NOT checked against the driver's map: `rand_ignores_world`), `choice=` /
   `sub=` are the results of `rng.choice(valid_pixels, n)` / `rng.randint(0, 2**bit_shift, n)`,
   a `1` in `batches=` means `get_values_pos(ra, dec, valid_mask=True)` of the real map, the
   interval lists are `cov_phi ∓ extra_boundary / sin(theta)` recomputed from hpgeom and
   scaled to integers;
 * hpgeom (`pixel_to_angle` / `angle_to_pixel` are inverse on pixel centres; a point in a
   sub-pixel lies in its parent; pixel extents are below `extra_boundary`);
 * numpy's RNG (same seed ⇒ same draws: the harness runs the generator twice — `det`);
 * statistics (`starved`: with `n ≥ 200·|V|`, `|V| ≤ 64` every valid pixel is hit).
The constants `valid=1 det=1 starved=0` of the model's answer are the CLAIMS compared with
what the harness measures on the real output; the theorems below say which part of the real
computation the remaining tokens (`len`, `child`, `win`, `sel`) pin down. -/

section driver
open ApiRandoms

/-- **complete characterisation**: the step leaves the world alone and answers `randAnswer a` -/
theorem rand_step (w : World) (a : Args) : stepArgs w "rand" a = (w, randAnswer a) := by
  rw [stepArgs_rand, opRand_eq]

theorem rand_world_unchanged (w : World) (a : Args) : (stepArgs w "rand" a).1 = w := by
  rw [rand_step]

/-- the answer does not depend on the world — in particular not on the map named on the line:
    the `vp=` token and the validity flags are TRUSTED, not checked -/
theorem rand_ignores_world (w w' : World) (a : Args) :
    (stepArgs w "rand" a).2 = (stepArgs w' "rand" a).2 := by
  rw [rand_step, rand_step]

/-- … nor on the positional arguments (the map name); the model's answer is a function of the
    KEY=VALUE part of the line alone.  This is all the model can say about DETERMINISM: equal
    recorded draws give equal answers; that equal SEEDS give equal draws is a property of
    numpy's RandomState, measured by the harness (`det`), not provable here -/
theorem rand_deterministic (a a' : Args) (h : a.kv = a'.kv) : randAnswer a = randAnswer a' := by
  cases a; cases a'
  simp only at h
  subst h
  rfl

/-! ### (1) fast generator -/

/-- the answer for `gen=fast`, from the parsed fields; anything unparsable is `bad-op` -/
theorem rand_fast_answer (a : Args) (hg : (a.getD "gen" "uniform" == "fast") = true)
    {vp ch sub : List Nat} {sh : Nat}
    (h1 : parseNats (a.getD "vp" "_") = some vp) (h2 : parseNats (a.getD "choice" "_") = some ch)
    (h3 : parseNats (a.getD "sub" "_") = some sub) (h4 : a.nat? "shift" = some sh) :
    randAnswer a = fastAnswer ((a.nat? "n").getD 0) vp ch sub sh := by
  unfold randAnswer
  simp only [hg, if_true, h1, h2, h3, h4]

/-- **the model refuses exactly the inadmissible draws**: the answer is `draws-out-of-range`
    iff a chosen pixel is not one of the listed valid pixels, or a sub-pixel offset is not
    below `2^shift`, or the number of draws is not `n` -/
theorem rand_fast_refuses_iff (n : Nat) (vp ch sub : List Nat) (sh : Nat) :
    fastAnswer n vp ch sub sh = "draws-out-of-range" ↔
      ¬ ((∀ p ∈ ch, p ∈ vp) ∧ (∀ s ∈ sub, s < 2 ^ sh) ∧ ch.length = n ∧ sub.length = n) := by
  rw [fastAnswer_refuses_iff, ← fastOk_iff]
  cases fastOk n vp ch sub sh <;> simp

/-- **what an accepted answer says**: `len = n`; the `child=` token lists `n` pixels; the
    `i`-th is `(choice[i] << shift) + sub[i]`, it lies under `choice[i]`, and `choice[i]` is
    one of the listed valid pixels — so EVERY printed child lies under a valid pixel -/
theorem rand_fast_children (n : Nat) (vp ch sub : List Nat) (sh : Nat)
    (h : fastAnswer n vp ch sub sh ≠ "draws-out-of-range") :
    fastAnswer n vp ch sub sh =
      s!"len={n} valid=1 det=1 starved=0 child={showNats (children sh ch sub)}" ∧
    (children sh ch sub).length = n ∧
    ∀ i, i < n → ∃ p s c, ch[i]? = some p ∧ sub[i]? = some s ∧ (children sh ch sub)[i]? = some c ∧
      c = fastChild sh p s ∧ c >>> sh = p ∧ p ∈ vp := by
  have hok : fastOk n vp ch sub sh = true := by
    cases hc : fastOk n vp ch sub sh with
    | true => rfl
    | false => exact absurd (fastAnswer_of_not_ok hc) h
  exact ⟨fastAnswer_of_ok hok, children_length hok, fun i hi => children_parent hok i hi⟩

/-- a child lies under the pixel chosen for it IFF the offset is in range … -/
theorem fast_in_parent_iff (s p sub : Nat) : fastChild s p sub >>> s = p ↔ sub < 2 ^ s :=
  fastChild_parent_iff s p sub

/-- **… and the model exposes an out-of-range offset instead of hiding it** (the seeded change
    C20c drew `sub` from `[0, 2^shift]`): as soon as ONE recorded offset reaches `2^shift` the
    answer is the refusal, which differs from every answer `len=…` a real run can produce, so
    the comparison fails; and the child the real code computed lies under a LATER pixel than
    the one chosen — possibly not a valid one -/
theorem rand_fast_exposes (n : Nat) (vp ch sub : List Nat) (sh : Nat) (s : Nat) (hs : s ∈ sub)
    (hbig : 2 ^ sh ≤ s) :
    fastAnswer n vp ch sub sh = "draws-out-of-range" ∧
    (∀ (k : Nat) (r : String), fastAnswer n vp ch sub sh ≠ s!"len={k}{r}") ∧
    ∀ p, p < fastChild sh p s >>> sh := by
  have h : fastAnswer n vp ch sub sh = "draws-out-of-range" := by
    rw [rand_fast_refuses_iff]
    rintro ⟨_, h2, _⟩
    exact absurd (h2 s hs) (Nat.not_lt.2 hbig)
  refine ⟨h, fun k r => ?_, fun p => fastChild_parent_gt sh p s hbig⟩
  rw [h]
  exact refusal_ne_len k r

/-- **the link to a map object** (conditional on the trusted `vp=` token): if `vp` lists the
    valid pixels of `m`, every printed child lies under a pixel that is valid in `m` -/
theorem rand_fast_valid_in_map (m : MapObj) (n : Nat) (vp ch sub : List Nat) (sh : Nat)
    (hvp : VpOf m vp) (h : fastAnswer n vp ch sub sh ≠ "draws-out-of-range") :
    ∀ i, i < n → ∃ c, (children sh ch sub)[i]? = some c ∧ c >>> sh < m.npix ∧
      m.vc.valid (m.abs (c >>> sh)) = true := by
  intro i hi
  obtain ⟨p, s, c, _, _, hc, _, hpar, hp⟩ := (rand_fast_children n vp ch sub sh h).2.2 i hi
  have := (hvp p).1 hp
  rw [← hpar] at this
  exact ⟨c, hc, this.1, this.2⟩

/-- … and `VpOf` holds of the valid-pixel listing of every well-formed, well-typed map -/
theorem vp_of_validNat {m : MapObj} (hw : m.WF) (hk : m.KindOk) :
    VpOf m (validNat m.c m.vc m.st) := vpOf_validNat hw hk

/-- **every sub-pixel of every listed valid pixel is reachable**: it is the (single) child of
    the accepted answer to some admissible draw -/
theorem rand_fast_onto (vp : List Nat) (sh p c : Nat) (hp : p ∈ vp) (hc : c >>> sh = p) :
    ∃ s, fastAnswer 1 vp [p] [s] sh = s!"len={1} valid=1 det=1 starved=0 child={showNats [c]}" := by
  obtain ⟨s, hok, hch⟩ := children_onto vp sh p c hp hc
  exact ⟨s, by rw [fastAnswer_of_ok hok, hch]⟩


/-! ### (2) rejection sampler -/

/-- the answer for the rejection sampler, from the parsed fields; anything unparsable is `bad-op` -/
theorem rand_uniform_answer (a : Args) (hg : (a.getD "gen" "uniform" == "fast") = false)
    {ivs rot : List (Int × Int)} {T thr : Int}
    (h1 : parseIvs (a.getD "ivs" "_") = some ivs) (h2 : parseIvs (a.getD "rot" "_") = some rot)
    (h3 : (a.get? "T").bind String.toInt? = some T) (h4 : (a.get? "thr").bind String.toInt? = some thr) :
    randAnswer a = uniformAnswer ((a.nat? "n").getD 0) (parseBatches (a.getD "batches" "")) ivs rot
      T thr (a.flag "nowin") := by
  unfold randAnswer
  simp only [hg, Bool.false_eq_true, if_false, h1, h2, h3, h4]

/-- the shape of that answer: `len` echoes `n`; `win` depends on the geometry fields only,
    `sel` on `n` and the candidate stream only -/
theorem rand_uniform_shape (n : Nat) (batches : List (List (Nat × Bool))) (ivs rot : List (Int × Int))
    (T thr : Int) (nowin : Bool) :
    uniformAnswer n batches ivs rot T thr nowin =
      s!"len={n} valid=1 det=1 starved=0 win={winToken nowin T thr ivs rot} sel={selToken n batches}" :=
  rfl

/-- **the `sel=` token is the first `n` valid candidates in stream order** when the recorded
    stream holds `n` valid candidates, and `none` otherwise.  Candidates are labelled by their
    position in the whole stream (`parseBatches_labels`) -/
theorem rand_sel (n : Nat) (batches : List (List (Nat × Bool))) :
    selToken n batches =
      if n ≤ nValidCand batches then showNats (firstValid n batches) else "none" :=
  selToken_eq n batches

/-- **exactly `n` points, all valid, the first ones**: when the stream holds `n` valid
    candidates the selection has `n` entries; each is the position of a `1` of the `batches=`
    token (the candidate was drawn and `get_values_pos` said valid — trusted recording); it is
    `firstValid`: the valid candidates in draw order, cut after the `n`-th.  The real loop
    (`valid[0:n_valid]` appended batch after batch) must return exactly these -/
theorem rand_sel_spec (s : String) (n : Nat) (h : n ≤ nValidCand (parseBatches s)) :
    rejectionLoop n (parseBatches s) = some (firstValid n (parseBatches s)) ∧
    (firstValid n (parseBatches s)).length = n ∧
    (∀ k ∈ firstValid n (parseBatches s), (streamChars (batchGroups s))[k]? = some '1') ∧
    (parseBatches s).flatten.map (·.1) = List.range (streamChars (batchGroups s)).length := by
  refine ⟨?_, firstValid_length h, fun k hk => firstValid_stream hk, parseBatches_labels s⟩
  rw [Randoms.rejectionLoop_eq]
  unfold nValidCand at h
  rw [if_pos h]
  rfl

/-- `len = n` is reached iff the stream contains `n` valid candidates: the loop of the model
    returns a selection exactly then -/
theorem rand_sel_some_iff (n : Nat) (batches : List (List (Nat × Bool))) :
    (rejectionLoop n batches).isSome = true ↔ n ≤ nValidCand batches := by
  rw [Randoms.rejectionLoop_eq]
  unfold nValidCand
  split
  · rename_i h; exact ⟨fun _ => h, fun _ => rfl⟩
  · rename_i h; exact ⟨(fun hc => by cases hc), fun hc => absurd hc h⟩

/-- **divergence**: a stream without `n` valid candidates makes the model print `sel=none`
    (with `len=n` still echoed).  The REAL loop does not stop in that situation — it keeps
    drawing; the harness cuts it with a watchdog, reports the observation `hang` and sends a
    line with an EMPTY `batches=` token; for `n > 0` the model answers `… sel=none`, which is
    not `hang`, so the case is reported, never silently accepted -/
theorem rand_sel_diverges (n : Nat) (batches : List (List (Nat × Bool))) (h : nValidCand batches < n) :
    selToken n batches = "none" := by
  rw [rand_sel, if_neg (Nat.not_le.2 h)]

theorem rand_hang_reported (n : Nat) (batches : List (List (Nat × Bool))) (ivs rot : List (Int × Int))
    (T thr : Int) (nowin : Bool) : uniformAnswer n batches ivs rot T thr nowin ≠ "hang" := by
  intro h
  have := congrArg String.toList h
  simp [uniformAnswer, toString] at this

/-- the selection does not depend on how the stream is cut into batches, nor on anything
    drawn after the `n`-th valid candidate -/
theorem rand_sel_stream_only (n : Nat) (b₁ b₂ : List (List (Nat × Bool)))
    (h : b₁.flatten = b₂.flatten) : selToken n b₁ = selToken n b₂ := by
  rw [rand_sel, rand_sel, firstValid_flatten n b₁ b₂ h]
  unfold nValidCand; rw [h]

/-! ### (3) window -/

/-- **the `win=` token**: unless the line says `nowin=1` (no draw was made: `n = 0`), the two
    bounds of the window `chooseWindow` selects — the hull (or one full turn) of the plain
    interval list, or of the rotated one -/
theorem rand_win_token (T thr : Int) (ivs rot : List (Int × Int)) :
    winToken true T thr ivs rot = "na" ∧
    winToken false T thr ivs rot =
      s!"{(chooseWindow T thr ivs rot).2.1}:{(chooseWindow T thr ivs rot).2.2}" ∧
    (chooseWindow T thr ivs rot).2 =
      raWindow T (if (chooseWindow T thr ivs rot).1 then rot else ivs) :=
  ⟨rfl, rfl, chooseWindow_eq T thr ivs rot⟩

/-- the rotated window is chosen iff it is narrower than the plain one by more than `thr` -/
theorem rand_window_rotated_iff (T thr : Int) (ivs rot : List (Int × Int)) :
    (chooseWindow T thr ivs rot).1 = true ↔
      (raWindow T rot).2 - (raWindow T rot).1 < ((raWindow T ivs).2 - (raWindow T ivs).1) - thr :=
  chooseWindow_rotated_iff T thr ivs rot

/-- **the printed window covers every interval of the list it was built from, modulo one
    turn** (`window_covers` lifted to the choice) -/
theorem rand_window_covers (T thr : Int) (hT : 0 < T) (ivs rot : List (Int × Int)) (iv : Int × Int)
    (hiv : iv ∈ (if (chooseWindow T thr ivs rot).1 then rot else ivs))
    (x : Int) (hx : iv.1 ≤ x ∧ x ≤ iv.2) :
    ∃ y, (chooseWindow T thr ivs rot).2.1 ≤ y ∧ y ≤ (chooseWindow T thr ivs rot).2.2 ∧
      (y - x) % T = 0 := by
  rw [chooseWindow_eq]
  exact window_covers T hT _ iv hiv x hx

/-- **no part of the footprint is starved by the window, rotated or not**: if the rotated list
    is the plain list moved by the half turn `h` modulo whole turns (what `cov_phi + π`,
    reduced into `[0, 2π]`, does — trusted floating-point geometry), then every point `x` of
    every PLAIN interval is congruent modulo one turn to `y - h` (rotated choice: the real code
    subtracts 180° from what it draws) resp. to `y` (plain choice) for a point `y` of the
    printed window -/
theorem rand_window_covers_footprint (T thr h : Int) (hT : 0 < T) (ivs rot : List (Int × Int))
    (hrot : ∀ iv ∈ ivs, ∃ iv' ∈ rot, ∃ k : Int, iv'.1 = iv.1 + h + k * T ∧ iv'.2 = iv.2 + h + k * T)
    (iv : Int × Int) (hiv : iv ∈ ivs) (x : Int) (hx : iv.1 ≤ x ∧ x ≤ iv.2) :
    ∃ y, (chooseWindow T thr ivs rot).2.1 ≤ y ∧ y ≤ (chooseWindow T thr ivs rot).2.2 ∧
      (y - (if (chooseWindow T thr ivs rot).1 then h else 0) - x) % T = 0 := by
  cases hc : (chooseWindow T thr ivs rot).1 with
  | false =>
    obtain ⟨y, h1, h2, h3⟩ := rand_window_covers T thr hT ivs rot iv (by rw [hc]; exact hiv) x hx
    exact ⟨y, h1, h2, by simpa using h3⟩
  | true =>
    obtain ⟨iv', hiv', k, e1, e2⟩ := hrot iv hiv
    obtain ⟨y, h1, h2, h3⟩ := rand_window_covers T thr hT ivs rot iv' (by rw [hc]; exact hiv')
      (x + h + k * T) ⟨by omega, by omega⟩
    refine ⟨y, h1, h2, ?_⟩
    simp only [if_true]
    have e : y - h - x = (y - (x + h + k * T)) + k * T := by omega
    rw [e, Int.add_mul_emod_self_right]
    exact h3

/-- the printed window is never wider than one turn (non-empty, well-formed interval lists) -/
theorem rand_window_width (T thr : Int) (hT : 0 < T) (ivs rot : List (Int × Int))
    (hne : ivs ≠ []) (hner : rot ≠ []) (hwf : ∀ iv ∈ ivs, iv.1 ≤ iv.2) (hwfr : ∀ iv ∈ rot, iv.1 ≤ iv.2) :
    0 ≤ (chooseWindow T thr ivs rot).2.2 - (chooseWindow T thr ivs rot).2.1 ∧
    (chooseWindow T thr ivs rot).2.2 - (chooseWindow T thr ivs rot).2.1 ≤ T := by
  rw [chooseWindow_eq]
  cases (chooseWindow T thr ivs rot).1 with
  | true => exact window_width T hT rot hner hwfr
  | false => exact window_width T hT ivs hne hwf

/-- **the pre-fix window, on the tokens**: for a footprint straddling `ra = 0` (interval
    `[-10, 10]` of a turn of 360, rotated copy `[170, 190]`, threshold 0) the model prints the
    window `-10:10` (plain choice), whereas the pre-fix code sampled the clipped window
    `0:10` — a different `win=` token, so the comparison fails — and that window starves the
    western half (`Witness.window_clip_starves`) -/
theorem Witness.win_token_clip :
    chooseWindow 360 0 [(-10, 10)] [(170, 190)] = (false, (-10, 10)) ∧
    raWindowClipped 360 [(-10, 10)] = (0, 10) ∧
    raWindowClipped 360 [(-10, 10)] ≠ (chooseWindow 360 0 [(-10, 10)] [(170, 190)]).2 := by
  decide

/-! ### non-vacuity: whole protocol lines (evaluated) -/

/-! an accepted fast line; the same line with one offset equal to `2^shift` (seeded change C20c);
    a chosen pixel that is not listed -/
#guard (stepArgs {} "rand" (parseArgs ["m", "gen=fast", "n=3", "shift=2", "vp=5,9", "choice=9,5,9", "sub=0,3,1"])).2
  == "len=3 valid=1 det=1 starved=0 child=36,23,37"
#guard (stepArgs {} "rand" (parseArgs ["m", "gen=fast", "n=3", "shift=2", "vp=5,9", "choice=9,5,9", "sub=0,4,1"])).2
  == "draws-out-of-range"
#guard (stepArgs {} "rand" (parseArgs ["m", "gen=fast", "n=1", "shift=2", "vp=5,9", "choice=7", "sub=0"])).2
  == "draws-out-of-range"
#guard fastChild 2 5 4 >>> 2 == 6     -- the out-of-range child lies under pixel 6, not 5

/-! a rejection-sampler line: two batches, candidates 1, 3, 4, 5 valid, `n = 3`; the same stream
    cut differently; a stream with too few valid candidates; the line the harness sends after a
    watchdog cut; `nowin` -/
#guard (stepArgs {} "rand" (parseArgs ["m", "gen=uniform", "n=3", "batches=0101;110", "T=360", "thr=0",
    "ivs=-10:10", "rot=170:190"])).2 == "len=3 valid=1 det=1 starved=0 win=-10:10 sel=1,3,4"
#guard (stepArgs {} "rand" (parseArgs ["m", "n=3", "batches=01;01110", "T=360", "thr=0",
    "ivs=-10:10", "rot=170:190"])).2 == "len=3 valid=1 det=1 starved=0 win=-10:10 sel=1,3,4"
#guard (stepArgs {} "rand" (parseArgs ["m", "n=5", "batches=0101;110", "T=360", "thr=0",
    "ivs=-10:10", "rot=170:190"])).2 == "len=5 valid=1 det=1 starved=0 win=-10:10 sel=none"
#guard (stepArgs {} "rand" (parseArgs ["m", "gen=uniform", "n=4", "batches=", "T=1", "thr=0", "ivs=0:1",
    "rot=0:1"])).2 == "len=4 valid=1 det=1 starved=0 win=0:1 sel=none"
#guard (stepArgs {} "rand" (parseArgs ["m", "n=0", "batches=", "T=360", "thr=0", "ivs=-10:10", "rot=170:190",
    "nowin=1"])).2 == "len=0 valid=1 det=1 starved=0 win=na sel=_"
#guard parseBatches "0101;110" == [[(0, false), (1, true), (2, false), (3, true)], [(4, true), (5, true), (6, false)]]
#guard parseBatches "" == []

/-! the rotated window is chosen for a footprint opposite to `ra = 0` seen through the wrap:
    plain intervals `[350, 370]` and `[-10, 10]` (hull wider than… one interval each side),
    rotated `[170, 190]` twice -/
#guard (stepArgs {} "rand" (parseArgs ["m", "n=0", "batches=", "T=360", "thr=36", "ivs=-10:10,340:370",
    "rot=170:190,160:190"])).2 == "len=0 valid=1 det=1 starved=0 win=160:190 sel=_"
example : chooseWindow 360 36 [(-10, 10), (340, 370)] [(170, 190), (160, 190)] = (true, (160, 190)) := by
  decide

end driver
end C20
end HS
