"""Re-evaluate every stored seeded change against the current checks (serial; ~3 min each).
   /venv/bin/python harness/reeval_all.py [ids...]"""
import json
import os
import subprocess
import sys

VERIF = os.path.dirname(os.path.dirname(os.path.abspath(__file__)))
ids = sys.argv[1:] or sorted(os.listdir(os.path.join(VERIF, 'seeded')))
for mid in ids:
    rp = os.path.join(VERIF, 'seeded', mid, 'result.json')
    if not os.path.exists(rp):
        continue
    old = json.load(open(rp))
    pids = sorted(set(list(old.get('checks', {}).keys()) + [mid[:3]]))
    r = subprocess.run(['/venv/bin/python', os.path.join(VERIF, 'harness', 'evalmut.py'), mid, ','.join(pids),
                        '--from-seeded', '--notests'], stdout=subprocess.PIPE, stderr=subprocess.STDOUT)
    new = json.load(open(rp))
    if 'test_suite_with_change' in old and 'test_suite_with_change' not in new:
        new['test_suite_with_change'] = old['test_suite_with_change']
        json.dump(new, open(rp, 'w'), indent=1)
    print(mid, 'demo', new.get('demo_exit_without_change'), new.get('demo_exit_with_change'),
          'every-seed', new.get('caught_every_seed_by'), 'some', new.get('caught_by'), flush=True)
