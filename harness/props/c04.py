"""C04 — every reachable map and written file obeys the published storage layout."""
import importlib
import gen
import translate_kernels

PID = 'C04'
SOURCES = ['c01', 'c02', 'c08', 'c11', 'c12', 'c13', 'c06', 'c07', 'c15', 'c17', 'c14', 'c09', 'c10', 'c03', 'c05',
           'c16', 'c18', 'c19']
RULE = ("the union of all other properties' generators (each contributes a share of its histories, so every mutating and "
        "map-producing API call modelled so far occurs) plus a malformed stream (duplicate pixels, length and type "
        "mismatches, illegal operations, out-of-range pixels, oversized bit positions, and 26 further kinds of refused "
        "call: wrong value / index types, ranges with array values or RING ordering, operators with illegal "
        "operands, degrade with illegal arguments); a `state` export follows every "
        "call on every map it touches: the REAL coverage index and storage arrays are checked by the Lean-verified "
        "`checkInv` (theorem C04.checkInv_iff) and the Lean `abs` of the real arrays must equal the real read path; "
        "non-trivial = a state with at least two blocks, or reached through a call that raised")
ASSUMPTIONS = ["the arrays are read from the private attributes _cov_map._cov_index_map and _sparse_map "
               "(bit-packed storage through np.asarray)"]


def available():
    mods = []
    for name in SOURCES:
        try:
            mods.append(importlib.import_module('props.' + name))
        except ImportError:
            pass
    return mods


def add_states(h):
    """insert a state export after every mutating / producing line for the maps it names"""
    out = []
    for ln in h:
        out.append(ln)
        t = ln.split()
        if t[0] in ('upd', 'updr', 'bits', 'sop', 'bop', 'inv', 'mask'):
            out.append('state %s' % t[1])
        for tok in t[1:]:
            if tok.startswith('r=') and t[0] not in ('cfg',):
                out.append('state %s' % tok[2:])
    return out


def malformed(rng):
    c = gen.rand_cfg(rng, max_npix=768)
    focus = rng.sample(range(c.ncov), min(c.ncov, 3))
    h = [c.line(), 'state %s' % c.name]
    for _ in range(rng.randint(4, 10)):
        r = rng.random()
        if r < 0.35:
            h.append(gen.bad_upd_line(rng, c))
        elif r < 0.6:
            h.append(gen.refused_line(rng, c))
        else:
            h.append(gen.upd_line(rng, c, focus=focus))
        h.append('state %s' % c.name)
    return h


def narrow_index(rng):
    """index arrays handed over in a narrow integer type: coverage pixel * block size must not be computed in it
    (block size 4^6: coverage pixel 8 times 4096 already exceeds int16)"""
    covord, spord = 1, 7
    dt = rng.choice(['f8', 'i4', 'u2'])
    c = gen.MapCfg('m', 'plain', covord, spord, dtype=dt)
    idt = rng.choice(['i2', 'i2', 'i4', 'u2', 'list'])
    cov = rng.sample(range(8, 48), 2) + [rng.randrange(0, 8)]
    c.covpix = cov
    h = [c.line() + ' idtype=%s' % idt, 'covmask m']
    pix = [k * c.nfine + rng.randrange(c.nfine) for k in cov]
    h += ['upd m op=replace pix=%s val=%s' % (','.join(map(str, pix)), c.val(rng)), 'covmask m', 'valid m',
          'get m pix=%s path=pix' % ','.join(map(str, pix)), 'covmap m',
          'write m f=f1 compress=0', 'read r=p f=f1 pixels=%s idtype=%s' % (','.join(map(str, cov[:2])), idt),
          'covmask p', 'valid p', 'get p pix=%s path=pix' % ','.join(map(str, pix)), 'covmap p']
    return h


def histories(rng, tier):
    mods = available()
    share = 60 if tier == 'quick' else 400
    out = []
    for m in mods:
        hs = m.histories(rng, 'quick')
        # a `state` export lists every pixel of the sphere: histories at very high orders (C17) stay out
        hs = [h for h in hs if not any(int(t[6:]) > 9 for ln in h if ln.startswith('cfg ')
                                       for t in ln.split() if t.startswith('spord='))]
        rng.shuffle(hs)
        out += [add_states(h) for h in hs[:share]]
    out += [malformed(rng) for _ in range(120 if tier == 'quick' else 1000)]
    out += [narrow_index(rng) for _ in range(6 if tier == 'quick' else 40)]
    return out


def nontrivial(h):
    return sum(1 for ln in h if ln.startswith('state ')) >= 2


def translate():
    """regenerate Generated/Kernels.lean from /repo (obligations: Props/C04Kernels.lean)"""
    return translate_kernels.translate()


def kernel_failing_rows():
    return translate_kernels.failing_rows(PID)
