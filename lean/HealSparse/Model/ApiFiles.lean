/-
  Files at the level of concrete map kinds: which header keywords `_write_map_fits` sets
  and how `_read_map_fits` / `_read_healsparse_fits_file` recover kind, dtype, sentinel,
  primary, wide-mask width and bit packing from them.
-/
import HealSparse.Model.Api
import HealSparse.Model.FitsIO
namespace HS

/-- what a healsparse FITS file holds (decoded cells; the byte encoding is trusted) -/
structure FileObj where
  covord   : Nat
  spord    : Nat
  arrDT    : String            -- dtype of the SPARSE array as written ("i2" for bool maps, "u1" wide / packed, "rec")
  sentinel : Val               -- SENTINEL keyword
  primary  : Option Nat        -- PRIMARY keyword (record arrays)
  fields   : List DT           -- table columns (record arrays)
  wwidth   : Option Nat        -- WIDEMASK / WWIDTH
  bitpack  : Bool              -- BITPACK
  mdata    : List (String × String)
  file     : FitsFile Val


/-- `_write_map_fits` -/
def apiWrite (m : MapObj) (md : List (String × String)) : FileObj :=
  let (arr, fields, pr, ww, bp) : String × List DT × Option Nat × Option Nat × Bool :=
    match m.kind with
    | .wide n => ("u1", [], none, some n, false)
    | .packed => ("u1", [], none, none, true)
    | .plain .bool => ("i2", [], none, none, false)
    | .plain dt => (dtCode dt, [], none, none, false)
    | .recd fs p => ("rec", fs, some p, none, false)
  { covord := m.covord, spord := m.spord, arrDT := arr, sentinel := m.sent, primary := pr, fields := fields,
    wwidth := ww, bitpack := bp, mdata := md, file := writeFits m.st }

/-- kind recovery on read: BITPACK → packed; boolean SENTINEL → `astype(bool)`;
    WIDEMASK → reshape to rows of WWIDTH bytes; table → record array; else the array dtype -/
def fileKind (f : FileObj) : Option Kind :=
  if f.bitpack then some .packed
  else match f.sentinel with
    | .bool _ => some (.plain .bool)
    | _ =>
      match f.wwidth with
      | some w => some (.wide w)
      | none =>
        if f.arrDT == "rec" then f.primary.map fun p => .recd f.fields p
        else (parseDTCode f.arrDT).map .plain

/-- `HealSparseMap.read(file, pixels=…)` -/
def apiRead (f : FileObj) (pixels : Option (List Nat)) : Except Err MapObj := do
  let kind ← match fileKind f with
    | some k => pure k
    | none => throw .runtime
  let c := cfgOf f.covord f.spord
  let vc : VCfg Val := ⟨kind.blank f.sentinel, kind.valid f.sentinel⟩
  let st ← match pixels with
    | none => pure (readFull f.file)
    | some px =>
      if px.any (· ≥ c.ncov) && false then throw .index
      match readPartial c vc f.file px with
      | some s => pure s
      | none => throw .runtime
  pure { covord := f.covord, spord := f.spord, kind := kind, sent := f.sentinel, st := st }

end HS
