/-
  Helper lemmas for the core model (index arithmetic, scatter, coverage construction).
  Helper lemmas live here; property theorems live in HealSparse/Props.
-/
import HealSparse.Model.Core
import HealSparse.Model.Map
namespace HS

variable {V : Type}

theorem rd_eq_getElem {α} (a : Array α) (i : Nat) (d : α) (h : i < a.size) : rd a i d = a[i] := by
  simp [rd, h]

theorem rd_oob {α} (a : Array α) (i : Nat) (d : α) (h : a.size ≤ i) : rd a i d = d := by
  simp [rd, h]

/-- `lookup p = blockStart (p >> shift) + p % nfine`. -/
theorem lookup_eq (c : Cfg) (s : State V) (p : Nat) :
    lookup c s p = blockStart c s (p >>> c.shift) + ((p % c.nfine : Nat) : Int) := by
  sorry

theorem covpix_lt (c : Cfg) (p : Nat) (h : p < c.npix) : p >>> c.shift < c.ncov := by
  sorry

theorem scatter_size {W} (g : V → W → V) (a : Array V) (upd : List (Nat × W)) :
    (scatter g a upd).size = a.size := by
  sorry

/-- Sequential scatter, read back at cell `j`. -/
theorem scatter_rd {W} (g : V → W → V) (a : Array V) (upd : List (Nat × W)) (j : Nat) (d : V)
    (hj : j < a.size) :
    rd (scatter g a upd) j d =
      upd.foldl (fun x iw => if iw.1 = j then g x iw.2 else x) (rd a j d) := by
  sorry

end HS
