/-
  Helper lemmas for record-array maps (Props/C14.lean): replace with distinct pixels,
  writes through a field view (a cell-wise projection of the storage that shares the
  coverage index) and their write-back into the records, and the view guard of
  `apiUpdate`.  The field lens is passed as plain `get`/`set` functions here; the property
  theorems in Props/C14.lean instantiate them with a `Lens`.
-/
import HealSparse.Lemmas.Core
import HealSparse.Lemmas.Coverage
import HealSparse.Lemmas.Valid
import HealSparse.Lemmas.ScalarOps
import HealSparse.Lemmas.Ranges
import HealSparse.Model.Api
namespace HS
variable {V : Type}

/-! ### replace with distinct pixels -/

/-- folding a replace over a list in which pixel `p` occurs exactly once yields its value -/
theorem denseFold_replace_nodup (pv : List (Nat × V)) (hnd : (pv.map (·.1)).Nodup)
    (p : Nat) (v : V) (hp : (p, v) ∈ pv) (x : V) :
    denseFold (stageOp id fun _ (w : V) => w) (stageList false pv) p x = v := by
  have e : stageList false pv = pv.map fun pw => (pw.1, some pw.2) := by simp [stageList]
  rw [e]
  clear e
  induction pv generalizing x with
  | nil => cases hp
  | cons y ys ih =>
    rw [List.map_cons, List.nodup_cons] at hnd
    have hstep : denseFold (stageOp id fun _ (w : V) => w)
          ((y :: ys).map fun pw => (pw.1, some pw.2)) p x
        = denseFold (stageOp id fun _ (w : V) => w) (ys.map fun pw => (pw.1, some pw.2)) p
            (if y.1 = p then y.2 else x) := by
      simp only [denseFold, List.map_cons, List.foldl_cons, stageOp]
    rw [hstep]
    rcases List.mem_cons.1 hp with hy | hmem
    · subst hy
      rw [denseFold_none]
      · simp
      · intro qw hqw he
        obtain ⟨pw, hpw, rfl⟩ := List.mem_map.1 hqw
        exact hnd.1 (List.mem_map.2 ⟨pw, hpw, he⟩)
    · exact ih hnd.2 hmem _

/-! ### updates that address covered pixels only -/

theorem updateCore_all_covered {W : Type} (c : Cfg) (vc : VCfg V) (s : State V) (g : V → W → V)
    (L : List (Nat × W)) (na : Bool)
    (hL : ∀ qw ∈ L, covered c s (qw.1 >>> c.shift) = true) :
    updateCore c vc s g L na = stage1 c s g L := by
  rw [updateCore_eq, (outL_eq_nil_iff c s L).2 hL]
  simp

/-! ### index-wise maps of the storage -/

section mapIdx
variable [DecidableEq V]

theorem inv_mapIdx (c : Cfg) (vc : VCfg V) (s : State V) (f : Nat → V → V) (h : Inv c vc s)
    (hf : ∀ i, i < c.nfine → f i vc.sentinel = vc.sentinel) :
    Inv c vc ⟨s.cov, s.sp.mapIdx f⟩ := by
  refine inv_of_cov_eq (s' := (⟨s.cov, s.sp.mapIdx f⟩ : State V)) (vw := vc) h rfl (by simp) ?_
  intro i hi
  show (s.sp.mapIdx f)[i]? = _
  rw [Array.getElem?_mapIdx, h.2.2.1 i hi, Option.map_some, hf i hi]

theorem abs_mapIdx (c : Cfg) (vc : VCfg V) (s : State V) (f : Nat → V → V) (h : Inv c vc s)
    (p : Nat) (hp : p < c.npix) :
    abs c vc ⟨s.cov, s.sp.mapIdx f⟩ p = f (idxOf c s p) (abs c vc s p) := by
  have hi := h.idxOf_lt_size hp
  show rd (s.sp.mapIdx f) (idxOf c s p) vc.sentinel = f (idxOf c s p) (rd s.sp (idxOf c s p) vc.sentinel)
  simp [rd, hi]

end mapIdx

/-! ### writes through a field view -/

section view
variable {R F W : Type} [DecidableEq R] [DecidableEq F]

/-- a write through the field view `⟨s.cov, s.sp.map get⟩` that addresses covered pixels only,
    written back into the records -/
theorem writeBack_spec (get : R → F) (set : R → F → R) (set_get : ∀ r, set r (get r) = r)
    (c : Cfg) (vc : VCfg R) (vcF : VCfg F) (s : State R)
    (g : F → W → F) (L : List (Nat × W)) (na : Bool)
    (h : Inv c vc s) (hblank : get vc.sentinel = vcF.sentinel)
    (hL : ∀ qw ∈ L, qw.1 < c.npix ∧ covered c s (qw.1 >>> c.shift) = true) :
    let v' := updateCore c vcF (⟨s.cov, s.sp.map get⟩ : State F) g L na
    v'.cov = s.cov ∧ v'.sp.size = s.sp.size ∧
    Inv c vc ⟨s.cov, s.sp.mapIdx fun j r => set r (rd v'.sp j (get r))⟩ ∧
    (∀ p, p < c.npix →
      abs c vc ⟨s.cov, s.sp.mapIdx fun j r => set r (rd v'.sp j (get r))⟩ p
        = set (abs c vc s p) (denseFold g L p (get (abs c vc s p)))) := by
  intro v'
  have hv : Inv c vcF (mapCells s get) := inv_mapCells c vc vcF s get h hblank
  have hLlt : ∀ qw ∈ L, qw.1 < c.npix := fun qw hq => (hL qw hq).1
  have hLc : ∀ qw ∈ L, covered c (mapCells s get) (qw.1 >>> c.shift) = true :=
    fun qw hq => (hL qw hq).2
  have he : v' = stage1 c (mapCells s get) g L :=
    updateCore_all_covered c vcF (mapCells s get) g L na hLc
  have hcov : v'.cov = s.cov := by rw [he]; rfl
  have hsz : v'.sp.size = s.sp.size := by
    rw [he]; unfold stage1; rw [withScatter_size]; simp [mapCells]
  have hv' : Inv c vcF v' := inv_updateCore' c vcF (mapCells s get) g L na hv hLlt
  refine ⟨hcov, hsz, ?_, ?_⟩
  · apply inv_mapIdx c vc s _ h
    intro i hi
    have : rd v'.sp i (get vc.sentinel) = get vc.sentinel := by
      unfold rd; rw [hv'.2.2.1 i hi, hblank]; rfl
    rw [this, set_get]
  · intro p hp
    rw [abs_mapIdx c vc s _ h p hp]
    have hi := h.idxOf_lt_size hp
    have hrd : rd v'.sp (idxOf c s p) (get (abs c vc s p)) = abs c vcF v' p := by
      have hl : lookup c v' p = lookup c s p := by unfold lookup; rw [hcov]
      unfold abs
      rw [hl]
      show rd v'.sp (idxOf c s p) _ = rd v'.sp (idxOf c s p) _
      rw [rd_eq_getElem _ _ _ (by rw [hsz]; exact hi), rd_eq_getElem _ _ _ (by rw [hsz]; exact hi)]
    rw [hrd]
    congr 1
    show abs c vcF (updateCore c vcF (mapCells s get) g L na) p = _
    rw [updateCore_refines' c vcF (mapCells s get) g L na hv hLlt p hp]
    unfold denseUpdate
    rw [abs_mapCells c vc vcF s get h p hp]
    split
    · rename_i hcond
      have hc : covered c s (p >>> c.shift) = false := by
        have : covered c (mapCells s get) (p >>> c.shift) = false := by
          simp only [Bool.and_eq_true, Bool.not_eq_true'] at hcond
          exact hcond.2
        exact this
      symm
      apply denseFold_none
      intro qw hqw hq
      have := (hL qw hqw).2
      rw [hq, hc] at this
      cases this
    · rfl

end view

/-! ### the view guard of `apiUpdate` -/

theorem ite_ne_ok {ε α : Type} (c : Prop) [Decidable c] (a b : Except ε α) (r : α)
    (ha : a ≠ .ok r) (hb : b ≠ .ok r) : (if c then a else b) ≠ .ok r := by
  split <;> assumption

theorem error_ne_ok {ε α : Type} (e : ε) (r : α) : (Except.error e : Except ε α) ≠ .ok r := nofun

/-- a view rejects every write that addresses a pixel reading as its sentinel -/
theorem apiUpdate_view_rejects (m : MapObj) (op : String) (pix : List Nat)
    (vals : Option (List Val)) (single : Bool) (hview : m.view.isSome = true)
    (p : Nat) (hp : p ∈ pix) (hab : m.abs p = m.sent) (r : MapObj) :
    apiUpdate m op pix vals single ≠ .ok r := by
  have hne : pix.isEmpty = false := by
    cases pix with
    | nil => cases hp
    | cons _ _ => rfl
  have hany : (pix.any fun p => ({ m with cache := none } : MapObj).abs p == m.sent) = true :=
    List.any_eq_true.2 ⟨p, hp, by
      show (m.abs p == m.sent) = true
      rw [hab]; exact beq_self_eq_true _⟩
  unfold apiUpdate
  cases vals <;>
  simp only [bind, Except.bind, pure, Except.pure, throw, throwThe, MonadExceptOf.throw,
    hany, hview, hne, Bool.and_self, if_true, Bool.false_eq_true, if_false] <;>
  repeat' (first | exact error_ne_ok _ _ | apply ite_ne_ok | split)

end HS
