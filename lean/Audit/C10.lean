import HealSparse.Props.C10
import HealSparse.Props.C10World
#print axioms HS.C10.same_updateCore
#print axioms HS.C10.same_updateRanges
#print axioms HS.C10.same_queries
#print axioms HS.C10.same_scalarOp
#print axioms HS.C10.same_applyMask
#print axioms HS.C10.same_astype
#print axioms HS.C10.same_boolMap
#print axioms HS.C10.same_invert
#print axioms HS.C10.same_degrade
#print axioms HS.C10.same_upgrade
#print axioms HS.C10.same_multiOp
#print axioms HS.C10.history_interchangeable
#print axioms HS.C10.noView_of
#print axioms HS.C10.inplace_noView
#print axioms HS.C10.same_stepArgs
#print axioms HS.C10.same_step
#print axioms HS.C10.viewTarget_same
#print axioms HS.C10.diff_same
#print axioms HS.C10.diffLine_same
#print axioms HS.C10.runObs_world
#print axioms HS.C10.same_history
#print axioms HS.C10.sameSafe_same
#print axioms HS.C10.same_routes
#print axioms HS.C10.entSame_refl_of_good
#print axioms HS.C10.bind_bind_sameW
#print axioms HS.C10.upd_routes_sameW
