/-
  C10 at the world level, the operations: each operation of Model/Dispatch.lean run in two
  related good worlds (`World.SameW`, Lemmas/SameWorld.lean) gives the SAME answer and related
  worlds again (`SimR`) — outside the exception set of Props/C10World.lean.
-/
import HealSparse.Lemmas.SameWorld
import HealSparse.Lemmas.ApiScalar
import HealSparse.Props.C12
namespace HS

open WFApi WFRes WFFiles

section fields
variable {a b : MapObj}
theorem MapObj.SameC.covord_eq (h : a.SameC b) : b.covord = a.covord := h.1.symm
theorem MapObj.SameC.spord_eq (h : a.SameC b) : b.spord = a.spord := h.2.1.symm
theorem MapObj.SameC.kind_eq (h : a.SameC b) : b.kind = a.kind := h.2.2.1.symm
theorem MapObj.SameC.sent_eq (h : a.SameC b) : b.sent = a.sent := h.2.2.2.1.symm
theorem MapObj.SameC.cache_eq (h : a.SameC b) : b.cache = a.cache := h.2.2.2.2.1.symm
theorem MapObj.SameC.view_eq (h : a.SameC b) : b.view = a.view := h.2.2.2.2.2.1.symm
end fields

/-- the name the line operates on does not resolve to a view (a store through a view writes the
    column back into the parent: outside the simulation proved here) -/
def NoViewTarget (w : World) (a : Args) : Prop :=
  ∀ m, w.get? (a.pos.headD "") = some m → m.view = none

/-- close a `SameC` goal between two objects built from content-equal `m₁`, `m₂` (hypothesis
    `hc`) by overwriting fields alike -/
syntax "samec " ident : tactic
macro_rules
  | `(tactic| samec $hc:ident) => `(tactic|
      (refine ⟨?_, ?_, ?_, ?_, ?_, ?_, ?_⟩ <;>
        first
        | rfl
        | exact ($hc).1 | exact ($hc).2.1 | exact ($hc).2.2.1 | exact ($hc).2.2.2.1
        | exact ($hc).2.2.2.2.1 | exact ($hc).2.2.2.2.2.1 | exact ($hc).same | assumption))

/-- walk the `match` / `if` / `let` cascade shared by the two sides -/
macro "walk" : tactic => `(tactic| repeat' (first | simp only [] | split))

variable {w₁ w₂ : World}

/-! ### operations that only observe -/

theorem same_opVals (h : w₁.SameW w₂) (g₁ : w₁.Good) (g₂ : w₂.Good) (a : Args) :
    SimR (opVals w₁ a) (opVals w₂ a) := by
  unfold opVals
  refine sim_withMap h g₁ g₂ fun n m₁ m₂ hn e1 e2 hc ok1 ok2 => ?_
  rw [hc.obs_vals]
  exact SimR.same h _

theorem same_opCovmask (h : w₁.SameW w₂) (g₁ : w₁.Good) (g₂ : w₂.Good) (a : Args) :
    SimR (opCovmask w₁ a) (opCovmask w₂ a) := by
  unfold opCovmask
  refine sim_withMap h g₁ g₂ fun n m₁ m₂ hn e1 e2 hc ok1 ok2 => ?_
  rw [hc.obs_covmask]
  exact SimR.same h _

theorem same_opCovmap (h : w₁.SameW w₂) (g₁ : w₁.Good) (g₂ : w₂.Good) (a : Args) :
    SimR (opCovmap w₁ a) (opCovmap w₂ a) := by
  unfold opCovmap
  refine sim_withMap h g₁ g₂ fun n m₁ m₂ hn e1 e2 hc ok1 ok2 => ?_
  rw [hc.obs_covmap ok1.2.1.blankInvalid]
  exact SimR.same h _

theorem same_opValid (h : w₁.SameW w₂) (g₁ : w₁.Good) (g₂ : w₂.Good) (a : Args) :
    SimR (opValid w₁ a) (opValid w₂ a) := by
  unfold opValid
  refine sim_withMap h g₁ g₂ fun n m₁ m₂ hn e1 e2 hc ok1 ok2 => ?_
  obtain ⟨l₁, l₂, v1, v2, _, hs⟩ := hc.obs_valid ok1.2.1.blankInvalid
  rw [v1, v2]
  simp only [hs]
  exact SimR.same h _

theorem same_opVpsc (h : w₁.SameW w₂) (g₁ : w₁.Good) (g₂ : w₂.Good) (a : Args) :
    SimR (opVpsc w₁ a) (opVpsc w₂ a) := by
  unfold opVpsc
  refine sim_withMap h g₁ g₂ fun n m₁ m₂ hn e1 e2 hc ok1 ok2 => ?_
  split
  · exact SimR.same h _
  · rename_i k _
    have hce := hc.c_eq
    by_cases hk : k ≥ m₁.c.ncov
    · rw [if_pos hk, if_pos (by rw [hce]; exact hk)]
      exact SimR.same h _
    · rw [if_neg hk, if_neg (by rw [hce]; exact hk),
        hc.obs_vpsc ok1.2.1.blankInvalid (Nat.lt_of_not_le hk)]
      cases validPixelsSingleCovpix m₁.c m₁.vc m₁.st k <;> exact SimR.same h _

theorem same_opInfo (h : w₁.SameW w₂) (g₁ : w₁.Good) (g₂ : w₂.Good) (a : Args) :
    SimR (opInfo w₁ a) (opInfo w₂ a) := by
  unfold opInfo
  refine sim_withMap h g₁ g₂ fun n m₁ m₂ hn e1 e2 hc ok1 ok2 => ?_
  simp only [hc.kind_eq, hc.covord_eq, hc.spord_eq, hc.sent_eq]
  exact SimR.same h _

theorem same_opChk (h : w₁.SameW w₂) (g₁ : w₁.Good) (g₂ : w₂.Good) (a : Args) :
    SimR (opChk w₁ a) (opChk w₂ a) := by
  unfold opChk
  refine sim_withMap h g₁ g₂ fun n m₁ m₂ hn e1 e2 hc ok1 ok2 => ?_
  simp only [hc.obs_checkBits]
  repeat' split
  all_goals exact SimR.same h _

theorem same_opGet (h : w₁.SameW w₂) (g₁ : w₁.Good) (g₂ : w₂.Good) (a : Args) :
    SimR (opGet w₁ a) (opGet w₂ a) := by
  unfold opGet
  refine sim_withMap h g₁ g₂ fun n m₁ m₂ hn e1 e2 hc ok1 ok2 => ?_
  simp only [hc.spord_eq, hc.obs_get, hc.vc_eq]
  repeat' split
  all_goals exact SimR.same h _

theorem same_opGetmeta (h : w₁.SameW w₂) (g₁ : w₁.Good) (g₂ : w₂.Good) (a : Args) :
    SimR (opGetmeta w₁ a) (opGetmeta w₂ a) := by
  unfold opGetmeta
  refine sim_withMap h g₁ g₂ fun n m₁ m₂ hn e1 e2 hc ok1 ok2 => ?_
  rw [h.2.2.2.2.2]
  exact SimR.same h _

theorem same_opMeta (h : w₁.SameW w₂) (g₁ : w₁.Good) (g₂ : w₂.Good) (a : Args) :
    SimR (opMeta w₁ a) (opMeta w₂ a) := by
  unfold opMeta
  refine sim_withMap h g₁ g₂ fun n m₁ m₂ hn e1 e2 hc ok1 ok2 => ?_
  rw [h.2.2.2.2.2]
  exact ⟨rfl, h.with_metas _⟩

theorem same_opBad (h : w₁.SameW w₂) (g₁ : w₁.Good) (g₂ : w₂.Good) (a : Args) :
    SimR (opBad w₁ a) (opBad w₂ a) := by
  unfold opBad
  exact sim_withMap h g₁ g₂ fun n m₁ m₂ hn e1 e2 hc ok1 ok2 => SimR.same h _

theorem same_opCopy (h : w₁.SameW w₂) (g₁ : w₁.Good) (g₂ : w₂.Good) (a : Args) :
    SimR (opCopy w₁ a) (opCopy w₂ a) := by
  unfold opCopy
  exact sim_withMap h g₁ g₂ fun n m₁ m₂ hn e1 e2 hc ok1 ok2 => ⟨rfl, h.bind _ (hc.with_cache none)⟩

theorem same_opDrop (h : w₁.SameW w₂) (a : Args) : SimR (opDrop w₁ a) (opDrop w₂ a) := by
  unfold opDrop
  split
  · exact ⟨rfl, h.drop _⟩
  · exact SimR.same h _

theorem same_opReset (a : Args) : SimR (opReset w₁ a) (opReset w₂ a) :=
  ⟨rfl, Named.nil, Named.nil, rfl, rfl, rfl, rfl⟩

/-- `n_valid` with its cache: the counts agree, and both sides cache the same count -/
theorem same_opNvalid (h : w₁.SameW w₂) (g₁ : w₁.Good) (g₂ : w₂.Good) (a : Args) :
    SimR (opNvalid w₁ a) (opNvalid w₂ a) := by
  unfold opNvalid
  refine sim_withMap h g₁ g₂ fun n m₁ m₂ hn e1 e2 hc ok1 ok2 => ?_
  simp only [hc.cache_eq, hc.kind_eq, hc.view_eq, hc.obs_nvalid ok1.2.1.blankInvalid]
  split
  · exact SimR.same h _
  · split
    · exact SimR.same h _
    · split
      · exact SimR.same h _
      · rename_i hv
        have hv' : m₁.view = none := by
          cases hvv : m₁.view with
          | none => rfl
          | some x => rw [hvv] at hv; exact absurd rfl hv
        refine ⟨rfl, h.put_owning _ ?_ hv'⟩
        samec hc

/-! ### operations that build a map from the arguments alone -/

theorem same_opCfg (h : w₁.SameW w₂) (a : Args) : SimR (opCfg w₁ a) (opCfg w₂ a) := by
  unfold opCfg
  walk
  all_goals first
    | exact SimR.same h _
    | exact ⟨rfl, h.bind _ (.refl (WF.apiMakeEmpty ‹_›))⟩

theorem same_opMocread (h : w₁.SameW w₂) (a : Args) : SimR (opMocread w₁ a) (opMocread w₂ a) := by
  unfold opMocread
  rw [show w₂.mocs = w₁.mocs from h.2.2.2.1.symm]
  walk
  all_goals first
    | exact SimR.same h _
    | exact ⟨rfl, h.bind _ (.refl ((MapObj.WF_cache _ _).2 (WF.apiUpdate (WF.apiMakeEmpty ‹_›) ‹_›)))⟩

theorem same_opFromhp (h : w₁.SameW w₂) (a : Args) : SimR (opFromhp w₁ a) (opFromhp w₂ a) := by
  unfold opFromhp
  walk
  all_goals first
    | exact SimR.same h _
    | exact ⟨rfl, h.bind _ (.refl (WF.apiFromHealpix ‹_›))⟩

theorem same_opHpximplicit (h : w₁.SameW w₂) (a : Args) :
    SimR (opHpximplicit w₁ a) (opHpximplicit w₂ a) := by
  unfold opHpximplicit
  rw [show w₂.hpfiles = w₁.hpfiles from h.2.2.2.2.1.symm]
  walk
  all_goals first
    | exact SimR.same h _
    | exact ⟨rfl, h.with_hpfiles _⟩

theorem same_opHpxread (h : w₁.SameW w₂) (a : Args) : SimR (opHpxread w₁ a) (opHpxread w₂ a) := by
  unfold opHpxread
  rw [show w₂.hpfiles = w₁.hpfiles from h.2.2.2.2.1.symm]
  walk
  all_goals first
    | exact SimR.same h _
    | exact ⟨rfl, h.bind _ (.refl ((MapObj.WF_cache _ _).2 (WF.apiReadHealpix ‹_›)))⟩

theorem same_opRand (h : w₁.SameW w₂) (a : Args) : SimR (opRand w₁ a) (opRand w₂ a) := by
  unfold opRand
  walk
  all_goals exact SimR.same h _

theorem same_opCovread (h : w₁.SameW w₂) (a : Args) : SimR (opCovread w₁ a) (opCovread w₂ a) := by
  unfold opCovread
  rcases h.file (a.getD "f" "f") with ⟨e1, e2⟩ | ⟨f, g, e1, e2, hf⟩
  · rw [e1, e2]; exact SimR.same h _
  · rw [e1, e2]
    have : readCoverage (cfgOf g.covord g.spord) g.file = readCoverage (cfgOf f.covord f.spord) f.file := by
      unfold readCoverage
      rw [← hf.1, ← hf.2.1]
      exact List.map_congr_left fun k hk => (hf.2.2.2.2.2.2.2.2.2.1 k (List.mem_range.1 hk)).symm
    simp only [this]
    exact SimR.same h _

/-! ### `update_values_pix` and the operations built on it -/

/-- **`update_values_pix` on content-equal map objects**: the same error, or content-equal results -/
theorem apiUpdate_sameC {m₁ m₂ : MapObj} (hc : m₁.SameC m₂) (op : String) (pix : List Nat)
    (vals : Option (List Val)) (single : Bool) (ru : Option Bool) :
    ExR MapObj.SameC (apiUpdate m₁ op pix vals single ru) (apiUpdate m₂ op pix vals single ru) := by
  have hrel := apiUpdate_same m₁ m₂ hc.sameObj hc.same op pix vals single ru
  cases h1 : apiUpdate m₁ op pix vals single ru with
  | error e₁ =>
    cases h2 : apiUpdate m₂ op pix vals single ru with
    | error e₂ => rw [h1, h2] at hrel; exact hrel
    | ok r₂ => rw [h1, h2] at hrel; exact hrel.elim
  | ok r₁ =>
    cases h2 : apiUpdate m₂ op pix vals single ru with
    | error e₂ => rw [h1, h2] at hrel; exact hrel.elim
    | ok r₂ =>
      rw [h1, h2] at hrel
      obtain ⟨s1, s2, hS⟩ := hrel
      have c1 := (WFApi.apiUpdate_ok h1).2.2.2.2.2.1
      have c2 := (WFApi.apiUpdate_ok h2).2.2.2.2.2.1
      show r₁.SameC r₂
      refine ⟨s1.1.trans s2.1.symm, s1.2.1.trans s2.2.1.symm, s1.2.2.1.trans s2.2.2.1.symm,
        s1.2.2.2.1.trans s2.2.2.2.1.symm, c1.trans c2.symm, s1.2.2.2.2.trans s2.2.2.2.2.symm, ?_⟩
      rw [s1.c_eq, s1.vc_eq]
      exact hS

theorem apiSetBits_sameC {m₁ m₂ : MapObj} (hc : m₁.SameC m₂) (pix bits : List Nat) (clear : Bool) :
    ExR MapObj.SameC (apiSetBits m₁ pix bits clear) (apiSetBits m₂ pix bits clear) := by
  unfold apiSetBits MapObj.maxbits
  simp only [bind, Except.bind, pure, Except.pure, throw, throwThe, MonadExceptOf.throw, hc.kind_eq]
  repeat' split
  all_goals first
    | exact ExR.err _
    | exact apiUpdate_sameC hc _ _ _ _ _

/-- the result of an in-place call keeps the view flag of the operand -/
theorem apiUpdate_view {m m' : MapObj} {op : String} {pix : List Nat} {vals : Option (List Val)}
    {single : Bool} {ru : Option Bool} (h : apiUpdate m op pix vals single ru = .ok m') :
    m'.view = m.view := (WFApi.apiUpdate_ok h).2.2.2.2.1

set_option hygiene false in
/-- the two leaves of an in-place operation on an owning map: the operand stored with its cache
    reset (error), the result stored (success) -/
macro "put_leaf" : tactic => `(tactic| first
  | exact SimR.same h _
  | exact ⟨rfl, h.put_owning _ (by samec hc) hv⟩)

theorem same_opUpd (h : w₁.SameW w₂) (g₁ : w₁.Good) (g₂ : w₂.Good) (a : Args)
    (hnv : NoViewTarget w₁ a) : SimR (opUpd w₁ a) (opUpd w₂ a) := by
  unfold opUpd
  refine sim_withMap h g₁ g₂ fun n m₁ m₂ hn e1 e2 hc ok1 ok2 => ?_
  have hv : m₁.view = none := hnv m₁ (by rw [hn]; exact e1)
  simp only [hn, hc.kind_eq, hc.sent_eq]
  split
  · exact SimR.same h _
  · rename_i pix _
    split
    · exact SimR.same h _
    · rename_i vals single _
      rcases (apiUpdate_sameC hc (a.getD "op" "replace") pix vals single none).cases with
        ⟨r₁, r₂, x1, x2, hr⟩ | ⟨e, x1, x2⟩
      · rw [x1, x2]
        walk
        all_goals first
          | put_leaf
          | exact ⟨rfl, h.put_owning _ hr ((apiUpdate_view x1).trans hv)⟩
      · rw [x1, x2]
        walk
        all_goals put_leaf

theorem same_opSet (h : w₁.SameW w₂) (g₁ : w₁.Good) (g₂ : w₂.Good) (a : Args)
    (hnv : NoViewTarget w₁ a) : SimR (opSet w₁ a) (opSet w₂ a) := by
  unfold opSet
  refine sim_withMap h g₁ g₂ fun n m₁ m₂ hn e1 e2 hc ok1 ok2 => ?_
  have hv : m₁.view = none := hnv m₁ (by rw [hn]; exact e1)
  simp only [hn]
  split
  · rename_i lo hi st _
    split
    · exact SimR.same h _
    · split
      · exact SimR.same h _
      · rename_i v _
        rcases (apiUpdate_sameC hc "replace"
          ((List.range ((hi - lo + st - 1) / st)).map fun i => lo + i * st) v true none).cases with
          ⟨r₁, r₂, x1, x2, hr⟩ | ⟨e, x1, x2⟩
        · rw [x1, x2]
          exact ⟨rfl, h.put_owning _ hr ((apiUpdate_view x1).trans hv)⟩
        · rw [x1, x2]
          put_leaf
  · exact SimR.same h _

theorem same_opBits (h : w₁.SameW w₂) (g₁ : w₁.Good) (g₂ : w₂.Good) (a : Args)
    (hnv : NoViewTarget w₁ a) : SimR (opBits w₁ a) (opBits w₂ a) := by
  unfold opBits
  refine sim_withMap h g₁ g₂ fun n m₁ m₂ hn e1 e2 hc ok1 ok2 => ?_
  have hv : m₁.view = none := hnv m₁ (by rw [hn]; exact e1)
  simp only [hn]
  split
  · rename_i pix bits _ _
    rcases (apiSetBits_sameC hc pix bits (a.getD "mode" "set" == "clear")).cases with
      ⟨r₁, r₂, x1, x2, hr⟩ | ⟨e, x1, x2⟩
    · rw [x1, x2]
      obtain ⟨op, vals, hu⟩ := WFApi.apiSetBits_ok x1
      exact ⟨rfl, h.put_owning _ hr ((apiUpdate_view hu).trans hv)⟩
    · rw [x1, x2]
      exact SimR.same h _
  · exact SimR.same h _

/-! ### `update_values_pix` with pixel ranges -/

theorem MapObj.SameC.eq_with_st {a b : MapObj} (h : a.SameC b) : b = { a with st := b.st } := by
  obtain ⟨h1, h2, h3, h4, h5, h6, _⟩ := h
  obtain ⟨c1, s1, k1, t1, st1, ca1, v1⟩ := a
  obtain ⟨c2, s2, k2, t2, st2, ca2, v2⟩ := b
  simp only at h1 h2 h3 h4 h5 h6
  subst h1 h2 h3 h4 h5 h6
  rfl

open ApiRanges in
theorem sliceSt_same {m : MapObj} {s₂ : State Val} (hw : m.WF) (hS : C10.Same m.c m.vc m.st s₂)
    (op : String) (R : List (Nat × Nat)) (val : Option Val)
    (hR : ∀ ab ∈ liveRows R, ab.1 ≤ ab.2 ∧ ab.2 ≤ m.npix) :
    C10.Same m.c m.vc (sliceSt m op R val) (sliceSt { m with st := s₂ } op R val) := by
  have hw2 : ({ m with st := s₂ } : MapObj).WF := ⟨hw.1, hS.2.1⟩
  obtain ⟨i1, c1, a1⟩ := sliceSt_spec (op := op) (val := val) hw hR
  obtain ⟨i2, c2, a2⟩ := sliceSt_spec (m := { m with st := s₂ }) (op := op) (val := val) hw2 hR
  refine ⟨i1, i2, ?_, ?_⟩
  · intro p hp
    have hk := covpix_lt m.c p hp
    refine (a1 p hp).trans (Eq.trans ?_ (a2 p hp).symm)
    show _ = if (val.isNone && !covered m.c s₂ (p >>> m.c.shift)) = true then abs m.c m.vc s₂ p
      else R.foldl (fun x ab => if ab.1 ≤ p ∧ p < ab.2
                  then (cellOp m op).2 x (rangesW m val) else x)
            (R.foldl (fun x ab => if ab.1 ≤ p ∧ p < ab.2
                  then ((cellOp m op).1.getD id) x else x) (abs m.c m.vc s₂ p))
    rw [← hS.2.2.2 _ hk, ← hS.2.2.1 p hp]
    rfl
  · intro k hk
    refine (c1 k hk).trans (Eq.trans ?_ (c2 k hk).symm)
    show _ = (covered m.c s₂ k || (!val.isNone && decide (k ∈ rangeNewCov m.c s₂ (liveRows R))))
    rw [← hS.2.2.2 k hk]
    congr 2
    rw [decide_eq_decide, mem_rangeNewCov, mem_rangeNewCov, hS.2.2.2 k hk]

open ApiRanges in
/-- **`update_values_pix` with ranges on content-equal map objects** (either path): the same
    error, or content-equal results -/
theorem apiUpdateRanges_sameC {m₁ m₂ : MapObj} (hc : m₁.SameC m₂) (hw : m₁.WF) (op : String)
    (R : List (Nat × Nat)) (val : Option Val) (sl : Bool) :
    ExR MapObj.SameC (apiUpdateRanges m₁ op R val sl) (apiUpdateRanges m₂ op R val sl) := by
  by_cases hpath : (!sl || m₁.view.isSome) = true
  · -- the explicit path: three calls of `update_values_pix`
    have hpath2 : (!sl || m₂.view.isSome) = true := by rw [hc.view_eq]; exact hpath
    unfold apiUpdateRanges
    simp only [hpath, hpath2, if_true, hc.npix_eq]
    split
    · exact apiUpdate_sameC hc _ _ _ _ _
    · split
      · rcases (apiUpdate_sameC hc op [0] (val.map fun v => [v]) true
          (some (!decide ((List.flatMap (fun ab => [ab.1, ab.2]) R).eraseDups.length < R.length)))).cases with
          ⟨r₁, r₂, x1, x2, _⟩ | ⟨e, x1, x2⟩
        · rw [x1, x2]; exact ExR.err _
        · rw [x1, x2]; exact ExR.err _
      · exact apiUpdate_sameC hc _ _ _ _ _
  · -- the range routine
    have hsl : sl = true := by
      cases sl with
      | true => rfl
      | false => exact absurd rfl hpath
    have hv : m₁.view = none := by
      cases hvv : m₁.view with
      | none => rfl
      | some x => rw [hvv] at hpath; simp at hpath
    subst hsl
    have hS := hc.same
    rw [hc.eq_with_st] at hS ⊢
    generalize m₂.st = s₂ at hS ⊢
    rw [apiUpdateRanges_slice_eq m₁ op R val hv,
      apiUpdateRanges_slice_eq { m₁ with st := s₂ } op R val hv]
    unfold apiRangesSliceSpec
    show ExR _ _ (match frontErr m₁ op val.isNone with
      | some e => .error e
      | none =>
        if R.isEmpty then .ok { m₁ with st := s₂, cache := none }
        else if !(valMatchesKind m₁.kind (rangesW m₁ val)) then .error .value
        else if op == "replace" && !rawOk R then .error .value
        else if (liveRows R).any (fun ab => ab.2 > m₁.npix || ab.1 > ab.2) then .error .index
        else if op == "add" && !floatCellsFit m₁.kind (sliceSt { m₁ with st := s₂ } op R val).sp
          then .error .inexact
        else .ok { m₁ with cache := none, st := sliceSt { m₁ with st := s₂ } op R val })
    cases frontErr m₁ op val.isNone with
    | some e => exact ExR.err _
    | none =>
      simp only []
      split
      · exact ⟨rfl, rfl, rfl, rfl, rfl, rfl, hS⟩
      · split
        · exact ExR.err _
        · split
          · exact ExR.err _
          · split
            · exact ExR.err _
            · rename_i hany
              have hR : ∀ ab ∈ liveRows R, ab.1 ≤ ab.2 ∧ ab.2 ≤ m₁.npix := by
                intro ab hab
                have := (not_any_iff.1 hany) ab hab
                simp only [Bool.or_eq_false_iff, decide_eq_false_iff_not] at this
                omega
              have hsl := sliceSt_same hw hS op R val hR
              rw [← floatCellsFit_same m₁.kind hsl]
              split
              · exact ExR.err _
              · exact ⟨rfl, rfl, rfl, rfl, rfl, rfl, hsl⟩

theorem apiUpdateRanges_view' {m m' : MapObj} {op : String} {R : List (Nat × Nat)}
    {val : Option Val} {sl : Bool} (h : apiUpdateRanges m op R val sl = .ok m') :
    m'.view = m.view := (WFApi.apiUpdateRanges_ok h).2.2.2.2.1

theorem updr_tail (h : w₁.SameW w₂) {m₁ m₂ : MapObj} (hc : m₁.SameC m₂) (hw : m₁.WF)
    (hv : m₁.view = none) (n op : String) (R : List (Nat × Nat)) (v : Option Val) (sl : Bool) :
    SimR (match apiUpdateRanges m₁ op R v sl with
        | .ok m' => (w₁.put n m', "ok")
        | .error e => (w₁.put n { m₁ with cache := none }, errLine e))
      (match apiUpdateRanges m₂ op R v sl with
        | .ok m' => (w₂.put n m', "ok")
        | .error e => (w₂.put n { m₂ with cache := none }, errLine e)) := by
  rcases (apiUpdateRanges_sameC hc hw op R v sl).cases with ⟨r₁, r₂, x1, x2, hr⟩ | ⟨e, x1, x2⟩
  · rw [x1, x2]
    exact ⟨rfl, h.put_owning _ hr ((apiUpdateRanges_view' x1).trans hv)⟩
  · rw [x1, x2]
    put_leaf

theorem same_opUpdr (h : w₁.SameW w₂) (g₁ : w₁.Good) (g₂ : w₂.Good) (a : Args)
    (hnv : NoViewTarget w₁ a) : SimR (opUpdr w₁ a) (opUpdr w₂ a) := by
  unfold opUpdr
  refine sim_withMap h g₁ g₂ fun n m₁ m₂ hn e1 e2 hc ok1 ok2 => ?_
  have hv : m₁.view = none := hnv m₁ (by rw [hn]; exact e1)
  simp only [hn]
  split
  · exact SimR.same h _
  · rename_i R _
    split
    · exact SimR.same h _
    · rename_i v _
      exact updr_tail h hc ok1.1 hv n _ R v _

/-! ### files: `write`, `read` -/

theorem apiWrite_sameF {m₁ m₂ : MapObj} (hc : m₁.SameC m₂) (hs : m₁.SentOK)
    (md : List (String × String)) : (apiWrite m₁ md).SameF (apiWrite m₂ md) := by
  have hS := hc.same
  rw [hc.eq_with_st] at hS ⊢
  generalize m₂.st = s₂ at hS ⊢
  refine ⟨rfl, rfl, rfl, rfl, rfl, rfl, rfl, rfl, rfl, ?_, ?_⟩
  · intro k hk
    exact hS.2.2.2 k hk
  · intro kind hk
    have := vc_of_fileKind_apiWrite hs hk
    show C10.Same m₁.c ⟨kind.blank m₁.sent, kind.valid m₁.sent⟩ m₁.st s₂
    rw [this]
    exact hS

/-- a partial read of content-equal extensions: refused alike, or content-equal results -/
theorem readPartial_same {c : Cfg} {vc : VCfg Val} {s₁ s₂ : State Val} (hS : C10.Same c vc s₁ s₂)
    (px : List Nat) :
    (readPartial c vc (writeFits s₁) px = none ∧ readPartial c vc (writeFits s₂) px = none) ∨
    ∃ r₁ r₂, readPartial c vc (writeFits s₁) px = some r₁ ∧
      readPartial c vc (writeFits s₂) px = some r₂ ∧ C10.Same c vc r₁ r₂ := by
  have hreq : (∃ k ∈ px, k < c.ncov ∧ covered c s₁ k = true) ↔
      (∃ k ∈ px, k < c.ncov ∧ covered c s₂ k = true) := by
    constructor
    · rintro ⟨k, h1, h2, h3⟩; exact ⟨k, h1, h2, by rw [← hS.2.2.2 k h2]; exact h3⟩
    · rintro ⟨k, h1, h2, h3⟩; exact ⟨k, h1, h2, by rw [hS.2.2.2 k h2]; exact h3⟩
  by_cases hok : px.Nodup ∧ ∃ k ∈ px, k < c.ncov ∧ covered c s₁ k = true
  · obtain ⟨r₁, e1, i1, a1, c1⟩ := C03.read_partial_spec c vc s₁ px hS.1 hok.1 hok.2
    obtain ⟨r₂, e2, i2, a2, c2⟩ := C03.read_partial_spec c vc s₂ px hS.2.1 hok.1 (hreq.1 hok.2)
    refine .inr ⟨r₁, r₂, e1, e2, i1, i2, ?_, ?_⟩
    · intro p hp
      rw [a1 p hp, a2 p hp, hS.2.2.2 _ (covpix_lt c p hp), hS.2.2.1 p hp]
    · intro k hk
      rw [c1 k hk, c2 k hk, hS.2.2.2 k hk]
  · have hno : ¬ px.Nodup ∨ ¬ ∃ k ∈ px, k < c.ncov ∧ covered c s₁ k = true := by
      by_cases hnd : px.Nodup
      · exact .inr fun hr => hok ⟨hnd, hr⟩
      · exact .inl hnd
    refine .inl ⟨(C03.read_partial_rejects_iff c vc s₁ px hS.1).2 hno,
      (C03.read_partial_rejects_iff c vc s₂ px hS.2.1).2 ?_⟩
    rcases hno with h1 | h1
    · exact .inl h1
    · exact .inr fun hr => h1 (hreq.2 hr)

/-- **reading (fully or partially) content-equal files**: the same error, or content-equal maps -/
theorem apiRead_sameF {f g : FileObj} (hf : f.SameF g) (px : Option (List Nat)) :
    ExR MapObj.SameC (apiRead f px) (apiRead g px) := by
  have hk := hf.fileKind_eq
  obtain ⟨h1, h2, _, h4, _, _, _, _, _, _, hs⟩ := hf
  cases px with
  | none =>
    rw [apiRead_none_eq, apiRead_none_eq, hk]
    cases hkk : fileKind f with
    | none => exact ExR.err _
    | some k =>
      exact ⟨h1, h2, rfl, h4, rfl, rfl, hs k hkk⟩
  | some l =>
    rw [apiRead_some_eq, apiRead_some_eq, hk]
    cases hkk : fileKind f with
    | none => exact ExR.err _
    | some k =>
      simp only []
      rw [← h1, ← h2, ← h4]
      rcases readPartial_same (hs k hkk) l with ⟨e1, e2⟩ | ⟨r₁, r₂, e1, e2, hr⟩
      · have e1' : readPartial (cfgOf f.covord f.spord) ⟨k.blank f.sentinel, k.valid f.sentinel⟩ f.file l = none := e1
        have e2' : readPartial (cfgOf f.covord f.spord) ⟨k.blank f.sentinel, k.valid f.sentinel⟩ g.file l = none := e2
        rw [e1', e2']
        exact ExR.err _
      · have e1' : readPartial (cfgOf f.covord f.spord) ⟨k.blank f.sentinel, k.valid f.sentinel⟩ f.file l = some r₁ := e1
        have e2' : readPartial (cfgOf f.covord f.spord) ⟨k.blank f.sentinel, k.valid f.sentinel⟩ g.file l = some r₂ := e2
        rw [e1', e2']
        exact ⟨rfl, rfl, rfl, rfl, rfl, rfl, hr⟩

theorem same_opWrite (h : w₁.SameW w₂) (g₁ : w₁.Good) (g₂ : w₂.Good) (a : Args) :
    SimR (opWrite w₁ a) (opWrite w₂ a) := by
  unfold opWrite
  refine sim_withMap h g₁ g₂ fun n m₁ m₂ hn e1 e2 hc ok1 ok2 => ?_
  simp only []
  have e : ((w₂.metas.find? (·.1 == a.pos.headD "")).map (·.2)).getD []
      = ((w₁.metas.find? (·.1 == a.pos.headD "")).map (·.2)).getD [] := by rw [h.2.2.2.2.2]
  rw [e]
  exact ⟨rfl, h.files_insert _ (apiWrite_sameF hc ok1.2.2 _)⟩

theorem same_opRead (h : w₁.SameW w₂) (a : Args) : SimR (opRead w₁ a) (opRead w₂ a) := by
  unfold opRead
  rcases h.file (a.getD "f" "f") with ⟨e1, e2⟩ | ⟨f, g, e1, e2, hf⟩
  · rw [e1, e2]; exact SimR.same h _
  · rw [e1, e2]
    simp only []
    split
    · exact SimR.same h _
    · rename_i px _
      rcases (apiRead_sameF hf px).cases with ⟨r₁, r₂, x1, x2, hr⟩ | ⟨e, x1, x2⟩
      · rw [x1, x2]
        refine ⟨rfl, (h.bind _ hr).with_metas' ?_⟩
        show _ :: List.filter _ w₁.metas = _ :: List.filter _ w₂.metas
        rw [h.2.2.2.2.2, hf.2.2.2.2.2.2.2.2.1]
      · rw [x1, x2]
        exact SimR.same h _

/-! ### scalar operators, `apply_mask`, `astype` -/

/-- a test over the valid storage cells does not depend on the representation -/
theorem valid_any_same {c : Cfg} {vc : VCfg Val} {s₁ s₂ : State Val} (hS : C10.Same c vc s₁ s₂)
    (hv : vc.valid vc.sentinel = false) (Q : Val → Bool) :
    (s₁.sp.toList.filter vc.valid).any Q = (s₂.sp.toList.filter vc.valid).any Q := by
  rw [Bool.eq_iff_iff, ApiScalar.any_valid_iff hS.1 hv, ApiScalar.any_valid_iff hS.2.1 hv]
  constructor
  · rintro ⟨p, hp, h1, h2⟩; exact ⟨p, hp, by rw [← hS.2.2.1 p hp]; exact h1, by rw [← hS.2.2.1 p hp]; exact h2⟩
  · rintro ⟨p, hp, h1, h2⟩; exact ⟨p, hp, by rw [hS.2.2.1 p hp]; exact h1, by rw [hS.2.2.1 p hp]; exact h2⟩

/-- content-equal states at the parameters of `m` -/
abbrev StSame (m : MapObj) (s₁ s₂ : State Val) : Prop := C10.Same m.c m.vc s₁ s₂

theorem apiScalarOp_sameC {m₁ m₂ : MapObj} (hc : m₁.SameC m₂) (hv : m₁.BlankInvalid) (op : String)
    (k : Scalar) : ExR (StSame m₁) (apiScalarOp m₁ op k) (apiScalarOp m₂ op k) := by
  have hS := hc.same
  rw [hc.eq_with_st] at hS ⊢
  generalize m₂.st = s₂ at hS ⊢
  rw [ApiScalar.apiScalarOp_eq, ApiScalar.apiScalarOp_eq]
  show ExR _ _ (match ApiScalar.sopError m₁.kind op k with
    | some e => .error e
    | none =>
      if (s₂.sp.toList.filter m₁.vc.valid).any (fun x => (ApiScalar.sopCell m₁.kind op k x).isNone) then
        .error .inexact
      else .ok (scalarOp m₁.vc s₂ fun x => (ApiScalar.sopCell m₁.kind op k x).getD x))
  rw [← valid_any_same hS hv]
  cases ApiScalar.sopError m₁.kind op k with
  | some e => exact ExR.err _
  | none =>
    simp only []
    split
    · exact ExR.err _
    · exact C10.same_scalarOp m₁.c m₁.vc _ _ _ hS hv

theorem perm_any_eq {α : Type} {l₁ l₂ : List α} (h : l₁.Perm l₂) (P : α → Bool) :
    l₁.any P = l₂.any P := by
  rw [Bool.eq_iff_iff, List.any_eq_true, List.any_eq_true]
  exact ⟨fun ⟨x, hx, hp⟩ => ⟨x, h.mem_iff.1 hx, hp⟩, fun ⟨x, hx, hp⟩ => ⟨x, h.mem_iff.2 hx, hp⟩⟩

theorem apiApplyMask_sameC {m₁ m₂ k₁ k₂ : MapObj} (hc : m₁.SameC m₂) (hk : k₁.SameC k₂)
    (hv : m₁.BlankInvalid) (mb : Option Int) (ba : Option (List Nat)) :
    ExR (StSame m₁) (apiApplyMask m₁ k₁ mb ba) (apiApplyMask m₂ k₂ mb ba) := by
  have hS := hc.same
  rw [hc.eq_with_st] at hS ⊢
  generalize m₂.st = s₂ at hS ⊢
  rw [ApiScalar.apiApplyMask_eq, ApiScalar.apiApplyMask_eq]
  have hme : ApiScalar.maskError k₂ mb ba = ApiScalar.maskError k₁ mb ba := by
    rw [hk.eq_with_st]; rfl
  rw [hme]
  cases ApiScalar.maskError k₁ mb ba with
  | some e => exact ExR.err _
  | none =>
    simp only []
    obtain ⟨l₁, e1, p1⟩ := C02.validPixels_spec m₁.c m₁.vc m₁.st hS.1 hv
    obtain ⟨l₂, e2, p2⟩ := C02.validPixels_spec m₁.c m₁.vc s₂ hS.2.1 hv
    have e2' : validPixels ({ m₁ with st := s₂ } : MapObj).c ({ m₁ with st := s₂ } : MapObj).vc
        ({ m₁ with st := s₂ } : MapObj).st = some l₂ := e2
    rw [e1, e2']
    simp only []
    have hvs : C02.validSet m₁.c m₁.vc s₂ = C02.validSet m₁.c m₁.vc m₁.st :=
      (validSet_congr m₁.c m₁.vc m₁.st s₂ hS.2.2.1).symm
    rw [hvs] at p2
    have hperm : l₁.Perm l₂ := p1.trans p2.symm
    rw [hk.npix_eq, ← perm_any_eq hperm]
    split
    · exact ExR.err _
    · rename_i hany
      obtain ⟨r₁, a1, i1, b1, c1⟩ := C12.applyMask_spec m₁.c m₁.vc m₁.st (ApiScalar.maskBad k₁ mb ba) hS.1 hv
      obtain ⟨r₂, a2, i2, b2, c2⟩ := C12.applyMask_spec m₁.c m₁.vc s₂ (ApiScalar.maskBad k₂ mb ba) hS.2.1 hv
      have a2' : applyMask ({ m₁ with st := s₂ } : MapObj).c ({ m₁ with st := s₂ } : MapObj).vc
          ({ m₁ with st := s₂ } : MapObj).st (ApiScalar.maskBad k₂ mb ba) = some r₂ := a2
      rw [a1, a2']
      refine ⟨i1, i2, ?_, ?_⟩
      · intro p hp
        rw [b1 p hp, b2 p hp, ← hS.2.2.1 p hp]
        cases hval : m₁.vc.valid (abs m₁.c m₁.vc m₁.st p) with
        | false => rfl
        | true =>
          -- a valid pixel of the map is listed, hence inside the mask map
          have hmem : ((p : Nat) : Int) ∈ l₁ := by
            rw [p1.mem_iff]
            exact List.mem_map.2 ⟨p, List.mem_filter.2 ⟨List.mem_range.2 hp, hval⟩, rfl⟩
          have := (ApiRanges.not_any_iff.1 hany) _ hmem
          simp only [Bool.or_eq_false_iff, decide_eq_false_iff_not, Int.toNat_natCast] at this
          have hpk : p < k₁.npix := by omega
          have : ApiScalar.maskBad k₂ mb ba p = ApiScalar.maskBad k₁ mb ba p := by
            unfold ApiScalar.maskBad
            rw [hk.abs_eq hpk, hk.eq_with_st]
            rfl
          rw [this]
      · intro k hk'
        rw [c1 k, c2 k, hS.2.2.2 k hk']

theorem apiAstype_sameC {m₁ m₂ : MapObj} (hc : m₁.SameC m₂) (hv : m₁.BlankInvalid) (dst : DT)
    (sentinel : Option Val) :
    ExR MapObj.SameC (apiAstype m₁ dst sentinel) (apiAstype m₂ dst sentinel) := by
  have hS := hc.same
  rw [hc.eq_with_st] at hS ⊢
  generalize m₂.st = s₂ at hS ⊢
  rw [ApiScalar.apiAstype_eq, ApiScalar.apiAstype_eq]
  show ExR _ _ (match ApiScalar.astypeSrc m₁.kind with
      | none => .error .runtime
      | some src =>
        match checkSentinel dst sentinel with
        | .error e => .error e
        | .ok sent' =>
          if (s₂.sp.toList.filter m₁.vc.valid).any (fun x => (convCell src dst x).isNone) then
            .error .inexact
          else .ok { m₁ with kind := .plain dst, sent := sent', cache := none, st := (astypeMap m₁.vc s₂ (fun x => (convCell src dst x).getD x) sent') })
  cases ApiScalar.astypeSrc m₁.kind with
  | none => exact ExR.err _
  | some src =>
    simp only []
    cases checkSentinel dst sentinel with
    | error e => exact ExR.err _
    | ok sent' =>
      simp only []
      rw [← valid_any_same hS hv]
      split
      · exact ExR.err _
      · exact ⟨rfl, rfl, rfl, rfl, rfl, rfl,
          C10.same_astype m₁.c m₁.vc ⟨(Kind.plain dst).blank sent', (Kind.plain dst).valid sent'⟩
            _ _ _ hS hv⟩

set_option hygiene false in
/-- leaves of a storage-returning operation: result stored in place / bound under `r=`; operand
    stored with its cache reset; world unchanged -/
macro "st_leaf" : tactic => `(tactic| first
  | exact SimR.same h _
  | exact ⟨rfl, h.put_owning _ (hc.with_st hr none) hv⟩
  | exact ⟨rfl, h.bind _ (hc.with_st hr none)⟩
  | exact ⟨rfl, h.bind _ (by samec hc)⟩
  | exact ⟨rfl, h.put_owning _ (by samec hc) hv⟩)

theorem same_opSop (h : w₁.SameW w₂) (g₁ : w₁.Good) (g₂ : w₂.Good) (a : Args)
    (hnv : a.flag "inplace" = true → NoViewTarget w₁ a) : SimR (opSop w₁ a) (opSop w₂ a) := by
  unfold opSop
  refine sim_withMap h g₁ g₂ fun n m₁ m₂ hn e1 e2 hc ok1 ok2 => ?_
  simp only [hn, hc.kind_eq]
  split
  · exact SimR.same h _
  · rename_i k _
    cases hin : a.flag "inplace"
    · simp only [Bool.false_eq_true, if_false, Bool.false_and]
      rcases (apiScalarOp_sameC hc ok1.2.1.blankInvalid (a.getD "op" "add") k).cases with
        ⟨r₁, r₂, x1, x2, hr⟩ | ⟨e, x1, x2⟩
      · rw [x1, x2]; st_leaf
      · rw [x1, x2]; st_leaf
    · have hv : m₁.view = none := hnv hin m₁ (by rw [hn]; exact e1)
      simp only [if_true, Bool.true_and]
      rcases (apiScalarOp_sameC hc ok1.2.1.blankInvalid (a.getD "op" "add") k).cases with
        ⟨r₁, r₂, x1, x2, hr⟩ | ⟨e, x1, x2⟩
      · rw [x1, x2]; st_leaf
      · rw [x1, x2]
        walk
        all_goals st_leaf

theorem same_opMask (h : w₁.SameW w₂) (g₁ : w₁.Good) (g₂ : w₂.Good) (a : Args)
    (hnv : a.flag "inplace" = true → NoViewTarget w₁ a) : SimR (opMask w₁ a) (opMask w₂ a) := by
  unfold opMask
  refine sim_withMap h g₁ g₂ fun n m₁ m₂ hn e1 e2 hc ok1 ok2 => ?_
  simp only [hn]
  rcases h.get g₁ g₂ (a.getD "by" "") with ⟨q1, q2⟩ | ⟨k₁, k₂, q1, q2, hk⟩
  · rw [q1, q2]; exact SimR.same h _
  · rw [q1, q2]
    simp only []
    rcases (apiApplyMask_sameC hc hk ok1.2.1.blankInvalid ((a.get? "bits").bind String.toInt?)
      ((a.get? "bitarr").bind parseNats)).cases with ⟨r₁, r₂, x1, x2, hr⟩ | ⟨e, x1, x2⟩
    · rw [x1, x2]
      cases hin : a.flag "inplace"
      · simp only [Bool.false_eq_true, if_false]; st_leaf
      · have hv : m₁.view = none := hnv hin m₁ (by rw [hn]; exact e1)
        simp only [if_true]; st_leaf
    · rw [x1, x2]; st_leaf

theorem same_opAstype (h : w₁.SameW w₂) (g₁ : w₁.Good) (g₂ : w₂.Good) (a : Args) :
    SimR (opAstype w₁ a) (opAstype w₂ a) := by
  unfold opAstype
  refine sim_withMap h g₁ g₂ fun n m₁ m₂ hn e1 e2 hc ok1 ok2 => ?_
  split
  · rename_i dt sent _ _
    rcases (apiAstype_sameC hc ok1.2.1.blankInvalid dt sent).cases with
      ⟨r₁, r₂, x1, x2, hr⟩ | ⟨e, x1, x2⟩
    · rw [x1, x2]; exact ⟨rfl, h.bind _ hr⟩
    · rw [x1, x2]; exact SimR.same h _
  · exact SimR.same h _

end HS
