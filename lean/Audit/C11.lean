import HealSparse.Props.C11
#print axioms HS.C11.boolConst_spec
#print axioms HS.C11.invert_spec
#print axioms HS.C11.invert_involutive
#print axioms HS.C11.boolMapInPlace_spec
#print axioms HS.C11.boolMapCopy_spec
#print axioms HS.C11.or_comm_on_common
#print axioms HS.C11.de_morgan_on_common
#print axioms HS.C11.absorption_on_common
