/-
  degrade / upgrade on concrete map kinds: per-kind branches of `_degrade` and the numeric
  reductions of utils.reduce_array on exact values (dyadic in, rational out).
-/
import HealSparse.Model.Api
import HealSparse.Model.Resolution
namespace HS

def isPow2 (n : Nat) : Bool := n != 0 && 2 ^ n.log2 == n

/-- exact rational `n/d` as a cell value: dyadic when possible -/
def mkRat (n : Int) (d : Nat) : Val :=
  if d == 0 then .poison else
  let g := Nat.gcd n.natAbs d
  let n' := n / (g : Int)
  let d' := d / g
  if isPow2 d' then (let x := dyNorm n' d'.log2; .num x.1 x.2) else .rat n' d'

def dySum (l : List (Int × Nat)) : Int × Nat := l.foldl dyAdd (0, 0)

/-- insertion sort by value -/
def dySort (l : List (Int × Nat)) : List (Int × Nat) :=
  l.foldl (fun acc x =>
    let (lo, hi) := acc.span (fun y => dyLe y x)
    lo ++ x :: hi) []

/-- numpy nan-reductions over the valid children values `vals` (with weights `ws` for wmean).
    `none` = NaN (becomes the sentinel). -/
def reduceVals (red : String) (vals : List (Int × Nat)) (ws : List (Int × Nat))
    (wden : List (Int × Nat) := ws) : Option Val :=
  let k := vals.length
  match red with
  | "sum"  => some (.ofDy (dySum vals))
  | "prod" => some (.ofDy (vals.foldl dyMul (1, 0)))
  | "max"  => (match vals with | [] => none | v :: r => some (.ofDy (r.foldl dyMax v)))
  | "min"  => (match vals with | [] => none | v :: r => some (.ofDy (r.foldl dyMin v)))
  | "mean" =>
    if k == 0 then none else
    let s := dySum vals
    some (mkRat s.1 (2 ^ s.2 * k))
  | "median" =>
    if k == 0 then none else
    let srt := dySort vals
    if k % 2 == 1 then (srt[k / 2]?).map .ofDy
    else match srt[k / 2 - 1]?, srt[k / 2]? with
      | some a, some b => let s := dyAdd a b; some (.ofDy (dyNorm s.1 (s.2 + 1)))
      | _, _ => none
  | "std" =>
    if k == 0 then none else
    -- variance = (k*Σx² - (Σx)²) / k²
    let s1 := dySum vals
    let s2 := dySum (vals.map fun x => dyMul x x)
    let a := dyMul ((k : Int), 0) s2
    let b := dyMul s1 s1
    let num := dySub a b
    let v := mkRat num.1 (2 ^ num.2 * k * k)
    (match v with
     | .num 0 _ => some (.num 0 0)
     | .num n e => some (.sqrtRat n (2 ^ e))
     | .rat n d => some (.sqrtRat n d)
     | _ => some .poison)
  | "wmean" =>
    let sxw := dySum (List.zipWith dyMul vals ws)
    -- `np.nansum(weights)`: the weights of ALL children (the weight array holds no NaN)
    let sw := dySum wden
    if sw.1 == 0 then (if sxw.1 == 0 then none else some .poison)
    else
      -- (a/2^ea) / (b/2^eb) = a*2^eb / (b*2^ea)
      let sgn : Int := if sw.1 < 0 then -1 else 1
      some (mkRat (sgn * sxw.1 * 2 ^ sw.2) (sw.1.natAbs * 2 ^ sxw.2))
  | _ => some .poison

def floatReds : List String := ["mean", "median", "std", "max", "min", "sum", "prod", "wmean"]

/-- float dtype used by the float path of `_degrade` -/
def auxDT : DT → DT
  | .flt b => .flt b
  | _ => .flt 64

/-- every numeric cell (and record field) is exactly representable in float64 — required before
    any path that converts integers to floating point (otherwise the case is discarded) -/
def cellsFitF64 (sp : Array Val) : Bool :=
  sp.all fun v => match v with
    | .num n e => fitsFloat 64 (n, e) || decide (n.natAbs > 2 ^ 100)     -- the UNSEEN sentinels are exact
    | .recd l => l.all fun x => fitsFloat 64 x || decide (x.1.natAbs > 2 ^ 100)
    -- results of an earlier mean / std (exact rationals, roots) or an unpredictable value: the exact
    -- model does not reduce them again (a chained degrade is discarded, not mispredicted)
    | .rat _ _ => false
    | .sqrtRat _ _ => false
    | .poison => false
    | _ => true

/-- `_degrade(nside_out, reduction, weights)` for `nside_coverage ≤ nside_out < nside_sparse` -/
def apiDegradeCore (m : MapObj) (ordOut : Nat) (red : String) (w : Option MapObj) : Except Err MapObj := do
  let g := 2 * (m.spord - ordOut)
  -- weights checks
  let wv : Option (Array Val) ← match w with
    | none => if red == "wmean" then throw .value else pure none
    | some wm =>
      if red != "wmean" then pure none else
        match wm.kind with
        | .plain (.flt _) =>
          if wm.spord != m.spord || wm.covord != m.covord then throw .value
          match validPixels wm.c wm.vc wm.st, validPixels m.c m.vc m.st with
          | some a, some b =>
            if a.mergeSort (· ≤ ·) != b.mergeSort (· ≤ ·) then throw .value
            match gatherWeights m.c m.vc m.st wm.abs (Val.num 0 0) with
            | some arr => pure (some arr)
            | none => throw .index
          | _, _ => throw .index
        | _ => throw .value
  let wOf (x : Val) : Int × Nat := x.numD
  if !(red == "and" || red == "or") && !cellsFitF64 m.st.sp then throw .inexact
  match m.kind with
  | .packed => throw .notImpl
  | .wide n =>
    if red != "and" && red != "or" then throw .notImpl
    let f : List Val → Val := fun cells =>
      let rows := cells.map fun v => match v with | .bytes b => b | _ => List.replicate n 0
      match rows with
      | [] => .bytes (List.replicate n 0)
      | r :: rest => .bytes (rest.foldl (zipBytes (if red == "and" then (· &&& ·) else (· ||| ·))) r)
    pure { m with spord := ordOut, cache := none,
                  st := degradeMap m.c m.vc m.st g f (m.kind.blank m.sent) }
  | .recd fs pr =>
    if !floatReds.contains red then throw .value
    let fsOut := fs.map auxDT
    let kindOut := Kind.recd fsOut pr
    let sentOut := (fs.getD pr (.flt 64) |> auxDT).defaultSentinel
    let blankOut := kindOut.blank sentOut
    let f : List (Val × Val) → Val := fun cw =>
      let validCW := cw.filter fun p => m.vc.valid p.1
      let ws := validCW.map fun p => wOf p.2
      let fields := (List.range fs.length).map fun i =>
        let vals := validCW.map fun p => match p.1 with | .recd l => l.getD i (0, 0) | _ => (0, 0)
        match reduceVals red vals ws (cw.map fun p => wOf p.2) with
        | none => some ((fsOut.getD i (.flt 64)).defaultSentinel.numD)
        | some (.num n e) => if (Val.num n e).fits (fsOut.getD i (.flt 64)) then some (n, e) else none
        | some _ => none
      if fields.all Option.isSome then .recd (fields.map fun o => o.getD (0, 0)) else .poison
    let wvA := wv.getD #[]
    pure { m with kind := kindOut, sent := sentOut, spord := ordOut, cache := none,
                  st := degradeMapW m.c m.vc m.st g wvA (Val.num 0 0) f blankOut }
  | .plain dt =>
    if dt.isInt && (red == "and" || red == "or") then
      let f : List Val → Val := fun cells =>
        match cells with
        | [] => m.sent
        | r :: rest => rest.foldl (if red == "and" then Val.and dt else Val.or dt) r
      pure { m with spord := ordOut, cache := none, st := degradeMap m.c m.vc m.st g f m.sent }
    else
      if !floatReds.contains red then throw .value
      -- numpy promotion of `x * weights`: a float64 weight map makes the result float64
      let wIs64 := red == "wmean" && (match w with
        | some wm => (match wm.kind with | .plain (.flt 64) => true | _ => false)
        | none => false)
      let dtOut := if wIs64 then .flt 64 else auxDT dt
      let sentOut := dtOut.defaultSentinel
      let f : List (Val × Val) → Val := fun cw =>
        let validCW := cw.filter fun p => m.vc.valid p.1
        match reduceVals red (validCW.map fun p => p.1.numD) (validCW.map fun p => wOf p.2)
            (cw.map fun p => wOf p.2) with
        | none => sentOut
        | some (.num n e) => if (Val.num n e).fits dtOut then .num n e else .poison
        | some v => v
      let wvA := wv.getD #[]
      pure { m with kind := .plain dtOut, sent := sentOut, spord := ordOut, cache := none,
                    st := degradeMapW m.c m.vc m.st g wvA (Val.num 0 0) f sentOut }

/-- re-house a map with a coarser coverage resolution (`make_empty_like(self, nside_coverage=…)`
    then `out[valid_pixels] = self[valid_pixels]`) -/
def rehouse (m : MapObj) (covordNew : Nat) : Except Err MapObj := do
  let e ← apiMakeEmpty covordNew m.spord m.kind (some m.sent) []
  match validPixels m.c m.vc m.st with
  | none => throw .index
  | some vp =>
    let pix := vp.map Int.toNat
    -- `__setitem__` with an index array → update_values_pix(replace)
    apiUpdate e "replace" pix (some (pix.map m.abs)) false

/-- `degrade(nside_out, reduction, weights)` -/
def apiDegrade (m : MapObj) (ordOut : Nat) (red : String) (w : Option MapObj) : Except Err MapObj := do
  if ordOut > m.spord then throw .value
  if m.kind == .packed then throw .notImpl
  if ordOut < m.covord then
    let m' ← rehouse m ordOut
    let w' ← match w with
      | none => pure none
      | some wm => (rehouse wm ordOut).map some
    apiDegradeCore m' ordOut red w'
  else if ordOut == m.spord then pure { m with cache := none }
  else apiDegradeCore m ordOut red w

/-- `upgrade(nside_out)` -/
def apiUpgrade (m : MapObj) (ordOut : Nat) : Except Err MapObj := do
  if m.spord ≥ ordOut then throw .value
  match m.kind with
  | .wide _ => throw .notImpl
  | .packed => throw .notImpl
  | _ => pure ()
  pure { m with spord := ordOut, cache := none,
                st := upgradeMap m.c m.vc m.st (2 * (ordOut - m.spord)) }

end HS
