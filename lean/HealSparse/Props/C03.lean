/-
  C03 — writing a map and reading it back returns the same map (full, partial, coverage).
  Property theorems only (helpers in HealSparse/Lemmas).  Proved: the serialisation logic
  (which blocks a partial read copies, how the index is rebuilt, which requests are
  rejected).  Trusted: astropy's FITS encoding of headers and arrays.  That a map read back
  can be queried, updated and extended like the original follows from C10 (`Same`).
-/
import HealSparse.Lemmas.Core
import HealSparse.Lemmas.Coverage
import HealSparse.Lemmas.Valid
import HealSparse.Lemmas.FitsIO
import HealSparse.Model.FitsIO
import HealSparse.Props.C04
import HealSparse.Props.C10
import HealSparse.Lemmas.ApiRoundTrip
import HealSparse.Lemmas.TypedWorld
namespace HS
namespace C03

variable {V : Type} [DecidableEq V]

/-- full read of a written file is the identical representation -/
theorem read_write_id (s : State V) : readFull (writeFits s) = s := by
  cases s; rfl

/-- reading the coverage alone yields the map's coverage mask -/
theorem coverage_read (c : Cfg) (s : State V) :
    readCoverage c (writeFits s) = (List.range c.ncov).map (covered c s) := by
  cases s; rfl

/-- `sortNat` sorts: a permutation, ascending -/
theorem sortNat_perm (l : List Nat) : (sortNat l).Perm l := by
  exact sortNat_perm' l

/-- **partial read**: for any request list (unsorted, with uncovered or out-of-range
    entries), if it is duplicate-free and names at least one covered pixel, the read
    succeeds and yields a well-formed map that is exactly the restriction of the map to the
    requested covered coverage pixels: same values there, sentinel elsewhere, coverage =
    requested ∩ covered. -/
theorem read_partial_spec (c : Cfg) (vc : VCfg V) (s : State V) (pixels : List Nat)
    (h : Inv c vc s) (hnd : pixels.Nodup)
    (hsome : ∃ k ∈ pixels, k < c.ncov ∧ covered c s k = true) :
    ∃ r, readPartial c vc (writeFits s) pixels = some r ∧ Inv c vc r ∧
      (∀ p, p < c.npix → abs c vc r p =
          if decide ((p >>> c.shift) ∈ pixels) && covered c s (p >>> c.shift) then abs c vc s p
          else vc.sentinel) ∧
      (∀ k, k < c.ncov → covered c r k = (decide (k ∈ pixels) && covered c s k)) := by
  have hne : ¬ pixels.eraseDups.length < pixels.length := by
    rw [eraseDups_length_lt_iff]; exact fun hn => hn hnd
  have hpe : ¬ (partialPixels c (writeFits s) pixels).isEmpty = true := by
    rw [partialPixels_isEmpty_iff]; exact fun hn => hn hsome
  have hmem := mem_partialPixels c s pixels
  have hpnd := nodup_partialPixels c s pixels hnd
  have hcov := partialState_covered c vc s _ hpnd
  refine ⟨partialState c vc s (partialPixels c (writeFits s) pixels), ?_, ?_, ?_, ?_⟩
  · rw [readPartial_writeFits, if_neg hne, if_neg hpe]
  · exact inv_partialState c vc s _ h hpnd (fun k hk => ((hmem k).1 hk).2.1)
  · intro p hp
    have hk := covpix_lt c p hp
    by_cases hm : (p >>> c.shift) ∈ partialPixels c (writeFits s) pixels
    · have hm' := (hmem _).1 hm
      rw [partialState_abs_mem c vc s _ hpnd p hp hm hm'.2.2]
      simp [hm'.1, hm'.2.2]
    · have hc : covered c (partialState c vc s (partialPixels c (writeFits s) pixels))
          (p >>> c.shift) = false := by
        rw [hcov _ hk]; simp [hm]
      rw [(inv_partialState c vc s _ h hpnd (fun k hk => ((hmem k).1 hk).2.1)).abs_uncovered hp hc]
      rw [if_neg]
      intro hcond
      simp only [Bool.and_eq_true, decide_eq_true_eq] at hcond
      exact hm ((hmem _).2 ⟨hcond.1, hk, hcond.2⟩)
  · intro k hk
    rw [hcov k hk, Bool.eq_iff_iff]
    simp only [decide_eq_true_eq, Bool.and_eq_true, hmem k]
    exact ⟨fun ⟨a, _, b⟩ => ⟨a, b⟩, fun ⟨a, b⟩ => ⟨a, hk, b⟩⟩

/-- the read is rejected exactly when the request has duplicates or names no covered pixel -/
theorem read_partial_rejects_iff (c : Cfg) (vc : VCfg V) (s : State V) (pixels : List Nat)
    (h : Inv c vc s) :
    readPartial c vc (writeFits s) pixels = none ↔
      (¬ pixels.Nodup ∨ ¬ ∃ k ∈ pixels, k < c.ncov ∧ covered c s k = true) := by
  have _ := h  -- the layout hypothesis is not needed for the rejection criterion
  rw [readPartial_writeFits, ← eraseDups_length_lt_iff, ← partialPixels_isEmpty_iff]
  by_cases h1 : pixels.eraseDups.length < pixels.length
  · simp [h1]
  · rw [if_neg h1]
    by_cases h2 : (partialPixels c (writeFits s) pixels).isEmpty = true
    · simp [h2]
    · simp [h1, h2]

/-- the map read back (fully) is interchangeable with the original for every continuation -/
theorem read_back_same (c : Cfg) (vc : VCfg V) (s : State V) (h : Inv c vc s) :
    C10.Same c vc (readFull (writeFits s)) s := by
  rw [read_write_id]
  exact ⟨h, h, fun _ _ => rfl, fun _ _ => rfl⟩

/-- non-vacuity: partial read of the out-of-order example, requesting [2, 1, 7] -/
example : (readPartial (V := Int) ⟨3, 1⟩ ⟨-1, fun x => x != -1⟩
    (writeFits ⟨#[4, -2, -2], #[-1, -1, 7, -1, -1, 9]⟩) [2, 1, 7]).map (·.sp) = some #[-1, -1, 7, -1] := by
  decide +kernel


/-! ## API level: `apiRead (apiWrite m md) …`

The theorems above are about the generic serialisation core.  The ones below are about the API
functions themselves (`apiWrite` = `_write_map_fits`, `apiRead` = `HealSparseMap.read`): header
keywords, kind / dtype / sentinel recovery, error behaviour.  Helpers: Lemmas/ApiRoundTrip.lean.

FINDING (model level).  "For every `m.Ok`, reading back what was written returns `m`" is FALSE:
`MapObj.Ok` does not say that a numeric plain map has one of numpy's dtypes and a numeric
sentinel, and the reader decides the kind from the header alone.  `api_read_write_full_false`
is the counterexample (an int32 map object with sentinel `False` comes back as a boolean map;
`RoundTrip.oddDtMap`, an `int12` map, comes back as int8; `RoundTrip.hugeDtMap`, `int128`, is
refused).  No protocol constructor builds such objects — PROVED: `World.Typed`
(Lemmas/TypedWorld.lean) is a global inductive invariant, so `reachable_read_write_full` below is
unconditional — hence this is a property of unreachable objects, not a defect of the library.  The exact condition is `MapObj.FileTyped`
(`api_read_write_full_iff`); under `SentOK` alone (hence for every `m.Ok`, hence in every
reachable world) the CONTENT still round-trips (`api_read_write_full_content`,
`reachable_write_read_content`). -/

open WFFiles

/-- the request names at least one covered coverage pixel of the map -/
def Requested (m : MapObj) (px : List Nat) : Prop :=
  ∃ k ∈ px, k < m.c.ncov ∧ covered m.c m.st k = true

instance (m : MapObj) (px : List Nat) : Decidable (Requested m px) := by
  unfold Requested; infer_instance

/-- **(a) full read**: kind, sentinel, orders and both arrays are recovered exactly, for every kind
    (plain of every dtype incl. bool, bit-packed, wide mask, record incl. boolean primary) and
    every sentinel.  PARTIAL: the hypothesis `FileTyped` is needed (`api_read_write_full_false`)
    and is the weakest possible (`api_read_write_full_iff`).  `WF` is not needed. -/
theorem api_read_write_full_partial (m : MapObj) (md : List (String × String)) (ht : m.FileTyped) :
    apiRead (apiWrite m md) none = .ok { m with cache := none, view := none } :=
  apiRead_apiWrite_none m md ht

/-- the full round trip holds EXACTLY for the `FileTyped` map objects -/
theorem api_read_write_full_iff (m : MapObj) (md : List (String × String)) :
    apiRead (apiWrite m md) none = .ok { m with cache := none, view := none } ↔ m.FileTyped :=
  apiRead_apiWrite_none_iff m md

/-- in terms of the predicates of the invariant campaign: `Ok` + the numeric-plain clause; the
    map read back is `Ok` again -/
theorem api_read_write_full_ok (m : MapObj) (md : List (String × String)) (h : m.Ok)
    (hnum : ∀ dt, m.kind = .plain dt → dt ≠ .bool → dt.real = true ∧ m.sent.isBoolV = false) :
    apiRead (apiWrite m md) none = .ok { m with cache := none, view := none } ∧
      ({ m with cache := none, view := none } : MapObj).Ok :=
  ⟨apiRead_apiWrite_none m md ((m.fileTyped_iff h.2.1 h.2.2).2 hnum), h⟩

/-- **content round trip for every sentinel-compatible map** (every `m.Ok`): whatever the full
    read returns is the map up to the kind label, with the same blank cell and validity test,
    hence the same dense view -/
theorem api_read_write_full_content (m : MapObj) (md : List (String × String)) (hs : m.SentOK)
    {m' : MapObj} (h : apiRead (apiWrite m md) none = .ok m') :
    m' = { m with kind := m'.kind, cache := none, view := none } ∧
      fileKind (apiWrite m md) = some m'.kind ∧ m'.c = m.c ∧ m'.vc = m.vc ∧ ∀ p, m'.abs p = m.abs p := by
  obtain ⟨h1, h2, h3, h4, h5, h6, h7, h8, h9, _⟩ := apiRead_apiWrite_content hs h
  refine ⟨?_, h8, h6, h7, ?_⟩
  · have := h9 rfl
    cases m'; cases m
    simp only at h1 h2 h3 h4 h5 this
    subst h1 h2 h3 h4 h5 this
    rfl
  · intro p
    unfold MapObj.abs
    rw [h6, h7, h9 rfl]

/-- **the unrestricted statement is false** -/
theorem api_read_write_full_false :
    ∃ m : MapObj, m.Ok ∧ apiRead (apiWrite m []) none ≠ .ok { m with cache := none, view := none } :=
  ⟨RoundTrip.boolSentMap, RoundTrip.boolSentMap_ok,
    fun h => RoundTrip.boolSentMap_not_typed ((api_read_write_full_iff _ _).1 h)⟩


/-! ### (b) partial read -/

/-- **rejection, any sentinel-compatible map**: the read raises (always `RuntimeError`) exactly
    when the header does not determine a kind, or the request has duplicates, or it names no
    covered coverage pixel (out-of-range entries are ignored, not refused) -/
theorem api_read_pixels_error_iff (m : MapObj) (md : List (String × String)) (px : List Nat)
    (hs : m.SentOK) :
    (∃ e, apiRead (apiWrite m md) (some px) = .error e) ↔
      (fileKind (apiWrite m md) = none ∨ ¬ px.Nodup ∨ ¬ Requested m px) := by
  cases hk : fileKind (apiWrite m md) with
  | none =>
    rw [apiRead_some_eq, hk]
    simp
  | some k =>
    rw [apiRead_apiWrite_some_eq m md px hs hk]
    have hrej := (readPartial_writeFits m.c m.vc m.st px)
    have hiff : readPartial m.c m.vc (writeFits m.st) px = none ↔ (¬ px.Nodup ∨ ¬ Requested m px) := by
      unfold Requested
      rw [readPartial_writeFits, ← eraseDups_length_lt_iff, ← partialPixels_isEmpty_iff]
      by_cases h1 : px.eraseDups.length < px.length
      · simp [h1]
      · rw [if_neg h1]
        by_cases h2 : (partialPixels m.c (writeFits m.st) px).isEmpty = true
        · simp [h2]
        · simp [h1, h2]
    cases hr : readPartial m.c m.vc (writeFits m.st) px with
    | none =>
      have := hiff.1 hr
      simp [this]
    | some s =>
      have : ¬ (¬ px.Nodup ∨ ¬ Requested m px) := fun h => by
        have := hiff.2 h
        rw [hr] at this
        cases this
      simp only [reduceCtorEq, false_or]
      constructor
      · rintro ⟨e, he⟩; cases he
      · intro h; exact absurd h this

/-- … and the error is always `RuntimeError` -/
theorem api_read_error_kind {f : FileObj} {px : Option (List Nat)} {e : Err}
    (h : apiRead f px = .error e) : e = .runtime := apiRead_error_runtime h

/-- **rejection, typed map**: exactly duplicates or no requested pixel covered -/
theorem api_read_pixels_error_iff_typed (m : MapObj) (md : List (String × String)) (px : List Nat)
    (ht : m.FileTyped) :
    apiRead (apiWrite m md) (some px) = .error .runtime ↔ (¬ px.Nodup ∨ ¬ Requested m px) := by
  have := api_read_pixels_error_iff m md px ht.sentOK
  rw [(fileKind_apiWrite_iff m md).2 ht] at this
  simp only [reduceCtorEq, false_or] at this
  rw [← this]
  constructor
  · intro h; exact ⟨_, h⟩
  · rintro ⟨e, he⟩; rw [he, apiRead_error_runtime he]

/-- **partial read, any well-formed sentinel-compatible map** whose header determines a kind `k`:
    a duplicate-free request naming a covered pixel succeeds; the result is the map with its
    storage replaced (and kind label `k`), well formed, and exactly the restriction of the map to
    the requested covered coverage pixels -/
theorem api_read_pixels_spec (m : MapObj) (md : List (String × String)) (px : List Nat)
    (hw : m.WF) (hs : m.SentOK) {k : Kind} (hk : fileKind (apiWrite m md) = some k)
    (hnd : px.Nodup) (hreq : Requested m px) :
    ∃ m', apiRead (apiWrite m md) (some px) = .ok m' ∧
      m' = { m with kind := k, st := m'.st, cache := none, view := none } ∧
      m'.c = m.c ∧ m'.vc = m.vc ∧ m'.WF ∧ m'.SentOK ∧
      (∀ p, p < m.npix → m'.abs p =
          if decide ((p >>> m.c.shift) ∈ px) && covered m.c m.st (p >>> m.c.shift) then m.abs p
          else m.kind.blank m.sent) ∧
      (∀ j, j < m.c.ncov → covered m'.c m'.st j = (decide (j ∈ px) && covered m.c m.st j)) := by
  obtain ⟨r, hr, hinv, habs, hcov⟩ := read_partial_spec m.c m.vc m.st px hw.2 hnd hreq
  have hread := apiRead_apiWrite_some_eq m md px hs hk
  rw [hr] at hread
  have hvc := vc_of_fileKind_apiWrite hs hk
  have hvc' : ({ m with kind := k, st := r, cache := none, view := none } : MapObj).vc = m.vc := hvc
  refine ⟨_, hread, rfl, rfl, hvc', ?_, ?_, ?_, ?_⟩
  · refine ⟨hw.1, ?_⟩
    rw [hvc']
    exact hinv
  · exact SentOK.apiRead hread
  · intro p hp
    unfold MapObj.abs
    rw [hvc']
    exact habs p hp
  · intro j hj
    exact hcov j hj

/-- **partial read, typed map**: additionally the kind is the map's, and `Ok` is kept -/
theorem api_read_pixels_spec_typed (m : MapObj) (md : List (String × String)) (px : List Nat)
    (hw : m.WF) (ht : m.FileTyped) (hnd : px.Nodup) (hreq : Requested m px) :
    ∃ m', apiRead (apiWrite m md) (some px) = .ok m' ∧
      m' = { m with st := m'.st, cache := none, view := none } ∧ m'.WF ∧ m'.FileTyped ∧
      (m.KindOk → m'.Ok) ∧
      (∀ p, p < m.npix → m'.abs p =
          if decide ((p >>> m.c.shift) ∈ px) && covered m.c m.st (p >>> m.c.shift) then m.abs p
          else m.kind.blank m.sent) ∧
      (∀ j, j < m.c.ncov → covered m'.c m'.st j = (decide (j ∈ px) && covered m.c m.st j)) := by
  obtain ⟨m', hr, he, _, _, hwf, hso, habs, hcov⟩ :=
    api_read_pixels_spec m md px hw ht.sentOK ((fileKind_apiWrite_iff m md).2 ht) hnd hreq
  have he' : m' = { m with st := m'.st, cache := none, view := none } := by
    rw [he]
  refine ⟨m', hr, he', hwf, FileTyped.apiRead_apiWrite ht hr, ?_, habs, hcov⟩
  intro hko
  refine ⟨hwf, ?_, hso⟩
  rw [he']
  exact hko


/-! ### (c) continuation: the map read back is interchangeable with the (restricted) original -/

/-- full read: the state read back is content-equal to (in fact identical with) the original -/
theorem api_read_full_same (m : MapObj) (md : List (String × String)) (hw : m.WF) (hs : m.SentOK)
    {m' : MapObj} (h : apiRead (apiWrite m md) none = .ok m') :
    m'.c = m.c ∧ m'.vc = m.vc ∧ C10.Same m.c m.vc m'.st m.st := by
  obtain ⟨_, _, _, _, _, h6, h7, _, h9, _⟩ := apiRead_apiWrite_content hs h
  refine ⟨h6, h7, ?_⟩
  rw [h9 rfl]
  exact ⟨hw.2, hw.2, fun _ _ => rfl, fun _ _ => rfl⟩

/-- partial read: the state read back is content-equal to EVERY well-formed representation `s` of
    the restriction of the map to the requested covered coverage pixels (whatever its block order
    or allocation history) -/
theorem api_read_pixels_same (m : MapObj) (md : List (String × String)) (px : List Nat)
    (hw : m.WF) (hs : m.SentOK) {m' : MapObj} (h : apiRead (apiWrite m md) (some px) = .ok m')
    (s : State Val) (hinv : Inv m.c m.vc s)
    (habs : ∀ p, p < m.npix → abs m.c m.vc s p =
        if decide ((p >>> m.c.shift) ∈ px) && covered m.c m.st (p >>> m.c.shift) then m.abs p
        else m.kind.blank m.sent)
    (hcov : ∀ j, j < m.c.ncov → covered m.c s j = (decide (j ∈ px) && covered m.c m.st j)) :
    m'.c = m.c ∧ m'.vc = m.vc ∧ C10.Same m.c m.vc m'.st s := by
  have hne : ¬ ∃ e, apiRead (apiWrite m md) (some px) = .error e := by
    rintro ⟨e, he⟩; rw [h] at he; cases he
  rw [api_read_pixels_error_iff m md px hs] at hne
  have hk : ∃ k, fileKind (apiWrite m md) = some k := by
    cases hk : fileKind (apiWrite m md) with
    | none => exact absurd (Or.inl hk) hne
    | some k => exact ⟨k, rfl⟩
  obtain ⟨k, hk⟩ := hk
  have hnd : px.Nodup := Classical.not_not.1 fun hn => hne (Or.inr (Or.inl hn))
  have hreq : Requested m px := Classical.not_not.1 fun hn => hne (Or.inr (Or.inr hn))
  obtain ⟨m'', hr, _, hc, hvc, hwf, _, habs', hcov'⟩ := api_read_pixels_spec m md px hw hs hk hnd hreq
  rw [h] at hr
  cases hr
  refine ⟨hc, hvc, ?_, hinv, ?_, ?_⟩
  · have := hwf.2
    rw [hc, hvc] at this
    exact this
  · intro p hp
    have := habs' p hp
    unfold MapObj.abs at this
    rw [hc, hvc] at this
    rw [this, habs p hp]
    rfl
  · intro j hj
    have := hcov' j hj
    rw [hc] at this
    rw [this, hcov j hj]

/-- hence every later history of updates (any operations, duplicates, either append mode) keeps
    the two interchangeable (`C10.history_interchangeable`), and all later queries agree
    (`C10.same_queries`) -/
theorem api_read_pixels_continuation (m : MapObj) (md : List (String × String)) (px : List Nat)
    (hw : m.WF) (hs : m.SentOK) {m' : MapObj} (h : apiRead (apiWrite m md) (some px) = .ok m')
    (s : State Val) (hinv : Inv m.c m.vc s)
    (habs : ∀ p, p < m.npix → abs m.c m.vc s p =
        if decide ((p >>> m.c.shift) ∈ px) && covered m.c m.st (p >>> m.c.shift) then m.abs p
        else m.kind.blank m.sent)
    (hcov : ∀ j, j < m.c.ncov → covered m.c s j = (decide (j ∈ px) && covered m.c m.st j))
    (hist : List (C01.UpdOp Val)) (hr : ∀ o ∈ hist, o.inRange m.c) :
    C10.Same m.c m.vc (C01.runHist m.c m.vc m'.st hist) (C01.runHist m.c m.vc s hist) :=
  C10.history_interchangeable m.c m.vc _ _
    (api_read_pixels_same m md px hw hs h s hinv habs hcov).2.2 hist hr

/-- the order of the request does not matter: reading with a permuted request gives a
    content-equal map (or is refused alike) -/
theorem api_read_pixels_perm (m : MapObj) (md : List (String × String)) (px px' : List Nat)
    (hw : m.WF) (hs : m.SentOK) (hp : px.Perm px') {m' : MapObj}
    (h : apiRead (apiWrite m md) (some px) = .ok m') :
    ∃ m'', apiRead (apiWrite m md) (some px') = .ok m'' ∧ m''.kind = m'.kind ∧
      C10.Same m.c m.vc m'.st m''.st := by
  have hne : ¬ ∃ e, apiRead (apiWrite m md) (some px) = .error e := by
    rintro ⟨e, he⟩; rw [h] at he; cases he
  rw [api_read_pixels_error_iff m md px hs] at hne
  have hk : ∃ k, fileKind (apiWrite m md) = some k := by
    cases hk : fileKind (apiWrite m md) with
    | none => exact absurd (Or.inl hk) hne
    | some k => exact ⟨k, rfl⟩
  obtain ⟨k, hk⟩ := hk
  have hnd : px.Nodup := Classical.not_not.1 fun hn => hne (Or.inr (Or.inl hn))
  have hreq : Requested m px := Classical.not_not.1 fun hn => hne (Or.inr (Or.inr hn))
  have hnd' : px'.Nodup := hp.nodup_iff.1 hnd
  have hreq' : Requested m px' := by
    obtain ⟨j, hj, h2⟩ := hreq
    exact ⟨j, hp.mem_iff.1 hj, h2⟩
  obtain ⟨m1, hr1, he1, _⟩ := api_read_pixels_spec m md px hw hs hk hnd hreq
  obtain ⟨m'', hr, he, hc, hvc, hwf, _, habs', hcov'⟩ := api_read_pixels_spec m md px' hw hs hk hnd' hreq'
  rw [h] at hr1; cases hr1
  refine ⟨m'', hr, by rw [he, he1], ?_⟩
  refine (api_read_pixels_same m md px hw hs h m''.st ?_ ?_ ?_).2.2
  · have := hwf.2
    rw [hc, hvc] at this
    exact this
  · intro p hpp
    have := habs' p hpp
    unfold MapObj.abs at this
    rw [hc, hvc] at this
    rw [this]
    simp only [hp.mem_iff]
    rfl
  · intro j hj
    have := hcov' j hj
    rw [hc] at this
    rw [this]
    simp only [hp.mem_iff]

/-- **`read(file, pixels=[k])` is `get_single_covpix_map(k)`**: for a covered coverage pixel the
    two states are identical, not merely content-equal -/
theorem api_read_single_covpix (m : MapObj) (md : List (String × String)) (k : Nat)
    (ht : m.FileTyped) (hk : k < m.c.ncov) (hc : covered m.c m.st k = true) :
    apiRead (apiWrite m md) (some [k]) =
      .ok { m with st := singleCovpixMap m.c m.vc m.st k, cache := none, view := none } := by
  rw [apiRead_apiWrite_some_eq m md [k] ht.sentOK ((fileKind_apiWrite_iff m md).2 ht),
    readPartial_singleton m.c m.vc m.st k hk hc]


/-! ### (c) at the API level: later `update_values_pix` calls cannot tell the two apart -/

/-- a request that names every covered coverage pixel reads back a map content-equal to the
    original (the blocks come back sorted by coverage pixel, so the arrays may differ) -/
theorem api_read_pixels_all_same (m : MapObj) (md : List (String × String)) (px : List Nat)
    (hw : m.WF) (hs : m.SentOK) {m' : MapObj} (h : apiRead (apiWrite m md) (some px) = .ok m')
    (hall : ∀ k, k < m.c.ncov → covered m.c m.st k = true → k ∈ px) :
    m'.c = m.c ∧ m'.vc = m.vc ∧ C10.Same m.c m.vc m'.st m.st := by
  refine api_read_pixels_same m md px hw hs h m.st hw.2 ?_ ?_
  · intro p hp
    cases hc : covered m.c m.st (p >>> m.c.shift) with
    | true =>
      have := hall _ (covpix_lt m.c p hp) hc
      simp only [this, decide_true, Bool.and_self, if_true]
      rfl
    | false =>
      simp only [Bool.and_false, Bool.false_eq_true, if_false]
      exact hw.2.abs_uncovered hp hc
  · intro j hj
    cases hc : covered m.c m.st j with
    | true => simp [hall j hj hc]
    | false => simp

/-- **continuation, API level**: the map read back (partial read) and ANY map object `m₂` of the
    same configuration / kind / sentinel / view flag holding the restriction of the original go
    through every list of `update_values_pix` calls alike — the same error at the same call, or
    content-equal results (`UpdRel`, Lemmas/ApiRoundTrip.lean: argument validation, the
    view test and the float exactness test included) -/
theorem api_read_pixels_updates (m : MapObj) (md : List (String × String)) (px : List Nat)
    (hw : m.WF) (hs : m.SentOK) {m' : MapObj} (h : apiRead (apiWrite m md) (some px) = .ok m')
    (m₂ : MapObj) (hm₂ : m₂.Same m') (hinv : Inv m.c m.vc m₂.st)
    (habs : ∀ p, p < m.npix → abs m.c m.vc m₂.st p =
        if decide ((p >>> m.c.shift) ∈ px) && covered m.c m.st (p >>> m.c.shift) then m.abs p
        else m.kind.blank m.sent)
    (hcov : ∀ j, j < m.c.ncov → covered m.c m₂.st j = (decide (j ∈ px) && covered m.c m.st j))
    (calls : List UpdCall) :
    UpdRel m' (runUpdates m' calls) (runUpdates m₂ calls) := by
  obtain ⟨hc, hvc, hS⟩ := api_read_pixels_same m md px hw hs h m₂.st hinv habs hcov
  rw [← hc, ← hvc] at hS
  exact runUpdates_same calls m' m₂ hm₂ hS

/-- **continuation after a full read of a typed map**: the map read back and the original (an
    owning object) go through every list of `update_values_pix` calls alike -/
theorem api_read_full_updates (m : MapObj) (md : List (String × String)) (hw : m.WF)
    (ht : m.FileTyped) (hv : m.view = none) (calls : List UpdCall) :
    ∃ m', apiRead (apiWrite m md) none = .ok m' ∧
      UpdRel m (runUpdates m calls) (runUpdates m' calls) := by
  refine ⟨_, api_read_write_full_partial m md ht, ?_⟩
  refine runUpdates_same calls m { m with cache := none, view := none }
    ⟨rfl, rfl, rfl, rfl, by rw [hv]⟩ ?_
  exact ⟨hw.2, hw.2, fun _ _ => rfl, fun _ _ => rfl⟩

/-- the single call, for reference: `apiUpdate` on content-equal map objects -/
theorem api_update_same (m₁ m₂ : MapObj) (hm : m₂.Same m₁) (hS : C10.Same m₁.c m₁.vc m₁.st m₂.st)
    (op : String) (pix : List Nat) (vals : Option (List Val)) (single : Bool)
    (rawUnique : Option Bool) :
    UpdRel m₁ (apiUpdate m₁ op pix vals single rawUnique)
      (apiUpdate m₂ op pix vals single rawUnique) :=
  apiUpdate_same m₁ m₂ hm hS op pix vals single rawUnique

/-! ### (d) user metadata, at the World level

`apiWrite m md` stores `md` verbatim in the file (`apiWrite_mdata`); `apiRead` does not look at
it.  The driver keeps user metadata per map name: `write` passes the source name's metadata,
`read` makes the file's metadata the metadata of the result name. -/

/-- the file carries exactly the metadata handed to the writer -/
theorem api_write_mdata (m : MapObj) (md : List (String × String)) : (apiWrite m md).mdata = md := rfl

/-- **write → read in any world**: if the reader accepts the file (full or partial read), both
    steps answer `ok`, the result name is bound to the map read, and the source map's user
    metadata has travelled to the result name -/
theorem world_write_read (w : World) (aW aR : Args) (n : String) (rest : List String)
    (m m' : MapObj) (px : Option (List Nat))
    (hpos : aW.pos = n :: rest) (hget : w.get? n = some m)
    (hf : aR.getD "f" "f" = aW.getD "f" "f")
    (hpx : (aR.get? "pixels" = none ∧ px = none) ∨
        ∃ t l, aR.get? "pixels" = some t ∧ parseNats t = some l ∧ px = some l)
    (hr : apiRead (apiWrite m (w.metaOf n)) px = .ok m') :
    (stepArgs w "write" aW).2 = "ok" ∧
    (stepArgs (stepArgs w "write" aW).1 "read" aR).2 = "ok" ∧
    (stepArgs (stepArgs w "write" aW).1 "read" aR).1.get? (aR.getD "r" "tmp")
      = some { m' with view := none } ∧
    (stepArgs (stepArgs w "write" aW).1 "read" aR).1.metaOf (aR.getD "r" "tmp") = w.metaOf n :=
  write_read_world w aW aR n rest m m' px hpos hget hf hpx hr

/-- **metadata round trip**: `getmeta` on the map read back answers, for every key, what
    `getmeta` answered on the source map -/
theorem world_getmeta_round_trip (w : World) (aW aR aG aG' : Args) (n : String)
    (rest rest' rest'' : List String) (m m' : MapObj) (px : Option (List Nat))
    (hpos : aW.pos = n :: rest) (hget : w.get? n = some m)
    (hf : aR.getD "f" "f" = aW.getD "f" "f")
    (hpx : (aR.get? "pixels" = none ∧ px = none) ∨
        ∃ t l, aR.get? "pixels" = some t ∧ parseNats t = some l ∧ px = some l)
    (hr : apiRead (apiWrite m (w.metaOf n)) px = .ok m')
    (hG : aG.pos = aR.getD "r" "tmp" :: rest') (hG' : aG'.pos = n :: rest'')
    (hkey : aG.getD "k" "" = aG'.getD "k" "") :
    (stepArgs (stepArgs (stepArgs w "write" aW).1 "read" aR).1 "getmeta" aG).2
      = (stepArgs w "getmeta" aG').2 :=
  getmeta_write_read w aW aR aG aG' n rest rest' rest'' m m' px hpos hget hf hpx hr hG hG' hkey

/-- for a `FileTyped` map the full read cannot fail: the round trip through the world is
    unconditional and binds the map itself (cache reset, owning its storage) -/
theorem world_write_read_full (w : World) (aW aR : Args) (n : String) (rest : List String)
    (m : MapObj) (hpos : aW.pos = n :: rest) (hget : w.get? n = some m) (ht : m.FileTyped)
    (hf : aR.getD "f" "f" = aW.getD "f" "f") (hpx : aR.get? "pixels" = none) :
    (stepArgs (stepArgs w "write" aW).1 "read" aR).2 = "ok" ∧
    (stepArgs (stepArgs w "write" aW).1 "read" aR).1.get? (aR.getD "r" "tmp")
      = some { m with cache := none, view := none } ∧
    (stepArgs (stepArgs w "write" aW).1 "read" aR).1.metaOf (aR.getD "r" "tmp") = w.metaOf n :=
  write_read_full_world w aW aR n rest m hpos hget ht hf hpx

/-- **every reachable world**: whatever map a protocol history has produced, its file is well
    formed and whatever a (full or partial) read of that file returns is well formed, sentinel
    compatible, and has the map's orders, sentinel, blank cell and validity test; a full read
    returns the map's arrays.  (Only the kind label is not claimed — see `FileTyped`.) -/
theorem reachable_write_read_content (lines : List String) (n : String) (m : MapObj)
    (hget : (runLines lines).get? n = some m) (md : List (String × String))
    (px : Option (List Nat)) {m' : MapObj} (h : apiRead (apiWrite m md) px = .ok m') :
    (apiWrite m md).WF ∧ m'.WF ∧ m'.SentOK ∧ m'.covord = m.covord ∧ m'.spord = m.spord ∧
    m'.sent = m.sent ∧ m'.vc = m.vc ∧ (px = none → m'.st = m.st ∧ ∀ p, m'.abs p = m.abs p) := by
  have hok : m.Ok := (Good.runLines lines).get hget
  have hf := WF.apiWrite_partial md hok.1 hok.2.2
  obtain ⟨h1, h2, h3, _, _, h6, h7, _, h9, _⟩ := apiRead_apiWrite_content hok.2.2 h
  refine ⟨hf, WF.apiRead hf h, SentOK.apiRead h, h1, h2, h3, h7, ?_⟩
  intro hp
  refine ⟨h9 hp, fun p => ?_⟩
  unfold MapObj.abs
  rw [h6, h7, h9 hp]

/-! ### unconditional for reachable maps (`World.Typed`, Lemmas/TypedWorld.lean)

`MapObj.FileTyped` is part of a global inductive invariant of the protocol driver
(`GoodTyped.runLines`): every map any protocol history can produce — owning or view — is typed
the way a file can express.  So the full round trip needs no hypothesis on reachable maps. -/

/-- **(a), every reachable map**: whatever name resolves to `m` after any protocol history,
    writing `m` and reading the file back returns `m` exactly (cache reset, owning) -/
theorem reachable_read_write_full (lines : List String) (n : String) (m : MapObj)
    (h : (runLines lines).get? n = some m) (md : List (String × String)) :
    apiRead (apiWrite m md) none = .ok { m with cache := none, view := none } :=
  api_read_write_full_partial m md (reachable_fileTyped lines h)

/-- **(b), every reachable map**: the partial read is refused exactly for duplicates or a request
    naming no covered pixel, and otherwise returns the restriction, with the map's own kind -/
theorem reachable_read_pixels (lines : List String) (n : String) (m : MapObj)
    (h : (runLines lines).get? n = some m) (md : List (String × String)) (px : List Nat) :
    (apiRead (apiWrite m md) (some px) = .error .runtime ↔ (¬ px.Nodup ∨ ¬ Requested m px)) ∧
    (px.Nodup → Requested m px →
      ∃ m', apiRead (apiWrite m md) (some px) = .ok m' ∧
        m' = { m with st := m'.st, cache := none, view := none } ∧ m'.Ok ∧
        (∀ p, p < m.npix → m'.abs p =
            if decide ((p >>> m.c.shift) ∈ px) && covered m.c m.st (p >>> m.c.shift) then m.abs p
            else m.kind.blank m.sent) ∧
        (∀ j, j < m.c.ncov → covered m'.c m'.st j = (decide (j ∈ px) && covered m.c m.st j))) := by
  have ht := reachable_fileTyped lines h
  have hok : m.Ok := (Good.runLines lines).get h
  refine ⟨api_read_pixels_error_iff_typed m md px ht, fun hnd hreq => ?_⟩
  obtain ⟨m', hr, he, _, _, hko, habs, hcov⟩ := api_read_pixels_spec_typed m md px hok.1 ht hnd hreq
  exact ⟨m', hr, he, hko hok.2.1, habs, hcov⟩

/-- **the protocol-level round trip**: in ANY reachable world, `write n f=F` followed by
    `read f=F r=R` answers `ok` / `ok`, binds `R` to exactly the map `n` resolved to (cache reset,
    owning its storage), carries the user metadata over, and `vals R` / `valid R` answer the very
    strings `vals n` / `valid n` answered before -/
theorem reachable_write_read_world (lines : List String) (aW aR : Args) (n : String)
    (rest : List String) (m : MapObj)
    (hpos : aW.pos = n :: rest) (hget : (runLines lines).get? n = some m)
    (hf : aR.getD "f" "f" = aW.getD "f" "f") (hpx : aR.get? "pixels" = none) :
    (stepArgs (runLines lines) "write" aW).2 = "ok" ∧
    (stepArgs (stepArgs (runLines lines) "write" aW).1 "read" aR).2 = "ok" ∧
    (stepArgs (stepArgs (runLines lines) "write" aW).1 "read" aR).1.get? (aR.getD "r" "tmp")
      = some { m with cache := none, view := none } ∧
    (stepArgs (stepArgs (runLines lines) "write" aW).1 "read" aR).1.metaOf (aR.getD "r" "tmp")
      = (runLines lines).metaOf n ∧
    ∀ (aV aV' : Args) (r1 r2 : List String), aV.pos = aR.getD "r" "tmp" :: r1 → aV'.pos = n :: r2 →
      (stepArgs (stepArgs (stepArgs (runLines lines) "write" aW).1 "read" aR).1 "vals" aV).2
        = (stepArgs (runLines lines) "vals" aV').2 ∧
      (stepArgs (stepArgs (stepArgs (runLines lines) "write" aW).1 "read" aR).1 "valid" aV).2
        = (stepArgs (runLines lines) "valid" aV').2 := by
  have hr := reachable_read_write_full lines n m hget ((runLines lines).metaOf n)
  obtain ⟨h1, h2, h3, h4⟩ := world_write_read (runLines lines) aW aR n rest m _ none hpos hget hf
    (Or.inl ⟨hpx, rfl⟩) hr
  refine ⟨h1, h2, h3, h4, ?_⟩
  intro aV aV' r1 r2 hV hV'
  rw [stepArgs_vals, stepArgs_vals, stepArgs_valid, stepArgs_valid,
    opVals_eq _ aV _ r1 _ hV h3, opVals_eq _ aV' n r2 m hV' hget,
    opValid_eq _ aV _ r1 _ hV h3, opValid_eq _ aV' n r2 m hV' hget]
  refine ⟨rfl, ?_⟩
  have e : validPixels ({ m with cache := none, view := none } : MapObj).c
      ({ m with cache := none, view := none } : MapObj).vc
      ({ m with cache := none, view := none } : MapObj).st = validPixels m.c m.vc m.st := rfl
  rw [e]
  cases validPixels m.c m.vc m.st <;> rfl

/-! ### non-vacuity (API level) -/

section examples
open RoundTrip

/-- full round trip check of a concrete map: made by `apiMakeEmpty` + `apiUpdate`, well formed,
    `Ok`, `FileTyped`, and every field of the map read back compared literally -/
def rtFull (e : Except Err MapObj) : Bool :=
  okAnd e fun m => decide m.WF && decide m.FileTyped && decide m.Ok &&
    okAnd (apiRead (apiWrite m [("A", "B")]) none) fun m' =>
      sameObj m' { m with cache := none, view := none }

/-- (a) computed for one map of every kind: int32, wide mask, bool with sentinel `True`,
    bit-packed, record with boolean primary, float32 -/
example : rtFull exMapE = true ∧ rtFull exWideE = true ∧ rtFull exBoolE = true ∧
    rtFull exPackedE = true ∧ rtFull exRecBoolE = true ∧ rtFull exFloatE = true := by
  decide +kernel

/-- (a) the theorem instantiated: its hypothesis is met by a map built through the API -/
example : ∃ m, exRecBoolE = .ok m ∧ m.FileTyped ∧
    apiRead (apiWrite m []) none = .ok { m with cache := none, view := none } := by
  have h : okAnd exRecBoolE (fun m => decide m.FileTyped) = true := by decide +kernel
  obtain ⟨m, hm, ht⟩ := okAnd_elim h
  have ht' : m.FileTyped := of_decide_eq_true ht
  exact ⟨m, hm, ht', api_read_write_full_partial m [] ht'⟩

/-- `FileTyped` from the constructors: `make_empty` of a real dtype, then updates -/
example (co so : Nat) (kind : Kind) (s : Option Val) (cp pix : List Nat) (vals : Option (List Val))
    (op : String) (sg : Bool) (m m' : MapObj) (hk : kind.realDT = true)
    (h1 : apiMakeEmpty co so kind s cp = .ok m) (h2 : apiUpdate m op pix vals sg = .ok m')
    (md : List (String × String)) :
    apiRead (apiWrite m' md) none = .ok { m' with cache := none, view := none } :=
  api_read_write_full_partial m' md (FileTyped.apiUpdate (FileTyped.apiMakeEmpty hk h1) h2)

/-- the counterexamples evaluated: what the reader recovers from the three untyped `Ok` objects -/
example :
    okAnd (apiRead (apiWrite boolSentMap []) none) (fun m' => decide (m'.kind = .plain .bool)) = true ∧
    okAnd (apiRead (apiWrite oddDtMap []) none) (fun m' => decide (m'.kind = .plain (.int 8 true))) = true ∧
    (match apiRead (apiWrite hugeDtMap []) none with | .error .runtime => true | _ => false) = true := by
  decide +kernel

/-- a map whose blocks are NOT in coverage-pixel order (pixel 40 set by an earlier call than
    pixel 5) -/
def exSwapE : Except Err MapObj := do
  let m ← apiMakeEmpty 0 1 (.plain (.int 32 true)) none []
  let m ← apiUpdate m "replace" [40] (some [.num 9 0]) true
  apiUpdate m "replace" [5] (some [.num 7 0]) true

/-- (b) computed: the request `[10, 3, 1, 99]` (unsorted, one uncovered, one out of range) keeps
    both pixels and re-sorts the blocks; `[10]` keeps pixel 40 only; duplicates and a request
    naming no covered pixel are refused with `RuntimeError` -/
example : okAnd exSwapE (fun m =>
    decide (m.st.cov[1]? = some 4 ∧ m.st.cov[10]? = some (-36)) &&
    okAnd (apiRead (apiWrite m []) (some [10, 3, 1, 99])) (fun r =>
      decide (r.WF ∧ r.abs 5 = .num 7 0 ∧ r.abs 40 = .num 9 0 ∧ r.st.cov[1]? = some 0 ∧
        r.st.cov[10]? = some (-32) ∧ r.st.sp.size = 12)) &&
    okAnd (apiRead (apiWrite m []) (some [10])) (fun r =>
      decide (r.WF ∧ r.abs 5 = m.sent ∧ r.abs 40 = .num 9 0 ∧ r.st.sp.size = 8)) &&
    (match apiRead (apiWrite m []) (some [1, 10, 1]) with | .error .runtime => true | _ => false) &&
    (match apiRead (apiWrite m []) (some [2, 3, 99]) with | .error .runtime => true | _ => false)) = true := by
  decide +kernel

/-- (b), (c) the theorems instantiated on that map: hypotheses met, the two reads with permuted
    requests are content-equal, and `read(pixels=[10])` is `get_single_covpix_map(10)` -/
example : ∃ m r r', exSwapE = .ok m ∧ m.WF ∧ m.FileTyped ∧ Requested m [10, 3, 1, 99] ∧
    apiRead (apiWrite m []) (some [10, 3, 1, 99]) = .ok r ∧
    apiRead (apiWrite m []) (some [1, 99, 3, 10]) = .ok r' ∧
    C10.Same m.c m.vc r.st r'.st ∧
    apiRead (apiWrite m []) (some [10]) =
      .ok { m with st := singleCovpixMap m.c m.vc m.st 10, cache := none, view := none } := by
  have h : okAnd exSwapE (fun m => decide m.WF && decide m.FileTyped &&
      decide (10 < m.c.ncov ∧ covered m.c m.st 10 = true)) = true := by decide +kernel
  obtain ⟨m, hm, hp⟩ := okAnd_elim h
  simp only [Bool.and_eq_true, decide_eq_true_eq] at hp
  obtain ⟨⟨hw, ht⟩, h10, hc10⟩ := hp
  have hreq : Requested m [10, 3, 1, 99] := ⟨10, by simp, h10, hc10⟩
  obtain ⟨r, hr, _⟩ := api_read_pixels_spec_typed m [] [10, 3, 1, 99] hw ht (by decide) hreq
  obtain ⟨r', hr', _, hsame⟩ := api_read_pixels_perm m [] [10, 3, 1, 99] [1, 99, 3, 10] hw ht.sentOK
    (by decide) hr
  exact ⟨m, r, r', hm, hw, ht, hreq, hr, hr', hsame, api_read_single_covpix m [] 10 ht h10 hc10⟩

/-- (c) computed: after reading `exSwapE` back with the request `[10, 1]` the ARRAYS differ from
    the original's (blocks re-sorted), and after the same two later calls (an `add` touching an
    old and a new coverage pixel, then a clear) they still differ — while every pixel reads the
    same on both; a call refused on one (`add` of a record value) is refused alike on the other -/
example : okAnd exSwapE (fun m =>
    okAnd (apiRead (apiWrite m []) (some [10, 1])) (fun r =>
      decide (r.st.cov ≠ m.st.cov) &&
      okAnd (runUpdates m [("add", [5, 30], some [.num 1 0], true), ("replace", [40], none, true)]) (fun a =>
        okAnd (runUpdates r [("add", [5, 30], some [.num 1 0], true), ("replace", [40], none, true)]) (fun b =>
          decide (a.st.sp ≠ b.st.sp) && decide (a.abs 5 = .num 8 0) &&
          (List.range 48).all (fun p => decide (a.abs p = b.abs p)))) &&
      (match runUpdates m [("add", [5], some [.recd []], true)],
             runUpdates r [("add", [5], some [.recd []], true)] with
       | .error e₁, .error e₂ => decide (e₁ = e₂)
       | _, _ => false))) = true := by
  decide +kernel

/-- (c) the API-level theorems instantiated on that map: the request `[10, 1]` names every covered
    coverage pixel, so the map read back and the original go through any calls alike -/
example (calls : List UpdCall) : ∃ m r, exSwapE = .ok m ∧
    apiRead (apiWrite m []) (some [10, 1]) = .ok r ∧ C10.Same m.c m.vc r.st m.st ∧
    UpdRel r (runUpdates r calls) (runUpdates { m with cache := none } calls) := by
  have h : okAnd exSwapE (fun m => decide m.WF && decide m.FileTyped && decide (m.view = none) &&
      decide (∀ k, k < m.c.ncov → covered m.c m.st k = true → k ∈ [10, 1]) &&
      decide (Requested m [10, 1])) = true := by decide +kernel
  obtain ⟨m, hm, hp⟩ := okAnd_elim h
  simp only [Bool.and_eq_true, decide_eq_true_eq] at hp
  obtain ⟨⟨⟨⟨hw, ht⟩, hv⟩, hall⟩, hreq⟩ := hp
  obtain ⟨r, hr, he, _⟩ := api_read_pixels_spec_typed m [] [10, 1] hw ht (by decide) hreq
  obtain ⟨hc, hvc, hS⟩ := api_read_pixels_all_same m [] [10, 1] hw ht.sentOK hr hall
  refine ⟨m, r, hm, hr, hS, ?_⟩
  have hsame : ({ m with cache := none } : MapObj).Same r := by
    rw [he]; exact ⟨rfl, rfl, rfl, rfl, hv⟩
  refine runUpdates_same calls r _ hsame ?_
  rw [hc, hvc]
  exact hS

/-- (d) the protocol history: metadata set on `m` is answered by `getmeta` on the map read back
    (full and partial read); evaluated, since the kernel cannot run the line parser -/
def metaHistory (readLine : String) : String :=
  (step (runLines ["cfg m kind=plain dtype=i4 covord=0 spord=1", "upd m pix=40,5 vals=9,7",
    "meta m k=A v=B", "write m f=F", readLine]) "getmeta q k=A").2

#guard metaHistory "read f=F r=q" == "B"
#guard metaHistory "read f=F r=q pixels=10,1" == "B"
#guard metaHistory "read f=F r=q pixels=2,3" == "bad-op:no-such-map"   -- refused read: `q` unbound

/-- (d) the theorems instantiated with concrete argument records (`write m f=F`, `read f=F r=q`,
    `getmeta q k=A` / `getmeta m k=A`) in an arbitrary world holding a typed map under `m` -/
example (w : World) (m : MapObj) (hget : w.get? "m" = some m) (ht : m.FileTyped) :
    (stepArgs (stepArgs (stepArgs w "write" ⟨["m"], [("f", "F")]⟩).1 "read"
        ⟨[], [("f", "F"), ("r", "q")]⟩).1 "getmeta" ⟨["q"], [("k", "A")]⟩).2
      = (stepArgs w "getmeta" ⟨["m"], [("k", "A")]⟩).2 :=
  world_getmeta_round_trip w ⟨["m"], [("f", "F")]⟩ ⟨[], [("f", "F"), ("r", "q")]⟩
    ⟨["q"], [("k", "A")]⟩ ⟨["m"], [("k", "A")]⟩ "m" [] [] [] m _ none rfl hget
    (by decide +kernel) (Or.inl ⟨by decide +kernel, rfl⟩)
    (api_read_write_full_partial m _ ht) (by decide +kernel) rfl (by decide +kernel)

/-- a history through (nearly) every operation that PRODUCES a map object: constructors of all
    kinds, astype, pack, copy, union / intersection operations, degrade, upgrade, get_single
    (copy and view), single-covpix map, file reads (full, partial, degrade-on-read, of a view),
    MOC read, fracdet -/
def producersHistory : List String := [
  "cfg a kind=plain dtype=i4 covord=0 spord=2",
  "upd a pix=5,100 vals=7,9",
  "cfg b kind=plain dtype=i4 covord=0 spord=2",
  "upd b pix=5,101 vals=1,2",
  "cfg f kind=plain dtype=f4 covord=0 spord=2",
  "upd f pix=5,6 vals=1,2",
  "cfg bo kind=plain dtype=b1 covord=0 spord=2 sentinel=T",
  "upd bo pix=5 val=F",
  "cfg pk kind=packed covord=0 spord=2",
  "upd pk pix=5 val=T",
  "cfg wd kind=wide maxbits=12 covord=0 spord=2",
  "upd wd pix=5 val=b1.8",
  "cfg rc kind=rec fields=i4,f8 primary=0 covord=0 spord=2",
  "upd rc pix=5 val=r3;2",
  "cfg rb kind=rec fields=b1,f8 primary=0 covord=0 spord=2",
  "astype a dtype=f8 r=af",
  "astype a dtype=b1 r=ab",
  "pack bo r=bp",
  "copy a r=ac",
  "mop maps=a,b name=sum_union r=su",
  "mop maps=a,b name=divide_intersection r=dv",
  "mop maps=pk,pk name=ufunc_union ufunc=bitwise_or filler=F r=pu",
  "deg a ord=1 red=mean r=dm",
  "deg a ord=1 red=or r=do",
  "deg bo ord=1 red=mean r=db",
  "deg wd ord=1 red=or r=dw",
  "deg rc ord=1 red=mean r=dr",
  "upg a ord=3 r=ua",
  "single rc field=0 copy=1 r=s0",
  "single rc field=1 copy=1 r=s1",
  "single rc field=1 r=v1",
  "scov a k=0 r=sc",
  "write a f=F",
  "read f=F r=ra",
  "read f=F r=rp pixels=0",
  "dor f=F ord=1 red=mean r=dd",
  "write v1 f=G",
  "read f=G r=rv",
  "moc a f=M",
  "mocread f=M covord=0 r=mm",
  "fracdet a ord=1 r=fd"
]


/-- evidence (evaluated, NOT a proof) that `FileTyped` is an invariant of the protocol: in the world
    reached by `producersHistory` every step answered `ok`, and every name resolves to a
    `FileTyped` map whose file reads back to exactly that map -/
def producersCheck : Bool :=
  let w := runLines producersHistory
  (producersHistory.foldl (fun (acc : World × Bool) l =>
      let r := step acc.1 l; (r.1, acc.2 && (r.2 == "ok" || r.2 == "69,164"))) ({}, true)).2 &&
  w.pool.all fun e =>
    match w.get? e.1 with
    | some m => decide m.FileTyped &&
        okAnd (apiRead (apiWrite m []) none) fun m' => sameObj m' { m with cache := none, view := none }
    | none => false

#guard producersCheck
#guard (runLines producersHistory).pool.length == 31


/-- the reachable theorems instantiated on the producers' history: every name of that world —
    views included — round-trips, by the THEOREM (the `#guard` above evaluates the same fact) -/
example (n : String) (m : MapObj) (h : (runLines producersHistory).get? n = some m) :
    apiRead (apiWrite m []) none = .ok { m with cache := none, view := none } :=
  reachable_read_write_full producersHistory n m h []

/-- the protocol-level history evaluated: write / read, then `vals` and `valid` on both names -/
def roundTripHistory : List String := [
  "cfg m kind=rec fields=b1,f4 primary=0 covord=0 spord=1", "upd m pix=21,40 vals=r1;5^1,r1;3",
  "write m f=F", "read f=F r=q", "vals m", "vals q", "valid m", "valid q",
  "single m field=1 r=v", "write v f=G", "read f=G r=qv", "vals v", "vals qv"]

/-- the answers of a history -/
def answersOf (lines : List String) : List String :=
  (lines.foldl (fun (wo : World × List String) l => ((step wo.1 l).1, wo.2 ++ [(step wo.1 l).2]))
    ({}, [])).2

#guard (let a := answersOf roundTripHistory
        a.take 4 == ["ok", "ok", "ok", "ok"] && a[4]? == a[5]? && a[6]? == a[7]? &&
        a[6]? == some "21,40" && a[8]? == some "ok" && a[11]? == a[12]?)

/-- the protocol-level theorem instantiated with concrete argument records in an arbitrary
    reachable world holding a map under `m` -/
example (lines : List String) (m : MapObj) (hget : (runLines lines).get? "m" = some m) :
    (stepArgs (stepArgs (runLines lines) "write" ⟨["m"], [("f", "F")]⟩).1 "read"
        ⟨[], [("f", "F"), ("r", "q")]⟩).1.get? "q" = some { m with cache := none, view := none } :=
  (reachable_write_read_world lines ⟨["m"], [("f", "F")]⟩ ⟨[], [("f", "F"), ("r", "q")]⟩ "m" [] m
    rfl hget (by decide +kernel) (by decide +kernel)).2.2.1

end examples

end C03
end HS
