import HealSparse.Props.C07
#print axioms HS.C07.degrade_spec
#print axioms HS.C07.degrade_masked
#print axioms HS.C07.gatherWeights_spec
#print axioms HS.C07.degradeW_spec
#print axioms HS.C07.rehouse_spec
#print axioms HS.C07.rehouse_spec_partial
#print axioms HS.C07.Witness.rehouse_value_spec_false
