/-
  C17 (continued) — the NUNIQ order kernel, tied to the SOURCE by a translator
  (harness/translate_kernels.py calls `io_map_fits._uniq_order` in /repo's current tree and rewrites
  Generated/Kernels.lean on every run): at the first and the last code of every order 0..29 and at
  both neighbours — the places where a floating-point logarithm or a narrow integer goes wrong
  (findings F19 / F44 / F71) — the code's answer is the model's exact `uniqOrder`.
-/
import HealSparse.Generated.Kernels
import HealSparse.Model.Moc
namespace HS
namespace C17

theorem kernel_uniq_order :
    Kernels.uniqTable.all (fun r => uniqOrder r.1 == r.2) = true := by decide +kernel

/-- the table holds both ends of every order 0..29 -/
theorem kernel_uniq_boundaries :
    (List.range 30).all (fun o =>
      (Kernels.uniqTable.any fun r => r.1 == 4 * 4 ^ o && r.2 == o) &&
      (Kernels.uniqTable.any fun r => r.1 == 4 * 4 ^ (o + 1) - 1 && r.2 == o)) = true := by decide +kernel

end C17
end HS
