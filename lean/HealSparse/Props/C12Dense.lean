/-
  C12 at the driver level, against the dense reference interpreter: the refinement
  `C01.reachable_dense` (plain lines: cfg / upd / updr / set / get / vals) extended to the SCALAR
  family — `sop` (map ⊕ scalar, bit-list forms on wide masks included, in place and copying),
  `mask` (apply_mask, in place and copying), `astype`, `copy`, and the observers `valid`, `nvalid`,
  `covmap`.  Headline theorems only; the dense interpreter `dstepS` and the refinement proof are in
  Lemmas/ApiDenseScalar.lean.
-/
import HealSparse.Lemmas.ApiDenseScalar
namespace HS
namespace C12

open ApiDense ApiDenseScalar ApiScalar

/-! ### (1) the refinement -/

/-- **the protocol refines the dense interpreter on histories of plain and scalar-family lines**:
    after any history whose lines are plain (`cfg`, `upd`, `updr`, `set`, `get`, `vals`) or of the
    scalar family (`sop`, `mask`, `astype`, `copy`, `valid`, `nvalid` — not `path=str` —, `covmap`;
    malformed or refused lines included), the world the protocol reaches and the dense world the
    dense interpreter reaches agree: the same names, the same headers, and every map reads at every
    pixel what the dense array holds. -/
theorem reachable_dense_scalar (lines : List String) (h : ∀ l ∈ lines, lineOk l = true) :
    Rel (runLines lines) (drunS lines) :=
  rel_runLinesS lines h

/-- … hence any further plain or family line is answered by the protocol as by the dense
    interpreter (errors and their kind included) -/
theorem reachable_dense_scalar_answer (lines : List String) (h : ∀ l ∈ lines, lineOk l = true)
    (q : String) (hq : lineOk q = true) :
    (step (runLines lines) q).2 = (dstepS (drunS lines) q).2 :=
  (rel_stepS (rel_runLinesS lines h) (Good2.runLines lines) hq).2

/-- … and every answer ALONG the history agrees too -/
theorem reachable_dense_scalar_answers (lines : List String) (h : ∀ l ∈ lines, lineOk l = true)
    (k : Nat) (hk : k < lines.length) :
    (step (runLines (lines.take k)) lines[k]).2 = (dstepS (drunS (lines.take k)) lines[k]).2 :=
  reachable_dense_scalar_answer (lines.take k) (fun l hl => h l (List.mem_of_mem_take hl)) lines[k]
    (h _ (List.getElem_mem hk))

/-- … as one equation: the list of all answers of the history is the list of answers of the dense
    interpreter (what the `#guard` of section (3) evaluates on an example) -/
theorem reachable_dense_scalar_all_answers (lines : List String) (h : ∀ l ∈ lines, lineOk l = true) :
    answers lines = danswersS lines :=
  answers_eq_danswersS lines h

/-- the map-level reading: a name bound after such a history is bound on the dense side to an
    array with the same header that holds `m.abs p` at every pixel -/
theorem reachable_dense_scalar_map (lines : List String) (h : ∀ l ∈ lines, lineOk l = true)
    {n : String} {m : MapObj} (hg : (runLines lines).get? n = some m) :
    ∃ d, (drunS lines).get? n = some d ∧ m.WF ∧ m.view = none ∧ m.covord = d.covord ∧
      m.spord = d.spord ∧ m.kind = d.kind ∧ m.sent = d.sent ∧ ∀ p, p < m.npix → m.abs p = d.f p := by
  have hm := rel_get (rel_runLinesS lines h) n
  rw [hg] at hm
  cases hd : (drunS lines).get? n with
  | none => rw [hd] at hm; exact hm.elim
  | some d =>
    rw [hd] at hm
    exact ⟨d, rfl, hm.wf, hm.view, hm.covord, hm.spord, hm.kind, hm.sent, hm.abs⟩

/-! ### (2) what the dense interpreter computes, pixel by pixel

The three transformers of the dense interpreter are total decision lists over the header, the
arguments and the dense values (`dSop`, `dMask`, `dAstype` in Lemmas/ApiDenseScalar.lean).  Their
value parts, spelled out: -/

/-- a scalar operator: a valid pixel gets the operator's result at the map's dtype (`sopCell`),
    every other pixel keeps its value; the header is kept -/
theorem dense_sop_pixel {d d' : DenseMap} {op : String} {k : Scalar} (h : dSop d op k = .ok d')
    (p : Nat) :
    d'.covord = d.covord ∧ d'.spord = d.spord ∧ d'.kind = d.kind ∧ d'.sent = d.sent ∧
    (dValid d (d.f p) = true → some (d'.f p) = sopCell d.kind op k (d.f p) ∨ p ≥ d.npix) ∧
    (dValid d (d.f p) = false → d'.f p = d.f p) := by
  unfold dSop at h
  split at h
  · cases h
  · split at h
    · cases h
    · rename_i hany
      cases h
      refine ⟨rfl, rfl, rfl, rfl, fun hv => ?_, fun hv => ?_⟩
      · by_cases hp : p < d.npix
        · left
          show some (sopF d op k p) = _
          unfold sopF
          rw [if_pos hv]
          cases hc : sopCell d.kind op k (d.f p) with
          | some y => rfl
          | none =>
            exfalso
            apply hany
            rw [List.any_eq_true]
            exact ⟨p, List.mem_range.2 hp, by rw [hv, hc]; rfl⟩
        · right; omega
      · show sopF d op k p = _
        unfold sopF
        rw [if_neg (by rw [hv]; exact Bool.false_ne_true)]

/-- `apply_mask`: a pixel valid in the map and bad in the mask (at the same pixel number of the
    mask's array) becomes blank, every other pixel keeps its value; the header is kept -/
theorem dense_mask_pixel {d dk d' : DenseMap} {mb : Option Int} {ba : Option (List Nat)}
    (h : dMask d dk mb ba = .ok d') (p : Nat) :
    d'.covord = d.covord ∧ d'.spord = d.spord ∧ d'.kind = d.kind ∧ d'.sent = d.sent ∧
    d'.f p = if dValid d (d.f p) && maskBadVal dk.hdr mb ba (dk.f p) then d.blank else d.f p := by
  unfold dMask at h
  split at h
  · cases h
  · split at h
    · cases h
    · cases h
      exact ⟨rfl, rfl, rfl, rfl, rfl⟩

/-- `astype`: same resolution, the new dtype and sentinel; a valid pixel is converted
    (`convCell`), every other pixel holds the NEW sentinel -/
theorem dense_astype_pixel {d d' : DenseMap} {dst : DT} {sentinel : Option Val}
    (h : dAstype d dst sentinel = .ok d') (p : Nat) :
    d'.covord = d.covord ∧ d'.spord = d.spord ∧ d'.kind = .plain dst ∧
    checkSentinel dst sentinel = .ok d'.sent ∧
    (dValid d (d.f p) = false → d'.f p = d'.sent) ∧
    ∃ src, astypeSrc d.kind = some src ∧
      (dValid d (d.f p) = true → some (d'.f p) = convCell src dst (d.f p) ∨ p ≥ d.npix) := by
  unfold dAstype at h
  split at h
  · cases h
  · rename_i src hsrc
    split at h
    · cases h
    · rename_i s' hs'
      split at h
      · cases h
      · rename_i hany
        cases h
        refine ⟨rfl, rfl, rfl, hs', fun hv => ?_, src, hsrc, fun hv => ?_⟩
        · show astypeF d src dst s' p = s'
          unfold astypeF
          rw [if_neg (by rw [hv]; exact Bool.false_ne_true)]
        · by_cases hp : p < d.npix
          · left
            show some (astypeF d src dst s' p) = _
            unfold astypeF
            rw [if_pos hv]
            cases hc : convCell src dst (d.f p) with
            | some y => rfl
            | none =>
              exfalso
              apply hany
              rw [List.any_eq_true]
              exact ⟨p, List.mem_range.2 hp, by rw [hv, hc]; rfl⟩
          · right; omega

/-! ### (3) a history: the hypotheses are satisfiable, the answers are what the protocol answers

`m` is created and written in SHUFFLED coverage order (coverage pixels 6, 0, 2: the blocks of the
storage are out of order); `t = m * 3` is a copy; the RESULT `t` is grown by an update into a new
coverage pixel (11); a `uint8` mask `k` with bit 1 at pixel 5 and bit 2 at pixel 180 masks `t` in
place with `bits=1` (pixel 5 goes, pixel 180 stays); `t` is converted to float64; a wide mask gets
a bit-list `or`; everything is read back through `get`, `vals`, `valid`, `nvalid`, `covmap`. -/

def exScalar : List String := [
  "cfg m kind=plain dtype=i4 covord=0 spord=2",
  "upd m pix=100,5,37 vals=7,3,9",
  "sop m op=mul k=3 r=t",
  "get m pix=100,5,37,180",
  "upd t pix=180 val=4",
  "covmap t",
  "cfg k kind=plain dtype=u1 covord=0 spord=2",
  "upd k pix=5,180 vals=1,2",
  "mask t by=k bits=1 inplace=1",
  "valid t",
  "nvalid t",
  "nvalid t",
  "astype t dtype=f8 r=f",
  "sop f op=div k=2 ktype=flt inplace=1",
  "get f pix=5,37,100,180,0",
  "valid f",
  "covmap f",
  "sop m op=div k=2",
  "sop m op=and k=1^1 ktype=flt inplace=1",
  "nvalid m",
  "mask m by=f",
  "astype k dtype=i1 sentinel=300 r=z",
  "copy t r=c",
  "upd c pix=5 val=1",
  "get t pix=5 vm=1",
  "get c pix=5,37",
  "cfg wm kind=wide maxbits=16 covord=0 spord=2",
  "upd wm pix=7,100 val=b1.0",
  "sop wm op=or bits=9 inplace=1",
  "sop wm op=xor bits=0 r=wx",
  "get wm pix=7,100,8",
  "valid wx",
  "sop wm op=or bits=16",
  "mask t by=wm bitarr=9 r=t2",
  "mask m by=wm bitarr=0,9 inplace=1",
  "valid t2",
  "nvalid m",
  "get t2 pix=37,100,180",
  "vals nope",
  "sop t op=add",
  "astype t dtype=q9 r=x",
  "mask t by=nope"]

#guard exScalar.all lineOk
#guard answers exScalar == danswersS exScalar
#guard answers exScalar ==
  ["ok", "ok", "ok", "7,3,9,-2147483648", "ok", "1,0,1,0,0,0,1,0,0,0,0,1", "ok", "ok", "ok", "37,100,180", "3", "3", "ok",
   "ok", "-1637499999999999923489519697920,27^1,21^1,2,-1637499999999999923489519697920", "37,100,180",
   "0,0,1,0,0,0,1,0,0,0,0,1", "err TypeError", "err NotImplementedError", "3", "err RuntimeError", "err ValueError",
   "ok", "ok", "0", "1,27", "ok", "ok", "ok", "ok", "b1.2,b1.2,b0.0", "7,100", "err ValueError", "ok", "ok", "37,180",
   "2", "27,-2147483648,4", "bad-op:no-such-map", "bad-op:k", "bad-op:astype", "bad-op:no-such-map"]

/-- the theorems above instantiated on the history (the hypothesis is checked by the `#guard`
    above; the kernel cannot run the string parser, so it stays a hypothesis here) -/
example (h : ∀ l ∈ exScalar, lineOk l = true) :
    Rel (runLines exScalar) (drunS exScalar) ∧
    ∀ k (hk : k < exScalar.length),
      (step (runLines (exScalar.take k)) exScalar[k]).2 = (dstepS (drunS (exScalar.take k)) exScalar[k]).2 :=
  ⟨reachable_dense_scalar _ h, reachable_dense_scalar_answers _ h⟩

/-! ### (4) the two provisos are necessary

(a) `nvalid n path=str` is left out of `lineOk`: on a bit-packed map its answer depends on whether
the `n_valid` cache is warm (`nocount` when cold, the count when warm) — not a function of the
header and the dense values.  Two histories that reach the SAME dense world (the observers do
not change it, `dNvalid_world`) and then issue the SAME line are answered differently: -/

def exNvalidStrCold : List String :=
  ["cfg p kind=packed covord=0 spord=2", "upd p pix=5 val=T", "nvalid p path=str"]
def exNvalidStrWarm : List String :=
  ["cfg p kind=packed covord=0 spord=2", "upd p pix=5 val=T", "nvalid p", "nvalid p path=str"]

#guard answers exNvalidStrCold == ["ok", "ok", "nocount"]
#guard answers exNvalidStrWarm == ["ok", "ok", "1", "1"]
#guard (exNvalidStrCold.take 2).all lineOk && (exNvalidStrWarm.take 3).all lineOk
#guard !lineOk "nvalid p path=str"

/-- the dense interpreter does not change the dense world on an observer line -/
theorem dense_observers_world (D : DenseWorld) (a : Args) :
    (dstepArgsS D "valid" a).1 = D ∧ (dstepArgsS D "nvalid" a).1 = D ∧ (dstepArgsS D "covmap" a).1 = D :=
  ⟨dValidOp_world D a, dNvalid_world D a, dCovmap_world D a⟩

/-! (b) the one-line refinement `rel_stepS` assumes the reachable invariant `World.Good2` of the
sparse world besides `Rel`.  `Rel` alone says nothing of the `n_valid` cache: a world whose map
carries a STALE count is related to a dense world, and `nvalid` answers the stale count.  (No
history reaches such a world: `Good2.runLines`.) -/

theorem dValidSet_dEmpty_plain {m : MapObj} {dt : DT} (hk : m.kind = .plain dt) :
    dValidSet (dEmpty m) = [] := by
  unfold dValidSet
  rw [List.filter_eq_nil_iff]
  intro p _
  show ¬ (m.kind.valid m.sent (m.kind.blank m.sent)) = true
  rw [hk, Kind.valid_blank_plain]
  exact Bool.false_ne_true

/-- **`Rel` alone does not give the one-line refinement**: a related pair of worlds and an
    `nvalid` line answered `7` by the protocol and `0` by the dense interpreter -/
theorem rel_alone_insufficient :
    ∃ (w : World) (D : DenseWorld) (a : Args), Rel w D ∧ famArgs "nvalid" a = true ∧
      (stepArgs w "nvalid" a).2 = "7" ∧ (dstepArgsS D "nvalid" a).2 = "0" := by
  have hok : (match apiMakeEmpty 0 1 (.plain (.int 32 true)) none [] with
      | .ok _ => true | .error _ => false) = true := by decide +kernel
  cases hm : apiMakeEmpty 0 1 (.plain (.int 32 true)) none [] with
  | error e => rw [hm] at hok; cases hok
  | ok m =>
    have hkind : m.kind = .plain (.int 32 true) := (WFApi.apiMakeEmpty_ok hm).2.2.2.1
    refine ⟨({} : World).bind "m" { m with cache := some 7 }, DenseWorld.bind [] "m" (dEmpty m),
      ⟨["m"], []⟩, rel_empty.bind "m" ((apiMakeEmpty_corr hm).cache (some 7)), by decide +kernel, ?_, ?_⟩
    · show (opNvalid _ _).2 = "7"
      unfold opNvalid withMap
      simp only [get?_bind_self]
      decide +kernel
    · show (dNvalid _ _).2 = "0"
      unfold dNvalid dWithMap
      simp only [dget_bind_self]
      rw [dValidSet_dEmpty_plain hkind]
      decide +kernel

end C12
end HS
