/-
  HEALPix interchange: `convert_healpix_map` (healSparseMap.py 317-360),
  `generate_healpix_map` (1266-1332, full-resolution part), RING/NEST reordering through
  an external permutation (hpgeom, a parameter), and the validity rule of `interpolate_pos`.
-/
import HealSparse.Model.Core
import HealSparse.Model.Map
import HealSparse.Model.Valid
namespace HS

variable {V W : Type}

/-- `hpg.reorder(map, ring_to_nest=True)`: `nest[r2n i] = ring[i]` (for a permutation `r2n`) -/
def reorderRingToNest (r2n : Nat → Nat) (ring : Array V) (dflt : V) : Array V :=
  (List.range ring.size).foldl (fun a i => a.setIfInBounds (r2n i) (rd ring i dflt))
    (Array.replicate ring.size dflt)

/-- `convert_healpix_map` (NEST input): the selected pixels (`healpix_map > UNSEEN`) are stored;
    coverage = the coverage pixels holding a selected pixel, ascending. -/
def convertHealpix (c : Cfg) (vc : VCfg V) (hp : Array V) (sel : V → Bool) : State V :=
  let ip := (List.range hp.size).filter fun p => sel (rd hp p vc.sentinel)
  let covPix := (List.range c.ncov).filter fun k => ip.any fun p => p >>> c.shift == k
  let cov := initializePixels c (emptyCov c) covPix
  let s0 : State V := ⟨cov, Array.replicate ((covPix.length + 1) * c.nfine) vc.sentinel⟩
  { s0 with sp := scatter (fun _ (w : V) => w) s0.sp (ip.map fun p => (idxOf c s0 p, rd hp p vc.sentinel)) }

/-- `generate_healpix_map` at the sparse resolution, NEST: `fill` everywhere, then the valid
    pixels (as listed by `valid_pixels`) receive their converted values. -/
def generateHealpix (c : Cfg) (vc : VCfg V) (s : State V) (fill : W) (conv : V → W) : Option (Array W) :=
  (validPixels c vc s).map fun vp =>
    vp.foldl (fun a p => a.setIfInBounds p.toNat (conv (abs c vc s p.toNat))) (Array.replicate c.npix fill)

/-- `generate_healpix_map(nest=False)`: positions `nest_to_ring(valid)` receive the values read
    back through `get_values_pix(ring pixels, nest=False)` = `abs (ring_to_nest (nest_to_ring p))` -/
def generateHealpixRing (c : Cfg) (vc : VCfg V) (s : State V) (fill : W) (conv : V → W)
    (n2r r2n : Nat → Nat) : Option (Array W) :=
  (validPixels c vc s).map fun vp =>
    vp.foldl (fun a p => a.setIfInBounds (n2r p.toNat) (conv (abs c vc s (r2n (n2r p.toNat)))))
      (Array.replicate c.npix fill)

/-- the four neighbours of `interpolate_pos` with their weights: which contribute, or UNSEEN.
    `none` = UNSEEN; `some l` = the contributing (value, weight) pairs, whose weighted mean is
    `Σ w v / Σ w` (`allow_partial=False`: the denominator is the sum of ALL weights, which are
    then all contributing). -/
def interpContrib (vc : VCfg V) (nbrs : List (V × W)) (allowPartial : Bool) : Option (List (V × W)) :=
  let ok := nbrs.filter fun vw => vc.valid vw.1
  if allowPartial then (if ok.isEmpty then none else some ok)
  else (if ok.length = nbrs.length then some nbrs else none)

end HS
