/-
  Helper lemmas for the packed-array model (Model/Packed.lean): bytes, heap updates,
  the first/middle/last decomposition, bit-level characterisation of every mutating method.
  Property theorems are in Props/C05.lean.
-/
import HealSparse.Model.Packed
namespace HS
namespace Packed

theorem unpack_length (b : Byte) : (unpack b).length = 8 := by simp [unpack]

theorem unpack_getElem? (b : Byte) (t : Nat) :
    (unpack b)[t]? = if t < 8 then some (b.getLsbD t) else none := by
  unfold unpack
  by_cases h : t < 8 <;> simp [h]

theorem unpack_getD (b : Byte) (t : Nat) : (unpack b).getD t false = b.getLsbD t := by
  rw [List.getD_eq_getElem?_getD, unpack_getElem?]
  by_cases h : t < 8
  · simp [h]
  · simp only [h, if_false, Option.getD_none]
    exact (BitVec.getLsbD_of_ge b t (by omega)).symm

theorem pack_getLsbD (l : List Bool) (t : Nat) :
    (pack l).getLsbD t = (decide (t < 8) && l.getD t false) := by
  simp [pack, BitVec.getLsbD_setWidth]

theorem setRange_length (l : List Bool) (lo hi : Nat) (f) : (setRange l lo hi f).length = l.length := by
  simp [setRange]

theorem setRange_getD (l : List Bool) (lo hi : Nat) (f : Nat → Bool → Bool) (t : Nat) (ht : t < l.length) :
    (setRange l lo hi f).getD t false =
      if lo ≤ t ∧ t < hi then f t (l.getD t false) else l.getD t false := by
  simp only [setRange, List.getD_eq_getElem?_getD, List.getElem?_mapIdx, List.getElem?_eq_getElem ht]
  simp only [Option.map_some, Option.getD_some]

theorem byteMod_getLsbD (b : Byte) (lo hi : Nat) (f : Nat → Bool → Bool) (t : Nat) (ht : t < 8) :
    (pack (setRange (unpack b) lo hi f)).getLsbD t =
      if lo ≤ t ∧ t < hi then f t (b.getLsbD t) else b.getLsbD t := by
  rw [pack_getLsbD, setRange_getD _ _ _ _ _ (by simp [unpack_length, ht]), unpack_getD]
  simp [ht]

theorem pack_unpack (b : Byte) : pack (unpack b) = b := by
  apply BitVec.eq_of_getLsbD_eq
  intro i hi
  rw [pack_getLsbD, unpack_getD]; simp [hi]

/-! heap -/
theorem wr_size (h : Heap) (i : Nat) (b : Byte) : (wr h i b).size = h.size := by simp [wr]

theorem rdB_wr (h : Heap) (i : Nat) (b : Byte) (j : Nat) :
    rdB (wr h i b) j = if j = i ∧ i < h.size then b else rdB h j := by
  simp only [rdB, wr, Array.getD_eq_getD_getElem?, Array.getElem?_setIfInBounds]
  by_cases h1 : i = j
  · subst h1; by_cases h2 : i < h.size <;> simp [h2]
  · have : ¬ j = i := fun e => h1 e.symm
    simp [h1, this]

theorem mapRange_size (h : Heap) (a b : Nat) (g) : (mapRange h a b g).size = h.size := by simp [mapRange]

theorem rdB_mapRange (h : Heap) (a b : Nat) (g : Nat → Byte → Byte) (j : Nat) :
    rdB (mapRange h a b g) j = if a ≤ j ∧ j < b ∧ j < h.size then g (j - a) (rdB h j) else rdB h j := by
  simp only [rdB, mapRange, Array.getD_eq_getD_getElem?, Array.getElem?_mapIdx]
  by_cases hj : j < h.size
  · simp only [Array.getElem?_eq_getElem hj, Option.map_some, Option.getD_some, hj, and_true]
  · simp [hj]

theorem hbit_wr (h : Heap) (i : Nat) (b : Byte) (k : Nat) :
    hbit (wr h i b) k = if k / 8 = i ∧ i < h.size then b.getLsbD (k % 8) else hbit h k := by
  simp only [hbit, rdB_wr]; split <;> rfl

theorem hbit_mapRange (h : Heap) (a b : Nat) (g : Nat → Byte → Byte) (k : Nat) :
    hbit (mapRange h a b g) k =
      if a ≤ k / 8 ∧ k / 8 < b ∧ k / 8 < h.size then (g (k / 8 - a) (rdB h (k / 8))).getLsbD (k % 8)
      else hbit h k := by
  simp only [hbit, rdB_mapRange]; split <;> rfl

theorem flatMap_unpack_getElem? (bs : List Byte) (k : Nat) :
    (bs.flatMap unpack)[k]? = (bs[k / 8]?).map (·.getLsbD (k % 8)) := by
  induction bs generalizing k with
  | nil => simp
  | cons b bs ih =>
    rw [List.flatMap_cons, List.getElem?_append, unpack_length]
    by_cases hk : k < 8
    · have h0 : k / 8 = 0 := by omega
      have h1 : k % 8 = k := by omega
      simp [hk, h0, h1, unpack_getElem?]
    · have h0 : k / 8 = (k - 8) / 8 + 1 := by omega
      have h1 : (k - 8) % 8 = k % 8 := by omega
      simp only [hk, if_false, ih, h0, h1, List.getElem?_cons_succ]

theorem data_getElem? (h : Heap) (p : PBA) (hin : p.off + p.len ≤ h.size) (i : Nat) :
    (p.data h)[i]? = if i < p.len then some (rdB h (p.off + i)) else none := by
  simp only [PBA.data, Array.getElem?_toList, Array.getElem?_extract, rdB, Array.getD_eq_getD_getElem?]
  rw [Nat.min_eq_left hin]
  by_cases hi : i < p.len
  · have : p.off + i < h.size := by omega
    simp [hi, this]
  · simp [hi]

theorem data_length (h : Heap) (p : PBA) (hin : p.off + p.len ≤ h.size) : (p.data h).length = p.len := by
  simp [PBA.data]; omega

/-- Well-formed view: the constructor invariants (they hold for every object built by the
    constructor, `from_boolean_array`, `copy` and by non-reversed slices) and "inside the heap". -/
structure WF (h : Heap) (p : PBA) : Prop where
  start_lt : p.start < 8
  start_le : (p.start : Int) ≤ p.stop
  stop_ge : 8 * (p.len : Int) - 7 ≤ p.stop
  stop_le : p.stop ≤ 8 * (p.len : Int)
  in_heap : p.off + p.len ≤ h.size

/-- number of elements -/
def PBA.n (p : PBA) : Nat := (p.stop - p.start).toNat
/-- absolute position of element 0 in the heap's bit string -/
def PBA.A (p : PBA) : Nat := 8 * p.off + p.start

theorem toBools_getElem? (h : Heap) (p : PBA) (hwf : WF h p) (i : Nat) :
    (toBools h p)[i]? = if i < p.n then some (hbit h (p.A + i)) else none := by
  obtain ⟨h1, h2, h3, h4, h5⟩ := hwf
  simp only [toBools, List.getElem?_drop, List.getElem?_take, flatMap_unpack_getElem?,
    data_getElem? h p h5, PBA.n, PBA.A, hbit]
  by_cases hi : i < (p.stop - ↑p.start).toNat
  · have a1 : p.start + i < p.stop.toNat := by omega
    have a2 : (p.start + i) / 8 < p.len := by omega
    have a3 : (8 * p.off + p.start + i) / 8 = p.off + (p.start + i) / 8 := by omega
    have a4 : (8 * p.off + p.start + i) % 8 = (p.start + i) % 8 := by omega
    simp [a1, a2, a3, a4]
    omega
  · have a1 : ¬ p.start + i < p.stop.toNat := by omega
    simp [a1]
    omega

theorem toBools_length (h : Heap) (p : PBA) (hwf : WF h p) : (toBools h p).length = p.n := by
  have := toBools_getElem? h p hwf
  apply Nat.le_antisymm
  · apply Nat.le_of_not_lt; intro hc
    have := this p.n; simp at this
    omega
  · apply Nat.le_of_not_lt; intro hc
    have := this (toBools h p).length
    simp [hc] at this

theorem toBools_eq (h : Heap) (p : PBA) (hwf : WF h p) :
    toBools h p = (List.range p.n).map fun i => hbit h (p.A + i) := by
  apply List.ext_getElem?
  intro i
  rw [toBools_getElem? h p hwf]
  by_cases hi : i < p.n <;> simp [hi]


theorem hbit_wr_mod (h' : Heap) (i lo hi : Nat) (g : Nat → Bool → Bool) (b : Byte)
    (hb : rdB h' i = b) (hi' : i < h'.size) (k : Nat) :
    hbit (wr h' i (pack (setRange (unpack b) lo hi g))) k =
      if k / 8 = i ∧ lo ≤ k % 8 ∧ k % 8 < hi then g (k % 8) (hbit h' k) else hbit h' k := by
  have ht : k % 8 < 8 := Nat.mod_lt _ (by omega)
  rw [hbit_wr]
  by_cases c : k / 8 = i
  · subst hb
    rw [if_pos ⟨c, hi'⟩, byteMod_getLsbD _ _ _ _ _ ht]
    simp only [c, true_and, hbit]
  · rw [if_neg (fun hh => c hh.1), if_neg (fun hh => c hh.1)]

theorem hbit_mid (h2 : Heap) (off a b : Nat) (hab : off + b ≤ h2.size)
    (midF : Nat → Byte → Byte) (F : Nat → Bool → Bool)
    (hm : ∀ i x t, i < b - a → t < 8 → (midF i x).getLsbD t = F (8 * (off + a + i) + t) (x.getLsbD t))
    (k : Nat) :
    hbit (mapRange h2 (off + a) (off + b) midF) k =
      if 8 * (off + a) ≤ k ∧ k < 8 * (off + b) then F k (hbit h2 k) else hbit h2 k := by
  have hk := Nat.div_add_mod k 8
  have ht : k % 8 < 8 := Nat.mod_lt _ (by omega)
  rw [hbit_mapRange]
  by_cases c1 : off + a ≤ k / 8 ∧ k / 8 < off + b ∧ k / 8 < h2.size
  · have hr : 8 * (off + a) ≤ k ∧ k < 8 * (off + b) := by omega
    rw [if_pos c1, hm _ _ _ (by omega) ht, if_pos hr]
    have : 8 * (off + a + (k / 8 - (off + a))) + k % 8 = k := by omega
    rw [this]; rfl
  · have hr : ¬ (8 * (off + a) ≤ k ∧ k < 8 * (off + b)) := by omega
    rw [if_neg c1, if_neg hr]

theorem applyParts_hbit_raw (h : Heap) (off len start e : Nat)
    (h1 : start < 8) (h2 : start ≤ e) (h3 : 8 * len ≤ e + 7) (h4 : e ≤ 8 * len) (h5 : off + len ≤ h.size)
    (f : FML) (hf : fml (fun i => rdB h (off + i)) len start (e : Int) false = .ok f)
    (firstF lastF : Nat → Bool → Bool) (midF : Heap → Nat → Byte → Byte) (F : Nat → Bool → Bool)
    (hfirst : ∀ t x, t < 8 → firstF t x = F (8 * off + t) x)
    (hlast : ∀ t x, t < 8 → lastF t x = F (8 * (off + len - 1) + t) x)
    (hmid : ∀ hc : Heap, hc.size = h.size → (∀ j, (j < off ∨ off + len ≤ j) → rdB hc j = rdB h j) →
      ∀ a b, f.mid = some (a, b) → ∀ i x t, i < b - a → t < 8 →
        (midF hc i x).getLsbD t = F (8 * (off + a + i) + t) (x.getLsbD t))
    (k : Nat) :
    hbit (applyParts h off len f firstF lastF midF) k =
      if 8 * off + start ≤ k ∧ k < 8 * off + e then F k (hbit h k) else hbit h k := by
  have hk := Nat.div_add_mod k 8
  have ht : k % 8 < 8 := Nat.mod_lt _ (by omega)
  have hF1 := hfirst (k % 8) (hbit h k) ht
  have hF2 := hlast (k % 8) (hbit h k) ht
  unfold fml at hf
  simp only [Bool.and_eq_true, beq_iff_eq, Bool.false_eq_true, if_false] at hf
  split at hf
  · -- fully aligned
    cases hf
    rename_i hc
    obtain ⟨rfl, hc⟩ := hc
    simp only [applyParts, Part.absent, hbit_mapRange]
    have hm := hmid h rfl (fun _ _ => rfl) 0 len rfl (k / 8 - (off + 0)) (rdB h (k / 8)) (k % 8)
    by_cases c1 : off + 0 ≤ k / 8 ∧ k / 8 < off + len ∧ k / 8 < h.size
    · have hr : 8 * off + 0 ≤ k ∧ k < 8 * off + e := by omega
      rw [if_pos c1, hm (by omega) ht, if_pos hr]
      have : 8 * (off + 0 + (k / 8 - (off + 0))) + k % 8 = k := by omega
      rw [this]; rfl
    · have hr : ¬ (8 * off + 0 ≤ k ∧ k < 8 * off + e) := by omega
      rw [if_neg c1, if_neg hr]
  · split at hf
    · -- aligned at 0
      rename_i hn hs
      subst hs
      split at hf
      · cases hf
      · rename_i hl
        have hsm : ((e : Int) % 8).toNat = e % 8 := by omega
        split at hf
        · -- short
          cases hf
          simp only [applyParts, Part.absent, hsm]
          rw [hbit_wr_mod h _ _ _ _ _ (by congr 1; omega) (by omega)]
          by_cases c1 : k / 8 = off + len - 1 ∧ 0 ≤ k % 8 ∧ k % 8 < e % 8
          · have hr : 8 * off + 0 ≤ k ∧ k < 8 * off + e := by omega
            have : 8 * (off + len - 1) + k % 8 = k := by omega
            rw [if_pos c1, if_pos hr, hF2, this]
          · have hr : ¬ (8 * off + 0 ≤ k ∧ k < 8 * off + e) := by omega
            rw [if_neg c1, if_neg hr]
        · -- longer
          cases hf
          simp only [applyParts, Part.absent, hsm]
          have hb : rdB h (off + len - 1) = rdB h (off + (len - 1)) := by congr 1; omega
          have hs2 := wr_size h (off + len - 1) (pack (setRange (unpack (rdB h (off + (len - 1)))) 0 (e % 8) lastF))
          rw [hbit_mid _ off 0 (len - 1) (by omega) _ F
            (hmid _ hs2 (by intro j hj; rw [rdB_wr, if_neg (by omega)]) 0 (len - 1) rfl)]
          rw [hbit_wr_mod h _ _ _ _ _ hb (by omega)]
          have hF2' : k / 8 = off + len - 1 → lastF (k % 8) (hbit h k) = F k (hbit h k) := by
            intro hh; rw [hF2]; congr 1; omega
          repeat' split
          all_goals first | rfl | omega | (rw [hF2' (by omega)]) | (exfalso; omega)
    · -- not aligned at 0
      rename_i hn hs
      split at hf
      · cases hf
      · rename_i hl
        have hsm : ((e : Int) % 8).toNat = e % 8 := by omega
        have hF1' : k / 8 = off → firstF (k % 8) (hbit h k) = F k (hbit h k) := by
          intro hh; rw [hF1]; congr 1; omega
        have hF2' : k / 8 = off + len - 1 → lastF (k % 8) (hbit h k) = F k (hbit h k) := by
          intro hh; rw [hF2]; congr 1; omega
        have hb0 : rdB h off = rdB h (off + 0) := rfl
        split at hf
        · -- aligned at the end
          rename_i he
          split at hf
          · -- one byte
            cases hf
            simp only [applyParts, Part.absent]
            rw [hbit_wr_mod h _ _ _ _ _ hb0 (by omega)]
            repeat' split
            all_goals first | rfl | omega | (rw [hF1' (by omega)]) | (exfalso; omega)
          · -- longer
            cases hf
            simp only [applyParts, Part.absent]
            have hs2 := wr_size h off (pack (setRange (unpack (rdB h (off + 0))) start 8 firstF))
            rw [hbit_mid _ off 1 len (by omega) _ F
              (hmid _ hs2 (by intro j hj; rw [rdB_wr, if_neg (by omega)]) 1 len rfl)]
            rw [hbit_wr_mod h _ _ _ _ _ hb0 (by omega)]
            repeat' split
            all_goals first | rfl | omega | (rw [hF1' (by omega)]) | (exfalso; omega)
        · rename_i he
          split at hf
          · -- one byte, unaligned at both ends
            cases hf
            simp only [applyParts, Part.absent, Int.toNat_natCast]
            rw [hbit_wr_mod h _ _ _ _ _ hb0 (by omega)]
            repeat' split
            all_goals first | rfl | omega | (rw [hF1' (by omega)]) | (exfalso; omega)
          · -- long, unaligned at both ends
            have hb : rdB (wr h off (pack (setRange (unpack (rdB h (off + 0))) start 8 firstF))) (off + len - 1)
                = rdB h (off + (len - 1)) := by
              rw [rdB_wr, if_neg (by omega)]; congr 1; omega
            have hs1 := wr_size h off (pack (setRange (unpack (rdB h (off + 0))) start 8 firstF))
            split at hf
            · -- no middle
              cases hf
              simp only [applyParts, hsm]
              rw [hbit_wr_mod _ _ _ _ _ _ hb (by omega), hbit_wr_mod h _ _ _ _ _ hb0 (by omega)]
              repeat' split
              all_goals first | rfl | omega | (rw [hF1' (by omega)]) | (rw [hF2' (by omega)]) | (exfalso; omega)
            · cases hf
              simp only [applyParts, hsm]
              rw [hbit_mid _ off 1 (len - 1) (by simp only [wr_size]; omega) _ F
                (hmid _ (by simp only [wr_size]) (by intro j hj; rw [rdB_wr, if_neg (by omega), rdB_wr, if_neg (by omega)]) 1 (len - 1) rfl)]
              rw [hbit_wr_mod _ _ _ _ _ _ hb (by omega), hbit_wr_mod h _ _ _ _ _ hb0 (by omega)]
              repeat' split
              all_goals first | rfl | omega | (rw [hF1' (by omega)]) | (rw [hF2' (by omega)]) | (exfalso; omega)

end Packed
end HS
