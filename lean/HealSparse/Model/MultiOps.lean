/-
  Union / intersection arithmetic over a list of maps.

  Mirrors operations.py `_apply_operation` (402-551): combined coverage, storage
  initialised to the filler, per-map gather/combine/scatter at the map's valid pixels,
  touched / ntouch bookkeeping, sentinel write-back, overflow reset.
-/
import HealSparse.Model.Core
import HealSparse.Model.Map
import HealSparse.Model.Valid
namespace HS

variable {V : Type}

/-- accumulator of the per-map loop: storage, touched flags (union), touch counts (intersection) -/
structure MultiAcc (V : Type) where
  sp     : Array V
  touch  : Array Nat

/-- one map's contribution (lines 510-535).  `first` ⇔ `m_index == 0 and fill_with_first_map`. -/
def multiStep (c : Cfg) (vc : VCfg V) (covOut : Array Int) (f : V → V → V) (first : Bool)
    (acc : MultiAcc V) (m : State V) : Option (MultiAcc V) :=
  (validPixels c vc m).map fun vp =>
    vp.foldl (fun acc p =>
      let pn := p.toNat
      let idx := ((p : Int) + rd covOut (pn >>> c.shift) 0).toNat
      let v := abs c vc m pn
      { sp := acc.sp.modify idx (fun x => if first then v else f x v)
        touch := acc.touch.modify idx (· + 1) }) acc

/-- the loop over the map list (lines 510-535) -/
def multiLoop (c : Cfg) (vc : VCfg V) (covOut : Array Int) (f : V → V → V) (fillFirst : Bool) :
    List (State V) → Nat → MultiAcc V → Option (MultiAcc V)
  | [], _, acc => some acc
  | m :: rest, i, acc =>
    match multiStep c vc covOut f (i == 0 && fillFirst) acc m with
    | none => none
    | some acc' => multiLoop c vc covOut f fillFirst rest (i + 1) acc'

/-- `_apply_operation(map_list, func, filler, union, fill_with_first_map)` for maps of one
    configuration.  `none` = a listing raised (never under `Inv`). -/
def multiOp (c : Cfg) (vc : VCfg V) (maps : List (State V)) (f : V → V → V) (filler : V)
    (union fillFirst : Bool) : Option (State V) :=
  let inCov (k : Nat) : Bool :=
    if union then maps.any (fun m => covered c m k) else maps.all (fun m => covered c m k)
  let covPix := (List.range c.ncov).filter inCov
  if covPix.isEmpty then
    some (makeEmpty c vc [])                       -- make_empty_like(map_list[0])
  else
    let covOut := initializePixels c (emptyCov c) covPix
    let size := (covPix.length + 1) * c.nfine
    let acc0 : MultiAcc V := ⟨Array.replicate size filler, Array.replicate size 0⟩
    (multiLoop c vc covOut f fillFirst maps 0 acc0).map fun acc =>
      let n := maps.length
      let sp1 := acc.sp.mapIdx fun i x =>
        if union then (if rd acc.touch i 0 == 0 then vc.sentinel else x)
        else (if rd acc.touch i 0 != n then vc.sentinel else x)
      let sp2 := sp1.mapIdx fun i x => if i < c.nfine then vc.sentinel else x
      { cov := covOut, sp := sp2 }

/-! ### dense specification -/

/-- values of the inputs valid at pixel `p`, in list order -/
def validInputs (c : Cfg) (vc : VCfg V) (maps : List (State V)) (p : Nat) : List V :=
  maps.filterMap fun m => if vc.valid (abs c vc m p) then some (abs c vc m p) else none

/-- the folded value the property prescribes at pixel `p` (seeded fold; see Props/C06 for
    the passage to the un-seeded fold when the filler is neutral) -/
def denseMulti (c : Cfg) (vc : VCfg V) (maps : List (State V)) (f : V → V → V) (filler : V)
    (union fillFirst : Bool) (p : Nat) : V :=
  let vs := validInputs c vc maps p
  if union then (if vs.isEmpty then vc.sentinel else vs.foldl f filler)
  else if vs.length = maps.length then
    (if fillFirst then (match vs with | [] => vc.sentinel | v :: rest => rest.foldl f v)
     else vs.foldl f filler)
  else vc.sentinel

end HS
