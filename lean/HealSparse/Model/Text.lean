/-
  Text encoding of the line protocol shared by the Python harness and the Lean driver.

    number  : `-7`  or `3^2` (= 3 / 2^2, dyadic)        bool : `T` / `F`
    bytes   : `b1.2.3`                                   record : `r1;2^1;3`
    list    : comma separated, empty list = `_`
    ranges  : `16:32,190:192`
-/
import HealSparse.Model.Value
namespace HS

def splitList (s : String) : List String :=
  if s == "_" || s == "" then [] else s.splitOn ","

def parseDy (s : String) : Option (Int × Nat) :=
  match s.splitOn "^" with
  | [n] => n.toInt?.map (·, 0)
  | [n, e] => do let n ← n.toInt?; let e ← e.toNat?; pure (n, e)
  | _ => none

def parseVal (s : String) : Option Val :=
  if s == "inf" then some (.inf false)
  else if s == "-inf" then some (.inf true)
  else if s == "T" then some (.bool true)
  else if s == "F" then some (.bool false)
  else if s.startsWith "b" then
    (((s.drop 1).toString.splitOn ".").mapM String.toNat?).map .bytes
  else if s.startsWith "r" then
    (((s.drop 1).toString.splitOn ";").mapM parseDy).map .recd
  else (parseDy s).map fun x => .num x.1 x.2

def parseVals (s : String) : Option (List Val) := (splitList s).mapM parseVal
def parseNats (s : String) : Option (List Nat) := (splitList s).mapM (·.toNat?)
def parseInts (s : String) : Option (List Int) := (splitList s).mapM (·.toInt?)

def parseRanges (s : String) : Option (List (Nat × Nat)) :=
  (splitList s).mapM fun r =>
    match r.splitOn ":" with
    | [a, b] => do let a ← a.toNat?; let b ← b.toNat?; pure (a, b)
    | _ => none

def showDy (x : Int × Nat) : String :=
  if x.2 == 0 then toString x.1 else s!"{x.1}^{x.2}"

def showVal : Val → String
  | .num n e => showDy (n, e)
  | .bool b => if b then "T" else "F"
  | .bytes bs => "b" ++ ".".intercalate (bs.map toString)
  | .recd fs => "r" ++ ";".intercalate (fs.map showDy)
  | .rat n d => s!"{n}/{d}"
  | .sqrtRat n d => s!"q{n}/{d}"
  | .inf neg => if neg then "-inf" else "inf"
  | .poison => "POISON"

def showList {α} (f : α → String) (l : List α) : String :=
  if l.isEmpty then "_" else ",".intercalate (l.map f)

def showVals (l : List Val) : String :=
  if l.any (· == .poison) then "inexact" else showList showVal l
def showNats (l : List Nat) : String := showList toString l
def showBits (l : List Bool) : String := String.ofList (l.map fun b => if b then '1' else '0')

/-- `i4`, `u1`, `f8`, `b1` -/
def parseDT (s : String) : Option DT :=
  match s with
  | "i1" => some (.int 8 true)  | "i2" => some (.int 16 true)
  | "i4" => some (.int 32 true) | "i8" => some (.int 64 true)
  | "u1" => some (.int 8 false)  | "u2" => some (.int 16 false)
  | "u4" => some (.int 32 false) | "u8" => some (.int 64 false)
  | "f4" => some (.flt 32) | "f8" => some (.flt 64)
  | "b1" => some .bool
  | _ => none

/-- key=value arguments of a protocol line -/
structure Args where
  pos : List String
  kv  : List (String × String)

def Args.get? (a : Args) (k : String) : Option String := (a.kv.find? (·.1 == k)).map (·.2)
def Args.getD (a : Args) (k : String) (d : String) : String := (a.get? k).getD d
def Args.nat? (a : Args) (k : String) : Option Nat := (a.get? k).bind (·.toNat?)
def Args.flag (a : Args) (k : String) : Bool := a.get? k == some "1"

def parseArgs (toks : List String) : Args :=
  toks.foldl (fun a t =>
    match t.splitOn "=" with
    | [k, v] => { a with kv := a.kv ++ [(k, v)] }
    | _ => { a with pos := a.pos ++ [t] }) ⟨[], []⟩

end HS
