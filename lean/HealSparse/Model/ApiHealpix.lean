/-
  HEALPix interchange on concrete map kinds: constructor from a dense array,
  generate_healpix_map, HEALPix-format files (explicit writer / explicit + implicit
  readers), interpolate_pos.
-/
import HealSparse.Model.ApiRes
import HealSparse.Model.Healpix
namespace HS

def unseenOf (dt : DT) : Val := (auxDT dt).defaultSentinel

/-- `HealSparseMap(healpix_map=…, nside_coverage=…, nest=True, sentinel=…)` (NEST array) -/
def apiFromHealpix (covord spord : Nat) (dt : DT) (sentinel : Option Val) (hp : List Val)
    (sentIsPyInt : Bool := dt.isInt) : Except Err MapObj := do
  if spord < covord then throw .value
  let c := cfgOf covord spord
  if hp.length != c.npix then throw .value
  -- constructor checks: integer array ⇔ integer sentinel (default sentinel is UNSEEN, a float)
  -- `sentIsPyInt`: the sentinel argument is a Python int (a Python float otherwise; None = UNSEEN, a float)
  let sentIsInt := sentinel.isSome && sentIsPyInt
  let explicitFloat := !sentIsInt
  if dt.isInt && !sentIsInt then throw .value
  if dt.isFlt && !explicitFloat then throw .value
  let sent ← checkSentinel dt sentinel
  let kind := Kind.plain dt
  let vc : VCfg Val := ⟨kind.blank sent, kind.valid sent⟩
  -- `healpix_map > UNSEEN`
  let uns := (unseenOf dt).numD
  let sel : Val → Bool := fun v => match v with
    | .num n e => dyLt uns (n, e)
    | _ => false
  pure { covord := covord, spord := spord, kind := kind, sent := sent,
         st := convertHealpix c vc hp.toArray sel }

/-- `generate_healpix_map(nside, reduction, key, nest)`; `perm` = (nest_to_ring, ring_to_nest) tables -/
def apiGenerateHealpix (m : MapObj) (ordOut : Option Nat) (red : String) (key : Option Nat)
    (perm : Option (Array Nat × Array Nat)) : Except Err (List Val) := do
  let single ← match m.kind with
    | .recd _ _ =>
      (match key with
       | none => throw .value
       | some i => apiGetSingleCopy m i none)
    | .wide _ => throw .notImpl
    | _ => pure m
  if !cellsFitF64 single.st.sp then throw .inexact
  let o := ordOut.getD m.spord
  let single ← if o < m.spord then apiDegrade single o red none
               else if o > m.spord then throw .value else pure single
  let (fill, conv) : Val × (Val → Val) := match single.kind with
    | .plain (.int _ _) => (unseenOf (.flt 64), id)
    | .plain (.flt b) => (unseenOf (.flt b), id)
    | _ => (single.sent, id)
  let c := single.c
  let res := match perm with
    | none => generateHealpix c single.vc single.st fill conv
    | some (n2r, r2n) =>
      generateHealpixRing c single.vc single.st fill conv (fun p => rd n2r p 0) (fun r => rd r2n r 0)
  match res with
  | some a => pure a.toList
  | none => throw .index

/-- `interpolate_pos`: per position the four neighbour pixels and weights (from hpgeom) -/
def apiInterp (m : MapObj) (nbrs : List (List (Nat × (Int × Nat)))) (allowPartial : Bool) :
    Except Err (List Val) := do
  match m.kind with
  | .plain .bool => throw .notImpl
  | .plain _ => pure ()
  | _ => throw .notImpl
  if nbrs.any (fun g => g.any fun pw => pw.1 ≥ m.npix) then throw .index
  if !cellsFitF64 m.st.sp then throw .inexact
  pure (nbrs.map fun g =>
    let vw := g.map fun pw => (m.abs pw.1, pw.2)
    match interpContrib m.vc vw allowPartial with
    | none => unseenOf (.flt 64)
    | some l =>
      let sxw := dySum (l.map fun p => dyMul p.1.numD p.2)
      let sw := dySum (l.map fun p => p.2)
      if sw.1 == 0 then .poison
      else
        let sgn : Int := if sw.1 < 0 then -1 else 1
        mkRat (sgn * sxw.1 * 2 ^ sw.2) (sw.1.natAbs * 2 ^ sxw.2))

/-- HEALPix-format files -/
inductive HpFile where
  | explicit (spord : Nat) (dt : DT) (sentinel : Val) (pix : List Nat) (vals : List Val)
  | implicit (spord : Nat) (dt : DT) (ring : Bool) (vals : List Val)

/-- `write(format='healpix')` (EXPLICIT, NESTED) -/
def apiWriteHealpix (m : MapObj) : Except Err HpFile := do
  let dt ← match m.kind with
    | .recd _ _ => throw .notImpl
    | .wide _ => throw .type
    | .packed => pure DT.bool
    | .plain dt => pure dt
  match validPixels m.c m.vc m.st with
  | none => throw .index
  | some vp =>
    let pix := vp.map Int.toNat
    pure (.explicit m.spord dt m.sent pix (pix.map m.abs))

/-- reading a HEALPix-format file; `r2n` = hpgeom's ring_to_nest table (RING files) -/
def apiReadHealpix (f : HpFile) (covord : Nat) (r2n : Option (Array Nat)) : Except Err MapObj := do
  match f with
  | .explicit spord dt sentinel pix vals =>
    if pix.isEmpty then throw .index              -- `data[0]` of an empty table
    let e ← apiMakeEmpty covord spord (.plain dt) (some sentinel) []
    apiUpdate e "replace" pix (some vals) false
  | .implicit spord dt ring vals =>
    let nest ← if ring then
        (match r2n with
         | some t => pure (reorderRingToNest (fun i => rd t i 0) vals.toArray (.num 0 0)).toList
         | none => throw (.bad "r2n"))
      else pure vals
    apiFromHealpix covord spord dt none nest

end HS
