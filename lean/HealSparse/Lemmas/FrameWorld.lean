/-
  C09 at the world level: the FRAME of every operation of the driver (Model/Dispatch.lean) —
  which pool entries, files, MOCs, HEALPix files and metadata a protocol line can change — and
  the NO-TIE theorem: a name no line of a history targets denotes the same map throughout.

  The driver is value-semantic: `World.bind r m` replaces the entry `r` and nothing else,
  `World.put n m` replaces the entry `n` (and, when `n` is a view, writes the column back into
  its parent).  Sharing exists only where the model has it on purpose: a VIEW descriptor is
  resolved BY NAME against its parent (`World.get?`), so what a view denotes follows its parent
  entry, and rebinding a parent's name changes (or ends) what its views denote — the last is an
  artefact of the by-name resolution (in the library a view holds a reference to the parent
  OBJECT), stated here as the side condition `parent ≠ r` of the frame lemmas.

  Every operation is classified (`classOf`, syntactically on the parsed line) and proved to
  obey its class (`frame_opXxx`, `frame_stepArgs`):
    static     the pool is unchanged (queries; `write` / `cat` / `moc` / `hpxwrite` / `hpximplicit`
               add one file / MOC / HEALPix file; `meta` one metadata entry)
    produce r  the pool is unchanged or `r` is rebound (`World.bind r m`): NO other entry changes,
               in particular no argument — not even its cache
    inplace n  the pool is unchanged or `n` is stored through (`World.put n m`)
    single     `get_single`: copy → produce; view → registers the descriptor `r`
    cfg / drop / reset
-/
import HealSparse.Lemmas.WFWorld
namespace HS

/-! ### lookups after `bind` / `put` / registration / `drop` -/

theorem List.find?_filter_ne {α : Type} (l : List (String × α)) (n r : String) (h : n ≠ r) :
    (l.filter (·.1 != r)).find? (·.1 == n) = l.find? (·.1 == n) := by
  induction l with
  | nil => rfl
  | cons e es ih =>
    by_cases he : e.1 = r
    · have h1 : (e.1 != r) = false := by simp [he]
      have h2 : (e.1 == n) = false := by
        rw [he]; simp; exact fun e' => h e'.symm
      rw [List.filter_cons, h1, List.find?_cons, h2]
      exact ih
    · have h1 : (e.1 != r) = true := by simp [he]
      rw [List.filter_cons, h1]
      simp only [if_true, List.find?_cons]
      cases (e.1 == n) <;> simp [ih]

theorem World.raw?_bind_ne (w : World) (r : String) (m : MapObj) {n : String} (h : n ≠ r) :
    (w.bind r m).raw? n = w.raw? n := by
  unfold World.raw? World.bind
  have h2 : (r == n) = false := by simp; exact fun e => h e.symm
  simp only [List.find?_cons, h2, List.find?_filter_ne _ n r h]

theorem World.raw?_bind_self (w : World) (r : String) (m : MapObj) :
    (w.bind r m).raw? r = some { m with view := none } := by
  unfold World.raw? World.bind
  simp [List.find?_cons]

/-- the entries `World.put n m` can change: `n`, and the parent of `n` when `n` is a view -/
theorem World.raw?_put_ne (w : World) (n : String) (m : MapObj) {x : String} (h : x ≠ n)
    (hp : ∀ pn i, (w.raw? n).bind (·.view) = some (pn, i) → x ≠ pn) :
    (w.put n m).raw? x = w.raw? x := by
  unfold World.put
  split
  · rename_i pn i y h1 h2
    split
    · rename_i p hpn
      have hx : x ≠ pn := hp pn i h1
      unfold World.raw?
      have e1 : (n == x) = false := by simp; exact fun e => h e.symm
      have e2 : (pn == x) = false := by simp; exact fun e => hx e.symm
      simp only [List.find?_cons, e1, e2]
      have : (w.pool.filter fun e => e.1 != n && e.1 != pn) =
          (w.pool.filter (·.1 != n)).filter (·.1 != pn) := by
        rw [List.filter_filter]; congr 1; funext e; exact Bool.and_comm _ _
      rw [this, List.find?_filter_ne _ x pn hx, List.find?_filter_ne _ x n h]
    · rfl
  · exact World.raw?_bind_ne w n m h

/-- `World.put` under a name that is not a view is `World.bind` -/
theorem World.put_eq_bind_of_owner (w : World) (n : String) (m : MapObj)
    (h : (w.raw? n).bind (·.view) = none) : w.put n m = w.bind n m := by
  unfold World.put World.bind
  rw [h]

theorem World.raw?_register_ne (w : World) (r : String) (d : MapObj) {n : String} (h : n ≠ r) :
    ({ w with pool := (r, d) :: w.pool.filter (·.1 != r) } : World).raw? n = w.raw? n := by
  unfold World.raw?
  have h2 : (r == n) = false := by simp; exact fun e => h e.symm
  simp only [List.find?_cons, h2, List.find?_filter_ne _ n r h]

theorem World.raw?_drop_ne (w : World) (r : String) {n : String} (h : n ≠ r) :
    ({ w with pool := w.pool.filter (·.1 != r) } : World).raw? n = w.raw? n := by
  unfold World.raw?
  simp only [List.find?_filter_ne _ n r h]

/-- **what a lookup depends on**: the entry itself and, for a view, the entry of its parent -/
theorem World.get?_congr {w w' : World} {n : String} (h1 : w'.raw? n = w.raw? n)
    (h2 : ∀ pn i, (w.raw? n).bind (·.view) = some (pn, i) → w'.raw? pn = w.raw? pn) :
    w'.get? n = w.get? n := by
  unfold World.get?
  rw [h1]
  cases hd : w.raw? n with
  | none => rfl
  | some d =>
    simp only
    cases hv : d.view with
    | none => rfl
    | some x =>
      obtain ⟨pn, i⟩ := x
      simp only
      rw [h2 pn i (by rw [hd]; exact hv)]

theorem World.get?_of_pool {w w' : World} (h : w'.pool = w.pool) (n : String) : w'.get? n = w.get? n := by
  have : ∀ x, w'.raw? x = w.raw? x := fun x => by unfold World.raw?; rw [h]
  exact World.get?_congr (this n) (fun pn _ _ => this pn)

/-- the name of the parent, if the name is bound to a view -/
def World.parentOf (w : World) (n : String) : Option String := ((w.raw? n).bind (·.view)).map (·.1)

theorem World.parentOf_ne {w : World} {n r : String} (h : w.parentOf n ≠ some r) :
    ∀ pn i, (w.raw? n).bind (·.view) = some (pn, i) → pn ≠ r := by
  intro pn i hv e
  apply h
  unfold World.parentOf
  rw [hv, e]; rfl

theorem World.put_files (w : World) (n : String) (m : MapObj) : (w.put n m).files = w.files := by
  unfold World.put; split
  · split <;> rfl
  · rfl
theorem World.put_mocs (w : World) (n : String) (m : MapObj) : (w.put n m).mocs = w.mocs := by
  unfold World.put; split
  · split <;> rfl
  · rfl
theorem World.put_hpfiles (w : World) (n : String) (m : MapObj) : (w.put n m).hpfiles = w.hpfiles := by
  unfold World.put; split
  · split <;> rfl
  · rfl
theorem World.put_metas (w : World) (n : String) (m : MapObj) : (w.put n m).metas = w.metas := by
  unfold World.put; split
  · split <;> rfl
  · rfl
theorem World.put_packed (w : World) (n : String) (m : MapObj) : (w.put n m).packed = w.packed := by
  unfold World.put; split
  · split <;> rfl
  · rfl

/-! ### the frame classes -/

/-- how a line may change the pool -/
inductive PoolClass where
  | static            -- not at all
  | produce           -- rebinds the result name `r=` (default `tmp`), or nothing
  | inplace           -- stores through the operated name, or nothing
  | single            -- `get_single`: produce (copy) or register the view descriptor `r`
  | cfg               -- rebinds the operated name
  | drop              -- removes the operated name
  | reset             -- empties the world
deriving DecidableEq, Repr

/-- how a line may change the metadata table -/
inductive MetaClass where
  | same | result | operand | reset
deriving DecidableEq, Repr

/-- the operated name (first positional argument) and the result name of a line -/
def Args.opName (a : Args) : String := a.pos.headD ""
def Args.resName (a : Args) : String := a.getD "r" "tmp"
def Args.fileName (a : Args) : String := a.getD "f" "f"

def poolFrame (c : PoolClass) (w : World) (a : Args) (w' : World) : Prop :=
  match c with
  | .static => w'.pool = w.pool
  | .produce => w'.pool = w.pool ∨ ∃ m, w'.pool = (w.bind a.resName m).pool
  | .inplace => w'.pool = w.pool ∨ ∃ m, w'.pool = (w.put a.opName m).pool
  | .single => w'.pool = w.pool ∨ (∃ m, w'.pool = (w.bind a.resName m).pool) ∨
      ∃ d, d.view ≠ none ∧ w'.pool = (a.resName, d) :: w.pool.filter (·.1 != a.resName)
  | .cfg => w'.pool = w.pool ∨ ∃ m, w'.pool = (w.bind a.opName m).pool
  | .drop => w'.pool = w.pool ∨ w'.pool = w.pool.filter (·.1 != a.opName)
  | .reset => w'.pool = []

/-- a table of named objects unchanged, or with the entry `k` replaced / added -/
def tableFrame {α : Type} (may : Bool) (k : String) (t t' : List (String × α)) : Prop :=
  t' = t ∨ (may = true ∧ ∃ x, t' = (k, x) :: t.filter (·.1 != k))

def metaFrame (c : MetaClass) (w : World) (a : Args) (w' : World) : Prop :=
  match c with
  | .same => w'.metas = w.metas
  | .result => tableFrame true a.resName w.metas w'.metas
  | .operand => tableFrame true a.opName w.metas w'.metas
  | .reset => w'.metas = []

/-- the frame of one line: pool, files, MOCs, HEALPix files, metadata, bit-packed arrays -/
structure Frame (c : PoolClass) (fw mw hw : Bool) (mc : MetaClass) (w : World) (a : Args) (w' : World) : Prop where
  pool : poolFrame c w a w'
  files : c = .reset ∨ tableFrame fw a.fileName w.files w'.files
  mocs : c = .reset ∨ tableFrame mw a.fileName w.mocs w'.mocs
  hpfiles : c = .reset ∨ tableFrame hw a.fileName w.hpfiles w'.hpfiles
  metas : metaFrame mc w a w'

set_option hygiene false in
/-- close a leaf of an operation: the concrete result world obeys the frame -/
macro "frame_leaf" : tactic => `(tactic| (
  refine ⟨?_, ?_, ?_, ?_, ?_⟩
  · first
    | exact rfl
    | exact Or.inl rfl
    | exact Or.inr ⟨_, rfl⟩
    | exact Or.inr (Or.inl ⟨_, rfl⟩)
    | (refine Or.inr (Or.inr ⟨_, ?_, rfl⟩); exact fun h => nomatch h)
    | exact Or.inr rfl
  all_goals first
    | exact Or.inr (Or.inl rfl)
    | exact Or.inr (Or.inr ⟨rfl, _, rfl⟩)
    | exact rfl
    | exact Or.inl rfl
    | exact Or.inr ⟨rfl, _, rfl⟩
    | exact Or.inr (Or.inl (World.put_files _ _ _))
    | exact Or.inr (Or.inl (World.put_mocs _ _ _))
    | exact Or.inr (Or.inl (World.put_hpfiles _ _ _))
    | exact World.put_metas _ _ _))

macro "frame_walk" : tactic => `(tactic| repeat' (first | frame_leaf | split | simp only []))

theorem frame_opChk (w : World) (a : Args) : Frame .static false false false .same w a (HS.opChk w a).1 := by
  unfold HS.opChk
  try unfold withMap
  frame_walk

theorem frame_opInfo (w : World) (a : Args) : Frame .static false false false .same w a (HS.opInfo w a).1 := by
  unfold HS.opInfo
  try unfold withMap
  frame_walk

theorem frame_opGetmeta (w : World) (a : Args) : Frame .static false false false .same w a (HS.opGetmeta w a).1 := by
  unfold HS.opGetmeta
  try unfold withMap
  frame_walk

theorem frame_opCovread (w : World) (a : Args) : Frame .static false false false .same w a (HS.opCovread w a).1 := by
  unfold HS.opCovread
  try unfold withMap
  frame_walk

theorem frame_opFitsraw (w : World) (a : Args) : Frame .static false false false .same w a (HS.opFitsraw w a).1 := by
  unfold HS.opFitsraw
  try unfold withMap
  frame_walk

theorem frame_opGenhp (w : World) (a : Args) : Frame .static false false false .same w a (HS.opGenhp w a).1 := by
  unfold HS.opGenhp
  try unfold withMap
  frame_walk

theorem frame_opInterp (w : World) (a : Args) : Frame .static false false false .same w a (HS.opInterp w a).1 := by
  unfold HS.opInterp
  try unfold withMap
  frame_walk

theorem frame_opRand (w : World) (a : Args) : Frame .static false false false .same w a (HS.opRand w a).1 := by
  unfold HS.opRand
  try unfold withMap
  frame_walk

theorem frame_opVals (w : World) (a : Args) : Frame .static false false false .same w a (HS.opVals w a).1 := by
  unfold HS.opVals
  try unfold withMap
  frame_walk

theorem frame_opGet (w : World) (a : Args) : Frame .static false false false .same w a (HS.opGet w a).1 := by
  unfold HS.opGet
  try unfold withMap
  frame_walk

theorem frame_opValid (w : World) (a : Args) : Frame .static false false false .same w a (HS.opValid w a).1 := by
  unfold HS.opValid
  try unfold withMap
  frame_walk

theorem frame_opCovmap (w : World) (a : Args) : Frame .static false false false .same w a (HS.opCovmap w a).1 := by
  unfold HS.opCovmap
  try unfold withMap
  frame_walk

theorem frame_opVpsc (w : World) (a : Args) : Frame .static false false false .same w a (HS.opVpsc w a).1 := by
  unfold HS.opVpsc
  try unfold withMap
  frame_walk

theorem frame_opCovmask (w : World) (a : Args) : Frame .static false false false .same w a (HS.opCovmask w a).1 := by
  unfold HS.opCovmask
  try unfold withMap
  frame_walk

theorem frame_opDump (w : World) (a : Args) : Frame .static false false false .same w a (HS.opDump w a).1 := by
  unfold HS.opDump
  try unfold withMap
  frame_walk

theorem frame_opState (w : World) (a : Args) : Frame .static false false false .same w a (HS.opState w a).1 := by
  unfold HS.opState
  try unfold withMap
  frame_walk

theorem frame_opBad (w : World) (a : Args) : Frame .static false false false .same w a (HS.opBad w a).1 := by
  unfold HS.opBad
  try unfold withMap
  frame_walk

theorem frame_opWrite (w : World) (a : Args) : Frame .static true false false .same w a (HS.opWrite w a).1 := by
  unfold HS.opWrite
  try unfold withMap
  frame_walk

theorem frame_opCat (w : World) (a : Args) : Frame .static true false false .same w a (HS.opCat w a).1 := by
  unfold HS.opCat
  try unfold withMap
  frame_walk

theorem frame_opMoc (w : World) (a : Args) : Frame .static false true false .same w a (HS.opMoc w a).1 := by
  unfold HS.opMoc
  try unfold withMap
  frame_walk

theorem frame_opHpxwrite (w : World) (a : Args) : Frame .static false false true .same w a (HS.opHpxwrite w a).1 := by
  unfold HS.opHpxwrite
  try unfold withMap
  frame_walk

theorem frame_opHpximplicit (w : World) (a : Args) : Frame .static false false true .same w a (HS.opHpximplicit w a).1 := by
  unfold HS.opHpximplicit
  try unfold withMap
  frame_walk

theorem frame_opMeta (w : World) (a : Args) : Frame .static false false false .operand w a (HS.opMeta w a).1 := by
  unfold HS.opMeta
  try unfold withMap
  frame_walk

theorem frame_opCopy (w : World) (a : Args) : Frame .produce false false false .same w a (HS.opCopy w a).1 := by
  unfold HS.opCopy
  try unfold withMap
  frame_walk

theorem frame_opAstype (w : World) (a : Args) : Frame .produce false false false .same w a (HS.opAstype w a).1 := by
  unfold HS.opAstype
  try unfold withMap
  frame_walk

theorem frame_opMop (w : World) (a : Args) : Frame .produce false false false .same w a (HS.opMop w a).1 := by
  unfold HS.opMop
  try unfold withMap
  frame_walk

theorem frame_opDeg (w : World) (a : Args) : Frame .produce false false false .same w a (HS.opDeg w a).1 := by
  unfold HS.opDeg
  try unfold withMap
  frame_walk

theorem frame_opUpg (w : World) (a : Args) : Frame .produce false false false .same w a (HS.opUpg w a).1 := by
  unfold HS.opUpg
  try unfold withMap
  frame_walk

theorem frame_opMocread (w : World) (a : Args) : Frame .produce false false false .same w a (HS.opMocread w a).1 := by
  unfold HS.opMocread
  try unfold withMap
  frame_walk

theorem frame_opScov (w : World) (a : Args) : Frame .produce false false false .same w a (HS.opScov w a).1 := by
  unfold HS.opScov
  try unfold withMap
  frame_walk

theorem frame_opFromhp (w : World) (a : Args) : Frame .produce false false false .same w a (HS.opFromhp w a).1 := by
  unfold HS.opFromhp
  try unfold withMap
  frame_walk

theorem frame_opHpxread (w : World) (a : Args) : Frame .produce false false false .same w a (HS.opHpxread w a).1 := by
  unfold HS.opHpxread
  try unfold withMap
  frame_walk

theorem frame_opFracdet (w : World) (a : Args) : Frame .produce false false false .same w a (HS.opFracdet w a).1 := by
  unfold HS.opFracdet
  unfold withMap
  frame_walk
  rename_i r _ hr _ _
  have e : a.resName = r := by unfold Args.resName Args.getD; rw [hr]; rfl
  rw [← e]
  frame_leaf

theorem frame_opPack (w : World) (a : Args) : Frame .produce false false false .result w a (HS.opPack w a).1 := by
  unfold HS.opPack
  try unfold withMap
  frame_walk

theorem frame_opRead (w : World) (a : Args) : Frame .produce false false false .result w a (HS.opRead w a).1 := by
  unfold HS.opRead
  try unfold withMap
  frame_walk

theorem frame_opDor (w : World) (a : Args) : Frame .produce false false false .result w a (HS.opDor w a).1 := by
  unfold HS.opDor
  try unfold withMap
  frame_walk

theorem frame_opUpd (w : World) (a : Args) : Frame .inplace false false false .same w a (HS.opUpd w a).1 := by
  unfold HS.opUpd
  try unfold withMap
  frame_walk

theorem frame_opUpdr (w : World) (a : Args) : Frame .inplace false false false .same w a (HS.opUpdr w a).1 := by
  unfold HS.opUpdr
  try unfold withMap
  frame_walk

theorem frame_opBits (w : World) (a : Args) : Frame .inplace false false false .same w a (HS.opBits w a).1 := by
  unfold HS.opBits
  try unfold withMap
  frame_walk

theorem frame_opSet (w : World) (a : Args) : Frame .inplace false false false .same w a (HS.opSet w a).1 := by
  unfold HS.opSet
  try unfold withMap
  frame_walk

theorem frame_opNvalid (w : World) (a : Args) : Frame .inplace false false false .same w a (HS.opNvalid w a).1 := by
  unfold HS.opNvalid
  try unfold withMap
  frame_walk

theorem frame_opSingle (w : World) (a : Args) : Frame .single false false false .same w a (HS.opSingle w a).1 := by
  unfold HS.opSingle
  try unfold withMap
  frame_walk

theorem frame_opCfg (w : World) (a : Args) : Frame .cfg false false false .same w a (HS.opCfg w a).1 := by
  unfold HS.opCfg
  frame_walk
  rename_i n _ _ _ _ _ _ hpos _ _ _ _ _ _ _ _
  have e : a.opName = n := by unfold Args.opName; rw [hpos]; rfl
  rw [← e]
  frame_leaf

theorem frame_opDrop (w : World) (a : Args) : Frame .drop false false false .same w a (HS.opDrop w a).1 := by
  unfold HS.opDrop
  frame_walk
  rename_i n _ hpos
  have e : a.opName = n := by unfold Args.opName; rw [hpos]; rfl
  rw [← e]
  frame_leaf


/-! ### operations whose class depends on a flag -/

theorem frame_opSop_inplace (w : World) (a : Args) (h : a.flag "inplace" = true) :
    Frame .inplace false false false .same w a (HS.opSop w a).1 := by
  unfold HS.opSop withMap
  simp only [h, ↓reduceIte, Bool.true_and]
  frame_walk

theorem frame_opSop_copy (w : World) (a : Args) (h : a.flag "inplace" = false) :
    Frame .produce false false false .same w a (HS.opSop w a).1 := by
  unfold HS.opSop withMap
  simp only [h, ↓reduceIte, Bool.false_and, Bool.false_eq_true]
  frame_walk

theorem frame_opMask_inplace (w : World) (a : Args) (h : a.flag "inplace" = true) :
    Frame .inplace false false false .same w a (HS.opMask w a).1 := by
  unfold HS.opMask withMap
  simp only [h, ↓reduceIte, Bool.true_and]
  frame_walk

theorem frame_opMask_copy (w : World) (a : Args) (h : a.flag "inplace" = false) :
    Frame .produce false false false .same w a (HS.opMask w a).1 := by
  unfold HS.opMask withMap
  simp only [h, ↓reduceIte, Bool.false_and, Bool.false_eq_true]
  frame_walk

theorem frame_opBop_inplace (w : World) (a : Args) (h : a.flag "inplace" = true) :
    Frame .inplace false false false .same w a (HS.opBop w a).1 := by
  unfold HS.opBop withMap
  simp only [h, ↓reduceIte, Bool.true_and]
  frame_walk

theorem frame_opBop_copy (w : World) (a : Args) (h : a.flag "inplace" = false) :
    Frame .produce false false false .same w a (HS.opBop w a).1 := by
  unfold HS.opBop withMap
  simp only [h, ↓reduceIte, Bool.false_and, Bool.false_eq_true]
  frame_walk

theorem frame_opInv_inplace (w : World) (a : Args) (h : a.flag "inplace" = true) :
    Frame .inplace false false false .same w a (HS.opInv w a).1 := by
  unfold HS.opInv withMap
  simp only [h, ↓reduceIte, Bool.true_and]
  frame_walk

theorem frame_opInv_copy (w : World) (a : Args) (h : a.flag "inplace" = false) :
    Frame .produce false false false .same w a (HS.opInv w a).1 := by
  unfold HS.opInv withMap
  simp only [h, ↓reduceIte, Bool.false_and, Bool.false_eq_true]
  frame_walk

/-- does `geom` operate in place (`mode=ior`, the default, and `mode=realize`) -/
def geomInPlace (a : Args) : Bool := a.getD "mode" "ior" == "ior" || a.getD "mode" "ior" == "realize"

theorem frame_opGeom_inplace (w : World) (a : Args) (h : geomInPlace a = true) :
    Frame .inplace false false false .same w a (HS.opGeom w a).1 := by
  unfold geomInPlace at h
  unfold HS.opGeom withMap
  by_cases h1 : (a.getD "mode" "ior" == "ior") = true
  · simp only [h1, ↓reduceIte]
    frame_walk
  · have h2 : (a.getD "mode" "ior" == "realize") = true := by simpa [h1] using h
    have h3 : (a.getD "mode" "ior" == "or") = false := by
      have := eq_of_beq h2; rw [this]; decide
    simp only [h1, h2, h3, ↓reduceIte, Bool.false_eq_true]
    frame_walk

theorem frame_opGeom_copy (w : World) (a : Args) (h : geomInPlace a = false) :
    Frame .produce false false false .same w a (HS.opGeom w a).1 := by
  unfold geomInPlace at h
  have h1 : (a.getD "mode" "ior" == "ior") = false := by
    cases h' : (a.getD "mode" "ior" == "ior") <;> simp_all
  have h2 : (a.getD "mode" "ior" == "realize") = false := by
    cases h' : (a.getD "mode" "ior" == "realize") <;> simp_all
  unfold HS.opGeom withMap
  simp only [h1, h2, ↓reduceIte, Bool.false_eq_true]
  frame_walk

theorem frame_opReset (w : World) (a : Args) : Frame .reset false false false .reset w a (HS.opReset w a).1 :=
  ⟨rfl, .inl rfl, .inl rfl, .inl rfl, rfl⟩

/-! ### the class of a line, syntactically -/

/-- in place if the flag is set, else producing -/
def flagClass (b : Bool) : PoolClass := if b then .inplace else .produce

theorem frame_opSop (w : World) (a : Args) :
    Frame (flagClass (a.flag "inplace")) false false false .same w a (HS.opSop w a).1 := by
  cases h : a.flag "inplace"
  · exact frame_opSop_copy w a h
  · exact frame_opSop_inplace w a h
theorem frame_opMask (w : World) (a : Args) :
    Frame (flagClass (a.flag "inplace")) false false false .same w a (HS.opMask w a).1 := by
  cases h : a.flag "inplace"
  · exact frame_opMask_copy w a h
  · exact frame_opMask_inplace w a h
theorem frame_opBop (w : World) (a : Args) :
    Frame (flagClass (a.flag "inplace")) false false false .same w a (HS.opBop w a).1 := by
  cases h : a.flag "inplace"
  · exact frame_opBop_copy w a h
  · exact frame_opBop_inplace w a h
theorem frame_opInv (w : World) (a : Args) :
    Frame (flagClass (a.flag "inplace")) false false false .same w a (HS.opInv w a).1 := by
  cases h : a.flag "inplace"
  · exact frame_opInv_copy w a h
  · exact frame_opInv_inplace w a h
theorem frame_opGeom (w : World) (a : Args) :
    Frame (flagClass (geomInPlace a)) false false false .same w a (HS.opGeom w a).1 := by
  cases h : geomInPlace a
  · exact frame_opGeom_copy w a h
  · exact frame_opGeom_inplace w a h

/-- **the frame class of a parsed line**: how it may change the pool, whether it may write a
    file / a MOC / a HEALPix file, how it may change the metadata table -/
def classOf (op : String) (a : Args) : PoolClass × Bool × Bool × Bool × MetaClass :=
  match op with
  | "cfg" => (.cfg, false, false, false, .same)
  | "upd" | "updr" | "bits" | "set" | "nvalid" => (.inplace, false, false, false, .same)
  | "sop" | "mask" | "bop" | "inv" => (flagClass (a.flag "inplace"), false, false, false, .same)
  | "geom" => (flagClass (geomInPlace a), false, false, false, .same)
  | "astype" | "copy" | "mop" | "deg" | "upg" | "mocread" | "scov" | "fromhp" | "hpxread" | "fracdet" =>
      (.produce, false, false, false, .same)
  | "pack" | "read" | "dor" => (.produce, false, false, false, .result)
  | "single" => (.single, false, false, false, .same)
  | "write" | "cat" => (.static, true, false, false, .same)
  | "moc" => (.static, false, true, false, .same)
  | "hpxwrite" | "hpximplicit" => (.static, false, false, true, .same)
  | "meta" => (.static, false, false, false, .operand)
  | "drop" => (.drop, false, false, false, .same)
  | "reset" => (.reset, false, false, false, .reset)
  | _ => (.static, false, false, false, .same)

/-- **every operation obeys the frame of its class** -/
theorem frame_stepArgs (w : World) (op : String) (a : Args) :
    Frame (classOf op a).1 (classOf op a).2.1 (classOf op a).2.2.1 (classOf op a).2.2.2.1 (classOf op a).2.2.2.2
      w a (HS.stepArgs w op a).1 := by
  unfold HS.stepArgs
  split
  · exact frame_opCfg w a
  · exact frame_opUpd w a
  · exact frame_opUpdr w a
  · exact frame_opSop w a
  · exact frame_opMask w a
  · exact frame_opAstype w a
  · exact frame_opPack w a
  · exact frame_opBop w a
  · exact frame_opInv w a
  · exact frame_opBits w a
  · exact frame_opChk w a
  · exact frame_opCopy w a
  · exact frame_opInfo w a
  · exact frame_opMop w a
  · exact frame_opDeg w a
  · exact frame_opUpg w a
  · exact frame_opMoc w a
  · exact frame_opMocread w a
  · exact frame_opSingle w a
  · exact frame_opScov w a
  · exact frame_opMeta w a
  · exact frame_opGetmeta w a
  · exact frame_opWrite w a
  · exact frame_opRead w a
  · exact frame_opCovread w a
  · exact frame_opFitsraw w a
  · exact frame_opDor w a
  · exact frame_opCat w a
  · exact frame_opFromhp w a
  · exact frame_opGenhp w a
  · exact frame_opInterp w a
  · exact frame_opHpxwrite w a
  · exact frame_opHpximplicit w a
  · exact frame_opHpxread w a
  · exact frame_opRand w a
  · exact frame_opGeom w a
  · exact frame_opSet w a
  · exact frame_opVals w a
  · exact frame_opGet w a
  · exact frame_opValid w a
  · exact frame_opNvalid w a
  · exact frame_opCovmap w a
  · exact frame_opVpsc w a
  · exact frame_opFracdet w a
  · exact frame_opCovmask w a
  · exact frame_opDump w a
  · exact frame_opState w a
  · exact frame_opDrop w a
  · exact frame_opReset w a
  · exact frame_opBad w a
  · rename_i h1 h2 h3 h4 h5 h6 h7 h8 h9 h10 h11 h12 h13 h14 h15 h16 h17 h18 h19 h20 h21 h22 h23 h24 h25 h26 h27 h28 h29
      h30 h31 h32 h33 h34 h35 h36 h37 h38 h39 h40 h41 h42 h43 h44 h45 h46 h47 h48 h49 h50 h51
    have : classOf op a = (.static, false, false, false, .same) := by
      unfold classOf
      split <;> first | rfl | (exfalso; first
        | exact h1 rfl | exact h2 rfl | exact h3 rfl | exact h4 rfl | exact h5 rfl | exact h6 rfl | exact h7 rfl
        | exact h8 rfl | exact h9 rfl | exact h10 rfl | exact h11 rfl | exact h12 rfl | exact h13 rfl | exact h14 rfl
        | exact h15 rfl | exact h16 rfl | exact h17 rfl | exact h18 rfl | exact h19 rfl | exact h20 rfl | exact h21 rfl
        | exact h22 rfl | exact h23 rfl | exact h24 rfl | exact h25 rfl | exact h26 rfl | exact h27 rfl | exact h28 rfl
        | exact h29 rfl | exact h30 rfl | exact h31 rfl | exact h32 rfl | exact h33 rfl | exact h34 rfl | exact h35 rfl
        | exact h36 rfl | exact h37 rfl | exact h38 rfl | exact h39 rfl | exact h40 rfl | exact h41 rfl | exact h42 rfl
        | exact h43 rfl | exact h44 rfl | exact h45 rfl | exact h46 rfl | exact h47 rfl | exact h48 rfl | exact h49 rfl
        | exact h50 rfl | exact h51 rfl)
    rw [this]
    exact ⟨rfl, .inr (.inl rfl), .inr (.inl rfl), .inr (.inl rfl), rfl⟩

/-! ### protocol lines -/

/-- the class and the parsed arguments of a protocol line (`p.*` lines work on the bit-packed
    ARRAYS of `World.packed` only; an empty line does nothing) -/
def lineClass (line : String) : (PoolClass × Bool × Bool × Bool × MetaClass) × Args :=
  match (line.trimAscii.toString.splitOn " ").filter (· != "") with
  | [] => ((.static, false, false, false, .same), ⟨[], []⟩)
  | op :: rest =>
    if op.startsWith "p." then ((.static, false, false, false, .same), parseArgs rest)
    else (classOf op (parseArgs rest), parseArgs rest)

/-- **every protocol line obeys the frame of its class** -/
theorem frame_step (w : World) (line : String) :
    Frame (lineClass line).1.1 (lineClass line).1.2.1 (lineClass line).1.2.2.1 (lineClass line).1.2.2.2.1
      (lineClass line).1.2.2.2.2 w (lineClass line).2 (HS.step w line).1 := by
  unfold HS.step lineClass
  simp only []
  generalize (line.trimAscii.toString.splitOn " ").filter (· != "") = toks
  cases toks with
  | nil => exact ⟨rfl, .inr (.inl rfl), .inr (.inl rfl), .inr (.inl rfl), rfl⟩
  | cons op rest =>
    by_cases hp : op.startsWith "p." = true
    · simp only [hp, ↓reduceIte]
      exact ⟨rfl, .inr (.inl rfl), .inr (.inl rfl), .inr (.inl rfl), rfl⟩
    · simp only [hp, ↓reduceIte]
      exact frame_stepArgs w _ _

/-! ### what the classes mean for lookups -/

theorem World.raw?_of_pool {w w' : World} (h : w'.pool = w.pool) (n : String) : w'.raw? n = w.raw? n := by
  unfold World.raw?; rw [h]

/-- **producing operations**: rebinding `r` leaves every other name as it was, unless it is a view
    of `r` (which is resolved by name against whatever `r` now is: the model's artefact) — exact
    equality, cache included -/
theorem produce_frame {w w' : World} {a : Args} (h : poolFrame .produce w a w') {x : String}
    (hx : x ≠ a.resName) (hp : w.parentOf x ≠ some a.resName) : w'.get? x = w.get? x := by
  rcases h with h | ⟨m, h⟩
  · exact World.get?_of_pool h x
  · have hr : ∀ y, y ≠ a.resName → w'.raw? y = w.raw? y := fun y hy =>
      (World.raw?_of_pool h y).trans (World.raw?_bind_ne w _ m hy)
    exact World.get?_congr (hr x hx) (fun pn i hv => hr pn (World.parentOf_ne hp pn i hv))

/-- the names an in-place operation on `n` can reach: `n` itself and, if `n` is a view, its parent -/
def World.reach (w : World) (n x : String) : Prop := x = n ∨ w.parentOf n = some x

theorem World.raw?_put_unreached (w : World) (n : String) (m : MapObj) {x : String} (h : ¬ w.reach n x) :
    (w.put n m).raw? x = w.raw? x := by
  apply World.raw?_put_ne w n m (fun e => h (.inl e))
  intro pn i hv e
  apply h
  right
  unfold World.parentOf
  rw [hv, e]; rfl

/-- **in-place operations** on `n`: a name is unchanged unless it is `n`, the parent of `n` (when
    `n` is a view: the column is written back), or a view of one of the two (a sibling view, a view
    of `n`: resolved against the changed entry) -/
theorem inplace_frame {w w' : World} {a : Args} (h : poolFrame .inplace w a w') {x : String}
    (hx : ¬ w.reach a.opName x) (hp : ∀ pn, w.parentOf x = some pn → ¬ w.reach a.opName pn) :
    w'.get? x = w.get? x := by
  rcases h with h | ⟨m, h⟩
  · exact World.get?_of_pool h x
  · refine World.get?_congr ((World.raw?_of_pool h x).trans (World.raw?_put_unreached w _ m hx)) ?_
    intro pn i hv
    refine (World.raw?_of_pool h pn).trans (World.raw?_put_unreached w _ m (hp pn ?_))
    unfold World.parentOf; rw [hv]; rfl

/-- **static operations** (queries; `write`, `cat`, `moc`, `hpxwrite`, `hpximplicit`, `meta`): every
    lookup is unchanged -/
theorem static_frame {w w' : World} {a : Args} (h : poolFrame .static w a w') (x : String) :
    w'.get? x = w.get? x := World.get?_of_pool h x

/-- `get_single`: a copy is a producing operation; a view registers the descriptor `r` -/
theorem single_frame {w w' : World} {a : Args} (h : poolFrame .single w a w') {x : String}
    (hx : x ≠ a.resName) (hp : w.parentOf x ≠ some a.resName) : w'.get? x = w.get? x := by
  rcases h with h | h | ⟨d, _, h⟩
  · exact World.get?_of_pool h x
  · exact produce_frame (.inr h) hx hp
  · have hr : ∀ y, y ≠ a.resName → w'.raw? y = w.raw? y := fun y hy =>
      (World.raw?_of_pool (w := { w with pool := (a.resName, d) :: w.pool.filter (·.1 != a.resName) }) h y).trans
        (World.raw?_register_ne w _ d hy)
    exact World.get?_congr (hr x hx) (fun pn i hv => hr pn (World.parentOf_ne hp pn i hv))

theorem cfg_frame {w w' : World} {a : Args} (h : poolFrame .cfg w a w') {x : String}
    (hx : x ≠ a.opName) (hp : w.parentOf x ≠ some a.opName) : w'.get? x = w.get? x := by
  rcases h with h | ⟨m, h⟩
  · exact World.get?_of_pool h x
  · have hr : ∀ y, y ≠ a.opName → w'.raw? y = w.raw? y := fun y hy =>
      (World.raw?_of_pool h y).trans (World.raw?_bind_ne w _ m hy)
    exact World.get?_congr (hr x hx) (fun pn i hv => hr pn (World.parentOf_ne hp pn i hv))

theorem drop_frame {w w' : World} {a : Args} (h : poolFrame .drop w a w') {x : String}
    (hx : x ≠ a.opName) (hp : w.parentOf x ≠ some a.opName) : w'.get? x = w.get? x := by
  rcases h with h | h
  · exact World.get?_of_pool h x
  · have hr : ∀ y, y ≠ a.opName → w'.raw? y = w.raw? y := fun y hy =>
      (World.raw?_of_pool (w := { w with pool := w.pool.filter (·.1 != a.opName) }) h y).trans
        (World.raw?_drop_ne w _ hy)
    exact World.get?_congr (hr x hx) (fun pn i hv => hr pn (World.parentOf_ne hp pn i hv))

/-! ### tables: files, MOCs, HEALPix files, metadata -/

/-- what a table holds under a name -/
def tableGet {α : Type} (t : List (String × α)) (k : String) : Option α := (t.find? (·.1 == k)).map (·.2)

theorem tableFrame_get {α : Type} {may : Bool} {k : String} {t t' : List (String × α)}
    (h : tableFrame may k t t') {x : String} (hx : x ≠ k) : tableGet t' x = tableGet t x := by
  rcases h with rfl | ⟨_, v, rfl⟩
  · rfl
  · unfold tableGet
    have h2 : (k == x) = false := by simp; exact fun e => hx e.symm
    simp only [List.find?_cons, h2, List.find?_filter_ne _ x k hx]

theorem tableFrame_false {α : Type} {k : String} {t t' : List (String × α)} (h : tableFrame false k t t') :
    t' = t := by
  rcases h with h | ⟨h, _⟩
  · exact h
  · cases h

/-- the metadata of a map name (`metaOf`, as the driver looks it up) -/
def World.metaAt (w : World) (n : String) : List (String × String) := (tableGet w.metas n).getD []

/-! ### writing through a view: the parent changes in exactly one field -/

theorem recField_recSetField_ne {i i' : Nat} (h : i' ≠ i) (r x : Val) :
    recField i' (recSetField i r x) = recField i' r := by
  cases r with
  | recd l =>
    cases x with
    | num n e =>
      show Val.num ((l.set i (n, e)).getD i' (0, 0)).1 ((l.set i (n, e)).getD i' (0, 0)).2 = _
      rw [List.getD_eq_getElem?_getD, List.getElem?_set_ne (Ne.symm h), ← List.getD_eq_getElem?_getD]
      rfl
    | _ => rfl
  | _ => cases x <;> rfl

/-- **`writeBackView` changes field `i` only**: same configuration, kind, sentinel, view flag, same
    coverage index, same storage size, and every other field of every cell as before -/
theorem writeBackView_frame (p : MapObj) (i : Nat) (m : MapObj) :
    (writeBackView p i m).covord = p.covord ∧ (writeBackView p i m).spord = p.spord ∧
    (writeBackView p i m).kind = p.kind ∧ (writeBackView p i m).sent = p.sent ∧
    (writeBackView p i m).view = p.view ∧ (writeBackView p i m).st.cov = p.st.cov ∧
    (writeBackView p i m).st.sp.size = p.st.sp.size ∧
    ∀ i', i' ≠ i → ∀ j : Nat,
      (writeBackView p i m).st.sp[j]?.map (recField i') = p.st.sp[j]?.map (recField i') := by
  refine ⟨rfl, rfl, rfl, rfl, rfl, rfl, by simp [writeBackView], ?_⟩
  intro i' hi j
  show (p.st.sp.mapIdx _)[j]?.map _ = _
  rw [Array.getElem?_mapIdx]
  cases p.st.sp[j]? with
  | none => rfl
  | some r => simp [recField_recSetField_ne hi]

/-- storing through a view `n` of field `i` of `pn` replaces the parent entry by
    `writeBackView p i m` -/
theorem World.raw?_put_parent (w : World) {n pn : String} {i : Nat} (m : MapObj) {p : MapObj} {v : String × Nat}
    (hv : (w.raw? n).bind (·.view) = some (pn, i)) (hm : m.view = some v) (hp : w.raw? pn = some p)
    (hne : n ≠ pn) : (w.put n m).raw? pn = some (writeBackView p i m) := by
  unfold World.put
  rw [hv, hm]
  simp only [hp]
  unfold World.raw?
  have e1 : (n == pn) = false := by simp [hne]
  simp [e1]

/-! ### no tie, for every continuation -/

/-- run a history from a world -/
def World.run (w : World) (lines : List String) : World := lines.foldl (fun w l => (HS.step w l).1) w

/-- **the line operates only on `t`**: it changes no pool entry at all (queries, file / MOC /
    HEALPix-file writers, `meta`, the `p.*` array lines, malformed lines), or it is an in-place
    operation whose operated name is `t` (`upd`, `updr`, `set`, `bits`, `nvalid`; `sop` / `mask` /
    `bop` / `inv` with `inplace=1`; `geom` with `mode=ior` or `realize`).
    EXCLUDED: every producing line (it rebinds its `r=` name), `cfg`, `single`, `drop`, `reset`,
    and in-place lines on another name. -/
def onlyOn (t : String) (line : String) : Bool :=
  match (lineClass line).1.1 with
  | .static => true
  | .inplace => (lineClass line).2.opName == t
  | _ => false

theorem onlyOn_step {w : World} {t : String} (ht : (w.raw? t).bind (·.view) = none) {line : String}
    (h : onlyOn t line = true) :
    (∀ x, x ≠ t → (HS.step w line).1.raw? x = w.raw? x) ∧
      ((HS.step w line).1.raw? t).bind (·.view) = none := by
  have hf := (frame_step w line).pool
  unfold onlyOn at h
  generalize (lineClass line).1.1 = c at hf h
  cases c <;> simp only [Bool.false_eq_true] at h
  · have hp : (HS.step w line).1.pool = w.pool := hf
    exact ⟨fun x _ => World.raw?_of_pool hp x, by rw [World.raw?_of_pool hp]; exact ht⟩
  · have ht' : (lineClass line).2.opName = t := eq_of_beq h
    rcases hf with hp | ⟨m, hp⟩
    · exact ⟨fun x _ => World.raw?_of_pool hp x, by rw [World.raw?_of_pool hp]; exact ht⟩
    · rw [ht', World.put_eq_bind_of_owner w t m ht] at hp
      refine ⟨fun x hx => (World.raw?_of_pool hp x).trans (World.raw?_bind_ne w t m hx), ?_⟩
      rw [World.raw?_of_pool hp, World.raw?_bind_self]
      rfl

/-- along a history that operates only on the owning name `t`, every other pool entry stays as
    it was, and `t` stays an owning name -/
theorem onlyOn_run {w : World} {t : String} (ht : (w.raw? t).bind (·.view) = none) (lines : List String)
    (h : ∀ l ∈ lines, onlyOn t l = true) :
    (∀ x, x ≠ t → (w.run lines).raw? x = w.raw? x) ∧ ((w.run lines).raw? t).bind (·.view) = none := by
  induction lines generalizing w with
  | nil => exact ⟨fun _ _ => rfl, ht⟩
  | cons l ls ih =>
    obtain ⟨h1, h2⟩ := onlyOn_step ht (h l List.mem_cons_self)
    obtain ⟨g1, g2⟩ := ih h2 (fun l' hl' => h l' (List.mem_cons_of_mem _ hl'))
    exact ⟨fun x hx => (g1 x hx).trans (h1 x hx), g2⟩

/-- **no tie**: whatever a history does in place to the owning name `t` (updates, growth, masking,
    boolean algebra, cache fills, … interleaved with any queries and file writes), every name `x`
    that is neither `t` nor a view of `t` denotes exactly the same map afterwards -/
theorem no_tie {w : World} {t x : String} (ht : (w.raw? t).bind (·.view) = none) (hx : x ≠ t)
    (hp : w.parentOf x ≠ some t) (lines : List String) (h : ∀ l ∈ lines, onlyOn t l = true) :
    (w.run lines).get? x = w.get? x := by
  obtain ⟨h1, _⟩ := onlyOn_run ht lines h
  exact World.get?_congr (h1 x hx) (fun pn i hv => h1 pn (World.parentOf_ne hp pn i hv))

/-- **a result is independent of its operand, and the operand of the result**: after a producing
    line has bound `r` (so `r` is an owning name), with an operand `n ≠ r` that is an owning name
    too: later in-place work on `r` is invisible through `n`, and later in-place work on `n` is
    invisible through `r` -/
theorem result_independent {w : World} {n r : String} (hn : (w.raw? n).bind (·.view) = none)
    (hr : (w.raw? r).bind (·.view) = none) (hne : n ≠ r) (lines : List String) :
    ((∀ l ∈ lines, onlyOn r l = true) → (w.run lines).get? n = w.get? n) ∧
    ((∀ l ∈ lines, onlyOn n l = true) → (w.run lines).get? r = w.get? r) := by
  have pn : w.parentOf n = none := by unfold World.parentOf; rw [hn]; rfl
  have pr : w.parentOf r = none := by unfold World.parentOf; rw [hr]; rfl
  exact ⟨fun h => no_tie hr hne (by rw [pn]; exact fun h => nomatch h) lines h,
    fun h => no_tie hn (Ne.symm hne) (by rw [pr]; exact fun h => nomatch h) lines h⟩

/-- after a producing line that did bind its result, the result name is an owning name -/
theorem produced_owner {w w' : World} {a : Args} {m : MapObj} (h : w'.pool = (w.bind a.resName m).pool) :
    (w'.raw? a.resName).bind (·.view) = none := by
  rw [World.raw?_of_pool h, World.raw?_bind_self]; rfl

/-! ### non-vacuity: two-phase histories (evaluated by the compiler; the kernel cannot run the
string parser) -/

/-- what the protocol shows of a name: storage, kind, orders, sentinel -/
def obsOf (w : World) (n : String) : String :=
  (HS.step w ("dump " ++ n)).2 ++ " | " ++ (HS.step w ("info " ++ n)).2

/-- produce `r` from `n`; mutate `r` (the lines must operate only on `r`) and re-read `n`: unchanged
    while `r` did change; then mutate `n` and re-read `r`: unchanged while `n` did change -/
def twoPhase (setup : List String) (prod : String) (r n : String) (mutR mutN : List String) : Bool :=
  let w1 := HS.runLines (setup ++ [prod])
  let w2 := w1.run mutR
  let w3 := w2.run mutN
  (HS.step (HS.runLines setup) prod).2 == "ok" && mutR.all (onlyOn r) && mutN.all (onlyOn n) &&
  obsOf w2 n == obsOf w1 n && obsOf w2 r != obsOf w1 r && obsOf w3 r == obsOf w2 r && obsOf w3 n != obsOf w2 n

def exSetupI : List String := [
  "cfg m kind=plain dtype=i4 covord=0 spord=2", "upd m pix=5,100 vals=3,4",
  "cfg b kind=plain dtype=b1 covord=0 spord=2", "upd b pix=5,7 val=T",
  "cfg b2 kind=plain dtype=b1 covord=0 spord=2", "upd b2 pix=7,150 val=T"]

def exSetupR : List String := [
  "cfg p kind=rec covord=0 spord=1 fields=i2,f8 primary=0 sentinel=7", "upd p pix=5,6 vals=r3;2,r4;8",
  "cfg q kind=rec covord=0 spord=1 fields=i2,f8 primary=0 sentinel=7", "upd q pix=5 vals=r1;1"]

-- growth of the result / of the operand on both sides (new coverage pixels), cache fill, scalar op
#guard twoPhase exSetupI "copy m r=c" "c" "m" ["upd c pix=6,150 vals=8,9", "nvalid c"]
  ["upd m pix=7,40 vals=1,2", "sop m op=add k=1 inplace=1"]
#guard twoPhase exSetupI "astype m dtype=f8 r=c" "c" "m" ["upd c pix=6,150 vals=8,9"] ["upd m pix=7,40 vals=1,2"]
#guard twoPhase exSetupI "sop m op=mul k=2 r=c" "c" "m" ["upd c pix=6,150 vals=8,9"] ["upd m pix=7,40 vals=1,2"]
#guard twoPhase exSetupI "mask m by=b r=c" "c" "m" ["upd c pix=6,150 vals=8,9"] ["upd m pix=7,40 vals=1,2"]
#guard twoPhase exSetupI "mask m by=b r=c" "c" "b" ["upd c pix=6,150 vals=8,9"] ["upd b pix=9,180 val=T"]
#guard twoPhase exSetupI "deg m ord=1 red=sum r=c" "c" "m" ["upd c pix=6,30 vals=8,9"] ["upd m pix=7,40 vals=1,2"]
#guard twoPhase exSetupI "upg m ord=3 r=c" "c" "m" ["upd c pix=6,700 vals=8,9"] ["upd m pix=7,40 vals=1,2"]
#guard twoPhase exSetupI "scov m k=0 r=c" "c" "m" ["upd c pix=6,150 vals=8,9"] ["upd m pix=7,40 vals=1,2"]
#guard twoPhase exSetupI "bop b op=or rhs=b2 r=c" "c" "b" ["upd c pix=6,160 val=T"] ["bop b op=or rhs=b2 inplace=1"]
#guard twoPhase exSetupI "bop b op=or rhs=b2 r=c" "c" "b2" ["inv c inplace=1"] ["upd b2 pix=9,180 val=T"]
#guard twoPhase exSetupI "mop maps=b,b2 name=ufunc_union ufunc=bitwise_or filler=F r=c" "c" "b2"
  ["upd c pix=6,160 val=T"] ["upd b2 pix=9,180 val=T"]
#guard twoPhase (exSetupI ++ ["write m f=f1"]) "read f=f1 r=c" "c" "m" ["upd c pix=6,150 vals=8,9"] ["upd m pix=7,40 vals=1,2"]
#guard twoPhase exSetupR "single p field=1 copy=1 r=c" "c" "p" ["upd c pix=7,30 vals=8,9"] ["upd p pix=9 vals=r5;5"]

/-- the answers of a history run from a setup -/
def answersAfter (setup lines : List String) : List String :=
  (lines.foldl (fun (wo : World × List String) l => ((HS.step wo.1 l).1, wo.2 ++ [(HS.step wo.1 l).2]))
    (HS.runLines setup, [])).2

-- WHERE THE MODEL SHARES, on purpose: a view `v` of field 1 of `p`.  Writing through `v` changes
-- `p` in field 1 only, the sibling view `v2` follows, the unrelated `q` does not; and — the
-- by-name artefact behind the side condition `parent ≠ r` — rebinding the NAME `p` changes what
-- `v` denotes (in the library the view keeps the old parent object alive)
#guard answersAfter exSetupR ["single p field=1 r=v", "single p field=1 r=v2", "get v pix=5,6", "upd v pix=5 val=9",
    "get p pix=5,6", "get v2 pix=5,6", "get q pix=5", "copy q r=p", "get v pix=5,6"] ==
  ["ok", "ok", "2,8", "ok", "r3;9,r4;8", "9,8", "r1;1", "ok", "1,-1637499999999999923489519697920"]
#guard !onlyOn "p" "upd v pix=5 val=9" && !onlyOn "m" "copy m r=c" && !onlyOn "m" "drop m" && !onlyOn "m" "reset" &&
  !onlyOn "m" "cfg m kind=plain dtype=i4 covord=0 spord=2" && !onlyOn "m" "single m field=0 r=v" &&
  !onlyOn "m" "sop m op=add k=1" && onlyOn "m" "sop m op=add k=1 inplace=1" && onlyOn "m" "write x f=f" &&
  onlyOn "m" "geom m ranges=0:4 value=1" && !onlyOn "m" "geom m ranges=0:4 value=1 mode=or"

end HS
