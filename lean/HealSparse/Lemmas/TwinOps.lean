/-
  C05 at the world level, part 2: every operation of Model/Dispatch.lean commutes with the
  normalisation of the world (Lemmas/TwinWorld.lean), outside the exception set `asym`.
-/
import HealSparse.Lemmas.TwinWorld
namespace HS
open WFApi WFRes WFFiles
set_option linter.unusedSimpArgs false
set_option linter.unusedVariables false

section
variable (co so : Nat) (st : State Val) (cache : Option Nat) (view : Option (String × Nat))
theorem apiSetBits_pkd_err (pix bits : List Nat) (clear : Bool) :
    apiSetBits (pkd co so st cache view) pix bits clear = .error .notImpl := rfl
theorem apiSetBits_bln_err (pix bits : List Nat) (clear : Bool) :
    apiSetBits (bln co so st cache view) pix bits clear = .error .notImpl := rfl
end

/-! ### operations on one looked-up map, no exception -/

theorem sim_opUpdr {w : World} (hw : w.Good) (a : Args) : Sim (HS.opUpdr w.norm a) (HS.opUpdr w a) := by
  unfold HS.opUpdr
  refine sim_withMap hw fun n m hn hget hok hsrc => ?_
  try dsimp +instances only [World.norm_mocs, World.norm_hpfiles, World.norm_metas]
  rcases m.packed_cases hok.2.1 with hp | ⟨co, so, st, cache, view, rfl⟩
  · try simp +instances only [MapObj.norm_of_ne hp]
    sim_walk0
  · try dsimp +instances only [pkd_norm]
    try simp only [apiUpdate_pkd_norm, apiUpdateRanges_pkd_norm, apiScalarOp_pkd, apiAstype_pkd,
      apiInvert_pkd, apiSetBits_pkd_err, apiSetBits_bln_err, apiCheckBits_pkd, apiInterp_pkd,
      apiWriteHealpix_pkd, apiGet_pkd, singleSentinel_pkd]
    sim_walk

theorem sim_opSop {w : World} (hw : w.Good) (a : Args) : Sim (HS.opSop w.norm a) (HS.opSop w a) := by
  unfold HS.opSop
  refine sim_withMap hw fun n m hn hget hok hsrc => ?_
  try dsimp +instances only [World.norm_mocs, World.norm_hpfiles, World.norm_metas]
  rcases m.packed_cases hok.2.1 with hp | ⟨co, so, st, cache, view, rfl⟩
  · try simp +instances only [MapObj.norm_of_ne hp]
    sim_walk0
  · try dsimp +instances only [pkd_norm]
    try simp only [apiUpdate_pkd_norm, apiUpdateRanges_pkd_norm, apiScalarOp_pkd, apiAstype_pkd,
      apiInvert_pkd, apiSetBits_pkd_err, apiSetBits_bln_err, apiCheckBits_pkd, apiInterp_pkd,
      apiWriteHealpix_pkd, apiGet_pkd, singleSentinel_pkd]
    sim_walk

theorem sim_opAstype {w : World} (hw : w.Good) (a : Args) : Sim (HS.opAstype w.norm a) (HS.opAstype w a) := by
  unfold HS.opAstype
  refine sim_withMap hw fun n m hn hget hok hsrc => ?_
  try dsimp +instances only [World.norm_mocs, World.norm_hpfiles, World.norm_metas]
  rcases m.packed_cases hok.2.1 with hp | ⟨co, so, st, cache, view, rfl⟩
  · try simp +instances only [MapObj.norm_of_ne hp]
    sim_walk0
  · try dsimp +instances only [pkd_norm]
    try simp only [apiUpdate_pkd_norm, apiUpdateRanges_pkd_norm, apiScalarOp_pkd, apiAstype_pkd,
      apiInvert_pkd, apiSetBits_pkd_err, apiSetBits_bln_err, apiCheckBits_pkd, apiInterp_pkd,
      apiWriteHealpix_pkd, apiGet_pkd, singleSentinel_pkd]
    sim_walk

theorem sim_opInv {w : World} (hw : w.Good) (a : Args) : Sim (HS.opInv w.norm a) (HS.opInv w a) := by
  unfold HS.opInv
  refine sim_withMap hw fun n m hn hget hok hsrc => ?_
  try dsimp +instances only [World.norm_mocs, World.norm_hpfiles, World.norm_metas]
  rcases m.packed_cases hok.2.1 with hp | ⟨co, so, st, cache, view, rfl⟩
  · try simp +instances only [MapObj.norm_of_ne hp]
    sim_walk0
  · try dsimp +instances only [pkd_norm]
    try simp only [apiUpdate_pkd_norm, apiUpdateRanges_pkd_norm, apiScalarOp_pkd, apiAstype_pkd,
      apiInvert_pkd, apiSetBits_pkd_err, apiSetBits_bln_err, apiCheckBits_pkd, apiInterp_pkd,
      apiWriteHealpix_pkd, apiGet_pkd, singleSentinel_pkd]
    sim_walk

theorem sim_opBits {w : World} (hw : w.Good) (a : Args) : Sim (HS.opBits w.norm a) (HS.opBits w a) := by
  unfold HS.opBits
  refine sim_withMap hw fun n m hn hget hok hsrc => ?_
  try dsimp +instances only [World.norm_mocs, World.norm_hpfiles, World.norm_metas]
  rcases m.packed_cases hok.2.1 with hp | ⟨co, so, st, cache, view, rfl⟩
  · try simp +instances only [MapObj.norm_of_ne hp]
    sim_walk0
  · try dsimp +instances only [pkd_norm]
    try simp only [apiUpdate_pkd_norm, apiUpdateRanges_pkd_norm, apiScalarOp_pkd, apiAstype_pkd,
      apiInvert_pkd, apiSetBits_pkd_err, apiSetBits_bln_err, apiCheckBits_pkd, apiInterp_pkd,
      apiWriteHealpix_pkd, apiGet_pkd, singleSentinel_pkd]
    sim_walk

theorem sim_opChk {w : World} (hw : w.Good) (a : Args) : Sim (HS.opChk w.norm a) (HS.opChk w a) := by
  unfold HS.opChk
  refine sim_withMap hw fun n m hn hget hok hsrc => ?_
  try dsimp +instances only [World.norm_mocs, World.norm_hpfiles, World.norm_metas]
  rcases m.packed_cases hok.2.1 with hp | ⟨co, so, st, cache, view, rfl⟩
  · try simp +instances only [MapObj.norm_of_ne hp]
    sim_walk0
  · try dsimp +instances only [pkd_norm]
    try simp only [apiUpdate_pkd_norm, apiUpdateRanges_pkd_norm, apiScalarOp_pkd, apiAstype_pkd,
      apiInvert_pkd, apiSetBits_pkd_err, apiSetBits_bln_err, apiCheckBits_pkd, apiInterp_pkd,
      apiWriteHealpix_pkd, apiGet_pkd, singleSentinel_pkd]
    sim_walk

theorem sim_opCopy {w : World} (hw : w.Good) (a : Args) : Sim (HS.opCopy w.norm a) (HS.opCopy w a) := by
  unfold HS.opCopy
  refine sim_withMap hw fun n m hn hget hok hsrc => ?_
  try dsimp +instances only [World.norm_mocs, World.norm_hpfiles, World.norm_metas]
  rcases m.packed_cases hok.2.1 with hp | ⟨co, so, st, cache, view, rfl⟩
  · try simp +instances only [MapObj.norm_of_ne hp]
    sim_walk0
  · try dsimp +instances only [pkd_norm]
    try simp only [apiUpdate_pkd_norm, apiUpdateRanges_pkd_norm, apiScalarOp_pkd, apiAstype_pkd,
      apiInvert_pkd, apiSetBits_pkd_err, apiSetBits_bln_err, apiCheckBits_pkd, apiInterp_pkd,
      apiWriteHealpix_pkd, apiGet_pkd, singleSentinel_pkd]
    sim_walk

theorem sim_opScov {w : World} (hw : w.Good) (a : Args) : Sim (HS.opScov w.norm a) (HS.opScov w a) := by
  unfold HS.opScov
  refine sim_withMap hw fun n m hn hget hok hsrc => ?_
  try dsimp +instances only [World.norm_mocs, World.norm_hpfiles, World.norm_metas]
  rcases m.packed_cases hok.2.1 with hp | ⟨co, so, st, cache, view, rfl⟩
  · try simp +instances only [MapObj.norm_of_ne hp]
    sim_walk0
  · try dsimp +instances only [pkd_norm]
    try simp only [apiUpdate_pkd_norm, apiUpdateRanges_pkd_norm, apiScalarOp_pkd, apiAstype_pkd,
      apiInvert_pkd, apiSetBits_pkd_err, apiSetBits_bln_err, apiCheckBits_pkd, apiInterp_pkd,
      apiWriteHealpix_pkd, apiGet_pkd, singleSentinel_pkd]
    sim_walk

theorem sim_opMeta {w : World} (hw : w.Good) (a : Args) : Sim (HS.opMeta w.norm a) (HS.opMeta w a) := by
  unfold HS.opMeta
  refine sim_withMap hw fun n m hn hget hok hsrc => ?_
  try dsimp +instances only [World.norm_mocs, World.norm_hpfiles, World.norm_metas]
  rcases m.packed_cases hok.2.1 with hp | ⟨co, so, st, cache, view, rfl⟩
  · try simp +instances only [MapObj.norm_of_ne hp]
    sim_walk0
  · try dsimp +instances only [pkd_norm]
    try simp only [apiUpdate_pkd_norm, apiUpdateRanges_pkd_norm, apiScalarOp_pkd, apiAstype_pkd,
      apiInvert_pkd, apiSetBits_pkd_err, apiSetBits_bln_err, apiCheckBits_pkd, apiInterp_pkd,
      apiWriteHealpix_pkd, apiGet_pkd, singleSentinel_pkd]
    sim_walk

theorem sim_opGetmeta {w : World} (hw : w.Good) (a : Args) : Sim (HS.opGetmeta w.norm a) (HS.opGetmeta w a) := by
  unfold HS.opGetmeta
  refine sim_withMap hw fun n m hn hget hok hsrc => ?_
  try dsimp +instances only [World.norm_mocs, World.norm_hpfiles, World.norm_metas]
  rcases m.packed_cases hok.2.1 with hp | ⟨co, so, st, cache, view, rfl⟩
  · try simp +instances only [MapObj.norm_of_ne hp]
    sim_walk0
  · try dsimp +instances only [pkd_norm]
    try simp only [apiUpdate_pkd_norm, apiUpdateRanges_pkd_norm, apiScalarOp_pkd, apiAstype_pkd,
      apiInvert_pkd, apiSetBits_pkd_err, apiSetBits_bln_err, apiCheckBits_pkd, apiInterp_pkd,
      apiWriteHealpix_pkd, apiGet_pkd, singleSentinel_pkd]
    sim_walk

theorem sim_opWrite {w : World} (hw : w.Good) (a : Args) : Sim (HS.opWrite w.norm a) (HS.opWrite w a) := by
  unfold HS.opWrite
  refine sim_withMap hw fun n m hn hget hok hsrc => ?_
  try dsimp +instances only [World.norm_mocs, World.norm_hpfiles, World.norm_metas]
  rcases m.packed_cases hok.2.1 with hp | ⟨co, so, st, cache, view, rfl⟩
  · try simp +instances only [MapObj.norm_of_ne hp]
    sim_walk0
  · try dsimp +instances only [pkd_norm]
    try simp only [apiUpdate_pkd_norm, apiUpdateRanges_pkd_norm, apiScalarOp_pkd, apiAstype_pkd,
      apiInvert_pkd, apiSetBits_pkd_err, apiSetBits_bln_err, apiCheckBits_pkd, apiInterp_pkd,
      apiWriteHealpix_pkd, apiGet_pkd, singleSentinel_pkd]
    sim_walk

theorem sim_opInterp {w : World} (hw : w.Good) (a : Args) : Sim (HS.opInterp w.norm a) (HS.opInterp w a) := by
  unfold HS.opInterp
  refine sim_withMap hw fun n m hn hget hok hsrc => ?_
  try dsimp +instances only [World.norm_mocs, World.norm_hpfiles, World.norm_metas]
  rcases m.packed_cases hok.2.1 with hp | ⟨co, so, st, cache, view, rfl⟩
  · try simp +instances only [MapObj.norm_of_ne hp]
    sim_walk0
  · try dsimp +instances only [pkd_norm]
    try simp only [apiUpdate_pkd_norm, apiUpdateRanges_pkd_norm, apiScalarOp_pkd, apiAstype_pkd,
      apiInvert_pkd, apiSetBits_pkd_err, apiSetBits_bln_err, apiCheckBits_pkd, apiInterp_pkd,
      apiWriteHealpix_pkd, apiGet_pkd, singleSentinel_pkd]
    sim_walk

theorem sim_opHpxwrite {w : World} (hw : w.Good) (a : Args) : Sim (HS.opHpxwrite w.norm a) (HS.opHpxwrite w a) := by
  unfold HS.opHpxwrite
  refine sim_withMap hw fun n m hn hget hok hsrc => ?_
  try dsimp +instances only [World.norm_mocs, World.norm_hpfiles, World.norm_metas]
  rcases m.packed_cases hok.2.1 with hp | ⟨co, so, st, cache, view, rfl⟩
  · try simp +instances only [MapObj.norm_of_ne hp]
    sim_walk0
  · try dsimp +instances only [pkd_norm]
    try simp only [apiUpdate_pkd_norm, apiUpdateRanges_pkd_norm, apiScalarOp_pkd, apiAstype_pkd,
      apiInvert_pkd, apiSetBits_pkd_err, apiSetBits_bln_err, apiCheckBits_pkd, apiInterp_pkd,
      apiWriteHealpix_pkd, apiGet_pkd, singleSentinel_pkd]
    sim_walk

theorem sim_opSet {w : World} (hw : w.Good) (a : Args) : Sim (HS.opSet w.norm a) (HS.opSet w a) := by
  unfold HS.opSet
  refine sim_withMap hw fun n m hn hget hok hsrc => ?_
  try dsimp +instances only [World.norm_mocs, World.norm_hpfiles, World.norm_metas]
  rcases m.packed_cases hok.2.1 with hp | ⟨co, so, st, cache, view, rfl⟩
  · try simp +instances only [MapObj.norm_of_ne hp]
    sim_walk0
  · try dsimp +instances only [pkd_norm]
    try simp only [apiUpdate_pkd_norm, apiUpdateRanges_pkd_norm, apiScalarOp_pkd, apiAstype_pkd,
      apiInvert_pkd, apiSetBits_pkd_err, apiSetBits_bln_err, apiCheckBits_pkd, apiInterp_pkd,
      apiWriteHealpix_pkd, apiGet_pkd, singleSentinel_pkd]
    sim_walk

theorem sim_opVals {w : World} (hw : w.Good) (a : Args) : Sim (HS.opVals w.norm a) (HS.opVals w a) := by
  unfold HS.opVals
  refine sim_withMap hw fun n m hn hget hok hsrc => ?_
  try dsimp +instances only [World.norm_mocs, World.norm_hpfiles, World.norm_metas]
  rcases m.packed_cases hok.2.1 with hp | ⟨co, so, st, cache, view, rfl⟩
  · try simp +instances only [MapObj.norm_of_ne hp]
    sim_walk0
  · try dsimp +instances only [pkd_norm]
    try simp only [apiUpdate_pkd_norm, apiUpdateRanges_pkd_norm, apiScalarOp_pkd, apiAstype_pkd,
      apiInvert_pkd, apiSetBits_pkd_err, apiSetBits_bln_err, apiCheckBits_pkd, apiInterp_pkd,
      apiWriteHealpix_pkd, apiGet_pkd, singleSentinel_pkd]
    sim_walk

theorem sim_opGet {w : World} (hw : w.Good) (a : Args) : Sim (HS.opGet w.norm a) (HS.opGet w a) := by
  unfold HS.opGet
  refine sim_withMap hw fun n m hn hget hok hsrc => ?_
  try dsimp +instances only [World.norm_mocs, World.norm_hpfiles, World.norm_metas]
  rcases m.packed_cases hok.2.1 with hp | ⟨co, so, st, cache, view, rfl⟩
  · try simp +instances only [MapObj.norm_of_ne hp]
    sim_walk0
  · try dsimp +instances only [pkd_norm]
    try simp only [apiUpdate_pkd_norm, apiUpdateRanges_pkd_norm, apiScalarOp_pkd, apiAstype_pkd,
      apiInvert_pkd, apiSetBits_pkd_err, apiSetBits_bln_err, apiCheckBits_pkd, apiInterp_pkd,
      apiWriteHealpix_pkd, apiGet_pkd, singleSentinel_pkd]
    sim_walk

theorem sim_opValid {w : World} (hw : w.Good) (a : Args) : Sim (HS.opValid w.norm a) (HS.opValid w a) := by
  unfold HS.opValid
  refine sim_withMap hw fun n m hn hget hok hsrc => ?_
  try dsimp +instances only [World.norm_mocs, World.norm_hpfiles, World.norm_metas]
  rcases m.packed_cases hok.2.1 with hp | ⟨co, so, st, cache, view, rfl⟩
  · try simp +instances only [MapObj.norm_of_ne hp]
    sim_walk0
  · try dsimp +instances only [pkd_norm]
    try simp only [apiUpdate_pkd_norm, apiUpdateRanges_pkd_norm, apiScalarOp_pkd, apiAstype_pkd,
      apiInvert_pkd, apiSetBits_pkd_err, apiSetBits_bln_err, apiCheckBits_pkd, apiInterp_pkd,
      apiWriteHealpix_pkd, apiGet_pkd, singleSentinel_pkd]
    sim_walk

theorem sim_opCovmap {w : World} (hw : w.Good) (a : Args) : Sim (HS.opCovmap w.norm a) (HS.opCovmap w a) := by
  unfold HS.opCovmap
  refine sim_withMap hw fun n m hn hget hok hsrc => ?_
  try dsimp +instances only [World.norm_mocs, World.norm_hpfiles, World.norm_metas]
  rcases m.packed_cases hok.2.1 with hp | ⟨co, so, st, cache, view, rfl⟩
  · try simp +instances only [MapObj.norm_of_ne hp]
    sim_walk0
  · try dsimp +instances only [pkd_norm]
    try simp only [apiUpdate_pkd_norm, apiUpdateRanges_pkd_norm, apiScalarOp_pkd, apiAstype_pkd,
      apiInvert_pkd, apiSetBits_pkd_err, apiSetBits_bln_err, apiCheckBits_pkd, apiInterp_pkd,
      apiWriteHealpix_pkd, apiGet_pkd, singleSentinel_pkd]
    sim_walk

theorem sim_opVpsc {w : World} (hw : w.Good) (a : Args) : Sim (HS.opVpsc w.norm a) (HS.opVpsc w a) := by
  unfold HS.opVpsc
  refine sim_withMap hw fun n m hn hget hok hsrc => ?_
  try dsimp +instances only [World.norm_mocs, World.norm_hpfiles, World.norm_metas]
  rcases m.packed_cases hok.2.1 with hp | ⟨co, so, st, cache, view, rfl⟩
  · try simp +instances only [MapObj.norm_of_ne hp]
    sim_walk0
  · try dsimp +instances only [pkd_norm]
    try simp only [apiUpdate_pkd_norm, apiUpdateRanges_pkd_norm, apiScalarOp_pkd, apiAstype_pkd,
      apiInvert_pkd, apiSetBits_pkd_err, apiSetBits_bln_err, apiCheckBits_pkd, apiInterp_pkd,
      apiWriteHealpix_pkd, apiGet_pkd, singleSentinel_pkd]
    sim_walk

theorem sim_opFracdet {w : World} (hw : w.Good) (a : Args) : Sim (HS.opFracdet w.norm a) (HS.opFracdet w a) := by
  unfold HS.opFracdet
  refine sim_withMap hw fun n m hn hget hok hsrc => ?_
  try dsimp +instances only [World.norm_mocs, World.norm_hpfiles, World.norm_metas]
  rcases m.packed_cases hok.2.1 with hp | ⟨co, so, st, cache, view, rfl⟩
  · try simp +instances only [MapObj.norm_of_ne hp]
    sim_walk0
  · try dsimp +instances only [pkd_norm]
    try simp only [apiUpdate_pkd_norm, apiUpdateRanges_pkd_norm, apiScalarOp_pkd, apiAstype_pkd,
      apiInvert_pkd, apiSetBits_pkd_err, apiSetBits_bln_err, apiCheckBits_pkd, apiInterp_pkd,
      apiWriteHealpix_pkd, apiGet_pkd, singleSentinel_pkd]
    sim_walk

theorem sim_opCovmask {w : World} (hw : w.Good) (a : Args) : Sim (HS.opCovmask w.norm a) (HS.opCovmask w a) := by
  unfold HS.opCovmask
  refine sim_withMap hw fun n m hn hget hok hsrc => ?_
  try dsimp +instances only [World.norm_mocs, World.norm_hpfiles, World.norm_metas]
  rcases m.packed_cases hok.2.1 with hp | ⟨co, so, st, cache, view, rfl⟩
  · try simp +instances only [MapObj.norm_of_ne hp]
    sim_walk0
  · try dsimp +instances only [pkd_norm]
    try simp only [apiUpdate_pkd_norm, apiUpdateRanges_pkd_norm, apiScalarOp_pkd, apiAstype_pkd,
      apiInvert_pkd, apiSetBits_pkd_err, apiSetBits_bln_err, apiCheckBits_pkd, apiInterp_pkd,
      apiWriteHealpix_pkd, apiGet_pkd, singleSentinel_pkd]
    sim_walk

theorem sim_opDump {w : World} (hw : w.Good) (a : Args) : Sim (HS.opDump w.norm a) (HS.opDump w a) := by
  unfold HS.opDump
  refine sim_withMap hw fun n m hn hget hok hsrc => ?_
  try dsimp +instances only [World.norm_mocs, World.norm_hpfiles, World.norm_metas]
  rcases m.packed_cases hok.2.1 with hp | ⟨co, so, st, cache, view, rfl⟩
  · try simp +instances only [MapObj.norm_of_ne hp]
    sim_walk0
  · try dsimp +instances only [pkd_norm]
    try simp only [apiUpdate_pkd_norm, apiUpdateRanges_pkd_norm, apiScalarOp_pkd, apiAstype_pkd,
      apiInvert_pkd, apiSetBits_pkd_err, apiSetBits_bln_err, apiCheckBits_pkd, apiInterp_pkd,
      apiWriteHealpix_pkd, apiGet_pkd, singleSentinel_pkd]
    sim_walk

theorem sim_opState {w : World} (hw : w.Good) (a : Args) : Sim (HS.opState w.norm a) (HS.opState w a) := by
  unfold HS.opState
  refine sim_withMap hw fun n m hn hget hok hsrc => ?_
  try dsimp +instances only [World.norm_mocs, World.norm_hpfiles, World.norm_metas]
  rcases m.packed_cases hok.2.1 with hp | ⟨co, so, st, cache, view, rfl⟩
  · try simp +instances only [MapObj.norm_of_ne hp]
    sim_walk0
  · try dsimp +instances only [pkd_norm]
    try simp only [apiUpdate_pkd_norm, apiUpdateRanges_pkd_norm, apiScalarOp_pkd, apiAstype_pkd,
      apiInvert_pkd, apiSetBits_pkd_err, apiSetBits_bln_err, apiCheckBits_pkd, apiInterp_pkd,
      apiWriteHealpix_pkd, apiGet_pkd, singleSentinel_pkd]
    sim_walk

theorem sim_opBad {w : World} (hw : w.Good) (a : Args) : Sim (HS.opBad w.norm a) (HS.opBad w a) := by
  unfold HS.opBad
  refine sim_withMap hw fun n m hn hget hok hsrc => ?_
  try dsimp +instances only [World.norm_mocs, World.norm_hpfiles, World.norm_metas]
  rcases m.packed_cases hok.2.1 with hp | ⟨co, so, st, cache, view, rfl⟩
  · try simp +instances only [MapObj.norm_of_ne hp]
    sim_walk0
  · try dsimp +instances only [pkd_norm]
    try simp only [apiUpdate_pkd_norm, apiUpdateRanges_pkd_norm, apiScalarOp_pkd, apiAstype_pkd,
      apiInvert_pkd, apiSetBits_pkd_err, apiSetBits_bln_err, apiCheckBits_pkd, apiInterp_pkd,
      apiWriteHealpix_pkd, apiGet_pkd, singleSentinel_pkd]
    sim_walk

theorem sim_opSingle {w : World} (hw : w.Good) (a : Args) : Sim (HS.opSingle w.norm a) (HS.opSingle w a) := by
  unfold HS.opSingle
  refine sim_withMap hw fun n m hn hget hok hsrc => ?_
  try dsimp +instances only [World.norm_mocs, World.norm_hpfiles, World.norm_metas]
  rcases m.packed_cases hok.2.1 with hp | ⟨co, so, st, cache, view, rfl⟩
  · try simp +instances only [MapObj.norm_of_ne hp]
    sim_walk0
  · try dsimp +instances only [pkd_norm]
    try simp only [apiUpdate_pkd_norm, apiUpdateRanges_pkd_norm, apiScalarOp_pkd, apiAstype_pkd,
      apiInvert_pkd, apiSetBits_pkd_err, apiSetBits_bln_err, apiCheckBits_pkd, apiInterp_pkd,
      apiWriteHealpix_pkd, apiGet_pkd, singleSentinel_pkd]
    sim_walk

theorem sim_opMoc {w : World} (hw : w.Good) (a : Args) : Sim (HS.opMoc w.norm a) (HS.opMoc w a) := by
  unfold HS.opMoc
  refine sim_withMap hw fun n m hn hget hok hsrc => ?_
  try dsimp +instances only [World.norm_mocs, World.norm_hpfiles, World.norm_metas]
  rcases m.packed_cases hok.2.1 with hp | ⟨co, so, st, cache, view, rfl⟩
  · try simp +instances only [MapObj.norm_of_ne hp]
    sim_walk0
  · try dsimp +instances only [pkd_norm]
    try simp only [apiUpdate_pkd_norm, apiUpdateRanges_pkd_norm, apiScalarOp_pkd, apiAstype_pkd,
      apiInvert_pkd, apiSetBits_pkd_err, apiSetBits_bln_err, apiCheckBits_pkd, apiInterp_pkd,
      apiWriteHealpix_pkd, apiGet_pkd, singleSentinel_pkd]
    sim_walk

/-! ### operations that look no map up -/

theorem sim_opCfg {w : World} (a : Args) : Sim (HS.opCfg w.norm a) (HS.opCfg w a) := by
  unfold HS.opCfg
  try dsimp +instances only [World.norm_mocs, World.norm_hpfiles, World.norm_metas]
  sim_walk0

theorem sim_opMocread {w : World} (a : Args) : Sim (HS.opMocread w.norm a) (HS.opMocread w a) := by
  unfold HS.opMocread
  try dsimp +instances only [World.norm_mocs, World.norm_hpfiles, World.norm_metas]
  sim_walk0

theorem sim_opFromhp {w : World} (a : Args) : Sim (HS.opFromhp w.norm a) (HS.opFromhp w a) := by
  unfold HS.opFromhp
  try dsimp +instances only [World.norm_mocs, World.norm_hpfiles, World.norm_metas]
  sim_walk0

theorem sim_opHpximplicit {w : World} (a : Args) : Sim (HS.opHpximplicit w.norm a) (HS.opHpximplicit w a) := by
  unfold HS.opHpximplicit
  try dsimp +instances only [World.norm_mocs, World.norm_hpfiles, World.norm_metas]
  sim_walk0

theorem sim_opHpxread {w : World} (a : Args) : Sim (HS.opHpxread w.norm a) (HS.opHpxread w a) := by
  unfold HS.opHpxread
  try dsimp +instances only [World.norm_mocs, World.norm_hpfiles, World.norm_metas]
  sim_walk0

theorem sim_opRand {w : World} (a : Args) : Sim (HS.opRand w.norm a) (HS.opRand w a) := by
  unfold HS.opRand
  try dsimp +instances only [World.norm_mocs, World.norm_hpfiles, World.norm_metas]
  sim_walk0

theorem sim_opDrop {w : World} (a : Args) : Sim (HS.opDrop w.norm a) (HS.opDrop w a) := by
  unfold HS.opDrop
  split
  · rename_i n _ _
    refine ⟨rfl, ?_⟩
    show World.norm _ = World.norm _
    simp only [World.norm, List.map_map, List.filter_map, World.mk.injEq, and_true, true_and]
    refine ⟨?_, List.map_congr_left (fun e _ => by simp [FileObj.norm_norm])⟩
    show List.map _ (List.filter (fun x => x.1 != n) w.pool) = _
    exact List.map_congr_left (fun e _ => by simp [MapObj.norm_norm])
  · exact sim_same w _

theorem sim_opReset {w : World} (a : Args) : Sim (HS.opReset w.norm a) (HS.opReset w a) := ⟨rfl, rfl⟩

/-! ### operations that are symmetric only on a non-boolean source map -/

theorem sim_opInfo {w : World} (hw : w.Good) (a : Args) (hex : srcBool w a = false) :
    Sim (HS.opInfo w.norm a) (HS.opInfo w a) := by
  unfold HS.opInfo
  refine sim_withMap hw fun n m hn hget hok hsrc => ?_
  try dsimp +instances only [World.norm_mocs, World.norm_hpfiles, World.norm_metas]
  have hp : m.kind ≠ .packed := Kind.ne_packed_of_isBool (by rw [← hsrc]; exact hex)
  try simp +instances only [MapObj.norm_of_ne hp]
  sim_walk0

theorem sim_opPack {w : World} (hw : w.Good) (a : Args) (hex : srcBool w a = false) :
    Sim (HS.opPack w.norm a) (HS.opPack w a) := by
  unfold HS.opPack
  refine sim_withMap hw fun n m hn hget hok hsrc => ?_
  try dsimp +instances only [World.norm_mocs, World.norm_hpfiles, World.norm_metas]
  have hp : m.kind ≠ .packed := Kind.ne_packed_of_isBool (by rw [← hsrc]; exact hex)
  try simp +instances only [MapObj.norm_of_ne hp]
  sim_walk0

theorem sim_opUpg {w : World} (hw : w.Good) (a : Args) (hex : srcBool w a = false) :
    Sim (HS.opUpg w.norm a) (HS.opUpg w a) := by
  unfold HS.opUpg
  refine sim_withMap hw fun n m hn hget hok hsrc => ?_
  try dsimp +instances only [World.norm_mocs, World.norm_hpfiles, World.norm_metas]
  have hp : m.kind ≠ .packed := Kind.ne_packed_of_isBool (by rw [← hsrc]; exact hex)
  try simp +instances only [MapObj.norm_of_ne hp]
  sim_walk0

theorem sim_opUpd {w : World} (hw : w.Good) (a : Args)
    (hex : (srcBool w a && a.get? "vdtype" == some "b1") = false) :
    Sim (HS.opUpd w.norm a) (HS.opUpd w a) := by
  unfold HS.opUpd
  refine sim_withMap hw fun n m hn hget hok hsrc => ?_
  try dsimp +instances only [World.norm_mocs, World.norm_hpfiles, World.norm_metas]
  rcases m.packed_cases hok.2.1 with hp | ⟨co, so, st, cache, view, rfl⟩
  · simp +instances only [MapObj.norm_of_ne hp]
    sim_walk0
  · have hvd : a.get? "vdtype" ≠ some "b1" := by
      rw [hsrc] at hex
      have h2 : Kind.packed.isBool = true → ¬ a.get? "vdtype" = some "b1" := by simpa using hex
      exact h2 rfl
    dsimp +instances only [pkd_norm]
    simp only [apiUpdate_pkd_norm]
    cases hv : a.get? "vdtype" with
    | none => sim_walk
    | some t =>
      have ht : (t != dtCode .bool) = true := by
        rw [hv] at hvd
        simp only [bne_iff_ne, ne_eq]
        intro h; apply hvd; rw [h]; rfl
      simp only [bln_kind, pkd_kind, ht]
      sim_walk


set_option maxHeartbeats 1000000 in
theorem sim_opGeom {w : World} (hw : w.Good) (a : Args) : Sim (HS.opGeom w.norm a) (HS.opGeom w a) := by
  unfold HS.opGeom
  refine sim_withMap hw fun n m hn hget hok hsrc => ?_
  try dsimp +instances only [World.norm_mocs, World.norm_hpfiles, World.norm_metas]
  rcases m.packed_cases hok.2.1 with hp | ⟨co, so, st, cache, view, rfl⟩
  · simp +instances only [MapObj.norm_of_ne hp]
    sim_walk0
  · dsimp +instances only [pkd_norm]
    cases hR : parseRanges (a.getD "ranges" "_") with
    | none => exact sim_same w _
    | some R =>
    simp only []
    split
    · cases hb : (a.get? "bits").bind parseNats <;> cases hs : (a.get? "value").bind parseVal <;>
        simp +instances only [pkd_kind, bln_kind, bind, Except.bind] <;> sim_walk
    · split
      · cases hb : (a.get? "bits").bind parseNats <;> cases hs : (a.get? "value").bind parseVal <;>
          simp +instances only [pkd_kind, bln_kind, bind, Except.bind] <;> sim_walk
      · split
        · cases hb : (a.get? "bits").bind parseNats <;> cases hs : (a.get? "value").bind parseVal
          · simp +instances only [pkd_kind, bln_kind, Kind.isIntegerMap.eq_2, Kind.isIntegerMap.eq_3]
            sim_walk
          · rename_i val
            rcases val with ⟨k, e⟩ | b | bs | fs | ⟨n, d⟩ | ⟨n, d⟩ | ng | _ <;> (try cases e) <;>
              simp +instances only [pkd_kind, bln_kind, Kind.isIntegerMap.eq_2, Kind.isIntegerMap.eq_3] <;>
              sim_walk
          · simp +instances only [pkd_kind, bln_kind, Kind.isIntegerMap.eq_2, Kind.isIntegerMap.eq_3]
            sim_walk
          · simp +instances only [pkd_kind, bln_kind, Kind.isIntegerMap.eq_2, Kind.isIntegerMap.eq_3]
            sim_walk
        · sim_walk

end HS
