/-
  C06 — union/intersection map arithmetic folds exactly the inputs valid at each pixel.
  Property theorems only (helpers in HealSparse/Lemmas).
-/
import HealSparse.Lemmas.Core
import HealSparse.Lemmas.Coverage
import HealSparse.Lemmas.Valid
import HealSparse.Lemmas.MultiOps
import HealSparse.Model.MultiOps
import HealSparse.Model.Api
import HealSparse.Generated.OpsTable
import HealSparse.Props.C04
import HealSparse.Props.C02
import HealSparse.Lemmas.ApiMulti
namespace HS
namespace C06

variable {V : Type} [DecidableEq V]

/-- **Refinement** of `_apply_operation`: for any list of well-formed maps of one
    configuration (any block orders, any coverage relations), any operation `f`, any start
    value: it never raises, the result is a well-formed map, its value at every pixel is the
    seeded fold over the inputs valid there under the union / intersection validity rule
    (sentinel otherwise), and its coverage mask is the union / intersection of the inputs'. -/
theorem multiOp_spec (c : Cfg) (vc : VCfg V) (maps : List (State V)) (f : V → V → V) (filler : V)
    (union fillFirst : Bool) (hInv : ∀ m ∈ maps, Inv c vc m) (hv : vc.valid vc.sentinel = false)
    (hne : maps ≠ []) (hff : fillFirst = true → union = false) :
    ∃ r, multiOp c vc maps f filler union fillFirst = some r ∧ Inv c vc r ∧
      (∀ p, p < c.npix → abs c vc r p = denseMulti c vc maps f filler union fillFirst p) ∧
      (∀ k, k < c.ncov → covered c r k =
          if union then maps.any (fun m => covered c m k) else maps.all (fun m => covered c m k)) := by
  exact multiOp_spec' c vc maps f filler union fillFirst hInv hv hne hff

/-- With a neutral start value the seeded fold is the operation folded, in list order, over
    exactly the valid inputs (what the property states for the named operations). -/
theorem fold_neutral (f : V → V → V) (e : V) (vs : List V) (hne : vs ≠ [])
    (hneutral : ∀ x ∈ vs, f e x = x) :
    vs.foldl f e = (vs.tail).foldl f (vs.headD e) := by
  exact foldl_neutral f e vs hne hneutral

/-- Union mode, neutral start: valid-at-some-input pixels hold the plain fold of the valid
    inputs; pixels valid in no input hold the sentinel. -/
theorem union_fold (c : Cfg) (vc : VCfg V) (maps : List (State V)) (f : V → V → V) (e : V)
    (hInv : ∀ m ∈ maps, Inv c vc m) (hv : vc.valid vc.sentinel = false) (hne : maps ≠ [])
    (hneutral : ∀ x, vc.valid x = true → f e x = x)
    (r : State V) (hr : multiOp c vc maps f e true false = some r) (p : Nat) (hp : p < c.npix) :
    abs c vc r p =
      match validInputs c vc maps p with
      | [] => vc.sentinel
      | v :: rest => rest.foldl f v := by
  obtain ⟨r', hr', _, habs, _⟩ :=
    multiOp_spec c vc maps f e true false hInv hv hne (fun h => absurd h (by decide))
  rw [hr] at hr'
  cases hr'
  rw [habs p hp]
  unfold denseMulti
  simp only [if_true]
  by_cases hvs : validInputs c vc maps p = []
  · rw [hvs]; rfl
  · have hemp : (validInputs c vc maps p).isEmpty = false := by
      simpa [List.isEmpty_iff] using hvs
    rw [hemp]
    simp only [Bool.false_eq_true, if_false]
    exact foldl_neutral_match f e vc.sentinel _ hvs
      (fun x hx => hneutral x (validInputs_valid c vc maps p x hx))

/-- Intersection mode (neutral start or `fill_with_first_map`): pixels valid in all inputs
    hold the fold over all of them in list order; all others hold the sentinel. -/
theorem intersection_fold (c : Cfg) (vc : VCfg V) (maps : List (State V)) (f : V → V → V) (e : V)
    (fillFirst : Bool)
    (hInv : ∀ m ∈ maps, Inv c vc m) (hv : vc.valid vc.sentinel = false) (hne : maps ≠ [])
    (hneutral : fillFirst = false → ∀ x, vc.valid x = true → f e x = x)
    (r : State V) (hr : multiOp c vc maps f e false fillFirst = some r) (p : Nat) (hp : p < c.npix) :
    abs c vc r p =
      if (validInputs c vc maps p).length = maps.length then
        (match validInputs c vc maps p with
         | [] => vc.sentinel
         | v :: rest => rest.foldl f v)
      else vc.sentinel := by
  obtain ⟨r', hr', _, habs, _⟩ :=
    multiOp_spec c vc maps f e false fillFirst hInv hv hne (fun _ => rfl)
  rw [hr] at hr'
  cases hr'
  rw [habs p hp]
  unfold denseMulti
  simp only [Bool.false_eq_true, if_false]
  split
  · rename_i hlen
    cases fillFirst with
    | true => rfl
    | false =>
      simp only [Bool.false_eq_true, if_false]
      have hvs : validInputs c vc maps p ≠ [] := by
        intro h0
        rw [h0] at hlen
        exact hne (List.eq_nil_of_length_eq_zero hlen.symm)
      exact foldl_neutral_match f e vc.sentinel _ hvs
        (fun x hx => hneutral rfl x (validInputs_valid c vc maps p x hx))
  · rfl

/-! ### obligations over the operation table extracted from the source -/

/-- membership of a cell in the carrier of dtype code `dt`: integers representable at the
    width of `dt`; floats as *normalised* dyadics `n / 2^e` (the normal form every `Val`
    operation returns — `dyNorm`; without it `0 + x = x` fails syntactically, e.g.
    `add 0 (2/2^1) = 1/2^0`) -/
def inCarrier (dt : String) (x : Val) : Bool :=
  match parseDTCode dt, x with
  | some (.int b sg), .num n 0 => wrapInt b sg n == n
  | some (.flt _), .num n e => dyNorm n e == (n, e)
  | _, _ => false

/-- dtype code of an integer / floating-point dtype -/
def isIntCode (dt : String) : Bool :=
  match parseDTCode dt with
  | some (.int _ _) => true
  | _ => false

def isFltCode (dt : String) : Bool :=
  match parseDTCode dt with
  | some (.flt _) => true
  | _ => false

/-- the row's filler is neutral for its ufunc on the whole carrier of the first map's dtype,
    and adding it does not change the array dtype (decided row by row).  Rows of an
    `int_only` operation over a floating-point dtype are vacuous: `_apply_operation` raises
    `ValueError` before the filler is ever used (`apiMultiOp` throws `.value`). -/
def rowOk (r : OpRow) : Bool :=
  let dtArr := if r.dtypeOut == "" then (if r.dt == "u1w" then "u1" else r.dt) else r.dtypeOut
  r.promoted == dtArr &&
  (r.fillFirst || (r.intOnly && isFltCode r.dt) ||
    match r.ufunc, (if r.dt == "u1w" then "u1" else r.dt), r.filler with
    | "add", _, .num 0 _ => true
    | "multiply", _, .num 1 0 => true
    | "bitwise_or", dt, .num 0 _ => isIntCode dt
    | "bitwise_xor", dt, .num 0 _ => isIntCode dt
    | "bitwise_and", dt, .num k 0 =>
        (match parseDTCode dt with
         | some (.int b sg) => k == (if sg then -1 else 2 ^ b - 1)
         | _ => false)
    | "fmax", dt, fl =>
        (match parseDTCode dt, fl with
         | some (.int b sg), .num k 0 => k == (if sg then -(2 ^ (b - 1)) else 0)
         | some (.flt _), .inf true => true
         | _, _ => false)
    | "fmin", dt, fl =>
        (match parseDTCode dt, fl with
         | some (.int b sg), .num k 0 => k == (if sg then 2 ^ (b - 1) - 1 else 2 ^ b - 1)
         | some (.flt _), .inf false => true
         | _, _ => false)
    | _, _, _ => false)

/-- soundness of the row check: an accepted row's filler is neutral on the carrier.
    `hio`: the front end only lets an `int_only` operation through on integer maps. -/
theorem rowOk_sound (r : OpRow) (h : rowOk r = true) (hf : r.fillFirst = false) (hw : r.dt ≠ "u1w")
    (dt : DT) (hdt : parseDTCode r.dt = some dt) (hio : r.intOnly = true → dt.isInt = true)
    (x : Val) (hx : inCarrier r.dt x = true) :
    ufuncCell r.ufunc dt r.filler x = x := by
  obtain ⟨name, ufunc, dts, filler, promoted, union, intOnly, fillFirst, dtypeOut⟩ := r
  simp only at hf hw hdt hio hx ⊢
  subst hf
  unfold rowOk at h
  simp only [beq_iff_eq, hw, if_false, Bool.false_or, Bool.and_eq_true, Bool.or_eq_true] at h
  obtain ⟨-, h⟩ := h
  unfold inCarrier at hx
  rw [hdt] at hx
  cases dt with
  | bool => simp at hx
  | int b sg =>
    have hb := parseDTCode_bits_pos hdt
    have hnf : isFltCode dts = false := by simp [isFltCode, hdt]
    simp only [hnf, Bool.false_eq_true, and_false, false_or] at h
    cases x with
    | num n e =>
      cases e with
      | succ e => simp at hx
      | zero =>
        simp only [beq_iff_eq] at hx
        have hbd := wrapInt_bounds b hb sg n hx
        split at h
        · exact add_zero_int b sg _ n hx
        · exact mul_one_int b sg n hx
        · exact or_zero_int b sg _ n hx
        · exact xor_zero_int b sg _ n hx
        · rw [hdt] at h
          simp only [beq_iff_eq] at h
          subst h
          exact and_ones_int b sg n hx
        · rw [hdt] at h
          split at h
          · rename_i k heq
            cases heq
            simp only [beq_iff_eq] at h
            subst h
            exact fmax_min_int b sg _ n hbd.1 hx
          · simp at *
          · simp at h
        · rw [hdt] at h
          split at h
          · rename_i k heq
            cases heq
            simp only [beq_iff_eq] at h
            subst h
            exact fmin_max_int b sg _ n hbd.2 hx
          · simp at *
          · simp at h
        · simp at h
    | _ => simp at hx
  | flt bits =>
    have hnf : isIntCode dts = false := by simp [isIntCode, hdt]
    have hio' : intOnly = false := by
      cases intOnly with
      | false => rfl
      | true => simpa [DT.isInt] using hio rfl
    subst hio'
    simp only [Bool.false_eq_true, false_and, false_or] at h
    cases x with
    | num n e =>
      simp only [beq_iff_eq] at hx
      split at h
      · exact add_zero_flt bits _ n e hx
      · exact mul_one_flt bits n e hx
      · simp [hnf] at h
      · simp [hnf] at h
      · rw [hdt] at h; simp at h
      · rw [hdt] at h
        split at h
        · rename_i heq; cases heq
        · exact fmax_inf _ _
        · simp at h
      · rw [hdt] at h
        split at h
        · rename_i heq; cases heq
        · exact fmin_inf _ _
        · simp at h
      · simp at h
    | _ => simp at hx

/-- **generated obligation**: every row of the table extracted from /repo's operations.py
    passes the check (re-proved on every run; a changed filler breaks this proof) -/
theorem opsTable_ok : opsTable.all rowOk = true := by
  decide

/-- a row of the extracted table computes what the documentation says its function computes -/
def rowSpecOk (r : OpRow) : Bool :=
  match opSpec r.name with
  | some (u, un, io, ff, fo) =>
    r.ufunc == u && r.union == un && r.intOnly == io && r.fillFirst == ff && ((r.dtypeOut == "f8") == fo)
  | none => false

/-- **generated obligation**: every wrapper of /repo's operations.py hands `_apply_operation`
    the ufunc, the union / intersection mode, the integer-only flag, the seeding flag and the
    output type that its documentation prescribes (re-proved on every run; a wrapper that
    folds with another ufunc breaks this proof, and — because the model folds with `opSpec`,
    see `OpRow.withSpec` — also yields a concrete failing input) -/
theorem opsTable_spec : opsTable.all rowSpecOk = true := by
  decide

/-- on the current table the specification changes nothing: the model folds with the very rows
    the code uses -/
theorem opsTable_withSpec : opsTable.all (fun r => r.withSpec == r) = true := by
  decide

/-- the table covers the sixteen named operations for every numeric dtype and wide masks -/
theorem opsTable_complete :
    ∀ nm ∈ ["sum_union", "sum_intersection", "product_union", "product_intersection",
            "or_union", "or_intersection", "and_union", "and_intersection", "xor_union",
            "xor_intersection", "max_union", "max_intersection", "min_union", "min_intersection",
            "divide_intersection", "floor_divide_intersection"],
      ∀ dt ∈ ["i1", "i2", "i4", "i8", "u1", "u2", "u4", "u8", "f4", "f8", "u1w"],
        opsTable.any (fun r => r.name == nm && r.dt == dt) = true := by
  decide

/-- witness: the pre-fix filler of `max_union` (0) is not neutral — all-negative inputs gave 0 -/
example : ufuncCell "fmax" (.int 32 true) (.num 0 0) (.num (-5) 0) ≠ .num (-5) 0 := by decide

/-- witnesses (mixed dtypes, model change M5): the result of a ufunc is stored in the array of
    the FIRST map's dtype — `max_intersection([int16 7, int64 65539])` is 3 (wrap-around on
    assignment), `product_intersection([int64 -3, float64 1.5])` is -4 (truncation toward zero) -/
example : ufuncCell "fmax" (.int 16 true) (.num 7 0) (.num 65539 0) = .num 3 0 := by decide
example : ufuncCell "fmin" (.int 16 true) (.num 32767 0) (.num (-65526) 0) = .num 10 0 := by decide
example : ufuncCell "multiply" (.int 64 true) (.num (-3) 0) (.num 3 1) = .num (-4) 0 := by decide
example : ufuncCell "fmax" (.flt 64) (.num 7 0) (.num 65539 0) = .num 65539 0 := by decide

/-- non-vacuity: two maps with different block orders and partially overlapping coverage -/
example : Inv (V := Int) ⟨3, 1⟩ ⟨-1, fun x => x != -1⟩ ⟨#[4, -2, -2], #[-1, -1, 7, -1, -1, 9]⟩ ∧
    Inv (V := Int) ⟨3, 1⟩ ⟨-1, fun x => x != -1⟩ ⟨#[2, 2, -4], #[-1, -1, 3, 4, -5, -1]⟩ := by decide

/-! ## API level: `apiMultiOp` on the rows of the generated table -/

section api
open ApiMulti WFApi

/-- shape of a row of the generated table, decided row by row: the driver folds with the row
    itself; it is a named operation; `fill_with_first_map` only with intersection; bitwise
    ufuncs are `int_only`; un-seeded rows fold one of the seven ufuncs that have a neutral
    element; `dtype_out` is absent, or `float64` on a row seeded with the first map; no row
    is for a boolean array -/
def rowShape (r : OpRow) : Bool :=
  r.withSpec == r && !isUfuncRow r && !(r.fillFirst && r.union) &&
  (!isBitUfunc r.ufunc || r.intOnly) &&
  (r.fillFirst || namedUfuncs.contains r.ufunc) &&
  (r.dtypeOut == "" || (r.dtypeOut == "f8" && r.fillFirst)) &&
  r.promoted != "b1"

/-- **generated obligation** (re-proved on every run) -/
theorem opsTable_shape : opsTable.all rowShape = true := by
  decide

theorem rowShape_of_mem {r : OpRow} (hr : r ∈ opsTable) :
    r.withSpec = r ∧ isUfuncRow r = false ∧ ¬ (r.fillFirst = true ∧ r.union = true) ∧
    (isBitUfunc r.ufunc = true → r.intOnly = true) ∧
    (r.fillFirst = false → r.ufunc ∈ namedUfuncs) ∧
    (r.dtypeOut = "" ∨ (r.dtypeOut = "f8" ∧ r.fillFirst = true)) ∧ r.promoted ≠ "b1" := by
  have h := List.all_eq_true.1 opsTable_shape r hr
  unfold rowShape at h
  simp only [Bool.and_eq_true, Bool.or_eq_true, Bool.not_eq_true', beq_iff_eq, bne_iff_ne, ne_eq,
    List.contains_iff_mem, Bool.and_eq_false_iff] at h
  obtain ⟨⟨⟨⟨⟨⟨h1, h2⟩, h3⟩, h4⟩, h5⟩, h6⟩, h7⟩ := h
  refine ⟨h1, h2, ?_, ?_, ?_, h6, h7⟩
  · rintro ⟨a, b⟩; rcases h3 with h | h <;> simp_all
  · intro hb; rcases h4 with h | h
    · rw [hb] at h; cases h
    · exact h
  · intro hf; rcases h5 with h | h
    · rw [hf] at h; cases h
    · exact h


theorem ok_wf_kind {maps : List MapObj} (hok : ∀ m ∈ maps, m.Ok) : ∀ m ∈ maps, m.WF ∧ m.KindOk :=
  fun m hm => ⟨(hok m hm).1, (hok m hm).2.1⟩

/-- **C06 (API), well-formedness**: a union / intersection operation on well-formed, well-typed
    maps returns a well-formed, well-typed map -/
theorem api_multi_ok {r : OpRow} (hr : r ∈ opsTable) {maps : List MapObj} (hok : ∀ m ∈ maps, m.Ok)
    {m' : MapObj} (h : apiMultiOp r.withSpec maps = .ok m') : m'.Ok :=
  Ok.apiMultiOp hok
    (withSpec_dtypeOut r (by
      have := List.all_eq_true.1 WFApi.opsTable_dtypeOut r hr
      simpa using this)) h

/-- **C06 (API), result type**: configuration and sentinel are the FIRST map's; the kind is a
    function of the first map and of `dtype_out` ALONE — a plain map of `dtype_out` when there
    is one, else the first map's kind —, whether or not the combined coverage is empty (after
    the `fix:` commit, finding F70; before it the empty result had the first map's dtype even
    with a `dtype_out`), and never a function of the other maps' types -/
theorem api_multi_type {r : OpRow} (hr : r ∈ opsTable) {first : MapObj} {rest : List MapObj}
    (hok : ∀ m ∈ first :: rest, m.Ok) {m' : MapObj}
    (h : apiMultiOp r.withSpec (first :: rest) = .ok m') :
    m'.covord = first.covord ∧ m'.spord = first.spord ∧ m'.sent = first.sent ∧ m'.cache = none ∧
      m'.kind = multiKindE first.kind r.dtypeOut := by
  obtain ⟨hws, _, _, _, _, _, hpr⟩ := rowShape_of_mem hr
  rw [hws] at h
  obtain ⟨f, rs, hfr, _, h1, h2, h3, h4, h5, _, _, hmain, _⟩ := ok_sem (ok_wf_kind hok) h
  cases hfr
  refine ⟨h1, h2, h3, h4, ?_⟩
  rw [h5]
  split
  · rename_i hac
    have hpo := (hmain hac).1
    unfold kindOut multiKindOut multiKindE
    cases hparse : parseDTCode r.dtypeOut with
    | some d => cases first.kind <;> rfl
    | none =>
      cases hk : first.kind with
      | packed =>
        exfalso
        unfold promotedOk dtOut at hpo
        rw [hparse, hk] at hpo
        exact hpr (eq_of_beq hpo)
      | _ => rfl
  · rfl

/-- in terms of the output kind of the main path (`multiKindOut`, which differs from
    `multiKindE` only in unpacking a bit-packed first map): the same kind in BOTH cases, as
    soon as there is a `dtype_out` or the first map is not bit-packed -/
theorem api_multi_kind_out {r : OpRow} (hr : r ∈ opsTable) {first : MapObj} {rest : List MapObj}
    (hok : ∀ m ∈ first :: rest, m.Ok) {m' : MapObj}
    (h : apiMultiOp r.withSpec (first :: rest) = .ok m')
    (hd : parseDTCode r.dtypeOut ≠ none ∨ first.kind ≠ .packed) :
    m'.kind = multiKindOut first.kind r.dtypeOut := by
  rw [(api_multi_type hr hok h).2.2.2.2]
  unfold multiKindOut multiKindE
  cases hparse : parseDTCode r.dtypeOut with
  | some d => cases first.kind <;> rfl
  | none =>
    cases hk : first.kind with
    | packed => rcases hd with hd | hd
                · exact absurd hparse hd
                · exact absurd hk hd
    | _ => rfl

/-- the operations without `dtype_out` (all but `divide_intersection`) return a map of the
    first map's kind, unconditionally -/
theorem api_multi_kind_named {r : OpRow} (hr : r ∈ opsTable) (hd : r.dtypeOut = "")
    {first : MapObj} {rest : List MapObj} (hok : ∀ m ∈ first :: rest, m.Ok) {m' : MapObj}
    (h : apiMultiOp r.withSpec (first :: rest) = .ok m') : m'.kind = first.kind := by
  rw [(api_multi_type hr hok h).2.2.2.2, hd]
  rfl

/-- **`divide_intersection` (`dtype_out = float64`) returns a `float64` map — unconditionally**
    (also when the coverage intersection is empty: the statement that FAILED before the
    `fix:` commit, see `api_multi_kind_divide_regression`) -/
theorem api_multi_kind_divide {r : OpRow} (hr : r ∈ opsTable) (hd : r.dtypeOut = "f8")
    {first : MapObj} {rest : List MapObj} (hok : ∀ m ∈ first :: rest, m.Ok) {m' : MapObj}
    (h : apiMultiOp r.withSpec (first :: rest) = .ok m') : m'.kind = .plain (.flt 64) := by
  rw [(api_multi_type hr hok h).2.2.2.2, hd]
  rfl


/-- **C06 (API), coverage**: the coverage mask of the result is the union (resp. intersection)
    of the inputs' coverage masks; in particular an empty intersection gives a map without
    coverage -/
theorem api_multi_coverage {r : OpRow} (hr : r ∈ opsTable) {maps : List MapObj}
    (hok : ∀ m ∈ maps, m.Ok) {m' : MapObj} (h : apiMultiOp r.withSpec maps = .ok m')
    (k : Nat) (hk : k < m'.c.ncov) :
    covered m'.c m'.st k =
      if r.union then maps.any (fun m => covered m.c m.st k)
      else maps.all (fun m => covered m.c m.st k) := by
  rw [(rowShape_of_mem hr).1] at h
  obtain ⟨f, rs, _, _, _, _, _, _, _, _, _, _, _, hcov⟩ := ok_sem (ok_wf_kind hok) h
  exact hcov k hk

/-- **C06 (API), the value — seeded form** (what the code computes, for ANY cell values, no
    carrier assumption): at every pixel the result holds `denseOf` of the values of exactly
    those inputs in which the pixel is valid — each input judged by ITS OWN kind and sentinel
    (`ApiMulti.vals`) —, folded from the left, in list order, starting from the start value
    `fillerOf r first` (resp. from the first map's value for the `fill_with_first_map` rows) -/
theorem api_multi_value {r : OpRow} (hr : r ∈ opsTable) {first : MapObj} {rest : List MapObj}
    (hok : ∀ m ∈ first :: rest, m.Ok) {m' : MapObj}
    (h : apiMultiOp r.withSpec (first :: rest) = .ok m') (p : Nat) (hp : p < m'.npix) :
    m'.abs p = denseOf m'.vc.sentinel (cellF r first) (fillerOf r first) r.union r.fillFirst
      (first :: rest).length (vals (first :: rest) p) := by
  rw [(rowShape_of_mem hr).1] at h
  obtain ⟨f, rs, hfr, _, _, _, _, _, _, _, _, _, habs, _⟩ := ok_sem (ok_wf_kind hok) h
  cases hfr
  exact habs p hp

/-- the hypothesis of `neutral_api` that concerns bitwise ufuncs, for a table row -/
theorem table_bit_not_flt {r : OpRow} (hr : r ∈ opsTable) {first : MapObj} {maps : List MapObj}
    (hacc : Accepts r first maps) (hfirst : first ∈ maps) (hff : r.fillFirst = false) :
    isBitUfunc r.ufunc = true → (dtOut r first).isFlt = false := by
  intro hb
  obtain ⟨_, _, _, hio, _, hdo, _⟩ := rowShape_of_mem hr
  have hint := (hacc.mem hfirst).2.1 (hio hb)
  have hparse : parseDTCode r.dtypeOut = none := by
    rcases hdo with h | ⟨_, h⟩
    · rw [h]; rfl
    · rw [hff] at h; cases h
  unfold dtOut
  rw [hparse]
  cases hk : first.kind with
  | plain dt => rw [hk] at hint; cases dt <;> first | rfl | cases hint
  | packed => rfl
  | wide n => rfl
  | recd fs pr => rw [hk] at hint; cases hint

/-- **the start value never shows** (table rows): `f (start value) x = x` for every cell `x` of
    the carrier of the output array -/
theorem api_multi_neutral {r : OpRow} (hr : r ∈ opsTable) (hff : r.fillFirst = false)
    {first : MapObj} {rest : List MapObj} {m' : MapObj}
    (h : apiMultiOp r.withSpec (first :: rest) = .ok m') {x : Val} (hx : inOut r first x = true) :
    cellF r first (fillerOf r first) x = x := by
  obtain ⟨hws, hnu, _, _, hnamed, _, _⟩ := rowShape_of_mem hr
  rw [hws] at h
  obtain ⟨f, rs, hfr, hacc, _⟩ := (ok_iff r _ m').1 h
  cases hfr
  exact neutral_api hacc List.mem_cons_self hnu hff (hnamed hff)
    (table_bit_not_flt hr hacc List.mem_cons_self hff) hx

/-- **C06 (API), union**: a pixel valid in NO input holds the sentinel; otherwise, with
    `v :: vs` the values of the inputs in which it is valid (own sentinels, list order), it
    holds the seeded fold, and — as soon as the FIRST valid value `v` is a member of the
    carrier of the output array — the plain fold `vs.foldl f v` of exactly the valid inputs:
    the start value never shows, and a pixel whose fold happens to equal the start value is
    not dropped -/
theorem api_multi_union {r : OpRow} (hr : r ∈ opsTable) (hu : r.union = true)
    {first : MapObj} {rest : List MapObj} (hok : ∀ m ∈ first :: rest, m.Ok) {m' : MapObj}
    (h : apiMultiOp r.withSpec (first :: rest) = .ok m') (p : Nat) (hp : p < m'.npix) :
    (vals (first :: rest) p = [] → m'.abs p = m'.vc.sentinel) ∧
    (∀ v vs, vals (first :: rest) p = v :: vs →
      m'.abs p = vs.foldl (cellF r first) (cellF r first (fillerOf r first) v) ∧
      (inOut r first v = true → m'.abs p = vs.foldl (cellF r first) v)) := by
  have hval := api_multi_value hr hok h p hp
  rw [hu] at hval
  have hff : r.fillFirst = false := by
    cases hf : r.fillFirst with
    | false => rfl
    | true => exact absurd ⟨hf, hu⟩ (rowShape_of_mem hr).2.2.1
  refine ⟨fun hnil => by rw [hval, hnil]; rfl, fun v vs hvs => ?_⟩
  rw [hvs, denseOf_union_cons] at hval
  refine ⟨hval, fun hx => ?_⟩
  rw [hval, api_multi_neutral hr hff h hx]

/-- **C06 (API), union, validity**: a pixel is valid in the result iff it is valid in some
    input AND the folded value does not read as unset under the result's rule (a fold that
    lands on the first map's sentinel reads as unset: documented) -/
theorem api_multi_union_valid {r : OpRow} (hr : r ∈ opsTable) (hu : r.union = true)
    {first : MapObj} {rest : List MapObj} (hok : ∀ m ∈ first :: rest, m.Ok) {m' : MapObj}
    (h : apiMultiOp r.withSpec (first :: rest) = .ok m') (p : Nat) (hp : p < m'.npix) :
    m'.vc.valid (m'.abs p) = true ↔
      ∃ v vs, vals (first :: rest) p = v :: vs ∧
        m'.vc.valid (vs.foldl (cellF r first) (cellF r first (fillerOf r first) v)) = true := by
  obtain ⟨h0, h1⟩ := api_multi_union hr hu hok h p hp
  have hbl : m'.BlankInvalid := (api_multi_ok hr hok h).2.1.blankInvalid
  cases hvs : vals (first :: rest) p with
  | nil =>
    rw [h0 hvs]
    constructor
    · intro hv; rw [hbl] at hv; cases hv
    · rintro ⟨v, vs, hc, _⟩; cases hc
  | cons v vs =>
    rw [(h1 v vs hvs).1]
    constructor
    · intro hv; exact ⟨v, vs, rfl, hv⟩
    · rintro ⟨v', vs', hc, hv⟩; cases hc; exact hv


/-- **C06 (API), intersection**: a pixel that is unset in SOME input (by that input's own
    sentinel) holds the sentinel; a pixel valid in EVERY input holds the left fold of all the
    inputs' values in list order — started from the first map's value: literally so for the
    `fill_with_first_map` rows (divide, floor_divide), and for the other rows as soon as the
    first map's value is a member of the carrier of the output array (the start value is
    neutral); without that membership the seeded form still says exactly what is stored -/
theorem api_multi_intersection {r : OpRow} (hr : r ∈ opsTable) (hu : r.union = false)
    {first : MapObj} {rest : List MapObj} (hok : ∀ m ∈ first :: rest, m.Ok) {m' : MapObj}
    (h : apiMultiOp r.withSpec (first :: rest) = .ok m') (p : Nat) (hp : p < m'.npix) :
    ((∃ m ∈ first :: rest, m.vc.valid (m.abs p) = false) → m'.abs p = m'.vc.sentinel) ∧
    ((∀ m ∈ first :: rest, m.vc.valid (m.abs p) = true) →
      (r.fillFirst = true →
        m'.abs p = (rest.map (·.abs p)).foldl (cellF r first) (first.abs p)) ∧
      (r.fillFirst = false →
        m'.abs p = (rest.map (·.abs p)).foldl (cellF r first)
          (cellF r first (fillerOf r first) (first.abs p)) ∧
        (inOut r first (first.abs p) = true →
          m'.abs p = (rest.map (·.abs p)).foldl (cellF r first) (first.abs p)))) := by
  have hval := api_multi_value hr hok h p hp
  rw [hu] at hval
  constructor
  · rintro ⟨m, hm, hinv⟩
    rw [hval]
    apply denseOf_inter_ne
    intro hlen
    have := (vals_length_eq_iff _ p).1 hlen m hm
    rw [hinv] at this; cases this
  · intro hall
    have hvs := vals_all _ p hall
    have hlen : (vals (first :: rest) p).length = (first :: rest).length :=
      (vals_length_eq_iff _ p).2 hall
    rw [hvs, List.map_cons] at hval hlen
    constructor
    · intro hff
      rw [hff, denseOf_inter_first _ _ _ _ _ _ hlen] at hval
      exact hval
    · intro hff
      rw [hff, denseOf_inter_seeded _ _ _ _ _ _ hlen] at hval
      refine ⟨hval, fun hx => ?_⟩
      rw [hval, api_multi_neutral hr hff h hx]

/-- **C06 (API), intersection, validity**: valid in the result iff valid in EVERY input and the
    folded value does not read as unset under the result's rule -/
theorem api_multi_intersection_valid {r : OpRow} (hr : r ∈ opsTable) (hu : r.union = false)
    {first : MapObj} {rest : List MapObj} (hok : ∀ m ∈ first :: rest, m.Ok) {m' : MapObj}
    (h : apiMultiOp r.withSpec (first :: rest) = .ok m') (p : Nat) (hp : p < m'.npix) :
    m'.vc.valid (m'.abs p) = true ↔
      (∀ m ∈ first :: rest, m.vc.valid (m.abs p) = true) ∧
        m'.vc.valid ((rest.map (·.abs p)).foldl (cellF r first)
          (if r.fillFirst then first.abs p
           else cellF r first (fillerOf r first) (first.abs p))) = true := by
  obtain ⟨h0, h1⟩ := api_multi_intersection hr hu hok h p hp
  have hbl : m'.BlankInvalid := (api_multi_ok hr hok h).2.1.blankInvalid
  by_cases hall : ∀ m ∈ first :: rest, m.vc.valid (m.abs p) = true
  · have hv : m'.abs p = (rest.map (·.abs p)).foldl (cellF r first)
          (if r.fillFirst then first.abs p
           else cellF r first (fillerOf r first) (first.abs p)) := by
      cases hff : r.fillFirst with
      | true => exact (h1 hall).1 hff
      | false => exact ((h1 hall).2 hff).1
    rw [← hv]
    exact ⟨fun h => ⟨hall, h⟩, fun h => h.2⟩
  · have hex : ∃ m ∈ first :: rest, m.vc.valid (m.abs p) = false := by
      apply Classical.byContradiction
      intro hne
      apply hall
      intro m hm
      cases hv : m.vc.valid (m.abs p) with
      | true => rfl
      | false => exact absurd ⟨m, hm, hv⟩ hne
    rw [h0 hex]
    constructor
    · intro hv; rw [hbl] at hv; cases hv
    · intro hv; exact absurd hv.1 hall

/-- what "reads as unset" means in the result: for every kind but wide masks, equality with
    the FIRST map's sentinel; for wide masks, all bytes zero -/
theorem api_multi_valid_rule {r : OpRow} (hr : r ∈ opsTable) {first : MapObj} {rest : List MapObj}
    (hok : ∀ m ∈ first :: rest, m.Ok) {m' : MapObj}
    (h : apiMultiOp r.withSpec (first :: rest) = .ok m') :
    (∀ n, first.kind = .wide n → m'.kind = .wide n ∧
      ∀ bs, m'.vc.valid (.bytes bs) = bs.any (· != 0)) ∧
    ((∀ n, first.kind ≠ .wide n) → ∀ x, m'.vc.valid x = (x != first.sent)) := by
  obtain ⟨_, _, hs, _, hk⟩ := api_multi_type hr hok h
  obtain ⟨hws, _, _, _, _, hdo, _⟩ := rowShape_of_mem hr
  rw [hws] at h
  obtain ⟨f, rs, hfr, hacc, _⟩ := (ok_iff r _ m').1 h
  cases hfr
  have hrec := (hacc.mem List.mem_cons_self).1
  have hwf : ∀ n, first.kind = .wide n → r.fillFirst = false := by
    intro n hn
    cases hf : r.fillFirst with
    | false => rfl
    | true => exact absurd ⟨by unfold isWide; rw [hn], hf⟩ hacc.2.2.2
  constructor
  · intro n hn
    have hk' : m'.kind = .wide n := by
      rw [hk]
      rcases hdo with hd | ⟨_, hf⟩
      · unfold multiKindE; rw [hd, hn]; rfl
      · rw [hwf n hn] at hf; cases hf
    refine ⟨hk', fun bs => ?_⟩
    unfold MapObj.vc
    rw [hk']
    rfl
  · intro hnw x
    unfold MapObj.vc
    rw [hs]
    have : (∃ d, m'.kind = .plain d) ∨ m'.kind = .packed := by
      rw [hk]
      unfold multiKindE
      cases parseDTCode r.dtypeOut with
      | some d => exact Or.inl ⟨d, rfl⟩
      | none =>
        cases hk1 : first.kind with
        | wide n' => exact absurd hk1 (hnw n')
        | recd fs pr => rw [hk1] at hrec; cases hrec
        | plain dt => exact Or.inl ⟨dt, rfl⟩
        | packed => exact Or.inr rfl
    rcases this with ⟨d, hd⟩ | hd <;> rw [hd] <;> rfl

/-- the result type does not depend on the other maps: two successful calls with the same
    first map agree on configuration, sentinel and kind -/
theorem api_multi_type_first {r : OpRow} (hr : r ∈ opsTable) {first : MapObj}
    {rest₁ rest₂ : List MapObj} (hok₁ : ∀ m ∈ first :: rest₁, m.Ok) (hok₂ : ∀ m ∈ first :: rest₂, m.Ok)
    {m₁ m₂ : MapObj} (h₁ : apiMultiOp r.withSpec (first :: rest₁) = .ok m₁)
    (h₂ : apiMultiOp r.withSpec (first :: rest₂) = .ok m₂) :
    m₁.covord = m₂.covord ∧ m₁.spord = m₂.spord ∧ m₁.sent = m₂.sent ∧ m₁.kind = m₂.kind := by
  obtain ⟨a1, a2, a3, _, a5⟩ := api_multi_type hr hok₁ h₁
  obtain ⟨b1, b2, b3, _, b5⟩ := api_multi_type hr hok₂ h₂
  exact ⟨by rw [a1, b1], by rw [a2, b2], by rw [a3, b3], by rw [a5, b5]⟩

/-! ### errors -/

/-- **C06 (API), the call as a decision list** (any row): `ApiMulti.spec` -/
theorem api_multi_spec (row : OpRow) (maps : List MapObj) : apiMultiOp row maps = spec row maps :=
  apiMultiOp_eq_spec row maps

/-- **C06 (API), errors — exactly when**: the call raises `e` iff the validation phase raises
    `e` (`structErr`: fewer than two maps → RuntimeError; the first map failing its check
    decides — a record map → NotImplementedError, an integer-only operation on a non-integer
    map → ValueError, other orders or wide-mask widths than the first map → RuntimeError; a
    wide-mask first map on a `fill_with_first_map` row → RuntimeError), or validation passes,
    the combined coverage is NOT empty, and the data-dependent phase raises `e` (`dataErr`:
    the row is not a row of the first map's dtype → ValueError; one of the three exactness
    guards of the model → `inexact`, no claim) -/
theorem api_multi_error_iff {r : OpRow} (hr : r ∈ opsTable) (maps : List MapObj) (e : Err) :
    apiMultiOp r.withSpec maps = .error e ↔
      structErr r maps = some e ∨
      (structErr r maps = none ∧
        ∃ first rest, maps = first :: rest ∧ dataErr r first maps = some e) := by
  rw [(rowShape_of_mem hr).1]
  exact error_iff r maps e

/-- an empty list or a single map: RuntimeError -/
theorem api_multi_err_short (row : OpRow) (maps : List MapObj) (h : maps.length < 2) :
    apiMultiOp row maps = .error .runtime :=
  (error_iff row maps .runtime).2 (Or.inl (structErr_short row maps h))

/-- the first map that fails its check decides the error (`mapCheck_some_iff` reads the
    check: record → NotImplementedError, integer-only on a non-integer map → ValueError,
    mixed orders / wide-mask widths → RuntimeError) -/
theorem api_multi_err_check {r : OpRow} (hr : r ∈ opsTable) {first : MapObj}
    {rest pre post : List MapObj} {m : MapObj} {e : Err}
    (hsplit : first :: rest = pre ++ m :: post) (h2 : rest ≠ [])
    (hpre : ∀ x ∈ pre, mapCheck r first x = none) (hm : mapCheck r first m = some e) :
    apiMultiOp r.withSpec (first :: rest) = .error e := by
  obtain ⟨hws, _, hfu, _⟩ := rowShape_of_mem hr
  rw [hws]
  exact (error_iff r _ e).2 (Or.inl (structErr_of_check hsplit h2 hfu hpre hm))

/-- wide masks cannot be divided: a wide-mask first map on a `fill_with_first_map` row
    (divide_intersection, floor_divide_intersection) is a RuntimeError -/
theorem api_multi_err_wide_first {r : OpRow} (hr : r ∈ opsTable) {first : MapObj}
    {rest : List MapObj} (h2 : rest ≠ [])
    (hall : ∀ x ∈ first :: rest, mapCheck r first x = none)
    (hw : isWide first.kind = true) (hff : r.fillFirst = true) :
    apiMultiOp r.withSpec (first :: rest) = .error .runtime := by
  obtain ⟨hws, _, hfu, _⟩ := rowShape_of_mem hr
  rw [hws]
  exact (error_iff r _ .runtime).2 (Or.inl (structErr_wide_first h2 hfu hall hw hff))

/-- with an empty combined coverage nothing else is looked at: the call succeeds with
    `make_empty_like(first)` (of `dtype_out` when there is one) — whatever the row's dtype, the
    sentinels, the cell values -/
theorem api_multi_empty {r : OpRow} (hr : r ∈ opsTable) {first : MapObj} {rest : List MapObj}
    (hacc : Accepts r first (first :: rest)) (hcov : anyCov r first (first :: rest) = false) :
    apiMultiOp r.withSpec (first :: rest) = .ok (emptyLike r first) := by
  rw [(rowShape_of_mem hr).1]
  exact (ok_iff r _ _).2 ⟨first, rest, rfl, hacc, Or.inl ⟨hcov, rfl⟩⟩

/-- for well-formed, well-typed inputs that pass validation the only errors left are the
    ValueError of a row that is not the first map's (e.g. a boolean first map: no row of the
    table is for a boolean array) and the `inexact` guards; never an IndexError -/
theorem api_multi_err_data {r : OpRow} (hr : r ∈ opsTable) {first : MapObj} {rest : List MapObj}
    (hok : ∀ m ∈ first :: rest, m.Ok) (hacc : Accepts r first (first :: rest)) {e : Err}
    (h : apiMultiOp r.withSpec (first :: rest) = .error e) :
    anyCov r first (first :: rest) = true ∧
    ((promotedOk r first = false ∧ e = .value) ∨ (promotedOk r first = true ∧ e = .inexact)) := by
  rw [(rowShape_of_mem hr).1] at h
  have hs : structErr r (first :: rest) = none :=
    (structErr_none_iff r _).2 ⟨first, rest, rfl, hacc⟩
  rcases (error_iff r _ e).1 h with h | ⟨_, f, rs, hfr, hd⟩
  · rw [hs] at h; cases h
  · cases hfr
    have hni := dataErr_ne_index hacc List.mem_cons_self (ok_wf_kind hok)
    unfold dataErr at hd hni
    cases hac : anyCov r first (first :: rest) with
    | false => rw [hac] at hd; cases hd
    | true =>
      rw [hac] at hd hni
      simp only [Bool.not_true, Bool.false_eq_true, if_false] at hd hni
      refine ⟨rfl, ?_⟩
      cases hp : promotedOk r first with
      | false => rw [hp] at hd; simp only [Bool.not_false, if_true] at hd; cases hd; exact Or.inl ⟨rfl, rfl⟩
      | true =>
        rw [hp] at hd hni
        simp only [Bool.not_true, Bool.false_eq_true, if_false] at hd hni
        refine Or.inr ⟨rfl, ?_⟩
        split at hd
        · cases hd; rfl
        split at hd
        · cases hd; rfl
        split at hd
        · rename_i h6 h7 _ hc
          rw [hc, if_neg h6, if_neg h7] at hni
          exact absurd rfl hni
        · split at hd
          · cases hd; rfl
          · cases hd

/-- a boolean first map (plain or bit-packed) with a non-empty combined coverage: ValueError on
    every row without `dtype_out` (no row of the table is for a boolean array) -/
theorem api_multi_err_bool {r : OpRow} (hr : r ∈ opsTable) (hd : r.dtypeOut = "")
    {first : MapObj} {rest : List MapObj} (hacc : Accepts r first (first :: rest))
    (hb : first.kind.isBool = true) (hcov : anyCov r first (first :: rest) = true) :
    apiMultiOp r.withSpec (first :: rest) = .error .value := by
  obtain ⟨hws, _, _, _, _, _, hpr⟩ := rowShape_of_mem hr
  rw [hws]
  have hs : structErr r (first :: rest) = none :=
    (structErr_none_iff r _).2 ⟨first, rest, rfl, hacc⟩
  refine (error_iff r _ .value).2 (Or.inr ⟨hs, first, rest, rfl, ?_⟩)
  unfold dataErr
  rw [hcov]
  have hparse : parseDTCode r.dtypeOut = none := by rw [hd]; rfl
  have hp : promotedOk r first = false := by
    unfold promotedOk dtOut
    rw [hparse]
    cases hk : first.kind with
    | plain dt =>
      rw [hk] at hb
      cases dt with
      | bool => simpa [isWide, Kind.dt, dtCode] using hpr
      | int b sg => cases hb
      | flt b => cases hb
    | packed => simpa [isWide, Kind.dt, dtCode] using hpr
    | wide n => rw [hk] at hb; cases hb
    | recd fs pr => rw [hk] at hb; cases hb
  rw [hp]
  rfl

/-- the start value the MODEL folds with is the filler found in the CODE: for the row of the
    first map's dtype (rows seeded with the first map, and `int_only` rows on float arrays —
    rejected before any filler is used — excepted) -/
theorem opsTable_filler : opsTable.all (fun r =>
    r.fillFirst || (r.intOnly && isFltCode r.dt) ||
    match parseDTCode (if r.dt == "u1w" then "u1" else r.dt) with
    | some dt => neutralFiller r.ufunc dt == some r.filler
    | none => false) = true := by
  decide

theorem api_multi_filler_is_code {r : OpRow} (hr : r ∈ opsTable) (hff : r.fillFirst = false)
    (hio : ¬ (r.intOnly = true ∧ isFltCode r.dt = true)) {first : MapObj}
    (hdt : parseDTCode (if r.dt == "u1w" then "u1" else r.dt) = some (dtArr r first)) :
    fillerSpec r first = r.filler := by
  have h := List.all_eq_true.1 opsTable_filler r hr
  simp only [Bool.or_eq_true, Bool.and_eq_true] at h
  rcases h with (h | h) | h
  · rw [hff] at h; cases h
  · exact absurd h hio
  · rw [hdt] at h
    simp only [beq_iff_eq] at h
    unfold fillerSpec
    rw [(rowShape_of_mem hr).2.1, hff, h]
    rfl


/-- **any row** (in particular the rows the driver builds for `ufunc_union` /
    `ufunc_intersection`, whose caller-supplied `filler_value` is documented as the starting
    value): well-formedness, result type, coverage and the SEEDED value — no neutrality claim -/
theorem api_multi_any_row {row : OpRow} {first : MapObj} {rest : List MapObj}
    (hok : ∀ m ∈ first :: rest, m.Ok) {m' : MapObj}
    (h : apiMultiOp row (first :: rest) = .ok m') :
    m'.WF ∧ m'.covord = first.covord ∧ m'.spord = first.spord ∧ m'.sent = first.sent ∧
    (∀ p, p < m'.npix → m'.abs p =
      denseOf m'.vc.sentinel (cellF row first) (fillerOf row first) row.union row.fillFirst
        (first :: rest).length (vals (first :: rest) p)) ∧
    (∀ k, k < m'.c.ncov → covered m'.c m'.st k =
      if row.union then (first :: rest).any (fun m => covered m.c m.st k)
      else (first :: rest).all (fun m => covered m.c m.st k)) ∧
    (isUfuncRow row = true → (∀ n, first.kind ≠ .wide n) → fillerOf row first = row.filler) := by
  obtain ⟨f, rs, hfr, _, h1, h2, h3, _, _, hwf, _, _, habs, hcov⟩ := ok_sem (ok_wf_kind hok) h
  cases hfr
  refine ⟨hwf, h1, h2, h3, habs, hcov, fun hu hnw => ?_⟩
  unfold fillerOf fillerSpec
  rw [hu]
  simp only [Bool.true_or, if_true]
  split
  · rename_i n _ _ hk _; exact absurd hk (hnw n)
  · rfl

/-! ### non-vacuity, and the regression example of the one statement that failed -/

/-- the row of the named operation for first maps of dtype code `dt` -/
def rowOf (nm dt : String) : OpRow :=
  (opsTable.find? fun r => r.name == nm && r.dt == dt).getD
    ⟨"", "", "", .num 0 0, "", false, false, false, ""⟩

/-- an `int32` map with `nside_coverage = 1`, `nside_sparse = 2` (48 pixels, 4 per block) -/
def exI4 (sent : Option Val) (pix : List Nat) (vs : List Int) : Except Err MapObj := do
  let m ← apiMakeEmpty 0 1 (.plain (.int 32 true)) sent []
  apiUpdate m "replace" pix (some (vs.map (Val.num · 0))) false

/-- a two-byte wide mask -/
def exWide (pix : List Nat) (row : List Nat) : Except Err MapObj := do
  let m ← apiMakeEmpty 0 1 (.wide 2) none []
  apiUpdate m "replace" pix (some [.bytes row]) true

example : rowOf "sum_union" "i4" ∈ opsTable ∧ rowOf "max_intersection" "i4" ∈ opsTable ∧
    rowOf "divide_intersection" "i4" ∈ opsTable ∧ rowOf "or_union" "u1w" ∈ opsTable ∧
    rowOf "and_intersection" "u1w" ∈ opsTable := by decide

/-- `sum_union` of two `int32` maps with DIFFERENT sentinels (default and 7) and partially
    overlapping coverage: hypotheses of `api_multi_union` hold; pixel 2 is valid in both
    (−5 and 5), its fold is 0 — the start value — and it is KEPT (valid, value 0); pixel 1 /
    pixels 3 and 30 are valid in one input only; pixel 0 in none; the result has the first
    map's sentinel and kind; pixel 5 holds 7 in the first map — the SECOND map's sentinel — and
    is valid (each input is judged by its own sentinel) -/
example : okAnd (do
      let a ← exI4 none [1, 2, 5] [5, -5, 7]
      let b ← exI4 (some (.num 7 0)) [2, 3, 30] [5, 9, 1]
      let m' ← apiMultiOp (rowOf "sum_union" "i4").withSpec [a, b]
      pure (a, b, m'))
    (fun (a, b, m') => decide a.Ok && decide b.Ok && decide m'.Ok &&
      (vals [a, b] 5 == [.num 7 0]) && (m'.abs 5 == .num 7 0) && m'.vc.valid (m'.abs 5) &&
      (vals [a, b] 2 == [.num (-5) 0, .num 5 0]) && inOut (rowOf "sum_union" "i4") a (.num (-5) 0) &&
      (m'.abs 2 == .num 0 0) && m'.vc.valid (m'.abs 2) &&
      (m'.abs 1 == .num 5 0) && (m'.abs 3 == .num 9 0) && (m'.abs 30 == .num 1 0) &&
      (vals [a, b] 0 == []) && (m'.abs 0 == m'.vc.sentinel) && !m'.vc.valid (m'.abs 0) &&
      (m'.sent == a.sent) && (m'.kind == a.kind) && (b.sent == .num 7 0) &&
      covered m'.c m'.st 0 && covered m'.c m'.st 7 && !covered m'.c m'.st 3) = true := by
  decide +kernel

/-- `max_intersection`: only pixel 2 is valid in both inputs; all-negative values give the
    negative maximum (the start value −2³¹ never shows) -/
example : okAnd (do
      let a ← exI4 none [1, 2] [-5, -6]
      let b ← exI4 (some (.num 0 0)) [2, 3] [-9, -1]
      let m' ← apiMultiOp (rowOf "max_intersection" "i4").withSpec [a, b]
      pure (a, b, m'))
    (fun (a, b, m') => decide a.Ok && decide b.Ok &&
      (m'.abs 2 == .num (-6) 0) && m'.vc.valid (m'.abs 2) &&
      !m'.vc.valid (m'.abs 1) && !m'.vc.valid (m'.abs 3) &&
      inOut (rowOf "max_intersection" "i4") a (a.abs 2)) = true := by
  decide +kernel

/-- `divide_intersection` (seeded with the first map, `float64` output): 8 / 2 = 4 at the only
    common pixel -/
example : okAnd (do
      let a ← exI4 none [1, 2] [6, 8]
      let b ← exI4 none [2, 3] [2, 4]
      let m' ← apiMultiOp (rowOf "divide_intersection" "i4").withSpec [a, b]
      pure (a, b, m'))
    (fun (a, b, m') => decide a.Ok && decide b.Ok && decide m'.Ok &&
      (m'.abs 2 == .num 4 0) && (m'.kind == .plain (.flt 64)) && (m'.sent == a.sent) &&
      anyCov (rowOf "divide_intersection" "i4") a [a, b] &&
      !m'.vc.valid (m'.abs 1) && !m'.vc.valid (m'.abs 3)) = true := by
  decide +kernel

/-- wide masks (two bytes): `or_union` and `and_intersection`, start rows `[0,0]` / `[255,255]` -/
example : okAnd (do
      let a ← exWide [1, 2] [1, 128]
      let b ← exWide [2, 3] [6, 128]
      let u ← apiMultiOp (rowOf "or_union" "u1w").withSpec [a, b]
      let i ← apiMultiOp (rowOf "and_intersection" "u1w").withSpec [a, b]
      pure (a, b, u, i))
    (fun (a, b, u, i) => decide a.Ok && decide b.Ok && decide u.Ok && decide i.Ok &&
      (u.abs 1 == .bytes [1, 128]) && (u.abs 2 == .bytes [7, 128]) && (u.abs 3 == .bytes [6, 128]) &&
      (i.abs 2 == .bytes [0, 128]) && i.vc.valid (i.abs 2) && !i.vc.valid (i.abs 1) &&
      inOut (rowOf "or_union" "u1w") a (a.abs 1) && (u.kind == a.kind) &&
      (fillerOf (rowOf "and_intersection" "u1w") a == .bytes [255, 255])) = true := by
  decide +kernel

/-- **regression example for finding F70** (the statement that FAILED before the `fix:` commit):
    two well-formed `int32` maps whose coverage masks do not intersect. `divide_intersection`
    used to return `make_empty_like(map_list[0])` — an `int32` map —, while with one common
    coverage pixel, even without any common valid pixel, the result was `float64`: the
    documented `dtype_out` depended on the data. Now the empty result is `float64` too. -/
theorem api_multi_kind_divide_regression :
    okAnd (do
      let a ← exI4 none [1, 2] [5, 6]
      let b ← exI4 none [20, 21] [5, 6]
      let m' ← apiMultiOp (rowOf "divide_intersection" "i4").withSpec [a, b]
      pure (a, b, m'))
    (fun (a, b, m') => decide a.Ok && decide b.Ok && decide m'.Ok &&
      ((rowOf "divide_intersection" "i4").dtypeOut == "f8") &&
      (m'.kind == .plain (.flt 64)) && (m'.sent == a.sent) &&
      !anyCov (rowOf "divide_intersection" "i4") a [a, b] &&
      !covered m'.c m'.st 0 && !m'.vc.valid (m'.abs 1)) = true := by
  decide +kernel

/-! the same through the protocol driver (`runLines`): `c` (empty intersection) and `d` are both `f8` -/
#guard ((runLines [
    "cfg a kind=plain dtype=i4 covord=0 spord=1",
    "cfg b kind=plain dtype=i4 covord=0 spord=1",
    "upd a pix=1,2 vals=5,6",
    "upd b pix=20,21 vals=5,6",
    "mop name=divide_intersection maps=a,b r=c"]).get? "c").map (·.kind) == some (.plain (.flt 64))
#guard ((runLines [
    "cfg a kind=plain dtype=i4 covord=0 spord=1",
    "cfg b kind=plain dtype=i4 covord=0 spord=1",
    "upd a pix=1,2 vals=5,6",
    "upd b pix=2,3 vals=2,6",
    "mop name=divide_intersection maps=a,b r=d"]).get? "d").map (·.kind) == some (.plain (.flt 64))

/-- an input value that is NOT representable in the output dtype (1000 in an `int32` second
    map, first map `int8`): it is outside the carrier (`inOut` fails), the plain-fold clause
    makes no claim, and the seeded clause says what is stored — `0 + 1000` wrapped to `int8`
    (numpy's cast on assignment) -/
example : okAnd (do
      let a ← apiMakeEmpty 0 1 (.plain (.int 8 true)) none [0]
      let b ← exI4 none [2] [1000]
      let m' ← apiMultiOp (rowOf "sum_union" "i1").withSpec [a, b]
      pure (a, b, m'))
    (fun (a, b, m') => decide a.Ok && decide b.Ok && decide (rowOf "sum_union" "i1" ∈ opsTable) &&
      (vals [a, b] 2 == [.num 1000 0]) && !inOut (rowOf "sum_union" "i1") a (.num 1000 0) &&
      (m'.abs 2 == .num (-24) 0) && (m'.kind == .plain (.int 8 true))) = true := by
  decide +kernel

/-- the call raises `e` -/
def isErr (r : Except Err MapObj) (e : Err) : Bool :=
  match r with
  | .error e' => e' == e
  | .ok _ => false

/-- errors: no map; a single map; a record map in the list; mixed orders; an integer-only
    operation on a float map; a wide mask divided; a boolean first map -/
example :
    isErr (apiMultiOp (rowOf "sum_union" "i4").withSpec []) .runtime = true ∧
    okAnd (do
      let a ← exI4 none [1] [5]
      let f ← apiMakeEmpty 0 1 (.plain (.flt 64)) none []
      let c ← apiMakeEmpty 0 2 (.plain (.int 32 true)) none []
      let rc ← apiMakeEmpty 0 1 (.recd [.int 32 true] 0) none []
      let w ← exWide [1] [1, 0]
      let b ← apiMakeEmpty 0 1 (.plain .bool) none [0]
      pure (a, f, c, rc, w, b))
    (fun (a, f, c, rc, w, b) =>
      isErr (apiMultiOp (rowOf "sum_union" "i4").withSpec [a]) .runtime &&
      isErr (apiMultiOp (rowOf "sum_union" "i4").withSpec [a, rc]) .notImpl &&
      isErr (apiMultiOp (rowOf "sum_union" "i4").withSpec [a, c]) .runtime &&
      isErr (apiMultiOp (rowOf "or_union" "i4").withSpec [a, f]) .value &&
      isErr (apiMultiOp (rowOf "floor_divide_intersection" "u1w").withSpec [w, w]) .runtime &&
      isErr (apiMultiOp (rowOf "sum_union" "i4").withSpec [b, b]) .value &&
      -- a valid value of the second map equal to the FIRST map's sentinel: `inexact` (no claim)
      (match exI4 (some (.num 0 0)) [1] [-2147483648] with
       | .ok z => isErr (apiMultiOp (rowOf "sum_union" "i4").withSpec [a, z]) .inexact
       | .error _ => false)) = true := by
  decide +kernel

end api
end C06
end HS
