/-
  ONE coverage-aware dense interpreter for ALL the dense-refinement families (helper lemmas for
  Props/DenseAll.lean).

  Four earlier campaigns related the line protocol to a dense reference interpreter family by
  family, each with its own step function:

    plain lines                    Lemmas/ApiDense.lean        (`DenseMap`, `Rel`)
    scalar family                  Lemmas/ApiDenseScalar.lean  (needs `World.Good2`)
    multi-map / resolution family  Lemmas/ApiDenseMulti.lean   (side condition `settledFrom`)
    wide-mask bit family           Lemmas/ApiDenseBits.lean
    coverage-aware layer + boolean family   Lemmas/ApiDenseCov.lean (`DenseMapC`, `RelC`)

  Here all of them are interpreted on the coverage-aware dense maps `DenseMapC` (= header + one
  value per pixel + one bit per coverage pixel), by one step function `dstepArgsAll`:

  * plain and boolean lines: `ApiDenseCov.dstepArgsC`;
  * scalar family (`sop`, `mask`, `astype`, `copy`, `valid`, `nvalid`, `covmap`): the values of
    `ApiDenseScalar` (`dSop`, `dMask`, `dAstype`); the coverage mask is KEPT by all three (the model's
    `scalarOp` / `applyMask` / `astypeMap` share the coverage index of their operand);
  * bit family (`bits`, `chk`): the values of `ApiDenseBits.dSetBits` / `dCheckBits`; an accepted
    `bits` line grows the mask by the coverage pixels of the addressed pixels, as `upd` does;
  * `upg`, `fracdet`: values of `ApiDenseMulti.dUpgrade` / `dFracdetMap`, the mask is kept;
  * `mop`: `dMultiC` decides the early return `make_empty_like(first)` from the combined COVERAGE
    MASKS (`dAnyCov`), exactly as `_apply_operation` does; the result carries the union /
    intersection mask (`covComb`);
  * `deg`: `dDegradeC`; at or above the coverage order a coarse pixel of a COVERED coverage pixel
    holds the reduction of its children (`sum` / `prod` of nothing: 0 / 1), a coarse pixel of an
    unallocated one the blank, the mask is kept; below the coverage order the map is re-housed
    (`ApiDenseMulti.dDegrade`) and the mask is "has a valid child".

  With the masks on the dense side the side condition `settledFrom` of the multi-map family is no
  longer needed: `rel_stepAll` holds for EVERY line of the five families, from `RelC` and the
  reachable invariant `World.Good2` (typed maps, fresh `n_valid` caches) of the sparse world.
-/
import HealSparse.Lemmas.ApiDenseCov
import HealSparse.Lemmas.ApiDenseBits
import HealSparse.Lemmas.ApiDenseMulti
namespace HS
namespace ApiDenseAll

open ApiDense ApiDenseCov

/-! ### plumbing: value-only outcomes with a coverage mask attached -/

/-- the outcome of a value-only dense computation, with the coverage mask `cov` attached to a
    successful result -/
def withCov (cov : Nat → Bool) : Except Err DenseMap → Except Err DenseMapC
  | .ok d => .ok ⟨d, cov⟩
  | .error e => .error e

/-- outcomes that agree on the values (`ApiDense.OutRel`) agree as coverage-aware outcomes once the
    mask of a successful result is known -/
theorem outRelM_withCov {r : Except Err MapObj} {r' : Except Err DenseMap} {cov : Nat → Bool}
    (h : OutRel r r')
    (hcov : ∀ m', r = .ok m' → ∀ k, k < m'.c.ncov → covered m'.c m'.st k = cov k) :
    OutRelM r (withCov cov r') := by
  cases r <;> cases r'
  · exact h
  · exact h.elim
  · exact h.elim
  · exact ⟨h, hcov _ rfl⟩

/-- … for the API functions that return a new storage for their operand -/
theorem outRelC_withCov {m : MapObj} {r : Except Err (State Val)} {r' : Except Err DenseMap}
    {cov : Nat → Bool} (h : ApiDenseScalar.OutRelSt m r r')
    (hcov : ∀ st, r = .ok st → ∀ k, k < m.c.ncov → covered m.c st k = cov k) :
    OutRelC m r (withCov cov r') := by
  cases r <;> cases r'
  · exact h
  · exact h.elim
  · exact h.elim
  · exact ⟨h, fun k hk => hcov _ rfl k hk⟩

/-! ### the scalar family: observers -/

/-- `valid n`: the ascending valid set -/
def dValidOpC (D : DenseWorldC) (a : Args) : DenseWorldC × String :=
  dWithMapC D a fun d =>
    (D, showList toString ((ApiDenseScalar.dValidSet d.toDense).map fun p => ((p : Nat) : Int)))

/-- `nvalid n`: the size of the valid set -/
def dNvalidC (D : DenseWorldC) (a : Args) : DenseWorldC × String :=
  dWithMapC D a fun d => (D, toString (ApiDenseScalar.dValidSet d.toDense).length)

/-- `covmap n`: per coverage pixel, the number of members of the valid set inside it -/
def dCovmapC (D : DenseWorldC) (a : Args) : DenseWorldC × String :=
  dWithMapC D a fun d =>
    (D, showNats ((List.range d.c.ncov).map fun k =>
      ((ApiDenseScalar.dValidSet d.toDense).filter fun p => p >>> d.c.shift == k).length))

section observers
variable {w : World} {D : DenseWorldC}

theorem relC_valid (h : RelC w D) (hw : w.Good) (a : Args) :
    RelC (opValid w a).1 (dValidOpC D a).1 ∧ (opValid w a).2 = (dValidOpC D a).2 := by
  unfold opValid dValidOpC
  refine relC_withMap h fun m d hg _ hc => ?_
  obtain ⟨_, _, _, l, hl, _, _, hs⟩ := C02.valid_listings (hw.get hg)
  simp only [hl]
  refine ⟨h, ?_⟩
  rw [hs]
  show showList toString ((C02.validSet m.c m.vc m.st).map _) = _
  rw [ApiDenseScalar.corr_validSet hc.corr]

theorem relC_covmap (h : RelC w D) (hw : w.Good) (a : Args) :
    RelC (opCovmap w a).1 (dCovmapC D a).1 ∧ (opCovmap w a).2 = (dCovmapC D a).2 := by
  unfold opCovmap dCovmapC
  refine relC_withMap h fun m d hg _ hc => ⟨h, ?_⟩
  show showNats (coverageCounts m.c m.vc m.st) = _
  rw [ApiDenseScalar.coverageCounts_dense (hw.get hg), ApiDenseScalar.corr_validSet hc.corr, hc.c_eq]

/-- `nvalid` without the string path: the count, from the (fresh) cache or computed and then
    cached — on the sparse side only, the dense world has no cache -/
theorem relC_nvalid (h : RelC w D) (hw : w.Good2) (a : Args) (hpath : a.get? "path" ≠ some "str") :
    RelC (opNvalid w a).1 (dNvalidC D a).1 ∧ (opNvalid w a).2 = (dNvalidC D a).2 := by
  unfold opNvalid dNvalidC
  refine relC_withMap h fun m d hg hd hc => ?_
  have hok := hw.1.get hg
  have hfresh := hw.2.get hg
  have hcount : nValid m.vc m.st = (ApiDenseScalar.dValidSet d.toDense).length := by
    rw [C02.nValid_eq m.c m.vc m.st hok.1.2 hok.2.1.blankInvalid, ApiDenseScalar.corr_validSet hc.corr]
  have hp : (a.get? "path" == some "str") = false := by simpa using hpath
  cases hca : m.cache with
  | some n =>
    simp only []
    refine ⟨h, ?_⟩
    rw [hfresh n hca, hcount]
  | none =>
    have hvs : m.view.isSome = false := by rw [hc.corr.view]; rfl
    simp only [hp, Bool.false_and, Bool.false_eq_true, if_false, hvs]
    exact ⟨h.put_left _ hd (hc.cache _), by rw [hcount]⟩

end observers

/-! ### the scalar family: `sop`, `mask`, `astype` keep the coverage mask -/

section scalar
variable {m : MapObj} {d : DenseMapC}

/-- `m <op> k` on a coverage-aware dense map: the values of `ApiDenseScalar.dSop`, the mask kept -/
def dSopC (d : DenseMapC) (op : String) (k : Scalar) : Except Err DenseMapC :=
  withCov d.cov (ApiDenseScalar.dSop d.toDense op k)

theorem apiScalarOp_corrC (hc : CorrC m d) (op : String) (k : Scalar) :
    OutRelC m (apiScalarOp m op k) (dSopC d op k) :=
  outRelC_withCov (ApiDenseScalar.apiScalarOp_corr hc.corr op k) fun st hst j hj => by
    obtain ⟨_, _, rfl⟩ := ApiScalar.apiScalarOp_ok_st hst
    exact hc.cov j hj

/-- `apply_mask` on a coverage-aware dense map (the mask map enters by its values only): the values
    of `ApiDenseScalar.dMask`, the coverage mask kept -/
def dMaskC (d : DenseMapC) (dk : DenseMap) (mb : Option Int) (ba : Option (List Nat)) :
    Except Err DenseMapC :=
  withCov d.cov (ApiDenseScalar.dMask d.toDense dk mb ba)

theorem apiApplyMask_corrC {mk : MapObj} {dk : DenseMap} (hc : CorrC m d) (hv : m.BlankInvalid)
    (hk : Corr mk dk) (mb : Option Int) (ba : Option (List Nat)) :
    OutRelC m (apiApplyMask m mk mb ba) (dMaskC d dk mb ba) :=
  outRelC_withCov (ApiDenseScalar.apiApplyMask_corr hc.corr hv hk mb ba) fun st hst j hj => by
    obtain ⟨_, _, ham⟩ := ApiScalar.apiApplyMask_ok_st hc.corr.wf hv hst
    obtain ⟨s', hs', _, _, hcov⟩ :=
      C12.applyMask_spec m.c m.vc m.st (ApiScalar.maskBad mk mb ba) hc.corr.wf.2 hv
    rw [ham] at hs'
    cases hs'
    rw [hcov j]
    exact hc.cov j hj

/-- `astype` on a coverage-aware dense map: the values of `ApiDenseScalar.dAstype`, the mask kept -/
def dAstypeC (d : DenseMapC) (dst : DT) (sentinel : Option Val) : Except Err DenseMapC :=
  withCov d.cov (ApiDenseScalar.dAstype d.toDense dst sentinel)

theorem apiAstype_corrC (hc : CorrC m d) (hv : m.BlankInvalid) (dst : DT) (sentinel : Option Val) :
    OutRelM (apiAstype m dst sentinel) (dAstypeC d dst sentinel) :=
  outRelM_withCov (ApiDenseScalar.apiAstype_corr hc.corr hv dst sentinel) fun m' hm' j hj => by
    obtain ⟨src, _, _, _, he⟩ := ApiScalar.apiAstype_ok_st hm'
    have hst : m'.st = astypeMap m.vc m.st (fun x => (convCell src dst x).getD x) m'.sent :=
      congrArg MapObj.st he
    have hcm : m'.c = m.c := by
      unfold MapObj.c
      rw [congrArg MapObj.covord he, congrArg MapObj.spord he]
    rw [hcm] at hj ⊢
    rw [hst]
    exact hc.cov j hj

end scalar

/-- `sop` on the coverage-aware dense world -/
def dSopOpC (D : DenseWorldC) (a : Args) : DenseWorldC × String :=
  dWithMapC D a fun d =>
    match ApiScalar.sopArg a with
    | none => (D, "bad-op:k")
    | some k =>
      match dSopC d (a.getD "op" "add") k with
      | .ok d' =>
        if a.flag "inplace" then (D.bind (a.pos.headD "") d', "ok")
        else (D.bind (a.getD "r" "tmp") d', "ok")
      | .error e => (D, errLine e)

theorem relC_sop {w : World} {D : DenseWorldC} (h : RelC w D) (a : Args) :
    RelC (opSop w a).1 (dSopOpC D a).1 ∧ (opSop w a).2 = (dSopOpC D a).2 := by
  rw [ApiDenseScalar.opSop_eq2]
  unfold dSopOpC
  refine relC_withMap h fun m d _ hd hc => ?_
  cases ApiScalar.sopArg a with
  | none => exact ⟨h, rfl⟩
  | some k =>
    have hr := apiScalarOp_corrC hc (a.getD "op" "add") k
    simp only []
    revert hr
    cases apiScalarOp m (a.getD "op" "add") k <;> cases dSopC d (a.getD "op" "add") k <;> intro hr
    · cases hr
      refine ⟨?_, rfl⟩
      show RelC (if _ then _ else _) D
      split
      · exact h.put_left _ hd (hc.cache none)
      · exact h
    · exact hr.elim
    · exact hr.elim
    · show RelC (if _ then _ else _ : World × String).1 (if _ then _ else _ : DenseWorldC × String).1 ∧
        (if _ then _ else _ : World × String).2 = (if _ then _ else _ : DenseWorldC × String).2
      split
      · exact ⟨h.put _ hr, rfl⟩
      · exact ⟨h.bind _ hr, rfl⟩

/-- `mask` on the coverage-aware dense world -/
def dMaskOpC (D : DenseWorldC) (a : Args) : DenseWorldC × String :=
  dWithMapC D a fun d =>
    match D.get? (a.getD "by" "") with
    | none => (D, "bad-op:no-such-map")
    | some dk =>
      match dMaskC d dk.toDense ((a.get? "bits").bind String.toInt?) ((a.get? "bitarr").bind parseNats) with
      | .ok d' =>
        if a.flag "inplace" then (D.bind (a.pos.headD "") d', "ok")
        else (D.bind (a.getD "r" "tmp") d', "ok")
      | .error e => (D, errLine e)

theorem relC_mask {w : World} {D : DenseWorldC} (h : RelC w D) (hw : w.Good) (a : Args) :
    RelC (opMask w a).1 (dMaskOpC D a).1 ∧ (opMask w a).2 = (dMaskOpC D a).2 := by
  unfold opMask dMaskOpC
  refine relC_withMap h fun m d hg hd hc => ?_
  have hv : m.BlankInvalid := (hw.get hg).2.1.blankInvalid
  have hby := relC_get h (a.getD "by" "")
  simp only []
  revert hby
  cases w.get? (a.getD "by" "") <;> cases D.get? (a.getD "by" "") <;> intro hby
  · exact ⟨h, rfl⟩
  · exact hby.elim
  · exact hby.elim
  · rename_i mk dk
    have hr := apiApplyMask_corrC hc hv hby.corr ((a.get? "bits").bind String.toInt?)
      ((a.get? "bitarr").bind parseNats)
    simp only []
    revert hr
    cases apiApplyMask m mk ((a.get? "bits").bind String.toInt?) ((a.get? "bitarr").bind parseNats) <;>
      cases dMaskC d dk.toDense ((a.get? "bits").bind String.toInt?) ((a.get? "bitarr").bind parseNats) <;>
      intro hr
    · cases hr
      exact ⟨h, rfl⟩
    · exact hr.elim
    · exact hr.elim
    · show RelC (if _ then _ else _ : World × String).1 (if _ then _ else _ : DenseWorldC × String).1 ∧
        (if _ then _ else _ : World × String).2 = (if _ then _ else _ : DenseWorldC × String).2
      split
      · exact ⟨h.put _ hr, rfl⟩
      · exact ⟨h.bind _ hr, rfl⟩

/-- `astype` on the coverage-aware dense world -/
def dAstypeOpC (D : DenseWorldC) (a : Args) : DenseWorldC × String :=
  dWithMapC D a fun d =>
    match (a.get? "dtype").bind parseDT, optVal a "sentinel" with
    | some dt, some sent =>
      (match dAstypeC d dt sent with
       | .ok d' => (D.bind (a.getD "r" "tmp") d', "ok")
       | .error e => (D, errLine e))
    | _, _ => (D, "bad-op:astype")

theorem relC_astype {w : World} {D : DenseWorldC} (h : RelC w D) (hw : w.Good) (a : Args) :
    RelC (opAstype w a).1 (dAstypeOpC D a).1 ∧ (opAstype w a).2 = (dAstypeOpC D a).2 := by
  unfold opAstype dAstypeOpC
  refine relC_withMap h fun m d hg _ hc => ?_
  have hv : m.BlankInvalid := (hw.get hg).2.1.blankInvalid
  cases (a.get? "dtype").bind parseDT <;> cases optVal a "sentinel"
  · exact ⟨h, rfl⟩
  · exact ⟨h, rfl⟩
  · exact ⟨h, rfl⟩
  · rename_i dt sent
    have hr := apiAstype_corrC hc hv dt sent
    simp only []
    revert hr
    cases apiAstype m dt sent <;> cases dAstypeC d dt sent <;> intro hr
    · cases hr
      exact ⟨h, rfl⟩
    · exact hr.elim
    · exact hr.elim
    · exact ⟨h.bind _ hr, rfl⟩

/-! ### the wide-mask bit family -/

/-- the mask after an accepted `set_bits_pix` / `clear_bits_pix`: grown by the coverage pixels of
    the addressed pixels (the call is an `update_values_pix` with a value) -/
def bitsCov (d : DenseMapC) (pix : List Nat) : Nat → Bool := fun k =>
  d.cov k || pix.any fun p => p >>> d.c.shift == k

/-- set / clear on a coverage-aware dense map: the values of `ApiDenseBits.dSetBits`, the mask
    grown as by `upd` -/
def dSetBitsC (d : DenseMapC) (pix bits : List Nat) (clear : Bool) : Except Err DenseMapC :=
  withCov (bitsCov d pix) (ApiDenseBits.dSetBits d.toDense pix bits clear)

theorem apiSetBits_corrC {m : MapObj} {d : DenseMapC} (hc : CorrC m d) (pix bits : List Nat)
    (clear : Bool) : OutRelM (apiSetBits m pix bits clear) (dSetBitsC d pix bits clear) :=
  outRelM_withCov (ApiDenseBits.apiSetBits_corr hc.corr pix bits clear) fun m' hm' j hj => by
    cases hkind : m.kind with
    | wide n =>
      rw [ApiDenseBits.apiSetBits_upd hkind] at hm'
      split at hm'
      · cases hm'
      · split at hm'
        · cases hm'
        · have hcm : m'.c = m.c := by rw [(ApiRanges.apiUpdate_ok hm').2.2]; rfl
          rw [hcm] at hj ⊢
          rw [apiUpdate_cov hc.corr.wf hm' j hj, hc.cov j hj, hc.c_eq]
          rfl
    | plain dt =>
      rw [ApiBits.apiSetBits_not_wide (fun n h => by rw [hkind] at h; cases h)] at hm'; cases hm'
    | packed =>
      rw [ApiBits.apiSetBits_not_wide (fun n h => by rw [hkind] at h; cases h)] at hm'; cases hm'
    | recd fs pr =>
      rw [ApiBits.apiSetBits_not_wide (fun n h => by rw [hkind] at h; cases h)] at hm'; cases hm'

/-- `bits` on the coverage-aware dense world -/
def dBitsOpC (D : DenseWorldC) (a : Args) : DenseWorldC × String :=
  dWithMapC D a fun d =>
    match parseNats (a.getD "pix" "_"), parseNats (a.getD "bits" "_") with
    | some pix, some bits =>
      (match dSetBitsC d pix bits (a.getD "mode" "set" == "clear") with
       | .ok d' => (D.bind (a.pos.headD "") d', "ok")
       | .error e => (D, errLine e))
    | _, _ => (D, "bad-op:bits")

theorem relC_bits {w : World} {D : DenseWorldC} (h : RelC w D) (a : Args) :
    RelC (opBits w a).1 (dBitsOpC D a).1 ∧ (opBits w a).2 = (dBitsOpC D a).2 := by
  unfold opBits dBitsOpC
  refine relC_withMap h fun m d _ _ hc => ?_
  cases parseNats (a.getD "pix" "_") <;> cases parseNats (a.getD "bits" "_")
  · exact ⟨h, rfl⟩
  · exact ⟨h, rfl⟩
  · exact ⟨h, rfl⟩
  · rename_i pix bits
    have hr := apiSetBits_corrC hc pix bits (a.getD "mode" "set" == "clear")
    simp only []
    revert hr
    cases apiSetBits m pix bits (a.getD "mode" "set" == "clear") <;>
      cases dSetBitsC d pix bits (a.getD "mode" "set" == "clear") <;> intro hr
    · cases hr
      exact ⟨h, rfl⟩
    · exact hr.elim
    · exact hr.elim
    · exact ⟨h.put _ hr, rfl⟩

/-- `chk` on the coverage-aware dense world -/
def dChkOpC (D : DenseWorldC) (a : Args) : DenseWorldC × String :=
  dWithMapC D a fun d =>
    match parseNats (a.getD "pix" "_"), parseNats (a.getD "bits" "_") with
    | some pix, some bits =>
      (match ApiDenseBits.dCheckBits d.toDense pix bits with
       | .ok l => (D, showBits l)
       | .error e => (D, errLine e))
    | _, _ => (D, "bad-op:chk")

theorem relC_chk {w : World} {D : DenseWorldC} (h : RelC w D) (a : Args) :
    RelC (opChk w a).1 (dChkOpC D a).1 ∧ (opChk w a).2 = (dChkOpC D a).2 := by
  unfold opChk dChkOpC
  refine relC_withMap h fun m d _ _ hc => ?_
  cases parseNats (a.getD "pix" "_") <;> cases parseNats (a.getD "bits" "_")
  · exact ⟨h, rfl⟩
  · exact ⟨h, rfl⟩
  · exact ⟨h, rfl⟩
  · rename_i pix bits
    simp only []
    rw [ApiDenseBits.apiCheckBits_corr hc.corr]
    cases ApiDenseBits.dCheckBits d.toDense pix bits <;> exact ⟨h, rfl⟩

/-! ### `upg` and `fracdet`: the coverage mask is kept -/

section resolution
variable {m : MapObj} {d : DenseMapC}

/-- `upgrade` on a coverage-aware dense map: the values of `ApiDenseMulti.dUpgrade`, the mask kept
    (the coverage order does not change) -/
def dUpgradeC (d : DenseMapC) (ord : Nat) : Except Err DenseMapC :=
  withCov d.cov (ApiDenseMulti.dUpgrade d.toDense ord)

theorem apiUpgrade_corrC (hc : CorrC m d) (ord : Nat) :
    OutRelM (apiUpgrade m ord) (dUpgradeC d ord) :=
  outRelM_withCov (ApiDenseMulti.apiUpgrade_corr hc.corr ord) fun m' hm' j hj => by
    obtain ⟨hlt, _, rfl⟩ := ApiResolution.apiUpgrade_ok hm'
    exact ((ApiResolution.upgrade_view hc.corr.wf hlt).2.2 j hj).trans (hc.cov j hj)

/-- `fracdet_map` on a coverage-aware dense map: the values of `ApiDenseMulti.dFracdetMap`, the
    mask of the source -/
def dFracdetC (d : DenseMapC) (ord : Nat) : DenseMapC :=
  ⟨ApiDenseMulti.dFracdetMap d.toDense ord, d.cov⟩

theorem fracdet_corrC (hc : CorrC m d) (hk : m.KindOk) {ord : Nat} (hlo : m.covord ≤ ord)
    (hhi : ord ≤ m.spord) : CorrC (ApiResolution.fracdetMap m ord) (dFracdetC d ord) :=
  ⟨ApiDenseMulti.fracdet_corr hc.corr hk hlo hhi, fun j hj =>
    (ApiResolution.fracdetMap_covered hc.corr.wf hlo hhi hj).trans (hc.cov j hj)⟩

end resolution

/-- `upg` on the coverage-aware dense world -/
def dUpgOpC (D : DenseWorldC) (a : Args) : DenseWorldC × String :=
  dWithMapC D a fun d =>
    match a.nat? "ord" with
    | none => (D, "bad-op:ord")
    | some ord =>
      match dUpgradeC d ord with
      | .ok r => (D.bind (a.getD "r" "tmp") r, "ok")
      | .error e => (D, errLine e)

theorem relC_upg {w : World} {D : DenseWorldC} (h : RelC w D) (a : Args) :
    RelC (opUpg w a).1 (dUpgOpC D a).1 ∧ (opUpg w a).2 = (dUpgOpC D a).2 := by
  unfold opUpg dUpgOpC
  refine relC_withMap h fun m d _ _ hc => ?_
  cases a.nat? "ord" with
  | none => exact ⟨h, rfl⟩
  | some ord =>
    have hr := apiUpgrade_corrC hc ord
    simp only []
    revert hr
    cases apiUpgrade m ord <;> cases dUpgradeC d ord <;> intro hr
    · cases hr; exact ⟨h, rfl⟩
    · exact hr.elim
    · exact hr.elim
    · exact ⟨h.bind _ hr, rfl⟩

/-- `fracdet` on the coverage-aware dense world -/
def dFracdetOpC (D : DenseWorldC) (a : Args) : DenseWorldC × String :=
  dWithMapC D a fun d =>
    match a.get? "r", a.nat? "ord" with
    | some r, some ord =>
      if ord > d.toDense.spord || ord < d.toDense.covord then (D, errLine .value)
      else (D.bind r (dFracdetC d ord), "ok")
    | _, _ => (D, "bad-op:fracdet")

theorem relC_fracdet {w : World} {D : DenseWorldC} (h : RelC w D) (hw : w.Good) (a : Args) :
    RelC (opFracdet w a).1 (dFracdetOpC D a).1 ∧ (opFracdet w a).2 = (dFracdetOpC D a).2 := by
  rw [ApiDenseMulti.opFracdet_eq']
  unfold dFracdetOpC
  refine relC_withMap h fun m d hget _ hc => ?_
  have hmok := hw.get hget
  cases a.get? "r" with
  | none => exact ⟨h, rfl⟩
  | some r =>
    cases a.nat? "ord" with
    | none => exact ⟨h, rfl⟩
    | some ord =>
      simp only []
      rw [← hc.corr.spord, ← hc.corr.covord]
      by_cases hb : (decide (ord > m.spord) || decide (ord < m.covord)) = true
      · rw [if_pos hb, if_pos hb]; exact ⟨h, rfl⟩
      · rw [if_neg hb, if_neg hb]
        have hb' : ¬ ord > m.spord ∧ ¬ ord < m.covord := by simpa using hb
        exact ⟨h.bind r (fracdet_corrC hc hmok.2.1 (by omega) (by omega)), rfl⟩

/-! ### `mop`: the early return decided from the coverage masks -/

/-- two lists of maps agree element by element, masks included -/
def CorrLC : List MapObj → List DenseMapC → Prop
  | [], [] => True
  | m :: ms, d :: ds => CorrC m d ∧ CorrLC ms ds
  | _, _ => False

theorem CorrLC.toL : ∀ {ms : List MapObj} {ds : List DenseMapC}, CorrLC ms ds →
    ApiDenseMulti.CorrL ms (ds.map (·.toDense))
  | [], [], _ => trivial
  | _ :: _, _ :: _, h => ⟨h.1.corr, CorrLC.toL h.2⟩
  | [], _ :: _, h => h.elim
  | _ :: _, [], h => h.elim

theorem CorrLC.any {F : MapObj → Bool} {G : DenseMapC → Bool} :
    ∀ {ms : List MapObj} {ds : List DenseMapC}, CorrLC ms ds →
      (∀ m d, m ∈ ms → CorrC m d → F m = G d) → ms.any F = ds.any G
  | [], [], _, _ => rfl
  | m :: ms, d :: ds, h, hf => by
    rw [List.any_cons, List.any_cons, hf m d List.mem_cons_self h.1,
      CorrLC.any h.2 fun m' d' hm => hf m' d' (List.mem_cons_of_mem _ hm)]
  | [], _ :: _, h, _ => h.elim
  | _ :: _, [], h, _ => h.elim

theorem CorrLC.all {F : MapObj → Bool} {G : DenseMapC → Bool} :
    ∀ {ms : List MapObj} {ds : List DenseMapC}, CorrLC ms ds →
      (∀ m d, m ∈ ms → CorrC m d → F m = G d) → ms.all F = ds.all G
  | [], [], _, _ => rfl
  | m :: ms, d :: ds, h, hf => by
    rw [List.all_cons, List.all_cons, hf m d List.mem_cons_self h.1,
      CorrLC.all h.2 fun m' d' hm => hf m' d' (List.mem_cons_of_mem _ hm)]
  | [], _ :: _, h, _ => h.elim
  | _ :: _, [], h, _ => h.elim

/-- the combined coverage mask of the inputs: union / intersection -/
def covComb (row : OpRow) (ds : List DenseMapC) (k : Nat) : Bool :=
  if row.union then ds.any (fun d => d.cov k) else ds.all (fun d => d.cov k)

/-- the combined COVERAGE is non-empty (what `_apply_operation` tests before its early return) -/
def dAnyCov (row : OpRow) (fd : DenseMapC) (ds : List DenseMapC) : Bool :=
  (List.range fd.c.ncov).any (covComb row ds)

/-- the result of the early return `make_empty_like(first)`: the first map's orders and sentinel,
    the kind the call announces, blank everywhere -/
def dEmptyLike (row : OpRow) (fd : DenseMap) : DenseMap :=
  ⟨fd.covord, fd.spord, ApiMulti.kindE row fd.hdr, fd.sent,
    fun _ => (ApiMulti.kindE row fd.hdr).blank fd.sent⟩

/-- **`_apply_operation` on coverage-aware dense maps**: the validation of the headers; with an
    EMPTY combined coverage the empty map (before any look at the cells: no filler / sentinel /
    conversion check, the kind of the first map kept); else the data-dependent checks and the
    folded values of `ApiDenseMulti`; the mask of the result is the union / intersection mask -/
def dMultiC (row : OpRow) (ds : List DenseMapC) : Except Err DenseMapC :=
  match ApiMulti.structErr row ((ds.map (·.toDense)).map DenseMap.hdr) with
  | some e => .error e
  | none =>
    match ds with
    | [] => .error .runtime
    | fd :: _ =>
      if !dAnyCov row fd ds then .ok ⟨dEmptyLike row fd.toDense, covComb row ds⟩
      else
        match ApiDenseMulti.dDataErr row fd.toDense (ds.map (·.toDense)) with
        | some e => .error e
        | none => .ok ⟨ApiDenseMulti.dResult row fd.toDense (ds.map (·.toDense)), covComb row ds⟩

section multi
open ApiMulti
variable {row : OpRow} {first : MapObj} {ms : List MapObj} {fd : DenseMapC} {ds : List DenseMapC}

theorem covComb_corr (hacc : Accepts row first ms) (hL : CorrLC ms ds) {k : Nat}
    (hk : k < first.c.ncov) :
    (if row.union then ms.any (fun m => covered m.c m.st k)
      else ms.all (fun m => covered m.c m.st k)) = covComb row ds k := by
  have e : ∀ m d, m ∈ ms → CorrC m d → covered m.c m.st k = d.cov k :=
    fun m d hm hc => hc.cov k (by rw [hacc.c_eq hm]; exact hk)
  unfold covComb
  cases row.union with
  | true =>
    simp only [if_true]
    exact CorrLC.any hL e
  | false =>
    simp only [Bool.false_eq_true, if_false]
    exact CorrLC.all hL e

theorem anyCov_dense (hacc : Accepts row first ms) (hf : CorrC first fd) (hL : CorrLC ms ds) :
    anyCov row first ms = dAnyCov row fd ds := by
  unfold anyCov dAnyCov
  rw [← hf.c_eq]
  exact any_congr_mem fun k hk => covComb_corr hacc hL (List.mem_range.1 hk)

end multi

open ApiMulti in
/-- **`_apply_operation` on the maps and on the coverage-aware dense maps agree** — the same
    error, or results that agree again, masks included — with NO side condition -/
theorem multi_corrC {row : OpRow} {ms : List MapObj} {ds : List DenseMapC} (hL : CorrLC ms ds)
    (hok : ∀ m ∈ ms, m.WF ∧ m.KindOk) : OutRelM (apiMultiOp row ms) (dMultiC row ds) := by
  have hLv := hL.toL
  have hS := ApiDenseMulti.structErr_hdr row hLv
  unfold dMultiC
  cases hse : structErr row ((ds.map (·.toDense)).map DenseMap.hdr) with
  | some e =>
    have : apiMultiOp row ms = .error e := (error_iff row ms e).2 (Or.inl (hS.trans hse))
    rw [this]; exact rfl
  | none =>
    simp only []
    obtain ⟨first, rest, rfl, hacc⟩ := (structErr_none_iff row ms).1 (hS.trans hse)
    cases ds with
    | nil => exact hL.elim
    | cons fd rd =>
      simp only []
      have hf : CorrC first fd := hL.1
      have hfirst : first ∈ first :: rest := List.mem_cons_self
      obtain ⟨e1, e2, e3, e4, e5, e6, e7, e8, _⟩ := ApiDenseMulti.corr_multi_facts hf.corr row
      have hac := anyCov_dense hacc hf hL
      cases hcv : dAnyCov row fd (fd :: rd) with
      | false =>
        simp only [Bool.not_false, if_true]
        have hacF : anyCov row first (first :: rest) = false := hac.trans hcv
        have hres : apiMultiOp row (first :: rest) = .ok (emptyLike row first) :=
          (ok_iff _ _ _).2 ⟨first, rest, rfl, hacc, Or.inl ⟨hacF, rfl⟩⟩
        rw [hres]
        obtain ⟨f', r', hfr, _, _, _, _, _, _, a6, _, _, _, a10⟩ := ok_sem hok hres
        cases hfr
        show CorrC (emptyLike row first) ⟨dEmptyLike row fd.toDense, covComb row (fd :: rd)⟩
        refine ⟨⟨a6, hf.corr.view, hf.corr.covord, hf.corr.spord, e2, hf.corr.sent, fun p _ => ?_⟩,
          fun j hj => ?_⟩
        · show HS.abs first.c (vcE row first) (makeEmpty first.c (vcE row first) []) p = _
          rw [makeEmpty_abs']
          show (kindE row first).blank first.sent = (kindE row fd.toDense.hdr).blank fd.toDense.sent
          rw [e2, hf.corr.sent]
        · rw [a10 j hj]
          exact covComb_corr hacc hL hj
      | true =>
        simp only [Bool.not_true, Bool.false_eq_true, if_false]
        have hacT : anyCov row first (first :: rest) = true := hac.trans hcv
        have hdata := ApiDenseMulti.dataErr_dense hacc hfirst hok hf.corr hLv hacT
        cases hde : ApiDenseMulti.dDataErr row fd.toDense ((fd :: rd).map (·.toDense)) with
        | some e =>
          have : apiMultiOp row (first :: rest) = .error e :=
            (error_iff _ _ e).2 (Or.inr ⟨hS.trans hse, first, rest, rfl, hdata.trans hde⟩)
          rw [this]; exact rfl
        | none =>
          simp only []
          cases hres : apiMultiOp row (first :: rest) with
          | error e =>
            exfalso
            rcases (error_iff _ _ e).1 hres with h | ⟨_, f', r', hfr, hd⟩
            · rw [hS.trans hse] at h; cases h
            · cases hfr; rw [hdata.trans hde] at hd; cases hd
          | ok m' =>
            obtain ⟨f', r', hfr, _, a1, a2, a3, _, a5, a6, _, _, a9, a10⟩ := ok_sem hok hres
            cases hfr
            obtain ⟨f'', r'', hfr', _, _, _, _, hcase⟩ := WFApi.apiMultiOp_ok hres
            cases hfr'
            have hview : m'.view = none := by
              rcases hcase with ⟨_, _, h⟩ | ⟨_, h, _⟩
              · rw [h]; exact hf.corr.view
              · exact h
            have hkind : m'.kind = kindOut row fd.toDense.hdr := by
              rw [a5, hacT]
              simp only [if_true]
              exact e1
            have hc' : m'.c = first.c := by unfold MapObj.c; rw [a1, a2]
            refine ⟨⟨a6, hview, a1.trans hf.corr.covord, a2.trans hf.corr.spord, hkind,
              a3.trans hf.corr.sent, fun p hp => ?_⟩, fun j hj => ?_⟩
            · have hp' : p < first.c.npix := by rw [← hc']; exact hp
              rw [a9 p hp, ApiDenseMulti.vals_dense hacc hLv p hp', ApiDenseMulti.CorrL.length hLv]
              show _ = ApiDenseMulti.dOut row fd.toDense ((fd :: rd).map (·.toDense)) p
              unfold ApiDenseMulti.dOut
              rw [← e4, ← e5]
              congr 1
              unfold MapObj.vc
              rw [hkind, a3, hf.corr.sent]
              rfl
            · rw [a10 j hj]
              exact covComb_corr hacc hL (by rw [← hc']; exact hj)

/-- the dense side of a `mop` line -/
def dMopC (D : DenseWorldC) (a : Args) : DenseWorldC × String :=
  match (splitList (a.getD "maps" "_")).mapM D.get? with
  | none => (D, "bad-op:no-such-map")
  | some ds =>
    match ApiDenseMulti.mopRow a ((ds.head?.map (·.toDense.kind.code)).getD "") with
    | none => (D, if ds.length < 2 then errLine .runtime else errLine .notImpl)
    | some row =>
      match dMultiC row.withSpec ds with
      | .ok d => (D.bind (a.getD "r" "tmp") d, "ok")
      | .error e => (D, errLine e)

/-- looking a list of names up on both sides -/
theorem relC_mapM {w : World} {D : DenseWorldC} (hR : RelC w D) (hw : w.Good) (names : List String) :
    match names.mapM w.get?, names.mapM D.get? with
    | some ms, some ds => CorrLC ms ds ∧ ∀ m ∈ ms, m.WF ∧ m.KindOk
    | none, none => True
    | _, _ => False := by
  induction names with
  | nil => exact ⟨trivial, fun _ h => nomatch h⟩
  | cons n ns ih =>
    rw [List.mapM_cons, List.mapM_cons]
    have hm := relC_get hR n
    revert hm
    cases hget : w.get? n <;> cases hd : D.get? n <;> intro hm
    · exact trivial
    · exact hm.elim
    · exact hm.elim
    · rename_i m d
      have hmok := hw.get hget
      revert ih
      cases ns.mapM w.get? <;> cases ns.mapM D.get? <;> intro ih
      · exact trivial
      · exact ih.elim
      · exact ih.elim
      · refine ⟨⟨hm, ih.1⟩, fun x hx => ?_⟩
        rcases List.mem_cons.1 hx with rfl | hx
        · exact ⟨hmok.1, hmok.2.1⟩
        · exact ih.2 x hx

theorem relC_mop {w : World} {D : DenseWorldC} (h : RelC w D) (hw : w.Good) (a : Args) :
    RelC (opMop w a).1 (dMopC D a).1 ∧ (opMop w a).2 = (dMopC D a).2 := by
  rw [ApiDenseMulti.opMop_eq]
  unfold dMopC
  have hm := relC_mapM h hw (splitList (a.getD "maps" "_"))
  revert hm
  cases (splitList (a.getD "maps" "_")).mapM w.get? <;>
    cases (splitList (a.getD "maps" "_")).mapM D.get? <;> intro hm
  · exact ⟨h, rfl⟩
  · exact hm.elim
  · exact hm.elim
  · rename_i ms ds
    obtain ⟨hL, hok⟩ := hm
    have hcode : (ms.head?.map (·.kind.code)).getD "" =
        (ds.head?.map (·.toDense.kind.code)).getD "" := by
      cases ms with
      | nil =>
        cases ds with
        | nil => rfl
        | cons _ _ => exact hL.elim
      | cons m _ =>
        cases ds with
        | nil => exact hL.elim
        | cons d _ =>
          show m.kind.code = d.toDense.kind.code
          rw [hL.1.corr.kind]
    have hlen : ms.length = ds.length := by
      rw [ApiDenseMulti.CorrL.length hL.toL, List.length_map]
    simp only [hcode]
    cases ApiDenseMulti.mopRow a ((ds.head?.map (·.toDense.kind.code)).getD "") with
    | none =>
      simp only [hlen, and_true]
      exact h
    | some row =>
      have hr := multi_corrC (row := row.withSpec) hL hok
      simp only []
      revert hr
      cases apiMultiOp row.withSpec ms <;> cases dMultiC row.withSpec ds <;> intro hr
      · cases hr; exact ⟨h, rfl⟩
      · exact hr.elim
      · exact hr.elim
      · exact ⟨h.bind _ hr, rfl⟩

/-! ### `deg`: coverage-aware reduction at or above the coverage order -/

section degrade
open ApiDegrade

theorem shift_lt_of_le {p so ord : Nat} (hle : so ≤ ord) (hp : p < 12 * 4 ^ ord) :
    p >>> (2 * (ord - so)) < 12 * 4 ^ so := by
  rw [Nat.shiftRight_eq_div_pow, Nat.div_lt_iff_lt_mul (Nat.two_pow_pos _)]
  have e : 4 ^ so * 2 ^ (2 * (ord - so)) = 4 ^ ord := by
    rw [Nat.pow_mul, show (2 : Nat) ^ 2 = 4 from rfl, ← Nat.pow_add]
    congr 1; omega
  rw [Nat.mul_assoc, e]
  exact hp

/-- the children of a coarse pixel of the sphere are pixels of the map -/
theorem childPix_lt_pow {m : MapObj} (hwf : m.WF) {ord q p : Nat} (hhi : ord ≤ m.spord)
    (hq : q < 12 * 4 ^ ord) (hp : p ∈ childPix m ord q) : p < m.npix := by
  have hpk := mem_childPix.1 hp
  rw [← hpk, Nat.shiftRight_eq_div_pow, Nat.div_lt_iff_lt_mul (Nat.two_pow_pos _)] at hq
  show p < (cfgOf m.covord m.spord).npix
  rw [cfgOf_npix hwf.1]
  have e : 2 ^ (2 * (m.spord - ord)) = 4 ^ (m.spord - ord) := by rw [Nat.pow_mul]
  rw [e, Nat.mul_assoc, ← Nat.pow_add] at hq
  have : ord + (m.spord - ord) = m.spord := by omega
  rw [this] at hq
  exact hq

/-- the value of the degraded array at coarse pixel `q`, at or above the coverage order: inside a
    COVERED coverage pixel the reduction of the children (of nothing, when none is valid: `sum`
    gives 0, `prod` gives 1, the masked reductions the sentinel), outside the blank -/
def dCoreValC (d : DenseMapC) (ord : Nat) (red : String) (wd : Option DenseMap) : Nat → Val := fun q =>
  if d.cov (q >>> (2 * (ord - d.toDense.covord))) then ApiDenseMulti.dCoreVal d.toDense ord red wd q
  else ApiDenseMulti.dCoreBlank d.toDense red wd

/-- the mask of a map re-housed at the coarser coverage order `ord`: the coverage pixels holding
    a valid pixel -/
def degCovBelow (d : DenseMap) (ord : Nat) : Nat → Bool := fun k =>
  (childPix d.hdr ord k).any fun p => ApiDenseMulti.DenseMap.valid d (d.f p)

/-- **`degrade(nside_out, reduction, weights)` on a coverage-aware dense map**: `ValueError` for a
    finer target, `NotImplementedError` for a bit-packed map; below the coverage order the values
    of `ApiDenseMulti.dDegrade` (both arrays re-housed first) with the mask "has a valid child";
    a copy at the map's own order; else `dCoreValC` under the checks of `dCoreG`, the mask kept -/
def dDegradeC (d : DenseMapC) (ord : Nat) (red : String) (wd : Option DenseMap) :
    Except Err DenseMapC :=
  if ord > d.toDense.spord then .error .value
  else if d.toDense.kind == .packed then .error .notImpl
  else if ord < d.toDense.covord then
    withCov (degCovBelow d.toDense ord) (ApiDenseMulti.dDegrade d.toDense ord red wd)
  else if ord == d.toDense.spord then .ok d
  else withCov d.cov (ApiDenseMulti.dCoreG (dCoreValC d ord red wd) d.toDense ord red wd)

theorem outRelM_error {r : Except Err MapObj} {e : Err} (h : OutRel r (.error e)) :
    OutRelM r (.error e) := by
  cases r <;> exact h

variable {m : MapObj} {d : DenseMapC}

/-- the coverage mask of a degraded map -/
theorem apiDegrade_covC (hc : CorrC m d) (hk : m.KindOk) {ord : Nat} {red : String}
    {w : Option MapObj} {m' : MapObj} (h : apiDegrade m ord red w = .ok m') (j : Nat)
    (hj : j < m'.c.ncov) :
    covered m'.c m'.st j = if ord < m.covord then degCovBelow d.toDense ord j else d.cov j := by
  obtain ⟨hle, hnp⟩ := apiDegrade_pre h
  have hwf := hc.corr.wf
  by_cases heq : ord = m.spord
  · subst heq
    rw [apiDegrade_same red w hwf.1 hnp] at h
    cases h
    rw [if_neg (by have := hwf.1; omega)]
    exact hc.cov j hj
  · have hlt : ord < m.spord := by omega
    have Dg := apiDegrade_ok hwf hk.blankInvalid hlt h
    have hj' : j < 12 * 4 ^ (min m.covord ord) := by rw [← Dg.covord]; exact hj
    rw [Dg.cov j hj']
    by_cases hb : ord < m.covord
    · rw [if_pos hb, if_pos hb]
      unfold degCovBelow
      rw [← ApiDenseMulti.childPix_hdr hc.corr]
      apply ApiMulti.any_congr_mem
      intro p hp
      have hjo : j < 12 * 4 ^ ord := by
        rw [Nat.min_eq_right (by omega)] at hj'; exact hj'
      have hpm : p < m.npix := childPix_lt_pow hwf hle hjo hp
      rw [hc.corr.abs p hpm, ApiDenseMulti.valid_corr hc.corr]
    · rw [if_neg hb, if_neg hb]
      have : j < m.c.ncov := by
        rw [Nat.min_eq_left (by omega)] at hj'; exact hj'
      exact hc.cov j this

/-- **`degrade` on the map and on the coverage-aware dense map agree**: the same error, or results
    that agree again, masks included — every reduction, with or without weights, above and below
    the coverage order, with NO side condition -/
theorem degrade_corrC (hc : CorrC m d) (hk : m.KindOk) {red : String} {w : Option MapObj}
    {wd : Option DenseMap} (hW : ApiDenseMulti.CorrW w wd)
    (hwk : ∀ wm, w = some wm → wm.WF ∧ wm.KindOk) (ord : Nat) :
    OutRelM (apiDegrade m ord red w) (dDegradeC d ord red wd) := by
  have hcovC := fun m' (h : apiDegrade m ord red w = .ok m') j hj => apiDegrade_covC hc hk h j hj
  have hsettled : (ord > m.spord ∨ (m.kind == .packed) = true ∨ ord < m.covord ∨ (ord == m.spord) = true) →
      OutRel (apiDegrade m ord red w) (ApiDenseMulti.dDegrade d.toDense ord red wd) := by
    intro hcond
    apply ApiDenseMulti.degrade_corr hc.corr hk hW hwk ord
    unfold ApiDenseMulti.degSettled
    rw [← hc.corr.spord, ← hc.corr.kind, ← hc.corr.covord, if_pos]
    simp only [Bool.or_eq_true, decide_eq_true_eq]
    rcases hcond with h | h | h | h
    · exact Or.inl (Or.inl (Or.inl h))
    · exact Or.inl (Or.inl (Or.inr h))
    · exact Or.inl (Or.inr h)
    · exact Or.inr h
  unfold dDegradeC
  rw [← hc.corr.spord, ← hc.corr.kind, ← hc.corr.covord]
  by_cases h1 : ord > m.spord
  · rw [if_pos h1]
    have hr := hsettled (Or.inl h1)
    have he : ApiDenseMulti.dDegrade d.toDense ord red wd = .error .value := by
      unfold ApiDenseMulti.dDegrade
      rw [← hc.corr.spord, if_pos h1]
    rw [he] at hr
    exact outRelM_error hr
  rw [if_neg h1]
  by_cases h2 : (m.kind == .packed) = true
  · rw [if_pos h2]
    have hr := hsettled (Or.inr (Or.inl h2))
    have he : ApiDenseMulti.dDegrade d.toDense ord red wd = .error .notImpl := by
      unfold ApiDenseMulti.dDegrade
      rw [← hc.corr.spord, ← hc.corr.kind, if_neg h1, if_pos h2]
    rw [he] at hr
    exact outRelM_error hr
  rw [if_neg h2]
  by_cases h3 : ord < m.covord
  · rw [if_pos h3]
    refine outRelM_withCov (hsettled (Or.inr (Or.inr (Or.inl h3)))) fun m' hm' j hj => ?_
    rw [hcovC m' hm' j hj, if_pos h3]
  rw [if_neg h3]
  by_cases h4 : (ord == m.spord) = true
  · rw [if_pos h4]
    have hr := hsettled (Or.inr (Or.inr (Or.inr h4)))
    have he : ApiDenseMulti.dDegrade d.toDense ord red wd = .ok d.toDense := by
      unfold ApiDenseMulti.dDegrade
      rw [← hc.corr.spord, ← hc.corr.kind, ← hc.corr.covord, if_neg h1, if_neg h2, if_neg h3, if_pos h4]
    rw [he] at hr
    refine outRelM_withCov (cov := d.cov) hr fun m' hm' j hj => ?_
    rw [hcovC m' hm' j hj, if_neg h3]
  rw [if_neg h4]
  have h4' : ord ≠ m.spord := by simpa using h4
  have hlo : m.covord ≤ ord := by omega
  have hhi : ord ≤ m.spord := by omega
  have hcore : apiDegrade m ord red w = apiDegradeCore m ord red w := by
    rw [apiDegrade_eq]
    unfold degradeSpec
    rw [if_neg h1, if_neg h2, if_neg h3, if_neg h4]
  have hcq : ∀ q, q < (cfgOf m.covord ord).npix →
      d.cov (q >>> (2 * (ord - d.toDense.covord))) = covered m.c m.st (q >>> (2 * (ord - m.covord))) := by
    intro q hq
    rw [ApiDenseMulti.npix_eq_pow hlo] at hq
    rw [← hc.corr.covord]
    exact (hc.cov _ (shift_lt_of_le hlo hq)).symm
  refine outRelM_withCov ?_ fun m' hm' j hj => ?_
  · rw [hcore]
    refine ApiDenseMulti.core_corr_gen hc.corr hk hW (fun wm hwm => (hwk wm hwm).1) hlo hhi _
      (fun q hq hcv => ?_) (fun _ q hq hcv _ => ?_)
    · unfold dCoreValC
      rw [hcq q hq, hcv]
      rfl
    · unfold dCoreValC
      rw [hcq q hq, hcv]
      rfl
  · rw [hcovC m' hm' j hj, if_neg h3]

end degrade

/-- the optional weight array named on a `deg` line (`w=`): `none` = no such map -/
def degWeightsC (D : DenseWorldC) (a : Args) : Option (Option DenseMap) :=
  match a.get? "w" with
  | none => some none
  | some n => (D.get? n).map fun d => some d.toDense

/-- the dense side of a `deg` line -/
def dDegOpC (D : DenseWorldC) (a : Args) : DenseWorldC × String :=
  dWithMapC D a fun d =>
    match a.nat? "ord" with
    | none => (D, "bad-op:ord")
    | some ord =>
      match degWeightsC D a with
      | none => (D, "bad-op:no-such-map")
      | some wd =>
        match dDegradeC d ord (a.getD "red" "mean") wd with
        | .ok r => (D.bind (a.getD "r" "tmp") r, "ok")
        | .error e => (D, errLine e)

theorem relC_deg {w : World} {D : DenseWorldC} (h : RelC w D) (hw : w.Good) (a : Args) :
    RelC (opDeg w a).1 (dDegOpC D a).1 ∧ (opDeg w a).2 = (dDegOpC D a).2 := by
  rw [ApiDenseMulti.opDeg_eq]
  unfold dDegOpC degWeightsC
  refine relC_withMap h fun m d hget hd hc => ?_
  have hmok := hw.get hget
  cases hord : a.nat? "ord" with
  | none => exact ⟨h, rfl⟩
  | some ord =>
    simp only []
    cases a.get? "w" with
    | none =>
      simp only []
      have hr := degrade_corrC hc hmok.2.1 (red := a.getD "red" "mean") (w := none) (wd := none)
        trivial (fun _ hx => nomatch hx) ord
      revert hr
      cases apiDegrade m ord (a.getD "red" "mean") none <;>
        cases dDegradeC d ord (a.getD "red" "mean") none <;> intro hr
      · cases hr; exact ⟨h, rfl⟩
      · exact hr.elim
      · exact hr.elim
      · exact ⟨h.bind _ hr, rfl⟩
    | some n =>
      simp only []
      have hm := relC_get h n
      revert hm
      cases hgw : w.get? n <;> cases hdn : D.get? n <;> intro hm
      · exact ⟨h, rfl⟩
      · exact hm.elim
      · exact hm.elim
      · rename_i wm dw
        have hwok := hw.get hgw
        simp only [Option.map_some]
        have hr := degrade_corrC hc hmok.2.1 (red := a.getD "red" "mean") (w := some wm)
          (wd := some dw.toDense) hm.corr (fun x hx => by cases hx; exact ⟨hwok.1, hwok.2.1⟩) ord
        revert hr
        cases apiDegrade m ord (a.getD "red" "mean") (some wm) <;>
          cases dDegradeC d ord (a.getD "red" "mean") (some dw.toDense) <;> intro hr
        · cases hr; exact ⟨h, rfl⟩
        · exact hr.elim
        · exact hr.elim
        · exact ⟨h.bind _ hr, rfl⟩

/-! ### the interpreter of all five families -/

/-- **the coverage-aware dense interpreter of all the families**: one parsed line on a
    coverage-aware dense world — the scalar, bit and multi-map / resolution families here, the
    plain and boolean lines by `ApiDenseCov.dstepArgsC` -/
def dstepArgsAll (D : DenseWorldC) (op : String) (a : Args) : DenseWorldC × String :=
  match op with
  | "valid" => dValidOpC D a
  | "nvalid" => dNvalidC D a
  | "covmap" => dCovmapC D a
  | "sop" => dSopOpC D a
  | "mask" => dMaskOpC D a
  | "astype" => dAstypeOpC D a
  | "bits" => dBitsOpC D a
  | "chk" => dChkOpC D a
  | "mop" => dMopC D a
  | "upg" => dUpgOpC D a
  | "deg" => dDegOpC D a
  | "fracdet" => dFracdetOpC D a
  | _ => dstepArgsC D op a

/-- a parsed line the interpreter answers: a plain line (`cfg`, `upd`, `updr`, `set`, `get`,
    `vals`), a line of the boolean family (`bop`, `inv`, `pack`, `covmask`, `copy`), of the scalar
    family (`sop`, `mask`, `astype`, `copy`, `valid`, `covmap`, `nvalid` — not with `path=str`,
    whose answer on a bit-packed map depends on the state of the `n_valid` cache), of the bit
    family (`bits`, `chk`), of the multi-map / resolution family (`mop`, `upg`, `deg`, `fracdet`) -/
def opOkAll (op : String) (a : Args) : Bool :=
  plainOp op || ApiDenseCov.famOp op || ApiDenseScalar.famArgs op a || ApiDenseBits.famOp op ||
    ApiDenseMulti.famOp op

/-- on a plain line the interpreter is `ApiDenseCov.dstepArgsC` -/
theorem dstepArgsAll_plain {op : String} (hp : plainOp op = true) (D : DenseWorldC) (a : Args) :
    dstepArgsAll D op a = dstepArgsC D op a := by
  rcases plainOp_cases hp with rfl | rfl | rfl | rfl | rfl | rfl <;> rfl

/-- … and on a line of the boolean family -/
theorem dstepArgsAll_bool {op : String} (hp : ApiDenseCov.famOp op = true) (D : DenseWorldC)
    (a : Args) : dstepArgsAll D op a = dstepArgsC D op a := by
  rcases ApiDenseCov.famOp_cases hp with rfl | rfl | rfl | rfl | rfl <;> rfl

/-- **one parsed line of any of the five families**: the protocol and the coverage-aware dense
    interpreter stay in agreement and give the same answer (sparse world: `Good2`) -/
theorem rel_stepArgsAll {w : World} {D : DenseWorldC} (h : RelC w D) (hw : w.Good2) {op : String}
    (a : Args) (hp : opOkAll op a = true) :
    RelC (stepArgs w op a).1 (dstepArgsAll D op a).1 ∧
      (stepArgs w op a).2 = (dstepArgsAll D op a).2 := by
  unfold opOkAll at hp
  simp only [Bool.or_eq_true] at hp
  rcases hp with (((hp | hp) | hp) | hp) | hp
  · rw [dstepArgsAll_plain hp]
    exact rel_stepArgsC h hw.1 a (Or.inl hp)
  · rw [dstepArgsAll_bool hp]
    exact rel_stepArgsC h hw.1 a (Or.inr hp)
  · unfold ApiDenseScalar.famArgs at hp
    rw [Bool.and_eq_true] at hp
    obtain ⟨hf, hnv⟩ := hp
    rcases ApiDenseScalar.famOp_cases hf with rfl | rfl | rfl | rfl | rfl | rfl | rfl
    · exact relC_copy h a
    · exact relC_valid h hw.1 a
    · refine relC_nvalid h hw a ?_
      intro hs
      rw [hs] at hnv
      exact absurd hnv (by decide)
    · exact relC_covmap h hw.1 a
    · exact relC_sop h a
    · exact relC_mask h hw.1 a
    · exact relC_astype h hw.1 a
  · rcases ApiDenseBits.famOp_cases hp with rfl | rfl
    · exact relC_bits h a
    · exact relC_chk h a
  · unfold ApiDenseMulti.famOp at hp
    simp only [Bool.or_eq_true, beq_iff_eq] at hp
    rcases hp with ((rfl | rfl) | rfl) | rfl
    · exact relC_mop h hw.1 a
    · exact relC_upg h a
    · exact relC_deg h hw.1 a
    · exact relC_fracdet h hw.1 a

/-! ### raw lines and histories -/

/-- **the lines the interpreter answers**: the empty line and every line whose operation is of
    one of the five families (`opOkAll`) -/
def lineOkAll (line : String) : Bool :=
  match lineToks line with
  | [] => true
  | op :: rest => opOkAll op (parseArgs rest)

/-- they are exactly the lines of the earlier campaigns taken together -/
theorem lineOkAll_eq (line : String) :
    lineOkAll line =
      (ApiDenseCov.lineOk line || ApiDenseBits.lineOk line || ApiDenseMulti.lineOk line) := by
  unfold lineOkAll ApiDenseCov.lineOk ApiDenseBits.lineOk ApiDenseMulti.lineOk
    ApiDenseScalar.lineOk plainLine ApiDenseCov.famLine ApiDenseBits.famLine ApiDenseScalar.famLine
  cases lineToks line with
  | nil => rfl
  | cons op rest =>
    simp only []
    unfold opOkAll
    generalize plainOp op = b1
    generalize ApiDenseCov.famOp op = b2
    generalize ApiDenseScalar.famArgs op (parseArgs rest) = b3
    generalize ApiDenseBits.famOp op = b4
    generalize ApiDenseMulti.famOp op = b5
    cases b1 <;> cases b2 <;> cases b3 <;> cases b4 <;> cases b5 <;> rfl

/-- the interpreter on a raw line -/
def dstepAll (D : DenseWorldC) (line : String) : DenseWorldC × String :=
  match lineToks line with
  | [] => (D, "bad-op:empty")
  | op :: rest => dstepArgsAll D op (parseArgs rest)

/-- … and on a history, from the empty dense world -/
def drunAll (lines : List String) : DenseWorldC := lines.foldl (fun D l => (dstepAll D l).1) []

theorem opOkAll_not_packed {op : String} {a : Args} (h : opOkAll op a = true) :
    op.startsWith "p." = false := by
  unfold opOkAll at h
  simp only [Bool.or_eq_true] at h
  rcases h with (((h | h) | h) | h) | h
  · exact plainOp_not_packed h
  · exact ApiDenseCov.famOp_not_packed h
  · unfold ApiDenseScalar.famArgs at h
    rw [Bool.and_eq_true] at h
    exact ApiDenseScalar.famOp_not_packed h.1
  · exact ApiDenseBits.famOp_not_packed h
  · exact ApiDenseMulti.famOp_not_packed h

/-- **one raw line**: from related worlds (the sparse one satisfying the reachable invariant
    `Good2`), a line of any of the five families leads to related worlds and is answered alike -/
theorem rel_stepAll {w : World} {D : DenseWorldC} (hR : RelC w D) (hw : w.Good2) {line : String}
    (hp : lineOkAll line = true) :
    RelC (step w line).1 (dstepAll D line).1 ∧ (step w line).2 = (dstepAll D line).2 := by
  have hstep : step w line = match lineToks line with
      | [] => (w, "bad-op:empty")
      | op :: rest =>
        if op.startsWith "p." then
          let (pw, o) := stepPacked w.packed op (parseArgs rest)
          ({ w with packed := pw }, o)
        else stepArgs w op (parseArgs rest) := rfl
  rw [hstep]
  unfold dstepAll
  unfold lineOkAll at hp
  cases ht : lineToks line with
  | nil => exact ⟨hR, rfl⟩
  | cons op rest =>
    rw [ht] at hp
    simp only [opOkAll_not_packed hp, Bool.false_eq_true, if_false]
    exact rel_stepArgsAll hR hw _ hp

/-- related worlds, the sparse one satisfying the reachable invariant: the relation one line of
    the five families preserves -/
structure RelA (w : World) (D : DenseWorldC) : Prop where
  rel : RelC w D
  good : w.Good2

theorem relA_empty : RelA {} [] := ⟨relC_empty, World.good_empty, World.cachePool_empty⟩

/-- **one raw line, bundled**: `RelA` is preserved and the line is answered alike -/
theorem relA_step {w : World} {D : DenseWorldC} (h : RelA w D) {line : String}
    (hp : lineOkAll line = true) :
    RelA (step w line).1 (dstepAll D line).1 ∧ (step w line).2 = (dstepAll D line).2 :=
  ⟨⟨(rel_stepAll h.rel h.good hp).1, Good2.step h.good line⟩, (rel_stepAll h.rel h.good hp).2⟩

theorem rel_foldlAll (lines : List String) (w : World) (D : DenseWorldC) (h : RelA w D)
    (hp : ∀ l ∈ lines, lineOkAll l = true) :
    RelA (lines.foldl (fun w l => (step w l).1) w) (lines.foldl (fun D l => (dstepAll D l).1) D) := by
  induction lines generalizing w D with
  | nil => exact h
  | cons l ls ih =>
    exact ih _ _ (relA_step h (hp l List.mem_cons_self)).1 fun l' h' => hp l' (List.mem_cons_of_mem _ h')

/-- **histories**: the world a history of lines of the five families reaches agrees with the
    coverage-aware dense world the interpreter reaches — unconditionally -/
theorem rel_runLinesAll (lines : List String) (hp : ∀ l ∈ lines, lineOkAll l = true) :
    RelC (runLines lines) (drunAll lines) :=
  (rel_foldlAll lines _ _ relA_empty hp).rel

/-- the answers of the interpreter along a history -/
def danswersAll (lines : List String) : List String :=
  (lines.foldl (fun (Do : DenseWorldC × List String) l =>
    ((dstepAll Do.1 l).1, Do.2 ++ [(dstepAll Do.1 l).2])) ([], [])).2

theorem answers_foldlAll (lines : List String) (w : World) (D : DenseWorldC) (acc : List String)
    (h : RelA w D) (hp : ∀ l ∈ lines, lineOkAll l = true) :
    (lines.foldl (fun (wo : World × List String) l => ((step wo.1 l).1, wo.2 ++ [(step wo.1 l).2]))
      (w, acc)).2 =
    (lines.foldl (fun (Do : DenseWorldC × List String) l =>
      ((dstepAll Do.1 l).1, Do.2 ++ [(dstepAll Do.1 l).2])) (D, acc)).2 := by
  induction lines generalizing w D acc with
  | nil => rfl
  | cons l ls ih =>
    obtain ⟨h', ha⟩ := relA_step h (hp l List.mem_cons_self)
    simp only [List.foldl_cons]
    rw [ha]
    exact ih _ _ _ h' fun l' hl' => hp l' (List.mem_cons_of_mem _ hl')

/-- **the list of all answers** of a history of lines of the five families is the list of answers
    of the coverage-aware dense interpreter -/
theorem answers_eq_danswersAll (lines : List String) (hp : ∀ l ∈ lines, lineOkAll l = true) :
    answers lines = danswersAll lines :=
  answers_foldlAll lines _ _ _ relA_empty hp

/-! ### forgetting the masks: the value part is the interpreter of the earlier campaigns

On the plain, scalar and bit lines the VALUE part of `dstepArgsAll` is `ApiDenseBits.dstepArgsB`
(= `ApiDenseScalar.dstepArgsS` = `ApiDense.dstepArgs` on their lines), on `upg` / `fracdet` it is
`ApiDenseMulti.dstepArgsM`: forgetting the masks commutes with these lines and the answers are
the same.  (No such statement for the boolean family, `mop` and `deg`: their answers are not
functions of the value-only dense world — `C11.exNoCov`, `C06.cexA` … `cexD`.) -/

section forget

/-- a line that binds the result of a lifted computation under one of two names -/
theorem toDense_bind2 (D : DenseWorldC) (cov : Nat → Bool) (r : Except Err DenseMap) (c : Bool)
    (n1 n2 : String) :
    (match withCov cov r with
      | .ok d' => if c then (D.bind n1 d', "ok") else (D.bind n2 d', "ok")
      | .error e => (D, errLine e)).1.toDense =
    (match r with
      | .ok d' => if c then (D.toDense.bind n1 d', "ok") else (D.toDense.bind n2 d', "ok")
      | .error e => (D.toDense, errLine e)).1 ∧
    (match withCov cov r with
      | .ok d' => if c then (D.bind n1 d', "ok") else (D.bind n2 d', "ok")
      | .error e => (D, errLine e)).2 =
    (match r with
      | .ok d' => if c then (D.toDense.bind n1 d', "ok") else (D.toDense.bind n2 d', "ok")
      | .error e => (D.toDense, errLine e)).2 := by
  cases r with
  | error e => exact ⟨rfl, rfl⟩
  | ok d' =>
    cases c
    · exact ⟨toDense_bind _ _ _, rfl⟩
    · exact ⟨toDense_bind _ _ _, rfl⟩

/-- … under one name -/
theorem toDense_bind1 (D : DenseWorldC) (cov : Nat → Bool) (r : Except Err DenseMap) (n : String) :
    (match withCov cov r with
      | .ok d' => (D.bind n d', "ok")
      | .error e => (D, errLine e)).1.toDense =
    (match r with
      | .ok d' => (D.toDense.bind n d', "ok")
      | .error e => (D.toDense, errLine e)).1 ∧
    (match withCov cov r with
      | .ok d' => (D.bind n d', "ok")
      | .error e => (D, errLine e)).2 =
    (match r with
      | .ok d' => (D.toDense.bind n d', "ok")
      | .error e => (D.toDense, errLine e)).2 := by
  cases r with
  | error e => exact ⟨rfl, rfl⟩
  | ok d' => exact ⟨toDense_bind _ _ _, rfl⟩

/-- **forgetting the masks, a plain, scalar or bit line is the line of `ApiDenseBits.dstepArgsB`** -/
theorem toDense_stepArgsAll (D : DenseWorldC) {op : String} (a : Args)
    (hp : plainOp op = true ∨ ApiDenseScalar.famOp op = true ∨ ApiDenseBits.famOp op = true) :
    (dstepArgsAll D op a).1.toDense = (ApiDenseBits.dstepArgsB D.toDense op a).1 ∧
      (dstepArgsAll D op a).2 = (ApiDenseBits.dstepArgsB D.toDense op a).2 := by
  rcases hp with hp | hp | hp
  · rw [dstepArgsAll_plain hp, ApiDenseBits.dstepArgsB_plain hp, ApiDenseScalar.dstepArgsS_plain hp]
    exact toDense_stepArgsC D hp a
  · rcases ApiDenseScalar.famOp_cases hp with rfl | rfl | rfl | rfl | rfl | rfl | rfl
    · exact toDense_withMap (k' := fun d => (D.toDense.bind (a.getD "r" "tmp") d, "ok"))
        fun d _ => ⟨toDense_bind _ _ _, rfl⟩
    · exact toDense_withMap (k' := fun d => (D.toDense,
        showList toString ((ApiDenseScalar.dValidSet d).map fun p => ((p : Nat) : Int))))
        fun d _ => ⟨rfl, rfl⟩
    · exact toDense_withMap (k' := fun d => (D.toDense, toString (ApiDenseScalar.dValidSet d).length))
        fun d _ => ⟨rfl, rfl⟩
    · exact toDense_withMap (k' := fun d =>
        (D.toDense, showNats ((List.range d.hdr.c.ncov).map fun k =>
          ((ApiDenseScalar.dValidSet d).filter fun p => p >>> d.hdr.c.shift == k).length)))
        fun d _ => ⟨rfl, rfl⟩
    · show (dSopOpC D a).1.toDense = (ApiDenseScalar.dSopOp D.toDense a).1 ∧
        (dSopOpC D a).2 = (ApiDenseScalar.dSopOp D.toDense a).2
      unfold dSopOpC ApiDenseScalar.dSopOp
      refine toDense_withMap fun d _ => ?_
      cases ApiScalar.sopArg a with
      | none => exact ⟨rfl, rfl⟩
      | some k => exact toDense_bind2 D d.cov _ _ _ _
    · show (dMaskOpC D a).1.toDense = (ApiDenseScalar.dMaskOp D.toDense a).1 ∧
        (dMaskOpC D a).2 = (ApiDenseScalar.dMaskOp D.toDense a).2
      unfold dMaskOpC ApiDenseScalar.dMaskOp
      refine toDense_withMap fun d _ => ?_
      rw [toDense_get?]
      cases D.get? (a.getD "by" "") with
      | none => exact ⟨rfl, rfl⟩
      | some dk => exact toDense_bind2 D d.cov _ _ _ _
    · show (dAstypeOpC D a).1.toDense = (ApiDenseScalar.dAstypeOp D.toDense a).1 ∧
        (dAstypeOpC D a).2 = (ApiDenseScalar.dAstypeOp D.toDense a).2
      unfold dAstypeOpC ApiDenseScalar.dAstypeOp
      refine toDense_withMap fun d _ => ?_
      cases (a.get? "dtype").bind parseDT <;> cases optVal a "sentinel"
      · exact ⟨rfl, rfl⟩
      · exact ⟨rfl, rfl⟩
      · exact ⟨rfl, rfl⟩
      · exact toDense_bind1 D d.cov _ _
  · rcases ApiDenseBits.famOp_cases hp with rfl | rfl
    · show (dBitsOpC D a).1.toDense = (ApiDenseBits.dBitsOp D.toDense a).1 ∧
        (dBitsOpC D a).2 = (ApiDenseBits.dBitsOp D.toDense a).2
      unfold dBitsOpC ApiDenseBits.dBitsOp
      refine toDense_withMap fun d _ => ?_
      cases parseNats (a.getD "pix" "_") <;> cases parseNats (a.getD "bits" "_")
      · exact ⟨rfl, rfl⟩
      · exact ⟨rfl, rfl⟩
      · exact ⟨rfl, rfl⟩
      · exact toDense_bind1 D (bitsCov d _) _ _
    · show (dChkOpC D a).1.toDense = (ApiDenseBits.dChkOp D.toDense a).1 ∧
        (dChkOpC D a).2 = (ApiDenseBits.dChkOp D.toDense a).2
      unfold dChkOpC ApiDenseBits.dChkOp
      refine toDense_withMap fun d _ => ?_
      cases parseNats (a.getD "pix" "_") <;> cases parseNats (a.getD "bits" "_")
      · exact ⟨rfl, rfl⟩
      · exact ⟨rfl, rfl⟩
      · exact ⟨rfl, rfl⟩
      · rename_i pix bits
        simp only []
        cases ApiDenseBits.dCheckBits d.toDense pix bits <;> exact ⟨rfl, rfl⟩

/-- **forgetting the masks, `upg` and `fracdet` are the lines of `ApiDenseMulti.dstepArgsM`** -/
theorem toDense_stepArgsAll_res (D : DenseWorldC) {op : String} (a : Args)
    (hp : op = "upg" ∨ op = "fracdet") :
    (dstepArgsAll D op a).1.toDense = (ApiDenseMulti.dstepArgsM D.toDense op a).1 ∧
      (dstepArgsAll D op a).2 = (ApiDenseMulti.dstepArgsM D.toDense op a).2 := by
  rcases hp with rfl | rfl
  · show (dUpgOpC D a).1.toDense = (ApiDenseMulti.dUpg D.toDense a).1 ∧
      (dUpgOpC D a).2 = (ApiDenseMulti.dUpg D.toDense a).2
    unfold dUpgOpC ApiDenseMulti.dUpg
    refine toDense_withMap fun d _ => ?_
    cases a.nat? "ord" with
    | none => exact ⟨rfl, rfl⟩
    | some ord => exact toDense_bind1 D d.cov _ _
  · show (dFracdetOpC D a).1.toDense = (ApiDenseMulti.dFracdet D.toDense a).1 ∧
      (dFracdetOpC D a).2 = (ApiDenseMulti.dFracdet D.toDense a).2
    unfold dFracdetOpC ApiDenseMulti.dFracdet
    refine toDense_withMap fun d _ => ?_
    cases a.get? "r" <;> cases a.nat? "ord"
    · exact ⟨rfl, rfl⟩
    · exact ⟨rfl, rfl⟩
    · exact ⟨rfl, rfl⟩
    · rename_i r ord
      simp only []
      split
      · exact ⟨rfl, rfl⟩
      · exact ⟨toDense_bind _ _ _, rfl⟩

end forget

end ApiDenseAll
end HS
