/-
  The typing a FITS file can express (`MapObj.FileTyped`, Lemmas/ApiRoundTrip.lean) as a GLOBAL
  inductive invariant of the protocol driver, so that the API-level file round trip of
  Props/C03.lean holds unconditionally for every reachable map.

  `MapObj.FileTyped` alone is not inductive: `get_single` turns a record FIELD into a plain map,
  `degrade` / degrade-on-read map field dtypes through `auxDT`, the readers rebuild kinds from
  files.  `Kind.typed k s` therefore also constrains record maps:
    plain bool        : boolean sentinel
    plain numeric dt  : `dt.real` and a non-boolean sentinel
    wide mask         : non-boolean scalar sentinel
    bit-packed        : boolean sentinel
    record fs pr      : every field dtype is real; the sentinel is boolean iff the primary is
  `World.Typed`: every OWNING pool entry is typed, the kind recovered from every stored file is
  typed with the file's sentinel, every HEALPix-format file has a real dtype.  (A view descriptor
  is not constrained: `World.get?` re-derives kind and dtype from the parent and checks the
  descriptor's sentinel against the parent's blank field, which is a number.)

  `Typed.opXxx` for every operation of Model/Dispatch.lean (given `World.Good`, Lemmas/WFWorld.lean,
  for the resolution of views), `Typed.step`, `Typed.runLines`.
-/
import HealSparse.Lemmas.WFWorld
import HealSparse.Lemmas.ApiRoundTrip
namespace HS

open WFApi WFRes WFFiles

/-! ### the predicates -/

/-- kind and scalar sentinel are typed the way numpy / the FITS header can express -/
def Kind.typed (k : Kind) (s : Val) : Prop :=
  match k with
  | .plain .bool => s.isBoolV = true
  | .plain dt => dt.real = true ∧ s.isBoolV = false
  | .wide _ => s.isBoolV = false
  | .packed => s.isBoolV = true
  | .recd fs pr => (∀ dt ∈ fs, dt.real = true) ∧
      ∀ dt, fs[pr]? = some dt → (s.isBoolV = true ↔ dt = .bool)

def MapObj.Typed (m : MapObj) : Prop := m.kind.typed m.sent

/-- the kind the reader recovers from the file is typed with the file's sentinel -/
def FileObj.Typed (f : FileObj) : Prop := ∀ k, fileKind f = some k → k.typed f.sentinel

def HpFile.dt : HpFile → DT
  | .explicit _ dt _ _ _ => dt
  | .implicit _ dt _ _ => dt

/-- every owning pool entry, every file and every HEALPix-format file is typed -/
def World.Typed (w : World) : Prop :=
  (∀ e ∈ w.pool, e.2.view = none → e.2.Typed) ∧ (∀ e ∈ w.files, e.2.Typed) ∧
  (∀ e ∈ w.hpfiles, e.2.dt.real = true)

theorem World.typed_empty : ({} : World).Typed := by
  refine ⟨?_, ?_, ?_⟩ <;> intro e he <;> cases he

theorem MapObj.Typed_congr {m m' : MapObj} (h3 : m'.kind = m.kind) (h4 : m'.sent = m.sent) :
    m'.Typed ↔ m.Typed := by
  unfold MapObj.Typed; rw [h3, h4]

@[simp] theorem MapObj.Typed_cache (m : MapObj) (x : Option Nat) :
    ({ m with cache := x } : MapObj).Typed ↔ m.Typed := Iff.rfl

theorem MapObj.Typed.of_same {m m' : MapObj} (h : m.Typed) (hs : m'.Same m) : m'.Typed :=
  (MapObj.Typed_congr hs.2.2.1 hs.2.2.2.1).2 h

/-- **typed maps are `FileTyped`** -/
theorem MapObj.Typed.fileTyped {m : MapObj} (h : m.Typed) : m.FileTyped := by
  unfold MapObj.Typed Kind.typed at h
  unfold MapObj.FileTyped
  cases hk : m.kind with
  | packed => trivial
  | recd fs pr => trivial
  | wide n => rw [hk] at h; exact h
  | plain dt => rw [hk] at h; cases dt <;> exact h

/-- the plain dtype / the record field dtypes of a kind are real -/
def Kind.realK : Kind → Prop
  | .plain dt => dt.real = true
  | .recd fs _ => ∀ dt ∈ fs, dt.real = true
  | _ => True

theorem Kind.typed.realK {k : Kind} {s : Val} (h : k.typed s) : k.realK := by
  cases k with
  | packed => trivial
  | wide n => trivial
  | recd fs pr => exact h.1
  | plain dt =>
    cases dt with
    | bool => rfl
    | int b sg => exact h.1
    | flt b => exact h.1

theorem Kind.typed_plain {dt : DT} {s : Val} (hr : dt.real = true)
    (hs : s.isBoolV = true ↔ dt = .bool) : (Kind.plain dt).typed s := by
  cases dt with
  | bool => exact hs.2 rfl
  | int b sg =>
    refine ⟨hr, ?_⟩
    cases hb : s.isBoolV with
    | false => rfl
    | true => exact absurd (hs.1 hb) (by simp)
  | flt b =>
    refine ⟨hr, ?_⟩
    cases hb : s.isBoolV with
    | false => rfl
    | true => exact absurd (hs.1 hb) (by simp)

theorem Kind.typed_plain_iff {dt : DT} {s : Val} (h : (Kind.plain dt).typed s) :
    dt.real = true ∧ (s.isBoolV = true ↔ dt = .bool) := by
  cases dt with
  | bool => exact ⟨rfl, ⟨fun _ => rfl, fun _ => h⟩⟩
  | int b sg => exact ⟨h.1, ⟨fun hb => (by rw [h.2] at hb; cases hb), fun hd => (by cases hd)⟩⟩
  | flt b => exact ⟨h.1, ⟨fun hb => (by rw [h.2] at hb; cases hb), fun hd => (by cases hd)⟩⟩

/-- `check_sentinel` returns a sentinel of the type of the cell -/
theorem checkSentinel_typed {dt : DT} {s : Option Val} {v : Val} (h : checkSentinel dt s = .ok v) :
    v.isBoolV = true ↔ dt = .bool := by
  by_cases hd : dt = .bool
  · exact ⟨fun _ => hd, fun _ => WFApi.checkSentinel_isBoolV h hd⟩
  · have := WFApi.checkSentinel_notBool h hd
    exact ⟨fun hb => (by rw [this] at hb; cases hb), fun h' => absurd h' hd⟩

theorem defaultSentinel_typed (dt : DT) : dt.defaultSentinel.isBoolV = true ↔ dt = .bool :=
  checkSentinel_typed (s := none) rfl

theorem auxDT_real {dt : DT} (h : dt.real = true) : (auxDT dt).real = true := by
  cases dt with
  | bool => rfl
  | int b sg => rfl
  | flt b => exact h

theorem auxDT_ne_bool (dt : DT) : auxDT dt ≠ .bool := by
  cases dt <;> simp [auxDT]

/-! ### map-level: `Typed` through the API -/

theorem Typed.apiMakeEmpty {covord spord : Nat} {kind : Kind} {sentinel : Option Val}
    {covPix : List Nat} {m : MapObj} (hreal : kind.realK)
    (h : HS.apiMakeEmpty covord spord kind sentinel covPix = .ok m) : m.Typed := by
  unfold HS.apiMakeEmpty at h
  simp only [bind, Except.bind, pure, Except.pure, throw, throwThe, MonadExceptOf.throw] at h
  repeat' xpeel h
  all_goals cases h
  · rfl
  · rfl
  · -- packed
    rename_i v hv _ hne
    exact WFApi.checkSentinel_isBoolV hv rfl
  · -- plain
    rename_i dt _ v hv
    exact Kind.typed_plain hreal (checkSentinel_typed hv)
  · -- record
    rename_i fs pr _ dt hget _ v hv
    refine ⟨hreal, fun dt' hget' => ?_⟩
    rw [hget] at hget'
    cases hget'
    exact checkSentinel_typed hv

theorem Typed.apiUpdate {m m' : MapObj} {op : String} {pix : List Nat} {vals : Option (List Val)}
    {single : Bool} {ru : Option Bool} (h : m.Typed)
    (hr : HS.apiUpdate m op pix vals single ru = .ok m') : m'.Typed := by
  obtain ⟨_, _, h3, h4, _⟩ := WFApi.apiUpdate_ok hr
  exact (MapObj.Typed_congr h3 h4).2 h

theorem Typed.apiUpdateRanges {m m' : MapObj} {op : String} {R : List (Nat × Nat)} {val : Option Val}
    {sl : Bool} (h : m.Typed) (hr : HS.apiUpdateRanges m op R val sl = .ok m') : m'.Typed := by
  obtain ⟨_, _, h3, h4, _⟩ := WFApi.apiUpdateRanges_ok hr
  exact (MapObj.Typed_congr h3 h4).2 h

theorem Typed.apiSetBits {m m' : MapObj} {pix bits : List Nat} {clear : Bool} (h : m.Typed)
    (hr : HS.apiSetBits m pix bits clear = .ok m') : m'.Typed := by
  obtain ⟨op, vals, hu⟩ := WFApi.apiSetBits_ok hr
  exact Typed.apiUpdate h hu

theorem Typed.apiAstype {m m' : MapObj} {dst : DT} {sentinel : Option Val} (hd : dst.real = true)
    (hr : HS.apiAstype m dst sentinel = .ok m') : m'.Typed := by
  obtain ⟨_, _, _, h3, h4, _⟩ := WFApi.apiAstype_ok hr
  unfold MapObj.Typed
  rw [h3]
  exact Kind.typed_plain hd (checkSentinel_typed h4)

theorem Typed.apiAsBitPacked {m m' : MapObj} (h : m.Typed) (hr : HS.apiAsBitPacked m = .ok m') :
    m'.Typed := by
  obtain ⟨_, _, _, _, h3⟩ := WFApi.apiAsBitPacked_ok hr
  rcases h3 with ⟨_, h3, h4, _⟩ | ⟨h3, h4, _⟩
  · exact (MapObj.Typed_congr h3 h4).2 h
  · unfold MapObj.Typed; rw [h3, h4]; rfl

theorem typed_field {m : MapObj} {fs : List DT} {pr i : Nat} {dt : DT} (h : m.Typed)
    (hk : m.kind = .recd fs pr) (hi : fs[i]? = some dt) :
    dt.real = true ∧ (i = pr → (m.sent.isBoolV = true ↔ dt = .bool)) := by
  unfold MapObj.Typed at h
  rw [hk] at h
  refine ⟨h.1 dt (List.mem_of_getElem? hi), fun e => ?_⟩
  subst e
  exact h.2 dt hi

theorem Typed.singleSentinel {m : MapObj} {i : Nat} {sentinel : Option Val} {dt : DT} {s : Val}
    (h : m.Typed) (hs : HS.singleSentinel m i sentinel = .ok (dt, s)) : (Kind.plain dt).typed s := by
  obtain ⟨fs, pr, hk, hi, hc⟩ := WFApi.singleSentinel_ok hs
  obtain ⟨hr, hp⟩ := typed_field h hk hi
  rcases hc with ⟨e, rfl⟩ | ⟨_, hc⟩
  · exact Kind.typed_plain hr (hp e)
  · exact Kind.typed_plain hr (checkSentinel_typed hc)

theorem Typed.apiGetSingleCopy {m m' : MapObj} {i : Nat} {sentinel : Option Val} (h : m.Typed)
    (hr : HS.apiGetSingleCopy m i sentinel = .ok m') : m'.Typed := by
  obtain ⟨dt, hs, _, _, h3, _⟩ := WFApi.apiGetSingleCopy_ok hr
  unfold MapObj.Typed
  rw [h3]
  exact Typed.singleSentinel h hs

/-- a materialised view whose sentinel is the parent's blank field (what `World.get?` checks) and
    whose field is not boolean -/
theorem Typed.materializeView {p : MapObj} {pn : String} {i : Nat} {sent : Val}
    {cache : Option Nat} {v : MapObj} (hp : p.Typed)
    (hm : HS.materializeView p pn i sent cache = .ok v) (hs : sent = viewBlank p i)
    (hnb : v.kind ≠ .plain .bool) : v.Typed := by
  obtain ⟨dt, s, hss, _, _, h3, h4, _⟩ := WFApi.materializeView_ok hm
  obtain ⟨fs, pr, hk, hi, _⟩ := WFApi.singleSentinel_ok hss
  obtain ⟨hr, _⟩ := typed_field hp hk hi
  unfold MapObj.Typed
  rw [h3, h4, hs]
  have hnum : (viewBlank p i).isBoolV = false := by
    unfold viewBlank MapObj.vc
    rw [hk]
    rfl
  have hdt : dt ≠ .bool := fun e => hnb (by rw [h3, e])
  exact Kind.typed_plain hr ⟨fun hb => (by rw [hnum] at hb; cases hb), fun e => absurd e hdt⟩

theorem Typed.apiUpgrade {m m' : MapObj} {ordOut : Nat} (h : m.Typed)
    (hr : HS.apiUpgrade m ordOut = .ok m') : m'.Typed := by
  revert m'
  show OkP MapObj.Typed (HS.apiUpgrade m ordOut)
  unfold HS.apiUpgrade
  okp
  exact h

/-! #### degrade -/

theorem typed_recd_aux {fs : List DT} {pr : Nat} {s : Val} (h : (Kind.recd fs pr).typed s) :
    (Kind.recd (fs.map auxDT) pr).typed (auxDT (fs.getD pr (.flt 64))).defaultSentinel := by
  refine ⟨?_, ?_⟩
  · intro dt hdt
    obtain ⟨d, hd, rfl⟩ := List.mem_map.1 hdt
    exact auxDT_real (h.1 d hd)
  · intro dt hget
    rw [List.getElem?_map] at hget
    cases hg : fs[pr]? with
    | none => rw [hg] at hget; cases hget
    | some d =>
      rw [hg] at hget
      cases hget
      constructor
      · intro hb
        have := (defaultSentinel_typed (auxDT (fs.getD pr (.flt 64)))).1 hb
        exact absurd this (auxDT_ne_bool _)
      · intro e; exact absurd e (auxDT_ne_bool _)

theorem typed_plain_flt {dt : DT} (hr : dt.real = true) (_hne : dt ≠ .bool) :
    (Kind.plain dt).typed dt.defaultSentinel :=
  Kind.typed_plain hr (defaultSentinel_typed dt)

theorem typed_plain_dtOut (c : Prop) [Decidable c] {dt : DT} (hr : dt.real = true) :
    (Kind.plain (if c then DT.flt 64 else auxDT dt)).typed
      (if c then DT.flt 64 else auxDT dt).defaultSentinel := by
  split
  · exact typed_plain_flt rfl (by simp)
  · exact typed_plain_flt (auxDT_real hr) (auxDT_ne_bool _)

theorem typed_recd_leaf {m : MapObj} {fs : List DT} {pr : Nat} (h : m.Typed)
    (hk : m.kind = .recd fs pr) :
    (Kind.recd (fs.map auxDT) pr).typed (auxDT (fs.getD pr (.flt 64))).defaultSentinel := by
  unfold MapObj.Typed at h; rw [hk] at h
  exact typed_recd_aux h

theorem typed_plain_leaf (c : Prop) [Decidable c] {m : MapObj} {dt : DT} (h : m.Typed)
    (hk : m.kind = .plain dt) :
    (Kind.plain (if c then DT.flt 64 else auxDT dt)).typed
      (if c then DT.flt 64 else auxDT dt).defaultSentinel := by
  unfold MapObj.Typed at h; rw [hk] at h
  exact typed_plain_dtOut c (Kind.typed_plain_iff h).1

theorem Typed.apiDegradeCore {m : MapObj} (h : m.Typed) (ordOut : Nat) (red : String)
    (w : Option MapObj) : OkP MapObj.Typed (HS.apiDegradeCore m ordOut red w) := by
  unfold HS.apiDegradeCore
  okp
  all_goals first
    | exact h
    | exact typed_recd_leaf h ‹_›
    | exact typed_plain_leaf _ h ‹_›

theorem Typed.rehouse {m m' : MapObj} {co : Nat} (h : m.Typed) (hr : HS.rehouse m co = .ok m') :
    m'.Typed := by
  revert m'
  show OkP MapObj.Typed (HS.rehouse m co)
  unfold HS.rehouse
  refine OkP.bind (Q := MapObj.Typed) (fun e he => Typed.apiMakeEmpty (Kind.typed.realK h) he) ?_
  intro e he
  split
  · exact OkP.of_throw _
  · exact fun m' hm' => Typed.apiUpdate he hm'

theorem Typed.apiDegrade {m m' : MapObj} {ordOut : Nat} {red : String} {w : Option MapObj}
    (h : m.Typed) (hr : HS.apiDegrade m ordOut red w = .ok m') : m'.Typed := by
  revert m'
  show OkP MapObj.Typed (HS.apiDegrade m ordOut red w)
  unfold HS.apiDegrade
  okp
  · refine OkP.bind (Q := MapObj.Typed) (fun e he => Typed.rehouse h he) ?_
    intro m1 hm1
    extract_lets jp
    refine OkP.bind (Q := fun _ => True) (fun _ _ => trivial) ?_
    intro w' _
    exact Typed.apiDegradeCore hm1 ordOut red w'
  · refine OkP.bind (Q := MapObj.Typed) (fun e he => Typed.rehouse h he) ?_
    intro m1 hm1
    extract_lets jp
    refine OkP.bind (Q := fun _ => True) (fun _ _ => trivial) ?_
    intro w' _
    exact Typed.apiDegradeCore hm1 ordOut red w'
  · exact h
  · exact Typed.apiDegradeCore h ordOut red w

/-! #### HEALPix interchange -/

theorem Typed.apiFromHealpix {covord spord : Nat} {dt : DT} {sentinel : Option Val} {hp : List Val}
    {b : Bool} {m' : MapObj} (hd : dt.real = true)
    (hr : HS.apiFromHealpix covord spord dt sentinel hp b = .ok m') : m'.Typed := by
  revert m'
  show OkP MapObj.Typed (HS.apiFromHealpix covord spord dt sentinel hp b)
  unfold HS.apiFromHealpix
  okp
  refine OkP.bind (Q := fun v => v.isBoolV = true ↔ dt = .bool) (fun v hv => checkSentinel_typed hv) ?_
  intro sent hs
  apply OkP.of_pure
  exact Kind.typed_plain hd hs

theorem Typed.apiReadHealpix {f : HpFile} {covord : Nat} {r2n : Option (Array Nat)} {m' : MapObj}
    (hf : f.dt.real = true) (hr : HS.apiReadHealpix f covord r2n = .ok m') : m'.Typed := by
  revert m'
  show OkP MapObj.Typed (HS.apiReadHealpix f covord r2n)
  unfold HS.apiReadHealpix
  okp
  · refine OkP.bind (Q := MapObj.Typed) (fun e he => Typed.apiMakeEmpty (kind := .plain _) hf he) ?_
    exact fun e he m' hm' => Typed.apiUpdate he hm'
  · exact fun _ h => Typed.apiFromHealpix hf h
  · exact fun _ h => Typed.apiFromHealpix hf h

theorem Typed.apiWriteHealpix {m : MapObj} {f : HpFile} (h : m.Typed)
    (hr : HS.apiWriteHealpix m = .ok f) : f.dt.real = true := by
  revert f
  show OkP (fun f => f.dt.real = true) (HS.apiWriteHealpix m)
  unfold HS.apiWriteHealpix
  okp
  all_goals first
    | rfl
    | (have := h; unfold MapObj.Typed at this
       rw [‹m.kind = _›] at this
       exact (Kind.typed_plain_iff this).1)

/-! #### union / intersection operations -/

/-- a real dtype with a NON-boolean sentinel: typed unless the dtype is boolean — used where the
    dtype comes from `parseDTCode` of a float `dtype_out` -/
theorem typed_numeric_sent {d : DT} {s : Val} (hr : d.real = true) (hs : s.isBoolV = false)
    (hd : d ≠ .bool) : (Kind.plain d).typed s :=
  Kind.typed_plain hr ⟨fun hb => (by rw [hs] at hb; cases hb), fun e => absurd e hd⟩


theorem kind_code_b1 {k : Kind} (h1 : k.code ≠ "b1") (h2 : k.code ≠ "rec") :
    (∃ dt, k = .plain dt ∧ dt ≠ .bool) ∨ ∃ n, k = .wide n := by
  cases k with
  | packed => exact absurd rfl h1
  | recd fs pr => exact absurd rfl h2
  | wide n => exact .inr ⟨n, rfl⟩
  | plain dt =>
    refine .inl ⟨dt, rfl, ?_⟩
    intro e; subst e; exact h1 rfl

/-- a float `dtype_out` on a numeric or wide-mask first map: the first map's sentinel is a number -/
theorem typed_dtypeOut {first : MapObj} {d : DT} {s : String} (hf : first.Typed)
    (hd : parseDTCode s = some d) (hdb : d ≠ .bool)
    (c1 : first.kind.code ≠ "b1") (c2 : first.kind.code ≠ "rec") :
    (Kind.plain d).typed first.sent := by
  have hdr := parseDTCode_real hd
  unfold MapObj.Typed at hf
  rcases kind_code_b1 c1 c2 with ⟨dt, e, hne⟩ | ⟨n, e⟩
  · rw [e] at hf
    have hnb : first.sent.isBoolV = false := by
      cases hb : first.sent.isBoolV with
      | false => rfl
      | true => exact absurd ((Kind.typed_plain_iff hf).2.1 hb) hne
    exact typed_numeric_sent hdr hnb hdb
  · rw [e] at hf
    exact typed_numeric_sent hdr hf hdb

/-- the result of a union / intersection operation is typed, provided a float64 result
    (`dtype_out`) is only requested for a numeric or wide-mask first map — which the dispatch on
    the first map's dtype code guarantees (the operation table has no boolean or record rows).
    Both the regular result and the empty-coverage early return (`make_empty_like` with
    `dtype_out`) carry the FIRST map's sentinel into the output kind. -/
theorem Typed.apiMultiOp {row : OpRow} {maps : List MapObj} {m' : MapObj}
    (h : ∀ m ∈ maps, m.Typed)
    (hnb : parseDTCode row.dtypeOut ≠ some .bool)
    (hrow : ∀ d, parseDTCode row.dtypeOut = some d →
      ∀ first ∈ maps.head?, first.kind.code ≠ "b1" ∧ first.kind.code ≠ "rec")
    (hr : HS.apiMultiOp row maps = .ok m') : m'.Typed := by
  obtain ⟨first, rest, rfl, _, _, h3, _, hcase⟩ := WFApi.apiMultiOp_ok hr
  have hf : first.Typed := h first List.mem_cons_self
  rcases hcase with ⟨hk, _, _⟩ | ⟨hk, _, _⟩
  · unfold MapObj.Typed
    rw [hk, h3]
    unfold multiKindE
    split
    · rename_i d hd
      obtain ⟨c1, c2⟩ := hrow d hd first rfl
      exact typed_dtypeOut hf hd (fun e => hnb (by rw [hd, e])) c1 c2
    · exact hf
  · unfold MapObj.Typed
    rw [hk, h3]
    unfold multiKindOut
    split
    · rename_i d hd
      obtain ⟨c1, c2⟩ := hrow d hd first rfl
      exact typed_dtypeOut hf hd (fun e => hnb (by rw [hd, e])) c1 c2
    · rename_i hp _
      unfold MapObj.Typed at hf
      rw [hp] at hf
      exact hf
    · exact hf

/-! ### files -/

theorem Typed.apiWrite {m : MapObj} (md : List (String × String)) (h : m.Typed) :
    (HS.apiWrite m md).Typed := by
  intro k hk
  rw [(fileKind_apiWrite_iff m md).2 h.fileTyped] at hk
  cases hk
  exact h

theorem Typed.apiRead {f : FileObj} {pixels : Option (List Nat)} {m : MapObj} (hf : f.Typed)
    (h : HS.apiRead f pixels = .ok m) : m.Typed := by
  obtain ⟨kind, hk, _, _, h3, h4, _⟩ := apiRead_ok h
  unfold MapObj.Typed
  rw [h3, h4]
  exact hf kind hk

theorem Typed.apiCat {files : List FileObj} {covordOut : Option Nat} {co oo : Bool} {fo : FileObj}
    (hf : ∀ f ∈ files, f.Typed) (h : HS.apiCat files covordOut co oo = .ok fo) : fo.Typed := by
  obtain ⟨f0, rest, kind, st, rfl, _, hk, _, _, rfl⟩ := apiCat_ok h
  apply Typed.apiWrite
  exact hf f0 List.mem_cons_self kind hk

/-! #### degrade-on-read -/

theorem typed_mk_plain_keep {dt0 : DT} {s : Val} (h : (Kind.plain dt0).typed s) :
    Kind.typed (if (dt0 == .bool) = true then Kind.plain .bool else Kind.plain dt0) s := by
  cases dt0 <;> exact h

theorem typed_mk_plain_aux {dt0 : DT} {s : Val} (h : (Kind.plain dt0).typed s) :
    Kind.typed (.plain (auxDT (if (dt0 == .bool) = true then DT.int 16 true else dt0)))
      (auxDT (if (dt0 == .bool) = true then DT.int 16 true else dt0)).defaultSentinel := by
  have hr : (if (dt0 == .bool) = true then DT.int 16 true else dt0).real = true := by
    cases dt0 with
    | bool => rfl
    | int b sg => exact h.1
    | flt b => exact h.1
  exact typed_plain_flt (auxDT_real hr) (auxDT_ne_bool _)

set_option hygiene false in
local macro "tdor_leafs" : tactic => `(tactic| (
  split at h
  · cases h
    first
    | exact hf _ hk
    | exact typed_recd_aux (hf _ hk)
    | exact typed_mk_plain_keep (hf _ hk)
    | exact typed_mk_plain_aux (hf _ hk)
  · cases h))

set_option hygiene false in
local macro "tdor_guards" : tactic => `(tactic| repeat (is_guard_hyp; obtain ⟨_, h⟩ := ite_err_ok h))

set_option hygiene false in
local macro "tdor_if" : tactic => `(tactic| (
  rcases ite_ok_inv h with ⟨hc, h⟩ | ⟨hc, h⟩ <;>
    first | (cases hc; done) | (exact absurd rfl hc) | (exact absurd trivial hc) | skip))

set_option hygiene false in
local macro "tdor_kind" : tactic => `(tactic| (
  generalize hk : fileKind _ = ok at h
  cases ok with
  | none => cases h
  | some k =>
    tdor_if
    tdor_guards
    cases k with
    | packed => first | cases h | (dsimp only at h; cases h)
    | wide n =>
      try dsimp only at h
      tdor_guards
      tdor_leafs
    | recd fs pr =>
      try dsimp only at h
      tdor_guards
      try dsimp only at h
      tdor_leafs
    | plain dt0 =>
      try dsimp only at h
      obtain ⟨_, h⟩ | ⟨_, h⟩ := ite_ok_inv h
      · tdor_leafs
      · tdor_guards
        try dsimp only at h
        tdor_leafs))

/-- degrade-on-read of a typed file gives a typed map (the walk of `KindOk.apiDegradeOnRead`,
    Lemmas/WFWorld.lean, with the typing leaves) -/
theorem Typed.apiDegradeOnRead {f : FileObj} {ordOut : Nat} {red : String}
    {pixels : Option (List Nat)} {wf : Option FileObj} {m : MapObj} (hf : f.Typed)
    (h : HS.apiDegradeOnRead f ordOut red pixels wf = .ok m) : m.Typed := by
  unfold HS.apiDegradeOnRead at h
  simp only [bind, Except.bind, pure, Except.pure, throw, throwThe, MonadExceptOf.throw] at h
  generalize hpx : dorPixels _ _ _ = opx at h
  cases opx with
  | none => cases h
  | some px =>
    cases wf with
    | none =>
      dsimp only at h
      tdor_guards
      tdor_if
      tdor_guards
      tdor_kind
    | some w =>
      dsimp only at h
      obtain ⟨_, h⟩ | ⟨_, h⟩ := ite_ok_inv h
      · tdor_guards
        tdor_if
        tdor_guards
        tdor_kind
      · tdor_guards
        tdor_if
        tdor_guards
        tdor_kind

/-! ### storing and looking up -/

theorem World.Typed.bind {w : World} (hw : w.Typed) (r : String) {m : MapObj} (hm : m.Typed) :
    (w.bind r m).Typed := by
  refine ⟨?_, hw.2.1, hw.2.2⟩
  intro e he hev
  rcases List.mem_cons.1 he with rfl | he
  · exact hm
  · exact hw.1 e (List.mem_filter.1 he).1 hev

/-- `World.put`, both branches: a store through a view name re-stores the descriptor (not
    constrained) and the parent with its own kind and sentinel -/
theorem World.Typed.put {w : World} (hw : w.Typed) (n : String) {m : MapObj} (hm : m.Typed) :
    (w.put n m).Typed := by
  unfold World.put
  split
  · rename_i pn i x h1 h2
    split
    · rename_i p hp
      refine ⟨?_, hw.2.1, hw.2.2⟩
      intro e he hev
      rcases List.mem_cons.1 he with rfl | he
      · rw [show ({ m with st := ⟨#[], #[]⟩ } : MapObj).view = m.view from rfl, h2] at hev
        cases hev
      · rcases List.mem_cons.1 he with rfl | he
        · obtain ⟨e', he', _, rfl⟩ := World.raw?_mem hp
          exact hw.1 e' he' hev
        · exact hw.1 e (List.mem_filter.1 he).1 hev
    · exact hw
  · exact hw.bind n hm

/-- registering a view descriptor: not constrained -/
theorem World.Typed.register {w : World} (hw : w.Typed) (r : String) {d : MapObj}
    (hv : d.view ≠ none) : ({ w with pool := (r, d) :: w.pool.filter (·.1 != r) } : World).Typed := by
  refine ⟨?_, hw.2.1, hw.2.2⟩
  intro e he hev
  rcases List.mem_cons.1 he with rfl | he
  · exact absurd hev hv
  · exact hw.1 e (List.mem_filter.1 he).1 hev

theorem World.Typed.files_insert {w : World} (hw : w.Typed) (n : String) {fo : FileObj}
    (hfo : fo.Typed) : ({ w with files := (n, fo) :: w.files.filter (·.1 != n) } : World).Typed := by
  refine ⟨hw.1, ?_, hw.2.2⟩
  intro e he
  rcases List.mem_cons.1 he with rfl | he
  · exact hfo
  · exact hw.2.1 e (List.mem_filter.1 he).1

theorem World.Typed.file_find {w : World} (hw : w.Typed) {n : String} {fo : FileObj}
    (hf : (w.files.find? (·.1 == n)).map (·.2) = some fo) : fo.Typed := by
  cases hfind : w.files.find? (·.1 == n) with
  | none => rw [hfind] at hf; cases hf
  | some e =>
    rw [hfind] at hf
    cases hf
    exact hw.2.1 e (List.mem_of_find?_eq_some hfind)

theorem World.Typed.hp_insert {w : World} (hw : w.Typed) (n : String) {f : HpFile}
    (hf : f.dt.real = true) :
    ({ w with hpfiles := (n, f) :: w.hpfiles.filter (·.1 != n) } : World).Typed := by
  refine ⟨hw.1, hw.2.1, ?_⟩
  intro e he
  rcases List.mem_cons.1 he with rfl | he
  · exact hf
  · exact hw.2.2 e (List.mem_filter.1 he).1

theorem World.Typed.hp_find {w : World} (hw : w.Typed) {n : String} {f : HpFile}
    (hf : (w.hpfiles.find? (·.1 == n)).map (·.2) = some f) : f.dt.real = true := by
  cases hfind : w.hpfiles.find? (·.1 == n) with
  | none => rw [hfind] at hf; cases hf
  | some e =>
    rw [hfind] at hf
    cases hf
    exact hw.2.2 e (List.mem_of_find?_eq_some hfind)

/-- the other components of the world play no role -/
theorem World.Typed.with_metas {w : World} (hw : w.Typed)
    (ms : List (String × List (String × String))) : ({ w with metas := ms } : World).Typed := hw

theorem World.Typed.with_mocs {w : World} (hw : w.Typed) (ms : List (String × List Nat)) :
    ({ w with mocs := ms } : World).Typed := hw

/-- **whatever `World.get?` answers in a good typed world is typed**: an owning entry by the
    invariant; a view because its parent is an owning record entry (`World.Good`), its field
    dtype is one of the parent's, and `get?` has checked its sentinel against the parent's blank
    field (a number) and its dtype against `bool` -/
theorem World.Typed.get {w : World} (hg : w.Good) (hw : w.Typed) {n : String} {v : MapObj}
    (h : w.get? n = some v) : v.Typed := by
  rcases World.get?_cases h with ⟨hr, hv⟩ | ⟨d, pn, i, p, hd, hdv, hp, hs, hm, hk, hnb⟩
  · obtain ⟨e, he, _, rfl⟩ := World.raw?_mem hr
    exact hw.1 e he hv
  · obtain ⟨e, he, _, rfl⟩ := World.raw?_mem hp
    have hrec := materializeView_parent_recd hm
    have hpv : e.2.view = none := by
      cases hv : e.2.view with
      | none => rfl
      | some x =>
        have := hg.2.1 e he (by rw [hv]; exact fun h => nomatch h)
        rw [this] at hrec; cases hrec
    exact Typed.materializeView (hw.1 e he hpv) hm hs (by rw [hk]; exact hnb)

theorem typed_withMap {w : World} {a : Args} {k : MapObj → World × String} (hg : w.Good)
    (hw : w.Typed)
    (hk : ∀ n m, a.pos.headD "" = n → w.get? n = some m → m.Ok → m.Typed → (k m).1.Typed) :
    (withMap w a k).1.Typed := by
  unfold withMap
  split
  · rename_i n rest hpos
    split
    · rename_i m hm
      exact hk n m (by rw [hpos]; rfl) hm (hg.get hm) (hw.get hg hm)
    · exact hw
  · exact hw

/-! ### parsers only yield real dtypes -/

theorem bind_parseDT_real {o : Option String} {dt : DT} (h : o.bind parseDT = some dt) :
    dt.real = true := by
  cases o with
  | none => cases h
  | some t => exact parseDT_real h

theorem mapM_parseDT_real : ∀ {l : List String} {fs : List DT}, l.mapM parseDT = some fs →
    ∀ dt ∈ fs, dt.real = true
  | [], fs, h => by
    simp only [List.mapM_nil] at h
    cases h
    intro dt hdt; cases hdt
  | t :: ts, fs, h => by
    rw [List.mapM_cons] at h
    cases h1 : parseDT t with
    | none => rw [h1] at h; cases h
    | some d =>
      cases h2 : ts.mapM parseDT with
      | none => rw [h1, h2] at h; cases h
      | some ds =>
        rw [h1, h2] at h
        cases h
        intro dt hdt
        rcases List.mem_cons.1 hdt with rfl | hdt
        · exact parseDT_real h1
        · exact mapM_parseDT_real h2 dt hdt

theorem parseKind_realK {a : Args} {k : Kind} (h : parseKind a = some k) : k.realK := by
  unfold parseKind at h
  split at h
  · cases hd : (a.get? "dtype").bind parseDT with
    | none => rw [hd] at h; cases h
    | some dt => rw [hd] at h; cases h; exact bind_parseDT_real hd
  · cases h; trivial
  · cases hn : a.nat? "maxbits" with
    | none => rw [hn] at h; cases h
    | some mb => rw [hn] at h; cases h; trivial
  · cases hf : (splitList (a.getD "fields" "")).mapM parseDT with
    | none => simp [hf] at h
    | some fs =>
      cases hp : a.nat? "primary" with
      | none => simp [hf, hp] at h
      | some pr =>
        simp [hf, hp] at h
        cases h
        exact mapM_parseDT_real hf
  · cases h

/-! ### the operations of Model/Dispatch.lean -/

set_option hygiene false in
/-- close a leaf `(w.bind r m').Typed` / `(w.put n m').Typed` / a file insertion -/
macro "typed_leaf" : tactic => `(tactic| first
  | exact hw
  | exact hw.bind _ hm
  | exact hw.put _ hm
  | exact hw.put _ (Typed.apiUpdate hm ‹_›)
  | exact hw.put _ (Typed.apiUpdateRanges hm ‹_›)
  | exact hw.put _ (Typed.apiSetBits hm ‹_›)
  | exact hw.bind _ (Typed.apiMakeEmpty (parseKind_realK ‹_›) ‹_›)
  | exact hw.bind _ (Typed.apiAstype (bind_parseDT_real ‹_›) ‹_›)
  | exact hw.bind _ (Typed.apiAsBitPacked hm ‹_›)
  | exact (hw.bind _ (Typed.apiAsBitPacked hm ‹_›)).with_metas _
  | exact hw.bind _ (Typed.apiGetSingleCopy hm ‹_›)
  | exact hw.bind _ (Typed.apiDegrade hm ‹_›)
  | exact hw.bind _ (Typed.apiUpgrade hm ‹_›)
  | exact hw.bind _ (Typed.apiFromHealpix (bind_parseDT_real ‹_›) ‹_›)
  | exact hw.bind _ (Typed.apiReadHealpix (hw.hp_find ‹_›) ‹_›)
  | exact hw.bind _ (Typed.apiRead (hw.file_find ‹_›) ‹_›)
  | exact (hw.bind _ (Typed.apiRead (hw.file_find ‹_›) ‹_›)).with_metas _
  | exact hw.bind _ (Typed.apiDegradeOnRead (hw.file_find ‹_›) ‹_›)
  | exact (hw.bind _ (Typed.apiDegradeOnRead (hw.file_find ‹_›) ‹_›)).with_metas _
  | exact hw.files_insert _ (Typed.apiWrite _ hm)
  | exact hw.hp_insert _ (Typed.apiWriteHealpix hm ‹_›)
  | exact hw.hp_insert _ (bind_parseDT_real ‹_›)
  | exact hw.bind _ ((MapObj.Typed_cache _ _).2 (Typed.apiReadHealpix (hw.hp_find ‹_›) ‹_›))
  | exact hw.bind _ ((MapObj.Typed_cache _ _).2
      (Typed.apiDegrade (Typed.apiReadHealpix (hw.hp_find ‹_›) ‹_›) ‹_›))
  | exact hw.bind _ (show Kind.typed (.plain (.flt 64)) (.num 0 0) from ⟨rfl, rfl⟩)
  | exact hw.register _ (Option.some_ne_none _))

theorem Typed.opCfg {w : World} (hg : w.Good) (hw : w.Typed) (a : Args) : (HS.opCfg w a).1.Typed := by
  unfold HS.opCfg
  op_split
  all_goals typed_leaf

theorem opsTable_no_bool_rec :
    opsTable.all (fun r => r.dt != "b1" && r.dt != "rec") = true := by decide +kernel

theorem withSpec_of_ufunc {r : OpRow}
    (h : (r.name == "ufunc_union" || r.name == "ufunc_intersection") = true) : r.withSpec = r := by
  have : r.name = "ufunc_union" ∨ r.name = "ufunc_intersection" := by simpa using h
  unfold OpRow.withSpec
  rcases this with e | e <;> rw [e] <;> rfl

theorem Typed.opMop {w : World} (hg : w.Good) (hw : w.Typed) (a : Args) : (HS.opMop w a).1.Typed := by
  unfold HS.opMop
  op_split
  rename_i _ maps hmaps _ row hrow _ v hv
  have hall : ∀ m ∈ maps, m.Typed := by
    intro m hm
    obtain ⟨n, _, hn⟩ := mem_of_mapM_some _ _ _ hmaps m hm
    exact hw.get hg hn
  have hd : parseDTCode row.dtypeOut ≠ some .bool := by
    split at hrow
    · cases hf : (a.get? "filler").bind parseVal with
      | none => rw [hf] at hrow; cases hrow
      | some fv =>
        rw [hf] at hrow
        cases hrow
        intro h; cases h
    · have hmem := List.mem_of_find?_eq_some hrow
      have := List.all_eq_true.1 opsTable_dtypeOut row hmem
      simpa using this
  refine hw.bind _ (Typed.apiMultiOp hall (withSpec_dtypeOut row hd) ?_ hv)
  intro d hdd first hfirst
  split at hrow
  · rename_i hcond
    cases hf : (a.get? "filler").bind parseVal with
    | none => rw [hf] at hrow; cases hrow
    | some fv =>
      rw [hf] at hrow
      cases hrow
      rw [withSpec_of_ufunc hcond] at hdd
      change parseDTCode "" = some d at hdd
      rw [show parseDTCode "" = none from by decide] at hdd
      cases hdd
  · have hmem := List.mem_of_find?_eq_some hrow
    have hb := List.find?_some hrow
    have ht := List.all_eq_true.1 opsTable_no_bool_rec row hmem
    simp only [Bool.and_eq_true, bne_iff_ne, ne_eq, beq_iff_eq] at ht hb
    have hc : row.dt = first.kind.code := by
      rw [hb.2]
      cases maps with
      | nil => cases hfirst
      | cons m ms => cases hfirst; rfl
    rw [hc] at ht
    exact ht

theorem Typed.opMocread {w : World} (hg : w.Good) (hw : w.Typed) (a : Args) : (HS.opMocread w a).1.Typed := by
  unfold HS.opMocread
  op_split
  all_goals
    rename_i e he _ v hv
    exact hw.bind _ ((MapObj.Typed_cache _ _).2
      (Typed.apiUpdate (Typed.apiMakeEmpty (kind := .plain .bool) rfl he) hv))

theorem Typed.opRead {w : World} (hg : w.Good) (hw : w.Typed) (a : Args) : (HS.opRead w a).1.Typed := by
  unfold HS.opRead
  op_split
  all_goals typed_leaf

theorem Typed.opDor {w : World} (hg : w.Good) (hw : w.Typed) (a : Args) : (HS.opDor w a).1.Typed := by
  unfold HS.opDor
  op_split
  all_goals typed_leaf

theorem Typed.opFromhp {w : World} (hg : w.Good) (hw : w.Typed) (a : Args) : (HS.opFromhp w a).1.Typed := by
  unfold HS.opFromhp
  op_split
  all_goals typed_leaf

theorem Typed.opHpxread {w : World} (hg : w.Good) (hw : w.Typed) (a : Args) : (HS.opHpxread w a).1.Typed := by
  unfold HS.opHpxread
  op_split
  all_goals typed_leaf

theorem Typed.opCovread {w : World} (hg : w.Good) (hw : w.Typed) (a : Args) : (HS.opCovread w a).1.Typed := by
  unfold HS.opCovread
  op_split
  all_goals typed_leaf

theorem Typed.opFitsraw {w : World} (hg : w.Good) (hw : w.Typed) (a : Args) : (HS.opFitsraw w a).1.Typed := by
  unfold HS.opFitsraw
  op_split
  all_goals typed_leaf

theorem Typed.opCat {w : World} (hg : w.Good) (hw : w.Typed) (a : Args) : (HS.opCat w a).1.Typed := by
  unfold HS.opCat
  op_split
  all_goals
    rename_i _ fs hfs _ fo hfo
    refine hw.files_insert _ (Typed.apiCat ?_ hfo)
    intro f hf
    obtain ⟨n, _, hn⟩ := mem_of_mapM_some _ _ _ hfs f hf
    exact hw.file_find hn

theorem Typed.opHpximplicit {w : World} (hg : w.Good) (hw : w.Typed) (a : Args) : (HS.opHpximplicit w a).1.Typed := by
  unfold HS.opHpximplicit
  op_split
  all_goals typed_leaf

theorem Typed.opRand {w : World} (hg : w.Good) (hw : w.Typed) (a : Args) : (HS.opRand w a).1.Typed := by
  unfold HS.opRand
  op_split
  all_goals typed_leaf

theorem Typed.opUpd {w : World} (hg : w.Good) (hw : w.Typed) (a : Args) : (HS.opUpd w a).1.Typed := by
  unfold HS.opUpd
  refine typed_withMap hg hw fun n m hn hget hok hm => ?_
  op_split
  all_goals typed_leaf

theorem Typed.opUpdr {w : World} (hg : w.Good) (hw : w.Typed) (a : Args) : (HS.opUpdr w a).1.Typed := by
  unfold HS.opUpdr
  refine typed_withMap hg hw fun n m hn hget hok hm => ?_
  op_split
  all_goals typed_leaf

theorem Typed.opMask {w : World} (hg : w.Good) (hw : w.Typed) (a : Args) : (HS.opMask w a).1.Typed := by
  unfold HS.opMask
  refine typed_withMap hg hw fun n m hn hget hok hm => ?_
  op_split
  all_goals typed_leaf

theorem Typed.opAstype {w : World} (hg : w.Good) (hw : w.Typed) (a : Args) : (HS.opAstype w a).1.Typed := by
  unfold HS.opAstype
  refine typed_withMap hg hw fun n m hn hget hok hm => ?_
  op_split
  all_goals typed_leaf

theorem Typed.opPack {w : World} (hg : w.Good) (hw : w.Typed) (a : Args) : (HS.opPack w a).1.Typed := by
  unfold HS.opPack
  refine typed_withMap hg hw fun n m hn hget hok hm => ?_
  op_split
  all_goals typed_leaf

theorem Typed.opBop {w : World} (hg : w.Good) (hw : w.Typed) (a : Args) : (HS.opBop w a).1.Typed := by
  unfold HS.opBop
  refine typed_withMap hg hw fun n m hn hget hok hm => ?_
  op_split
  all_goals typed_leaf

theorem Typed.opInv {w : World} (hg : w.Good) (hw : w.Typed) (a : Args) : (HS.opInv w a).1.Typed := by
  unfold HS.opInv
  refine typed_withMap hg hw fun n m hn hget hok hm => ?_
  op_split
  all_goals typed_leaf

theorem Typed.opBits {w : World} (hg : w.Good) (hw : w.Typed) (a : Args) : (HS.opBits w a).1.Typed := by
  unfold HS.opBits
  refine typed_withMap hg hw fun n m hn hget hok hm => ?_
  op_split
  all_goals typed_leaf

theorem Typed.opCopy {w : World} (hg : w.Good) (hw : w.Typed) (a : Args) : (HS.opCopy w a).1.Typed := by
  unfold HS.opCopy
  refine typed_withMap hg hw fun n m hn hget hok hm => ?_
  op_split
  all_goals typed_leaf

theorem Typed.opDeg {w : World} (hg : w.Good) (hw : w.Typed) (a : Args) : (HS.opDeg w a).1.Typed := by
  unfold HS.opDeg
  refine typed_withMap hg hw fun n m hn hget hok hm => ?_
  op_split
  all_goals typed_leaf

theorem Typed.opUpg {w : World} (hg : w.Good) (hw : w.Typed) (a : Args) : (HS.opUpg w a).1.Typed := by
  unfold HS.opUpg
  refine typed_withMap hg hw fun n m hn hget hok hm => ?_
  op_split
  all_goals typed_leaf

theorem Typed.opSingle {w : World} (hg : w.Good) (hw : w.Typed) (a : Args) : (HS.opSingle w a).1.Typed := by
  unfold HS.opSingle
  refine typed_withMap hg hw fun n m hn hget hok hm => ?_
  op_split
  all_goals typed_leaf

theorem Typed.opScov {w : World} (hg : w.Good) (hw : w.Typed) (a : Args) : (HS.opScov w a).1.Typed := by
  unfold HS.opScov
  refine typed_withMap hg hw fun n m hn hget hok hm => ?_
  op_split
  all_goals typed_leaf

theorem Typed.opSet {w : World} (hg : w.Good) (hw : w.Typed) (a : Args) : (HS.opSet w a).1.Typed := by
  unfold HS.opSet
  refine typed_withMap hg hw fun n m hn hget hok hm => ?_
  op_split
  all_goals typed_leaf

theorem Typed.opFracdet {w : World} (hg : w.Good) (hw : w.Typed) (a : Args) : (HS.opFracdet w a).1.Typed := by
  unfold HS.opFracdet
  refine typed_withMap hg hw fun n m hn hget hok hm => ?_
  op_split
  all_goals typed_leaf

theorem Typed.opChk {w : World} (hg : w.Good) (hw : w.Typed) (a : Args) : (HS.opChk w a).1.Typed := by
  unfold HS.opChk
  refine typed_withMap hg hw fun n m hn hget hok hm => ?_
  op_split
  all_goals typed_leaf

theorem Typed.opInfo {w : World} (hg : w.Good) (hw : w.Typed) (a : Args) : (HS.opInfo w a).1.Typed := by
  unfold HS.opInfo
  refine typed_withMap hg hw fun n m hn hget hok hm => ?_
  op_split
  all_goals typed_leaf

theorem Typed.opMoc {w : World} (hg : w.Good) (hw : w.Typed) (a : Args) : (HS.opMoc w a).1.Typed := by
  unfold HS.opMoc
  refine typed_withMap hg hw fun n m hn hget hok hm => ?_
  op_split
  all_goals typed_leaf

theorem Typed.opMeta {w : World} (hg : w.Good) (hw : w.Typed) (a : Args) : (HS.opMeta w a).1.Typed := by
  unfold HS.opMeta
  refine typed_withMap hg hw fun n m hn hget hok hm => ?_
  op_split
  all_goals typed_leaf

theorem Typed.opGetmeta {w : World} (hg : w.Good) (hw : w.Typed) (a : Args) : (HS.opGetmeta w a).1.Typed := by
  unfold HS.opGetmeta
  refine typed_withMap hg hw fun n m hn hget hok hm => ?_
  op_split
  all_goals typed_leaf

theorem Typed.opWrite {w : World} (hg : w.Good) (hw : w.Typed) (a : Args) : (HS.opWrite w a).1.Typed := by
  unfold HS.opWrite
  refine typed_withMap hg hw fun n m hn hget hok hm => ?_
  op_split
  all_goals typed_leaf

theorem Typed.opGenhp {w : World} (hg : w.Good) (hw : w.Typed) (a : Args) : (HS.opGenhp w a).1.Typed := by
  unfold HS.opGenhp
  refine typed_withMap hg hw fun n m hn hget hok hm => ?_
  op_split
  all_goals typed_leaf

theorem Typed.opInterp {w : World} (hg : w.Good) (hw : w.Typed) (a : Args) : (HS.opInterp w a).1.Typed := by
  unfold HS.opInterp
  refine typed_withMap hg hw fun n m hn hget hok hm => ?_
  op_split
  all_goals typed_leaf

theorem Typed.opHpxwrite {w : World} (hg : w.Good) (hw : w.Typed) (a : Args) : (HS.opHpxwrite w a).1.Typed := by
  unfold HS.opHpxwrite
  refine typed_withMap hg hw fun n m hn hget hok hm => ?_
  op_split
  all_goals typed_leaf

theorem Typed.opVals {w : World} (hg : w.Good) (hw : w.Typed) (a : Args) : (HS.opVals w a).1.Typed := by
  unfold HS.opVals
  refine typed_withMap hg hw fun n m hn hget hok hm => ?_
  op_split
  all_goals typed_leaf

theorem Typed.opGet {w : World} (hg : w.Good) (hw : w.Typed) (a : Args) : (HS.opGet w a).1.Typed := by
  unfold HS.opGet
  refine typed_withMap hg hw fun n m hn hget hok hm => ?_
  op_split
  all_goals typed_leaf

theorem Typed.opValid {w : World} (hg : w.Good) (hw : w.Typed) (a : Args) : (HS.opValid w a).1.Typed := by
  unfold HS.opValid
  refine typed_withMap hg hw fun n m hn hget hok hm => ?_
  op_split
  all_goals typed_leaf

theorem Typed.opCovmap {w : World} (hg : w.Good) (hw : w.Typed) (a : Args) : (HS.opCovmap w a).1.Typed := by
  unfold HS.opCovmap
  refine typed_withMap hg hw fun n m hn hget hok hm => ?_
  op_split
  all_goals typed_leaf

theorem Typed.opVpsc {w : World} (hg : w.Good) (hw : w.Typed) (a : Args) : (HS.opVpsc w a).1.Typed := by
  unfold HS.opVpsc
  refine typed_withMap hg hw fun n m hn hget hok hm => ?_
  op_split
  all_goals typed_leaf

theorem Typed.opCovmask {w : World} (hg : w.Good) (hw : w.Typed) (a : Args) : (HS.opCovmask w a).1.Typed := by
  unfold HS.opCovmask
  refine typed_withMap hg hw fun n m hn hget hok hm => ?_
  op_split
  all_goals typed_leaf

theorem Typed.opDump {w : World} (hg : w.Good) (hw : w.Typed) (a : Args) : (HS.opDump w a).1.Typed := by
  unfold HS.opDump
  refine typed_withMap hg hw fun n m hn hget hok hm => ?_
  op_split
  all_goals typed_leaf

theorem Typed.opState {w : World} (hg : w.Good) (hw : w.Typed) (a : Args) : (HS.opState w a).1.Typed := by
  unfold HS.opState
  refine typed_withMap hg hw fun n m hn hget hok hm => ?_
  op_split
  all_goals typed_leaf

theorem Typed.opBad {w : World} (hg : w.Good) (hw : w.Typed) (a : Args) : (HS.opBad w a).1.Typed := by
  unfold HS.opBad
  refine typed_withMap hg hw fun n m hn hget hok hm => ?_
  op_split
  all_goals typed_leaf

theorem Typed.opNvalid {w : World} (hg : w.Good) (hw : w.Typed) (a : Args) : (HS.opNvalid w a).1.Typed := by
  unfold HS.opNvalid
  refine typed_withMap hg hw fun n m hn hget hok hm => ?_
  op_split
  all_goals typed_leaf

theorem Typed.opGeom {w : World} (hg : w.Good) (hw : w.Typed) (a : Args) : (HS.opGeom w a).1.Typed := by
  unfold HS.opGeom
  refine typed_withMap hg hw fun n m hn hget hok hm => ?_
  simp only [hn]
  op_split
  all_goals first
    | typed_leaf
    | (rename_i _ v hv
       obtain ⟨x, _, hu⟩ := except_bind_ok hv
       exact hw.put _ (Typed.apiUpdateRanges hm hu))
    | (rename_i _ v hv
       obtain ⟨x, _, hu⟩ := except_bind_ok hv
       exact hw.bind _ ((MapObj.Typed_cache _ _).2 (Typed.apiUpdateRanges ((MapObj.Typed_cache _ _).2 hm) hu)))
    | (rename_i kind sent hkr _ e he _ v hv
       have hK : kind.realK := by
         repeat' (split at hkr)
         all_goals first
           | (cases hkr; done)
           | (cases hkr; trivial)
           | (cases hkr
              exact Kind.typed.realK (s := m.sent) (by
                have := hm; unfold MapObj.Typed at this; rw [‹m.kind = _›] at this; exact this))
       have hE := Typed.apiMakeEmpty hK he
       refine hw.bind _ ((MapObj.Typed_cache _ _).2 ?_)
       split at hv
       · exact Typed.apiSetBits hE hv
       · split at hv
         · exact Typed.apiUpdate hE hv
         · cases hv)

theorem Typed.opSop {w : World} (hg : w.Good) (hw : w.Typed) (a : Args) : (HS.opSop w a).1.Typed := by
  unfold HS.opSop
  refine typed_withMap hg hw fun n m hn hget hok hm => ?_
  cases hin : a.flag "inplace" <;> simp only [↓reduceIte, Bool.false_eq_true, Bool.false_and, Bool.true_and]
  all_goals op_split
  all_goals typed_leaf

theorem Typed.opDrop {w : World} (hg : w.Good) (hw : w.Typed) (a : Args) : (HS.opDrop w a).1.Typed := by
  unfold HS.opDrop
  op_split
  exact ⟨fun e he hev => hw.1 e (List.mem_filter.1 he).1 hev, hw.2.1, hw.2.2⟩

theorem Typed.opReset {w : World} (a : Args) : (HS.opReset w a).1.Typed := World.typed_empty

/-! ### one protocol step, any history -/

theorem Typed.stepArgs {w : World} (hg : w.Good) (hw : w.Typed) (op : String) (a : Args) :
    (HS.stepArgs w op a).1.Typed := by
  unfold HS.stepArgs
  split
  all_goals with_reducible first
    | exact hw
    | exact Typed.opReset a
    | exact Typed.opCfg hg hw a
    | exact Typed.opMop hg hw a
    | exact Typed.opMocread hg hw a
    | exact Typed.opRead hg hw a
    | exact Typed.opDor hg hw a
    | exact Typed.opFromhp hg hw a
    | exact Typed.opHpxread hg hw a
    | exact Typed.opCovread hg hw a
    | exact Typed.opFitsraw hg hw a
    | exact Typed.opCat hg hw a
    | exact Typed.opHpximplicit hg hw a
    | exact Typed.opRand hg hw a
    | exact Typed.opUpd hg hw a
    | exact Typed.opUpdr hg hw a
    | exact Typed.opMask hg hw a
    | exact Typed.opAstype hg hw a
    | exact Typed.opPack hg hw a
    | exact Typed.opBop hg hw a
    | exact Typed.opInv hg hw a
    | exact Typed.opBits hg hw a
    | exact Typed.opCopy hg hw a
    | exact Typed.opDeg hg hw a
    | exact Typed.opUpg hg hw a
    | exact Typed.opSingle hg hw a
    | exact Typed.opScov hg hw a
    | exact Typed.opSet hg hw a
    | exact Typed.opFracdet hg hw a
    | exact Typed.opChk hg hw a
    | exact Typed.opInfo hg hw a
    | exact Typed.opMoc hg hw a
    | exact Typed.opMeta hg hw a
    | exact Typed.opGetmeta hg hw a
    | exact Typed.opWrite hg hw a
    | exact Typed.opGenhp hg hw a
    | exact Typed.opInterp hg hw a
    | exact Typed.opHpxwrite hg hw a
    | exact Typed.opVals hg hw a
    | exact Typed.opGet hg hw a
    | exact Typed.opValid hg hw a
    | exact Typed.opCovmap hg hw a
    | exact Typed.opVpsc hg hw a
    | exact Typed.opCovmask hg hw a
    | exact Typed.opDump hg hw a
    | exact Typed.opState hg hw a
    | exact Typed.opBad hg hw a
    | exact Typed.opSop hg hw a
    | exact Typed.opGeom hg hw a
    | exact Typed.opNvalid hg hw a
    | exact Typed.opDrop hg hw a

theorem Typed.step {w : World} (hg : w.Good) (hw : w.Typed) (line : String) :
    (HS.step w line).1.Typed := by
  unfold HS.step
  simp only
  split
  · exact hw
  · split
    · exact hw
    · exact Typed.stepArgs hg hw _ _

/-- `World.Good` (Lemmas/WFWorld.lean) together with the typing invariant -/
def World.GoodTyped (w : World) : Prop := w.Good ∧ w.Typed

/-- **every protocol line preserves the typing invariant** -/
theorem GoodTyped.step {w : World} (hw : w.GoodTyped) (line : String) : (HS.step w line).1.GoodTyped :=
  ⟨Good.step hw.1 line, Typed.step hw.1 hw.2 line⟩

theorem GoodTyped.foldl_step {w : World} (hw : w.GoodTyped) (lines : List String) :
    (lines.foldl (fun w l => (HS.step w l).1) w).GoodTyped := by
  induction lines generalizing w with
  | nil => exact hw
  | cons l ls ih => exact ih (GoodTyped.step hw l)

/-- **every world reachable by a protocol history is good and typed** -/
theorem GoodTyped.runLines (lines : List String) : (HS.runLines lines).GoodTyped :=
  GoodTyped.foldl_step ⟨World.good_empty, World.typed_empty⟩ lines

theorem Typed.runLines (lines : List String) : (HS.runLines lines).Typed :=
  (GoodTyped.runLines lines).2

/-- **every map a protocol history can produce (owning or view) is typed, hence `FileTyped`** -/
theorem reachable_typed (lines : List String) {n : String} {m : MapObj}
    (h : (HS.runLines lines).get? n = some m) : m.Typed :=
  (GoodTyped.runLines lines).2.get (GoodTyped.runLines lines).1 h

theorem reachable_fileTyped (lines : List String) {n : String} {m : MapObj}
    (h : (HS.runLines lines).get? n = some m) : m.FileTyped :=
  (reachable_typed lines h).fileTyped

/-! ### observations on a looked-up map (for the protocol-level round trip of Props/C03.lean) -/

theorem stepArgs_vals (w : World) (a : Args) : HS.stepArgs w "vals" a = HS.opVals w a := by rfl
theorem stepArgs_valid (w : World) (a : Args) : HS.stepArgs w "valid" a = HS.opValid w a := by rfl

theorem opVals_eq (w : World) (a : Args) (n : String) (rest : List String) (m : MapObj)
    (hpos : a.pos = n :: rest) (hget : w.get? n = some m) :
    HS.opVals w a = (w, showVals ((List.range m.npix).map m.abs)) := by
  unfold HS.opVals withMap
  simp only [hpos, hget]

theorem opValid_eq (w : World) (a : Args) (n : String) (rest : List String) (m : MapObj)
    (hpos : a.pos = n :: rest) (hget : w.get? n = some m) :
    HS.opValid w a = (match validPixels m.c m.vc m.st with
      | some l => (w, showList toString (l.mergeSort (· ≤ ·)))
      | none => (w, errLine .index)) := by
  unfold HS.opValid withMap
  simp only [hpos, hget]
  cases validPixels m.c m.vc m.st <;> rfl

/-! ### the invariant is not vacuous, and not implied by `World.Good` -/

/-- a good world that is not typed: `World.Good` constrains a numeric plain map neither in its
    dtype nor in its sentinel (the objects of Lemmas/ApiRoundTrip.lean) -/
example : ¬ RoundTrip.boolSentMap.Typed ∧ ¬ RoundTrip.oddDtMap.Typed ∧ RoundTrip.boolSentMap.Ok :=
  ⟨fun h => RoundTrip.boolSentMap_not_typed h.fileTyped,
   fun h => RoundTrip.oddDtMap_not_typed h.fileTyped, RoundTrip.boolSentMap_ok⟩

end HS
