/-
  The two implementations of a pixel-range update at the API level (`apiUpdateRanges`,
  Model/Api.lean): helper lemmas for the API-level part of Props/C08.

  * `apiUpdate_eq`, `apiUpdateRanges_slice_eq` (map not a view), `apiUpdateRanges_view` (a view
    takes the explicit path), `apiUpdateRanges_expand_eq`: the `Except` programs as flat
    decision lists (every check in source order, then the core function);
  * the slice path drops empty rows (`liveRows`) and runs `add` over a non-zero sentinel in
    two passes (`twoPass_spec`): its dense view equals the explicit path's for ANY rows
    (`slice_expand_abs`);
  * the storage cells of a well-formed state are exactly the overflow cells and the cells of
    pixels (`cell_owner`), so a predicate on all cells (`floatCellsFit`) depends on the
    dense view only;
  * coverage / dense-view facts of both paths in the shape the property theorems use;
  * the driver (`opUpd`, `opUpdr`): an answer other than `ok` leaves every lookup of the world
    unchanged up to the `n_valid` cache (`get?_put_cache`).
-/
import HealSparse.Lemmas.WFWorld
import HealSparse.Lemmas.Ranges
namespace HS
namespace ApiRanges

/-! ### the API programs as decision lists -/

/-- legality of the operation name / of the `None` value for this map (lines 508-560): the
    checks that precede the empty-input early return; the same code in both range paths -/
def frontErr (m : MapObj) (op : String) (clear : Bool) : Option Err :=
  if clear && op != "replace" then some .value
  else if op != "replace" then
    if m.kind.isBool then (if op != "or" && op != "and" then some .notImpl else none)
    else if op == "or" || op == "and" then
      (if !(m.kind.isIntegerMap && m.sent.isZero) then some .value else none)
    else if op == "add" then (match m.kind with | .recd _ _ => some .value | _ => none)
    else some .value
  else none

/-- the (pixel, value) pairs `update_values_pix` scatters -/
def updPv (m : MapObj) (pix : List Nat) (vals : Option (List Val)) (single : Bool) :
    List (Nat × Val) :=
  match vals with
  | none => pix.map (·, clearValue m)
  | some vs => if single || vs.length == 1 then pix.map (·, vs.headD (.num 0 0)) else pix.zip vs

/-- the storage `update_values_pix` produces once every check has passed -/
def updSt (m : MapObj) (op : String) (pix : List Nat) (vals : Option (List Val)) (single : Bool) :
    State Val :=
  updatePix m.c m.vc m.st (cellOp m op).1 (cellOp m op).2 (updPv m pix vals single) vals.isNone

/-- `update_values_pix` as a flat decision list -/
def apiUpdateSpec (m : MapObj) (op : String) (pix : List Nat) (vals : Option (List Val))
    (single : Bool) (rawUnique : Option Bool) : Except Err MapObj :=
  let vs := vals.getD [clearValue m]
  let sg := vals.isNone || single || vs.length == 1
  match frontErr m op vals.isNone with
  | some e => .error e
  | none =>
    if pix.isEmpty then .ok { m with cache := none }
    else if !(vs.all (valMatchesKind m.kind)) then .error .value
    else if op == "replace" &&
        (match rawUnique with | some ok => !ok | none => decide (pix.eraseDups.length < pix.length))
      then .error .value
    else if !sg && vs.length != pix.length then .error .value
    else if pix.any (· ≥ m.npix) then .error .index
    else if m.view.isSome && pix.any (fun p => m.abs p == m.sent) then .error .runtime
    else if op == "add" && !floatCellsFit m.kind (updSt m op pix vals single).sp then .error .inexact
    else .ok { m with cache := none, st := updSt m op pix vals single }

theorem cellOp_cache (m : MapObj) (x : Option Nat) (op : String) :
    cellOp { m with cache := x } op = cellOp m op := rfl
theorem clearValue_cache (m : MapObj) (x : Option Nat) :
    clearValue { m with cache := x } = clearValue m := rfl
theorem npix_cache (m : MapObj) (x : Option Nat) :
    ({ m with cache := x } : MapObj).npix = m.npix := rfl
theorem c_cache (m : MapObj) (x : Option Nat) :
    ({ m with cache := x } : MapObj).c = m.c := rfl
theorem vc_cache (m : MapObj) (x : Option Nat) :
    ({ m with cache := x } : MapObj).vc = m.vc := rfl
theorem abs_cache (m : MapObj) (x : Option Nat) :
    ({ m with cache := x } : MapObj).abs = m.abs := rfl

/-- decide one condition of a decision list on both sides of the goal -/
syntax "apir_cs " ident " : " term : tactic
macro_rules
  | `(tactic| apir_cs $h:ident : $c:term) => `(tactic|
      (by_cases $h:ident : $c <;>
        simp only [$h:ident, if_true, if_false, ↓reduceIte, Bool.not_true, Bool.not_false,
          Bool.false_eq_true, not_true_eq_false, not_false_eq_true] <;> try rfl))

theorem apiUpdate_eq (m : MapObj) (op : String) (pix : List Nat) (vals : Option (List Val))
    (single : Bool) (ru : Option Bool) :
    apiUpdate m op pix vals single ru = apiUpdateSpec m op pix vals single ru := by
  unfold apiUpdate apiUpdateSpec frontErr updSt updPv
  simp only [bind, Except.bind, pure, Except.pure, throw, throwThe, MonadExceptOf.throw,
    cellOp_cache, clearValue_cache, npix_cache, c_cache, vc_cache,
    abs_cache]
  cases vals with
  | none =>
    simp only [Option.isNone_none, Option.getD_none, Bool.true_and, Bool.true_or]
    apir_cs h1 : (op != "replace") = true
    have h1' : op = "replace" := by simpa using h1
    subst h1'
    cases ru <;> simp
  | some vs =>
    simp only [Option.isNone_some, Option.getD_some, Bool.false_and, Bool.false_or]
    apir_cs h1 : (op != "replace") = true
    · apir_cs h2 : m.kind.isBool = true
      · apir_cs h3 : (op != "or" && op != "and") = true
        apir_cs hr : (op == "replace") = true <;> cases ru <;> simp
      · apir_cs h4 : (op == "or" || op == "and") = true
        · apir_cs h5 : (!(m.kind.isIntegerMap && m.sent.isZero)) = true
          apir_cs hr : (op == "replace") = true <;> cases ru <;> simp
        · apir_cs h6 : (op == "add") = true
          generalize m.kind = k
          cases k <;> simp only [] <;> apir_cs hr : (op == "replace") = true <;> cases ru <;> simp
    · apir_cs hr : (op == "replace") = true <;> cases ru <;> simp

/-- line 592 applied to the raw `(M, 2)` array: no repeated number among the `2 M` entries
    beyond what `M` rows allow -/
def rawOk (R : List (Nat × Nat)) : Bool :=
  !((R.flatMap fun ab => [ab.1, ab.2]).eraseDups.length < R.length)

/-- the single value of a range update (`None` = the clear value) -/
def rangesW (m : MapObj) (val : Option Val) : Val := val.getD (clearValue m)

/-- the rows the range routine keeps: empty rows are dropped on entry -/
def liveRows (R : List (Nat × Nat)) : List (Nat × Nat) := R.filter fun ab => ab.1 != ab.2

/-- the storage the slice path produces once every check has passed: for `add` over a non-zero
    sentinel a pass of its own resets the unset cells of ALL rows, then the operation runs -/
def sliceSt (m : MapObj) (op : String) (R : List (Nat × Nat)) (val : Option Val) : State Val :=
  updateRanges m.c m.vc
    (match (cellOp m op).1 with
     | some g => updateRanges m.c m.vc m.st g (liveRows R) val.isNone
     | none => m.st)
    (fun x => (cellOp m op).2 x (rangesW m val)) (liveRows R) val.isNone

/-- the slice path (taken by a map that is not a view) as a flat decision list -/
def apiRangesSliceSpec (m : MapObj) (op : String) (R : List (Nat × Nat)) (val : Option Val) :
    Except Err MapObj :=
  match frontErr m op val.isNone with
  | some e => .error e
  | none =>
    if R.isEmpty then .ok { m with cache := none }
    else if !(valMatchesKind m.kind (rangesW m val)) then .error .value
    else if op == "replace" && !rawOk R then .error .value
    else if (liveRows R).any (fun ab => ab.2 > m.npix || ab.1 > ab.2) then .error .index
    else if op == "add" && !floatCellsFit m.kind (sliceSt m op R val).sp then .error .inexact
    else .ok { m with cache := none, st := sliceSt m op R val }

theorem apiUpdateRanges_slice_eq (m : MapObj) (op : String) (R : List (Nat × Nat))
    (val : Option Val) (hv : m.view = none) :
    apiUpdateRanges m op R val true = apiRangesSliceSpec m op R val := by
  have hv' : m.view.isSome = false := by rw [hv]; rfl
  unfold apiUpdateRanges apiRangesSliceSpec frontErr sliceSt rangesW rawOk liveRows
  simp only [bind, Except.bind, pure, Except.pure, throw, throwThe, MonadExceptOf.throw,
    cellOp_cache, clearValue_cache, npix_cache, c_cache, vc_cache,
    hv', Bool.or_false, Bool.not_true, Bool.false_eq_true, if_false]
  cases val with
  | none =>
    simp only [Option.isNone_none, Option.getD_none, Bool.true_and]
    apir_cs h1 : (op != "replace") = true
  | some v =>
    simp only [Option.isNone_some, Option.getD_some, Bool.false_and]
    apir_cs h1 : (op != "replace") = true
    apir_cs h2 : m.kind.isBool = true
    · apir_cs h3 : (op != "or" && op != "and") = true
    · apir_cs h4 : (op == "or" || op == "and") = true
      · apir_cs h5 : (!(m.kind.isIntegerMap && m.sent.isZero)) = true
      · apir_cs h6 : (op == "add") = true
        generalize m.kind = k
        cases k <;> rfl

/-- a record-field view always takes the explicit path: the two calls are the same program -/
theorem apiUpdateRanges_view (m : MapObj) (op : String) (R : List (Nat × Nat))
    (val : Option Val) (hv : m.view.isSome = true) :
    apiUpdateRanges m op R val true = apiUpdateRanges m op R val false := by
  unfold apiUpdateRanges
  simp only [hv, Bool.or_true, if_true]

/-- the expansion path: `update_values_pix` on the explicit pixel list (the raw-array
    uniqueness verdict is handed over; a row beyond the sphere raises after the checks) -/
theorem apiUpdateRanges_expand_eq (m : MapObj) (op : String) (R : List (Nat × Nat))
    (val : Option Val) :
    apiUpdateRanges m op R val false =
      if R.isEmpty then apiUpdateSpec m op [] (val.map fun v => [v]) true none
      else if R.any (fun ab => ab.2 > m.npix) then
        (match apiUpdateSpec m op [0] (val.map fun v => [v]) true (some (rawOk R)) with
         | .ok _ => .error .index
         | .error e => .error e)
      else apiUpdateSpec m op (expand R) (val.map fun v => [v]) true (some (rawOk R)) := by
  unfold apiUpdateRanges rawOk
  simp only [bind, Except.bind, pure, Except.pure, throw, throwThe, MonadExceptOf.throw,
    Bool.not_false, Bool.true_or, if_true, apiUpdate_eq]
  split
  · rfl
  · split
    · split <;> simp_all
    · rfl

/-! ### small facts -/

theorem npix_pos (m : MapObj) : 0 < m.npix := by
  unfold MapObj.npix MapObj.c cfgOf Cfg.npix Cfg.nfine
  exact Nat.mul_pos (Nat.mul_pos (by decide) (Nat.pow_pos (by decide))) (Nat.two_pow_pos _)

theorem expand_lt {n : Nat} {R : List (Nat × Nat)} (h : ∀ ab ∈ R, ab.2 ≤ n) :
    ∀ q ∈ expand R, q < n := by
  intro q hq
  obtain ⟨ab, hab, _, h2⟩ := (expand_mem' R q).1 hq
  exact Nat.lt_of_lt_of_le h2 (h ab hab)

theorem expand_eq_nil_iff (R : List (Nat × Nat)) : expand R = [] ↔ ∀ ab ∈ R, ab.2 ≤ ab.1 := by
  constructor
  · intro h ab hab
    apply Nat.le_of_not_lt
    intro hlt
    have : ab.1 ∈ expand R := (expand_mem' R _).2 ⟨ab, hab, Nat.le_refl _, hlt⟩
    rw [h] at this
    cases this
  · intro h
    apply List.eq_nil_iff_forall_not_mem.2
    intro q hq
    obtain ⟨ab, hab, h1, h2⟩ := (expand_mem' R q).1 hq
    have := h ab hab
    omega

theorem not_any_iff {α : Type} {l : List α} {P : α → Bool} :
    ¬ l.any P = true ↔ ∀ x ∈ l, P x = false := by
  rw [List.any_eq_true]
  constructor
  · intro h x hx
    cases hP : P x with
    | false => rfl
    | true => exact absurd ⟨x, hx, hP⟩ h
  · rintro h ⟨x, hx, hP⟩
    rw [h x hx] at hP
    cases hP

/-! ### storage cells and the dense view -/

section cells
variable {V : Type} [DecidableEq V] {c : Cfg} {vc : VCfg V} {s : State V}

/-- every data cell is the cell of a pixel -/
theorem cell_owner (h : Inv c vc s) {i : Nat} (hi : i < s.sp.size) (hn : c.nfine ≤ i) :
    ∃ p, p < c.npix ∧ idxOf c s p = i := by
  have hsz := h.size_eq
  have hpos := c.nfine_pos
  have hdm := Nat.div_add_mod i c.nfine
  have hml := Nat.mod_lt i hpos
  have hq1 : 1 ≤ i / c.nfine := (Nat.le_div_iff_mul_le hpos).2 (by omega)
  have hq2 : i / c.nfine < nblk c s + 1 := by
    rw [Nat.div_lt_iff_lt_mul hpos, ← hsz]; exact hi
  obtain ⟨k, hk, hbs⟩ := h.2.2.2.2.2 (i / c.nfine - 1) (by omega)
  have e : i / c.nfine - 1 + 1 = i / c.nfine := by omega
  rw [e] at hbs
  have hle := block_le_npix c hk
  rw [Nat.succ_mul] at hle
  refine ⟨k * c.nfine + i % c.nfine, by omega, ?_⟩
  have hsh : (k * c.nfine + i % c.nfine) >>> c.shift = k :=
    shift_eq_of_block c (by omega) (by rw [Nat.succ_mul]; omega)
  unfold idxOf
  rw [lookup_of_shift c s hsh]
  unfold blockStart at hbs
  rw [Nat.mul_comm] at hdm
  have hdm' : ((i / c.nfine * c.nfine : Nat) : Int) + ((i % c.nfine : Nat) : Int) = (i : Int) := by
    exact_mod_cast hdm
  rw [Int.natCast_add]
  omega

/-- a predicate holds of every storage cell iff it holds of the sentinel and of every pixel -/
theorem all_cells (h : Inv c vc s) (P : V → Bool) :
    s.sp.all P = true ↔ P vc.sentinel = true ∧ ∀ p, p < c.npix → P (abs c vc s p) = true := by
  rw [Array.all_eq_true]
  constructor
  · intro hall
    refine ⟨?_, fun p hp => ?_⟩
    · have h0 := h.2.2.1 0 c.nfine_pos
      have hlt : 0 < s.sp.size := Nat.lt_of_lt_of_le c.nfine_pos h.nfine_le_size
      rw [Array.getElem?_eq_getElem hlt] at h0
      have := hall 0 hlt
      rw [Option.some.inj h0] at this
      exact this
    · have hlt := h.idxOf_lt_size hp
      have : abs c vc s p = s.sp[idxOf c s p] := rd_eq_getElem _ _ _ hlt
      rw [this]
      exact hall _ hlt
  · rintro ⟨h0, hp⟩ i hi
    by_cases hn : i < c.nfine
    · have := h.2.2.1 i hn
      rw [Array.getElem?_eq_getElem hi] at this
      rw [Option.some.inj this]
      exact h0
    · obtain ⟨p, hp', hix⟩ := cell_owner h hi (Nat.le_of_not_lt hn)
      have : abs c vc s p = s.sp[i] := by
        show rd s.sp (idxOf c s p) _ = _
        rw [hix]; exact rd_eq_getElem _ _ _ hi
      rw [← this]
      exact hp p hp'

/-- two well-formed states with the same dense view satisfy the same all-cells predicates -/
theorem all_cells_congr {s' : State V} (h : Inv c vc s) (h' : Inv c vc s') (P : V → Bool)
    (hab : ∀ p, p < c.npix → abs c vc s p = abs c vc s' p) : s.sp.all P = s'.sp.all P := by
  have e : s.sp.all P = true ↔ s'.sp.all P = true := by
    rw [all_cells h P, all_cells h' P]
    constructor
    · rintro ⟨h0, hp⟩; exact ⟨h0, fun p hp' => by rw [← hab p hp']; exact hp p hp'⟩
    · rintro ⟨h0, hp⟩; exact ⟨h0, fun p hp' => by rw [hab p hp']; exact hp p hp'⟩
  cases h1 : s.sp.all P <;> cases h2 : s'.sp.all P <;> simp_all

end cells

/-- the per-cell test of `floatCellsFit` -/
def fitCell (k : Kind) (v : Val) : Bool :=
  match k with
  | .plain (.flt b) => (match v with
      | .num n e => fitsFloat b (n, e)
      | .poison => false
      | _ => true)
  | _ => true

theorem floatCellsFit_eq (k : Kind) (sp : Array Val) : floatCellsFit k sp = sp.all (fitCell k) := by
  unfold floatCellsFit fitCell
  split
  · rfl
  · rename_i hk
    symm
    rw [Array.all_eq_true]
    intro i hi
    split
    · exact absurd rfl (hk _)
    · rfl


/-! ### the two core paths: dense view, coverage -/

section core
variable {V W : Type} [DecidableEq V]

theorem stageList_lt {n : Nat} (b : Bool) (pv : List (Nat × W)) (h : ∀ qw ∈ pv, qw.1 < n) :
    ∀ qw ∈ stageList b pv, qw.1 < n := by
  intro qw hq
  obtain ⟨pw, hpw, he⟩ := stageList_fst_mem b pv qw hq
  rw [← he]
  exact h pw hpw

/-- the value part of the two paths agrees: always for an operation without pre-pass, and
    for `add` over a non-zero sentinel when no pixel is addressed twice -/
theorem ranges_abs_agree (c : Cfg) (vc : VCfg V) (s : State V) (pre : Option (V → V))
    (f : V → W → V) (w : W) (R : List (Nat × Nat)) (na : Bool) (hs : Inv c vc s)
    (hR : ∀ ab ∈ R, ab.1 ≤ ab.2 ∧ ab.2 ≤ c.npix) (hpre : pre = none ∨ (expand R).Nodup)
    (p : Nat) (hp : p < c.npix) :
    abs c vc (updateRanges c vc s (cellEffect pre f w) R na) p
      = abs c vc (updatePix c vc s pre f ((expand R).map fun q => (q, w)) na) p := by
  rw [(updateRanges_spec c vc s _ R na hs hR).2.2 p hp]
  unfold updatePix
  rw [updateCore_refines' c vc s _ _ na hs (stageList_expand_lt c _ R w hR) p hp]
  unfold denseUpdate
  cases pre with
  | none =>
    show _ = if _ then _ else denseFold (stageOp id f) (stageList false _) p _
    rw [denseFold_stage_none]
  | some pr =>
    rcases hpre with h | h
    · cases h
    · show _ = if _ then _ else denseFold (stageOp pr f) (stageList true _) p _
      rw [denseFold_stage_some pr f w (expand R) h]

omit [DecidableEq V] in
theorem denseCov_stageList (c : Cfg) (cov : Nat → Bool) (b : Bool) (pv : List (Nat × W)) (na : Bool)
    (k : Nat) :
    denseCov c cov (stageList b pv) na k = denseCov c cov pv na k := by
  unfold denseCov stageList
  congr 2
  cases b <;> simp [List.any_append, List.any_map, Function.comp_def]

/-- coverage after the explicit-pixel update: grown by exactly the coverage pixels of the
    addressed pixels (nothing under `no_append`) -/
theorem updatePix_covered (c : Cfg) (vc : VCfg V) (s : State V) (pre : Option (V → V))
    (f : V → W → V) (pv : List (Nat × W)) (na : Bool) (hs : Inv c vc s)
    (hpv : ∀ qw ∈ pv, qw.1 < c.npix) (k : Nat) (hk : k < c.ncov) :
    covered c (updatePix c vc s pre f pv na) k
      = (covered c s k || (!na && pv.any fun qw => qw.1 >>> c.shift == k)) := by
  unfold updatePix
  rw [updateCore_covered' c vc s _ _ na hs (stageList_lt _ pv hpv) k hk, denseCov_stageList]
  rfl

theorem updatePix_refines (c : Cfg) (vc : VCfg V) (s : State V) (pre : Option (V → V))
    (f : V → W → V) (pv : List (Nat × W)) (na : Bool) (hs : Inv c vc s)
    (hpv : ∀ qw ∈ pv, qw.1 < c.npix) (p : Nat) (hp : p < c.npix) :
    abs c vc (updatePix c vc s pre f pv na) p
      = denseUpdate c (abs c vc s) (covered c s) (stageOp (pre.getD id) f)
          (stageList pre.isSome pv) na p := by
  unfold updatePix
  exact updateCore_refines' c vc s _ _ na hs (stageList_lt _ pv hpv) p hp

theorem inv_updatePix (c : Cfg) (vc : VCfg V) (s : State V) (pre : Option (V → V))
    (f : V → W → V) (pv : List (Nat × W)) (na : Bool) (hs : Inv c vc s)
    (hpv : ∀ qw ∈ pv, qw.1 < c.npix) : Inv c vc (updatePix c vc s pre f pv na) := by
  unfold updatePix
  exact inv_updateCore' c vc s _ _ na hs (stageList_lt _ pv hpv)

omit [DecidableEq V] in
/-- an update with no pixels is the identity on the arrays -/
theorem updatePix_nil (c : Cfg) (vc : VCfg V) (s : State V) (pre : Option (V → V))
    (f : V → W → V) (na : Bool) : updatePix c vc s pre f [] na = s := by
  unfold updatePix updateCore stageList
  cases h : pre.isSome <;> simp [scatter]

end core

/-- the coverage pixels that hold a pixel of some row -/
def touchedCov (c : Cfg) (R : List (Nat × Nat)) (k : Nat) : Bool :=
  (expand R).any fun q => q >>> c.shift == k

/-- every pixel of a row lies in a coverage pixel the slice path considers -/
theorem touched_sub_rangeCov {V : Type} (c : Cfg) (s : State V) (R : List (Nat × Nat))
    (hR : ∀ ab ∈ R, ab.1 ≤ ab.2 ∧ ab.2 ≤ c.npix) (k : Nat) (hk : k < c.ncov)
    (hc : covered c s k = false) (ht : touchedCov c R k = true) : k ∈ rangeNewCov c s R := by
  obtain ⟨q, hq, hqk⟩ := List.any_eq_true.1 ht
  rw [beq_iff_eq] at hqk
  obtain ⟨ab, hab, h1, h2⟩ := (expand_mem' R q).1 hq
  have hm := covRange_mem c ab (hR ab hab).2 h1 h2
  rw [hqk] at hm
  exact (mem_rangeNewCov c s R k).2 ⟨hk, hc, ab, hab, hm.1, hm.2⟩


/-! ### dropped empty rows, the two-pass `add` -/

theorem mem_liveRows {R : List (Nat × Nat)} {ab : Nat × Nat} :
    ab ∈ liveRows R ↔ ab ∈ R ∧ ab.1 ≠ ab.2 := by
  unfold liveRows
  rw [List.mem_filter, bne_iff_ne]

/-- empty rows hold no pixel -/
theorem expand_liveRows (R : List (Nat × Nat)) : expand (liveRows R) = expand R := by
  induction R with
  | nil => rfl
  | cons ab R ih =>
    unfold liveRows at ih ⊢
    by_cases h : ab.1 = ab.2
    · have hb : (ab.1 != ab.2) = false := by rw [bne_eq_false_iff_eq]; exact h
      rw [List.filter_cons_of_neg (p := fun ab : Nat × Nat => ab.1 != ab.2) (a := ab) (l := R)
        (by rw [hb]; exact Bool.false_ne_true), ih, expand_cons, h, Nat.sub_self]
      rfl
    · have hb : (ab.1 != ab.2) = true := by rw [bne_iff_ne]; exact h
      rw [List.filter_cons_of_pos (p := fun ab : Nat × Nat => ab.1 != ab.2) (a := ab) (l := R) hb,
        expand_cons, expand_cons, ih]

theorem foldl_rows_id {V : Type} (R : List (Nat × Nat)) (p : Nat) (x : V) :
    R.foldl (fun x ab => if ab.1 ≤ p ∧ p < ab.2 then id x else x) x = x := by
  induction R with
  | nil => rfl
  | cons ab R ih =>
    rw [List.foldl_cons]
    have : (if ab.1 ≤ p ∧ p < ab.2 then id x else x) = x := by simp
    rw [this]
    exact ih

section twopass
variable {V W : Type} [DecidableEq V]

omit [DecidableEq V] in
/-- the staged dense fold over the pixels of `R`, row by row: the pre-pass once per row
    containing the pixel, then the operation once per row containing it -/
theorem denseFold_stage_rows (pre : Option (V → V)) (f : V → W → V) (w : W)
    (R : List (Nat × Nat)) (hR : ∀ ab ∈ R, ab.1 ≤ ab.2) (p : Nat) (x : V) :
    denseFold (stageOp (pre.getD id) f) (stageList pre.isSome ((expand R).map fun q => (q, w))) p x
      = R.foldl (fun x ab => if ab.1 ≤ p ∧ p < ab.2 then f x w else x)
          (R.foldl (fun x ab => if ab.1 ≤ p ∧ p < ab.2 then (pre.getD id) x else x) x) := by
  have e2 : ∀ (g : V → V) (y : V),
      denseFold (stageOp g f) (((expand R).map fun q => (q, w)).map fun pw => (pw.1, some pw.2)) p y
        = R.foldl (fun x ab => if ab.1 ≤ p ∧ p < ab.2 then f x w else x) y := by
    intro g y
    refine Eq.trans ?_ (denseFold_expand (fun x => f x w) R hR p y)
    rw [List.map_map]
    exact denseFold_map_congr (stageOp g f) (fun x (_ : Unit) => f x w) (expand R)
      ((fun pw => (pw.1, some pw.2)) ∘ fun q => (q, w)) (fun q => (q, ()))
      (fun _ _ => rfl) (fun _ _ _ => rfl) p y
  cases pre with
  | none =>
    show denseFold (stageOp id f) (stageList false _) p x = _
    unfold stageList
    simp only [Bool.false_eq_true, if_false, List.nil_append]
    rw [e2, show (Option.getD none id : V → V) = id from rfl, foldl_rows_id]
  | some g =>
    show denseFold (stageOp g f) (stageList true _) p x = _
    unfold stageList
    simp only [if_true]
    rw [denseFold_append, e2]
    congr 1
    refine Eq.trans ?_ (denseFold_expand g R hR p x)
    rw [List.map_map]
    exact denseFold_map_congr (stageOp g f) (fun x (_ : Unit) => g x) (expand R)
      ((fun pw => (pw.1, (none : Option W))) ∘ fun q => (q, w)) (fun q => (q, ()))
      (fun _ _ => rfl) (fun _ _ _ => rfl) p x

/-- the range routine run twice over the same rows (reset pass, then operation): layout,
    coverage (nothing new in the second pass) and dense view -/
theorem twoPass_spec (c : Cfg) (vc : VCfg V) (s : State V) (g h : V → V) (R : List (Nat × Nat))
    (na : Bool) (hs : Inv c vc s) (hR : ∀ ab ∈ R, ab.1 ≤ ab.2 ∧ ab.2 ≤ c.npix) :
    Inv c vc (updateRanges c vc (updateRanges c vc s g R na) h R na) ∧
    (∀ k, k < c.ncov → covered c (updateRanges c vc (updateRanges c vc s g R na) h R na) k
        = (covered c s k || (!na && decide (k ∈ rangeNewCov c s R)))) ∧
    (∀ p, p < c.npix → abs c vc (updateRanges c vc (updateRanges c vc s g R na) h R na) p
        = if (na && !covered c s (p >>> c.shift)) = true then abs c vc s p
          else R.foldl (fun x ab => if ab.1 ≤ p ∧ p < ab.2 then h x else x)
            (R.foldl (fun x ab => if ab.1 ≤ p ∧ p < ab.2 then g x else x) (abs c vc s p))) := by
  obtain ⟨i1, c1, a1⟩ := updateRanges_spec c vc s g R na hs hR
  obtain ⟨i2, c2, a2⟩ := updateRanges_spec c vc (updateRanges c vc s g R na) h R na i1 hR
  have hcov : ∀ k, k < c.ncov →
      covered c (updateRanges c vc (updateRanges c vc s g R na) h R na) k
        = covered c (updateRanges c vc s g R na) k := by
    intro k hk
    rw [c2 k hk]
    cases na with
    | true => simp
    | false =>
      by_cases hm : k ∈ rangeNewCov c (updateRanges c vc s g R false) R
      · obtain ⟨_, hck, ab, hab, h1, h2⟩ := (mem_rangeNewCov c _ R k).1 hm
        rw [c1 k hk] at hck
        cases hcs : covered c s k with
        | true => rw [hcs] at hck; simp at hck
        | false =>
          have : k ∈ rangeNewCov c s R := (mem_rangeNewCov c s R k).2 ⟨hk, hcs, ab, hab, h1, h2⟩
          rw [hcs, decide_eq_true this] at hck
          simp at hck
      · rw [decide_eq_false hm]; simp
  refine ⟨i2, fun k hk => by rw [hcov k hk, c1 k hk], fun p hp => ?_⟩
  rw [a2 p hp]
  unfold denseUpdate
  rw [c1 _ (covpix_lt c p hp), a1 p hp]
  unfold denseUpdate
  rw [denseFold_expand h R (fun ab hab => (hR ab hab).1),
    denseFold_expand g R (fun ab hab => (hR ab hab).1)]
  cases na with
  | false => simp
  | true =>
    cases hc : covered c s (p >>> c.shift) <;> simp

end twopass

/-! ### both paths on regular and on irregular input -/

/-- the checks on the value and the exactness check of the produced storage: what either
    path still does once the rows are known to be regular -/
def rangesOutcome (m : MapObj) (op : String) (R : List (Nat × Nat)) (val : Option Val)
    (st : State Val) : Except Err MapObj :=
  if !(valMatchesKind m.kind (rangesW m val)) then .error .value
  else if op == "replace" && !rawOk R then .error .value
  else if op == "add" && !floatCellsFit m.kind st.sp then .error .inexact
  else .ok { m with cache := none, st := st }

/-- the error, if any, of `rangesOutcome`, from the verdict of the exactness check -/
def rangesErr (m : MapObj) (op : String) (R : List (Nat × Nat)) (val : Option Val) (fit : Bool) :
    Option Err :=
  if !(valMatchesKind m.kind (rangesW m val)) then some .value
  else if op == "replace" && !rawOk R then some .value
  else if op == "add" && !fit then some .inexact
  else none

theorem rangesOutcome_eq (m : MapObj) (op : String) (R : List (Nat × Nat)) (val : Option Val)
    (st : State Val) :
    rangesOutcome m op R val st =
      match rangesErr m op R val (floatCellsFit m.kind st.sp) with
      | some e => .error e
      | none => .ok { m with cache := none, st := st } := by
  unfold rangesOutcome rangesErr
  split
  · rfl
  · split
    · rfl
    · split <;> rfl

/-- the error kind of `rangesOutcome` does not depend on the storage -/
theorem rangesErr_kind {m : MapObj} {op : String} {R : List (Nat × Nat)} {val : Option Val}
    {b₁ b₂ : Bool} {e₁ e₂ : Err} (h1 : rangesErr m op R val b₁ = some e₁)
    (h2 : rangesErr m op R val b₂ = some e₂) : e₁ = e₂ := by
  unfold rangesErr at h1 h2
  by_cases c1 : (!valMatchesKind m.kind (rangesW m val)) = true
  · rw [if_pos c1] at h1 h2; cases h1; cases h2; rfl
  · rw [if_neg c1] at h1 h2
    by_cases c2 : (op == "replace" && !rawOk R) = true
    · rw [if_pos c2] at h1 h2; cases h1; cases h2; rfl
    · rw [if_neg c2] at h1 h2
      split at h1 <;> split at h2 <;> cases h1 <;> cases h2 <;> rfl

theorem rangesOutcome_error {m : MapObj} {op : String} {R : List (Nat × Nat)} {val : Option Val}
    {st : State Val} {e : Err} (h : rangesOutcome m op R val st = .error e) :
    rangesErr m op R val (floatCellsFit m.kind st.sp) = some e := by
  rw [rangesOutcome_eq] at h
  cases hre : rangesErr m op R val (floatCellsFit m.kind st.sp) with
  | some e' => rw [hre] at h; cases h; rfl
  | none => rw [hre] at h; cases h

/-- a three-way raise is a raise -/
theorem raise3 {α : Type} {a b : Prop} [Decidable a] [Decidable b] (x y z : Err) :
    ∃ e, (if a then (Except.error x : Except Err α) else if b then .error y else .error z) = .error e := by
  split
  · exact ⟨_, rfl⟩
  · split <;> exact ⟨_, rfl⟩

/-- the storage the expansion path produces -/
def expandSt (m : MapObj) (op : String) (R : List (Nat × Nat)) (val : Option Val) : State Val :=
  updatePix m.c m.vc m.st (cellOp m op).1 (cellOp m op).2
    ((expand R).map fun q => (q, rangesW m val)) val.isNone

theorem rangesVals (m : MapObj) (val : Option Val) :
    (val.map fun v => [v]).getD [clearValue m] = [rangesW m val] := by
  cases val <;> rfl

theorem updSt_ranges (m : MapObj) (op : String) (pix : List Nat) (val : Option Val) :
    updSt m op pix (val.map fun v => [v]) true
      = updatePix m.c m.vc m.st (cellOp m op).1 (cellOp m op).2
          (pix.map fun q => (q, rangesW m val)) val.isNone := by
  cases val <;> simp [updSt, updPv, rangesW]

theorem view_cases (m : MapObj) : m.view = none ∨ m.view.isSome = true := by
  cases m.view with
  | none => exact Or.inl rfl
  | some x => exact Or.inr rfl

theorem ranges_front_err_expand {m : MapObj} {op : String} {val : Option Val} {e : Err}
    (h : frontErr m op val.isNone = some e) (R : List (Nat × Nat)) :
    apiUpdateRanges m op R val false = .error e := by
  rw [apiUpdateRanges_expand_eq]
  have h' : frontErr m op (val.map fun v => [v]).isNone = some e := by
    rw [← h]; cases val <;> rfl
  unfold apiUpdateSpec
  simp only [h']
  split
  · rfl
  · split <;> rfl

theorem ranges_front_err {m : MapObj} {op : String} {val : Option Val} {e : Err}
    (h : frontErr m op val.isNone = some e) (R : List (Nat × Nat)) (sl : Bool) :
    apiUpdateRanges m op R val sl = .error e := by
  cases sl with
  | false => exact ranges_front_err_expand h R
  | true =>
    rcases view_cases m with hv | hv
    · rw [apiUpdateRanges_slice_eq _ _ _ _ hv]; unfold apiRangesSliceSpec; rw [h]
    · rw [apiUpdateRanges_view _ _ _ _ hv]
      exact ranges_front_err_expand h R

theorem ranges_nil_expand {m : MapObj} {op : String} {val : Option Val}
    (h : frontErr m op val.isNone = none) :
    apiUpdateRanges m op [] val false = .ok { m with cache := none } := by
  rw [apiUpdateRanges_expand_eq]
  have h' : frontErr m op (val.map fun v => [v]).isNone = none := by
    rw [← h]; cases val <;> rfl
  unfold apiUpdateSpec
  simp only [h']
  rfl

theorem ranges_nil {m : MapObj} {op : String} {val : Option Val}
    (h : frontErr m op val.isNone = none) (sl : Bool) :
    apiUpdateRanges m op [] val sl = .ok { m with cache := none } := by
  cases sl with
  | false => exact ranges_nil_expand h
  | true =>
    rcases view_cases m with hv | hv
    · rw [apiUpdateRanges_slice_eq _ _ _ _ hv]; unfold apiRangesSliceSpec; rw [h]; rfl
    · rw [apiUpdateRanges_view _ _ _ _ hv]
      exact ranges_nil_expand h

theorem ranges_ok_of_not_any' {n : Nat} {R : List (Nat × Nat)}
    (h : ∀ ab ∈ R, ab.1 ≤ ab.2 ∧ ab.2 ≤ n) :
    (R.any fun ab => decide (ab.2 > n) || decide (ab.1 > ab.2)) = false := by
  rw [Bool.eq_false_iff, Ne, not_any_iff]
  intro ab hab
  have := h ab hab
  simp only [Bool.or_eq_false_iff, decide_eq_false_iff_not]
  omega

/-- not a view, every non-empty row has start < end inside the sphere: the slice path is the
    value checks followed by the (two-pass) range update -/
theorem slice_regular {m : MapObj} {op : String} {R : List (Nat × Nat)} {val : Option Val}
    (hv : m.view = none) (hfe : frontErr m op val.isNone = none) (hne : R ≠ [])
    (hR : ∀ ab ∈ liveRows R, ab.1 ≤ ab.2 ∧ ab.2 ≤ m.npix) :
    apiUpdateRanges m op R val true = rangesOutcome m op R val (sliceSt m op R val) := by
  rw [apiUpdateRanges_slice_eq _ _ _ _ hv]
  unfold apiRangesSliceSpec rangesOutcome
  have he : R.isEmpty = false := by simpa using hne
  simp only [hfe, he, ranges_ok_of_not_any' hR, Bool.false_eq_true, if_false]

/-- a non-empty row beyond the sphere or with start > end: the slice path raises (ValueError
    from the value checks first, else IndexError) -/
theorem slice_irregular {m : MapObj} {op : String} {R : List (Nat × Nat)} {val : Option Val}
    (hv : m.view = none) (hfe : frontErr m op val.isNone = none)
    (hR : ∃ ab ∈ liveRows R, ab.2 > m.npix ∨ ab.1 > ab.2) :
    apiUpdateRanges m op R val true =
      if !(valMatchesKind m.kind (rangesW m val)) then .error .value
      else if op == "replace" && !rawOk R then .error .value
      else .error .index := by
  rw [apiUpdateRanges_slice_eq _ _ _ _ hv]
  unfold apiRangesSliceSpec
  obtain ⟨ab, hab, hbad⟩ := hR
  have he : R.isEmpty = false := by
    cases R with
    | nil => cases hab
    | cons _ _ => rfl
  have hany : ((liveRows R).any fun ab => decide (ab.2 > m.npix) || decide (ab.1 > ab.2)) = true :=
    List.any_eq_true.2 ⟨ab, hab, by simpa using hbad⟩
  simp only [hfe, he, hany, Bool.false_eq_true, if_false, if_true]

theorem expand_any_ge {n : Nat} {R : List (Nat × Nat)} (h : ∀ ab ∈ R, ab.2 ≤ n) :
    ((expand R).any fun q => decide (q ≥ n)) = false := by
  rw [Bool.eq_false_iff, Ne, not_any_iff]
  intro q hq
  have := expand_lt h q hq
  simp only [decide_eq_false_iff_not]
  omega

theorem not_beyond {n : Nat} {R : List (Nat × Nat)} (h : ∀ ab ∈ R, ab.2 ≤ n) :
    (R.any fun ab => decide (ab.2 > n)) = false := by
  rw [Bool.eq_false_iff, Ne, not_any_iff]
  intro ab hab
  have := h ab hab
  simp only [decide_eq_false_iff_not]
  omega

/-- rows inside the sphere holding at least one pixel, no forbidden write through a view:
    the expansion path is the value checks followed by the explicit-pixel update -/
theorem expand_regular {m : MapObj} {op : String} {R : List (Nat × Nat)} {val : Option Val}
    (hfe : frontErr m op val.isNone = none) (hR : ∀ ab ∈ R, ab.2 ≤ m.npix)
    (hne : expand R ≠ [])
    (hview : (m.view.isSome && (expand R).any fun p => m.abs p == m.sent) = false) :
    apiUpdateRanges m op R val false = rangesOutcome m op R val (expandSt m op R val) := by
  rw [apiUpdateRanges_expand_eq]
  have hRne : R.isEmpty = false := by
    cases R with
    | nil => exact absurd rfl hne
    | cons _ _ => rfl
  have h' : frontErr m op (val.map fun v => [v]).isNone = none := by
    rw [← hfe]; cases val <;> rfl
  have hpe : (expand R).isEmpty = false := by simpa using hne
  unfold apiUpdateSpec rangesOutcome expandSt
  simp only [hRne, not_beyond hR, hfe, hpe, rangesVals, expand_any_ge hR, hview, updSt_ranges,
    Bool.false_eq_true, if_false, List.all_cons, List.all_nil, Bool.and_true,
    Option.isNone_map, List.length_singleton, BEq.rfl, Bool.or_true,
    Bool.not_true, Bool.false_and]

/-- … and with a forbidden write through a view it raises RuntimeError after the value checks -/
theorem expand_view {m : MapObj} {op : String} {R : List (Nat × Nat)} {val : Option Val}
    (hfe : frontErr m op val.isNone = none) (hR : ∀ ab ∈ R, ab.2 ≤ m.npix)
    (hview : (m.view.isSome && (expand R).any fun p => m.abs p == m.sent) = true) :
    apiUpdateRanges m op R val false =
      if !(valMatchesKind m.kind (rangesW m val)) then .error .value
      else if op == "replace" && !rawOk R then .error .value
      else .error .runtime := by
  rw [apiUpdateRanges_expand_eq]
  have hne : expand R ≠ [] := by
    intro h; rw [h] at hview; simp at hview
  have hRne : R.isEmpty = false := by
    cases R with
    | nil => exact absurd rfl hne
    | cons _ _ => rfl
  have h' : frontErr m op (val.map fun v => [v]).isNone = none := by
    rw [← hfe]; cases val <;> rfl
  have hpe : (expand R).isEmpty = false := by simpa using hne
  unfold apiUpdateSpec
  simp only [hRne, not_beyond hR, h', hpe, rangesVals, expand_any_ge hR, hview,
    Bool.false_eq_true, if_false, if_true, List.all_cons, List.all_nil, Bool.and_true,
    List.length_singleton, BEq.rfl, Bool.or_true,
    Bool.not_true, Bool.false_and]

/-- rows inside the sphere none of which holds a pixel: the expansion path returns at the
    empty-input test, before the value checks -/
theorem expand_empty {m : MapObj} {op : String} {R : List (Nat × Nat)} {val : Option Val}
    (hfe : frontErr m op val.isNone = none) (hR : ∀ ab ∈ R, ab.2 ≤ m.npix)
    (he : expand R = []) :
    apiUpdateRanges m op R val false = .ok { m with cache := none } := by
  rw [apiUpdateRanges_expand_eq]
  have h' : frontErr m op (val.map fun v => [v]).isNone = none := by
    rw [← hfe]; cases val <;> rfl
  unfold apiUpdateSpec
  simp only [not_beyond hR, h', he, List.isEmpty_nil, Bool.false_eq_true, if_false, if_true]
  split <;> rfl

/-- a row beyond the sphere: the expansion path raises — ValueError from the value checks
    first, else whatever `update_values_pix` on pixel 0 raises, else IndexError -/
theorem expand_beyond {m : MapObj} {op : String} {R : List (Nat × Nat)} {val : Option Val}
    (hfe : frontErr m op val.isNone = none) (hR : ∃ ab ∈ R, ab.2 > m.npix) :
    ∃ e, (e = .index ∨ (e = .runtime ∧ m.view.isSome = true) ∨ e = .inexact) ∧
      apiUpdateRanges m op R val false =
        if !(valMatchesKind m.kind (rangesW m val)) then .error .value
        else if op == "replace" && !rawOk R then .error .value
        else .error e := by
  rw [apiUpdateRanges_expand_eq]
  obtain ⟨ab, hab, hbad⟩ := hR
  have hRne : R.isEmpty = false := by
    cases R with
    | nil => cases hab
    | cons _ _ => rfl
  have hany : (R.any fun ab => decide (ab.2 > m.npix)) = true :=
    List.any_eq_true.2 ⟨ab, hab, by simpa using hbad⟩
  have h' : frontErr m op (val.map fun v => [v]).isNone = none := by
    rw [← hfe]; cases val <;> rfl
  have h0 : ([0].any fun q => decide (q ≥ m.npix)) = false := by
    have := npix_pos m
    simp only [List.any_cons, List.any_nil, Bool.or_false, decide_eq_false_iff_not]
    omega
  unfold apiUpdateSpec
  simp only [hRne, hany, h', rangesVals, h0, List.isEmpty_cons,
    Bool.false_eq_true, if_false, if_true, List.all_cons, List.all_nil, Bool.and_true,
    List.length_singleton, BEq.rfl, Bool.or_true,
    Bool.not_true, Bool.false_and]
  by_cases c1 : (!valMatchesKind m.kind (rangesW m val)) = true
  · exact ⟨.index, Or.inl rfl, by simp only [c1, if_true]⟩
  · by_cases c2 : (op == "replace" && !rawOk R) = true
    · exact ⟨.index, Or.inl rfl, by simp only [c1, c2, if_true, Bool.false_eq_true, if_false]⟩
    · simp only [c1, c2, Bool.false_eq_true, if_false]
      by_cases c3 : (m.view.isSome && [0].any fun p => m.abs p == m.sent) = true
      · exact ⟨.runtime, Or.inr (Or.inl ⟨rfl, (Bool.and_eq_true _ _ ▸ c3).1⟩), by simp only [c3, if_true]⟩
      · by_cases c4 : (op == "add" &&
            !floatCellsFit m.kind (updSt m op [0] (Option.map (fun v => [v]) val) true).sp) = true
        · exact ⟨.inexact, Or.inr (Or.inr rfl), by simp only [c3, c4, if_true, Bool.false_eq_true, if_false]⟩
        · exact ⟨.index, Or.inl rfl, by simp only [c3, c4, Bool.false_eq_true, if_false]⟩


/-! ### the storages of the two paths for a well-formed map -/

theorem foldl_rows_live {V : Type} (h : V → V) (R : List (Nat × Nat)) (p : Nat) (x : V) :
    (liveRows R).foldl (fun x ab => if ab.1 ≤ p ∧ p < ab.2 then h x else x) x
      = R.foldl (fun x ab => if ab.1 ≤ p ∧ p < ab.2 then h x else x) x := by
  induction R generalizing x with
  | nil => rfl
  | cons ab R ih =>
    unfold liveRows at ih ⊢
    by_cases he : ab.1 = ab.2
    · have hb : (ab.1 != ab.2) = false := by rw [bne_eq_false_iff_eq]; exact he
      rw [List.filter_cons_of_neg (p := fun ab : Nat × Nat => ab.1 != ab.2) (a := ab) (l := R)
        (by rw [hb]; exact Bool.false_ne_true), ih, List.foldl_cons]
      have : ¬ (ab.1 ≤ p ∧ p < ab.2) := by omega
      rw [if_neg this]
    · have hb : (ab.1 != ab.2) = true := by rw [bne_iff_ne]; exact he
      rw [List.filter_cons_of_pos (p := fun ab : Nat × Nat => ab.1 != ab.2) (a := ab) (l := R) hb,
        List.foldl_cons, List.foldl_cons, ih]

theorem touchedCov_liveRows (c : Cfg) (R : List (Nat × Nat)) (k : Nat) :
    touchedCov c (liveRows R) k = touchedCov c R k := by
  unfold touchedCov; rw [expand_liveRows]

section api
variable {m : MapObj} {op : String} {R : List (Nat × Nat)} {val : Option Val}

theorem expand_pv_lt (hR : ∀ ab ∈ R, ab.2 ≤ m.npix) (w : Val) :
    ∀ qw ∈ (expand R).map (fun q => (q, w)), qw.1 < m.c.npix := by
  intro qw hq
  obtain ⟨q, hq', rfl⟩ := List.mem_map.1 hq
  exact expand_lt hR q hq'

/-- the slice path's storage for a well-formed map and regular non-empty rows: layout,
    coverage (every coverage pixel from the one holding a row's start to the one holding its
    exclusive end, for the non-empty rows; none for a clear), dense view (the reset once per
    row containing the pixel, then the operation once per row containing it) -/
theorem sliceSt_spec (h : m.WF) (hR : ∀ ab ∈ liveRows R, ab.1 ≤ ab.2 ∧ ab.2 ≤ m.npix) :
    Inv m.c m.vc (sliceSt m op R val) ∧
    (∀ k, k < m.c.ncov → covered m.c (sliceSt m op R val) k
        = (covered m.c m.st k || (!val.isNone && decide (k ∈ rangeNewCov m.c m.st (liveRows R))))) ∧
    (∀ p, p < m.npix → abs m.c m.vc (sliceSt m op R val) p
        = if (val.isNone && !covered m.c m.st (p >>> m.c.shift)) = true then m.abs p
          else R.foldl (fun x ab => if ab.1 ≤ p ∧ p < ab.2
                  then (cellOp m op).2 x (rangesW m val) else x)
            (R.foldl (fun x ab => if ab.1 ≤ p ∧ p < ab.2
                  then ((cellOp m op).1.getD id) x else x) (m.abs p))) := by
  unfold sliceSt
  cases hpre : (cellOp m op).1 with
  | none =>
    simp only []
    obtain ⟨i1, c1, a1⟩ := updateRanges_spec m.c m.vc m.st
      (fun x => (cellOp m op).2 x (rangesW m val)) (liveRows R) val.isNone h.2 hR
    refine ⟨i1, c1, fun p hp => ?_⟩
    rw [a1 p hp]
    unfold denseUpdate
    rw [denseFold_expand _ _ (fun ab hab => (hR ab hab).1), foldl_rows_live,
      show (Option.getD none id : Val → Val) = id from rfl, foldl_rows_id]
    rfl
  | some g =>
    simp only []
    obtain ⟨i1, c1, a1⟩ := twoPass_spec m.c m.vc m.st g
      (fun x => (cellOp m op).2 x (rangesW m val)) (liveRows R) val.isNone h.2 hR
    refine ⟨i1, c1, fun p hp => ?_⟩
    rw [a1 p hp, foldl_rows_live, foldl_rows_live]
    rfl

theorem expandSt_inv (h : m.WF) (hR : ∀ ab ∈ R, ab.2 ≤ m.npix) :
    Inv m.c m.vc (expandSt m op R val) :=
  inv_updatePix m.c m.vc m.st _ _ _ _ h.2 (expand_pv_lt hR _)

/-- dense view after the expansion path: pre-pass on every addressed pixel, then the
    operation once per occurrence -/
theorem expandSt_abs (h : m.WF) (hR : ∀ ab ∈ R, ab.2 ≤ m.npix) (p : Nat) (hp : p < m.npix) :
    abs m.c m.vc (expandSt m op R val) p
      = denseUpdate m.c m.abs (covered m.c m.st)
          (stageOp ((cellOp m op).1.getD id) (cellOp m op).2)
          (stageList (cellOp m op).1.isSome ((expand R).map fun q => (q, rangesW m val)))
          val.isNone p :=
  updatePix_refines m.c m.vc m.st _ _ _ _ h.2 (expand_pv_lt hR _) p hp

/-- the same, row by row -/
theorem expandSt_abs_rows (h : m.WF) (hR : ∀ ab ∈ R, ab.1 ≤ ab.2 ∧ ab.2 ≤ m.npix) (p : Nat)
    (hp : p < m.npix) :
    abs m.c m.vc (expandSt m op R val) p
      = if (val.isNone && !covered m.c m.st (p >>> m.c.shift)) = true then m.abs p
        else R.foldl (fun x ab => if ab.1 ≤ p ∧ p < ab.2
                then (cellOp m op).2 x (rangesW m val) else x)
          (R.foldl (fun x ab => if ab.1 ≤ p ∧ p < ab.2
                then ((cellOp m op).1.getD id) x else x) (m.abs p)) := by
  rw [expandSt_abs h (fun ab hab => (hR ab hab).2) p hp]
  unfold denseUpdate
  rw [denseFold_stage_rows _ _ _ R (fun ab hab => (hR ab hab).1)]

/-- coverage after the expansion path: grown by exactly the coverage pixels holding a pixel
    of some row -/
theorem expandSt_covered (h : m.WF) (hR : ∀ ab ∈ R, ab.2 ≤ m.npix) (k : Nat) (hk : k < m.c.ncov) :
    covered m.c (expandSt m op R val) k
      = (covered m.c m.st k || (!val.isNone && touchedCov m.c R k)) := by
  unfold expandSt
  rw [updatePix_covered m.c m.vc m.st _ _ _ _ h.2 (expand_pv_lt hR _) k hk, List.any_map]
  rfl

/-- rows with start ≤ end inside the sphere: the regularity the slice path needs -/
theorem live_of_all (hR : ∀ ab ∈ R, ab.1 ≤ ab.2 ∧ ab.2 ≤ m.npix) :
    ∀ ab ∈ liveRows R, ab.1 ≤ ab.2 ∧ ab.2 ≤ m.npix :=
  fun ab hab => hR ab (mem_liveRows.1 hab).1

/-- **the two storages read the same at every pixel** (no condition on repeated pixels: the
    slice path resets over all rows before it adds, as the explicit path does) -/
theorem slice_expand_abs (h : m.WF) (hR : ∀ ab ∈ R, ab.1 ≤ ab.2 ∧ ab.2 ≤ m.npix)
    (p : Nat) (hp : p < m.npix) :
    abs m.c m.vc (sliceSt m op R val) p = abs m.c m.vc (expandSt m op R val) p := by
  rw [(sliceSt_spec h (live_of_all hR)).2.2 p hp, expandSt_abs_rows h hR p hp]

theorem floatCellsFit_nonfloat {k : Kind} (hk : ∀ b, k ≠ .plain (.flt b)) (sp : Array Val) :
    floatCellsFit k sp = true := by
  unfold floatCellsFit
  split
  · exact absurd rfl (hk _)
  · rfl

/-- the exactness check gives the same verdict on both storages -/
theorem slice_expand_fit (h : m.WF) (hR : ∀ ab ∈ R, ab.1 ≤ ab.2 ∧ ab.2 ≤ m.npix) :
    floatCellsFit m.kind (sliceSt m op R val).sp = floatCellsFit m.kind (expandSt m op R val).sp := by
  rw [floatCellsFit_eq, floatCellsFit_eq]
  exact all_cells_congr (sliceSt_spec h (live_of_all hR)).1
    (expandSt_inv h fun ab hab => (hR ab hab).2) _ (slice_expand_abs h hR)

end api


/-! ### a successful `update_values_pix` -/

theorem updSt_nil (m : MapObj) (op : String) (vals : Option (List Val)) (single : Bool) :
    updSt m op [] vals single = m.st := by
  unfold updSt updPv
  cases vals <;> simp [updatePix_nil]

theorem updPv_fst_mem {m : MapObj} {pix : List Nat} {vals : Option (List Val)} {single : Bool}
    {qw : Nat × Val} (h : qw ∈ updPv m pix vals single) : qw.1 ∈ pix := by
  unfold updPv at h
  split at h
  · obtain ⟨q, hq, rfl⟩ := List.mem_map.1 h; exact hq
  · split at h
    · obtain ⟨q, hq, rfl⟩ := List.mem_map.1 h; exact hq
    · exact (List.of_mem_zip (a := qw.1) (b := qw.2) h).1

/-- what a successful `update_values_pix` did, exactly: the operation is legal for the map,
    every pixel is inside the sphere, and the result is the core update with the cell
    operation `cellOp m op` on the pairs `updPv` (cache reset, everything else kept) -/
theorem apiUpdate_ok {m : MapObj} {op : String} {pix : List Nat} {vals : Option (List Val)}
    {single : Bool} {ru : Option Bool} {m' : MapObj}
    (h : apiUpdate m op pix vals single ru = .ok m') :
    frontErr m op vals.isNone = none ∧ (∀ q ∈ pix, q < m.npix) ∧
    m' = { m with cache := none, st := updSt m op pix vals single } := by
  rw [apiUpdate_eq] at h
  unfold apiUpdateSpec at h
  simp only [] at h
  cases hfe : frontErr m op vals.isNone with
  | some e => rw [hfe] at h; cases h
  | none =>
    rw [hfe] at h
    simp only [] at h
    refine ⟨rfl, ?_⟩
    rcases WFApi.ite_ok h with ⟨he, h1⟩ | ⟨he, h1⟩
    · have : pix = [] := by simpa using he
      subst this
      cases h1
      refine ⟨fun _ hq => (nomatch hq), ?_⟩
      rw [updSt_nil]
    · replace h1 := (WFApi.guard_ok h1).2
      replace h1 := (WFApi.guard_ok h1).2
      replace h1 := (WFApi.guard_ok h1).2
      have hlt := (WFApi.guard_ok h1).1
      replace h1 := (WFApi.guard_ok h1).2
      replace h1 := (WFApi.guard_ok h1).2
      replace h1 := (WFApi.guard_ok h1).2
      cases h1
      exact ⟨WFApi.lt_of_not_any_ge hlt, rfl⟩


/-! ### successful range updates, uniformly -/

theorem updateRanges_nil {V : Type} (c : Cfg) (vc : VCfg V) (s : State V) (h : V → V) (na : Bool) :
    updateRanges c vc s h [] na = s := by
  unfold updateRanges
  simp

theorem sliceSt_nil (m : MapObj) (op : String) (val : Option Val) : sliceSt m op [] val = m.st := by
  unfold sliceSt
  rw [show liveRows [] = [] from rfl, updateRanges_nil]
  cases (cellOp m op).1 with
  | none => rfl
  | some g => exact updateRanges_nil ..

theorem expandSt_of_empty (m : MapObj) (op : String) {R : List (Nat × Nat)} (val : Option Val)
    (he : expand R = []) : expandSt m op R val = m.st := by
  unfold expandSt
  rw [he]
  exact updatePix_nil ..

theorem rangesOutcome_ok {m : MapObj} {op : String} {R : List (Nat × Nat)} {val : Option Val}
    {st : State Val} {m' : MapObj} (h : rangesOutcome m op R val st = .ok m') :
    m' = { m with cache := none, st := st } := by
  unfold rangesOutcome at h
  replace h := (WFApi.guard_ok h).2
  replace h := (WFApi.guard_ok h).2
  replace h := (WFApi.guard_ok h).2
  cases h
  rfl

/-- a successful slice-path update of a map that is not a view: legal operation, regular
    non-empty rows, result = core (two-pass) range update -/
theorem slice_ok {m : MapObj} {op : String} {R : List (Nat × Nat)} {val : Option Val} {m₁ : MapObj}
    (hv : m.view = none) (h : apiUpdateRanges m op R val true = .ok m₁) :
    frontErr m op val.isNone = none ∧ (∀ ab ∈ liveRows R, ab.1 ≤ ab.2 ∧ ab.2 ≤ m.npix) ∧
    m₁ = { m with cache := none, st := sliceSt m op R val } := by
  cases hfe : frontErr m op val.isNone with
  | some e => rw [ranges_front_err hfe] at h; cases h
  | none =>
    refine ⟨rfl, ?_⟩
    by_cases hne : R = []
    · subst hne
      rw [ranges_nil hfe] at h
      cases h
      exact ⟨fun _ hab => (nomatch hab), by rw [sliceSt_nil]⟩
    · by_cases hR : ∀ ab ∈ liveRows R, ab.1 ≤ ab.2 ∧ ab.2 ≤ m.npix
      · rw [slice_regular hv hfe hne hR] at h
        exact ⟨hR, rangesOutcome_ok h⟩
      · have hbad : ∃ ab ∈ liveRows R, ab.2 > m.npix ∨ ab.1 > ab.2 := by
          apply Classical.byContradiction
          intro hc
          apply hR
          intro ab hab
          have : ¬ (ab.2 > m.npix ∨ ab.1 > ab.2) := fun hx => hc ⟨ab, hab, hx⟩
          omega
        rw [slice_irregular hv hfe hbad] at h
        split at h
        · cases h
        · split at h <;> cases h

/-- a successful expansion-path update: legal operation, rows inside the sphere, no forbidden
    write through a view, result = core explicit-pixel update -/
theorem expand_ok {m : MapObj} {op : String} {R : List (Nat × Nat)} {val : Option Val} {m₂ : MapObj}
    (h : apiUpdateRanges m op R val false = .ok m₂) :
    frontErr m op val.isNone = none ∧ (∀ ab ∈ R, ab.2 ≤ m.npix) ∧
    (m.view.isSome && (expand R).any fun p => m.abs p == m.sent) = false ∧
    m₂ = { m with cache := none, st := expandSt m op R val } := by
  cases hfe : frontErr m op val.isNone with
  | some e => rw [ranges_front_err hfe] at h; cases h
  | none =>
    refine ⟨rfl, ?_⟩
    by_cases hR : ∀ ab ∈ R, ab.2 ≤ m.npix
    · refine ⟨hR, ?_⟩
      cases hview : (m.view.isSome && (expand R).any fun p => m.abs p == m.sent) with
      | true =>
        rw [expand_view hfe hR hview] at h
        split at h
        · cases h
        · split at h <;> cases h
      | false =>
        refine ⟨rfl, ?_⟩
        by_cases he : expand R = []
        · rw [expand_empty hfe hR he] at h
          cases h
          rw [expandSt_of_empty m op val he]
        · rw [expand_regular hfe hR he hview] at h
          exact rangesOutcome_ok h
    · have hbad : ∃ ab ∈ R, ab.2 > m.npix := by
        apply Classical.byContradiction
        intro hc
        apply hR
        intro ab hab
        have : ¬ (ab.2 > m.npix) := fun hx => hc ⟨ab, hab, hx⟩
        omega
      obtain ⟨e, _, he⟩ := expand_beyond hfe hbad
      rw [he] at h
      split at h
      · cases h
      · split at h <;> cases h

/-! ### when the slice path allocates nothing extra -/

/-- rows that hold a pixel and do not end on a block edge (other than the end of the sphere):
    every coverage pixel the slice path allocates holds a pixel of a row -/
theorem touched_of_offedge {V : Type} (c : Cfg) (s : State V) (R : List (Nat × Nat))
    (hR : ∀ ab ∈ R, ab.1 < ab.2 ∧ ab.2 ≤ c.npix ∧ (ab.2 % c.nfine ≠ 0 ∨ ab.2 = c.npix))
    (k : Nat) (hk : k ∈ rangeNewCov c s R) : touchedCov c R k = true := by
  obtain ⟨hkn, _, ab, hab, h1, h2⟩ := (mem_rangeNewCov c s R k).1 hk
  obtain ⟨hlt, hle, hedge⟩ := hR ab hab
  have hlo := covRange_lo c ab
  have hhi := covRange_hi c ab hle (by omega)
  have hn := c.nfine_pos
  generalize (covRange c ab).1 = ka at *
  generalize (covRange c ab).2 = kb at *
  have e1 : ka * c.nfine ≤ k * c.nfine := Nat.mul_le_mul_right _ h1
  have e2 : k * c.nfine ≤ kb * c.nfine := Nat.mul_le_mul_right _ h2
  have e3 : kb * c.nfine < ab.2 := by
    rcases hedge with he | he
    · have : kb * c.nfine ≠ ab.2 := by
        intro hx
        rw [← hx, Nat.mul_mod_left] at he
        exact he rfl
      omega
    · rw [he]
      exact Nat.mul_lt_mul_of_pos_right hhi.1 hn
  have e4 : (ka + 1) * c.nfine ≤ (k + 1) * c.nfine := Nat.mul_le_mul_right _ (by omega)
  have e5 : (k + 1) * c.nfine = k * c.nfine + c.nfine := Nat.succ_mul _ _
  unfold touchedCov
  rw [List.any_eq_true]
  by_cases hq : k * c.nfine ≤ ab.1
  · refine ⟨ab.1, (expand_mem' R _).2 ⟨ab, hab, Nat.le_refl _, hlt⟩, ?_⟩
    rw [beq_iff_eq]
    exact shift_eq_of_block c hq (by omega)
  · refine ⟨k * c.nfine, (expand_mem' R _).2 ⟨ab, hab, by omega, by omega⟩, ?_⟩
    rw [beq_iff_eq]
    exact shift_eq_of_block c (Nat.le_refl _) (by omega)


/-! ### the driver: a failed `upd` / `updr` stores nothing -/

open WFApi

/-- a map object up to its `n_valid` cache -/
def forgetCache (m : MapObj) : MapObj := { m with cache := none }

/-- `World.get?` over an arbitrary raw lookup -/
def getVia (raw : String → Option MapObj) (n : String) : Option MapObj :=
  match raw n with
  | none => none
  | some m =>
    match m.view with
    | none => some m
    | some (pn, i) =>
      match raw pn with
      | none => none
      | some p =>
        if m.sent != recField i (p.kind.blank p.sent) then none else
        match materializeView p pn i m.sent m.cache with
        | .ok v => if v.kind == m.kind && m.kind != .plain .bool then some v else none
        | .error _ => none

theorem get?_eq_getVia (w : World) (n : String) : w.get? n = getVia w.raw? n := rfl

/-- entries that `World.get?` cannot tell apart except by the cache -/
def EntRel (a b : MapObj) : Prop :=
  a.view = b.view ∧ a.sent = b.sent ∧ a.kind = b.kind ∧
  (b.view = none → a.covord = b.covord ∧ a.spord = b.spord ∧ a.st = b.st)

theorem entRel_refl (a : MapObj) : EntRel a a := ⟨rfl, rfl, rfl, fun _ => ⟨rfl, rfl, rfl⟩⟩

theorem materializeView_parent (p : MapObj) (x : Option Nat) (y : Option (String × Nat))
    (pn : String) (i : Nat) (s : Val) (c : Option Nat) :
    materializeView { p with cache := x, view := y } pn i s c = materializeView p pn i s c := rfl

theorem materializeView_cache (p : MapObj) (pn : String) (i : Nat) (s : Val) (c : Option Nat) :
    materializeView p pn i s c
      = (materializeView p pn i s none).map fun v => { v with cache := c } := by
  unfold materializeView
  simp only [bind, Except.bind, pure, Except.pure]
  cases singleSentinel p i none <;> rfl

theorem materializeView_not_recd {p : MapObj} (h : p.kind.isRecd = false) (pn : String) (i : Nat)
    (s : Val) (c : Option Nat) : ∃ e, materializeView p pn i s c = .error e := by
  cases hm : materializeView p pn i s c with
  | error e => exact ⟨e, rfl⟩
  | ok v => rw [materializeView_parent_recd hm] at h; cases h

/-- lookups over two raw tables whose entries are pairwise `EntRel`-related agree up to the
    cache (descriptors never have a record kind: `World.Good`) -/
theorem getVia_congr {raw raw' : String → Option MapObj}
    (hrel : ∀ x, (raw' x = none ∧ raw x = none) ∨
      ∃ a b, raw' x = some a ∧ raw x = some b ∧ EntRel a b)
    (hdesc : ∀ x p, raw x = some p → p.view ≠ none → p.kind.isRecd = false) (x : String) :
    (getVia raw' x).map forgetCache = (getVia raw x).map forgetCache := by
  unfold getVia
  rcases hrel x with ⟨h1, h2⟩ | ⟨a, b, h1, h2, hv, hs, hk, hrest⟩
  · rw [h1, h2]
  · rw [h1, h2]
    simp only
    cases hbv : b.view with
    | none =>
      rw [hbv] at hv
      rw [hv]
      simp only [Option.map_some]
      obtain ⟨c1, c2, c3⟩ := hrest hbv
      congr 1
      obtain ⟨co, so, k, se, st, ca, vi⟩ := a
      obtain ⟨co', so', k', se', st', ca', vi'⟩ := b
      simp only at c1 c2 c3 hs hk hv hbv
      subst c1 c2 c3 hs hk hv hbv
      rfl
    | some pi =>
      obtain ⟨pn, i⟩ := pi
      rw [hbv] at hv
      rw [hv]
      simp only
      rcases hrel pn with ⟨g1, g2⟩ | ⟨p', p, g1, g2, gv, gs, gk, grest⟩
      · rw [g1, g2]
      · rw [g1, g2]
        simp only
        rw [hs, gk, gs]
        split
        · rfl
        · cases hpv : p.view with
          | some y =>
            have hnr := hdesc pn p g2 (by rw [hpv]; exact fun h => nomatch h)
            have hnr' : p'.kind.isRecd = false := by rw [gk]; exact hnr
            obtain ⟨e1, he1⟩ := materializeView_not_recd hnr' pn i b.sent a.cache
            obtain ⟨e2, he2⟩ := materializeView_not_recd hnr pn i b.sent b.cache
            rw [he1, he2]
          | none =>
            obtain ⟨c1, c2, c3⟩ := grest hpv
            have hpp : materializeView p' pn i b.sent none = materializeView p pn i b.sent none := by
              obtain ⟨co, so, k, se, st, ca, vi⟩ := p
              obtain ⟨co', so', k', se', st', ca', vi'⟩ := p'
              simp only at c1 c2 c3 gs gk
              subst c1 c2 c3 gs gk
              rfl
            rw [materializeView_cache p' pn i b.sent a.cache,
              materializeView_cache p pn i b.sent b.cache, hpp]
            cases materializeView p pn i b.sent none with
            | error e => rfl
            | ok v =>
              simp only [Except.map]
              rw [hk]
              split <;> rfl

theorem set_getD_self {α : Type} (l : List α) (i : Nat) (d : α) : l.set i (l.getD i d) = l := by
  induction l generalizing i with
  | nil => rfl
  | cons a l ih =>
    cases i with
    | zero => rfl
    | succ i => simp only [List.set_cons_succ, List.getD_cons_succ, ih]

/-- writing a view's unchanged column back leaves the parent's storage as it was -/
theorem writeBackView_same {p v : MapObj} (i : Nat) (h : v.st = mapCells p.st (recField i)) :
    (writeBackView p i v).st = p.st := by
  unfold writeBackView
  simp only [h, mapCells]
  congr 1
  apply Array.ext
  · simp
  · intro j h1 h2
    have h2' : j < p.st.sp.size := h2
    simp only [Array.getElem_mapIdx]
    have : rd (Array.map (recField i) p.st.sp) j (Val.num 0 0) = recField i p.st.sp[j] := by
      rw [rd_eq_getElem _ _ _ (by simpa using h2')]
      simp
    rw [this, recSetField_recField]

def rawL (l : List (String × MapObj)) (x : String) : Option MapObj :=
  (l.find? (·.1 == x)).map (·.2)

theorem raw?_eq (w : World) (x : String) : w.raw? x = rawL w.pool x := rfl

theorem rawL_cons_self (n : String) (m : MapObj) (l : List (String × MapObj)) :
    rawL ((n, m) :: l) n = some m := by
  simp [rawL]

theorem rawL_cons_ne {n x : String} (h : n ≠ x) (m : MapObj) (l : List (String × MapObj)) :
    rawL ((n, m) :: l) x = rawL l x := by
  simp [rawL, h]

theorem rawL_filter {q : String → Bool} {x : String} (hq : q x = true)
    (l : List (String × MapObj)) : rawL (l.filter fun e => q e.1) x = rawL l x := by
  induction l with
  | nil => rfl
  | cons e l ih =>
    by_cases he : q e.1 = true
    · rw [List.filter_cons_of_pos (p := fun e : String × MapObj => q e.1) (a := e) (l := l) he]
      unfold rawL at ih ⊢
      rw [List.find?_cons, List.find?_cons]
      split
      · rfl
      · exact ih
    · rw [List.filter_cons_of_neg (p := fun e : String × MapObj => q e.1) (a := e) (l := l) he, ih]
      unfold rawL
      rw [List.find?_cons]
      have : (e.1 == x) = false := by
        rw [beq_eq_false_iff_ne]
        intro hx
        rw [hx] at he
        exact he hq
      rw [this]

theorem rel_of_eq {raw raw' : String → Option MapObj} {y : String} (h : raw' y = raw y) :
    (raw' y = none ∧ raw y = none) ∨ ∃ a b, raw' y = some a ∧ raw y = some b ∧ EntRel a b := by
  cases hr : raw y with
  | none => exact Or.inl ⟨by rw [h, hr], rfl⟩
  | some b => exact Or.inr ⟨b, b, by rw [h, hr], rfl, entRel_refl b⟩

/-- **storing back the looked-up map with only its cache reset changes no lookup**, up to the
    cache: what `upd` / `updr` do when the library raises -/
theorem get?_put_cache {w : World} (hw : w.Good) {n : String} {v : MapObj}
    (hget : w.get? n = some v) (x : String) :
    ((w.put n { v with cache := none }).get? x).map forgetCache
      = (w.get? x).map forgetCache := by
  rw [get?_eq_getVia, get?_eq_getVia]
  apply getVia_congr
  · intro y
    rcases World.get?_cases hget with ⟨hr, hv⟩ | ⟨d, pn, i, p, hd, hdv, hp, hs, hmat, hk, _⟩
    · rw [World.put_eq_bind (show ({ v with cache := none } : MapObj).view = none from hv)]
      unfold World.bind
      simp only [raw?_eq]
      by_cases hy : n = y
      · subst hy
        rw [rawL_cons_self]
        rw [raw?_eq] at hr
        exact Or.inr ⟨_, v, rfl, hr, hv.symm, rfl, rfl, fun _ => ⟨rfl, rfl, rfl⟩⟩
      · apply rel_of_eq (raw := rawL w.pool)
        rw [rawL_cons_ne hy]
        exact rawL_filter (q := fun s => s != n) (by simpa using Ne.symm hy) w.pool
    · obtain ⟨dt, s, _, g1, g2, g3, g4, g5, _, g7⟩ := materializeView_ok hmat
      have hrec := materializeView_parent_recd hmat
      have hnpn : n ≠ pn := by
        intro he
        subst he
        rw [hd] at hp
        cases hp
        rw [← hk, g3] at hrec
        cases hrec
      have hdisc : (w.raw? n).bind (·.view) = some (pn, i) := by rw [hd]; exact hdv
      unfold World.put
      split
      · rename_i pn' i' z q1 q2
        rw [hdisc] at q1
        cases q1
        rw [hp]
        simp only [raw?_eq]
        rw [raw?_eq] at hd hp
        by_cases hy : n = y
        · subst hy
          rw [rawL_cons_self]
          exact Or.inr ⟨_, d, rfl, hd, g7.trans hdv.symm, g4, hk,
            fun h0 => by rw [hdv] at h0; cases h0⟩
        · rw [rawL_cons_ne hy]
          by_cases hy2 : pn = y
          · subst hy2
            rw [rawL_cons_self]
            refine Or.inr ⟨_, p, rfl, hp, rfl, rfl, rfl, fun _ => ⟨rfl, rfl, ?_⟩⟩
            exact writeBackView_same i g5
          · apply rel_of_eq (raw := rawL w.pool)
            rw [rawL_cons_ne hy2]
            exact rawL_filter (q := fun s => s != n && s != pn)
              (by simp [Ne.symm hy, Ne.symm hy2]) w.pool
      · rename_i hno
        exact absurd (show ({ v with cache := none } : MapObj).view = some (pn, i) from g7)
          (fun h => hno pn i (pn, i) hdisc h)
  · intro y p hy hv
    obtain ⟨e, he, _, rfl⟩ := World.raw?_mem hy
    exact hw.2.1 e he hv

theorem withMap_elim {w : World} {a : Args} {k : MapObj → World × String}
    {P : World × String → Prop} (hbad : ∀ s, P (w, s))
    (hk : ∀ n m, a.pos.headD "" = n → w.get? n = some m → P (k m)) : P (withMap w a k) := by
  unfold withMap
  split
  · rename_i n rest hpos
    split
    · rename_i m hm
      exact hk n m (by rw [hpos]; rfl) hm
    · exact hbad _
  · exact hbad _

/-- the outcome "every lookup answers as before, up to the cache" -/
def SameMaps (w' w : World) : Prop :=
  ∀ x, (w'.get? x).map forgetCache = (w.get? x).map forgetCache

/-- **`upd` that does not answer `ok` stores nothing**: every map of the world (views
    included) reads as before; only the `n_valid` cache of the addressed map is reset -/
theorem opUpd_not_ok {w : World} (hw : w.Good) (a : Args) (hne : (opUpd w a).2 ≠ "ok") :
    SameMaps (opUpd w a).1 w := by
  revert hne
  unfold opUpd
  refine withMap_elim (P := fun r => r.2 ≠ "ok" → SameMaps r.1 w) (fun s _ x => rfl)
    fun n m hn hget => ?_
  simp only [hn]
  repeat' (first | exact fun _ _ => rfl | split | simp only [])
  all_goals first
    | exact fun _ x => get?_put_cache hw hget x
    | exact fun h => absurd rfl h

/-- the same for `updr` (either path) -/
theorem opUpdr_not_ok {w : World} (hw : w.Good) (a : Args) (hne : (opUpdr w a).2 ≠ "ok") :
    SameMaps (opUpdr w a).1 w := by
  revert hne
  unfold opUpdr
  refine withMap_elim (P := fun r => r.2 ≠ "ok" → SameMaps r.1 w) (fun s _ x => rfl)
    fun n m hn hget => ?_
  simp only [hn]
  repeat' (first | exact fun _ _ => rfl | split | simp only [])
  all_goals first
    | exact fun _ x => get?_put_cache hw hget x
    | exact fun h => absurd rfl h


end ApiRanges
end HS
