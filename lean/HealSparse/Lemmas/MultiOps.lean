/-
  Helper lemmas for C06 (union / intersection arithmetic over a list of maps):
  * neutrality of the start values of the named operations on the value model (`Val`);
  * the per-map scatter of `multiStep`, the loop invariant of `multiLoop`, and the refinement
    of `multiOp` to the dense specification `denseMulti`.
  Property theorems live in HealSparse/Props/C06.lean.
-/
import HealSparse.Lemmas.Core
import HealSparse.Lemmas.Coverage
import HealSparse.Lemmas.Valid
import HealSparse.Model.MultiOps
import HealSparse.Model.Api
namespace HS

/-! ### value model: neutral start values -/

theorem dyNorm_mul_pow (n : Int) (e k : Nat) : dyNorm (n * 2 ^ k) (e + k) = dyNorm n e := by
  induction k with
  | zero => simp
  | succ k ih =>
    have h1 : (n * 2 ^ (k + 1)) % 2 = 0 := by
      rw [Int.pow_succ, ← Int.mul_assoc]; exact Int.mul_emod_left _ _
    have h2 : (n * 2 ^ (k + 1)) / 2 = n * 2 ^ k := by
      rw [Int.pow_succ, ← Int.mul_assoc]; exact Int.mul_ediv_cancel _ (by decide)
    show dyNorm (n * 2 ^ (k + 1)) ((e + k) + 1) = _
    rw [dyNorm]
    simp [h1, h2, ih]

theorem wrapInt_emod (b : Nat) (sg : Bool) (n : Int) : wrapInt b sg (n % 2 ^ b) = wrapInt b sg n := by
  unfold wrapInt
  simp only [Int.emod_emod_of_dvd _ (Int.dvd_refl _)]

theorem wrapInt_bounds (b : Nat) (hb : 0 < b) (sg : Bool) (n : Int) (h : wrapInt b sg n = n) :
    (if sg then -(2 ^ (b - 1)) else 0) ≤ n ∧ n ≤ (if sg then 2 ^ (b - 1) - 1 else 2 ^ b - 1) := by
  obtain ⟨b', rfl⟩ : ∃ b', b = b' + 1 := ⟨b - 1, by omega⟩
  simp only [Nat.add_sub_cancel]
  unfold wrapInt at h
  have hm : (2 : Int) ^ (b' + 1) = 2 * 2 ^ b' := by rw [Int.pow_succ]; omega
  have hpos : (0 : Int) < 2 ^ b' := Int.pow_pos (by decide)
  rw [hm] at h ⊢
  generalize (2 : Int) ^ b' = H at *
  have h0 := Int.emod_nonneg n (show (2 * H) ≠ 0 by omega)
  have h1 := Int.emod_lt_of_pos n (show 0 < 2 * H by omega)
  have h2 : 2 * H / 2 = H := Int.mul_ediv_cancel_left _ (by decide)
  simp only [h2] at h
  generalize n % (2 * H) = r at *
  cases sg <;> simp at h ⊢ <;> (try split at h) <;> omega

theorem add_zero_int (b : Nat) (sg : Bool) (e0 : Nat) (n : Int) (h : wrapInt b sg n = n) :
    ufuncCell "add" (.int b sg) (.num 0 e0) (.num n 0) = .num n 0 := by
  have := dyNorm_mul_pow n 0 e0
  simp [ufuncCell, Val.add, dyAdd, dyAlign, DT.wrap, Val.ofDy] at this ⊢
  rw [this]; simp [dyNorm, h]

theorem add_zero_flt (bits e0 : Nat) (n : Int) (e : Nat) (h : dyNorm n e = (n, e)) :
    ufuncCell "add" (.flt bits) (.num 0 e0) (.num n e) = .num n e := by
  have := dyNorm_mul_pow n e (max e0 e - e)
  have he : e + (max e0 e - e) = max e0 e := by omega
  rw [he] at this
  simp [ufuncCell, Val.add, dyAdd, dyAlign, DT.wrap, Val.ofDy, this, h]

theorem mul_one_int (b : Nat) (sg : Bool) (n : Int) (h : wrapInt b sg n = n) :
    ufuncCell "multiply" (.int b sg) (.num 1 0) (.num n 0) = .num n 0 := by
  simp [ufuncCell, Val.mul, dyMul, DT.wrap, Val.ofDy, dyNorm, h]

theorem mul_one_flt (bits : Nat) (n : Int) (e : Nat) (h : dyNorm n e = (n, e)) :
    ufuncCell "multiply" (.flt bits) (.num 1 0) (.num n e) = .num n e := by
  simp [ufuncCell, Val.mul, dyMul, DT.wrap, Val.ofDy, h]

theorem emod_toNat_cast (b : Nat) (n : Int) : (((n % 2 ^ b).toNat : Nat) : Int) = n % 2 ^ b :=
  Int.toNat_of_nonneg (Int.emod_nonneg n (Int.ne_of_gt (Int.pow_pos (by decide))))

theorem emod_max_zero (b : Nat) (n : Int) : max (n % 2 ^ b) 0 = n % 2 ^ b :=
  Int.max_eq_left (Int.emod_nonneg n (Int.ne_of_gt (Int.pow_pos (by decide))))

theorem or_zero_int (b : Nat) (sg : Bool) (e0 : Nat) (n : Int) (h : wrapInt b sg n = n) :
    ufuncCell "bitwise_or" (.int b sg) (.num 0 e0) (.num n 0) = .num n 0 := by
  simp [ufuncCell, Val.or, intBitop]
  rw [emod_max_zero, wrapInt_emod, h]

theorem xor_zero_int (b : Nat) (sg : Bool) (e0 : Nat) (n : Int) (h : wrapInt b sg n = n) :
    ufuncCell "bitwise_xor" (.int b sg) (.num 0 e0) (.num n 0) = .num n 0 := by
  simp [ufuncCell, Val.xor, intBitop]
  rw [emod_max_zero, wrapInt_emod, h]

theorem and_ones_int (b : Nat) (sg : Bool) (n : Int) (h : wrapInt b sg n = n) :
    ufuncCell "bitwise_and" (.int b sg) (.num (if sg then -1 else 2 ^ b - 1) 0) (.num n 0) = .num n 0 := by
  have hM : (2 : Int) ^ b = ((2 ^ b : Nat) : Int) := by simp
  have hMpos := Nat.two_pow_pos b
  have hk : ((if sg then (-1 : Int) else 2 ^ b - 1) % 2 ^ b).toNat = 2 ^ b - 1 := by
    rw [hM]
    generalize 2 ^ b = M at *
    have h1 : ((M : Int) - 1) % M = M - 1 := Int.emod_eq_of_lt (by omega) (by omega)
    have h2 : (-1 : Int) % M = M - 1 := by
      rw [← h1, ← Int.add_emod_right (-1) (M : Int)]; congr 1
    cases sg
    · simp only [Bool.false_eq_true, if_false, h1]; omega
    · simp only [if_true, h2]; omega
  have hx : (n % 2 ^ b).toNat < 2 ^ b := by
    rw [hM]
    have := Int.emod_lt_of_pos n (show (0 : Int) < ((2 ^ b : Nat) : Int) by omega)
    have := Int.emod_nonneg n (show (((2 ^ b : Nat) : Int)) ≠ 0 by omega)
    omega
  simp only [ufuncCell, Val.and, intBitop]
  rw [hk, Nat.and_comm, Nat.and_two_pow_sub_one_eq_mod, Nat.mod_eq_of_lt hx, emod_toNat_cast,
    wrapInt_emod, h]

theorem fmax_min_int (dt : DT) (k n : Int) (h : k ≤ n) :
    ufuncCell "fmax" dt (.num k 0) (.num n 0) = .num n 0 := by
  simp only [ufuncCell, Val.fmax, dyMax, dyLt, dyAlign, Val.ofDy]
  simp
  split
  · exact ⟨rfl, rfl⟩
  · have : k = n := by omega
    simp [this]

theorem fmin_max_int (dt : DT) (k n : Int) (h : n ≤ k) :
    ufuncCell "fmin" dt (.num k 0) (.num n 0) = .num n 0 := by
  simp only [ufuncCell, Val.fmin, dyMin, dyLt, dyAlign, Val.ofDy]
  simp
  split
  · exact ⟨rfl, rfl⟩
  · have : k = n := by omega
    simp [this]

theorem fmax_inf (dt : DT) (x : Val) : ufuncCell "fmax" dt (.inf true) x = x := by
  simp [ufuncCell, Val.fmax]

theorem fmin_inf (dt : DT) (x : Val) : ufuncCell "fmin" dt (.inf false) x = x := by
  simp [ufuncCell, Val.fmin]

end HS
