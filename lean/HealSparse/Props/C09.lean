/-
  C09 — operations that return new maps never disturb, or stay tied to, their inputs.
  Property theorems only.  Stated over the heap layer (Model/Heap.lean): with the sharing
  pattern the code uses (immutable, possibly shared coverage objects; one buffer per
  non-view map; mutators write only through their own handle), no operation can change what
  another handle denotes.  That the real objects follow this sharing pattern is checked by
  the correspondence (two-phase histories + alias relation), not proved.
-/
import HealSparse.Model.Heap
import HealSparse.Lemmas.Heap
import HealSparse.Lemmas.FrameWorld
namespace HS
namespace C09

variable {V : Type}

/-- `Sep` is an invariant of every step. -/
theorem sep_step (h : Heap V) (hs : h.Sep) (st : HStep V) : (h.step st).Sep :=
  HeapL.sep_step h hs st

/-- **frame (mutator)**: mutating handle `i` leaves every other handle's map unchanged. -/
theorem mutate_frame (h : Heap V) (hs : h.Sep) (i j : Nat) (f : State V → State V)
    (hij : j ≠ i) (hj : j < h.maps.size) : (h.mutate i f).read j = h.read j :=
  HeapL.mutate_frame h hs i j f hij hj

/-- the mutated handle denotes the mutator's result -/
theorem mutate_self (h : Heap V) (hs : h.Sep) (i : Nat) (f : State V → State V)
    (hi : i < h.maps.size) : (h.mutate i f).read i = f (h.read i) :=
  HeapL.mutate_self h hs i f hi

/-- **inputs unchanged**: a map-producing operation leaves every existing handle unchanged … -/
theorem produce_frame (h : Heap V) (hs : h.Sep) (sc : Option Nat) (res : State V) (j : Nat)
    (hj : j < h.maps.size) : (h.produce sc res).read j = h.read j :=
  HeapL.produce_frame h hs sc res j hj

/-- … and the new handle denotes the result (given the caller's guarantee when the coverage
    object is shared). -/
theorem produce_result (h : Heap V) (hs : h.Sep) (sc : Option Nat) (res : State V)
    (hshare : ∀ j, sc = some j → j < h.maps.size → (h.read j).cov = res.cov) :
    (h.produce sc res).read h.maps.size = res ∧ (h.produce sc res).maps.size = h.maps.size + 1 :=
  ⟨HeapL.produce_result h hs sc res hshare, HeapL.produce_maps_size h sc res⟩

/-- **no tie, for every continuation**: after any history of steps, a handle that no step of
    the history targets still denotes the same map — so mutating or growing a result is
    invisible through its sources, and vice versa, however the coverage objects are shared. -/
theorem no_tie (h : Heap V) (hs : h.Sep) (steps : List (HStep V)) (j : Nat) (hj : j < h.maps.size)
    (hnot : ∀ st ∈ steps, st.target ≠ some j) : (h.run steps).read j = h.read j :=
  HeapL.no_tie h hs steps j hj hnot

/-- witness: WITHOUT copy-on-append (a mutator writing the shared coverage object in place)
    the frame property fails — this is what `append_pixels(copy=True)` is for. -/
def mutateNoCopy (h : Heap V) (i : Nat) (f : State V → State V) : Heap V :=
  match h.maps[i]? with
  | none => h
  | some m =>
    let s' := f (h.read i)
    { covs := h.covs.setIfInBounds m.cov s'.cov, bufs := h.bufs.setIfInBounds m.buf s'.sp, maps := h.maps }

example :
    let h : Heap Nat := ⟨#[#[0]], #[#[1], #[2]], #[⟨0, 0⟩, ⟨0, 1⟩]⟩   -- two maps sharing one coverage object
    (mutateNoCopy h 0 (fun s => ⟨#[5], s.sp⟩)).read 1 ≠ h.read 1 := by
  intro h e
  have := congrArg State.cov e
  revert this
  decide

/-- non-vacuity: the same heap satisfies `Sep` -/
example : (⟨#[#[0]], #[#[1], #[2]], #[⟨0, 0⟩, ⟨0, 1⟩]⟩ : Heap Nat).Sep := by
  refine ⟨?_, ?_⟩
  · intro i m hi
    rcases i with _ | _ | i <;> simp at hi <;> subst hi <;> decide
  · intro i j mi mj hi hj hij
    rcases i with _ | _ | i <;> rcases j with _ | _ | j <;> simp at hi hj hij <;>
      subst hi <;> subst hj <;> decide

/-! ### C09 at the world level: the frame of every protocol line, and no tie

The theorems above are about the abstract heap.  Here the same is proved of the executable
driver itself (Lemmas/FrameWorld.lean).  Every parsed line has a frame class (`classOf`,
`lineClass`, syntactic) and obeys it (`frame_opXxx` for each of the 51 operations,
`frame_stepArgs`, `frame_step`).  The driver is value-semantic, so nothing is shared EXCEPT where
the model shares on purpose: a view descriptor is resolved BY NAME against its parent, so a view
follows its parent entry, an in-place operation on a view writes the column back into the parent,
and rebinding a parent's NAME changes what its views denote (an artefact of the by-name
resolution: in the library the view keeps the old parent object).  These are exactly the side
conditions below; nothing else ties two names.

Which operations touch an ARGUMENT's cache: none.  A producing line changes no entry but its
result name — its arguments are unchanged exactly, `_n_valid` cache included; an in-place line
resets (or, `nvalid`, fills) the cache of the entry it is applied to and, through a view, of the
parent. -/

/-- every protocol line obeys the frame of its (syntactic) class: pool, files, MOCs, HEALPix
    files, metadata -/
theorem line_frame (w : World) (line : String) :
    Frame (lineClass line).1.1 (lineClass line).1.2.1 (lineClass line).1.2.2.1 (lineClass line).1.2.2.2.1
      (lineClass line).1.2.2.2.2 w (lineClass line).2 (step w line).1 :=
  frame_step w line

/-- **(1) producing lines** (`copy`, `astype`, `pack`, `deg`, `upg`, `mop`, `scov`, `fracdet`,
    `read`, `dor`, `mocread`, `fromhp`, `hpxread`; `sop` / `mask` / `bop` / `inv` without `inplace`;
    `geom` with `mode=or` / `getmap…`): whatever name `x` other than the result name `r=` is looked
    up afterwards — the operand, the right-hand map, the mask, the weights, the maps of a multi-op,
    any bystander — answers EXACTLY the same map (values, valid set, coverage, kind, sentinel,
    cache), unless `x` is a view whose parent is named `r` -/
theorem produce_inputs_unchanged (w : World) (line : String) (hc : (lineClass line).1.1 = .produce)
    (x : String) (hx : x ≠ (lineClass line).2.resName)
    (hp : w.parentOf x ≠ some (lineClass line).2.resName) :
    (step w line).1.get? x = w.get? x := by
  have h := (frame_step w line).pool
  rw [hc] at h
  exact HS.produce_frame h hx hp

/-- … and so are the metadata of every other name, and every file, MOC and HEALPix file -/
theorem produce_tables_unchanged (w : World) (line : String) (hc : (lineClass line).1.1 = .produce) :
    (∀ x, x ≠ (lineClass line).2.resName → (step w line).1.metaAt x = w.metaAt x) ∧
    (step w line).1.files = w.files ∧ (step w line).1.mocs = w.mocs ∧ (step w line).1.hpfiles = w.hpfiles := by
  have hf := frame_step w line
  have hcl : ∀ op a, (classOf op a).1 = .produce →
      (classOf op a).2.1 = false ∧ (classOf op a).2.2.1 = false ∧ (classOf op a).2.2.2.1 = false ∧
        ((classOf op a).2.2.2.2 = .same ∨ (classOf op a).2.2.2.2 = .result) := by
    intro op a h
    unfold classOf at h ⊢
    split at h <;> first | (cases h; done) | exact ⟨rfl, rfl, rfl, .inl rfl⟩ | exact ⟨rfl, rfl, rfl, .inr rfl⟩
  have hcl' : (lineClass line).1.2.1 = false ∧ (lineClass line).1.2.2.1 = false ∧
      (lineClass line).1.2.2.2.1 = false ∧
      ((lineClass line).1.2.2.2.2 = .same ∨ (lineClass line).1.2.2.2.2 = .result) := by
    unfold lineClass at hc ⊢
    split at hc
    · cases hc
    · split at hc
      · cases hc
      · rename_i hp
        simp only [hp, Bool.false_eq_true, if_false]
        exact hcl _ _ hc
  have nr : (lineClass line).1.1 ≠ .reset := by rw [hc]; exact fun h => nomatch h
  obtain ⟨h1, h2, h3, h4⟩ := hcl'
  refine ⟨?_, ?_, ?_, ?_⟩
  · intro x hx
    have hm := hf.metas
    unfold World.metaAt
    rcases h4 with h4 | h4 <;> rw [h4] at hm
    · show (tableGet (step w line).1.metas x).getD [] = _
      rw [show (step w line).1.metas = w.metas from hm]
    · rw [tableFrame_get hm hx]
  · have := hf.files.resolve_left nr; rw [h1] at this; exact tableFrame_false this
  · have := hf.mocs.resolve_left nr; rw [h2] at this; exact tableFrame_false this
  · have := hf.hpfiles.resolve_left nr; rw [h3] at this; exact tableFrame_false this

/-- **(2) in-place lines** on `n` (`upd`, `updr`, `set`, `bits`, `nvalid`; `sop` / `mask` / `bop` /
    `inv` with `inplace=1`; `geom` with `mode=ior` / `realize`): a name `x` answers exactly the same
    map afterwards unless it is `n`, the parent of `n` (if `n` is a view), or a view of one of these
    two (a view of the record map `n`; a sibling view) -/
theorem inplace_others_unchanged (w : World) (line : String) (hc : (lineClass line).1.1 = .inplace)
    (x : String) (hx : ¬ w.reach (lineClass line).2.opName x)
    (hp : ∀ pn, w.parentOf x = some pn → ¬ w.reach (lineClass line).2.opName pn) :
    (step w line).1.get? x = w.get? x := by
  have h := (frame_step w line).pool
  rw [hc] at h
  exact HS.inplace_frame h hx hp

/-- … and when `n` is a view of field `i` of `pn`, the parent entry becomes `writeBackView p i m`,
    which differs from `p` in field `i` of the cells only -/
theorem inplace_view_parent (w : World) {n pn : String} {i : Nat} (m : MapObj) {p : MapObj} {v : String × Nat}
    (hv : (w.raw? n).bind (·.view) = some (pn, i)) (hm : m.view = some v) (hp : w.raw? pn = some p)
    (hne : n ≠ pn) :
    (w.put n m).raw? pn = some (writeBackView p i m) ∧
    (writeBackView p i m).kind = p.kind ∧ (writeBackView p i m).sent = p.sent ∧
    (writeBackView p i m).st.cov = p.st.cov ∧ (writeBackView p i m).st.sp.size = p.st.sp.size ∧
    ∀ i', i' ≠ i → ∀ j : Nat,
      (writeBackView p i m).st.sp[j]?.map (recField i') = p.st.sp[j]?.map (recField i') := by
  obtain ⟨_, _, h3, h4, _, h6, h7, h8⟩ := writeBackView_frame p i m
  exact ⟨World.raw?_put_parent w m hv hm hp hne, h3, h4, h6, h7, h8⟩

/-- **(3) static lines** — every query, and the writers of files (`write`, `cat`), MOCs (`moc`),
    HEALPix files (`hpxwrite`, `hpximplicit`) and metadata (`meta`): the pool is untouched, every
    lookup answers the same map -/
theorem static_pool_unchanged (w : World) (line : String) (hc : (lineClass line).1.1 = .static) :
    (step w line).1.pool = w.pool ∧ ∀ x, (step w line).1.get? x = w.get? x := by
  have h := (frame_step w line).pool
  rw [hc] at h
  exact ⟨h, fun x => HS.static_frame (a := (lineClass line).2) h x⟩

/-- … a line that is not a file writer (in particular every file READER: `read`, `dor`, `covread`,
    `fitsraw`) leaves the files as they were; a file writer changes the file named `f=` only -/
theorem files_frame (w : World) (line : String) (hr : (lineClass line).1.1 ≠ .reset) :
    ((lineClass line).1.2.1 = false → (step w line).1.files = w.files) ∧
    ∀ x, x ≠ (lineClass line).2.fileName → tableGet (step w line).1.files x = tableGet w.files x := by
  have h := (frame_step w line).files.resolve_left hr
  exact ⟨fun hf => by rw [hf] at h; exact tableFrame_false h, fun x hx => tableFrame_get h hx⟩

/-- **(4) no tie, for every continuation**: whatever a history does IN PLACE to an owning name `t`
    (`onlyOn t`: in-place lines on `t`, interleaved with any static lines), every name that is
    neither `t` nor a view of `t` answers exactly the same map at the end.
    Excluded lines (`onlyOn t l = false`): producing lines and `cfg` (they rebind a name), `single`,
    `drop`, `reset`, in-place lines on another name — in particular on a view of `t`. -/
theorem no_tie_world {w : World} {t x : String} (ht : (w.raw? t).bind (·.view) = none) (hx : x ≠ t)
    (hp : w.parentOf x ≠ some t) (lines : List String) (h : ∀ l ∈ lines, onlyOn t l = true) :
    (w.run lines).get? x = w.get? x :=
  HS.no_tie ht hx hp lines h

/-- **a result is independent of its argument and the argument of the result**: once a producing
    line has bound `r` (an owning name, `produced_owner`), for an argument `n ≠ r` that is an owning
    name: any later in-place history on `r` is invisible through `n`, and any later in-place
    history on `n` is invisible through `r` — modification or growth of either cannot be seen
    through the other -/
theorem result_independent {w : World} {n r : String} (hn : (w.raw? n).bind (·.view) = none)
    (hr : (w.raw? r).bind (·.view) = none) (hne : n ≠ r) (lines : List String) :
    ((∀ l ∈ lines, onlyOn r l = true) → (w.run lines).get? n = w.get? n) ∧
    ((∀ l ∈ lines, onlyOn n l = true) → (w.run lines).get? r = w.get? r) :=
  HS.result_independent hn hr hne lines

/-- non-vacuity (evaluated, Lemmas/FrameWorld.lean): thirteen two-phase histories — produce with
    `copy`, `astype`, `sop`, `mask` (operand and mask), `deg`, `upg`, `scov`, `bop` (left and right
    operand), `mop`, `read`, `single copy=1`; mutate and GROW the result, re-read the argument;
    mutate and grow the argument, re-read the result -/
example : True := trivial
#guard twoPhase exSetupI "copy m r=c" "c" "m" ["upd c pix=6,150 vals=8,9", "nvalid c"]
  ["upd m pix=7,40 vals=1,2", "sop m op=add k=1 inplace=1"]
#guard twoPhase exSetupI "bop b op=or rhs=b2 r=c" "c" "b2" ["inv c inplace=1"] ["upd b2 pix=9,180 val=T"]

end C09
end HS
