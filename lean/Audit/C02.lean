import HealSparse.Props.C02
#print axioms HS.C02.validPixels_spec
#print axioms HS.C02.nValid_eq
#print axioms HS.C02.coverageCounts_eq
#print axioms HS.C02.vpsc_eq
#print axioms HS.C02.coverageMask_complete
#print axioms HS.C02.fracdet_inv
#print axioms HS.C02.fracdet_eq
#print axioms HS.C02.fracdet_covered
#print axioms HS.C02.fracdet_cov_eq_coverageCounts
#print axioms HS.C02.cache_coherent
#print axioms HS.C02.singleCovpix_spec
#print axioms HS.C02.reachable_cache_fresh
#print axioms HS.C02.reachable_view_cache_empty
#print axioms HS.C02.reachable_get_cache_fresh
#print axioms HS.C02.reachable_nvalid
#print axioms HS.C02.reachable_nvalid'
#print axioms HS.C02.reachable_nvalid_count
