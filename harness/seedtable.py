"""Markdown table of the seeded property-breaking changes and the checks that catch them
(from /verif/seeded/<id>/{meta,result}.json).  Usage: /venv/bin/python harness/seedtable.py"""
import json
import os

VERIF = os.path.dirname(os.path.dirname(os.path.abspath(__file__)))
rows = []
for d in sorted(os.listdir(os.path.join(VERIF, 'seeded'))):
    mp = os.path.join(VERIF, 'seeded', d, 'meta.json')
    rp = os.path.join(VERIF, 'seeded', d, 'result.json')
    if not (os.path.exists(mp) and os.path.exists(rp)):
        continue
    m, r = json.load(open(mp)), json.load(open(rp))
    every = r.get('caught_every_seed_by', [])
    some = [c for c in r.get('caught_by', []) if c not in every]
    tried = sorted(r.get('checks', {}).keys())
    missed = [c for c in tried if c not in r.get('caught_by', [])]
    rows.append((d, m.get('property', r.get('breaks_property')), m.get('change', '').replace('|', '\\|'),
                 ', '.join(every) or '—', ', '.join(some) or '—', ', '.join(missed) or '—'))
import sys
lines = []
_print = print
def print(x):  # noqa: E302
    lines.append(x)
print("| id | breaks | change (one site unless noted) | caught on every seed by | on some seeds by | run, silent |")
print("|----|--------|-------------------------------|------------------------|-----------------|-------------|")
for r in rows:
    print("| %s | %s | %s | %s | %s | %s |" % r)

if '--into' in sys.argv:
    path = sys.argv[sys.argv.index('--into') + 1]
    doc = open(path).read()
    a, b = '<!-- seedtable:begin -->', '<!-- seedtable:end -->'
    i, j = doc.index(a) + len(a), doc.index(b)
    open(path, 'w').write(doc[:i] + '\n' + '\n'.join(lines) + '\n' + doc[j:])
else:
    _print('\n'.join(lines))
