/-
  The RECORD / VIEW family on dense arrays (agent D7; continues Lemmas/ApiDenseAll.lean).

  `get_single` (protocol `single`) and `get_single_covpix_map` (`scov`) are not covered by the
  coverage-aware interpreter of Lemmas/ApiDenseAll.lean: its relation `RelC` allows no record-field
  VIEW in the pool.  This file adds

    * the dense world WITH VIEWS `DenseWorldV`: names ↦ an owning coverage-aware dense map
      (`EntV.own`) or a dense view descriptor (`EntV.view`: parent name, field index, recorded
      field dtype and sentinel — exactly what the model's descriptor keeps); the resolution
      `DenseWorldV.get?` mirrors `World.get?` (field `i` of the parent's cells over the parent's
      coverage; refused when the parent's name now bears a map whose blank field is not the
      recorded sentinel or whose field dtype differs);
    * the relation `RelV` (owning entries `CorrC`, descriptors equal field by field) and its
      primitives (`relV_get`, `RelV.bind`, `RelV.register`, `RelV.put_view`);
    * the dense step `dstepArgsV`: `scov`, `single` (copy and view forms, with the sentinel rules
      and refusals), the plain lines `cfg` / `upd` / `updr` / `set` / `get` / `vals` and the
      observers `valid` / `nvalid` / `covmap` on owning AND view targets (a write through a view
      changes field `i` of the parent at already-valid pixels, is refused with `RuntimeError` when
      it would create a valid pixel), `copy`; every other line of the five families falls back to
      `ApiDenseAll.dstepArgsAll` on the owning entries WHILE NO DESCRIPTOR IS IN THE POOL
      (`settledV`);
    * `rel_stepArgsV` / `rel_stepV` / `rel_runLinesV` / `answers_eq_danswersV`.
-/
import HealSparse.Lemmas.ApiDenseAll
import HealSparse.Lemmas.ApiRecord
import HealSparse.Lemmas.FrameWorld
namespace HS
namespace ApiDenseViews

open ApiDense ApiDenseCov

/-! ### `get_single_covpix_map` on a dense map -/

/-- the values of `get_single_covpix_map(k)`: the map inside coverage pixel `k`, blank elsewhere -/
def scovF (d : DenseMapC) (k : Nat) : Nat → Val := fun p =>
  if p >>> d.c.shift = k then d.toDense.f p else d.toDense.blank

/-- `get_single_covpix_map(k)`: same header; coverage pixel `k` alone stays in the mask (if it was
    there) -/
def dScov (d : DenseMapC) (k : Nat) : DenseMapC :=
  ⟨{ d.toDense with f := scovF d k }, fun j => decide (j = k) && d.cov k⟩

theorem scov_corrC {m : MapObj} {d : DenseMapC} (hc : CorrC m d) {k : Nat} (hk : k < m.c.ncov) :
    CorrC { m with st := singleCovpixMap m.c m.vc m.st k, cache := none } (dScov d k) := by
  obtain ⟨_, habs, hcov⟩ := singleCovpixMap_spec' m.c m.vc m.st k hc.corr.wf.2 hk
  refine ⟨⟨WF.singleCovpix hc.corr.wf hk, hc.corr.view, hc.corr.covord, hc.corr.spord,
    hc.corr.kind, hc.corr.sent, fun p hp => ?_⟩, fun j hj => ?_⟩
  · show abs m.c m.vc (singleCovpixMap m.c m.vc m.st k) p = scovF d k p
    rw [habs p hp]
    unfold scovF
    rw [← hc.c_eq, ← hc.corr.hdr_facts.2.2.2.2.2.2]
    split
    · exact hc.corr.abs p hp
    · rfl
  · show covered m.c (singleCovpixMap m.c m.vc m.st k) j = _
    rw [hcov j hj, hc.cov k hk]
    rfl

/-! ### `get_single(copy=True)` on a dense map -/

/-- the values of the copy: field `i` where the record is valid, the new sentinel elsewhere -/
def copyF (d : DenseMap) (i : Nat) (s : Val) : Nat → Val := fun p =>
  if d.kind.valid d.sent (d.f p) then recField i (d.f p) else s

/-- `get_single(key, sentinel, copy=True)`: the header-only `singleSentinel` decides acceptance,
    the field type and the sentinel; the mask is kept -/
def dSingleCopy (d : DenseMapC) (i : Nat) (sentinel : Option Val) : Except Err DenseMapC :=
  match singleSentinel d.toDense.hdr i sentinel with
  | .ok ds =>
    .ok ⟨⟨d.toDense.covord, d.toDense.spord, .plain ds.1, ds.2, copyF d.toDense i ds.2⟩, d.cov⟩
  | .error e => .error e

theorem singleSentinel_hdr {m : MapObj} {d : DenseMap} (h3 : m.kind = d.kind) (h4 : m.sent = d.sent)
    (i : Nat) (s : Option Val) : singleSentinel m i s = singleSentinel d.hdr i s := by
  obtain ⟨co, so, k, se, st, ca, vi⟩ := m
  obtain ⟨co', so', k', se', f⟩ := d
  simp only at h3 h4
  subst h3 h4
  rfl

theorem apiGetSingleCopy_ss (m : MapObj) (i : Nat) (sentinel : Option Val) :
    apiGetSingleCopy m i sentinel =
      match singleSentinel m i sentinel with
      | .ok ds => .ok (ApiRecord.copyOf m i ds.1 ds.2)
      | .error e => .error e := by
  unfold apiGetSingleCopy
  cases singleSentinel m i sentinel with
  | error e => rfl
  | ok ds => obtain ⟨dt, s⟩ := ds; rfl

theorem apiGetSingleCopy_corrC {m : MapObj} {d : DenseMapC} (hc : CorrC m d) (hk : m.KindOk)
    (i : Nat) (sentinel : Option Val) :
    OutRelM (apiGetSingleCopy m i sentinel) (dSingleCopy d i sentinel) := by
  have hA := apiGetSingleCopy_ss m i sentinel
  unfold dSingleCopy
  rw [← singleSentinel_hdr hc.corr.kind hc.corr.sent]
  cases hss : singleSentinel m i sentinel with
  | error e => rw [hss] at hA; rw [hA]; exact rfl
  | ok ds =>
    obtain ⟨dt, s⟩ := ds
    rw [hss] at hA
    simp only [] at hA
    rw [hA]
    obtain ⟨hwf, _, _, _, _, hcv, habs, _, _⟩ := ApiRecord.copy_spec hc.corr.wf hk hA
    refine ⟨⟨hwf, rfl, hc.corr.covord, hc.corr.spord, rfl, rfl, fun p hp => ?_⟩, fun j hj => ?_⟩
    · rw [habs p hp]
      unfold copyF MapObj.validAt MapObj.vc
      rw [hc.corr.abs p hp, hc.corr.kind, hc.corr.sent]
      rfl
    · exact (hcv j).trans (hc.cov j hj)

/-! ### the `single` line as a request -/

def boolField (k : Kind) (i : Nat) : Bool :=
  match k with
  | .recd fs _ => fs[i]? == some DT.bool
  | _ => false

def nonPrimary (k : Kind) (i : Nat) : Bool :=
  match k with
  | .recd _ pr => i != pr
  | _ => false

/-- what a `single` line asks of the looked-up map -/
inductive SReq where
  | bad (s : String)
  | copy (i : Nat) (sent : Option Val)
  | view (i : Nat) (sent : Option Val)

def singleReq (a : Args) (k : Kind) : SReq :=
  match a.nat? "field", optVal a "sentinel" with
  | some i, some sent =>
    if boolField k i then .bad "bad-op:single-of-boolean-field"
    else if a.flag "copy" then .copy i sent else .view i sent
  | _, _ => .bad "bad-op:single"

/-- the view form: field type and sentinel of the view, or the refusal (`TypeError` not a record
    map, `ValueError` field outside the record / override the type does not accept / ANY effective
    re-sentinelling of a non-primary field) — header only -/
def viewSent (m : MapObj) (i : Nat) (sent : Option Val) : Except Err (DT × Val) :=
  match singleSentinel m i sent with
  | .ok ds => if nonPrimary m.kind i && ds.2 != ds.1.defaultSentinel then .error .value else .ok ds
  | .error e => .error e

def runSingle (w : World) (a : Args) (m : MapObj) : SReq → World × String
  | .bad s => (w, s)
  | .copy i sent =>
    match apiGetSingleCopy m i sent with
    | .ok r => (w.bind (a.getD "r" "tmp") r, "ok")
    | .error e => (w, errLine e)
  | .view i sent =>
    match viewSent m i sent with
    | .ok ds => (ApiRecord.register w (a.pos.headD "") (a.getD "r" "tmp") m i ds.1 ds.2, "ok")
    | .error e => (w, errLine e)

theorem opSingle_eq (w : World) (a : Args) :
    opSingle w a = withMap w a fun m => runSingle w a m (singleReq a m.kind) := by
  unfold opSingle
  congr 1
  funext m
  unfold singleReq
  cases a.nat? "field" with
  | none => rfl
  | some i =>
    cases optVal a "sentinel" with
    | none => rfl
    | some sent =>
      simp only []
      show (if boolField m.kind i = true then _ else _) = _
      by_cases hb : boolField m.kind i = true
      · rw [if_pos hb, if_pos hb]; rfl
      · rw [if_neg hb, if_neg hb]
        by_cases hcp : a.flag "copy" = true
        · rw [if_pos hcp, if_pos hcp]; rfl
        · rw [if_neg hcp, if_neg hcp]
          show _ = match viewSent m i sent with
            | .ok ds => (ApiRecord.register w (a.pos.headD "") (a.getD "r" "tmp") m i ds.1 ds.2, "ok")
            | .error e => (w, errLine e)
          unfold viewSent
          cases singleSentinel m i sent with
          | error e => rfl
          | ok ds =>
            obtain ⟨dt, s⟩ := ds
            simp only []
            show (if (nonPrimary m.kind i && s != dt.defaultSentinel) = true then _ else _) = _
            by_cases hn : (nonPrimary m.kind i && s != dt.defaultSentinel) = true
            · rw [if_pos hn, if_pos hn]
            · rw [if_neg hn, if_neg hn]; rfl

theorem viewSent_hdr {m : MapObj} {d : DenseMap} (h3 : m.kind = d.kind) (h4 : m.sent = d.sent)
    (i : Nat) (s : Option Val) : viewSent m i s = viewSent d.hdr i s := by
  unfold viewSent
  rw [singleSentinel_hdr h3 h4, h3]
  rfl

/-! ### dense worlds with views -/

/-- a pool entry of the dense world: an owning coverage-aware dense map, or a view descriptor
    (parent name, field index, recorded field type and sentinel) -/
inductive EntV where
  | own (d : DenseMapC)
  | view (pn : String) (i : Nat) (dt : DT) (s : Val)

abbrev DenseWorldV := List (String × EntV)

def DenseWorldV.raw? (D : DenseWorldV) (n : String) : Option EntV := (D.find? (·.1 == n)).map (·.2)

def DenseWorldV.bind (D : DenseWorldV) (n : String) (e : EntV) : DenseWorldV :=
  (n, e) :: D.filter (·.1 != n)

theorem rawV_bind_self (D : DenseWorldV) (n : String) (e : EntV) : (D.bind n e).raw? n = some e := by
  simp [DenseWorldV.bind, DenseWorldV.raw?]

theorem rawV_bind_ne (D : DenseWorldV) {n x : String} (h : n ≠ x) (e : EntV) :
    (D.bind n e).raw? x = D.raw? x := by
  unfold DenseWorldV.bind DenseWorldV.raw?
  rw [List.find?_cons]
  have h1 : ((n, e).1 == x) = false := by simpa using h
  rw [h1]
  simp only []
  rw [HS.List.find?_filter_ne D x n (Ne.symm h)]

/-- what a view shows: field `i` of the parent's cells, over the parent's coverage -/
def viewF (p : DenseMapC) (i : Nat) (dt : DT) (s : Val) : DenseMapC :=
  ⟨⟨p.toDense.covord, p.toDense.spord, .plain dt, s, fun q => recField i (p.toDense.f q)⟩, p.cov⟩

/-- a descriptor resolved against the owning map `p` that now bears the parent's name: honoured
    only if the recorded sentinel is still the blank field `i` of `p` and `p` is a record map
    whose field `i` has the recorded (non-boolean) type -/
def resolveV (p : DenseMapC) (pn : String) (i : Nat) (dt : DT) (s : Val) :
    Option (DenseMapC × Option (String × Nat)) :=
  if s != recField i p.toDense.blank then none else
  match p.toDense.kind with
  | .recd fs _ =>
    (match fs[i]? with
     | some dt' =>
       if decide (dt' = dt ∧ dt ≠ .bool) then some (viewF p i dt' s, some (pn, i)) else none
     | none => none)
  | _ => none

/-- look a name up: the dense map it shows and — for a view — the (parent, field) it writes to -/
def DenseWorldV.get? (D : DenseWorldV) (n : String) : Option (DenseMapC × Option (String × Nat)) :=
  match D.raw? n with
  | none => none
  | some (.own d) => some (d, none)
  | some (.view pn i dt s) =>
    match D.raw? pn with
    | some (.own p) => resolveV p pn i dt s
    | _ => none

/-! ### the relation -/

/-- a world and a dense world with views agree: the same names; owning entries agree (`CorrC`);
    a descriptor is bound to the dense descriptor with the same parent, field, type and sentinel;
    every descriptor of the pool (shadowed ones included) is known as a descriptor -/
structure RelV (w : World) (D : DenseWorldV) : Prop where
  maps : ∀ x, match w.raw? x, D.raw? x with
    | some m, some (.own d) => CorrC m d
    | some m, some (.view pn i dt s) => m.view = some (pn, i) ∧ m.kind = .plain dt ∧ m.sent = s
    | none, none => True
    | _, _ => False
  descs : ∀ e ∈ w.pool, e.2.view ≠ none → ∃ pn i dt s, D.raw? e.1 = some (.view pn i dt s)

theorem relV_empty : RelV {} [] := ⟨fun _ => trivial, fun _ h => (nomatch h)⟩

/-- the two lookups agree: the resolved map (view flag apart) against the resolved dense map, and
    the view flag itself -/
def GetRel (r : Option MapObj) (r' : Option (DenseMapC × Option (String × Nat))) : Prop :=
  match r, r' with
  | some m, some dv => CorrC { m with view := none } dv.1 ∧ m.view = dv.2
  | none, none => True
  | _, _ => False

theorem corrC_unview {m : MapObj} {d : DenseMapC} (hc : CorrC m d) : CorrC { m with view := none } d :=
  ⟨⟨hc.corr.wf, rfl, hc.corr.covord, hc.corr.spord, hc.corr.kind, hc.corr.sent, hc.corr.abs⟩, hc.cov⟩

open ApiRecord in
/-- a descriptor against an owning parent -/
theorem view_get_corr {w : World} {x pn : String} {i : Nat} {m p : MapObj} {dp : DenseMapC}
    {dt : DT} {s : Val} (hr : w.raw? x = some m) (hv : m.view = some (pn, i))
    (hk : m.kind = .plain dt) (hs : m.sent = s) (hrp : w.raw? pn = some p) (hc : CorrC p dp) :
    GetRel (w.get? x) (resolveV dp pn i dt s) := by
  rw [get?_view hr hv hrp, hs, materializeView_eq]
  unfold resolveV
  have hbl : p.kind.blank p.sent = dp.toDense.blank := hc.corr.hdr_facts.2.2.2.2.2.2
  rw [hbl]
  by_cases h1 : (s != recField i dp.toDense.blank) = true
  · rw [if_pos h1, if_pos h1]; trivial
  · rw [if_neg h1, if_neg h1]
    have hsb : s = viewBlank p i := by
      have : s = recField i dp.toDense.blank := by simpa using h1
      rw [this, ← hbl]; rfl
    rw [hc.corr.kind]
    cases hkd : dp.toDense.kind with
    | recd fs pr =>
      simp only []
      cases hg : fs[i]? with
      | none => trivial
      | some dt' =>
        simp only []
        have hcond : ((viewOf p pn i dt' s m.cache).kind == m.kind && m.kind != .plain .bool)
            = decide (dt' = dt ∧ dt ≠ .bool) := by
          rw [hk]
          show ((Kind.plain dt' == Kind.plain dt) && (Kind.plain dt != Kind.plain .bool)) = _
          by_cases e1 : dt' = dt <;> by_cases e2 : dt = .bool <;> simp [e1, e2]
        rw [hcond]
        by_cases h2 : decide (dt' = dt ∧ dt ≠ .bool) = true
        · rw [if_pos h2, if_pos h2]
          obtain ⟨_, hwf, habs, _, _, _⟩ := view_spec hc.corr.wf pn i dt' s m.cache
          refine ⟨⟨⟨hwf hsb, rfl, hc.corr.covord, hc.corr.spord, rfl, rfl, fun q hq => ?_⟩,
            fun k hk' => hc.cov k hk'⟩, rfl⟩
          exact (habs q hq).trans (congrArg (recField i) (hc.corr.abs q hq))
        · rw [if_neg h2, if_neg h2]; trivial
    | plain _ => trivial
    | packed => trivial
    | wide _ => trivial

/-- **the two resolutions agree** -/
theorem relV_get {w : World} {D : DenseWorldV} (h : RelV w D) (x : String) :
    GetRel (w.get? x) (D.get? x) := by
  have hm := h.maps x
  cases hr : w.raw? x with
  | none =>
    have hg : w.get? x = none := by unfold World.get?; rw [hr]
    rw [hr] at hm
    rw [hg]
    unfold DenseWorldV.get?
    cases hd : D.raw? x with
    | none => trivial
    | some e => rw [hd] at hm; cases e <;> exact hm.elim
  | some m =>
    rw [hr] at hm
    unfold DenseWorldV.get?
    cases hd : D.raw? x with
    | none => rw [hd] at hm; exact hm.elim
    | some e =>
      rw [hd] at hm
      cases e with
      | own d =>
        rw [ApiRecord.get?_of_owning hr hm.corr.view]
        exact ⟨corrC_unview hm, hm.corr.view⟩
      | view pn i dt s =>
        obtain ⟨hv, hk, hs⟩ := hm
        simp only []
        have hp := h.maps pn
        cases hrp : w.raw? pn with
        | none =>
          have hg : w.get? x = none := by unfold World.get?; rw [hr]; simp only [hv, hrp]
          rw [hrp] at hp
          rw [hg]
          cases hdp : D.raw? pn with
          | none => trivial
          | some e => rw [hdp] at hp; cases e <;> exact hp.elim
        | some p =>
          rw [hrp] at hp
          cases hdp : D.raw? pn with
          | none => rw [hdp] at hp; exact hp.elim
          | some e =>
            rw [hdp] at hp
            cases e with
            | own dp => exact view_get_corr hr hv hk hs hrp hp
            | view pn' i' dt' s' =>
              -- the parent's name bears a descriptor: never resolved
              have hg : w.get? x = none := by
                rw [ApiRecord.get?_view hr hv hrp, ApiRecord.materializeView_eq, hp.2.1]
                split <;> rfl
              rw [hg]
              trivial

/-! ### storing -/

theorem RelV.bind {w : World} {D : DenseWorldV} (h : RelV w D) (n : String) {m : MapObj}
    {d : DenseMapC} (hc : CorrC m d) : RelV (w.bind n m) (D.bind n (.own d)) := by
  refine ⟨fun x => ?_, fun e he hev => ?_⟩
  · by_cases hx : x = n
    · subst hx
      rw [World.raw?_bind_self, rawV_bind_self]
      exact corrC_unview hc
    · rw [World.raw?_bind_ne w n m hx, rawV_bind_ne D (Ne.symm hx)]
      exact h.maps x
  · rcases List.mem_cons.1 he with rfl | he
    · exact absurd rfl hev
    · have hne : e.1 ≠ n := by simpa using (List.mem_filter.1 he).2
      rw [rawV_bind_ne D (Ne.symm hne)]
      exact h.descs e (List.mem_filter.1 he).1 hev

/-- storing, on the sparse side only, a map that agrees with what the name is bound to -/
theorem RelV.bind_left {w : World} {D : DenseWorldV} (h : RelV w D) (n : String) {m : MapObj}
    {d : DenseMapC} (hd : D.raw? n = some (.own d)) (hc : CorrC m d) : RelV (w.bind n m) D := by
  refine ⟨fun x => ?_, fun e he hev => ?_⟩
  · by_cases hx : x = n
    · subst hx
      rw [World.raw?_bind_self, hd]
      exact corrC_unview hc
    · rw [World.raw?_bind_ne w n m hx]
      exact h.maps x
  · rcases List.mem_cons.1 he with rfl | he
    · exact absurd rfl hev
    · exact h.descs e (List.mem_filter.1 he).1 hev

/-- registering a view descriptor on both sides -/
theorem RelV.register {w : World} {D : DenseWorldV} (h : RelV w D) (n r : String) (m : MapObj)
    (i : Nat) (dt : DT) (s : Val) :
    RelV (ApiRecord.register w n r m i dt s) (D.bind r (.view n i dt s)) := by
  refine ⟨fun x => ?_, fun e he hev => ?_⟩
  · by_cases hx : r = x
    · subst hx
      rw [ApiRecord.raw?_register_self, rawV_bind_self]
      exact ⟨rfl, rfl, rfl⟩
    · rw [ApiRecord.raw?_register_ne w n r m i dt s hx, rawV_bind_ne D hx]
      exact h.maps x
  · rcases List.mem_cons.1 he with rfl | he
    · exact ⟨n, i, dt, s, rawV_bind_self D r _⟩
    · have hne : e.1 ≠ r := by simpa using (List.mem_filter.1 he).2
      rw [rawV_bind_ne D (Ne.symm hne)]
      exact h.descs e (List.mem_filter.1 he).1 hev

end ApiDenseViews
end HS
