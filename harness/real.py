"""Executes protocol lines on the real healsparse (in-process, /repo working tree)."""
import os
import sys
import warnings
import numpy as np
import hpgeom as hpg

REPO = os.environ.get('HS_REPO', '/repo')
if REPO not in sys.path:
    sys.path.insert(0, REPO)

import healsparse  # noqa: E402
import healsparse.healSparseMap as hsm  # noqa: E402
from healsparse import HealSparseMap  # noqa: E402
from healsparse.packedBoolArray import _PackedBoolArray  # noqa: E402

import enc  # noqa: E402

class HarnessOracle(AssertionError):
    """a property-implied fact about the implementation alone, decided by the harness with exact arithmetic"""


def RO(a):
    """an input array handed to the library READ-ONLY: a call that modifies its caller's array (pixel numbers
    shifted in place, weights zeroed in place, ...) raises instead of silently corrupting the caller's data —
    the same array object may be used again by the caller (seeded change C15f)"""
    a = np.asarray(a)
    a.setflags(write=False)
    return a


def API(encfn, arr):
    """encode an array RETURNED by a public call, then scribble over it: whatever the library hands out is the
    caller's to modify — if it is secretly a view of the map's own storage (or of a cached array) the map is
    damaged and the following observations differ from the model (seeded change C09g)"""
    s = encfn(arr)
    try:
        a = np.asarray(arr)
        if isinstance(arr, np.ndarray) and a.flags.writeable and a.size:
            if a.dtype.fields is not None:
                a[...] = np.zeros(1, dtype=a.dtype)[0]
            elif a.dtype.kind == 'b':
                a[...] = ~a
            else:
                a[...] = 77
    except Exception:
        pass
    return s


VARIANTS_APPLIED = [0]      # legacy / foreign file variants actually applied (evidence)
from enc import DTYPES, enc_cells, enc_nats, enc_ints, enc_bits, split_list, dec_val, dec_dy, parse_args  # noqa: E402

assert os.path.realpath(healsparse.__file__).startswith(os.path.realpath(REPO)), healsparse.__file__

warnings.simplefilter('ignore')


class BadOp(Exception):
    pass


class NoMap(Exception):
    pass


def rec_dtype(fields):
    return np.dtype([('f%d' % i, DTYPES[f]) for i, f in enumerate(fields)])


from real_packed import PackedOps  # noqa: E402
from real_rand import RandOps  # noqa: E402


class Real(PackedOps, RandOps):
    """A pool of real maps driven by protocol lines."""

    def __init__(self):
        self.pool = {}
        self.info = {}
        self.files = {}
        self._tmp = None

    def tmpdir(self):
        if self._tmp is None:
            import tempfile
            base = os.path.join(os.path.dirname(os.path.dirname(os.path.abspath(__file__))), '.work', 'tmp')
            os.makedirs(base, exist_ok=True)
            self._tmp = tempfile.mkdtemp(dir=base)
        return self._tmp

    def cleanup(self):
        if self._tmp is not None:
            import shutil
            shutil.rmtree(self._tmp, ignore_errors=True)
            self._tmp = None

    # ---- helpers -------------------------------------------------------
    def m(self, name):
        if name not in self.pool:
            raise NoMap(name)
        return self.pool[name]

    def decode_sentinel(self, s, dtype):
        if s is None or s == 'default':
            return None
        v = dec_val(s)
        if isinstance(v, bool):
            return v
        if np.dtype(dtype).kind == 'f':
            return float(v)
        return int(v)

    def scalar_for(self, m, tok):
        """Decode a scalar `val=` token to what a user would pass for this map."""
        if m.is_wide_mask_map:
            return dec_val(tok)
        if m.is_rec_array:
            return dec_val(tok, dtype=m.dtype)
        v = dec_val(tok)
        if isinstance(v, bool):
            return v
        if m.dtype.kind == 'f':
            return float(v)
        if m.dtype.kind == 'b':
            return bool(v)
        if isinstance(v, float):
            return v
        return int(v)

    def array_for(self, m, toks):
        if m.is_wide_mask_map:
            if not toks:
                return np.zeros((0, m.wide_mask_width), dtype=np.uint8)
            return RO(np.array([dec_val(t) for t in toks], dtype=np.uint8))
        if m.is_rec_array:
            arr = np.zeros(len(toks), dtype=m.dtype)
            for i, t in enumerate(toks):
                arr[i] = dec_val(t, dtype=m.dtype)[0]
            return RO(arr)
        return RO(np.array([dec_val(t) for t in toks], dtype=m.dtype))

    def dense(self, m):
        return m.get_values_pix(np.arange(12 * m.nside_sparse ** 2, dtype=np.int64))

    def export_state(self, m):
        """(cov_index_map, sparse_map) of the real object, as protocol text."""
        cov = m._cov_map._cov_index_map
        sp = m._sparse_map
        if isinstance(sp, _PackedBoolArray):
            sp = np.asarray(sp)
        return "cov=%s sp=%s" % (','.join(str(int(v)) for v in cov) if cov.size else '_', enc_cells(sp))

    # ---- dispatch ------------------------------------------------------
    def step(self, line):
        """Returns (observation, line_for_model)."""
        toks = line.split()
        op, (pos, kv) = toks[0], parse_args(toks[1:])
        fn = getattr(self, 'op_' + op.replace('.', '_'), None)
        if fn is None:
            raise BadOp(line)
        try:
            res = fn(pos, kv)
        except BadOp:
            raise
        except NoMap:
            return 'nomap', line
        except enc.Inexact:
            return 'inexact', line
        except HarnessOracle as e:
            return 'err HarnessOracle ' + str(e)[:240], line
        except Exception as e:  # the library raised
            return 'err ' + type(e).__name__, line
        if isinstance(res, tuple):
            return res
        return res, line

    # ---- calls that must be refused (malformed stream; C04: layout holds after calls that raise) ----
    BAD_KINDS = ['wide_scalar', 'int_float', 'flt_int', 'not_ndarray', 'ranges_array', 'ranges_ring',
                 'getitem_str', 'getitem_flt', 'getitem_listflt', 'getitem_type',
                 'setitem_flt', 'setitem_listflt', 'setitem_type',
                 'sop_bit_on_float', 'sop_wide_const', 'sop_list_nonwide', 'sop_list_float', 'sop_wide_add',
                 'sop_array', 'sop_int_fltconst',
                 'deg_finer', 'deg_wmean_noweights', 'deg_weights_notmap', 'deg_weights_int', 'deg_wide_mean',
                 'chkpos_nonint']

    def op_bad(self, pos, kv):
        """a malformed call of kind k= on map pos[0]; 'err' when the library refuses it, 'ok' when it does not"""
        m = self.m(pos[0])
        k = kv['k']
        pix = RO(np.array([int(t) for t in split_list(kv.get('pix', '0'))], dtype=np.int64))
        one = self.scalar_for(m, kv['val']) if 'val' in kv else None
        npix = 12 * m.nside_sparse ** 2
        rng2 = np.array([[0, 2], [4, 6]], dtype=np.int64)
        try:
            if k == 'wide_scalar':
                m.update_values_pix(pix, 5)
            elif k == 'int_float':
                m.update_values_pix(pix, 1.5)
            elif k == 'flt_int':
                m.update_values_pix(pix, 3)
            elif k == 'not_ndarray':
                m.update_values_pix(pix, [1] * len(pix))
            elif k == 'ranges_array':
                m.update_values_pix(rng2, np.zeros(2, dtype=m.dtype))
            elif k == 'ranges_ring':
                m.update_values_pix(rng2, one, nest=False)
            elif k == 'getitem_str':
                m['nosuchfield']
            elif k == 'getitem_flt':
                m[np.array([1.5, 2.0])]
            elif k == 'getitem_listflt':
                m[[1.5, 2.0]]
            elif k == 'getitem_type':
                m[1.5]
            elif k == 'setitem_flt':
                m[np.array([1.5])] = one
            elif k == 'setitem_listflt':
                m[[1.5]] = one
            elif k == 'setitem_type':
                m[1.5] = one
            elif k == 'sop_bit_on_float':
                r = m.__iand__(1)
            elif k == 'sop_wide_const':
                r = m.__ior__(1)
            elif k == 'sop_list_nonwide':
                r = m.__ior__([1])
            elif k == 'sop_list_float':
                r = m.__ior__([1.5])
            elif k == 'sop_wide_add':
                r = m.__iadd__([1])
            elif k == 'sop_array':
                r = m.__iadd__(np.zeros(3))
            elif k == 'sop_int_fltconst':
                r = m.__iand__(1.5)
            elif k == 'deg_finer':
                m.degrade(2 * m.nside_sparse)
            elif k == 'deg_wmean_noweights':
                m.degrade(m.nside_coverage, reduction='wmean')
            elif k == 'deg_weights_notmap':
                m.degrade(m.nside_coverage, reduction='wmean', weights=np.ones(npix))
            elif k == 'deg_weights_int':
                w = HealSparseMap.make_empty(m.nside_coverage, m.nside_sparse, np.int32)
                m.degrade(m.nside_coverage, reduction='wmean', weights=w)
            elif k == 'deg_wide_mean':
                m.degrade(m.nside_coverage, reduction='mean')
            elif k == 'chkpos_nonint':
                m.check_bits_pos(np.array([1.0]), np.array([1.0]), [1])
            else:
                raise BadOp(k)
            if k.startswith('sop_') and r is NotImplemented:
                raise TypeError('NotImplemented')
        except BadOp:
            raise
        except Exception as e:
            return 'err ' + type(e).__name__
        return 'ok'

    # ---- operations ----------------------------------------------------
    def op_reset(self, pos, kv):
        self.pool = {}
        self.packed_reset()
        return 'ok'

    def op_drop(self, pos, kv):
        self.pool.pop(pos[0], None)
        return 'ok'

    def op_cfg(self, pos, kv):
        kind = kv['kind']
        nc, ns = 2 ** int(kv['covord']), 2 ** int(kv['spord'])
        covpix = [int(t) for t in split_list(kv.get('covpix', '_'))]
        kw = {}
        if covpix:
            # `idtype=`: the caller's index arrays in a narrow integer type (or a plain list)
            kw['cov_pixels'] = (list(covpix) if kv.get('idtype') == 'list' else
                                np.array(covpix, dtype=DTYPES[kv.get('idtype', 'i8')]))
        if kind == 'plain':
            dt = DTYPES[kv['dtype']]
            m = HealSparseMap.make_empty(nc, ns, dt, sentinel=self.decode_sentinel(kv.get('sentinel'), dt), **kw)
        elif kind == 'packed':
            m = HealSparseMap.make_empty(nc, ns, np.bool_, bit_packed=True,
                                         sentinel=self.decode_sentinel(kv.get('sentinel'), np.bool_), **kw)
        elif kind == 'wide':
            m = HealSparseMap.make_empty(nc, ns, healsparse.WIDE_MASK, wide_mask_maxbits=int(kv['maxbits']),
                                         sentinel=self.decode_sentinel(kv.get('sentinel'), np.uint8), **kw)
        elif kind == 'rec':
            fields = split_list(kv['fields'])
            dt = rec_dtype(fields)
            pr = int(kv['primary'])
            m = HealSparseMap.make_empty(nc, ns, dt, primary='f%d' % pr,
                                         sentinel=self.decode_sentinel(kv.get('sentinel'), DTYPES[fields[pr]]), **kw)
        else:
            raise BadOp(kind)
        self.pool[pos[0]] = m
        return 'ok'

    def op_upd(self, pos, kv):
        m = self.m(pos[0])
        pix = RO(np.array([int(t) for t in split_list(kv.get('pix', '_'))], dtype=np.int64))
        if kv.get('none') == '1':
            values = None
        elif 'val' in kv:
            values = self.scalar_for(m, kv['val'])
        else:
            values = self.array_for(m, split_list(kv['vals']))
            if 'vdtype' in kv:
                values = values.astype(DTYPES[kv['vdtype']])       # deliberately mistyped values
        via = kv.get('via', 'update')
        if via != 'update' and kv.get('op', 'replace') == 'replace':
            # __setitem__ forms
            if via == 'setitem_arr':
                m[pix] = values
            elif via == 'setitem_list':
                m[[int(p) for p in pix]] = values
            elif via == 'setitem_int':
                m[int(pix[0])] = values
            else:
                raise BadOp(via)
        elif 'ring' in kv:
            ring = RO(np.array([int(t) for t in split_list(kv['ring'])], dtype=np.int64))
            m.update_values_pix(ring, values, nest=False, operation=kv.get('op', 'replace'))
        elif 'lon' in kv:
            lon = RO(np.array([float(t) for t in split_list(kv['lon'])]))
            lat = RO(np.array([float(t) for t in split_list(kv['lat'])]))
            m.update_values_pos(lon, lat, values, operation=kv.get('op', 'replace'))
        else:
            m.update_values_pix(pix, values, operation=kv.get('op', 'replace'))
        return 'ok'

    def op_updr(self, pos, kv):
        m = self.m(pos[0])
        rr = [t.split(':') for t in split_list(kv.get('ranges', '_'))]
        ranges = RO(np.array([[int(a), int(b)] for a, b in rr], dtype=np.int64).reshape((len(rr), 2)))
        values = None if kv.get('none') == '1' else self.scalar_for(m, kv['val'])
        old = hsm.PIXEL_RANGE_THRESHOLD
        if 'thr' in kv:
            hsm.PIXEL_RANGE_THRESHOLD = int(kv['thr'])
        else:
            hsm.PIXEL_RANGE_THRESHOLD = -1 if kv.get('path', 'slice') == 'slice' else 10 ** 15
        try:
            m.update_values_pix(ranges, values, operation=kv.get('op', 'replace'))
        finally:
            hsm.PIXEL_RANGE_THRESHOLD = old
        return 'ok'

    def op_vals(self, pos, kv):
        return enc_cells(self.dense(self.m(pos[0])))

    def op_get(self, pos, kv):
        m = self.m(pos[0])
        vm = kv.get('vm') == '1'
        if 'slice' in kv:
            a, b, st = [int(t) for t in kv['slice'].split(':')]
            return enc_cells(m[a:b:st])
        pix = RO(np.array([int(t) for t in split_list(kv.get('pix', '_'))], dtype=np.int64))
        path = kv.get('path', 'pix')
        if 'ring' in kv:
            ring = RO(np.array([int(t) for t in split_list(kv['ring'])], dtype=np.int64))
            if vm:
                return API(enc_bits, m.get_values_pix(ring, nest=False, valid_mask=True))
            return API(enc_cells, m.get_values_pix(ring, nest=False))
        if 'lon' in kv:
            lon = RO(np.array([float(t) for t in split_list(kv['lon'])]))
            lat = RO(np.array([float(t) for t in split_list(kv['lat'])]))
            if kv.get('lonlat', '1') == '0':
                res = m.get_values_pos(lon, lat, lonlat=False, valid_mask=vm)
            else:
                res = m.get_values_pos(lon, lat, valid_mask=vm)
            return enc_bits(res) if vm else enc_cells(res)
        if 'nsord' in kv:
            return API(enc_cells, m.get_values_pix(pix, nside=2 ** int(kv['nsord'])))
        if vm:
            if path == 'pos':
                lon, lat = hpg.pixel_to_angle(m.nside_sparse, pix)
                return API(enc_bits, m.get_values_pos(lon, lat, valid_mask=True))
            return API(enc_bits, m.get_values_pix(pix, valid_mask=True))
        if path == 'pix':
            return API(enc_cells, m.get_values_pix(pix))
        if path == 'getitem_arr':
            return enc_cells(m[pix])
        if path == 'getitem_list':
            return enc_cells(m[[int(p) for p in pix]])
        if path == 'getitem_int':
            v = m[int(pix[0])]
            if m.is_wide_mask_map:
                v = np.atleast_2d(v)
            else:
                v = np.atleast_1d(v)
            return enc_cells(v)
        if path == 'pos':
            lon, lat = hpg.pixel_to_angle(m.nside_sparse, pix)
            return API(enc_cells, m.get_values_pos(lon, lat))
        raise BadOp(path)

    def op_covmask(self, pos, kv):
        return API(enc_bits, self.m(pos[0]).coverage_mask)

    def op_state(self, pos, kv):
        m = self.m(pos[0])
        exported = self.export_state(m)
        obs = "covmask=%s abs=%s" % (enc_bits(m.coverage_mask), enc_cells(self.dense(m)))
        return obs, "state %s %s" % (pos[0], exported)

    def op_valid(self, pos, kv):
        m = self.m(pos[0])
        path = kv.get('path', 'list')
        npix = 12 * m.nside_sparse ** 2
        if path == 'list':
            v = m.valid_pixels
        elif path == 'mask':
            v, = np.where(m.get_values_pix(np.arange(npix, dtype=np.int64), valid_mask=True))
        elif path == 'iter':
            parts = [p for p in m.iter_valid_pixels_by_covpix()]
            v = np.concatenate(parts) if parts else np.zeros(0, dtype=np.int64)
        elif path == 'covpix_maps':
            parts = [sub.valid_pixels for sub in m.get_covpix_maps()]
            v = np.concatenate(parts) if parts else np.zeros(0, dtype=np.int64)
        elif path == 'pos':
            v = m.valid_pixels_pos(return_pixels=True)[0]
        else:
            raise BadOp(path)
        return API(lambda a: enc_ints(sorted(int(x) for x in a)), v)

    def op_nvalid(self, pos, kv):
        m = self.m(pos[0])
        path = kv.get('path', 'n_valid')
        if path == 'n_valid':
            return str(int(m.n_valid))
        if path == 'area':
            a = m.get_valid_area(degrees=False) / hpg.nside_to_pixel_area(m.nside_sparse, degrees=False)
            if abs(a - round(a)) > 1e-6:
                return 'nonintegral %r' % a
            return str(int(round(a)))
        if path == 'str':
            s = str(m)
            if 'valid pixels' not in s:
                return 'nocount'
            return s.split(' valid pixels')[0].split(', ')[-1].strip()
        raise BadOp(path)

    def op_covmap(self, pos, kv):
        m = self.m(pos[0])
        cm = m.coverage_map
        x = cm * m._cov_map.nfine_per_cov
        API(lambda a: '', cm)          # the returned array is the caller's
        if np.any(np.abs(x - np.round(x)) > 1e-9):
            return 'nonintegral'
        return enc_nats(np.round(x).astype(np.int64))

    def op_vpsc(self, pos, kv):
        m = self.m(pos[0])
        return API(lambda a: enc_ints(sorted(int(x) for x in a)), m.valid_pixels_single_covpix(int(kv['k'])))

    def op_fracdet(self, pos, kv):
        m = self.m(pos[0])
        self.pool[kv['r']] = m.fracdet_map(2 ** int(kv['ord']))
        return 'ok'

    # ---- scalar / boolean operators, masks, conversions ----------------------
    PYOPS = {
        'add': ('__add__', '__iadd__'), 'sub': ('__sub__', '__isub__'), 'mul': ('__mul__', '__imul__'),
        'div': ('__truediv__', '__itruediv__'), 'pow': ('__pow__', '__ipow__'),
        'and': ('__and__', '__iand__'), 'or': ('__or__', '__ior__'), 'xor': ('__xor__', '__ixor__'),
    }

    def op_sop(self, pos, kv):
        m = self.m(pos[0])
        if 'bits' in kv:
            k = [int(t) for t in split_list(kv['bits'])]
        elif kv.get('ktype', 'int') == 'int':
            k = int(kv['k'])
        else:
            k = float(dec_dy(kv['k']))
        inplace = kv.get('inplace') == '1'
        if kv.get('npk') == 'f8' and not isinstance(k, list):
            k = np.float64(k)                 # a strongly typed numpy scalar wider than a float32 map
        elif kv.get('npk') == 'f4' and not isinstance(k, list):
            k = np.float32(k)
        before = None
        if kv['op'] in ('add', 'sub', 'mul', 'div') and not isinstance(k, list) and not m.is_rec_array \
                and not m.is_wide_mask_map and m.dtype.kind == 'f' and not (kv['op'] == 'div' and k == 0):
            vp = m.valid_pixels
            before = (vp, np.array(m.get_values_pix(vp)), m.dtype)
        r = getattr(m, self.PYOPS[kv['op']][1 if inplace else 0])(k)
        if r is NotImplemented:
            raise TypeError('NotImplemented')
        if before is not None and isinstance(r, HealSparseMap):
            # IEEE + - * / are correctly rounded: (m op k)[p] must be THE float nearest to the exact result in the
            # precision numpy works in — float64 for a float64 map or a float64 numpy scalar (then cast to the map's
            # float32), float32 for a float32 map with a Python / float32 scalar (the scalar itself cast first) —
            # decided with exact rationals, independent of the model, which declines results it cannot represent
            # (seeded changes C12g: x * (1/k); C12h: the scalar rounded to float32 before the operation)
            from fractions import Fraction
            import core
            vp, xs, dt = before
            f4map = dt.itemsize == 4
            wide = (not f4map) or isinstance(k, np.float64)
            K = Fraction(float(k))
            if f4map and not wide:
                K = Fraction(float(np.float32(k)))
            fop = {'add': lambda a, b: a + b, 'sub': lambda a, b: a - b, 'mul': lambda a, b: a * b,
                   'div': lambda a, b: a / b}[kv['op']]
            got = r.get_values_pix(vp)
            for p, x, y in zip(vp.tolist(), xs.tolist(), got.tolist()):
                want = core.round_to(fop(Fraction(float(x)), K), 53 if wide else 24)
                if f4map:
                    want = core.round_to(want, 24)
                if np.isfinite(y) and abs(want) < Fraction(2) ** 120 and Fraction(float(y)) != want \
                        and float(want) != float(r._sentinel):
                    raise HarnessOracle('%s not correctly rounded at pixel %d: %r %s %r gave %r, nearest is %r'
                                        % (kv['op'], p, x, kv['op'], k, y, float(want)))
        if inplace:
            self.pool[pos[0]] = r
        else:
            self.pool[kv['r']] = r
        return 'ok'

    def op_mask(self, pos, kv):
        m = self.m(pos[0])
        mk = self.m(kv['by'])
        kw = {}
        if 'bits' in kv:
            kw['mask_bits'] = int(kv['bits'])
        if 'bitarr' in kv:
            kw['mask_bit_arr'] = [int(t) for t in split_list(kv['bitarr'])]
        inplace = kv.get('inplace') == '1'
        r = m.apply_mask(mk, in_place=inplace, **kw)
        if not inplace:
            self.pool[kv['r']] = r
        return 'ok'

    def op_astype(self, pos, kv):
        m = self.m(pos[0])
        dt = DTYPES[kv['dtype']]
        self.pool[kv['r']] = m.astype(dt, sentinel=self.decode_sentinel(kv.get('sentinel'), dt))
        return 'ok'

    def op_pack(self, pos, kv):
        self.pool[kv['r']] = self.m(pos[0]).as_bit_packed_map()
        return 'ok'

    def op_bop(self, pos, kv):
        m = self.m(pos[0])
        rhs = (kv['const'] == 'T') if 'const' in kv else self.m(kv['rhs'])
        inplace = kv.get('inplace') == '1'
        r = getattr(m, self.PYOPS[kv['op']][1 if inplace else 0])(rhs)
        if inplace:
            self.pool[pos[0]] = r
        else:
            self.pool[kv['r']] = r
        return 'ok'

    def op_inv(self, pos, kv):
        m = self.m(pos[0])
        if kv.get('inplace') == '1':
            m.invert()
        else:
            self.pool[kv['r']] = ~m
        return 'ok'

    def op_bits(self, pos, kv):
        m = self.m(pos[0])
        pix = RO(np.array([int(t) for t in split_list(kv.get('pix', '_'))], dtype=np.int64))
        bits = [int(t) for t in split_list(kv.get('bits', '_'))]
        if kv.get('mode', 'set') == 'clear':
            m.clear_bits_pix(pix, bits)
        else:
            m.set_bits_pix(pix, bits)
        return 'ok'

    def op_chk(self, pos, kv):
        m = self.m(pos[0])
        pix = RO(np.array([int(t) for t in split_list(kv.get('pix', '_'))], dtype=np.int64))
        bits = [int(t) for t in split_list(kv.get('bits', '_'))]
        if kv.get('via') == 'pos':
            # check_bits_pos at the pixel centres (positions -> pixels is hpgeom's, trusted)
            lon, lat = hpg.pixel_to_angle(m.nside_sparse, pix, nest=True, lonlat=True)
            return API(enc_bits, m.check_bits_pos(lon, lat, bits, lonlat=True))
        return API(enc_bits, m.check_bits_pix(pix, bits))

    def op_copy(self, pos, kv):
        self.pool[kv['r']] = self.m(pos[0]).copy()
        return 'ok'

    def op_info(self, pos, kv):
        m = self.m(pos[0])
        inv = {v: k for k, v in DTYPES.items()}

        def dts(dt):
            return inv[np.dtype(dt).type]
        if m.is_rec_array:
            names = m.dtype.names
            k = 'rec:%s:%d' % (','.join(dts(m.dtype[n]) for n in names), names.index(m.primary))
        elif m.is_wide_mask_map:
            k = 'wide:%d' % m.wide_mask_width
        elif m.is_bit_packed_map:
            k = 'packed'
        else:
            k = 'plain:' + dts(m.dtype)
        covord = int(np.log2(m.nside_coverage))
        spord = int(np.log2(m.nside_sparse))
        sent = m._sentinel
        return "kind=%s covord=%d spord=%d sentinel=%s" % (k, covord, spord, enc.enc_scalar(sent))

    def op_mop(self, pos, kv):
        maps = [self.m(n) for n in split_list(kv['maps'])]
        name = kv['name']
        if name.startswith('ufunc_'):
            m0 = maps[0]
            fv = dec_val(kv['filler'])
            if not m0.is_wide_mask_map:
                fv = m0.dtype.type(fv)
            r = getattr(healsparse, name)(maps, getattr(np, kv['ufunc']), filler_value=fv)
        else:
            r = getattr(healsparse, name)(maps)
        self.pool[kv['r']] = r
        return 'ok'

    # ---- resolution changes, MOC -------------------------------------------------
    @staticmethod
    def f4_sum_unsafe(m, red):
        """float32 maps are reduced in float32: the result of sum / mean / std then depends on numpy's
        summation order unless EVERY partial sum is exact.  Sufficient: all valid values are multiples of
        2^-K and the sum of their magnitudes stays below 2^24 * 2^-K.  Otherwise the exact model cannot
        predict the rounding and the history is discarded from here (`inexact`)."""
        # (dtype compared by kind and size: a map read from a file is big-endian float32; the same test with 2^53
        #  for float64 maps, whose values can carry many bits after arithmetic with long scalars)
        if red not in ('sum', 'mean', 'std', 'wmean') or m.is_rec_array or m.dtype.kind != 'f':
            return False
        lim = 2 ** 24 if m.dtype.itemsize == 4 else 2 ** 53
        sp = np.asarray(m._sparse_map)
        vals = sp[sp != m._sentinel]
        if vals.size == 0:
            return False
        ratios = [float(v).as_integer_ratio() for v in vals]
        K = max(d for _, d in ratios)
        total = sum(abs(n) * (K // d) for n, d in ratios)
        if red == 'wmean':
            total *= 32          # products with the weights (magnitude < 8, two fractional bits)
        return total >= lim

    @staticmethod
    def wmean_unsafe(m, w, red):
        """weighted mean: the exact model predicts it only while every product x*w and both sums are exact in
        float64 (a map used as its own weight map squares its values)"""
        if red != 'wmean' or w is None or m.is_rec_array or m.is_wide_mask_map:
            return False
        vp = m.valid_pixels
        if vp.size == 0:
            return False
        xs = np.asarray(m.get_values_pix(vp), dtype=np.float64)
        ws = np.asarray(w.get_values_pix(vp), dtype=np.float64)
        K, tot, totw = 0, 0, 0
        prods = []
        for x, y in zip(xs.tolist(), ws.tolist()):
            if not (np.isfinite(x) and np.isfinite(y)):
                continue
            nx, dx = float(x).as_integer_ratio()
            ny, dy_ = float(y).as_integer_ratio()
            prods.append((abs(nx * ny), dx * dy_, abs(ny), dy_))
        if not prods:
            return False
        K = max(max(d for _, d, _, _ in prods), max(d for _, _, _, d in prods))
        tot = sum(n * (K // d) for n, d, _, _ in prods)
        totw = sum(n * (K // d) for _, _, n, d in prods)
        return tot >= 2 ** 53 or totw >= 2 ** 53

    @staticmethod
    def prod_range_unsafe(m, red, ordout):
        """`prod` in floating point: the exact model predicts the product only while no PARTIAL product
        leaves the normal range of the working precision (an overflow to inf followed by a factor 0 gives
        NaN, i.e. an invalid pixel; an underflow loses the value).  Sufficient for safety: within every
        group of children the sum of |log2 |v|| over the non-zero values stays below the exponent range."""
        if red != 'prod' or m.is_wide_mask_map or (not m.is_rec_array and m.dtype.kind == 'b'):
            return False
        vp = m.valid_pixels
        if vp.size == 0:
            return False
        shift = 2 * (int(np.log2(m.nside_sparse)) - ordout)
        grp = (vp >> max(shift, 0)).tolist()
        allv = m.get_values_pix(vp)
        # (record arrays: every field is reduced, a float32 field is stored back in float32)
        cols = [(allv[n], m.dtype[n]) for n in m.dtype.names] if m.is_rec_array else [(allv, m.dtype)]
        for col, dt in cols:
            lim = 120.0 if (dt.kind == 'f' and dt.itemsize == 4) else 1000.0
            vals = np.abs(np.asarray(col).astype(np.float64))
            with np.errstate(divide='ignore'):
                lg = np.where(vals > 0, np.abs(np.log2(np.where(vals > 0, vals, 1.0))), 0.0)
            tot = {}
            for g, x in zip(grp, lg.tolist()):
                tot[g] = tot.get(g, 0.0) + x
            if max(tot.values()) >= lim:
                return True
        return False

    def op_deg(self, pos, kv):
        m = self.m(pos[0])
        w = self.m(kv['w']) if 'w' in kv else None
        self.pool[kv['r']] = m.degrade(2 ** int(kv['ord']), reduction=kv.get('red', 'mean'), weights=w)
        if self.f4_sum_unsafe(m, kv.get('red', 'mean')) or self.prod_range_unsafe(m, kv.get('red', 'mean'),
                                                                                   int(kv['ord'])) \
                or self.wmean_unsafe(m, w, kv.get('red', 'mean')):
            return 'inexact'
        return 'ok'

    def op_upg(self, pos, kv):
        self.pool[kv['r']] = self.m(pos[0]).upgrade(2 ** int(kv['ord']))
        return 'ok'

    def op_moc(self, pos, kv):
        import astropy.io.fits as afits
        m = self.m(pos[0])
        path = os.path.join(self.tmpdir(), kv.get('f', 'f') + '.moc.fits')
        m.write_moc(path, clobber=True)
        self.files[kv.get('f', 'f')] = path
        if kv.get('variant') == 'mocvers':
            # a MOC from another writer: recognised by MOCVERS only
            import astropy.io.fits as afits
            with afits.open(path, mode='update') as hdul:
                if 'PIXTYPE' in hdul[1].header and 'MOCVERS' in hdul[1].header:
                    del hdul[1].header['PIXTYPE']
                    VARIANTS_APPLIED[0] += 1
        with afits.open(path) as hdul:
            u = np.array(hdul[1].data['UNIQ'], dtype=np.int64)
        return enc_nats(u)

    def op_mocread(self, pos, kv):
        if kv.get('f', 'f') not in self.files:
            raise NoMap(kv.get('f', 'f'))
        path = self.files[kv.get('f', 'f')]
        self.pool[kv['r']] = self.read_maybe_header(kv, path, nside_coverage=2 ** int(kv['covord']))
        return 'ok'

    def read_maybe_header(self, kv, path, **kw):
        """read(...) or read(..., header=True)[0] (the header must then be the file's)"""
        if kv.get('header') == '1':
            r = HealSparseMap.read(path, header=True, **kw)
            if not (isinstance(r, tuple) and len(r) == 2 and hasattr(r[1], 'keys')):
                raise AssertionError('read(header=True) did not return (map, header)')
            return r[0]
        return HealSparseMap.read(path, **kw)

    def op_single(self, pos, kv):
        m = self.m(pos[0])
        i = int(kv['field'])
        key = m.dtype.names[i] if m.is_rec_array else 'f%d' % i
        sent = None
        if kv.get('sentinel', 'default') != 'default':
            sent = self.decode_sentinel(kv['sentinel'], m.dtype[key])
        if kv.get('copy') == '1':
            self.pool[kv['r']] = m.get_single(key, sentinel=sent, copy=True)
        elif sent is None and kv.get('via', 'getitem') == 'getitem':
            self.pool[kv['r']] = m[key]
        else:
            self.pool[kv['r']] = m.get_single(key, sentinel=sent, copy=False)
        return 'ok'

    def op_scov(self, pos, kv):
        self.pool[kv['r']] = self.m(pos[0]).get_single_covpix_map(int(kv['k']))
        return 'ok'

    # ---- files --------------------------------------------------------------------
    def op_meta(self, pos, kv):
        m = self.m(pos[0])
        md = dict(m.metadata) if m.metadata is not None else {}
        v = kv.get('v', '')
        md[kv['k']] = int(v) if v.lstrip('-').isdigit() else v
        m.metadata = md
        return 'ok'

    def op_getmeta(self, pos, kv):
        m = self.m(pos[0])
        md = m.metadata if m.metadata is not None else {}
        if kv['k'] not in md:
            return 'none'
        return str(md[kv['k']]).strip()

    def op_write(self, pos, kv):
        m = self.m(pos[0])
        path = os.path.join(self.tmpdir(), kv.get('f', 'f') + '.hsp.fits')
        m.write(path, clobber=True, nocompress=(kv.get('compress', '1') == '0'))
        self.files[kv.get('f', 'f')] = path
        if kv.get('variant') == 'nosentinel' and not m.is_rec_array and m.dtype.kind == 'f' \
                and m._sentinel == hpg.UNSEEN:
            # a legacy file: no SENTINEL keyword (readers must assume UNSEEN)
            import astropy.io.fits as afits
            with afits.open(path, mode='update') as hdul:
                if 'SENTINEL' in hdul[1].header:
                    del hdul[1].header['SENTINEL']
                    VARIANTS_APPLIED[0] += 1
        return 'ok'

    def op_read(self, pos, kv):
        if kv.get('f', 'f') not in self.files:
            raise NoMap(kv.get('f', 'f'))
        path = self.files[kv.get('f', 'f')]
        kw = {}
        if 'pixels' in kv:
            kw['pixels'] = [int(t) for t in split_list(kv['pixels'])]
            if kv.get('idtype', 'list') != 'list':
                kw['pixels'] = RO(np.array(kw['pixels'], dtype=DTYPES[kv['idtype']]))
        self.pool[kv['r']] = self.read_maybe_header(kv, path, **kw)
        return 'ok'

    def op_covread(self, pos, kv):
        if kv.get('f', 'f') not in self.files:
            raise NoMap(kv.get('f', 'f'))
        cov = healsparse.HealSparseCoverage.read(self.files[kv.get('f', 'f')])
        return enc_bits(cov.coverage_mask)

    def op_fitsraw(self, pos, kv):
        """the COV and SPARSE extensions as astropy itself shows them (not through healsparse)"""
        import astropy.io.fits as afits
        if kv.get('f', 'f') not in self.files:
            raise NoMap(kv.get('f', 'f'))
        with afits.open(self.files[kv.get('f', 'f')], memmap=False) as hdul:
            cov = np.array(hdul[0].data, dtype=np.int64)
            hdr = hdul[1].header
            raw = hdul[1].data
            if raw.dtype.fields is not None:
                # table: take the columns one by one so that astropy applies TZERO (unsigned columns)
                cols = [np.array(raw[n]) for n in raw.dtype.names]
                sp = np.zeros(len(raw), dtype=[(n, c.dtype.newbyteorder('=')) for n, c in zip(raw.dtype.names, cols)])
                for n, c in zip(raw.dtype.names, cols):
                    sp[n] = c
            else:
                sp = np.array(raw).ravel()
            if hdr.get('BITPACK', False):
                sp = np.unpackbits(sp.astype(np.uint8), bitorder='little').astype(bool)
            elif isinstance(hdr.get('SENTINEL'), (bool, np.bool_)) and sp.dtype.fields is None:
                sp = sp.astype(bool)
            elif hdr.get('WIDEMASK', False):
                sp = sp.reshape((-1, hdr['WWIDTH'])).astype(np.uint8)
        line = "fitsraw f=%s cov=%s sp=%s" % (kv.get('f', 'f'), ','.join(str(int(v)) for v in cov), enc_cells(sp))
        return 'raw', line

    def op_dor(self, pos, kv):
        if kv.get('f', 'f') not in self.files:
            raise NoMap(kv.get('f', 'f'))
        kw = {}
        if 'pixels' in kv:
            kw['pixels'] = [int(t) for t in split_list(kv['pixels'])]
            if kv.get('idtype', 'list') != 'list':
                kw['pixels'] = RO(np.array(kw['pixels'], dtype=DTYPES[kv['idtype']]))
        if 'wf' in kv:
            if kv['wf'] not in self.files:
                raise NoMap(kv['wf'])
            kw['weightfile'] = self.files[kv['wf']]
        if 'covord' in kv:
            kw['nside_coverage'] = 2 ** int(kv['covord'])
        self.pool[kv['r']] = HealSparseMap.read(self.files[kv.get('f', 'f')], degrade_nside=2 ** int(kv['ord']),
                                                reduction=kv.get('red', 'mean'), **kw)
        if True:
            try:
                src = HealSparseMap.read(self.files[kv.get('f', 'f')])
            except Exception:
                src = None
            wsrc = None
            if src is not None and 'wf' in kv:
                try:
                    wsrc = HealSparseMap.read(self.files[kv['wf']])
                except Exception:
                    wsrc = None
            if src is not None and (self.f4_sum_unsafe(src, kv.get('red', 'mean')) or
                                    self.prod_range_unsafe(src, kv.get('red', 'mean'), int(kv['ord'])) or
                                    self.wmean_unsafe(src, wsrc, kv.get('red', 'mean'))):
                return 'inexact'
        return 'ok'

    def op_cat(self, pos, kv):
        names = split_list(kv['files'])
        for n in names:
            if n not in self.files:
                raise NoMap(n)
        out = os.path.join(self.tmpdir(), kv.get('f', 'f') + '.cat.fits')
        kw = {}
        if 'covord' in kv:
            kw['nside_coverage_out'] = 2 ** int(kv['covord'])
        healsparse.cat_healsparse_files([self.files[n] for n in names], out, clobber=True, in_memory=True,
                                        check_overlap=(kv.get('check') == '1'), or_overlap=(kv.get('or') == '1'), **kw)
        self.files[kv.get('f', 'f')] = out
        return 'ok'

    # ---- HEALPix interchange -------------------------------------------------------
    def op_fromhp(self, pos, kv):
        dt = DTYPES[kv['dtype']]
        vals = np.array([dec_val(t) for t in split_list(kv['vals'])]).astype(dt)
        sent = kv.get('sentinel', 'default')
        kw = {}
        if sent != 'default':
            v = dec_val(sent)
            kw['sentinel'] = int(v) if kv.get('senttype', 'int' if np.dtype(dt).kind in 'iu' else 'flt') == 'int' \
                else float(v)
        self.pool[kv['r']] = HealSparseMap(healpix_map=vals, nside_coverage=2 ** int(kv['covord']),
                                           nest=(kv.get('nest', '1') == '1'), **kw)
        return 'ok'

    def op_genhp(self, pos, kv):
        m = self.m(pos[0])
        kw = {}
        if 'ord' in kv:
            kw['nside'] = 2 ** int(kv['ord'])
            kw['reduction'] = kv.get('red', 'mean')
        if 'key' in kv:
            kw['key'] = m.dtype.names[int(kv['key'])]
        out = API(enc_cells, m.generate_healpix_map(nest=(kv.get('nest', '1') == '1'), **kw))
        if 'ord' in kv and 'key' not in kv and (self.f4_sum_unsafe(m, kv.get('red', 'mean')) or
                                                 self.prod_range_unsafe(m, kv.get('red', 'mean'), int(kv['ord']))):
            return 'inexact'
        return out

    def op_interp(self, pos, kv):
        m = self.m(pos[0])
        lon = RO(np.array([float(t) for t in split_list(kv['lon'])]))
        lat = RO(np.array([float(t) for t in split_list(kv['lat'])]))
        return API(enc_cells, m.interpolate_pos(lon, lat, allow_partial=(kv.get('partial') == '1')))

    def op_hpxwrite(self, pos, kv):
        m = self.m(pos[0])
        path = os.path.join(self.tmpdir(), kv.get('f', 'f') + '.hpx.fits')
        m.write(path, clobber=True, format='healpix')
        self.files[kv.get('f', 'f')] = path
        var = kv.get('variant', '').split('+')
        # (boolean / int8 columns are FITS logicals in astropy, unsigned ones use TZERO: not re-written here)
        if var != [''] and m.dtype.kind in 'fi' and m.dtype.itemsize > 1:
            # the same partial map as a foreign writer would store it
            import astropy.io.fits as afits
            with afits.open(path) as hdul:
                hdr = hdul[1].header.copy()
                tbl = np.array(hdul[1].data)
            applied = False
            if 'ring' in var and hdr.get('INDXSCHM', '').rstrip() == 'EXPLICIT' and hdr.get('ORDERING') == 'NESTED':
                applied = True
                tbl = tbl.copy()
                tbl['PIXEL'] = hpg.nest_to_ring(hdr['NSIDE'], np.array(tbl['PIXEL'], dtype=np.int64))
                hdr['ORDERING'] = 'RING'
                VARIANTS_APPLIED[0] += 1
            if 'nobad' in var and 'BAD_DATA' in hdr and m.dtype.kind == 'f' and m._sentinel == hpg.UNSEEN:
                del hdr['BAD_DATA']
                applied = True
                VARIANTS_APPLIED[0] += 1
            if applied:
                hdu = afits.BinTableHDU(tbl, header=hdr)
                hdu.writeto(path, overwrite=True)
        return 'ok'

    def op_hpximplicit(self, pos, kv):
        """a full-sky HEALPix file as healpy would write it (written here with astropy)"""
        import astropy.io.fits as afits
        dt = DTYPES[kv['dtype']]
        vals = np.array([dec_val(t) for t in split_list(kv['vals'])]).astype(dt)
        col = kv.get('col', 'T')
        tbl = np.zeros(vals.size, dtype=[(col, dt)])
        tbl[col] = vals
        hdu = afits.BinTableHDU(tbl)
        hdu.header['PIXTYPE'] = 'HEALPIX'
        hdu.header['ORDERING'] = kv.get('ordering', 'NESTED')
        hdu.header['INDXSCHM'] = 'IMPLICIT'
        hdu.header['NSIDE'] = 2 ** int(kv['spord'])
        path = os.path.join(self.tmpdir(), kv.get('f', 'f') + '.hpi.fits')
        hdu.writeto(path, overwrite=True)
        self.files[kv.get('f', 'f')] = path
        return 'ok'

    def op_hpxread(self, pos, kv):
        if kv.get('f', 'f') not in self.files:
            raise NoMap(kv.get('f', 'f'))
        self.pool[kv['r']] = self.read_maybe_header(kv, self.files[kv.get('f', 'f')],
                                                    nside_coverage=2 ** int(kv['covord']))
        return 'ok'

    # ---- geometry ---------------------------------------------------------------------
    def make_geom(self, kv, m):
        par = [float(t) for t in kv['params'].split(':')]
        if 'bits' in kv:
            value = [int(t) for t in split_list(kv['bits'])]
        else:
            v = dec_val(kv['value'])
            if isinstance(v, bool):
                value = v
            elif kv.get('vtype', 'int') == 'flt':
                value = float(v)
            else:
                value = int(v)
        kw = {'value': value}
        if 'render' in kv:
            kw['nside_render'] = 2 ** int(kv['render'])
        k = kv['shape']
        if k == 'circle':
            return healsparse.Circle(ra=par[0], dec=par[1], radius=par[2], **kw)
        if k == 'ellipse':
            return healsparse.Ellipse(ra=par[0], dec=par[1], semi_major=par[2], semi_minor=par[3], alpha=par[4], **kw)
        if k == 'box':
            return healsparse.Box(ra1=par[0], ra2=par[1], dec1=par[2], dec2=par[3], **kw)
        if k == 'polygon':
            return healsparse.Polygon(ra=par[0::2], dec=par[1::2], **kw)
        raise BadOp(k)

    def op_geom(self, pos, kv):
        m = self.m(pos[0])
        g = self.make_geom(kv, m)
        nside = m.nside_sparse
        ranges = g.get_pixel_ranges(nside=nside)
        pixels = g.get_pixels(nside=nside)
        # hpgeom / GeomBase consistency (real side only): pixels == expand(ranges); with nside_render
        # the pixels are exactly the children of the pixels rendered at that resolution
        ok = np.array_equal(np.sort(pixels), np.sort(hpg.pixel_ranges_to_pixels(ranges)))
        if 'render' in kv and ok:
            nr = 2 ** int(kv['render'])
            coarse = g.get_pixels(nside=nr)
            sh = 2 * int(round(np.log2(nside / nr)))
            ok = np.array_equal(np.unique(np.right_shift(pixels, sh)), np.sort(coarse)) and \
                pixels.size == coarse.size * (1 << sh)
        line = "geom %s %s ranges=%s" % (pos[0], ' '.join("%s=%s" % kv_ for kv_ in kv.items() if kv_[0] not in ('params',)),
                                        enc.enc_ranges(ranges))
        try:
            mode = kv.get('mode', 'ior')
            op = kv.get('op', 'or')
            if mode == 'ior':
                if op == 'or':
                    m |= g
                elif op == 'and':
                    m &= g
                else:
                    m += g
                self.pool[pos[0]] = m
            elif mode == 'or':
                self.pool[kv['r']] = (m | g) if op == 'or' else (m & g) if op == 'and' else (m + g)
            elif mode == 'realize':
                healsparse.realize_geom(g, m)
            elif mode == 'getmap':
                kw = {}
                if m.is_wide_mask_map:
                    dt = healsparse.WIDE_MASK
                else:
                    dt = m.dtype
                self.pool[kv['r']] = g.get_map(nside_coverage=m.nside_coverage, nside_sparse=nside, dtype=dt, **kw)
            elif mode == 'getmaplike':
                self.pool[kv['r']] = g.get_map_like(m)
            else:
                raise BadOp(mode)
        except BadOp:
            raise
        except Exception as e:
            return 'err ' + type(e).__name__, line
        return ('ok' if ok else 'pixels-ranges-mismatch'), line

    def op_set(self, pos, kv):
        """m[a:b:c] = value"""
        m = self.m(pos[0])
        a, b, st = [int(t) for t in kv['slice'].split(':')]
        values = None if kv.get('none') == '1' else self.scalar_for(m, kv['val'])
        m[a:b:st] = values
        return 'ok'
