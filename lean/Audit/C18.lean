import HealSparse.Props.C18
#print axioms HS.C18.contribution_spec
#print axioms HS.C18.contribution_nodup
#print axioms HS.C18.summary_complete
#print axioms HS.C18.cat_union
#print axioms HS.C18.cat_overlap_raises_iff
