#!/usr/bin/env python3
"""Writes /verif/MANIFEST.json from the table below (kept in one place so it stays valid)."""
import json
import os

VERIF = os.path.dirname(os.path.dirname(os.path.abspath(__file__)))
PROPS = [json.loads(l) for l in open(os.path.join(VERIF, 'properties.jsonl'))]

# pid -> (claimed?, level text, level note, technique)
CLAIMS = {
}
NOT_YET = "check not built yet in this round (work in progress; see DESIGN.md section 12)"

checks, na = [], []
for p in PROPS:
    pid = p['id']
    if pid in CLAIMS:
        text, note, tech, ref = CLAIMS[pid]
        checks.append({
            'property_id': pid,
            'quick_cmd': './check %s --tier quick' % pid,
            'thorough_cmd': './check %s --tier thorough' % pid,
            'evidence_file': 'evidence/%s.json' % pid,
            'replay_cmd_template': './check %s --replay {path}' % pid,
            'engine': 'lean4-model+correspondence',
            'level_claimed': {'category': 'proof', 'text': text, 'design_ref': ref},
            'level_note': note,
            'technique': tech,
        })
    else:
        na.append({'property_id': pid, 'reason': NOT_YET})

m = {
    'version': 1,
    'setup_cmd': 'cd lean && lake build HealSparse hsdriver',
    'hooks': {
        'guard': 'LSSTDESC_HEALSPARSE_VERIF',
        'enable': 'no source hooks: the harness drives the public API and reads private attributes from outside',
        'baseline_off_cmd': 'cd /repo && /venv/bin/python -m pytest -ra -q -p no:cacheprovider --timeout=900 '
                            '--continue-on-collection-errors',
        'source_commits': [],
        'add_only': True,
    },
    'engines': [{
        'name': 'lean4-model+correspondence', 'path': 'lean/ , harness/',
        'serves_properties': [c['property_id'] for c in checks],
        'kind_free_text': 'Lean 4 theorems about a hand-written executable model (lean/HealSparse) + differential '
                          'correspondence of that model against /repo on generated histories (harness/)',
    }],
    'checks': checks,
    'not_applicable': na,
    'notes': 'see DESIGN.md; known findings and fixes in known_findings.json',
}
json.dump(m, open(os.path.join(VERIF, 'MANIFEST.json'), 'w'), indent=1)
print("checks:", len(checks), "not_applicable:", len(na))
