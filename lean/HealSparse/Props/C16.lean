/-
  C16 — HEALPix interchange, RING/NEST and position addressing are consistent.
  Property theorems only (helpers in HealSparse/Lemmas).  Proved: the structural part
  (conversion to and from dense arrays, reordering through ANY pair of mutually inverse
  permutations, the interpolation validity rule).  Trusted: hpgeom's ring/nest maps,
  angle_to_pixel, interpolation neighbours and weights (parameters here; the correspondence
  run uses hpgeom's own tables), and the floating-point weighted mean.
-/
import HealSparse.Lemmas.Core
import HealSparse.Lemmas.Coverage
import HealSparse.Lemmas.Valid
import HealSparse.Lemmas.Healpix
import HealSparse.Model.Healpix
import HealSparse.Props.C01
import HealSparse.Props.C02
import HealSparse.Props.C04
namespace HS
namespace C16

variable {V W : Type} [DecidableEq V] [DecidableEq W]

/-- **from HEALPix**: converting a dense NEST array (one entry per pixel) gives a well-formed
    map holding the array's value at every selected pixel and the sentinel elsewhere; a
    coverage pixel is covered iff it holds a selected pixel. -/
theorem convert_spec (c : Cfg) (vc : VCfg V) (hp : Array V) (sel : V → Bool) (hsz : hp.size = c.npix) :
    Inv c vc (convertHealpix c vc hp sel) ∧
    (∀ p, p < c.npix → abs c vc (convertHealpix c vc hp sel) p
        = if sel (rd hp p vc.sentinel) then rd hp p vc.sentinel else vc.sentinel) ∧
    (∀ k, k < c.ncov → covered c (convertHealpix c vc hp sel) k
        = (List.range c.npix).any fun p => sel (rd hp p vc.sentinel) && p >>> c.shift == k) := by
  exact convertHealpix_spec' c vc hp sel hsz

/-- **to HEALPix** (NEST): the exported array has the converted value at every valid pixel and
    the fill value (UNSEEN / the sentinel) elsewhere; never raises on a well-formed map. -/
theorem generate_spec (c : Cfg) (vc : VCfg V) (s : State V) (fill : W) (conv : V → W) (h : Inv c vc s)
    (hv : vc.valid vc.sentinel = false) :
    ∃ a, generateHealpix c vc s fill conv = some a ∧ a.size = c.npix ∧
      ∀ p, p < c.npix → rd a p fill = if vc.valid (abs c vc s p) then conv (abs c vc s p) else fill := by
  exact h.generateHealpix_spec' hv fill conv

/-- **round trip**: exporting the map made from a dense array reproduces the array, provided
    the array marks its unobserved pixels with the fill value, selection is validity, and no
    observed value coincides with the sentinel. -/
theorem healpix_round_trip (c : Cfg) (vc : VCfg V) (hp : Array V) (hsz : hp.size = c.npix)
    (hv : vc.valid vc.sentinel = false)
    (hunobs : ∀ p, p < c.npix → vc.valid (rd hp p vc.sentinel) = false → rd hp p vc.sentinel = vc.sentinel) :
    ∃ a, generateHealpix c vc (convertHealpix c vc hp vc.valid) vc.sentinel id = some a ∧
      a.size = c.npix ∧ ∀ p, p < c.npix → rd a p vc.sentinel = rd hp p vc.sentinel := by
  obtain ⟨hinv, habs, _⟩ := convertHealpix_spec' c vc hp vc.valid hsz
  obtain ⟨a, ha, hsize, hrd⟩ := hinv.generateHealpix_spec' hv vc.sentinel id
  refine ⟨a, ha, hsize, ?_⟩
  intro p hp'
  rw [hrd p hp', habs p hp']
  cases hval : vc.valid (rd hp p vc.sentinel) with
  | true => simp [hval]
  | false =>
    simp only [Bool.false_eq_true, if_false, hv]
    exact (hunobs p hp' hval).symm

/-- **RING export**: with mutually inverse `nest_to_ring` / `ring_to_nest`, entry `r` of the RING
    export is what the NEST export holds at `ring_to_nest r`. -/
theorem generate_ring_spec (c : Cfg) (vc : VCfg V) (s : State V) (fill : W) (conv : V → W)
    (n2r r2n : Nat → Nat) (h : Inv c vc s) (hv : vc.valid vc.sentinel = false)
    (hinv1 : ∀ p, p < c.npix → r2n (n2r p) = p) (hinv2 : ∀ r, r < c.npix → n2r (r2n r) = r)
    (hr1 : ∀ p, p < c.npix → n2r p < c.npix) (hr2 : ∀ r, r < c.npix → r2n r < c.npix) :
    ∃ a, generateHealpixRing c vc s fill conv n2r r2n = some a ∧ a.size = c.npix ∧
      ∀ r, r < c.npix → rd a r fill
        = if vc.valid (abs c vc s (r2n r)) then conv (abs c vc s (r2n r)) else fill := by
  exact h.generateHealpixRing_spec' hv fill conv n2r r2n hinv1 hinv2 hr1 hr2

/-- **RING import**: reordering a RING array with a permutation puts entry `i` at `r2n i` -/
theorem reorder_spec (r2n n2r : Nat → Nat) (ring : Array V) (dflt : V)
    (hr : ∀ i, i < ring.size → r2n i < ring.size)
    (hinv : ∀ i, i < ring.size → n2r (r2n i) = i) (hinv2 : ∀ p, p < ring.size → r2n (n2r p) = p)
    (hn : ∀ p, p < ring.size → n2r p < ring.size)
    (p : Nat) (hp : p < ring.size) :
    rd (reorderRingToNest r2n ring dflt) p dflt = rd ring (n2r p) dflt := by
  have _ := hr
  exact reorderRingToNest_spec r2n n2r ring dflt hinv hinv2 hn p hp

/-- **interpolation rule**: the result is UNSEEN exactly when (no partial) some neighbour is
    invalid or (partial) all are; otherwise the contributing set is exactly the valid
    neighbours — all of them when `allow_partial` is off. -/
theorem interp_rule (vc : VCfg V) (nbrs : List (V × W)) (allowPartial : Bool) :
    (interpContrib vc nbrs allowPartial = none ↔
      (allowPartial = false ∧ ∃ vw ∈ nbrs, vc.valid vw.1 = false) ∨
      (allowPartial = true ∧ ∀ vw ∈ nbrs, vc.valid vw.1 = false)) ∧
    (∀ l, interpContrib vc nbrs allowPartial = some l → l = nbrs.filter fun vw => vc.valid vw.1) := by
  exact interpContrib_rule vc nbrs allowPartial

/-- non-vacuity -/
example : (convertHealpix (V := Int) ⟨3, 1⟩ ⟨-1, fun x => x != -1⟩ #[-1, -1, -1, -1, 7, -1] (· != -1)).sp
    = #[-1, -1, 7, -1] := by decide +kernel

end C16
end HS
