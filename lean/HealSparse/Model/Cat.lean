/-
  Concatenation of map files: `cat_healsparse_files(in_memory=True)` and
  `_read_partial_sparsemap` (cat_healsparse_files.py, after the `fix:` commits).

  Inputs share `nside_sparse` (so `ncov_i * nfine_i = npix` for all of them) but may have
  different coverage resolutions; the output coverage resolution is a parameter.
-/
import HealSparse.Model.Core
import HealSparse.Model.Map
import HealSparse.Model.Valid
import HealSparse.Model.FitsIO
namespace HS

variable {V : Type}

/-- one input file: its configuration and its COV / SPARSE extensions -/
structure CatIn (V : Type) where
  c : Cfg
  f : FitsFile V

def CatIn.state (i : CatIn V) : State V := ⟨i.f.cov, i.f.data⟩

/-- `_read_partial_sparsemap(pixels)`: the overflow block and one block per requested pixel
    that the input covers (ascending), with the index built for exactly those pixels. -/
def catPartial (c : Cfg) (vc : VCfg V) (f : FitsFile V) (pixels : List Nat) : State V :=
  let px := partialPixels c f pixels
  let s : State V := ⟨f.cov, f.data⟩
  let block (start : Nat) : List V := (List.range c.nfine).map fun j => rd f.data (start + j) vc.sentinel
  { cov := initializePixels c (emptyCov c) px
    sp := (block 0 ++ px.flatMap fun k => block (blockStart c s k).toNat).toArray }

/-- row `i` of `cov_mask_summary`: does input `i` contribute to output coverage pixel `k`? -/
def catSummary (cOut : Cfg) (vc : VCfg V) (i : CatIn V) (k : Nat) : Bool :=
  if i.c.shift = cOut.shift then covered i.c i.state k
  else if cOut.shift < i.c.shift then
    -- input coverage coarser than the output: the whole map is read; its valid pixels decide
    match validPixels i.c vc i.state with
    | some vp => vp.any fun p => p.toNat >>> cOut.shift == k
    | none => false
  else
    -- input coverage finer: its covered pixels shifted down
    (List.range i.c.ncov).any fun ki => covered i.c i.state ki && ki >>> (cOut.shift - i.c.shift) == k

/-- the (pixel, value) pairs input `i` contributes to output coverage pixel `pix`
    (lines 180-228): a partial read of the matching / parent / children coverage pixels,
    then the valid pixels of that partial map -/
def catContribution (cOut : Cfg) (vc : VCfg V) (i : CatIn V) (pix : Nat) : List (Nat × V) :=
  let ci := i.c
  if ci.shift = cOut.shift then
    let part := catPartial ci vc i.f [pix]
    ((validPixels ci vc part).getD []).map fun p => (p.toNat, abs ci vc part p.toNat)
  else if cOut.shift < ci.shift then
    let part := catPartial ci vc i.f [pix >>> (ci.shift - cOut.shift)]
    (((validPixels ci vc part).getD []).filter fun p => p.toNat >>> cOut.shift == pix).map
      fun p => (p.toNat, abs ci vc part p.toNat)
  else
    let d := cOut.shift - ci.shift
    let part := catPartial ci vc i.f ((List.range (2 ^ d)).map fun j => (pix <<< d) + j)
    ((validPixels ci vc part).getD []).map fun p => (p.toNat, abs ci vc part p.toNat)

/-- one (output coverage pixel, input) step of the double loop (lines 230-249);
    `none` = RuntimeError (overlap) -/
def catStep (cOut : Cfg) (vc : VCfg V) (checkOverlap orOk : Bool) (orF : V → V → V)
    (out : State V) (L : List (Nat × V)) : Option (State V) :=
  if checkOverlap && L.any (fun pv => vc.valid (abs cOut vc out pv.1)) then
    if !orOk then none
    else
      some (updatePix cOut vc out none (fun _ (w : V) => w)
        (L.map fun pv =>
          (pv.1, if vc.valid (abs cOut vc out pv.1) then orF pv.2 (abs cOut vc out pv.1) else pv.2)) false)
  else some (updatePix cOut vc out none (fun _ (w : V) => w) L false)

/-- `cat_healsparse_files(files, in_memory=True, nside_coverage_out=…, check_overlap=…, or_overlap=…)`:
    the map that is written to the output file. `orOk` ⇔ integer map ∧ or_overlap. -/
def catFiles (cOut : Cfg) (vc : VCfg V) (inputs : List (CatIn V)) (checkOverlap orOk : Bool)
    (orF : V → V → V) : Option (State V) :=
  let covPix := (List.range cOut.ncov).filter fun k => inputs.any fun i => catSummary cOut vc i k
  covPix.foldl (fun acc pix =>
    inputs.foldl (fun acc i =>
      match acc with
      | none => none
      | some out =>
        if catSummary cOut vc i pix then
          let L := catContribution cOut vc i pix
          if cOut.shift < i.c.shift && L.isEmpty then some out      -- `continue`
          else catStep cOut vc checkOverlap orOk orF out L
        else some out) acc) (some (makeEmpty cOut vc []))

end HS
