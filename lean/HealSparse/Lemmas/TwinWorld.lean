/-
  C05 at the world level: a bit-packed boolean map is indistinguishable from an ordinary
  boolean map — a SIMULATION between two worlds that differ only in which boolean entries are
  `.packed` and which are `.plain .bool`.

  Method.  `MapObj.norm` retags a bit-packed map as an ordinary boolean map (nothing else
  changes: in the model both kinds keep `.bool` cells; the packing itself is proved at the array
  level in Props/C05.lean).  Two maps are twins iff their normal forms are equal
  (`MapObj.twin_iff`), likewise files and worlds.  Each operation `opXxx` COMMUTES with the
  normalisation of the world (`Sim (opXxx w.norm a) (opXxx w a)`: same answer, same normalised
  result) — unless the line falls in the explicit exception set `asym` — hence the same line
  run in two twin worlds gives the same answer and twin worlds again.
-/
import HealSparse.Lemmas.CacheWorld
namespace HS

open WFApi WFRes WFFiles

/-! ### twins and normal forms: kinds, maps -/

/-- equal, or both boolean (bit-packed / ordinary) -/
def Kind.Twin (k₁ k₂ : Kind) : Prop :=
  k₁ = k₂ ∨ ((k₁ = .packed ∨ k₁ = .plain .bool) ∧ (k₂ = .packed ∨ k₂ = .plain .bool))

/-- two map objects that differ at most in the boolean representation -/
def MapObj.Twin (a b : MapObj) : Prop :=
  a.covord = b.covord ∧ a.spord = b.spord ∧ Kind.Twin a.kind b.kind ∧ a.sent = b.sent ∧
    a.st = b.st ∧ a.cache = b.cache ∧ a.view = b.view

def Kind.norm : Kind → Kind
  | .packed => .plain .bool
  | k => k

/-- the ordinary-boolean form of a map -/
def MapObj.norm (m : MapObj) : MapObj := { m with kind := m.kind.norm }

theorem Kind.twin_iff {k₁ k₂ : Kind} : Kind.Twin k₁ k₂ ↔ k₁.norm = k₂.norm := by
  unfold Kind.Twin
  constructor
  · rintro (rfl | ⟨h1 | h1, h2 | h2⟩) <;> first | rfl | (subst h1; subst h2; rfl)
  · intro h
    cases k₁ <;> cases k₂ <;> simp [Kind.norm] at h ⊢ <;> first | exact h | (subst h; simp)

theorem Kind.norm_norm (k : Kind) : k.norm.norm = k.norm := by cases k <;> rfl

theorem Kind.norm_of_ne {k : Kind} (h : k ≠ .packed) : k.norm = k := by
  cases k <;> first | rfl | exact absurd rfl h

theorem MapObj.twin_iff {a b : MapObj} : a.Twin b ↔ a.norm = b.norm := by
  obtain ⟨c1, s1, k1, t1, st1, ca1, v1⟩ := a
  obtain ⟨c2, s2, k2, t2, st2, ca2, v2⟩ := b
  simp only [MapObj.Twin, MapObj.norm, MapObj.mk.injEq, Kind.twin_iff]

theorem MapObj.norm_norm (m : MapObj) : m.norm.norm = m.norm := by
  unfold MapObj.norm; simp only [Kind.norm_norm]

theorem MapObj.norm_of_ne {m : MapObj} (h : m.kind ≠ .packed) : m.norm = m := by
  unfold MapObj.norm; rw [Kind.norm_of_ne h]

theorem MapObj.norm_of_packed {m : MapObj} (h : m.kind = .packed) :
    m.norm = { m with kind := .plain .bool } := by
  unfold MapObj.norm; rw [h]; rfl

@[simp] theorem MapObj.norm_covord (m : MapObj) : m.norm.covord = m.covord := rfl
@[simp] theorem MapObj.norm_spord (m : MapObj) : m.norm.spord = m.spord := rfl
@[simp] theorem MapObj.norm_sent (m : MapObj) : m.norm.sent = m.sent := rfl
@[simp] theorem MapObj.norm_st (m : MapObj) : m.norm.st = m.st := rfl
@[simp] theorem MapObj.norm_cache (m : MapObj) : m.norm.cache = m.cache := rfl
@[simp] theorem MapObj.norm_view (m : MapObj) : m.norm.view = m.view := rfl
@[simp] theorem MapObj.norm_c (m : MapObj) : m.norm.c = m.c := rfl

theorem MapObj.Twin.refl (m : MapObj) : m.Twin m := MapObj.twin_iff.2 rfl
theorem MapObj.Twin.symm {a b : MapObj} (h : a.Twin b) : b.Twin a :=
  MapObj.twin_iff.2 (MapObj.twin_iff.1 h).symm
theorem MapObj.Twin.trans {a b c : MapObj} (h : a.Twin b) (h' : b.Twin c) : a.Twin c :=
  MapObj.twin_iff.2 ((MapObj.twin_iff.1 h).trans (MapObj.twin_iff.1 h'))
theorem MapObj.twin_norm (m : MapObj) : m.norm.Twin m := MapObj.twin_iff.2 m.norm_norm

/-- a well-typed bit-packed map and its ordinary-boolean form have the same cell parameters -/
theorem MapObj.norm_vc {m : MapObj} (hk : m.KindOk) : m.norm.vc = m.vc := by
  by_cases hp : m.kind = .packed
  · have hs : m.sent = .bool false := by
      unfold MapObj.KindOk MapObj.kindOk at hk
      rw [hp] at hk
      exact eq_of_beq hk
    unfold MapObj.vc MapObj.norm
    rw [hp, hs]
    rfl
  · rw [MapObj.norm_of_ne hp]

/-! ### files -/

/-- two files that differ at most in the boolean representation: a bit-packed map is written with
    `BITPACK`, an ordinary boolean map as an `i2` array (with a boolean `SENTINEL`) -/
def FileObj.Twin (f g : FileObj) : Prop :=
  f.covord = g.covord ∧ f.spord = g.spord ∧ f.sentinel = g.sentinel ∧ f.primary = g.primary ∧
    f.fields = g.fields ∧ f.wwidth = g.wwidth ∧ f.mdata = g.mdata ∧ f.file = g.file ∧
    ((f.arrDT = g.arrDT ∧ f.bitpack = g.bitpack) ∨
     ((f.bitpack = true ∨ f.arrDT = "i2") ∧ (g.bitpack = true ∨ g.arrDT = "i2")))

/-- the ordinary-boolean form of a file -/
def FileObj.norm (f : FileObj) : FileObj :=
  if f.bitpack then { f with bitpack := false, arrDT := "i2" } else f

theorem FileObj.twin_iff {f g : FileObj} : f.Twin g ↔ f.norm = g.norm := by
  obtain ⟨c1, s1, a1, t1, p1, fs1, w1, b1, md1, fl1⟩ := f
  obtain ⟨c2, s2, a2, t2, p2, fs2, w2, b2, md2, fl2⟩ := g
  unfold FileObj.Twin FileObj.norm
  cases b1 <;> cases b2 <;>
    simp only [Bool.false_eq_true, if_false, if_true, FileObj.mk.injEq, Bool.true_eq_false,
      and_true, and_false, false_or, true_or, or_false, true_and, false_and, or_true] <;>
    constructor <;> intro h <;>
    first
    | (simp_all; done)
    | (obtain ⟨e1, e2, e3, e4, e5, e6, e7, e8, (e9 | ⟨e9, e10⟩)⟩ := h <;> simp_all)

theorem FileObj.norm_norm (f : FileObj) : f.norm.norm = f.norm := by
  unfold FileObj.norm
  by_cases h : f.bitpack = true <;> simp [h]

/-! ### worlds -/

/-- same names in the same order, the named objects pairwise related -/
def NamedTwin {α : Type} (R : α → α → Prop) (l₁ l₂ : List (String × α)) : Prop :=
  l₁.map (·.1) = l₂.map (·.1) ∧ ∀ p ∈ l₁.zip l₂, R p.1.2 p.2.2

theorem namedTwin_iff {α : Type} {R : α → α → Prop} (f : α → α) (hR : ∀ a b, R a b ↔ f a = f b)
    (l₁ l₂ : List (String × α)) :
    NamedTwin R l₁ l₂ ↔ l₁.map (fun e => (e.1, f e.2)) = l₂.map (fun e => (e.1, f e.2)) := by
  unfold NamedTwin
  induction l₁ generalizing l₂ with
  | nil => cases l₂ <;> simp
  | cons x xs ih =>
    cases l₂ with
    | nil => simp
    | cons y ys =>
      simp only [List.map_cons, List.cons.injEq, List.zip_cons_cons, List.mem_cons, forall_eq_or_imp,
        Prod.mk.injEq]
      rw [← ih ys]
      constructor
      · rintro ⟨⟨h1, h2⟩, h3, h4⟩; exact ⟨⟨h1, (hR _ _).1 h3⟩, h2, h4⟩
      · rintro ⟨⟨h1, h3⟩, h2, h4⟩; exact ⟨⟨h1, h2⟩, (hR _ _).2 h3, h4⟩

/-- two worlds that differ at most in the boolean representation of their maps and files -/
def World.Twin (w₁ w₂ : World) : Prop :=
  NamedTwin MapObj.Twin w₁.pool w₂.pool ∧ NamedTwin FileObj.Twin w₁.files w₂.files ∧
    w₁.packed = w₂.packed ∧ w₁.mocs = w₂.mocs ∧ w₁.hpfiles = w₂.hpfiles ∧ w₁.metas = w₂.metas

/-- the ordinary-boolean form of a world -/
def World.norm (w : World) : World :=
  { w with pool := w.pool.map (fun e => (e.1, e.2.norm)), files := w.files.map (fun e => (e.1, e.2.norm)) }

theorem World.twin_iff {w₁ w₂ : World} : w₁.Twin w₂ ↔ w₁.norm = w₂.norm := by
  obtain ⟨p1, k1, m1, f1, h1, t1⟩ := w₁
  obtain ⟨p2, k2, m2, f2, h2, t2⟩ := w₂
  simp only [World.Twin, World.norm, World.mk.injEq,
    namedTwin_iff MapObj.norm (fun a b => MapObj.twin_iff),
    namedTwin_iff FileObj.norm (fun a b => FileObj.twin_iff)]
  constructor
  · rintro ⟨a, b, c, d, e, f⟩; exact ⟨a, c, d, b, e, f⟩
  · rintro ⟨a, c, d, b, e, f⟩; exact ⟨a, b, c, d, e, f⟩

theorem World.norm_norm (w : World) : w.norm.norm = w.norm := by
  unfold World.norm
  simp only [List.map_map, World.mk.injEq, true_and, and_true]
  constructor
  · apply List.map_congr_left; intro e _; simp [MapObj.norm_norm]
  · apply List.map_congr_left; intro e _; simp [FileObj.norm_norm]

theorem World.Twin.refl (w : World) : w.Twin w := World.twin_iff.2 rfl
theorem World.Twin.symm {a b : World} (h : a.Twin b) : b.Twin a :=
  World.twin_iff.2 (World.twin_iff.1 h).symm
theorem World.Twin.trans {a b c : World} (h : a.Twin b) (h' : b.Twin c) : a.Twin c :=
  World.twin_iff.2 ((World.twin_iff.1 h).trans (World.twin_iff.1 h'))
theorem World.twin_norm (w : World) : w.norm.Twin w := World.twin_iff.2 w.norm_norm

@[simp] theorem World.norm_packed (w : World) : w.norm.packed = w.packed := rfl
@[simp] theorem World.norm_mocs (w : World) : w.norm.mocs = w.mocs := rfl
@[simp] theorem World.norm_hpfiles (w : World) : w.norm.hpfiles = w.hpfiles := rfl
@[simp] theorem World.norm_metas (w : World) : w.norm.metas = w.metas := rfl

/-! ### looking up and storing in the normalised world -/

theorem World.raw?_norm (w : World) (n : String) : w.norm.raw? n = (w.raw? n).map MapObj.norm := by
  unfold World.raw? World.norm
  simp only [List.find?_map, Option.map_map]
  rfl

theorem World.files_find_norm (w : World) (n : String) :
    (w.norm.files.find? (·.1 == n)).map (·.2) = ((w.files.find? (·.1 == n)).map (·.2)).map FileObj.norm := by
  unfold World.norm
  simp only [List.find?_map, Option.map_map]
  rfl

theorem materializeView_not_recd {p : MapObj} (pn : String) (i : Nat) (s : Val) (c : Option Nat)
    (h : p.kind.isRecd = false) : ∃ e, materializeView p pn i s c = .error e := by
  cases hm : materializeView p pn i s c with
  | error e => exact ⟨e, rfl⟩
  | ok v => rw [materializeView_parent_recd hm] at h; cases h

/-- **lookup commutes with normalisation** (a view is resolved against its parent, a record map,
    which normalisation leaves alone) -/
theorem World.get?_norm (w : World) (n : String) : w.norm.get? n = (w.get? n).map MapObj.norm := by
  unfold World.get?
  rw [World.raw?_norm]
  cases hd : w.raw? n with
  | none => rfl
  | some d =>
    simp only [Option.map_some, MapObj.norm_view]
    cases hv : d.view with
    | none => rfl
    | some x =>
      obtain ⟨pn, i⟩ := x
      simp only [World.raw?_norm]
      cases hp : w.raw? pn with
      | none => rfl
      | some p =>
        simp only [Option.map_some, MapObj.norm_sent, MapObj.norm_cache]
        by_cases hpk : p.kind = .packed
        · -- a bit-packed "parent": the view does not resolve, in either world
          obtain ⟨e1, h1⟩ := materializeView_not_recd (p := p) pn i d.sent d.cache (by rw [hpk]; rfl)
          obtain ⟨e2, h2⟩ := materializeView_not_recd (p := p.norm) pn i d.sent d.cache
            (by rw [MapObj.norm_of_packed hpk]; rfl)
          rw [h1, h2]
          simp
        · simp only [MapObj.norm_of_ne hpk]
          split
          · rfl
          · cases hm : materializeView p pn i d.sent d.cache with
            | error e => rfl
            | ok v =>
              obtain ⟨dt, s, _, _, _, h3, _⟩ := materializeView_ok hm
              simp only
              by_cases hdk : d.kind = .packed
              · have e1 : (v.kind == d.norm.kind && d.norm.kind != .plain .bool) = false := by
                  rw [MapObj.norm_of_packed hdk]; simp
                have e2 : (v.kind == d.kind && d.kind != .plain .bool) = false := by
                  rw [h3, hdk]; simp
                rw [e1, e2]; rfl
              · simp only [MapObj.norm_of_ne hdk]
                split
                · have : v.norm = v := MapObj.norm_of_ne (by rw [h3]; intro h; cases h)
                  rw [Option.map_some, this]
                · rfl

theorem writeBackView_norm (p : MapObj) (i : Nat) (m : MapObj) :
    (writeBackView p i m).norm = writeBackView p.norm i m.norm := rfl

theorem World.bind_norm (w : World) (r : String) (m : MapObj) :
    (w.bind r m).norm = w.norm.bind r m.norm := by
  unfold World.bind World.norm
  simp only [List.map_cons, List.filter_map, World.mk.injEq, and_true]
  rfl

theorem World.put_norm (w : World) (n : String) (m : MapObj) :
    (w.put n m).norm = w.norm.put n m.norm := by
  unfold World.put
  rw [World.raw?_norm]
  have e : ((w.raw? n).map MapObj.norm).bind (·.view) = (w.raw? n).bind (·.view) := by
    cases w.raw? n <;> rfl
  rw [e, MapObj.norm_view]
  split
  · rename_i pn i x h1 h2
    simp only [World.raw?_norm]
    cases hp : w.raw? pn with
    | none => rfl
    | some p =>
      simp only [Option.map_some]
      unfold World.norm
      simp only [List.map_cons, List.filter_map, World.mk.injEq, and_true]
      rfl
  · unfold World.norm
    simp only [List.map_cons, List.filter_map, World.mk.injEq, and_true]
    rfl

/-! ### the API on a bit-packed map and on its ordinary-boolean form -/

theorem map_ite_E {ε α β : Type} (f : α → β) (c : Prop) [Decidable c] (a b : Except ε α) :
    f <$> (if c then a else b) = if c then f <$> a else f <$> b := by
  split <;> rfl
theorem throw_bind_E {ε α β : Type} (e : ε) (f : α → Except ε β) :
    (throw e : Except ε α) >>= f = throw e := rfl
theorem map_throw_E {ε α β : Type} (f : α → β) (e : ε) : f <$> (throw e : Except ε α) = throw e := rfl

theorem valMatchesKind_packed : valMatchesKind .packed = valMatchesKind (.plain .bool) := by
  funext v; cases v <;> rfl

/-- a bit-packed map object with sentinel `False` (what `KindOk` says of a bit-packed map) -/
def pkd (co so : Nat) (st : State Val) (cache : Option Nat) (view : Option (String × Nat)) : MapObj :=
  ⟨co, so, .packed, .bool false, st, cache, view⟩
/-- … and its ordinary-boolean form -/
def bln (co so : Nat) (st : State Val) (cache : Option Nat) (view : Option (String × Nat)) : MapObj :=
  ⟨co, so, .plain .bool, .bool false, st, cache, view⟩

section
variable (co so : Nat) (st : State Val) (cache : Option Nat) (view : Option (String × Nat))
@[simp] theorem pkd_covord : (pkd co so st cache view).covord = co := rfl
@[simp] theorem pkd_spord : (pkd co so st cache view).spord = so := rfl
@[simp] theorem pkd_kind : (pkd co so st cache view).kind = .packed := rfl
@[simp] theorem pkd_sent : (pkd co so st cache view).sent = .bool false := rfl
@[simp] theorem pkd_st : (pkd co so st cache view).st = st := rfl
@[simp] theorem pkd_cache : (pkd co so st cache view).cache = cache := rfl
@[simp] theorem pkd_view : (pkd co so st cache view).view = view := rfl
@[simp] theorem bln_covord : (bln co so st cache view).covord = co := rfl
@[simp] theorem bln_spord : (bln co so st cache view).spord = so := rfl
@[simp] theorem bln_kind : (bln co so st cache view).kind = .plain .bool := rfl
@[simp] theorem bln_sent : (bln co so st cache view).sent = .bool false := rfl
@[simp] theorem bln_st : (bln co so st cache view).st = st := rfl
@[simp] theorem bln_cache : (bln co so st cache view).cache = cache := rfl
@[simp] theorem bln_view : (bln co so st cache view).view = view := rfl
theorem pkd_norm : (pkd co so st cache view).norm = bln co so st cache view := rfl
theorem bln_lit (x : Option Nat) (st' : State Val) :
    (⟨co, so, .plain .bool, .bool false, st', x, view⟩ : MapObj) = bln co so st' x view := rfl
theorem pkd_lit (x : Option Nat) (st' : State Val) :
    (⟨co, so, .packed, .bool false, st', x, view⟩ : MapObj) = pkd co so st' x view := rfl
theorem bln_c : (bln co so st cache view).c = (pkd co so st cache view).c := rfl
theorem bln_vc : (bln co so st cache view).vc = (pkd co so st cache view).vc := rfl
theorem bln_npix : (bln co so st cache view).npix = (pkd co so st cache view).npix := rfl
theorem bln_abs : (bln co so st cache view).abs = (pkd co so st cache view).abs := rfl
theorem bln_maxbits : (bln co so st cache view).maxbits = (pkd co so st cache view).maxbits := rfl
end

/-- retag as an ordinary boolean map -/
abbrev toBln (r : MapObj) : MapObj := { r with kind := .plain .bool }

section
variable (co so : Nat) (st : State Val) (cache : Option Nat) (view : Option (String × Nat))

theorem apiUpdate_lit (op : String) (pix : List Nat) (vals : Option (List Val)) (single : Bool)
    (ru : Option Bool) :
    apiUpdate ⟨co, so, .plain .bool, .bool false, st, cache, view⟩ op pix vals single ru =
      toBln <$> apiUpdate ⟨co, so, .packed, .bool false, st, cache, view⟩ op pix vals single ru := by
  unfold apiUpdate
  cases vals <;> cases ru <;>
    simp only [map_pure, map_ite_E, pure_bind, throw_bind_E, map_throw_E, valMatchesKind_packed] <;>
    rfl

theorem apiUpdate_pkd (op : String) (pix : List Nat) (vals : Option (List Val)) (single : Bool)
    (ru : Option Bool) :
    apiUpdate (bln co so st cache view) op pix vals single ru =
      toBln <$> apiUpdate (pkd co so st cache view) op pix vals single ru :=
  apiUpdate_lit co so st cache view op pix vals single ru

theorem apiUpdateRanges_lit (op : String) (R : List (Nat × Nat)) (val : Option Val) (sl : Bool) :
    apiUpdateRanges ⟨co, so, .plain .bool, .bool false, st, cache, view⟩ op R val sl =
      toBln <$> apiUpdateRanges ⟨co, so, .packed, .bool false, st, cache, view⟩ op R val sl := by
  unfold apiUpdateRanges
  cases val <;>
    simp only [map_bind, map_pure, map_ite_E, pure_bind, throw_bind_E, map_throw_E,
      valMatchesKind_packed, apiUpdate_lit, Option.map_none, Option.map_some, bind_map_left] <;>
    rfl

theorem apiUpdateRanges_pkd (op : String) (R : List (Nat × Nat)) (val : Option Val) (sl : Bool) :
    apiUpdateRanges (bln co so st cache view) op R val sl =
      toBln <$> apiUpdateRanges (pkd co so st cache view) op R val sl :=
  apiUpdateRanges_lit co so st cache view op R val sl

theorem apiScalarOp_pkd (op : String) (k : Scalar) :
    apiScalarOp (bln co so st cache view) op k = apiScalarOp (pkd co so st cache view) op k := by
  unfold apiScalarOp; rfl

theorem apiApplyMask_pkd_left (mask : MapObj) (bits : Option Int) (arr : Option (List Nat)) :
    apiApplyMask (bln co so st cache view) mask bits arr = apiApplyMask (pkd co so st cache view) mask bits arr := by
  unfold apiApplyMask; rfl

theorem apiApplyMask_pkd_right (m : MapObj) (bits : Option Int) (arr : Option (List Nat)) :
    apiApplyMask m (bln co so st cache view) bits arr = apiApplyMask m (pkd co so st cache view) bits arr := by
  unfold apiApplyMask; rfl

theorem apiAstype_pkd (dst : DT) (s : Option Val) :
    apiAstype (bln co so st cache view) dst s = apiAstype (pkd co so st cache view) dst s := by
  unfold apiAstype; rfl

theorem apiBoolOp_pkd_left (op : String) (rhs : BoolRhs) (ip : Bool) :
    apiBoolOp (bln co so st cache view) op rhs ip = apiBoolOp (pkd co so st cache view) op rhs ip := by
  unfold apiBoolOp; rfl

theorem apiBoolOp_pkd_right (a : MapObj) (op : String) (ip : Bool) :
    apiBoolOp a op (.map (bln co so st cache view)) ip = apiBoolOp a op (.map (pkd co so st cache view)) ip := by
  unfold apiBoolOp; rfl

theorem apiInvert_pkd : apiInvert (bln co so st cache view) = apiInvert (pkd co so st cache view) := by
  unfold apiInvert; rfl

theorem apiCheckBits_pkd (pix bits : List Nat) :
    apiCheckBits (bln co so st cache view) pix bits = apiCheckBits (pkd co so st cache view) pix bits := by
  unfold apiCheckBits; rfl

theorem apiSetBits_pkd (pix bits : List Nat) (clear : Bool) :
    apiSetBits (bln co so st cache view) pix bits clear =
      toBln <$> apiSetBits (pkd co so st cache view) pix bits clear := by
  unfold apiSetBits; rfl

theorem apiGet_pkd (pix : List Nat) :
    apiGet (bln co so st cache view) pix = apiGet (pkd co so st cache view) pix := by
  unfold apiGet; rfl

theorem apiWriteHealpix_pkd :
    apiWriteHealpix (bln co so st cache view) = apiWriteHealpix (pkd co so st cache view) := by
  unfold apiWriteHealpix; rfl

theorem apiInterp_pkd (nb : List (List (Nat × (Int × Nat)))) (ap : Bool) :
    apiInterp (bln co so st cache view) nb ap = apiInterp (pkd co so st cache view) nb ap := by
  unfold apiInterp; rfl

theorem apiGetSingleCopy_pkd (i : Nat) (s : Option Val) :
    apiGetSingleCopy (bln co so st cache view) i s = toBln <$> apiGetSingleCopy (pkd co so st cache view) i s := by
  unfold apiGetSingleCopy singleSentinel; rfl

theorem singleSentinel_pkd (i : Nat) (s : Option Val) :
    singleSentinel (bln co so st cache view) i s = singleSentinel (pkd co so st cache view) i s := by
  unfold singleSentinel; rfl

theorem apiGenerateHealpix_pkd (red : String) (key : Option Nat) (perm : Option (Array Nat × Array Nat)) :
    apiGenerateHealpix (bln co so st cache view) none red key perm =
      apiGenerateHealpix (pkd co so st cache view) none red key perm := by
  unfold apiGenerateHealpix
  simp only [Option.getD_none, Nat.lt_irrefl, gt_iff_lt, ↓reduceIte]
  rfl

theorem apiWrite_pkd (md : List (String × String)) :
    apiWrite (bln co so st cache view) md = (apiWrite (pkd co so st cache view) md).norm := by
  rfl
end

/-- a well-typed map is not bit-packed, or is literally a bit-packed object with sentinel `False` -/
theorem MapObj.packed_cases (m : MapObj) (hk : m.KindOk) :
    m.kind ≠ .packed ∨ ∃ co so st cache view, m = pkd co so st cache view := by
  by_cases hp : m.kind = .packed
  · right
    have hs : m.sent = .bool false := by
      unfold MapObj.KindOk MapObj.kindOk at hk
      rw [hp] at hk
      exact eq_of_beq hk
    obtain ⟨co, so, k, s, st, c, v⟩ := m
    simp only at hp hs
    subst hp hs
    exact ⟨co, so, st, c, v, rfl⟩
  · exact .inl hp

/-- the two results of an API call that keeps the kind, on a bit-packed map and on its
    ordinary-boolean form -/
theorem pkd_results {x : Except Err MapObj} {y : Except Err MapObj} (h : y = toBln <$> x)
    (hk : ∀ r, x = .ok r → r.kind = .packed) :
    (∃ r, x = .ok r ∧ y = .ok r.norm) ∨ (∃ e, x = .error e ∧ y = .error e) := by
  cases x with
  | error e => exact .inr ⟨e, rfl, h⟩
  | ok r =>
    refine .inl ⟨r, rfl, ?_⟩
    rw [h, MapObj.norm_of_packed (hk r rfl)]
    rfl

theorem apiUpdate_pkd_cases (co so : Nat) (st : State Val) (cache : Option Nat) (view : Option (String × Nat))
    (op : String) (pix : List Nat) (vals : Option (List Val)) (single : Bool) (ru : Option Bool) :
    (∃ r, apiUpdate (pkd co so st cache view) op pix vals single ru = .ok r ∧
        apiUpdate (bln co so st cache view) op pix vals single ru = .ok r.norm) ∨
    (∃ e, apiUpdate (pkd co so st cache view) op pix vals single ru = .error e ∧
        apiUpdate (bln co so st cache view) op pix vals single ru = .error e) :=
  pkd_results (apiUpdate_pkd co so st cache view op pix vals single ru)
    (fun _ hr => (WFApi.apiUpdate_ok hr).2.2.1)

theorem apiUpdateRanges_pkd_cases (co so : Nat) (st : State Val) (cache : Option Nat) (view : Option (String × Nat))
    (op : String) (R : List (Nat × Nat)) (val : Option Val) (sl : Bool) :
    (∃ r, apiUpdateRanges (pkd co so st cache view) op R val sl = .ok r ∧
        apiUpdateRanges (bln co so st cache view) op R val sl = .ok r.norm) ∨
    (∃ e, apiUpdateRanges (pkd co so st cache view) op R val sl = .error e ∧
        apiUpdateRanges (bln co so st cache view) op R val sl = .error e) :=
  pkd_results (apiUpdateRanges_pkd co so st cache view op R val sl)
    (fun _ hr => (WFApi.apiUpdateRanges_ok hr).2.2.1)

/-! ### the simulation relation on results -/

/-- same answer, same normalised world -/
def Sim (r₁ r₂ : World × String) : Prop := r₁.2 = r₂.2 ∧ r₁.1.norm = r₂.1.norm

theorem sim_same (w : World) (s : String) : Sim (w.norm, s) (w, s) := ⟨rfl, w.norm_norm⟩

theorem sim_put (w : World) (n s : String) {m₁ m₂ : MapObj} (h : m₁.norm = m₂.norm) :
    Sim (w.norm.put n m₁, s) (w.put n m₂, s) := by
  refine ⟨rfl, ?_⟩
  show (w.norm.put n m₁).norm = (w.put n m₂).norm
  rw [World.put_norm, World.put_norm, World.norm_norm, h]

theorem sim_bind (w : World) (r s : String) {m₁ m₂ : MapObj} (h : m₁.norm = m₂.norm) :
    Sim (w.norm.bind r m₁, s) (w.bind r m₂, s) := by
  refine ⟨rfl, ?_⟩
  show (w.norm.bind r m₁).norm = (w.bind r m₂).norm
  rw [World.bind_norm, World.bind_norm, World.norm_norm, h]

theorem sim_bind_metas (w : World) (r s : String) (ms : List (String × List (String × String)))
    {m₁ m₂ : MapObj} (h : m₁.norm = m₂.norm) :
    Sim ({ w.norm.bind r m₁ with metas := ms }, s) ({ w.bind r m₂ with metas := ms }, s) := by
  refine ⟨rfl, ?_⟩
  have := (sim_bind w r s h).2
  simp only [World.norm, World.bind, World.mk.injEq] at this ⊢
  exact ⟨this.1, trivial, trivial, this.2.2.2.1, trivial, trivial⟩

theorem sim_metas (w : World) (s : String) (ms : List (String × List (String × String))) :
    Sim ({ w.norm with metas := ms }, s) ({ w with metas := ms }, s) :=
  ⟨rfl, by show World.norm _ = World.norm _; simp only [World.norm, List.map_map, World.mk.injEq, and_true, true_and]
           exact ⟨List.map_congr_left (fun e _ => by simp [MapObj.norm_norm]),
             List.map_congr_left (fun e _ => by simp [FileObj.norm_norm])⟩⟩

theorem sim_mocs (w : World) (s : String) (ms : List (String × List Nat)) :
    Sim ({ w.norm with mocs := ms }, s) ({ w with mocs := ms }, s) :=
  ⟨rfl, by show World.norm _ = World.norm _; simp only [World.norm, List.map_map, World.mk.injEq, and_true, true_and]
           exact ⟨List.map_congr_left (fun e _ => by simp [MapObj.norm_norm]),
             List.map_congr_left (fun e _ => by simp [FileObj.norm_norm])⟩⟩

theorem sim_hpfiles (w : World) (s : String) (hs : List (String × HpFile)) :
    Sim ({ w.norm with hpfiles := hs }, s) ({ w with hpfiles := hs }, s) :=
  ⟨rfl, by show World.norm _ = World.norm _; simp only [World.norm, List.map_map, World.mk.injEq, and_true, true_and]
           exact ⟨List.map_congr_left (fun e _ => by simp [MapObj.norm_norm]),
             List.map_congr_left (fun e _ => by simp [FileObj.norm_norm])⟩⟩

/-- storing twin files under the same name -/
theorem sim_files (w : World) (f s : String) {fo₁ fo₂ : FileObj} (h : fo₁.norm = fo₂.norm) :
    Sim ({ w.norm with files := (f, fo₁) :: w.norm.files.filter (·.1 != f) }, s)
      ({ w with files := (f, fo₂) :: w.files.filter (·.1 != f) }, s) := by
  refine ⟨rfl, ?_⟩
  show World.norm _ = World.norm _
  simp only [World.norm, List.map_map, List.map_cons, List.filter_map, World.mk.injEq, and_true, true_and,
    List.cons.injEq, Prod.mk.injEq, h]
  refine ⟨List.map_congr_left (fun e _ => by simp [MapObj.norm_norm]), ?_⟩
  show List.map _ (List.filter (fun x => x.1 != f) w.files) = _
  exact List.map_congr_left (fun e _ => by simp [FileObj.norm_norm])

/-- registering the same view descriptor -/
theorem sim_register (w : World) (r s : String) (d : MapObj) :
    Sim ({ w.norm with pool := (r, d) :: w.norm.pool.filter (·.1 != r) }, s)
      ({ w with pool := (r, d) :: w.pool.filter (·.1 != r) }, s) := by
  refine ⟨rfl, ?_⟩
  show World.norm _ = World.norm _
  simp only [World.norm, List.map_map, List.map_cons, List.filter_map, World.mk.injEq, and_true, true_and,
    List.cons.injEq]
  refine ⟨?_, List.map_congr_left (fun e _ => by simp [FileObj.norm_norm])⟩
  show List.map _ (List.filter (fun x => x.1 != r) w.pool) = _
  exact List.map_congr_left (fun e _ => by simp [MapObj.norm_norm])

/-- is the map the line operates on (its first positional argument) a boolean map -/
def srcBool (w : World) (a : Args) : Bool :=
  match a.pos with
  | n :: _ => (match w.get? n with | some m => m.kind.isBool | none => false)
  | [] => false

theorem Kind.isBool_norm (k : Kind) : k.norm.isBool = k.isBool := by cases k <;> rfl

theorem Kind.ne_packed_of_isBool {k : Kind} (h : k.isBool = false) : k ≠ .packed := by
  intro hk; rw [hk] at h; cases h

/-- an operation on a looked-up map: it suffices to compare the two continuations on the map
    found in `w` and on its normal form -/
theorem sim_withMap {w : World} {a : Args} {k₁ k₂ : MapObj → World × String} (hw : w.Good)
    (hk : ∀ n m, a.pos.headD "" = n → w.get? n = some m → m.Ok → srcBool w a = m.kind.isBool →
      Sim (k₁ m.norm) (k₂ m)) :
    Sim (withMap w.norm a k₁) (withMap w a k₂) := by
  unfold withMap
  cases hpos : a.pos with
  | nil => exact sim_same w _
  | cons n rest =>
    simp only [World.get?_norm]
    cases hg : w.get? n with
    | none => exact sim_same w _
    | some m =>
      refine hk n m (by rw [hpos]; rfl) hg (hw.get hg) ?_
      unfold srcBool
      rw [hpos]
      simp only [hg]

theorem norm_map_of_toBln {x : Except Err MapObj} (hk : ∀ r, x = .ok r → r.kind = .packed) :
    toBln <$> x = MapObj.norm <$> x := by
  cases x with
  | error e => rfl
  | ok r =>
    show Except.ok (toBln r) = Except.ok r.norm
    rw [MapObj.norm_of_packed (hk r rfl)]

theorem apiUpdate_pkd_norm (co so : Nat) (st : State Val) (cache : Option Nat) (view : Option (String × Nat))
    (op : String) (pix : List Nat) (vals : Option (List Val)) (single : Bool) (ru : Option Bool) :
    apiUpdate (bln co so st cache view) op pix vals single ru =
      MapObj.norm <$> apiUpdate (pkd co so st cache view) op pix vals single ru := by
  rw [apiUpdate_pkd]
  exact norm_map_of_toBln (fun _ hr => (WFApi.apiUpdate_ok hr).2.2.1)

theorem apiUpdateRanges_pkd_norm (co so : Nat) (st : State Val) (cache : Option Nat) (view : Option (String × Nat))
    (op : String) (R : List (Nat × Nat)) (val : Option Val) (sl : Bool) :
    apiUpdateRanges (bln co so st cache view) op R val sl =
      MapObj.norm <$> apiUpdateRanges (pkd co so st cache view) op R val sl := by
  rw [apiUpdateRanges_pkd]
  exact norm_map_of_toBln (fun _ hr => (WFApi.apiUpdateRanges_ok hr).2.2.1)

theorem map_ok_E {α β : Type} (f : α → β) (a : α) : f <$> (Except.ok a : Except Err α) = .ok (f a) := rfl
theorem map_error_E {α β : Type} (f : α → β) (e : Err) : f <$> (Except.error e : Except Err α) = .error e := rfl

set_option hygiene false in
/-- walk the two match cascades in lockstep (same map on both sides); the leaves that store
    nothing, or store the same map, are closed -/
macro "sim_walk0" : tactic => `(tactic| repeat' (first
  | exact sim_same w _
  | exact sim_put w _ _ rfl
  | exact sim_bind w _ _ rfl
  | exact sim_bind_metas w _ _ _ rfl
  | exact sim_metas w _ _
  | exact sim_mocs w _ _
  | exact sim_hpfiles w _ _
  | exact sim_files w _ _ rfl
  | exact sim_register w _ _ _
  | split
  | simp only []))

open Lean Elab Tactic Meta in
/-- goal `Sim (match … MapObj.norm <$> call … with …) rhs`, where `call` (an API call whose
    counterpart on the normal form has been rewritten to `MapObj.norm <$> call`) has no bound
    variables: generalise `call` to `X` (with `hX : call = X`) — it then has the same outcome on
    both sides -/
elab "gen_pkd_call" : tactic => withMainContext do
  let g ← getMainGoal
  let tgt := (← instantiateMVars (← g.getType)).consumeMData
  unless tgt.isAppOfArity ``Sim 2 do throwError "not a Sim goal: {tgt}"
  let lhs := tgt.appFn!.appArg!.consumeMData
  let some app ← Lean.Meta.matchMatcherApp? lhs | throwError "the left-hand side is not a match"
  let isMapped (e : Expr) : Bool :=
    e.isAppOfArity ``Functor.map 6 && !e.hasLooseBVars &&
      ((e.getArg! 4).isConstOf ``MapObj.norm || (e.getArg! 4).isConstOf ``FileObj.norm)
  let some t := app.discrs.findSome? (fun d => d.find? isMapped)
    | throwError "no normalised call in the discriminant"
  let (_, g') ← g.generalize #[{ expr := t.getArg! 5, xName? := `X, hName? := `hX }]
  replaceMainGoal [g']

set_option hygiene false in
/-- walk the two match cascades in lockstep, a bit-packed object on one side and its
    ordinary-boolean form on the other; a call of `apiUpdate` / `apiUpdateRanges` on the bit-packed
    object (the call on the other form having been rewritten to it) is split into its two outcomes -/
macro "sim_walk" : tactic => `(tactic| repeat' (first
  | exact sim_same w _
  | exact sim_put w _ _ rfl
  | exact sim_bind w _ _ rfl
  | exact sim_put w _ _ (MapObj.norm_norm _)
  | exact sim_bind w _ _ (MapObj.norm_norm _)
  | exact sim_bind w _ _ (by simp only [MapObj.norm, Kind.norm_norm])
  | exact sim_bind_metas w _ _ _ rfl
  | exact sim_bind_metas w _ _ _ (MapObj.norm_norm _)
  | exact sim_metas w _ _
  | exact sim_mocs w _ _
  | exact sim_hpfiles w _ _
  | exact sim_files w _ _ rfl
  | (gen_pkd_call; cases X <;> simp only [map_ok_E, map_error_E])
  | dsimp +instances only [pkd_covord, pkd_spord, pkd_kind, pkd_sent, pkd_st, pkd_cache, pkd_view, bln_covord, bln_spord,
      bln_kind, bln_sent, bln_st, bln_cache, bln_view, bln_c, bln_vc, bln_npix, bln_abs, bln_maxbits,
      bln_lit, pkd_lit]
  | simp +instances only [Kind.isBool.eq_1, Kind.isBool.eq_2, Kind.isIntegerMap.eq_2, Kind.isIntegerMap.eq_3,
      apiUpdate_pkd_norm, apiUpdateRanges_pkd_norm]
  | split))

/-! ### files under normalisation -/

@[simp] theorem FileObj.norm_covord (f : FileObj) : f.norm.covord = f.covord := by unfold FileObj.norm; split <;> rfl
@[simp] theorem FileObj.norm_spord (f : FileObj) : f.norm.spord = f.spord := by unfold FileObj.norm; split <;> rfl
@[simp] theorem FileObj.norm_sentinel (f : FileObj) : f.norm.sentinel = f.sentinel := by unfold FileObj.norm; split <;> rfl
@[simp] theorem FileObj.norm_mdata (f : FileObj) : f.norm.mdata = f.mdata := by unfold FileObj.norm; split <;> rfl
@[simp] theorem FileObj.norm_file (f : FileObj) : f.norm.file = f.file := by unfold FileObj.norm; split <;> rfl

theorem FileObj.norm_of_not_bitpack {f : FileObj} (h : f.bitpack = false) : f.norm = f := by
  unfold FileObj.norm; simp [h]

/-- a well-typed bit-packed file has the sentinel `False` -/
theorem FileObj.sentinel_of_bitpack {f : FileObj} (hf : f.KindOk) (hb : f.bitpack = true) :
    f.sentinel = .bool false := by
  have hk : fileKind f = some .packed := by unfold fileKind; simp [hb]
  have := hf .packed hk ⟨0, 0, .packed, f.sentinel, ⟨#[], #[]⟩, none, none⟩ rfl rfl
  exact eq_of_beq this

/-- a bit-packed file: literally -/
theorem FileObj.bitpack_cases (f : FileObj) (hf : f.KindOk) :
    f.bitpack = false ∨ ∃ co so a p fs ww md fl, f = ⟨co, so, a, .bool false, p, fs, ww, true, md, fl⟩ := by
  by_cases hb : f.bitpack = true
  · right
    have hs := FileObj.sentinel_of_bitpack hf hb
    obtain ⟨co, so, a, s, p, fs, ww, b, md, fl⟩ := f
    simp only at hb hs
    subst hb hs
    exact ⟨co, so, a, p, fs, ww, md, fl, rfl⟩
  · left; simpa using hb

theorem apiRead_norm {f : FileObj} (hf : f.KindOk) (px : Option (List Nat)) :
    apiRead f.norm px = MapObj.norm <$> apiRead f px := by
  rcases f.bitpack_cases hf with hb | ⟨co, so, a, p, fs, ww, md, fl, rfl⟩
  · rw [FileObj.norm_of_not_bitpack hb]
    cases h : apiRead f px with
    | error e => rfl
    | ok m =>
      obtain ⟨kind, hk, _, _, h3, _⟩ := apiRead_ok h
      have : m.kind ≠ .packed := by
        rw [h3]
        intro hkp; rw [hkp] at hk
        unfold fileKind at hk
        simp only [hb, Bool.false_eq_true, if_false] at hk
        split at hk
        · cases hp : f.primary <;> rw [hp] at hk <;> cases hk
        · split at hk
          · cases hk
          · split at hk
            · cases hk
            · cases hd : parseDTCode f.arrDT <;> rw [hd] at hk <;> cases hk
      show Except.ok m = Except.ok m.norm
      rw [MapObj.norm_of_ne this]
  · unfold apiRead
    cases px with
    | none => rfl
    | some l =>
      have e : ("i2" == "rec") = false := by decide
      have hv : (⟨(Kind.plain .bool).blank (.bool false), (Kind.plain .bool).valid (.bool false)⟩ : VCfg Val) =
          ⟨Kind.packed.blank (.bool false), Kind.packed.valid (.bool false)⟩ := rfl
      simp only [FileObj.norm, fileKind, bind, Except.bind, pure, Except.pure, ↓reduceIte, e,
        Bool.false_eq_true, Bool.and_false, if_false, hv]
      split <;> rfl

end HS
