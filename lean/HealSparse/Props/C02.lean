/-
  C02 — all validity accounting interfaces agree.
  Property theorems only (helpers in HealSparse/Lemmas).
-/
import HealSparse.Lemmas.Core
import HealSparse.Lemmas.Coverage
import HealSparse.Model.Valid
import HealSparse.Props.C04
namespace HS
namespace C02

variable {V : Type} [DecidableEq V]

/-- The set of valid pixels of the dense view, ascending. -/
def validSet (c : Cfg) (vc : VCfg V) (s : State V) : List Nat :=
  (List.range c.npix).filter fun p => vc.valid (abs c vc s p)

/-- valid children of coverage pixel `k` (offsets within the coverage pixel), ascending -/
def validIn (c : Cfg) (vc : VCfg V) (s : State V) (k : Nat) : List Nat :=
  (List.range c.nfine).filter fun j => vc.valid (abs c vc s (k * c.nfine + j))

/-- `valid_pixels` lists exactly the valid pixels of the dense view (in storage order,
    hence "up to permutation"), never raises, for every block order. -/
theorem validPixels_spec (c : Cfg) (vc : VCfg V) (s : State V) (h : Inv c vc s)
    (hv : vc.valid vc.sentinel = false) :
    ∃ l, validPixels c vc s = some l ∧
      l.Perm ((validSet c vc s).map fun p => ((p : Nat) : Int)) := by
  sorry

/-- `n_valid` (when computed) is the number of valid pixels. -/
theorem nValid_eq (c : Cfg) (vc : VCfg V) (s : State V) (h : Inv c vc s)
    (hv : vc.valid vc.sentinel = false) :
    nValid vc s = (validSet c vc s).length := by
  sorry

/-- `coverage_map[k] * nfine` is the number of valid pixels inside coverage pixel `k`. -/
theorem coverageCounts_eq (c : Cfg) (vc : VCfg V) (s : State V) (h : Inv c vc s)
    (hv : vc.valid vc.sentinel = false) (k : Nat) (hk : k < c.ncov) :
    (coverageCounts c vc s)[k]? = some (validIn c vc s k).length := by
  sorry

/-- `valid_pixels_single_covpix(k)` lists exactly the valid pixels inside coverage pixel `k`. -/
theorem vpsc_eq (c : Cfg) (vc : VCfg V) (s : State V) (h : Inv c vc s)
    (hv : vc.valid vc.sentinel = false) (k : Nat) (hk : k < c.ncov) :
    validPixelsSingleCovpix c vc s k =
      some ((validIn c vc s k).map fun j => (((k * c.nfine + j : Nat) : Nat) : Int)) := by
  sorry

/-- The coverage mask contains every coverage pixel that holds a valid pixel. -/
theorem coverageMask_complete (c : Cfg) (vc : VCfg V) (s : State V) (h : Inv c vc s)
    (hv : vc.valid vc.sentinel = false) (p : Nat) (hp : p < c.npix)
    (hval : vc.valid (abs c vc s p) = true) : covered c s (p >>> c.shift) = true := by
  sorry

/-- configuration and cell parameters of a fracdet map (`sentinel = 0`) -/
def fracCfg (c : Cfg) (g : Nat) : Cfg := ⟨c.ncov, c.shift - g⟩
def fracVC : VCfg Nat := ⟨0, fun n => n != 0⟩

/-- The fracdet map is a well-formed map. -/
theorem fracdet_inv (c : Cfg) (vc : VCfg V) (s : State V) (h : Inv c vc s)
    (hv : vc.valid vc.sentinel = false) (g : Nat) (hg : g ≤ c.shift) :
    Inv (fracCfg c g) fracVC (fracdetCounts c vc s g) := by
  sorry

/-- `fracdet_map(n)[q] * 2^g` = number of valid children of coarse pixel `q`
    (valid iff > 0 follows from `fracVC.valid`), for every permitted resolution and
    every block order. -/
theorem fracdet_eq (c : Cfg) (vc : VCfg V) (s : State V) (h : Inv c vc s)
    (hv : vc.valid vc.sentinel = false) (g : Nat) (hg : g ≤ c.shift)
    (q : Nat) (hq : q < (fracCfg c g).npix) :
    abs (fracCfg c g) fracVC (fracdetCounts c vc s g) q =
      ((List.range (2 ^ g)).filter fun j => vc.valid (abs c vc s (q * 2 ^ g + j))).length := by
  sorry

/-- The fracdet map has the source's coverage mask. -/
theorem fracdet_covered (c : Cfg) (vc : VCfg V) (s : State V) (h : Inv c vc s)
    (hv : vc.valid vc.sentinel = false) (g : Nat) (hg : g ≤ c.shift) (k : Nat) (hk : k < c.ncov) :
    covered (fracCfg c g) (fracdetCounts c vc s g) k = covered c s k := by
  sorry

/-- At coverage resolution the fracdet map coincides with the coverage-fraction map. -/
theorem fracdet_cov_eq_coverageCounts (c : Cfg) (vc : VCfg V) (s : State V) (h : Inv c vc s)
    (hv : vc.valid vc.sentinel = false) (k : Nat) (hk : k < c.ncov) :
    (coverageCounts c vc s)[k]? =
      some (abs (fracCfg c c.shift) fracVC (fracdetCounts c vc s c.shift) k) := by
  sorry

/-! ### the `n_valid` cache -/

/-- an API call as seen by the cache: a query of `n_valid`, or any mutator (all of which
    reset the cache in the model, mirroring `self._n_valid = None`) -/
inductive CacheOp (V : Type) where
  | query
  | mutate (f : State V → State V)

structure Cached (V : Type) where
  st : State V
  cache : Option Nat

def Cached.step (vc : VCfg V) (m : Cached V) : CacheOp V → Cached V × Option Nat
  | .query =>
    match m.cache with
    | some n => (m, some n)
    | none => ({ m with cache := some (nValid vc m.st) }, some (nValid vc m.st))
  | .mutate f => ({ st := f m.st, cache := none }, none)

/-- run a history, collecting (state at query time, answer) for every query -/
def Cached.run (vc : VCfg V) : Cached V → List (CacheOp V) → List (State V × Nat)
  | _, [] => []
  | m, op :: ops =>
    match Cached.step vc m op with
    | (m', some n) => (m'.st, n) :: Cached.run vc m' ops
    | (m', none) => Cached.run vc m' ops

/-- An earlier query never makes a later answer stale: every answer is the count of the
    state at the time of the query, for every interleaving of queries and mutators. -/
theorem cache_coherent (vc : VCfg V) (s : State V) (ops : List (CacheOp V)) :
    ∀ sn ∈ Cached.run vc ⟨s, none⟩ ops, sn.2 = nValid vc sn.1 := by
  sorry

/-- non-vacuity: shuffled block order, one valid pixel per block -/
example : validPixels (V := Nat) ⟨3, 1⟩ ⟨0, fun x => x != 0⟩ ⟨#[4, -2, -2], #[0, 0, 7, 0, 0, 9]⟩
    = some [4, 1] := by decide +kernel

end C02
end HS
