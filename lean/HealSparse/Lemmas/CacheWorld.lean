/-
  C02 at the world level: the cached `n_valid` (`MapObj.cache`, mirroring `_n_valid`) is never
  stale, along any protocol history, for owning maps and for views.

  `opNvalid` answers from the cache when it holds `some n`.  Every operation that stores a map
  stores it with an empty cache (`cache := none`), except `opNvalid` itself, which stores — for an
  OWNING map only — the count of the very storage it stores.  Writing through a view resets the
  parent's cache (`writeBackView … cache := none`), and a view descriptor never holds a count.
  So `World.CachePool` (every owning entry's cache, if any, is the count of its current storage;
  every view descriptor's cache is empty) is inductive on its own; `World.Good2` adds it to
  `World.Good` (Lemmas/WFWorld.lean).

  HISTORY / FINDING.  In the first version of the model (and in the real library) a VIEW carried
  its own cache, which nothing reset when the parent — or another view of the same field — was
  written:
      single m field=1 r=v / nvalid v -> 1 / upd m pix=6 vals=r4;7 / nvalid v -> 1   (2 valid cells)
  The library was repaired (a view never caches the count) and `opNvalid` mirrors it; the two
  histories are kept at the end as regression examples (`exStaleView`, `exStaleView2`).
-/
import HealSparse.Lemmas.WFWorld
namespace HS

open WFApi WFRes WFFiles

/-! ### the predicates -/

/-- the cached count, if any, is the number of valid cells of the current storage -/
def MapObj.CacheFresh (m : MapObj) : Prop := ∀ n, m.cache = some n → n = nValid m.vc m.st

instance (m : MapObj) : Decidable m.CacheFresh :=
  match h : m.cache with
  | none => isTrue (fun n hn => by rw [h] at hn; cases hn)
  | some k =>
    if hk : k = nValid m.vc m.st then isTrue (fun n hn => by rw [h] at hn; cases hn; exact hk)
    else isFalse (fun hf => hk (hf k h))

theorem MapObj.cacheFresh_of_none {m : MapObj} (h : m.cache = none) : m.CacheFresh := by
  intro n hn; rw [h] at hn; cases hn

@[simp] theorem MapObj.cacheFresh_view (m : MapObj) (x : Option (String × Nat)) :
    ({ m with view := x } : MapObj).CacheFresh ↔ m.CacheFresh := Iff.rfl

/-- what `opNvalid` stores -/
theorem MapObj.cacheFresh_counted (m : MapObj) :
    ({ m with cache := some (nValid m.vc m.st) } : MapObj).CacheFresh := by
  intro n hn; cases hn; rfl

/-- every owning pool entry has a fresh cache; a view descriptor holds no count -/
def World.CachePool (w : World) : Prop :=
  (∀ e ∈ w.pool, e.2.view = none → e.2.CacheFresh) ∧ (∀ e ∈ w.pool, e.2.view ≠ none → e.2.cache = none)

/-- the world invariant of Lemmas/WFWorld.lean together with the cache clause -/
def World.Good2 (w : World) : Prop := w.Good ∧ w.CachePool

theorem World.cachePool_empty : ({} : World).CachePool := by
  refine ⟨?_, ?_⟩ <;> intro e he <;> cases he

/-! ### storing and looking up -/

theorem World.CachePool.bind {w : World} (hw : w.CachePool) (r : String) {m : MapObj}
    (hm : m.CacheFresh) : (w.bind r m).CachePool := by
  refine ⟨?_, ?_⟩
  · intro e he hev
    rcases List.mem_cons.1 he with rfl | he
    · exact hm
    · exact hw.1 e (List.mem_filter.1 he).1 hev
  · intro e he hev
    rcases List.mem_cons.1 he with rfl | he
    · exact absurd rfl hev
    · exact hw.2 e (List.mem_filter.1 he).1 hev

/-- `World.put` of a map with an empty cache, both branches: a store through a view name also
    resets the parent's cache, and the descriptor it re-stores holds no count -/
theorem World.CachePool.put {w : World} (hw : w.CachePool) (n : String) {m : MapObj}
    (hm : m.cache = none) : (w.put n m).CachePool := by
  unfold World.put
  split
  · rename_i pn i x h1 h2
    split
    · rename_i p hp
      refine ⟨?_, ?_⟩
      · intro e he hev
        rcases List.mem_cons.1 he with rfl | he
        · rw [show ({ m with st := ⟨#[], #[]⟩ } : MapObj).view = m.view from rfl, h2] at hev
          cases hev
        · rcases List.mem_cons.1 he with rfl | he
          · exact MapObj.cacheFresh_of_none rfl
          · exact hw.1 e (List.mem_filter.1 he).1 hev
      · intro e he hev
        rcases List.mem_cons.1 he with rfl | he
        · exact hm
        · rcases List.mem_cons.1 he with rfl | he
          · rfl
          · exact hw.2 e (List.mem_filter.1 he).1 hev
    · exact hw
  · exact hw.bind n (MapObj.cacheFresh_of_none hm)

theorem World.CachePool.register {w : World} (hw : w.CachePool) (r : String) {d : MapObj}
    (hv : d.view ≠ none) (hc : d.cache = none) :
    ({ w with pool := (r, d) :: w.pool.filter (·.1 != r) } : World).CachePool := by
  refine ⟨?_, ?_⟩
  · intro e he hev
    rcases List.mem_cons.1 he with rfl | he
    · exact absurd hev hv
    · exact hw.1 e (List.mem_filter.1 he).1 hev
  · intro e he hev
    rcases List.mem_cons.1 he with rfl | he
    · exact hc
    · exact hw.2 e (List.mem_filter.1 he).1 hev

/-- **whatever `World.get?` answers has a fresh cache**: an owning entry by the invariant, a view
    because its descriptor holds no count -/
theorem World.CachePool.get {w : World} (hw : w.CachePool) {n : String} {v : MapObj}
    (h : w.get? n = some v) : v.CacheFresh := by
  rcases World.get?_cases h with ⟨hr, hv⟩ | ⟨d, pn, i, p, hd, hdv, hp, hs, hm, _, _⟩
  · obtain ⟨e, he, _, rfl⟩ := World.raw?_mem hr
    exact hw.1 e he hv
  · obtain ⟨e, he, _, rfl⟩ := World.raw?_mem hd
    obtain ⟨dt, s, _, _, _, _, _, _, h6, _⟩ := materializeView_ok hm
    exact MapObj.cacheFresh_of_none (h6.trans (hw.2 e he (by rw [hdv]; exact fun h => nomatch h)))

theorem cache_withMap {w : World} {a : Args} {k : MapObj → World × String} (hw : w.CachePool)
    (hk : ∀ n m, a.pos.headD "" = n → w.get? n = some m → (k m).1.CachePool) :
    (withMap w a k).1.CachePool := by
  unfold withMap
  split
  · rename_i n rest hpos
    split
    · rename_i m hm
      exact hk n m (by rw [hpos]; rfl) hm
    · exact hw
  · exact hw

/-! ### the API results that are stored as they come have an empty cache -/

theorem cacheNone_apiMakeEmpty {co so : Nat} {kind : Kind} {sent : Option Val} {P : List Nat} {m : MapObj}
    (h : apiMakeEmpty co so kind sent P = .ok m) : m.cache = none :=
  (WFApi.apiMakeEmpty_ok h).2.2.2.2.2.2.1

theorem cacheNone_apiUpdate {m m' : MapObj} {op : String} {pix : List Nat} {vals : Option (List Val)}
    {single : Bool} {ru : Option Bool} (h : apiUpdate m op pix vals single ru = .ok m') : m'.cache = none :=
  (WFApi.apiUpdate_ok h).2.2.2.2.2.1

theorem cacheNone_apiUpdateRanges {m m' : MapObj} {op : String} {R : List (Nat × Nat)} {val : Option Val}
    {sl : Bool} (h : apiUpdateRanges m op R val sl = .ok m') : m'.cache = none :=
  (WFApi.apiUpdateRanges_ok h).2.2.2.2.2.1

theorem cacheNone_apiSetBits {m m' : MapObj} {pix bits : List Nat} {clear : Bool}
    (h : apiSetBits m pix bits clear = .ok m') : m'.cache = none := by
  obtain ⟨op, vals, hu⟩ := WFApi.apiSetBits_ok h
  exact cacheNone_apiUpdate hu

theorem cacheNone_apiAstype {m m' : MapObj} {dst : DT} {sentinel : Option Val}
    (h : apiAstype m dst sentinel = .ok m') : m'.cache = none :=
  (WFApi.apiAstype_ok h).2.2.2.2.2.2.1

theorem cacheNone_apiAsBitPacked {m m' : MapObj} (h : apiAsBitPacked m = .ok m') : m'.cache = none :=
  (WFApi.apiAsBitPacked_ok h).2.2.2.1

theorem cacheNone_apiMultiOp {row : OpRow} {maps : List MapObj} {m' : MapObj}
    (h : apiMultiOp row maps = .ok m') : m'.cache = none := by
  obtain ⟨first, rest, _, _, _, _, hc, _⟩ := WFApi.apiMultiOp_ok h
  exact hc

theorem cacheNone_apiGetSingleCopy {m m' : MapObj} {i : Nat} {sentinel : Option Val}
    (h : apiGetSingleCopy m i sentinel = .ok m') : m'.cache = none := by
  obtain ⟨dt, _, _, _, _, _, hc, _⟩ := WFApi.apiGetSingleCopy_ok h
  exact hc

theorem cacheNone_apiRead {f : FileObj} {pixels : Option (List Nat)} {m : MapObj}
    (h : apiRead f pixels = .ok m) : m.cache = none := by
  obtain ⟨kind, _, _, _, _, _, hc, _⟩ := apiRead_ok h
  exact hc

theorem cacheNone_apiDegradeOnRead {f : FileObj} {ordOut : Nat} {red : String}
    {pixels : Option (List Nat)} {wf : Option FileObj} {m : MapObj}
    (h : apiDegradeOnRead f ordOut red pixels wf = .ok m) : m.cache = none :=
  (apiDegradeOnRead_ok h).2.2.2.2.1

theorem cacheNone_apiDegradeCore (m : MapObj) (ordOut : Nat) (red : String) (w : Option MapObj) :
    OkP (fun m' => m'.cache = none) (apiDegradeCore m ordOut red w) := by
  unfold apiDegradeCore
  okp
  all_goals rfl

theorem cacheNone_apiDegrade {m m' : MapObj} {ordOut : Nat} {red : String} {w : Option MapObj}
    (h : apiDegrade m ordOut red w = .ok m') : m'.cache = none := by
  revert m'
  show OkP (fun m' => m'.cache = none) (apiDegrade m ordOut red w)
  unfold apiDegrade
  okp
  · refine OkP.bind (Q := fun _ => True) (fun _ _ => trivial) ?_
    intro m1 _
    extract_lets jp
    refine OkP.bind (Q := fun _ => True) (fun _ _ => trivial) ?_
    intro w' _
    exact cacheNone_apiDegradeCore m1 ordOut red w'
  · refine OkP.bind (Q := fun _ => True) (fun _ _ => trivial) ?_
    intro m1 _
    extract_lets jp
    refine OkP.bind (Q := fun _ => True) (fun _ _ => trivial) ?_
    intro w' _
    exact cacheNone_apiDegradeCore m1 ordOut red w'
  · rfl
  · exact cacheNone_apiDegradeCore m ordOut red w

theorem cacheNone_apiUpgrade {m m' : MapObj} {ordOut : Nat} (h : apiUpgrade m ordOut = .ok m') :
    m'.cache = none := by
  revert m'
  show OkP (fun m' => m'.cache = none) (apiUpgrade m ordOut)
  unfold apiUpgrade
  okp
  rfl

theorem cacheNone_apiFromHealpix {covord spord : Nat} {dt : DT} {sentinel : Option Val} {hp : List Val}
    {b : Bool} {m' : MapObj} (h : apiFromHealpix covord spord dt sentinel hp b = .ok m') :
    m'.cache = none := by
  revert m'
  show OkP (fun m' => m'.cache = none) (apiFromHealpix covord spord dt sentinel hp b)
  unfold apiFromHealpix
  okp
  refine OkP.bind (Q := fun _ => True) (fun _ _ => trivial) ?_
  intro sent _
  apply OkP.of_pure
  rfl

/-! ### the operations of Model/Dispatch.lean -/

set_option hygiene false in
/-- close a leaf `(w.bind r m').CachePool` / `(w.put n m').CachePool`: the stored map has an empty
    cache, literally or by the API lemma of the call that produced it -/
macro "cache_leaf" : tactic => `(tactic| first
  | exact hw
  | exact hw.bind _ (MapObj.cacheFresh_of_none rfl)
  | exact hw.put _ rfl
  | exact hw.register _ (fun h => nomatch h) rfl
  | exact hw.put _ (cacheNone_apiUpdate ‹_›)
  | exact hw.put _ (cacheNone_apiUpdateRanges ‹_›)
  | exact hw.put _ (cacheNone_apiSetBits ‹_›)
  | exact hw.bind _ (MapObj.cacheFresh_of_none (cacheNone_apiMakeEmpty ‹_›))
  | exact hw.bind _ (MapObj.cacheFresh_of_none (cacheNone_apiAstype ‹_›))
  | exact hw.bind _ (MapObj.cacheFresh_of_none (cacheNone_apiAsBitPacked ‹_›))
  | exact hw.bind _ (MapObj.cacheFresh_of_none (cacheNone_apiMultiOp ‹_›))
  | exact hw.bind _ (MapObj.cacheFresh_of_none (cacheNone_apiGetSingleCopy ‹_›))
  | exact hw.bind _ (MapObj.cacheFresh_of_none (cacheNone_apiDegrade ‹_›))
  | exact hw.bind _ (MapObj.cacheFresh_of_none (cacheNone_apiUpgrade ‹_›))
  | exact hw.bind _ (MapObj.cacheFresh_of_none (cacheNone_apiRead ‹_›))
  | exact hw.bind _ (MapObj.cacheFresh_of_none (cacheNone_apiDegradeOnRead ‹_›))
  | exact hw.bind _ (MapObj.cacheFresh_of_none (cacheNone_apiFromHealpix ‹_›)))

theorem CachePool.opCfg {w : World} (hw : w.CachePool) (a : Args) : (HS.opCfg w a).1.CachePool := by
  unfold HS.opCfg
  op_split
  all_goals cache_leaf

theorem CachePool.opMop {w : World} (hw : w.CachePool) (a : Args) : (HS.opMop w a).1.CachePool := by
  unfold HS.opMop
  op_split
  all_goals cache_leaf

theorem CachePool.opMocread {w : World} (hw : w.CachePool) (a : Args) : (HS.opMocread w a).1.CachePool := by
  unfold HS.opMocread
  op_split
  all_goals cache_leaf

theorem CachePool.opRead {w : World} (hw : w.CachePool) (a : Args) : (HS.opRead w a).1.CachePool := by
  unfold HS.opRead
  op_split
  all_goals cache_leaf

theorem CachePool.opDor {w : World} (hw : w.CachePool) (a : Args) : (HS.opDor w a).1.CachePool := by
  unfold HS.opDor
  op_split
  all_goals cache_leaf

theorem CachePool.opFromhp {w : World} (hw : w.CachePool) (a : Args) : (HS.opFromhp w a).1.CachePool := by
  unfold HS.opFromhp
  op_split
  all_goals cache_leaf

theorem CachePool.opHpxread {w : World} (hw : w.CachePool) (a : Args) : (HS.opHpxread w a).1.CachePool := by
  unfold HS.opHpxread
  op_split
  all_goals cache_leaf

theorem CachePool.opCovread {w : World} (hw : w.CachePool) (a : Args) : (HS.opCovread w a).1.CachePool := by
  unfold HS.opCovread
  op_split
  all_goals cache_leaf

theorem CachePool.opFitsraw {w : World} (hw : w.CachePool) (a : Args) : (HS.opFitsraw w a).1.CachePool := by
  unfold HS.opFitsraw
  op_split
  all_goals cache_leaf

theorem CachePool.opCat {w : World} (hw : w.CachePool) (a : Args) : (HS.opCat w a).1.CachePool := by
  unfold HS.opCat
  op_split
  all_goals cache_leaf

theorem CachePool.opHpximplicit {w : World} (hw : w.CachePool) (a : Args) : (HS.opHpximplicit w a).1.CachePool := by
  unfold HS.opHpximplicit
  op_split
  all_goals cache_leaf

theorem CachePool.opRand {w : World} (hw : w.CachePool) (a : Args) : (HS.opRand w a).1.CachePool := by
  unfold HS.opRand
  op_split
  all_goals cache_leaf

theorem CachePool.opUpd {w : World} (hw : w.CachePool) (a : Args) : (HS.opUpd w a).1.CachePool := by
  unfold HS.opUpd
  refine cache_withMap hw fun n m hn hget => ?_
  op_split
  all_goals cache_leaf

theorem CachePool.opUpdr {w : World} (hw : w.CachePool) (a : Args) : (HS.opUpdr w a).1.CachePool := by
  unfold HS.opUpdr
  refine cache_withMap hw fun n m hn hget => ?_
  op_split
  all_goals cache_leaf

theorem CachePool.opMask {w : World} (hw : w.CachePool) (a : Args) : (HS.opMask w a).1.CachePool := by
  unfold HS.opMask
  refine cache_withMap hw fun n m hn hget => ?_
  op_split
  all_goals cache_leaf

theorem CachePool.opAstype {w : World} (hw : w.CachePool) (a : Args) : (HS.opAstype w a).1.CachePool := by
  unfold HS.opAstype
  refine cache_withMap hw fun n m hn hget => ?_
  op_split
  all_goals cache_leaf

theorem CachePool.opPack {w : World} (hw : w.CachePool) (a : Args) : (HS.opPack w a).1.CachePool := by
  unfold HS.opPack
  refine cache_withMap hw fun n m hn hget => ?_
  op_split
  all_goals cache_leaf

theorem CachePool.opBop {w : World} (hw : w.CachePool) (a : Args) : (HS.opBop w a).1.CachePool := by
  unfold HS.opBop
  refine cache_withMap hw fun n m hn hget => ?_
  op_split
  all_goals cache_leaf

theorem CachePool.opInv {w : World} (hw : w.CachePool) (a : Args) : (HS.opInv w a).1.CachePool := by
  unfold HS.opInv
  refine cache_withMap hw fun n m hn hget => ?_
  op_split
  all_goals cache_leaf

theorem CachePool.opBits {w : World} (hw : w.CachePool) (a : Args) : (HS.opBits w a).1.CachePool := by
  unfold HS.opBits
  refine cache_withMap hw fun n m hn hget => ?_
  op_split
  all_goals cache_leaf

theorem CachePool.opCopy {w : World} (hw : w.CachePool) (a : Args) : (HS.opCopy w a).1.CachePool := by
  unfold HS.opCopy
  refine cache_withMap hw fun n m hn hget => ?_
  op_split
  all_goals cache_leaf

theorem CachePool.opDeg {w : World} (hw : w.CachePool) (a : Args) : (HS.opDeg w a).1.CachePool := by
  unfold HS.opDeg
  refine cache_withMap hw fun n m hn hget => ?_
  op_split
  all_goals cache_leaf

theorem CachePool.opUpg {w : World} (hw : w.CachePool) (a : Args) : (HS.opUpg w a).1.CachePool := by
  unfold HS.opUpg
  refine cache_withMap hw fun n m hn hget => ?_
  op_split
  all_goals cache_leaf

theorem CachePool.opSingle {w : World} (hw : w.CachePool) (a : Args) : (HS.opSingle w a).1.CachePool := by
  unfold HS.opSingle
  refine cache_withMap hw fun n m hn hget => ?_
  op_split
  all_goals cache_leaf

theorem CachePool.opScov {w : World} (hw : w.CachePool) (a : Args) : (HS.opScov w a).1.CachePool := by
  unfold HS.opScov
  refine cache_withMap hw fun n m hn hget => ?_
  op_split
  all_goals cache_leaf

theorem CachePool.opSet {w : World} (hw : w.CachePool) (a : Args) : (HS.opSet w a).1.CachePool := by
  unfold HS.opSet
  refine cache_withMap hw fun n m hn hget => ?_
  op_split
  all_goals cache_leaf

theorem CachePool.opFracdet {w : World} (hw : w.CachePool) (a : Args) : (HS.opFracdet w a).1.CachePool := by
  unfold HS.opFracdet
  refine cache_withMap hw fun n m hn hget => ?_
  op_split
  all_goals cache_leaf

theorem CachePool.opChk {w : World} (hw : w.CachePool) (a : Args) : (HS.opChk w a).1.CachePool := by
  unfold HS.opChk
  refine cache_withMap hw fun n m hn hget => ?_
  op_split
  all_goals cache_leaf

theorem CachePool.opInfo {w : World} (hw : w.CachePool) (a : Args) : (HS.opInfo w a).1.CachePool := by
  unfold HS.opInfo
  refine cache_withMap hw fun n m hn hget => ?_
  op_split
  all_goals cache_leaf

theorem CachePool.opMoc {w : World} (hw : w.CachePool) (a : Args) : (HS.opMoc w a).1.CachePool := by
  unfold HS.opMoc
  refine cache_withMap hw fun n m hn hget => ?_
  op_split
  all_goals cache_leaf

theorem CachePool.opMeta {w : World} (hw : w.CachePool) (a : Args) : (HS.opMeta w a).1.CachePool := by
  unfold HS.opMeta
  refine cache_withMap hw fun n m hn hget => ?_
  op_split
  all_goals cache_leaf

theorem CachePool.opGetmeta {w : World} (hw : w.CachePool) (a : Args) : (HS.opGetmeta w a).1.CachePool := by
  unfold HS.opGetmeta
  refine cache_withMap hw fun n m hn hget => ?_
  op_split
  all_goals cache_leaf

theorem CachePool.opWrite {w : World} (hw : w.CachePool) (a : Args) : (HS.opWrite w a).1.CachePool := by
  unfold HS.opWrite
  refine cache_withMap hw fun n m hn hget => ?_
  op_split
  all_goals cache_leaf

theorem CachePool.opGenhp {w : World} (hw : w.CachePool) (a : Args) : (HS.opGenhp w a).1.CachePool := by
  unfold HS.opGenhp
  refine cache_withMap hw fun n m hn hget => ?_
  op_split
  all_goals cache_leaf

theorem CachePool.opInterp {w : World} (hw : w.CachePool) (a : Args) : (HS.opInterp w a).1.CachePool := by
  unfold HS.opInterp
  refine cache_withMap hw fun n m hn hget => ?_
  op_split
  all_goals cache_leaf

theorem CachePool.opHpxwrite {w : World} (hw : w.CachePool) (a : Args) : (HS.opHpxwrite w a).1.CachePool := by
  unfold HS.opHpxwrite
  refine cache_withMap hw fun n m hn hget => ?_
  op_split
  all_goals cache_leaf

theorem CachePool.opVals {w : World} (hw : w.CachePool) (a : Args) : (HS.opVals w a).1.CachePool := by
  unfold HS.opVals
  refine cache_withMap hw fun n m hn hget => ?_
  op_split
  all_goals cache_leaf

theorem CachePool.opGet {w : World} (hw : w.CachePool) (a : Args) : (HS.opGet w a).1.CachePool := by
  unfold HS.opGet
  refine cache_withMap hw fun n m hn hget => ?_
  op_split
  all_goals cache_leaf

theorem CachePool.opValid {w : World} (hw : w.CachePool) (a : Args) : (HS.opValid w a).1.CachePool := by
  unfold HS.opValid
  refine cache_withMap hw fun n m hn hget => ?_
  op_split
  all_goals cache_leaf

theorem CachePool.opCovmap {w : World} (hw : w.CachePool) (a : Args) : (HS.opCovmap w a).1.CachePool := by
  unfold HS.opCovmap
  refine cache_withMap hw fun n m hn hget => ?_
  op_split
  all_goals cache_leaf

theorem CachePool.opVpsc {w : World} (hw : w.CachePool) (a : Args) : (HS.opVpsc w a).1.CachePool := by
  unfold HS.opVpsc
  refine cache_withMap hw fun n m hn hget => ?_
  op_split
  all_goals cache_leaf

theorem CachePool.opCovmask {w : World} (hw : w.CachePool) (a : Args) : (HS.opCovmask w a).1.CachePool := by
  unfold HS.opCovmask
  refine cache_withMap hw fun n m hn hget => ?_
  op_split
  all_goals cache_leaf

theorem CachePool.opDump {w : World} (hw : w.CachePool) (a : Args) : (HS.opDump w a).1.CachePool := by
  unfold HS.opDump
  refine cache_withMap hw fun n m hn hget => ?_
  op_split
  all_goals cache_leaf

theorem CachePool.opState {w : World} (hw : w.CachePool) (a : Args) : (HS.opState w a).1.CachePool := by
  unfold HS.opState
  refine cache_withMap hw fun n m hn hget => ?_
  op_split
  all_goals cache_leaf

theorem CachePool.opBad {w : World} (hw : w.CachePool) (a : Args) : (HS.opBad w a).1.CachePool := by
  unfold HS.opBad
  refine cache_withMap hw fun n m hn hget => ?_
  op_split
  all_goals cache_leaf

theorem CachePool.opSop {w : World} (hw : w.CachePool) (a : Args) : (HS.opSop w a).1.CachePool := by
  unfold HS.opSop
  refine cache_withMap hw fun n m hn hget => ?_
  cases hin : a.flag "inplace" <;> simp only [↓reduceIte, Bool.false_eq_true, Bool.false_and, Bool.true_and]
  all_goals op_split
  all_goals cache_leaf

theorem CachePool.opGeom {w : World} (hw : w.CachePool) (a : Args) : (HS.opGeom w a).1.CachePool := by
  unfold HS.opGeom
  refine cache_withMap hw fun n m hn hget => ?_
  op_split
  all_goals first
    | cache_leaf
    | (rename_i _ v hv
       obtain ⟨x, _, hu⟩ := except_bind_ok hv
       exact hw.put _ (cacheNone_apiUpdateRanges hu))

/-- `n_valid`: the only operation that fills a cache — for an owning map, with the count of the
    storage it stores -/
theorem CachePool.opNvalid {w : World} (hw : w.CachePool) (a : Args) : (HS.opNvalid w a).1.CachePool := by
  unfold HS.opNvalid
  refine cache_withMap hw fun n m hn hget => ?_
  op_split
  rename_i hv
  have hv' : m.view = none := by
    cases h : m.view with
    | none => rfl
    | some x => rw [h] at hv; exact absurd rfl hv
  rw [World.put_eq_bind (show ({ m with cache := some (nValid m.vc m.st) } : MapObj).view = none from hv')]
  exact hw.bind _ (MapObj.cacheFresh_counted m)

theorem CachePool.opDrop {w : World} (hw : w.CachePool) (a : Args) : (HS.opDrop w a).1.CachePool := by
  unfold HS.opDrop
  op_split
  exact ⟨fun e he hev => hw.1 e (List.mem_filter.1 he).1 hev,
    fun e he hev => hw.2 e (List.mem_filter.1 he).1 hev⟩

theorem CachePool.opReset {w : World} (a : Args) : (HS.opReset w a).1.CachePool := World.cachePool_empty

/-! ### one protocol step, any history -/

theorem CachePool.stepArgs {w : World} (hw : w.CachePool) (op : String) (a : Args) :
    (HS.stepArgs w op a).1.CachePool := by
  unfold HS.stepArgs
  split
  all_goals with_reducible first
    | exact hw
    | exact CachePool.opReset a
    | exact CachePool.opCfg hw a
    | exact CachePool.opMop hw a
    | exact CachePool.opMocread hw a
    | exact CachePool.opRead hw a
    | exact CachePool.opDor hw a
    | exact CachePool.opFromhp hw a
    | exact CachePool.opHpxread hw a
    | exact CachePool.opCovread hw a
    | exact CachePool.opFitsraw hw a
    | exact CachePool.opCat hw a
    | exact CachePool.opHpximplicit hw a
    | exact CachePool.opRand hw a
    | exact CachePool.opUpd hw a
    | exact CachePool.opUpdr hw a
    | exact CachePool.opMask hw a
    | exact CachePool.opAstype hw a
    | exact CachePool.opPack hw a
    | exact CachePool.opBop hw a
    | exact CachePool.opInv hw a
    | exact CachePool.opBits hw a
    | exact CachePool.opCopy hw a
    | exact CachePool.opDeg hw a
    | exact CachePool.opUpg hw a
    | exact CachePool.opSingle hw a
    | exact CachePool.opScov hw a
    | exact CachePool.opSet hw a
    | exact CachePool.opFracdet hw a
    | exact CachePool.opChk hw a
    | exact CachePool.opInfo hw a
    | exact CachePool.opMoc hw a
    | exact CachePool.opMeta hw a
    | exact CachePool.opGetmeta hw a
    | exact CachePool.opWrite hw a
    | exact CachePool.opGenhp hw a
    | exact CachePool.opInterp hw a
    | exact CachePool.opHpxwrite hw a
    | exact CachePool.opVals hw a
    | exact CachePool.opGet hw a
    | exact CachePool.opValid hw a
    | exact CachePool.opCovmap hw a
    | exact CachePool.opVpsc hw a
    | exact CachePool.opCovmask hw a
    | exact CachePool.opDump hw a
    | exact CachePool.opState hw a
    | exact CachePool.opBad hw a
    | exact CachePool.opSop hw a
    | exact CachePool.opGeom hw a
    | exact CachePool.opNvalid hw a
    | exact CachePool.opDrop hw a

theorem CachePool.step {w : World} (hw : w.CachePool) (line : String) : (HS.step w line).1.CachePool := by
  unfold HS.step
  simp only
  split
  · exact hw
  · split
    · exact hw
    · exact CachePool.stepArgs hw _ _

/-- **every protocol line preserves the strengthened world invariant** -/
theorem Good2.step {w : World} (hw : w.Good2) (line : String) : (HS.step w line).1.Good2 :=
  ⟨Good.step hw.1 line, CachePool.step hw.2 line⟩

theorem Good2.foldl_step {w : World} (hw : w.Good2) (lines : List String) :
    (lines.foldl (fun w l => (HS.step w l).1) w).Good2 := by
  induction lines generalizing w with
  | nil => exact hw
  | cons l ls ih => exact ih (Good2.step hw l)

/-- **every world reachable by a protocol history satisfies `Good2`** -/
theorem Good2.runLines (lines : List String) : (HS.runLines lines).Good2 :=
  Good2.foldl_step ⟨World.good_empty, World.cachePool_empty⟩ lines

/-! ### what `n_valid` answers -/

/-- the answer of `nvalid` for a name that resolves to `m` (an owning map or a view): the number
    of valid cells of `m`'s current storage — except the one special case of the string path of a
    bit-packed map whose count was never computed, which answers `nocount` -/
theorem nvalid_answer {w : World} (hw : w.CachePool) {a : Args} {n : String} {rest : List String}
    {m : MapObj} (ha : a.pos = n :: rest) (h : w.get? n = some m) :
    (HS.opNvalid w a).2 =
      if (m.cache.isNone && (a.get? "path" == some "str" && m.kind == .packed)) = true then "nocount"
      else toString (nValid m.vc m.st) := by
  have hf := hw.get h
  unfold HS.opNvalid withMap
  rw [ha]
  simp only [h]
  cases hc : m.cache with
  | some k => simp [hf k hc]
  | none =>
    simp only [Option.isNone_none, Bool.true_and]
    split
    · rfl
    · split <;> rfl

/-- the protocol operation `nvalid` is `opNvalid` -/
theorem stepArgs_nvalid (w : World) (a : Args) : HS.stepArgs w "nvalid" a = HS.opNvalid w a := rfl

/-! ### regression / non-vacuity (evaluated by the compiler: the kernel cannot run the string parser) -/

/-- the answers of a history -/
def answers (lines : List String) : List String :=
  (lines.foldl (fun (wo : World × List String) l => ((HS.step wo.1 l).1, wo.2 ++ [(HS.step wo.1 l).2]))
    ({}, [])).2

/-- an owning map: the count is cached by the first query, answered from the cache by the second,
    reset by the update, recomputed by the third -/
def exCacheOwning : List String := [
  "cfg m kind=plain dtype=i4 covord=0 spord=1",
  "upd m pix=5 val=3",
  "nvalid m",
  "nvalid m",
  "upd m pix=6,40 vals=4,5",
  "nvalid m"]

#guard answers exCacheOwning == ["ok", "ok", "1", "1", "ok", "3"]
#guard (HS.runLines (exCacheOwning.take 4)).pool.map (fun e => (e.1, e.2.cache)) == [("m", some 1)]
#guard (HS.runLines (exCacheOwning.take 5)).pool.map (fun e => (e.1, e.2.cache)) == [("m", none)]
#guard (HS.runLines exCacheOwning).pool.all fun e => decide e.2.CacheFresh

/-- (finding, before the repair the second `nvalid v` answered the stale `1`) the parent is
    written between two queries of a view -/
def exStaleView : List String := [
  "cfg m kind=rec covord=0 spord=1 fields=i2,f8 primary=0",
  "upd m pix=5 vals=r3;2",
  "single m field=1 r=v",
  "nvalid v",
  "upd m pix=6 vals=r4;7",
  "nvalid v",
  "nvalid m"]

#guard answers exStaleView == ["ok", "ok", "ok", "1", "ok", "2", "2"]

/-- (finding, before the repair the second `nvalid v1` answered the stale `2`) another view of the
    same field unsets a cell (writes the field's sentinel) between two queries of a view -/
def exStaleView2 : List String := [
  "cfg m kind=rec covord=0 spord=1 fields=i2,f8 primary=0",
  "upd m pix=5,6 vals=r3;2,r4;7",
  "single m field=1 r=v1",
  "single m field=1 r=v2",
  "nvalid v1",
  "upd v2 pix=6 val=-1637499999999999923489519697920",
  "nvalid v1",
  "nvalid v2",
  "nvalid m"]

#guard answers exStaleView2 == ["ok", "ok", "ok", "ok", "2", "ok", "1", "1", "2"]

example : (HS.runLines exCacheOwning).Good2 ∧ (HS.runLines exStaleView).Good2 ∧
    (HS.runLines exStaleView2).Good2 := ⟨Good2.runLines _, Good2.runLines _, Good2.runLines _⟩

end HS
