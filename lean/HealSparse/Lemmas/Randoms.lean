/-
  Helper lemmas for C20 (random points): arithmetic of the fast generator, a closed form of the
  rejection loop, and bounds on the fold-min / fold-max hull used by the RA window.
-/
import HealSparse.Model.Randoms
namespace HS
namespace Randoms

/-! ### fast generator -/

theorem fastChild_eq (s p sub : Nat) : fastChild s p sub = p * 2 ^ s + sub := by
  simp [fastChild, Nat.shiftLeft_eq]

theorem fastChild_shiftRight (s p sub : Nat) (h : sub < 2 ^ s) : fastChild s p sub >>> s = p := by
  have hp : 0 < 2 ^ s := Nat.two_pow_pos s
  rw [fastChild_eq, Nat.shiftRight_eq_div_pow, Nat.mul_comm, Nat.mul_add_div hp,
    Nat.div_eq_of_lt h, Nat.add_zero]

theorem fastChild_onto (s p c : Nat) (h : c >>> s = p) :
    ∃ sub, sub < 2 ^ s ∧ fastChild s p sub = c := by
  have hp : 0 < 2 ^ s := Nat.two_pow_pos s
  refine ⟨c % 2 ^ s, Nat.mod_lt _ hp, ?_⟩
  rw [fastChild_eq, ← h, Nat.shiftRight_eq_div_pow, Nat.mul_comm]
  exact Nat.div_add_mod c (2 ^ s)

/-! ### rejection loop -/

theorem takeValid_length {α : Type} (n : Nat) (b : List (α × Bool)) :
    (takeValid n b).length = min n (b.filter (·.2)).length := by
  simp [takeValid, List.length_take]

theorem rejectionLoop_zero {α : Type} (bs : List (List (α × Bool))) :
    rejectionLoop 0 bs = some [] := by
  cases bs <;> simp [rejectionLoop]

/-- closed form of the loop: it succeeds iff the supply holds `n` valid candidates, and then
    returns the first `n` of them -/
theorem rejectionLoop_eq {α : Type} (n : Nat) (bs : List (List (α × Bool))) :
    rejectionLoop n bs =
      if n ≤ ((bs.flatten).filter (·.2)).length then some (takeValid n bs.flatten) else none := by
  induction bs generalizing n with
  | nil => cases n <;> simp [rejectionLoop, takeValid]
  | cons b bs ih =>
    cases n with
    | zero => simp [rejectionLoop, takeValid]
    | succ n =>
      simp only [rejectionLoop]
      rw [ih]
      simp only [takeValid_length, List.flatten_cons, List.filter_append, List.length_append]
      have e : n + 1 - min (n + 1) (b.filter (·.2)).length = n + 1 - (b.filter (·.2)).length := by
        omega
      rw [e]
      by_cases hc : n + 1 ≤ (b.filter (·.2)).length + ((bs.flatten).filter (·.2)).length
      · have h2 : n + 1 - (b.filter (·.2)).length ≤ ((bs.flatten).filter (·.2)).length := by omega
        rw [if_pos hc, if_pos h2]
        simp only [takeValid, List.filter_append, List.take_append, List.map_append]
      · have h2 : ¬ n + 1 - (b.filter (·.2)).length ≤ ((bs.flatten).filter (·.2)).length := by
          omega
        rw [if_neg hc, if_neg h2]

theorem takeValid_mem {α : Type} (n : Nat) (l : List (α × Bool)) (x : α)
    (hx : x ∈ takeValid n l) : (x, true) ∈ l := by
  simp only [takeValid, List.mem_map] at hx
  obtain ⟨c, hc, rfl⟩ := hx
  have hf := List.mem_of_mem_take hc
  rw [List.mem_filter] at hf
  obtain ⟨hm, h2⟩ := hf
  have : c = (c.1, true) := by
    cases c with
    | mk a b => simp at h2; simp [h2]
  rw [← this]; exact hm

/-! ### RA window -/

theorem foldl_min_le_init (l : List (Int × Int)) (a : Int) :
    l.foldl (fun m x => min m x.1) a ≤ a := by
  induction l generalizing a with
  | nil => simp
  | cons y l ih =>
    simp only [List.foldl_cons]
    have := ih (min a y.1)
    omega

theorem foldl_min_le_mem (l : List (Int × Int)) (a : Int) (x : Int × Int) (hx : x ∈ l) :
    l.foldl (fun m x => min m x.1) a ≤ x.1 := by
  induction l generalizing a with
  | nil => simp at hx
  | cons y l ih =>
    simp only [List.foldl_cons]
    rcases List.mem_cons.1 hx with rfl | h
    · have := foldl_min_le_init l (min a x.1)
      omega
    · exact ih _ h

theorem le_foldl_max_init (l : List (Int × Int)) (a : Int) :
    a ≤ l.foldl (fun m x => max m x.2) a := by
  induction l generalizing a with
  | nil => simp
  | cons y l ih =>
    simp only [List.foldl_cons]
    have := ih (max a y.2)
    omega

theorem le_foldl_max_mem (l : List (Int × Int)) (a : Int) (x : Int × Int) (hx : x ∈ l) :
    x.2 ≤ l.foldl (fun m x => max m x.2) a := by
  induction l generalizing a with
  | nil => simp at hx
  | cons y l ih =>
    simp only [List.foldl_cons]
    rcases List.mem_cons.1 hx with rfl | h
    · have := le_foldl_max_init l (max a x.2)
      omega
    · exact ih _ h

/-- every interval lies inside the hull -/
theorem hull_bounds (iv0 : Int × Int) (rest : List (Int × Int)) (iv : Int × Int)
    (hiv : iv ∈ iv0 :: rest) :
    rest.foldl (fun m x => min m x.1) iv0.1 ≤ iv.1 ∧
      iv.2 ≤ rest.foldl (fun m x => max m x.2) iv0.2 := by
  rcases List.mem_cons.1 hiv with rfl | h
  · exact ⟨foldl_min_le_init _ _, le_foldl_max_init _ _⟩
  · exact ⟨foldl_min_le_mem _ _ _ h, le_foldl_max_mem _ _ _ h⟩

theorem emod_sub_self_emod (x T : Int) : (x % T - x) % T = 0 := by
  rw [Int.sub_emod, Int.emod_emod, Int.sub_self, Int.zero_emod]

theorem raWindow_covers (T : Int) (hT : 0 < T) (ivs : List (Int × Int)) (iv : Int × Int)
    (hiv : iv ∈ ivs) (x : Int) (hx : iv.1 ≤ x ∧ x ≤ iv.2) :
    ∃ y, (raWindow T ivs).1 ≤ y ∧ y ≤ (raWindow T ivs).2 ∧ (y - x) % T = 0 := by
  cases ivs with
  | nil => simp at hiv
  | cons iv0 rest =>
    have hb := hull_bounds iv0 rest iv hiv
    simp only [raWindow]
    split
    · exact ⟨x % T, Int.emod_nonneg _ (by omega), Int.le_of_lt (Int.emod_lt_of_pos _ hT),
        emod_sub_self_emod x T⟩
    · exact ⟨x, by simp only; omega, by simp only; omega, by simp⟩

theorem raWindow_width (T : Int) (hT : 0 < T) (ivs : List (Int × Int)) (hne : ivs ≠ [])
    (hwf : ∀ iv ∈ ivs, iv.1 ≤ iv.2) :
    0 ≤ (raWindow T ivs).2 - (raWindow T ivs).1 ∧ (raWindow T ivs).2 - (raWindow T ivs).1 ≤ T := by
  cases ivs with
  | nil => exact absurd rfl hne
  | cons iv0 rest =>
    have hb := hull_bounds iv0 rest iv0 (List.mem_cons_self ..)
    have hw := hwf iv0 (List.mem_cons_self ..)
    simp only [raWindow]
    split
    · simp only; omega
    · simp only; omega

end Randoms
end HS
