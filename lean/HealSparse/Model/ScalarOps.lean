/-
  Scalar operators, apply_mask, astype, as_bit_packed_map — generic part.

  Mirrors healSparseMap.py: _apply_operation (2340-2434: `func(sp, k, out=…, where=valid)`),
  apply_mask (1696-1758), astype (2000-2031), as_bit_packed_map (2033-2091).
-/
import HealSparse.Model.Core
import HealSparse.Model.Map
import HealSparse.Model.Valid
namespace HS

variable {V : Type}

/-- `func(sp, k, out=sp|copy, where=valid)`: every valid cell of the whole storage is
    replaced by `f cell`; invalid cells are left alone. -/
def scalarOp (vc : VCfg V) (s : State V) (f : V → V) : State V :=
  { s with sp := s.sp.map fun x => if vc.valid x then f x else x }

/-- `apply_mask`: the valid pixels (as listed by `valid_pixels`) whose mask value is "bad"
    get the value of storage cell 0.  `maskAt p` is `mask_map.get_values_pix(p)` already
    reduced to the bad/not-bad decision.  `none` = the listing raised. -/
def applyMask (c : Cfg) (vc : VCfg V) (s : State V) (bad : Nat → Bool) : Option (State V) :=
  (validPixels c vc s).map fun vp =>
    let badPix := (vp.map Int.toNat).filter bad
    let v0 := rd s.sp 0 vc.sentinel
    { s with sp := scatter (fun _ (_ : Unit) => v0) s.sp (badPix.map fun p => (idxOf c s p, ())) }

/-- `astype`: valid cells converted, invalid cells become the new sentinel; the coverage
    index is shared. -/
def astypeMap {V' : Type} (vc : VCfg V) (s : State V) (conv : V → V') (sent' : V') : State V' :=
  { cov := s.cov, sp := s.sp.map fun x => if vc.valid x then conv x else sent' }

/-- `as_bit_packed_map`: a zeroed boolean storage of the same size; for each covered
    coverage pixel its block receives the validity of the source block. -/
def asBitPacked (c : Cfg) (vc : VCfg V) (s : State V) : State Bool :=
  let blocks := (List.range c.ncov).filter (covered c s)
  { cov := s.cov
    sp := blocks.foldl (fun sp k =>
        let st := (blockStart c s k).toNat
        (List.range c.nfine).foldl (fun sp j =>
          sp.setIfInBounds (st + j) (vc.valid (rd s.sp (st + j) vc.sentinel))) sp)
      (Array.replicate ((blocks.length + 1) * c.nfine) false) }

end HS
