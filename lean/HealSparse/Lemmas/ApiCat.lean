/-
  C18 at the API level: `apiCat` (cat_healsparse_files, in_memory=True) over files written by
  `apiWrite`.

  Part 1 (generic in the cell type): the GENERAL dense meaning of `catFiles` — for arbitrary,
  possibly OVERLAPPING inputs and every flag combination: at every pixel the result holds the
  left fold of the values of the inputs valid there, in list order, under
    `stepV acc v = if check ∧ valid acc then orF v acc else v`
  (no check: the LAST valid input wins; check ∧ or: bitwise or, re-started whenever the running
  value reads as unset), it is covered exactly at the output coverage pixels that contain a
  valid pixel of some input, and the loop fails only with `check ∧ ¬ or`.
  (Lemmas/Cat.lean has the disjoint case and the overlap error.)

  Part 2: `apiCat` as a decision list (`apiCat_eq_spec`), its exact error behaviour, and the
  passage from files written from map objects of one kind and sentinel to the core statement.

  Property theorems: Props/C18.lean (API part).
-/
import HealSparse.Lemmas.Cat
import HealSparse.Lemmas.Coverage
import HealSparse.Lemmas.WFFiles
import HealSparse.Lemmas.ApiRoundTrip
import HealSparse.Lemmas.TypedWorld
namespace HS
namespace ApiCat

/-! ## Part 1: the general meaning of the concatenation loop -/

section generic
variable {V : Type} [DecidableEq V]

/-- how one more valid input value `v` combines with the running value `acc` of a pixel -/
def stepV (vc : VCfg V) (co : Bool) (orF : V → V → V) (acc v : V) : V :=
  if co && vc.valid acc then orF v acc else v

/-- the values at pixel `p` of the iterations of `T` that concern `p` and are valid there -/
def valsT (cOut : Cfg) (vc : VCfg V) (T : List (Nat × CatIn V)) (p : Nat) : List V :=
  T.filterMap fun x =>
    if decide (x.1 = p >>> cOut.shift) && vc.valid (abs x.2.c vc x.2.state p)
    then some (abs x.2.c vc x.2.state p) else none

/-- the values at pixel `p` of the inputs valid there, in list order -/
def inVals (vc : VCfg V) (inputs : List (CatIn V)) (p : Nat) : List V :=
  inputs.filterMap fun i =>
    if vc.valid (abs i.c vc i.state p) then some (abs i.c vc i.state p) else none

/-- the general loop invariant -/
def CatG (cOut : Cfg) (vc : VCfg V) (co : Bool) (orF : V → V → V) (T : List (Nat × CatIn V))
    (out : State V) : Prop :=
  Inv cOut vc out ∧
  (∀ p, p < cOut.npix → abs cOut vc out p = (valsT cOut vc T p).foldl (stepV vc co orF) vc.sentinel) ∧
  (∀ k, k < cOut.ncov → (covered cOut out k = true ↔
    ∃ x ∈ T, x.1 = k ∧ ∃ p, p < cOut.npix ∧ p >>> cOut.shift = k ∧
      vc.valid (abs x.2.c vc x.2.state p) = true))

omit [DecidableEq V] in
theorem valsT_append (cOut : Cfg) (vc : VCfg V) (T : List (Nat × CatIn V)) (x : Nat × CatIn V)
    (p : Nat) :
    valsT cOut vc (T ++ [x]) p = valsT cOut vc T p ++
      (if decide (x.1 = p >>> cOut.shift) && vc.valid (abs x.2.c vc x.2.state p)
       then [abs x.2.c vc x.2.state p] else []) := by
  unfold valsT
  rw [List.filterMap_append]
  congr 1
  rw [List.filterMap_cons, List.filterMap_nil]
  cases h : (decide (x.1 = p >>> cOut.shift) && vc.valid (abs x.2.c vc x.2.state p)) <;>
    simp only [if_true, Bool.false_eq_true, if_false]

theorem catG_nil (cOut : Cfg) (vc : VCfg V) (co : Bool) (orF : V → V → V) :
    CatG cOut vc co orF [] (makeEmpty cOut vc []) := by
  refine ⟨inv_makeEmpty' cOut vc [] List.nodup_nil (fun _ hk => nomatch hk), ?_, ?_⟩
  · intro p _
    exact makeEmpty_abs' cOut vc [] p
  · intro k hk
    rw [covered_makeEmpty cOut vc [] List.nodup_nil k hk]
    simp

/-- an iteration that contributes nothing and leaves the output alone -/
theorem catG_snoc_idle (cOut : Cfg) (vc : VCfg V) (co : Bool) (orF : V → V → V)
    (T : List (Nat × CatIn V)) (out : State V) (x : Nat × CatIn V)
    (hg : CatG cOut vc co orF T out)
    (hx : ∀ p, p < cOut.npix → p >>> cOut.shift = x.1 →
      vc.valid (abs x.2.c vc x.2.state p) = false) :
    CatG cOut vc co orF (T ++ [x]) out := by
  refine ⟨hg.1, ?_, ?_⟩
  · intro p hp
    rw [valsT_append, hg.2.1 p hp]
    have : (decide (x.1 = p >>> cOut.shift) && vc.valid (abs x.2.c vc x.2.state p)) = false := by
      by_cases h1 : x.1 = p >>> cOut.shift
      · rw [hx p hp h1.symm]; simp
      · simp [h1]
    rw [this]
    simp
  · intro k hk
    rw [hg.2.2 k hk]
    constructor
    · rintro ⟨y, hy, h⟩
      exact ⟨y, List.mem_append_left _ hy, h⟩
    · rintro ⟨y, hy, h1, p, hp, h2, h3⟩
      rcases List.mem_append.1 hy with hy | hy
      · exact ⟨y, hy, h1, p, hp, h2, h3⟩
      · rw [List.mem_singleton] at hy
        subst hy
        rw [hx p hp (h2.trans h1.symm)] at h3
        cases h3

/-- the update list of one iteration, uniformly for all flag combinations -/
def stepList (cOut : Cfg) (vc : VCfg V) (co : Bool) (orF : V → V → V) (out : State V)
    (L : List (Nat × V)) : List (Nat × V) :=
  L.map fun pv => (pv.1, stepV vc co orF (abs cOut vc out pv.1) pv.2)

omit [DecidableEq V] in
theorem catStep_eq (cOut : Cfg) (vc : VCfg V) (co oo : Bool) (orF : V → V → V) (out : State V)
    (L : List (Nat × V)) :
    catStep cOut vc co oo orF out L =
      if (co && L.any (fun pv => vc.valid (abs cOut vc out pv.1)) && !oo) = true then none
      else some (updatePix cOut vc out none (fun _ (w : V) => w) (stepList cOut vc co orF out L) false) := by
  unfold catStep stepList
  by_cases hc : (co && L.any (fun pv => vc.valid (abs cOut vc out pv.1))) = true
  · rw [if_pos hc, hc]
    cases oo with
    | false => rfl
    | true =>
      simp only [Bool.not_true, Bool.and_false, Bool.false_eq_true, if_false]
      have hco : co = true := by
        cases co with
        | true => rfl
        | false => simp at hc
      subst hco
      rfl
  · rw [if_neg hc]
    have hc' : (co && L.any (fun pv => vc.valid (abs cOut vc out pv.1))) = false := by
      simpa using hc
    rw [hc']
    simp only [Bool.false_and, Bool.false_eq_true, if_false]
    congr 2
    symm
    have : ∀ pv ∈ L, (pv.1, stepV vc co orF (abs cOut vc out pv.1) pv.2) = pv := by
      intro pv hpv
      unfold stepV
      have : (co && vc.valid (abs cOut vc out pv.1)) = false := by
        cases co with
        | false => rfl
        | true =>
          simp only [Bool.true_and] at hc' ⊢
          exact List.any_eq_false.1 hc' pv hpv |> fun h => by simpa using h
      rw [this]
      rfl
    rw [List.map_congr_left this, List.map_id']

/-- **one iteration, in general**: it fails only with `check ∧ ¬ or`; otherwise the invariant
    is kept -/
theorem catIter_gen (cOut : Cfg) (vc : VCfg V) (co oo : Bool) (orF : V → V → V)
    (T : List (Nat × CatIn V)) (out : State V) (x : Nat × CatIn V)
    (hv : vc.valid vc.sentinel = false)
    (hi : Inv x.2.c vc x.2.state) (hn : x.2.c.npix = cOut.npix)
    (hg : CatG cOut vc co orF T out) :
    (catIter cOut vc co oo orF (some out) x = none ∧ co = true ∧ oo = false) ∨
    ∃ out', catIter cOut vc co oo orF (some out) x = some out' ∧
      CatG cOut vc co orF (T ++ [x]) out' := by
  have hmem := mem_catContribution cOut vc x.2 x.1 hi hv hn
  unfold catIter
  simp only
  split
  · split
    · rename_i hs hcont
      refine Or.inr ⟨out, rfl, catG_snoc_idle cOut vc co orF T out x hg ?_⟩
      intro p hp h1
      cases h2 : vc.valid (abs x.2.c vc x.2.state p) with
      | false => rfl
      | true =>
        exfalso
        have : (p, abs x.2.c vc x.2.state p) ∈ catContribution cOut vc x.2 x.1 :=
          (hmem p _).2 ⟨hp, h1, h2, rfl⟩
        simp only [Bool.and_eq_true, List.isEmpty_iff] at hcont
        rw [hcont.2] at this
        cases this
    · rw [catStep_eq]
      split
      · rename_i hcond
        simp only [Bool.and_eq_true, Bool.not_eq_true'] at hcond
        exact Or.inl ⟨rfl, hcond.1.1, hcond.2⟩
      · refine Or.inr ⟨_, rfl, ?_⟩
        generalize hL : catContribution cOut vc x.2 x.1 = L at *
        have hLb : ∀ qw ∈ stepList cOut vc co orF out L, qw.1 < cOut.npix := by
          intro qw hq
          obtain ⟨pv, hpv, rfl⟩ := List.mem_map.1 hq
          exact ((hmem pv.1 pv.2).1 hpv).1
        have hnd : ((stepList cOut vc co orF out L).map (·.1)).Nodup := by
          unfold stepList
          rw [List.map_map]
          have := nodup_catContribution cOut vc x.2 x.1 hi hv
          rw [hL] at this
          exact this
        obtain ⟨hinv', habs'⟩ := catReplace_spec cOut vc out _ hg.1 hLb hnd
        refine ⟨hinv', ?_, ?_⟩
        · intro p hp
          rw [valsT_append]
          by_cases hin : p >>> cOut.shift = x.1 ∧ vc.valid (abs x.2.c vc x.2.state p) = true
          · have hpl : (p, abs x.2.c vc x.2.state p) ∈ L := (hmem p _).2 ⟨hp, hin.1, hin.2, rfl⟩
            have hpl' : (p, stepV vc co orF (abs cOut vc out p) (abs x.2.c vc x.2.state p)) ∈
                stepList cOut vc co orF out L := List.mem_map.2 ⟨_, hpl, rfl⟩
            rw [(habs' p hp).1 _ hpl']
            have : (decide (x.1 = p >>> cOut.shift) && vc.valid (abs x.2.c vc x.2.state p)) = true := by
              rw [hin.2, hin.1]; simp
            rw [this, if_pos rfl, List.foldl_append, ← hg.2.1 p hp]
            rfl
          · have hno : ∀ v, (p, v) ∉ stepList cOut vc co orF out L := by
              intro v hvv
              obtain ⟨pv, hpv, he⟩ := List.mem_map.1 hvv
              have h1 := (hmem pv.1 pv.2).1 hpv
              have hp1 : pv.1 = p := congrArg Prod.fst he
              rw [hp1] at h1
              exact hin ⟨h1.2.1, h1.2.2.1⟩
            rw [(habs' p hp).2 hno, hg.2.1 p hp]
            have : (decide (x.1 = p >>> cOut.shift) && vc.valid (abs x.2.c vc x.2.state p)) = false := by
              by_cases h1 : x.1 = p >>> cOut.shift
              · have : vc.valid (abs x.2.c vc x.2.state p) = false := by
                  cases h2 : vc.valid (abs x.2.c vc x.2.state p) with
                  | false => rfl
                  | true => exact absurd ⟨h1.symm, h2⟩ hin
                rw [this]; simp
              · simp [h1]
            rw [this]
            simp
        · intro k hk
          have hLs : ∀ qw ∈ stageList false (stepList cOut vc co orF out L), qw.1 < cOut.npix := by
            intro qw hq
            obtain ⟨pw, hpw, he⟩ := stageList_fst_mem false _ qw hq
            rw [← he]; exact hLb pw hpw
          have e : updatePix cOut vc out none (fun _ (w : V) => w) (stepList cOut vc co orF out L) false =
              updateCore cOut vc out (stageOp id fun _ (w : V) => w)
                (stageList false (stepList cOut vc co orF out L)) false := rfl
          rw [e, updateCore_covered' cOut vc out _ _ false hg.1 hLs k hk]
          unfold denseCov
          simp only [Bool.not_false, Bool.true_and, Bool.or_eq_true, List.any_eq_true, beq_iff_eq]
          rw [hg.2.2 k hk]
          constructor
          · rintro (⟨y, hy, h⟩ | ⟨qw, hq, hqk⟩)
            · exact ⟨y, List.mem_append_left _ hy, h⟩
            · obtain ⟨pw, hpw, he⟩ := stageList_fst_mem false _ qw hq
              obtain ⟨pv, hpv, rfl⟩ := List.mem_map.1 hpw
              have h1 := (hmem pv.1 pv.2).1 hpv
              simp only at he
              rw [← he] at hqk
              exact ⟨x, List.mem_append_right _ (List.mem_singleton.2 rfl), h1.2.1.symm.trans hqk,
                pv.1, h1.1, hqk, h1.2.2.1⟩
          · rintro ⟨y, hy, h1, p, hp, h2, h3⟩
            rcases List.mem_append.1 hy with hy | hy
            · exact Or.inl ⟨y, hy, h1, p, hp, h2, h3⟩
            · rw [List.mem_singleton] at hy
              subst hy
              right
              have hpl : (p, abs y.2.c vc y.2.state p) ∈ L := (hmem p _).2 ⟨hp, h2.trans h1.symm, h3, rfl⟩
              refine ⟨(p, some (stepV vc co orF (abs cOut vc out p) (abs y.2.c vc y.2.state p))), ?_, h2⟩
              unfold stageList
              simp only [Bool.false_eq_true, if_false, List.nil_append]
              exact List.mem_map.2 ⟨_, List.mem_map.2 ⟨_, hpl, rfl⟩, rfl⟩
  · rename_i hs
    refine Or.inr ⟨out, rfl, catG_snoc_idle cOut vc co orF T out x hg ?_⟩
    intro p hp h1
    cases h2 : vc.valid (abs x.2.c vc x.2.state p) with
    | false => rfl
    | true =>
      exfalso
      have := catSummary_complete cOut vc x.2 hi hv hn p hp h2
      rw [h1] at this
      exact hs this

/-- **the whole loop, in general** -/
theorem catFold_gen (cOut : Cfg) (vc : VCfg V) (co oo : Bool) (orF : V → V → V)
    (hv : vc.valid vc.sentinel = false) (Trest : List (Nat × CatIn V)) :
    ∀ (Tdone : List (Nat × CatIn V)) (out : State V),
      (∀ x ∈ Trest, Inv x.2.c vc x.2.state ∧ x.2.c.npix = cOut.npix) →
      CatG cOut vc co orF Tdone out →
      (Trest.foldl (catIter cOut vc co oo orF) (some out) = none ∧ co = true ∧ oo = false) ∨
      ∃ out', Trest.foldl (catIter cOut vc co oo orF) (some out) = some out' ∧
        CatG cOut vc co orF (Tdone ++ Trest) out' := by
  induction Trest with
  | nil => intro Tdone out _ hg; exact Or.inr ⟨out, rfl, by rwa [List.append_nil]⟩
  | cons x xs ih =>
    intro Tdone out hok hg
    have hx := hok x List.mem_cons_self
    rw [List.foldl_cons]
    rcases catIter_gen cOut vc co oo orF Tdone out x hv hx.1 hx.2 hg with ⟨h1, h2, h3⟩ | ⟨out1, h1, hg1⟩
    · rw [h1, catIter_none_foldl]
      exact Or.inl ⟨rfl, h2, h3⟩
    · rw [h1]
      have e : Tdone ++ x :: xs = (Tdone ++ [x]) ++ xs := by simp
      rw [e]
      exact ih (Tdone ++ [x]) out1 (fun y hy => hok y (List.mem_cons_of_mem _ hy)) hg1

omit [DecidableEq V] in
/-- a duplicate-free list visits one key once -/
theorem flatMap_single {α : Type} (P : List Nat) (hnd : P.Nodup) (k : Nat) (A : List α) :
    (P.flatMap fun pix => if pix = k then A else []) = if k ∈ P then A else [] := by
  induction P with
  | nil => rfl
  | cons a P ih =>
    rw [List.flatMap_cons, ih (List.nodup_cons.1 hnd).2]
    by_cases hak : a = k
    · subst hak
      have : a ∉ P := (List.nodup_cons.1 hnd).1
      simp [this]
    · have : ¬ k = a := fun h => hak h.symm
      simp [hak, this]

/-- the iterations that concern a pixel are the inputs, in list order -/
theorem valsT_catPairs (cOut : Cfg) (vc : VCfg V) (inputs : List (CatIn V))
    (hin : ∀ i ∈ inputs, Inv i.c vc i.state ∧ i.c.npix = cOut.npix)
    (hv : vc.valid vc.sentinel = false) (p : Nat) (hp : p < cOut.npix) :
    valsT cOut vc (catPairs cOut vc inputs) p = inVals vc inputs p := by
  unfold valsT catPairs
  rw [List.filterMap_flatMap]
  have hinner : ∀ pix, (inputs.map fun i => (pix, i)).filterMap (fun x =>
      if decide (x.1 = p >>> cOut.shift) && vc.valid (abs x.2.c vc x.2.state p)
      then some (abs x.2.c vc x.2.state p) else none) =
      if pix = p >>> cOut.shift then inVals vc inputs p else [] := by
    intro pix
    rw [List.filterMap_map]
    by_cases hpix : pix = p >>> cOut.shift
    · rw [if_pos hpix]
      unfold inVals
      congr 1
      funext i
      simp [hpix]
    · rw [if_neg hpix]
      rw [List.filterMap_eq_nil_iff]
      intro i _
      simp [hpix]
  rw [show (fun pix => (inputs.map fun i => (pix, i)).filterMap (fun x =>
      if decide (x.1 = p >>> cOut.shift) && vc.valid (abs x.2.c vc x.2.state p)
      then some (abs x.2.c vc x.2.state p) else none)) =
      fun pix => if pix = p >>> cOut.shift then inVals vc inputs p else [] from funext hinner]
  have hndP : (catCovPix cOut vc inputs).Nodup := List.filter_sublist.nodup List.nodup_range
  rw [flatMap_single _ hndP]
  split
  · rfl
  · rename_i hnot
    symm
    unfold inVals
    rw [List.filterMap_eq_nil_iff]
    intro i hi
    cases hval : vc.valid (abs i.c vc i.state p) with
    | false => simp
    | true =>
      exfalso
      apply hnot
      unfold catCovPix
      rw [List.mem_filter, List.mem_range, List.any_eq_true]
      exact ⟨covpix_lt cOut p hp, i, hi,
        catSummary_complete cOut vc i (hin i hi).1 hv (hin i hi).2 p hp hval⟩

/-- **the general meaning of `catFiles`** (arbitrary, possibly overlapping inputs; every flag
    combination): failure only under `check ∧ ¬ or`; on success the result obeys the layout,
    holds at every pixel the `stepV`-fold of the inputs valid there in list order, and is
    covered exactly at the output coverage pixels containing a valid pixel of some input -/
theorem catFiles_gen (cOut : Cfg) (vc : VCfg V) (inputs : List (CatIn V)) (co oo : Bool)
    (orF : V → V → V)
    (hin : ∀ i ∈ inputs, Inv i.c vc i.state ∧ i.c.npix = cOut.npix)
    (hv : vc.valid vc.sentinel = false) :
    (catFiles cOut vc inputs co oo orF = none ∧ co = true ∧ oo = false) ∨
    ∃ out, catFiles cOut vc inputs co oo orF = some out ∧ Inv cOut vc out ∧
      (∀ p, p < cOut.npix →
        abs cOut vc out p = (inVals vc inputs p).foldl (stepV vc co orF) vc.sentinel) ∧
      (∀ k, k < cOut.ncov → (covered cOut out k = true ↔
        ∃ i ∈ inputs, ∃ p, p < cOut.npix ∧ p >>> cOut.shift = k ∧
          vc.valid (abs i.c vc i.state p) = true)) := by
  rw [catFiles_eq]
  have hok : ∀ x ∈ catPairs cOut vc inputs, Inv x.2.c vc x.2.state ∧ x.2.c.npix = cOut.npix :=
    fun x hx => hin x.2 ((mem_catPairs cOut vc inputs x).1 hx).2
  rcases catFold_gen cOut vc co oo orF hv (catPairs cOut vc inputs) [] _ hok
      (catG_nil cOut vc co orF) with h | ⟨out, h1, hg⟩
  · exact Or.inl h
  · rw [List.nil_append] at hg
    refine Or.inr ⟨out, h1, hg.1, ?_, ?_⟩
    · intro p hp
      rw [hg.2.1 p hp, valsT_catPairs cOut vc inputs hin hv p hp]
    · intro k hk
      rw [hg.2.2 k hk]
      constructor
      · rintro ⟨x, hx, _, p, hp, h2, h3⟩
        exact ⟨x.2, ((mem_catPairs cOut vc inputs x).1 hx).2, p, hp, h2, h3⟩
      · rintro ⟨i, hi, p, hp, h2, h3⟩
        refine ⟨(k, i), ?_, rfl, p, hp, h2, h3⟩
        rw [mem_catPairs]
        refine ⟨⟨hk, i, hi, ?_⟩, hi⟩
        rw [← h2]
        exact catSummary_complete cOut vc i (hin i hi).1 hv (hin i hi).2 p hp h3

/-! ### reading the fold -/

omit [DecidableEq V] in
/-- without overlap checking the LAST valid input wins -/
theorem foldl_stepV_nocheck (vc : VCfg V) (orF : V → V → V) (vs : List V) (s : V) :
    vs.foldl (stepV vc false orF) s = vs.getLast?.getD s := by
  induction vs generalizing s with
  | nil => rfl
  | cons v vs ih =>
    rw [List.foldl_cons, ih]
    cases vs with
    | nil => rfl
    | cons w ws =>
      rw [List.getLast?_cons_cons]
      cases h : (w :: ws).getLast? with
      | none => simp at h
      | some z => rfl

omit [DecidableEq V] in
/-- the first valid value replaces the blank cell, whatever the flags -/
theorem stepV_blank (vc : VCfg V) (co : Bool) (orF : V → V → V) (hv : vc.valid vc.sentinel = false)
    (v : V) : stepV vc co orF vc.sentinel v = v := by
  unfold stepV; rw [hv]; simp

omit [DecidableEq V] in
theorem foldl_stepV_cons (vc : VCfg V) (co : Bool) (orF : V → V → V)
    (hv : vc.valid vc.sentinel = false) (v : V) (vs : List V) :
    (v :: vs).foldl (stepV vc co orF) vc.sentinel = vs.foldl (stepV vc co orF) v := by
  rw [List.foldl_cons, stepV_blank vc co orF hv]

/-- **when the loop fails**: exactly under `check ∧ ¬ or` with two inputs sharing a valid pixel -/
theorem catFiles_none_iff (cOut : Cfg) (vc : VCfg V) (inputs : List (CatIn V)) (co oo : Bool)
    (orF : V → V → V)
    (hin : ∀ i ∈ inputs, Inv i.c vc i.state ∧ i.c.npix = cOut.npix)
    (hv : vc.valid vc.sentinel = false) :
    catFiles cOut vc inputs co oo orF = none ↔
      co = true ∧ oo = false ∧
      ¬ inputs.Pairwise fun a b => ∀ p, p < cOut.npix →
        ¬ (vc.valid (abs a.c vc a.state p) = true ∧ vc.valid (abs b.c vc b.state p) = true) := by
  constructor
  · intro hnone
    rcases catFiles_gen cOut vc inputs co oo orF hin hv with ⟨_, h2, h3⟩ | ⟨out, h1, _⟩
    · refine ⟨h2, h3, fun hpw => ?_⟩
      obtain ⟨out, h1, _⟩ := catFiles_union cOut vc inputs co oo orF hin hv hpw
      rw [hnone] at h1
      cases h1
    · rw [hnone] at h1; cases h1
  · rintro ⟨rfl, rfl, hnp⟩
    apply Classical.byContradiction
    intro hne
    apply hnp
    rw [List.pairwise_iff_getElem]
    intro a b ha hb hab p hp hboth
    exact hne (catFiles_overlap_none cOut vc inputs orF hin hv a b hab hb p hp hboth.1 hboth.2)

end generic

/-! ## Part 2: `apiCat` -/

/-- the inputs of the core loop: configuration and extensions of each file -/
def inputsOf (files : List FileObj) : List (CatIn Val) :=
  files.map fun f => ⟨cfgOf f.covord f.spord, f.file⟩

/-- the map object that is written to the output file -/
def catMap (co : Nat) (f0 : FileObj) (kind : Kind) (st : State Val) : MapObj :=
  { covord := co, spord := f0.spord, kind := kind, sent := f0.sentinel, st := st }

/-- `apiCat` as a flat decision list -/
def spec (files : List FileObj) (covordOut : Option Nat) (check or_ : Bool) : Except Err FileObj :=
  if or_ && !check then .error .runtime
  else match files with
  | [] => .error .index
  | f0 :: _ =>
    if files.any (fun f => f.spord != f0.spord) then .error .runtime
    else match fileKind f0 with
    | none => .error .runtime
    | some kind =>
      if covordOut.getD f0.covord > f0.spord then .error .value
      else match catFiles (cfgOf (covordOut.getD f0.covord) f0.spord)
          ⟨kind.blank f0.sentinel, kind.valid f0.sentinel⟩ (inputsOf files) check
          (or_ && kind.isIntegerMap) (fun a b => Val.or kind.dt a b) with
        | none => .error .runtime
        | some st => .ok (apiWrite (catMap (covordOut.getD f0.covord) f0 kind st) [])

theorem apiCat_eq_spec (files : List FileObj) (covordOut : Option Nat) (check or_ : Bool) :
    apiCat files covordOut check or_ = spec files covordOut check or_ := by
  unfold apiCat spec
  simp only [bind, Except.bind, pure, Except.pure, throw, throwThe, MonadExceptOf.throw]
  by_cases h1 : (or_ && !check) = true
  · rw [if_pos h1, if_pos h1]
  · rw [if_neg h1, if_neg h1]
    cases files with
    | nil => rfl
    | cons f0 rest =>
      simp only []
      by_cases h2 : ((f0 :: rest).any fun f => f.spord != f0.spord) = true
      · rw [if_pos h2, if_pos h2]
      · rw [if_neg h2, if_neg h2]
        cases hk : fileKind f0 with
        | none => rfl
        | some kind =>
          simp only []
          by_cases h3 : covordOut.getD f0.covord > f0.spord
          · rw [if_pos h3, if_pos h3]
          · rw [if_neg h3, if_neg h3]
            rfl


/-- **exact error behaviour of `apiCat`, any files**: in source order —
    `or_overlap` without `check_overlap` (RuntimeWarning raised); no file (IndexError); a file
    with another `nside_sparse` than the first (RuntimeError); a first file whose header names
    no known kind (RuntimeError); an output coverage finer than `nside_sparse` (ValueError);
    the overlap error of the loop (RuntimeError).  Kinds, dtypes and sentinels of the OTHER
    files are never compared: every file is read with the first file's kind and sentinel. -/
theorem apiCat_error_iff (files : List FileObj) (covordOut : Option Nat) (check or_ : Bool) (e : Err) :
    apiCat files covordOut check or_ = .error e ↔
      (or_ = true ∧ check = false ∧ e = .runtime) ∨
      (¬ (or_ = true ∧ check = false) ∧
        ((files = [] ∧ e = .index) ∨
         ∃ f0 rest, files = f0 :: rest ∧
          (((∃ f ∈ files, f.spord ≠ f0.spord) ∧ e = .runtime) ∨
           ((∀ f ∈ files, f.spord = f0.spord) ∧
            ((fileKind f0 = none ∧ e = .runtime) ∨
             ∃ kind, fileKind f0 = some kind ∧
              ((covordOut.getD f0.covord > f0.spord ∧ e = .value) ∨
               (covordOut.getD f0.covord ≤ f0.spord ∧ e = .runtime ∧
                catFiles (cfgOf (covordOut.getD f0.covord) f0.spord)
                  ⟨kind.blank f0.sentinel, kind.valid f0.sentinel⟩ (inputsOf files) check
                  (or_ && kind.isIntegerMap) (fun a b => Val.or kind.dt a b) = none))))))) := by
  rw [apiCat_eq_spec]
  unfold spec
  by_cases h1 : (or_ && !check) = true
  · rw [if_pos h1]
    have h1' : or_ = true ∧ check = false := by simpa using h1
    constructor
    · intro h; cases h; exact Or.inl ⟨h1'.1, h1'.2, rfl⟩
    · rintro (⟨_, _, rfl⟩ | ⟨hn, _⟩)
      · rfl
      · exact absurd h1' hn
  · rw [if_neg h1]
    have h1' : ¬ (or_ = true ∧ check = false) := by simpa using h1
    cases files with
    | nil =>
      constructor
      · intro h; cases h; exact Or.inr ⟨h1', Or.inl ⟨rfl, rfl⟩⟩
      · rintro (⟨h2, h3, _⟩ | ⟨_, (⟨_, rfl⟩ | ⟨f0, rest, hc, _⟩)⟩)
        · exact absurd ⟨h2, h3⟩ h1'
        · rfl
        · cases hc
    | cons f0 rest =>
      simp only []
      have hex : ∀ P : FileObj → List FileObj → Prop,
          (∃ f r, f0 :: rest = f :: r ∧ P f r) ↔ P f0 rest :=
        fun P => ⟨fun ⟨f, r, h, hp⟩ => by cases h; exact hp, fun h => ⟨_, _, rfl, h⟩⟩
      have hany : ((f0 :: rest).any fun f => f.spord != f0.spord) = true ↔
          ∃ f ∈ f0 :: rest, f.spord ≠ f0.spord := by
        rw [List.any_eq_true]
        constructor
        · rintro ⟨f, hf, h⟩; exact ⟨f, hf, by simpa using h⟩
        · rintro ⟨f, hf, h⟩; exact ⟨f, hf, by simpa using h⟩
      have hall : ¬ (∃ f ∈ f0 :: rest, f.spord ≠ f0.spord) ↔ ∀ f ∈ f0 :: rest, f.spord = f0.spord := by
        constructor
        · intro h f hf
          apply Classical.byContradiction
          intro hne
          exact h ⟨f, hf, hne⟩
        · rintro h ⟨f, hf, hne⟩; exact hne (h f hf)
      rw [show (∃ f r, f0 :: rest = f :: r ∧ _) ↔ _ from hex _]
      by_cases h2 : ((f0 :: rest).any fun f => f.spord != f0.spord) = true
      · rw [if_pos h2]
        have hA := hany.1 h2
        have hnB : ¬ ∀ f ∈ f0 :: rest, f.spord = f0.spord := fun hb => (hall.2 hb) hA
        constructor
        · intro h; cases h; exact Or.inr ⟨h1', Or.inr (Or.inl ⟨hA, rfl⟩)⟩
        · rintro (⟨h3, h4, _⟩ | ⟨_, (⟨hc, _⟩ | (⟨_, rfl⟩ | ⟨hb, _⟩))⟩)
          · exact absurd ⟨h3, h4⟩ h1'
          · cases hc
          · rfl
          · exact absurd hb hnB
      · rw [if_neg h2]
        have hnA : ¬ ∃ f ∈ f0 :: rest, f.spord ≠ f0.spord := fun ha => h2 (hany.2 ha)
        have hB : ∀ f ∈ f0 :: rest, f.spord = f0.spord := hall.1 hnA
        cases hk : fileKind f0 with
        | none =>
          show Except.error Err.runtime = Except.error e ↔ _
          constructor
          · intro h; cases h
            exact Or.inr ⟨h1', Or.inr (Or.inr ⟨hB, Or.inl ⟨rfl, rfl⟩⟩)⟩
          · rintro (⟨h3, h4, _⟩ | ⟨_, (⟨hc, _⟩ | (⟨ha, _⟩ | ⟨_, (⟨_, rfl⟩ | ⟨k, hc, _⟩)⟩))⟩)
            · exact absurd ⟨h3, h4⟩ h1'
            · cases hc
            · exact absurd ha hnA
            · rfl
            · cases hc
        | some kind =>
          show (if covordOut.getD f0.covord > f0.spord then Except.error Err.value else _) =
            Except.error e ↔ _
          by_cases h3 : covordOut.getD f0.covord > f0.spord
          · rw [if_pos h3]
            constructor
            · intro h; cases h
              exact Or.inr ⟨h1', Or.inr (Or.inr ⟨hB, Or.inr ⟨kind, rfl, Or.inl ⟨h3, rfl⟩⟩⟩)⟩
            · rintro (⟨h4, h5, _⟩ | ⟨_, (⟨hc, _⟩ | (⟨ha, _⟩ | ⟨_, (⟨hc, _⟩ | ⟨k, hc, (⟨_, rfl⟩ | ⟨hle, _⟩)⟩)⟩))⟩)
              · exact absurd ⟨h4, h5⟩ h1'
              · cases hc
              · exact absurd ha hnA
              · cases hc
              · rfl
              · exact absurd h3 (Nat.not_lt.2 hle)
          · rw [if_neg h3]
            have hle := Nat.not_lt.1 h3
            cases hcat : catFiles (cfgOf (covordOut.getD f0.covord) f0.spord)
                ⟨kind.blank f0.sentinel, kind.valid f0.sentinel⟩ (inputsOf (f0 :: rest)) check
                (or_ && kind.isIntegerMap) (fun a b => Val.or kind.dt a b) with
            | none =>
              show Except.error Err.runtime = Except.error e ↔ _
              constructor
              · intro h; cases h
                exact Or.inr ⟨h1', Or.inr (Or.inr ⟨hB, Or.inr ⟨kind, rfl, Or.inr ⟨hle, rfl, hcat⟩⟩⟩)⟩
              · rintro (⟨h4, h5, _⟩ | ⟨_, (⟨hc, _⟩ | (⟨ha, _⟩ | ⟨_, (⟨hc, _⟩ | ⟨k, hc, (⟨hgt, _⟩ | ⟨_, rfl, _⟩)⟩)⟩))⟩)
                · exact absurd ⟨h4, h5⟩ h1'
                · cases hc
                · exact absurd ha hnA
                · cases hc
                · exact absurd hgt h3
                · rfl
            | some st =>
              show Except.ok _ = Except.error e ↔ _
              constructor
              · intro h; cases h
              · rintro (⟨h4, h5, _⟩ | ⟨_, (⟨hc, _⟩ | (⟨ha, _⟩ | ⟨_, (⟨hc, _⟩ | ⟨k, hc, (⟨hgt, _⟩ | ⟨_, _, hn⟩)⟩)⟩))⟩)
                · exact absurd ⟨h4, h5⟩ h1'
                · cases hc
                · exact absurd ha hnA
                · cases hc
                · exact absurd hgt h3
                · cases hc; rw [hcat] at hn; cases hn

/-! ### files written from map objects of one kind and sentinel -/

/-- the maps to be written, each with its user metadata -/
abbrev Ins := List (MapObj × List (String × String))

/-- the files `write` produces from them -/
def filesOf (ins : Ins) : List FileObj := ins.map fun x => apiWrite x.1 x.2

/-- the inputs of the core loop, in terms of the maps -/
def mapInputs (ins : Ins) : List (CatIn Val) := ins.map fun x => ⟨x.1.c, writeFits x.1.st⟩

theorem inputsOf_filesOf (ins : Ins) : inputsOf (filesOf ins) = mapInputs ins := by
  unfold inputsOf filesOf mapInputs
  rw [List.map_map]
  rfl

/-- well-formed, well-typed maps of ONE kind, ONE sentinel and ONE `nside_sparse`
    (`nside_coverage` is free) -/
structure Uniform (kind : Kind) (sent : Val) (so : Nat) (ins : Ins) : Prop where
  ok : ∀ x ∈ ins, x.1.Ok
  kind : ∀ x ∈ ins, x.1.kind = kind
  sent : ∀ x ∈ ins, x.1.sent = sent
  spord : ∀ x ∈ ins, x.1.spord = so

/-- the common cell parameters -/
def vcOf (kind : Kind) (sent : Val) : VCfg Val := ⟨kind.blank sent, kind.valid sent⟩

theorem Uniform.vc_eq {kind : Kind} {sent : Val} {so : Nat} {ins : Ins} (h : Uniform kind sent so ins)
    {x : MapObj × List (String × String)} (hx : x ∈ ins) : x.1.vc = vcOf kind sent := by
  unfold MapObj.vc vcOf; rw [h.kind x hx, h.sent x hx]

theorem Uniform.abs_eq {kind : Kind} {sent : Val} {so : Nat} {ins : Ins} (h : Uniform kind sent so ins)
    {x : MapObj × List (String × String)} (hx : x ∈ ins) (p : Nat) :
    x.1.abs p = abs x.1.c (vcOf kind sent) x.1.st p := by
  unfold MapObj.abs; rw [h.vc_eq hx]

/-- the values at pixel `p` of the maps valid there (own validity rule = the common one), in
    list order -/
def vals (ins : Ins) (p : Nat) : List Val :=
  ins.filterMap fun x => if x.1.vc.valid (x.1.abs p) then some (x.1.abs p) else none

/-- no pixel of the sphere is valid in two of the maps -/
def Disjoint (so : Nat) (ins : Ins) : Prop :=
  ins.Pairwise fun x y => ∀ p, p < 12 * 4 ^ so →
    ¬ (x.1.vc.valid (x.1.abs p) = true ∧ y.1.vc.valid (y.1.abs p) = true)

instance (so : Nat) (ins : Ins) : Decidable (Disjoint so ins) := by
  unfold Disjoint
  haveI : DecidableRel (fun x y : MapObj × List (String × String) => ∀ p, p < 12 * 4 ^ so →
      ¬ (x.1.vc.valid (x.1.abs p) = true ∧ y.1.vc.valid (y.1.abs p) = true)) :=
    fun x y => inferInstance
  infer_instance

theorem Uniform.inputs {kind : Kind} {sent : Val} {so co : Nat} {ins : Ins}
    (h : Uniform kind sent so ins) (hco : co ≤ so) :
    ∀ i ∈ mapInputs ins, Inv i.c (vcOf kind sent) i.state ∧ i.c.npix = (cfgOf co so).npix := by
  intro i hi
  obtain ⟨x, hx, rfl⟩ := List.mem_map.1 hi
  have hwf := (h.ok x hx).1
  refine ⟨?_, ?_⟩
  · rw [← h.vc_eq hx]; exact hwf.2
  · show (cfgOf x.1.covord x.1.spord).npix = _
    rw [WFFiles.cfgOf_npix hwf.1, WFFiles.cfgOf_npix hco, h.spord x hx]

theorem Uniform.inVals {kind : Kind} {sent : Val} {so : Nat} {ins : Ins}
    (h : Uniform kind sent so ins) (p : Nat) :
    inVals (vcOf kind sent) (mapInputs ins) p = vals ins p := by
  unfold ApiCat.inVals mapInputs vals
  rw [List.filterMap_map]
  apply ApiMulti.filterMap_congr'
  intro x hx
  show (if (vcOf kind sent).valid (abs x.1.c (vcOf kind sent) x.1.st p) = true then
    some (abs x.1.c (vcOf kind sent) x.1.st p) else none) = _
  rw [← h.vc_eq hx]
  rfl

theorem Uniform.disjoint_iff {kind : Kind} {sent : Val} {so co : Nat} {ins : Ins}
    (h : Uniform kind sent so ins) (hco : co ≤ so) :
    ((mapInputs ins).Pairwise fun a b => ∀ p, p < (cfgOf co so).npix →
      ¬ ((vcOf kind sent).valid (abs a.c (vcOf kind sent) a.state p) = true ∧
         (vcOf kind sent).valid (abs b.c (vcOf kind sent) b.state p) = true)) ↔ Disjoint so ins := by
  unfold mapInputs Disjoint
  rw [List.pairwise_map, WFFiles.cfgOf_npix hco]
  constructor
  · intro hp
    refine List.Pairwise.imp_of_mem ?_ hp
    intro x y hx hy hxy p hpp
    have := hxy p hpp
    rw [h.vc_eq hx, h.vc_eq hy, h.abs_eq hx, h.abs_eq hy]
    exact this
  · intro hp
    refine List.Pairwise.imp_of_mem ?_ hp
    intro x y hx hy hxy p hpp
    have := hxy p hpp
    rw [h.vc_eq hx, h.vc_eq hy, h.abs_eq hx, h.abs_eq hy] at this
    exact this


/-- the map that is written: output coverage order, common `nside_sparse`, kind, sentinel -/
def outMap (co so : Nat) (kind : Kind) (sent : Val) (st : State Val) : MapObj :=
  { covord := co, spord := so, kind := kind, sent := sent, st := st }

/-- **`apiCat` on files written from uniform maps**, as a three-line decision list: nothing
    about the OTHER files' headers is ever checked except `nside_sparse` -/
theorem apiCat_written {kind : Kind} {sent : Val} {so : Nat} {m₀ : MapObj}
    {md₀ : List (String × String)} {rest : Ins} (h : Uniform kind sent so ((m₀, md₀) :: rest))
    (hft : m₀.FileTyped) (covordOut : Option Nat) (check or_ : Bool) :
    apiCat (filesOf ((m₀, md₀) :: rest)) covordOut check or_ =
      if or_ && !check then .error .runtime
      else if covordOut.getD m₀.covord > so then .error .value
      else match catFiles (cfgOf (covordOut.getD m₀.covord) so) (vcOf kind sent)
          (mapInputs ((m₀, md₀) :: rest)) check (or_ && kind.isIntegerMap)
          (fun a b => Val.or kind.dt a b) with
        | none => .error .runtime
        | some st => .ok (apiWrite (outMap (covordOut.getD m₀.covord) so kind sent st) []) := by
  have h0 : (m₀, md₀) ∈ (m₀, md₀) :: rest := List.mem_cons_self
  have hk0 : m₀.kind = kind := h.kind _ h0
  have hs0 : m₀.sent = sent := h.sent _ h0
  have hso0 : m₀.spord = so := h.spord _ h0
  subst hk0 hs0 hso0
  rw [apiCat_eq_spec]
  unfold spec
  by_cases h1 : (or_ && !check) = true
  · rw [if_pos h1, if_pos h1]
  · rw [if_neg h1, if_neg h1]
    have hfiles : filesOf ((m₀, md₀) :: rest) = apiWrite m₀ md₀ :: filesOf rest := rfl
    rw [← inputsOf_filesOf, hfiles]
    simp only []
    have hany : ((apiWrite m₀ md₀ :: filesOf rest).any fun f => f.spord != (apiWrite m₀ md₀).spord)
        = false := by
      rw [List.any_eq_false]
      intro f hf
      rw [← hfiles] at hf
      obtain ⟨x, hx, rfl⟩ := List.mem_map.1 hf
      show ¬ ((x.1.spord != m₀.spord) = true)
      rw [h.spord x hx]
      simp
    rw [hany]
    simp only [Bool.false_eq_true, if_false]
    rw [(fileKind_apiWrite_iff m₀ md₀).2 hft]
    rfl

/-- **what `apiCat` does on uniform inputs**, flags and output coverage order accepted: either
    the overlap error (`check`, no usable `or`, two maps sharing a valid pixel), or a file `F`
    that reads back as the map `M` below -/
theorem apiCat_sem {kind : Kind} {sent : Val} {so : Nat} {m₀ : MapObj}
    {md₀ : List (String × String)} {rest : Ins} (h : Uniform kind sent so ((m₀, md₀) :: rest))
    (hft : m₀.FileTyped) (covordOut : Option Nat) (check or_ : Bool)
    (hflags : ¬ (or_ = true ∧ check = false)) (hco : covordOut.getD m₀.covord ≤ so) :
    (apiCat (filesOf ((m₀, md₀) :: rest)) covordOut check or_ = .error .runtime ∧
      check = true ∧ (or_ && kind.isIntegerMap) = false ∧ ¬ Disjoint so ((m₀, md₀) :: rest)) ∨
    ∃ st, apiCat (filesOf ((m₀, md₀) :: rest)) covordOut check or_ =
        .ok (apiWrite (outMap (covordOut.getD m₀.covord) so kind sent st) []) ∧
      (check = true → (or_ && kind.isIntegerMap) = false → Disjoint so ((m₀, md₀) :: rest)) ∧
      apiRead (apiWrite (outMap (covordOut.getD m₀.covord) so kind sent st) []) none =
        .ok (outMap (covordOut.getD m₀.covord) so kind sent st) ∧
      (outMap (covordOut.getD m₀.covord) so kind sent st).WF ∧
      (∀ p, p < 12 * 4 ^ so →
        (outMap (covordOut.getD m₀.covord) so kind sent st).abs p =
          (vals ((m₀, md₀) :: rest) p).foldl
            (stepV (vcOf kind sent) check (fun a b => Val.or kind.dt a b)) (kind.blank sent)) ∧
      (∀ k, k < 12 * 4 ^ (covordOut.getD m₀.covord) →
        (covered (cfgOf (covordOut.getD m₀.covord) so) st k = true ↔
          ∃ x ∈ (m₀, md₀) :: rest, ∃ p, p < 12 * 4 ^ so ∧
            p >>> (2 * (so - covordOut.getD m₀.covord)) = k ∧ x.1.vc.valid (x.1.abs p) = true)) := by
  have h0 : (m₀, md₀) ∈ (m₀, md₀) :: rest := List.mem_cons_self
  have hv : (vcOf kind sent).valid (vcOf kind sent).sentinel = false := by
    rw [← h.vc_eq h0]; exact (h.ok _ h0).2.1.blankInvalid
  have hin := h.inputs hco
  rw [apiCat_written h hft]
  have h1 : ¬ (or_ && !check) = true := by
    intro hc
    simp only [Bool.and_eq_true, Bool.not_eq_true'] at hc
    exact hflags hc
  rw [if_neg h1, if_neg (Nat.not_lt.2 hco)]
  rcases catFiles_gen (cfgOf (covordOut.getD m₀.covord) so) (vcOf kind sent)
      (mapInputs ((m₀, md₀) :: rest)) check (or_ && kind.isIntegerMap)
      (fun a b => Val.or kind.dt a b) hin hv with ⟨hnone, hc, ho⟩ | ⟨st, hst, hI, habs, hcov⟩
  · left
    rw [hnone]
    refine ⟨rfl, hc, ho, ?_⟩
    have := ((catFiles_none_iff _ _ _ _ _ _ hin hv).1 hnone).2.2
    rwa [h.disjoint_iff hco] at this
  · right
    refine ⟨st, by rw [hst], ?_, ?_, ⟨hco, hI⟩, ?_, ?_⟩
    · intro hc ho
      apply Classical.byContradiction
      intro hnd
      have : catFiles (cfgOf (covordOut.getD m₀.covord) so) (vcOf kind sent)
          (mapInputs ((m₀, md₀) :: rest)) check (or_ && kind.isIntegerMap)
          (fun a b => Val.or kind.dt a b) = none :=
        (catFiles_none_iff _ _ _ _ _ _ hin hv).2 ⟨hc, ho, by rwa [h.disjoint_iff hco]⟩
      rw [this] at hst; cases hst
    · have hft' : (outMap (covordOut.getD m₀.covord) so kind sent st).FileTyped :=
        (MapObj.FileTyped_congr (m := m₀) (h.kind _ h0).symm (h.sent _ h0).symm).2 hft
      rw [apiRead_apiWrite_none _ _ hft']
      rfl
    · intro p hp
      have := habs p (by rw [WFFiles.cfgOf_npix hco]; exact hp)
      rw [h.inVals] at this
      exact this
    · intro k hk
      have hk' : k < (cfgOf (covordOut.getD m₀.covord) so).ncov := hk
      rw [hcov k hk']
      constructor
      · rintro ⟨i, hi, p, hp, h2, h3⟩
        obtain ⟨x, hx, rfl⟩ := List.mem_map.1 hi
        rw [WFFiles.cfgOf_npix hco] at hp
        refine ⟨x, hx, p, hp, h2, ?_⟩
        rw [h.vc_eq hx, h.abs_eq hx]
        exact h3
      · rintro ⟨x, hx, p, hp, h2, h3⟩
        refine ⟨⟨x.1.c, writeFits x.1.st⟩, List.mem_map.2 ⟨x, hx, rfl⟩, p, ?_, h2, ?_⟩
        · rw [WFFiles.cfgOf_npix hco]; exact hp
        · rw [h.vc_eq hx, h.abs_eq hx] at h3
          exact h3

end ApiCat
end HS
