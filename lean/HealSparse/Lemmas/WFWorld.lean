/-
  The world invariant of the protocol driver (Model/Dispatch.lean) and its preservation by
  every operation.

  `World.WF` (Model/WellFormed.lean) is not inductive by itself: several operations need more of
  the map they look up than its layout (`KindOk`: the sentinel has the type of the cell,
  Lemmas/WFApi.lean; `SentOK`: a wide mask's scalar sentinel is not a boolean,
  Lemmas/WFFiles.lean), the reader needs the same of what it recovers from a file, and a
  view descriptor must never be resolved against another descriptor.  `World.Good` adds these.

  HISTORY.  A first version of this file found that even `World.Good` was not preserved by every
  history, through two artefacts of the NAME-based view descriptors of `World`:
    (F-A) a copying operation whose result still carried the `view` flag, stored with
          `World.put` under an `r=` name bound to a view, entered the write-back branch and wrote
          a foreign column into that view's parent (`copy va r=vb`);
    (F-B) after the name of a view's parent had been rebound to a record map whose field `i` is
          BOOLEAN, `World.get?` resolved the view to a `plain bool` map with a numeric sentinel.
  The model was repaired (`World.bind` for every freshly produced object; `World.get?` checks
  the recorded field dtype); the two histories are kept at the end as regression examples, and
  `Good.step` is unconditional.
-/
import HealSparse.Lemmas.WFApi
import HealSparse.Lemmas.WFRes
import HealSparse.Lemmas.WFFiles
namespace HS

open WFApi WFRes WFFiles

/-! ### the map-level and file-level predicates -/

def Kind.isRecd : Kind → Bool
  | .recd _ _ => true
  | _ => false

/-- well formed, well typed, sentinel compatible with the file format -/
def MapObj.Ok (m : MapObj) : Prop := m.WF ∧ m.KindOk ∧ m.SentOK

instance (m : MapObj) : Decidable m.Ok := by unfold MapObj.Ok; infer_instance

/-- the kind the reader recovers from the file is well typed with the file's sentinel -/
def FileObj.KindOk (f : FileObj) : Prop :=
  ∀ kind, fileKind f = some kind → ∀ m : MapObj, m.kind = kind → m.sent = f.sentinel → m.KindOk

theorem MapObj.Ok_congr {m m' : MapObj} (h1 : m'.covord = m.covord) (h2 : m'.spord = m.spord)
    (h3 : m'.kind = m.kind) (h4 : m'.sent = m.sent) (h5 : m'.st = m.st) : m'.Ok ↔ m.Ok := by
  unfold MapObj.Ok MapObj.SentOK
  rw [MapObj.WF_congr h1 h2 h3 h4 h5, MapObj.KindOk_congr h3 h4, h3, h4]

theorem MapObj.SentOK_congr {m m' : MapObj} (h3 : m'.kind = m.kind) (h4 : m'.sent = m.sent) :
    m'.SentOK ↔ m.SentOK := by
  unfold MapObj.SentOK; rw [h3, h4]

theorem MapObj.sentOK_of_plain {m : MapObj} {dt : DT} (h : m.kind = .plain dt) : m.SentOK := by
  unfold MapObj.SentOK; rw [h]; exact Kind.sentOK_plain _ _

theorem MapObj.sentOK_of_not_wide {m : MapObj} (h : ∀ n, m.kind ≠ .wide n) : m.SentOK :=
  Kind.sentOK_of_not_wide _ h

@[simp] theorem MapObj.Ok_view (m : MapObj) (x : Option (String × Nat)) :
    ({ m with view := x } : MapObj).Ok ↔ m.Ok := Iff.rfl

@[simp] theorem MapObj.Ok_cache (m : MapObj) (x : Option Nat) :
    ({ m with cache := x } : MapObj).Ok ↔ m.Ok := Iff.rfl

/-- same configuration, kind, sentinel and view flag (what every in-place operation keeps) -/
def MapObj.Same (m' m : MapObj) : Prop :=
  m'.covord = m.covord ∧ m'.spord = m.spord ∧ m'.kind = m.kind ∧ m'.sent = m.sent ∧ m'.view = m.view

theorem MapObj.Same.rfl' {m : MapObj} : m.Same m := ⟨rfl, rfl, rfl, rfl, rfl⟩

@[simp] theorem MapObj.same_withSt (m : MapObj) (st : State Val) (x : Option Nat) :
    ({ m with st := st, cache := x } : MapObj).Same m := ⟨rfl, rfl, rfl, rfl, rfl⟩

@[simp] theorem MapObj.same_cache (m : MapObj) (x : Option Nat) :
    ({ m with cache := x } : MapObj).Same m := ⟨rfl, rfl, rfl, rfl, rfl⟩

/-! ### the world invariant -/

/-- every owning pool entry is well formed, well typed and sentinel compatible; every view
    descriptor has a non-record kind (so a descriptor is never resolved against a descriptor);
    every file is well formed and the kind the reader recovers from it is well typed -/
def World.Good (w : World) : Prop :=
  (∀ e ∈ w.pool, e.2.view = none → e.2.Ok) ∧
  (∀ e ∈ w.pool, e.2.view ≠ none → e.2.kind.isRecd = false) ∧
  (∀ e ∈ w.files, e.2.WF ∧ e.2.KindOk)

theorem World.Good.wf {w : World} (h : w.Good) : w.WF :=
  ⟨fun e he hv => (h.1 e he hv).1, fun e he => (h.2.2 e he).1⟩

theorem World.good_empty : ({} : World).Good := by
  refine ⟨?_, ?_, ?_⟩ <;> intro e he <;> cases he

theorem World.raw?_mem {w : World} {n : String} {m : MapObj} (h : w.raw? n = some m) :
    ∃ e ∈ w.pool, e.1 = n ∧ e.2 = m := by
  unfold World.raw? at h
  cases hf : w.pool.find? (·.1 == n) with
  | none => rw [hf] at h; cases h
  | some e =>
    rw [hf] at h
    cases h
    have hb : (e.1 == n) = true := by
      have := List.find?_some hf
      exact this
    exact ⟨e, List.mem_of_find?_eq_some hf, eq_of_beq hb, rfl⟩

/-- the two ways `World.get?` answers -/
theorem World.get?_cases {w : World} {n : String} {v : MapObj} (h : w.get? n = some v) :
    (w.raw? n = some v ∧ v.view = none) ∨
    ∃ d pn i p, w.raw? n = some d ∧ d.view = some (pn, i) ∧ w.raw? pn = some p ∧
      d.sent = viewBlank p i ∧ materializeView p pn i d.sent d.cache = .ok v ∧
      v.kind = d.kind ∧ d.kind ≠ .plain .bool := by
  unfold World.get? at h
  split at h
  · cases h
  · rename_i d hd
    split at h
    · cases h
      exact .inl ⟨hd, ‹_›⟩
    · rename_i pn i hv
      split at h
      · cases h
      · rename_i p hp
        split at h
        · cases h
        · rename_i hs
          split at h
          · rename_i v' hm
            split at h
            · rename_i hc
              cases h
              simp only [Bool.and_eq_true, beq_iff_eq, bne_iff_ne] at hc
              refine .inr ⟨d, pn, i, p, hd, hv, hp, ?_, hm, hc.1, hc.2⟩
              exact (by simpa using hs : d.sent = recField i (p.kind.blank p.sent))
            · cases h
          · cases h

/-- a materialised view has a record parent -/
theorem materializeView_parent_recd {p : MapObj} {pn : String} {i : Nat} {sent : Val}
    {cache : Option Nat} {v : MapObj} (h : materializeView p pn i sent cache = .ok v) :
    p.kind.isRecd = true := by
  obtain ⟨dt, s, hs, _⟩ := materializeView_ok h
  obtain ⟨fs, pr, hk, _⟩ := singleSentinel_ok hs
  rw [hk]; rfl

/-- **what `World.get?` answers in a good world is well formed, well typed, sentinel compatible**
    (a view is resolved against its parent, which is an owning entry) -/
theorem World.Good.get {w : World} (hw : w.Good) {n : String} {v : MapObj}
    (h : w.get? n = some v) : v.Ok := by
  rcases World.get?_cases h with ⟨hr, hv⟩ | ⟨d, pn, i, p, hd, hdv, hp, hs, hm, hk, hnb⟩
  · obtain ⟨e, he, _, rfl⟩ := World.raw?_mem hr
    exact hw.1 e he hv
  · obtain ⟨e, he, _, rfl⟩ := World.raw?_mem hp
    have hrec := materializeView_parent_recd hm
    have hpv : e.2.view = none := by
      cases hv : e.2.view with
      | none => rfl
      | some x =>
        have := hw.2.1 e he (by rw [hv]; exact fun h => nomatch h)
        rw [this] at hrec; cases hrec
    have hpok := hw.1 e he hpv
    obtain ⟨dt, s, _, _, _, h3, h4, _, _, h7⟩ := materializeView_ok hm
    refine ⟨WF.materializeView_of_sent hpok.1 hm hs, ?_, MapObj.sentOK_of_plain h3⟩
    apply kindOk_plain h3
    intro hdt
    exact absurd (by rw [← hk, h3, hdt]) hnb

/-! ### `World.put` -/

/-- binding a name to a freshly produced map: the map becomes an owning entry -/
theorem World.Good.bind {w : World} (hw : w.Good) (r : String) {m : MapObj} (hm : m.Ok) :
    (w.bind r m).Good := by
  refine ⟨?_, ?_, hw.2.2⟩
  · intro e he hev
    rcases List.mem_cons.1 he with rfl | he
    · exact hm
    · exact hw.1 e (List.mem_filter.1 he).1 hev
  · intro e he hev
    rcases List.mem_cons.1 he with rfl | he
    · exact absurd rfl hev
    · exact hw.2.1 e (List.mem_filter.1 he).1 hev

/-- `World.put` of a map without the view flag is `World.bind` -/
theorem World.put_eq_bind {w : World} {r : String} {m : MapObj} (h : m.view = none) :
    w.put r m = w.bind r m := by
  unfold World.put World.bind
  split
  · rename_i h2; rw [h] at h2; cases h2
  · rfl

/-- storing, under the name it was looked up with, a map that kept the looked-up map's
    configuration, kind, sentinel and view flag (every in-place operation): for a view the column
    is written back into the parent, which stays good -/
theorem World.Good.put_inplace {w : World} (hw : w.Good) {n : String} {v m' : MapObj}
    (hget : w.get? n = some v) (hm : m'.Ok) (hsame : m'.Same v) : (w.put n m').Good := by
  obtain ⟨h1, h2, h3, h4, h5⟩ := hsame
  rcases World.get?_cases hget with ⟨hr, hv⟩ | ⟨d, pn, i, p, hd, hdv, hp, hs, hmat, _, _⟩
  · rw [World.put_eq_bind (h5.trans hv)]
    exact hw.bind n hm
  · obtain ⟨dt, s, _, g1, g2, g3, g4, _, _, g7⟩ := materializeView_ok hmat
    have hrec := materializeView_parent_recd hmat
    obtain ⟨e, he, _, rfl⟩ := World.raw?_mem hp
    have hpv : e.2.view = none := by
      cases hv : e.2.view with
      | none => rfl
      | some x =>
        have := hw.2.1 e he (by rw [hv]; exact fun h => nomatch h)
        rw [this] at hrec; cases hrec
    have hpok := hw.1 e he hpv
    have hdisc : (w.raw? n).bind (·.view) = some (pn, i) := by rw [hd]; exact hdv
    have hmv : m'.view = some (pn, i) := h5.trans g7
    unfold World.put
    split
    · rename_i pn' i' x q1 q2
      rw [hdisc] at q1
      cases q1
      rw [hp]
      simp only
      have hp' : (writeBackView e.2 i m').Ok := by
        refine ⟨?_, (MapObj.KindOk_congr rfl rfl).2 hpok.2.1, (MapObj.SentOK_congr rfl rfl).2 hpok.2.2⟩
        refine WF.writeBackView_of_WF hpok.1 hm.1 ?_ (h1.trans g1) (h2.trans g2)
        show m'.kind.blank m'.sent = _
        rw [h3, g3, h4, g4, hs]
        rfl
      refine ⟨?_, ?_, hw.2.2⟩
      · intro e' he' hev
        rcases List.mem_cons.1 he' with rfl | he'
        · rw [show ({ m' with st := ⟨#[], #[]⟩ } : MapObj).view = m'.view from rfl, hmv] at hev
          cases hev
        · rcases List.mem_cons.1 he' with rfl | he'
          · exact hp'
          · exact hw.1 e' (List.mem_filter.1 he').1 hev
      · intro e' he' hev
        rcases List.mem_cons.1 he' with rfl | he'
        · show m'.kind.isRecd = false
          rw [h3, g3]; rfl
        · rcases List.mem_cons.1 he' with rfl | he'
          · exact absurd hpv hev
          · exact hw.2.1 e' (List.mem_filter.1 he').1 hev
    · rename_i hno
      exact absurd hmv (fun h => hno pn i (pn, i) hdisc h)


/-! ### map-level: `Ok` through the API -/

theorem Ok.apiMakeEmpty {co so : Nat} {kind : Kind} {sent : Option Val} {P : List Nat} {m : MapObj}
    (h : HS.apiMakeEmpty co so kind sent P = .ok m) : m.Ok ∧ m.view = none :=
  ⟨⟨WF.apiMakeEmpty h, KindOk.apiMakeEmpty h, SentOK.apiMakeEmpty h⟩, (WFApi.apiMakeEmpty_ok h).2.2.2.2.2.2.2⟩

theorem Ok.apiUpdate {m m' : MapObj} {op : String} {pix : List Nat} {vals : Option (List Val)}
    {single : Bool} {ru : Option Bool} (h : m.Ok) (hr : HS.apiUpdate m op pix vals single ru = .ok m') :
    m'.Ok ∧ m'.Same m := by
  obtain ⟨h1, h2, h3, h4, h5, _⟩ := WFApi.apiUpdate_ok hr
  exact ⟨⟨WF.apiUpdate h.1 hr, KindOk.apiUpdate h.2.1 hr, (MapObj.SentOK_congr h3 h4).2 h.2.2⟩,
    h1, h2, h3, h4, h5⟩

theorem Ok.apiUpdateRanges {m m' : MapObj} {op : String} {R : List (Nat × Nat)} {val : Option Val}
    {sl : Bool} (h : m.Ok) (hr : HS.apiUpdateRanges m op R val sl = .ok m') : m'.Ok ∧ m'.Same m := by
  obtain ⟨h1, h2, h3, h4, h5, _⟩ := WFApi.apiUpdateRanges_ok hr
  exact ⟨⟨WF.apiUpdateRanges h.1 hr, KindOk.apiUpdateRanges h.2.1 hr, (MapObj.SentOK_congr h3 h4).2 h.2.2⟩,
    h1, h2, h3, h4, h5⟩

theorem Ok.apiSetBits {m m' : MapObj} {pix bits : List Nat} {clear : Bool} (h : m.Ok)
    (hr : HS.apiSetBits m pix bits clear = .ok m') : m'.Ok ∧ m'.Same m := by
  obtain ⟨op, vals, hu⟩ := WFApi.apiSetBits_ok hr
  exact Ok.apiUpdate h hu

theorem Ok.withSt {m : MapObj} {st : State Val} (x : Option Nat) (h : m.Ok)
    (hwf : ({ m with st := st, cache := x } : MapObj).WF) : ({ m with st := st, cache := x } : MapObj).Ok :=
  ⟨hwf, h.2.1, h.2.2⟩

theorem Ok.apiAstype {m m' : MapObj} {dst : DT} {sentinel : Option Val} (h : m.Ok)
    (hr : HS.apiAstype m dst sentinel = .ok m') : m'.Ok := by
  obtain ⟨_, _, _, h3, _⟩ := WFApi.apiAstype_ok hr
  exact ⟨WF.apiAstype h.1 h.2.1 hr, KindOk.apiAstype hr, MapObj.sentOK_of_plain h3⟩

theorem Ok.apiAsBitPacked {m m' : MapObj} (h : m.Ok) (hr : HS.apiAsBitPacked m = .ok m') : m'.Ok := by
  refine ⟨WF.apiAsBitPacked h.1 hr, KindOk.apiAsBitPacked h.2.1 hr, ?_⟩
  obtain ⟨_, _, _, _, h3⟩ := WFApi.apiAsBitPacked_ok hr
  rcases h3 with ⟨_, h3, h4, _⟩ | ⟨h3, _, _⟩
  · exact (MapObj.SentOK_congr h3 h4).2 h.2.2
  · exact MapObj.sentOK_of_not_wide (by rw [h3]; intro n hn; cases hn)

theorem Ok.apiGetSingleCopy {m m' : MapObj} {i : Nat} {sentinel : Option Val} (h : m.Ok)
    (hr : HS.apiGetSingleCopy m i sentinel = .ok m') : m'.Ok ∧ m'.view = none := by
  obtain ⟨dt, _, _, _, h3, _, _, h7⟩ := WFApi.apiGetSingleCopy_ok hr
  exact ⟨⟨WF.apiGetSingleCopy h.1 h.2.1 hr, KindOk.apiGetSingleCopy h.2.1 hr, MapObj.sentOK_of_plain h3⟩, h7⟩

theorem multiKindOut_wide {k : Kind} {d : String} {n : Nat} (h : multiKindOut k d = .wide n) : k = .wide n := by
  unfold multiKindOut at h
  split at h
  · cases h
  · cases h
  · exact h

theorem Ok.apiMultiOp {row : OpRow} {maps : List MapObj} {m' : MapObj} (h : ∀ m ∈ maps, m.Ok)
    (hrow : parseDTCode row.dtypeOut ≠ some .bool) (hr : HS.apiMultiOp row maps = .ok m') : m'.Ok := by
  refine ⟨WF.apiMultiOp (fun m hm => (h m hm).1) hr, KindOk.apiMultiOp (fun m hm => (h m hm).2.1) hrow hr, ?_⟩
  obtain ⟨first, rest, rfl, _, _, h3, _, hcase⟩ := WFApi.apiMultiOp_ok hr
  have hf := (h first (List.mem_cons_self ..)).2.2
  rcases hcase with ⟨hk, _, _⟩ | ⟨hk, _, _⟩
  · unfold multiKindE at hk
    split at hk
    · exact MapObj.sentOK_of_plain hk
    · exact (MapObj.SentOK_congr hk h3).2 hf
  · unfold MapObj.SentOK Kind.sentOK
    split
    · rename_i n hn
      rw [hn] at hk
      have := multiKindOut_wide hk.symm
      unfold MapObj.SentOK Kind.sentOK at hf
      rw [this] at hf
      rw [h3]; exact hf
    · trivial



theorem SentOK.apiDegradeCore {m m' : MapObj} {ordOut : Nat} {red : String} {w : Option MapObj}
    (h : m.SentOK) (hr : HS.apiDegradeCore m ordOut red w = .ok m') : m'.SentOK := by
  rcases apiDegradeCore_kind m ordOut red w m' hr with ⟨h3, h4⟩ | ⟨b, hb⟩ | ⟨fs, pr, _, hk'⟩
  · exact (MapObj.SentOK_congr h3 h4).2 h
  · exact MapObj.sentOK_of_plain hb
  · exact MapObj.sentOK_of_not_wide (by rw [hk']; intro n hn; cases hn)

theorem SentOK.rehouse {m m' : MapObj} {co : Nat} (hr : HS.rehouse m co = .ok m') : m'.SentOK := by
  revert m'
  show OkP MapObj.SentOK (HS.rehouse m co)
  unfold HS.rehouse
  refine OkP.bind (Q := MapObj.SentOK) (fun e he => SentOK.apiMakeEmpty he) ?_
  intro e he
  split
  · exact OkP.of_throw _
  · intro m' hm'
    obtain ⟨_, _, h3, h4, _⟩ := WFApi.apiUpdate_ok hm'
    exact (MapObj.SentOK_congr h3 h4).2 he

theorem SentOK.apiDegrade {m m' : MapObj} {ordOut : Nat} {red : String} {w : Option MapObj}
    (h : m.SentOK) (hr : HS.apiDegrade m ordOut red w = .ok m') : m'.SentOK := by
  revert m'
  show OkP MapObj.SentOK (HS.apiDegrade m ordOut red w)
  unfold HS.apiDegrade
  okp
  · refine OkP.bind (Q := MapObj.SentOK) (fun e he => SentOK.rehouse he) ?_
    intro m1 hm1
    extract_lets jp
    refine OkP.bind (Q := fun _ => True) (fun _ _ => trivial) ?_
    intro w' _ r hr
    exact SentOK.apiDegradeCore hm1 hr
  · refine OkP.bind (Q := MapObj.SentOK) (fun e he => SentOK.rehouse he) ?_
    intro m1 hm1
    extract_lets jp
    refine OkP.bind (Q := fun _ => True) (fun _ _ => trivial) ?_
    intro w' _ r hr
    exact SentOK.apiDegradeCore hm1 hr
  · exact h
  · exact fun r hr => SentOK.apiDegradeCore h hr

theorem Ok.apiDegrade {m m' : MapObj} {ordOut : Nat} {red : String} {w : Option MapObj}
    (h : m.Ok) (hr : HS.apiDegrade m ordOut red w = .ok m') : m'.Ok :=
  ⟨WF.apiDegrade h.1 hr, KindOk.apiDegrade h.2.1 hr, SentOK.apiDegrade h.2.2 hr⟩

theorem SentOK.apiUpgrade {m m' : MapObj} {ordOut : Nat} (h : m.SentOK)
    (hr : HS.apiUpgrade m ordOut = .ok m') : m'.SentOK := by
  revert m'
  show OkP MapObj.SentOK (HS.apiUpgrade m ordOut)
  unfold HS.apiUpgrade
  okp
  exact h

theorem Ok.apiUpgrade {m m' : MapObj} {ordOut : Nat} (h : m.Ok)
    (hr : HS.apiUpgrade m ordOut = .ok m') : m'.Ok :=
  ⟨WF.apiUpgrade h.1 hr, KindOk.apiUpgrade h.2.1 hr, SentOK.apiUpgrade h.2.2 hr⟩

theorem apiFromHealpix_plain {covord spord : Nat} {dt : DT} {sentinel : Option Val} {hp : List Val}
    {b : Bool} {m' : MapObj} (hr : HS.apiFromHealpix covord spord dt sentinel hp b = .ok m') :
    m'.kind = .plain dt ∧ m'.view = none := by
  revert m'
  show OkP (fun m' => m'.kind = .plain dt ∧ m'.view = none) (HS.apiFromHealpix covord spord dt sentinel hp b)
  unfold HS.apiFromHealpix
  okp
  refine OkP.bind (Q := fun _ => True) (fun _ _ => trivial) ?_
  intro sent _
  apply OkP.of_pure
  exact ⟨rfl, rfl⟩

theorem Ok.apiFromHealpix {covord spord : Nat} {dt : DT} {sentinel : Option Val} {hp : List Val}
    {b : Bool} {m' : MapObj} (hr : HS.apiFromHealpix covord spord dt sentinel hp b = .ok m') :
    m'.Ok ∧ m'.view = none :=
  ⟨⟨WF.apiFromHealpix hr, KindOk.apiFromHealpix hr, MapObj.sentOK_of_plain (apiFromHealpix_plain hr).1⟩,
    (apiFromHealpix_plain hr).2⟩

theorem apiReadHealpix_plain {f : HpFile} {covord : Nat} {r2n : Option (Array Nat)} {m' : MapObj}
    (hr : HS.apiReadHealpix f covord r2n = .ok m') : (∃ dt, m'.kind = .plain dt) ∧ m'.view = none := by
  revert m'
  show OkP (fun m' => (∃ dt, m'.kind = .plain dt) ∧ m'.view = none) (HS.apiReadHealpix f covord r2n)
  unfold HS.apiReadHealpix
  okp
  · refine OkP.bind (Q := fun e => (∃ dt, e.kind = .plain dt) ∧ e.view = none) ?_ ?_
    · intro e he
      obtain ⟨_, _, _, hk, _, _, _, hv⟩ := WFApi.apiMakeEmpty_ok he
      exact ⟨⟨_, hk⟩, hv⟩
    · intro e ⟨⟨dt, hk⟩, hv⟩ m' hm'
      obtain ⟨_, _, h3, _, h5, _⟩ := WFApi.apiUpdate_ok hm'
      exact ⟨⟨dt, h3.trans hk⟩, h5.trans hv⟩
  · exact fun _ h => ⟨⟨_, (apiFromHealpix_plain h).1⟩, (apiFromHealpix_plain h).2⟩
  · exact fun _ h => ⟨⟨_, (apiFromHealpix_plain h).1⟩, (apiFromHealpix_plain h).2⟩

theorem Ok.apiReadHealpix {f : HpFile} {covord : Nat} {r2n : Option (Array Nat)} {m' : MapObj}
    (hr : HS.apiReadHealpix f covord r2n = .ok m') : m'.Ok ∧ m'.view = none := by
  obtain ⟨⟨dt, hk⟩, hv⟩ := apiReadHealpix_plain hr
  exact ⟨⟨WF.apiReadHealpix hr, KindOk.apiReadHealpix hr, MapObj.sentOK_of_plain hk⟩, hv⟩



/-! ### files: the kind the reader recovers is well typed -/

theorem dtCode_ne_b1 {dt : DT} (h : dtCode dt = "b1") : dt = .bool := by
  cases dt with
  | bool => rfl
  | int b sg =>
    exfalso
    unfold dtCode at h
    have := congrArg String.toList h
    rw [String.toList_append] at this
    cases sg <;> simp at this
  | flt b =>
    exfalso
    unfold dtCode at h
    have := congrArg String.toList h
    rw [String.toList_append] at this
    simp at this

theorem parseDTCode_bool {s : String} (h : parseDTCode s = some .bool) : s = "b1" := by
  unfold parseDTCode at h
  split at h <;> first | (cases h; done) | rfl

/-- the kind recovered from the file of a plain map: boolean only if the sentinel is a boolean -/
theorem fileKind_apiWrite_plain {m : MapObj} {dt : DT} (md : List (String × String))
    (hdt : m.kind = .plain dt) (hk : m.KindOk) {kind : Kind}
    (h : fileKind (HS.apiWrite m md) = some kind) :
    ∃ d, kind = .plain d ∧ (d = .bool → m.sent.isBoolVal = true) := by
  unfold fileKind HS.apiWrite at h
  simp only [hdt] at h
  cases hs : m.sent with
  | bool b =>
    rw [hs] at h
    cases dt <;> simp at h <;>
      first
      | exact ⟨.bool, h.symm, fun _ => rfl⟩
      | exact ⟨.bool, h.2.symm, fun _ => rfl⟩
  | _ =>
    rw [hs] at h
    cases dt with
    | bool =>
      unfold MapObj.KindOk MapObj.kindOk at hk
      rw [hdt, hs] at hk
      cases hk
    | int b sg =>
      simp only [Bool.false_eq_true, if_false] at h
      split at h
      · simp at h
      · cases hp : parseDTCode (dtCode (.int b sg)) with
        | none => simp [hp] at h
        | some d =>
          simp [hp] at h
          refine ⟨d, h.symm, ?_⟩
          intro hd; subst hd
          cases dtCode_ne_b1 (parseDTCode_bool hp)
    | flt b =>
      simp only [Bool.false_eq_true, if_false] at h
      split at h
      · simp at h
      · cases hp : parseDTCode (dtCode (.flt b)) with
        | none => simp [hp] at h
        | some d =>
          simp [hp] at h
          refine ⟨d, h.symm, ?_⟩
          intro hd; subst hd
          cases dtCode_ne_b1 (parseDTCode_bool hp)

theorem KindOk.apiWrite {m : MapObj} (md : List (String × String)) (hk : m.KindOk) (hs : m.SentOK) :
    (HS.apiWrite m md).KindOk := by
  intro kind hkind m' h3 h4
  rw [apiWrite_sentinel] at h4
  by_cases hpl : ∃ dt, m.kind = .plain dt
  · obtain ⟨dt, hdt⟩ := hpl
    obtain ⟨d, rfl, hd⟩ := fileKind_apiWrite_plain md hdt hk hkind
    exact kindOk_plain h3 (fun h => by rw [h4]; exact hd h)
  · have := fileKind_apiWrite_exact m md hs (fun dt hdt => hpl ⟨dt, hdt⟩)
    rw [this] at hkind
    cases hkind
    exact (MapObj.KindOk_congr h3 h4).2 hk

theorem KindOk.apiRead {f : FileObj} {pixels : Option (List Nat)} {m : MapObj} (hf : f.KindOk)
    (h : HS.apiRead f pixels = .ok m) : m.KindOk := by
  obtain ⟨kind, hk, _, _, h3, h4, _⟩ := apiRead_ok h
  exact hf kind hk m h3 h4

theorem Ok.apiRead {f : FileObj} {pixels : Option (List Nat)} {m : MapObj} (hf : f.WF ∧ f.KindOk)
    (h : HS.apiRead f pixels = .ok m) : m.Ok :=
  ⟨WF.apiRead hf.1 h, KindOk.apiRead hf.2 h, SentOK.apiRead h⟩

theorem Ok.apiWrite {m : MapObj} (md : List (String × String)) (h : m.Ok) :
    (HS.apiWrite m md).WF ∧ (HS.apiWrite m md).KindOk :=
  ⟨WF.apiWrite_partial md h.1 h.2.2, KindOk.apiWrite md h.2.1 h.2.2⟩

theorem Ok.apiCat {files : List FileObj} {covordOut : Option Nat} {co oo : Bool} {fo : FileObj}
    (hf : ∀ f ∈ files, f.WF ∧ f.KindOk) (h : HS.apiCat files covordOut co oo = .ok fo) :
    fo.WF ∧ fo.KindOk := by
  refine ⟨WF.apiCat (fun f hfm => (hf f hfm).1) h, ?_⟩
  obtain ⟨f0, rest, kind, st, rfl, _, hk, _, _, rfl⟩ := apiCat_ok h
  apply KindOk.apiWrite
  · exact (hf f0 (List.mem_cons_self ..)).2 kind hk _ rfl rfl
  · exact fileKind_sentOK hk


theorem kindOk_mk_wide (co so n : Nat) (s : Val) (st : State Val) :
    MapObj.KindOk { covord := co, spord := so, kind := .wide n, sent := s, st := st } := rfl

theorem kindOk_mk_recd_aux {co so : Nat} {fs : List DT} {pr : Nat} {s : Val} (st : State Val)
    (h : ∀ m : MapObj, m.kind = .recd fs pr → m.sent = s → m.KindOk) :
    MapObj.KindOk { covord := co, spord := so, kind := .recd (fs.map auxDT) pr,
                    sent := (auxDT (fs.getD pr (.flt 64))).defaultSentinel, st := st } := by
  have h0 := h { covord := 0, spord := 0, kind := .recd fs pr, sent := s, st := st } rfl rfl
  unfold MapObj.KindOk MapObj.kindOk at h0 ⊢
  simp only at h0
  simp only [List.getElem?_map]
  cases hget : fs[pr]? with
  | none => rw [hget] at h0; cases h0
  | some dt =>
    obtain ⟨b, hb⟩ := auxDT_flt dt
    simp [hb]

theorem kindOk_mk_plain_keep {co so : Nat} {dt0 : DT} {s : Val} (st : State Val)
    (h : ∀ m : MapObj, m.kind = .plain dt0 → m.sent = s → m.KindOk) :
    MapObj.KindOk { covord := co, spord := so,
                    kind := if (dt0 == .bool) = true then Kind.plain .bool else Kind.plain dt0,
                    sent := s, st := st } := by
  have h0 := h { covord := 0, spord := 0, kind := .plain dt0, sent := s, st := st } rfl rfl
  cases dt0 with
  | bool => exact h0
  | int b sg => exact rfl
  | flt b => exact rfl

theorem kindOk_mk_plain_aux (co so : Nat) (dt : DT) (s : Val) (st : State Val) :
    MapObj.KindOk { covord := co, spord := so, kind := .plain (auxDT dt), sent := s, st := st } := by
  obtain ⟨b, hb⟩ := auxDT_flt dt
  rw [hb]
  rfl

set_option hygiene false in
local macro "kdor_leafs" : tactic => `(tactic| (
  split at h
  · cases h
    first
    | exact kindOk_mk_wide _ _ _ _ _
    | exact kindOk_mk_recd_aux _ (hf _ hk)
    | exact kindOk_mk_plain_keep _ (hf _ hk)
    | exact kindOk_mk_plain_aux _ _ _ _ _
  · cases h))

set_option hygiene false in
local macro "kdor_guards" : tactic => `(tactic| repeat (is_guard_hyp; obtain ⟨_, h⟩ := ite_err_ok h))

set_option hygiene false in
local macro "kdor_if" : tactic => `(tactic| (
  rcases ite_ok_inv h with ⟨hc, h⟩ | ⟨hc, h⟩ <;>
    first | (cases hc; done) | (exact absurd rfl hc) | (exact absurd trivial hc) | skip))

set_option hygiene false in
local macro "kdor_kind" : tactic => `(tactic| (
  generalize hk : fileKind _ = ok at h
  cases ok with
  | none => cases h
  | some k =>
    kdor_if
    kdor_guards
    cases k with
    | packed => first | cases h | (dsimp only at h; cases h)
    | wide n =>
      try dsimp only at h
      kdor_guards
      kdor_leafs
    | recd fs pr =>
      try dsimp only at h
      kdor_guards
      try dsimp only at h
      kdor_leafs
    | plain dt0 =>
      try dsimp only at h
      obtain ⟨_, h⟩ | ⟨_, h⟩ := ite_ok_inv h
      · kdor_leafs
      · kdor_guards
        try dsimp only at h
        kdor_leafs))

/-- degrade-on-read of a file whose recovered kind is well typed gives a well-typed map -/
theorem KindOk.apiDegradeOnRead {f : FileObj} {ordOut : Nat} {red : String}
    {pixels : Option (List Nat)} {wf : Option FileObj} {m : MapObj} (hf : f.KindOk)
    (h : HS.apiDegradeOnRead f ordOut red pixels wf = .ok m) : m.KindOk := by
  unfold HS.apiDegradeOnRead at h
  simp only [bind, Except.bind, pure, Except.pure, throw, throwThe, MonadExceptOf.throw] at h
  generalize hpx : dorPixels _ _ _ = opx at h
  cases opx with
  | none => cases h
  | some px =>
    cases wf with
    | none =>
      dsimp only at h
      kdor_guards
      kdor_if
      kdor_guards
      kdor_kind
    | some w =>
      dsimp only at h
      obtain ⟨_, h⟩ | ⟨_, h⟩ := ite_ok_inv h
      · kdor_guards
        kdor_if
        kdor_guards
        kdor_kind
      · kdor_guards
        kdor_if
        kdor_guards
        kdor_kind

theorem Ok.apiDegradeOnRead {f : FileObj} {ordOut : Nat} {red : String}
    {pixels : Option (List Nat)} {wf : Option FileObj} {m : MapObj} (hf : f.KindOk)
    (h : HS.apiDegradeOnRead f ordOut red pixels wf = .ok m) : m.Ok :=
  ⟨(apiDegradeOnRead_ok h).1, KindOk.apiDegradeOnRead hf h, (apiDegradeOnRead_ok h).2.1⟩

/-! ### the operations of Model/Dispatch.lean -/


/-! ### world-level helpers -/

theorem World.Good.files_insert {w : World} (hw : w.Good) (n : String) {fo : FileObj}
    (hfo : fo.WF ∧ fo.KindOk) :
    ({ w with files := (n, fo) :: w.files.filter (·.1 != n) } : World).Good := by
  refine ⟨hw.1, hw.2.1, ?_⟩
  intro e he
  rcases List.mem_cons.1 he with rfl | he
  · exact hfo
  · exact hw.2.2 e (List.mem_filter.1 he).1

theorem World.Good.file_find {w : World} (hw : w.Good) {n : String} {fo : FileObj}
    (hf : (w.files.find? (·.1 == n)).map (·.2) = some fo) : fo.WF ∧ fo.KindOk := by
  cases hfind : w.files.find? (·.1 == n) with
  | none => rw [hfind] at hf; cases hf
  | some e =>
    rw [hfind] at hf
    cases hf
    exact hw.2.2 e (List.mem_of_find?_eq_some hfind)

/-- an operation on a looked-up map: it suffices to treat the case where the lookup succeeds -/
theorem good_withMap {w : World} {a : Args} {k : MapObj → World × String} (hw : w.Good)
    (hk : ∀ n m, a.pos.headD "" = n → w.get? n = some m → m.Ok → (k m).1.Good) :
    (withMap w a k).1.Good := by
  unfold withMap
  split
  · rename_i n rest hpos
    split
    · rename_i m hm
      exact hk n m (by rw [hpos]; rfl) hm (hw.get hm)
    · exact hw
  · exact hw

set_option hygiene false in
/-- walk the `match` / `if` cascade of an operation; the leaves that leave the world unchanged
    are closed by the hypothesis `hw` -/
macro "op_split" : tactic => `(tactic| repeat' (first | exact hw | split | simp only []))

theorem Good.opCfg {w : World} (hw : w.Good) (a : Args) : (HS.opCfg w a).1.Good := by
  unfold HS.opCfg
  op_split
  exact hw.bind _ (Ok.apiMakeEmpty ‹_›).1

theorem Good.opUpd {w : World} (hw : w.Good) (a : Args) : (HS.opUpd w a).1.Good := by
  unfold HS.opUpd
  refine good_withMap hw fun n m hn hget hok => ?_
  simp only [hn]
  op_split
  all_goals first
    | exact hw.put_inplace hget ((MapObj.Ok_cache _ _).2 hok) (MapObj.same_cache _ _)
    | (obtain ⟨h1, h2⟩ := Ok.apiUpdate hok ‹_›; exact hw.put_inplace hget h1 h2)

theorem Good.opUpdr {w : World} (hw : w.Good) (a : Args) : (HS.opUpdr w a).1.Good := by
  unfold HS.opUpdr
  refine good_withMap hw fun n m hn hget hok => ?_
  simp only [hn]
  op_split
  all_goals first
    | exact hw.put_inplace hget ((MapObj.Ok_cache _ _).2 hok) (MapObj.same_cache _ _)
    | (obtain ⟨h1, h2⟩ := Ok.apiUpdateRanges hok ‹_›; exact hw.put_inplace hget h1 h2)

theorem Good.opSop {w : World} (hw : w.Good) (a : Args) : (HS.opSop w a).1.Good := by
  unfold HS.opSop
  refine good_withMap hw fun n m hn hget hok => ?_
  simp only [hn]
  cases hin : a.flag "inplace" <;> simp only [↓reduceIte, Bool.false_eq_true, Bool.false_and, Bool.true_and]
  all_goals op_split
  all_goals first
    | exact hw.bind _ (Ok.withSt none hok (WF.apiScalarOp none hok.1 ‹_›))
    | exact hw.put_inplace hget (Ok.withSt none hok (WF.apiScalarOp none hok.1 ‹_›)) (MapObj.same_withSt _ _ _)
    | exact hw.put_inplace hget ((MapObj.Ok_cache _ _).2 hok) (MapObj.same_cache _ _)

theorem Good.opMask {w : World} (hw : w.Good) (a : Args) : (HS.opMask w a).1.Good := by
  unfold HS.opMask
  refine good_withMap hw fun n m hn hget hok => ?_
  simp only [hn]
  op_split
  all_goals first
    | exact hw.bind _ (Ok.withSt none hok (WF.apiApplyMask none hok.1 ‹_›))
    | exact hw.put_inplace hget (Ok.withSt none hok (WF.apiApplyMask none hok.1 ‹_›)) (MapObj.same_withSt _ _ _)

theorem Good.opAstype {w : World} (hw : w.Good) (a : Args) : (HS.opAstype w a).1.Good := by
  unfold HS.opAstype
  refine good_withMap hw fun n m hn hget hok => ?_
  op_split
  exact hw.bind _ (Ok.apiAstype hok ‹_›)

theorem Good.opPack {w : World} (hw : w.Good) (a : Args) : (HS.opPack w a).1.Good := by
  unfold HS.opPack
  refine good_withMap hw fun n m hn hget hok => ?_
  op_split
  all_goals exact hw.bind _ (Ok.apiAsBitPacked hok ‹_›)

theorem Good.opInv {w : World} (hw : w.Good) (a : Args) : (HS.opInv w a).1.Good := by
  unfold HS.opInv
  refine good_withMap hw fun n m hn hget hok => ?_
  simp only [hn]
  op_split
  all_goals first
    | exact hw.bind _ (Ok.withSt none hok (WF.apiInvert none hok.1 hok.2.1 ‹_›))
    | exact hw.put_inplace hget (Ok.withSt none hok (WF.apiInvert none hok.1 hok.2.1 ‹_›)) (MapObj.same_withSt _ _ _)

theorem Good.opBits {w : World} (hw : w.Good) (a : Args) : (HS.opBits w a).1.Good := by
  unfold HS.opBits
  refine good_withMap hw fun n m hn hget hok => ?_
  simp only [hn]
  op_split
  obtain ⟨h1, h2⟩ := Ok.apiSetBits hok ‹_›
  exact hw.put_inplace hget h1 h2

theorem Good.opChk {w : World} (hw : w.Good) (a : Args) : (HS.opChk w a).1.Good := by
  unfold HS.opChk
  refine good_withMap hw fun n m hn hget hok => ?_
  op_split

theorem Good.opCopy {w : World} (hw : w.Good) (a : Args) : (HS.opCopy w a).1.Good := by
  unfold HS.opCopy
  refine good_withMap hw fun n m hn hget hok => ?_
  exact hw.bind _ ((MapObj.Ok_cache _ _).2 hok)

theorem Good.opInfo {w : World} (hw : w.Good) (a : Args) : (HS.opInfo w a).1.Good := by
  unfold HS.opInfo
  refine good_withMap hw fun n m hn hget hok => ?_
  exact hw

theorem bopRhs_wf {o : Option MapObj} {b : MapObj}
    (h : o.map BoolRhs.map = some (.map b)) (ho : ∀ b, o = some b → b.Ok) : b.WF := by
  cases o with
  | none => cases h
  | some b' =>
    cases h
    exact (ho _ rfl).1

theorem Good.opBop {w : World} (hw : w.Good) (a : Args) : (HS.opBop w a).1.Good := by
  unfold HS.opBop
  refine good_withMap hw fun n m hn hget hok => ?_
  simp only [hn]
  op_split
  all_goals
    rename_i _ rhs hR _ st hst _
    have hrhs : ∀ b, rhs = BoolRhs.map b → b.WF := by
      intro b hb; subst hb
      split at hR
      · cases hR
      · cases hR
      · exact bopRhs_wf hR (fun b hb => hw.get hb)
      · cases hR
    first
    | exact hw.put_inplace hget (Ok.withSt none hok (WF.apiBoolOp none hok.1 hok.2.1 hrhs hst)) (MapObj.same_withSt _ _ _)
    | exact hw.bind _ (Ok.withSt none hok (WF.apiBoolOp none hok.1 hok.2.1 hrhs hst))
    | exact hw.put_inplace hget ((MapObj.Ok_cache _ _).2 hok) (MapObj.same_cache _ _)

theorem mem_mapM_get {w : World} (hw : w.Good) {names : List String} {maps : List MapObj}
    (h : names.mapM w.get? = some maps) : ∀ m ∈ maps, m.Ok := by
  intro m hm
  obtain ⟨n, _, hn⟩ := mem_of_mapM_some _ _ _ h m hm
  exact hw.get hn

theorem withSpec_dtypeOut (r : OpRow) (h : parseDTCode r.dtypeOut ≠ some .bool) :
    parseDTCode r.withSpec.dtypeOut ≠ some .bool := by
  unfold OpRow.withSpec
  split
  · rename_i u un io ff fo _
    cases fo <;> simp <;> decide
  · exact h

theorem Good.opMop {w : World} (hw : w.Good) (a : Args) : (HS.opMop w a).1.Good := by
  unfold HS.opMop
  op_split
  rename_i _ maps hmaps _ row hrow _ v hv
  have hd : parseDTCode row.dtypeOut ≠ some .bool := by
    split at hrow
    · cases hf : (a.get? "filler").bind parseVal with
      | none => rw [hf] at hrow; cases hrow
      | some fv =>
        rw [hf] at hrow
        cases hrow
        intro h; cases h
    · have hmem := List.mem_of_find?_eq_some hrow
      have := List.all_eq_true.1 opsTable_dtypeOut row hmem
      simpa using this
  exact hw.bind _ (Ok.apiMultiOp (mem_mapM_get hw hmaps) (withSpec_dtypeOut row hd) hv)

theorem Good.opDeg {w : World} (hw : w.Good) (a : Args) : (HS.opDeg w a).1.Good := by
  unfold HS.opDeg
  refine good_withMap hw fun n m hn hget hok => ?_
  op_split
  all_goals exact hw.bind _ (Ok.apiDegrade hok ‹_›)

theorem Good.opUpg {w : World} (hw : w.Good) (a : Args) : (HS.opUpg w a).1.Good := by
  unfold HS.opUpg
  refine good_withMap hw fun n m hn hget hok => ?_
  op_split
  all_goals exact hw.bind _ (Ok.apiUpgrade hok ‹_›)

theorem Good.opMoc {w : World} (hw : w.Good) (a : Args) : (HS.opMoc w a).1.Good := by
  unfold HS.opMoc
  refine good_withMap hw fun n m hn hget hok => ?_
  op_split

theorem Good.opMocread {w : World} (hw : w.Good) (a : Args) : (HS.opMocread w a).1.Good := by
  unfold HS.opMocread
  op_split
  all_goals
    rename_i e he _ v hv
    exact hw.bind _ ((MapObj.Ok_cache _ _).2 (Ok.apiUpdate (Ok.apiMakeEmpty he).1 hv).1)

/-- registering a view descriptor (no storage of its own, a non-record kind) -/
theorem World.Good.register {w : World} (hw : w.Good) (r : String) {d : MapObj} (hv : d.view ≠ none)
    (hk : d.kind.isRecd = false) :
    ({ w with pool := (r, d) :: w.pool.filter (·.1 != r) } : World).Good := by
  refine ⟨?_, ?_, hw.2.2⟩
  · intro e he hev
    rcases List.mem_cons.1 he with rfl | he
    · exact absurd hev hv
    · exact hw.1 e (List.mem_filter.1 he).1 hev
  · intro e he hev
    rcases List.mem_cons.1 he with rfl | he
    · exact hk
    · exact hw.2.1 e (List.mem_filter.1 he).1 hev

theorem Good.opSingle {w : World} (hw : w.Good) (a : Args) : (HS.opSingle w a).1.Good := by
  unfold HS.opSingle
  refine good_withMap hw fun n m hn hget hok => ?_
  op_split
  all_goals first
    | exact hw.bind _ (Ok.apiGetSingleCopy hok ‹_›).1
    | exact hw.register _ (fun h => nomatch h) rfl

theorem Good.opScov {w : World} (hw : w.Good) (a : Args) : (HS.opScov w a).1.Good := by
  unfold HS.opScov
  refine good_withMap hw fun n m hn hget hok => ?_
  op_split
  all_goals exact hw.bind _ (Ok.withSt none hok (WF.singleCovpix hok.1 (by omega)))

theorem Good.opMeta {w : World} (hw : w.Good) (a : Args) : (HS.opMeta w a).1.Good := by
  unfold HS.opMeta
  refine good_withMap hw fun n m hn hget hok => ?_
  exact hw

theorem Good.opGetmeta {w : World} (hw : w.Good) (a : Args) : (HS.opGetmeta w a).1.Good := by
  unfold HS.opGetmeta
  refine good_withMap hw fun n m hn hget hok => ?_
  exact hw

theorem Good.opWrite {w : World} (hw : w.Good) (a : Args) : (HS.opWrite w a).1.Good := by
  unfold HS.opWrite
  refine good_withMap hw fun n m hn hget hok => ?_
  exact hw.files_insert _ (Ok.apiWrite _ hok)

theorem Good.opRead {w : World} (hw : w.Good) (a : Args) : (HS.opRead w a).1.Good := by
  unfold HS.opRead
  op_split
  all_goals exact hw.bind _ (Ok.apiRead (hw.file_find ‹_›) ‹_›)

theorem Good.opCovread {w : World} (hw : w.Good) (a : Args) : (HS.opCovread w a).1.Good := by
  unfold HS.opCovread
  op_split

theorem Good.opFitsraw {w : World} (hw : w.Good) (a : Args) : (HS.opFitsraw w a).1.Good := by
  unfold HS.opFitsraw
  op_split

theorem Good.opDor {w : World} (hw : w.Good) (a : Args) : (HS.opDor w a).1.Good := by
  unfold HS.opDor
  op_split
  all_goals first
    | exact hw.bind _ ((MapObj.Ok_cache _ _).2 (Ok.apiDegrade (Ok.apiReadHealpix ‹_›).1 ‹_›))
    | exact hw.bind _ (Ok.apiDegradeOnRead (hw.file_find ‹_›).2 ‹_›)

theorem Good.opCat {w : World} (hw : w.Good) (a : Args) : (HS.opCat w a).1.Good := by
  unfold HS.opCat
  op_split
  all_goals
    rename_i _ fs hfs _ fo hfo
    refine hw.files_insert _ (Ok.apiCat ?_ hfo)
    intro f hf
    obtain ⟨n, _, hn⟩ := mem_of_mapM_some _ _ _ hfs f hf
    exact hw.file_find hn

theorem Good.opFromhp {w : World} (hw : w.Good) (a : Args) : (HS.opFromhp w a).1.Good := by
  unfold HS.opFromhp
  op_split
  all_goals exact hw.bind _ (Ok.apiFromHealpix ‹_›).1

theorem Good.opGenhp {w : World} (hw : w.Good) (a : Args) : (HS.opGenhp w a).1.Good := by
  unfold HS.opGenhp
  refine good_withMap hw fun n m hn hget hok => ?_
  op_split

theorem Good.opInterp {w : World} (hw : w.Good) (a : Args) : (HS.opInterp w a).1.Good := by
  unfold HS.opInterp
  refine good_withMap hw fun n m hn hget hok => ?_
  op_split

theorem Good.opHpxwrite {w : World} (hw : w.Good) (a : Args) : (HS.opHpxwrite w a).1.Good := by
  unfold HS.opHpxwrite
  refine good_withMap hw fun n m hn hget hok => ?_
  op_split

theorem Good.opHpximplicit {w : World} (hw : w.Good) (a : Args) : (HS.opHpximplicit w a).1.Good := by
  unfold HS.opHpximplicit
  op_split

theorem Good.opHpxread {w : World} (hw : w.Good) (a : Args) : (HS.opHpxread w a).1.Good := by
  unfold HS.opHpxread
  op_split
  all_goals exact hw.bind _ ((MapObj.Ok_cache _ _).2 (Ok.apiReadHealpix ‹_›).1)

theorem Good.opRand {w : World} (hw : w.Good) (a : Args) : (HS.opRand w a).1.Good := by
  unfold HS.opRand
  op_split

theorem Good.opSet {w : World} (hw : w.Good) (a : Args) : (HS.opSet w a).1.Good := by
  unfold HS.opSet
  refine good_withMap hw fun n m hn hget hok => ?_
  simp only [hn]
  op_split
  all_goals first
    | exact hw.put_inplace hget ((MapObj.Ok_cache _ _).2 hok) (MapObj.same_cache _ _)
    | (obtain ⟨h1, h2⟩ := Ok.apiUpdate hok ‹_›; exact hw.put_inplace hget h1 h2)

theorem Good.opVals {w : World} (hw : w.Good) (a : Args) : (HS.opVals w a).1.Good := by
  unfold HS.opVals
  refine good_withMap hw fun n m hn hget hok => ?_
  exact hw

theorem Good.opGet {w : World} (hw : w.Good) (a : Args) : (HS.opGet w a).1.Good := by
  unfold HS.opGet
  refine good_withMap hw fun n m hn hget hok => ?_
  op_split

theorem Good.opValid {w : World} (hw : w.Good) (a : Args) : (HS.opValid w a).1.Good := by
  unfold HS.opValid
  refine good_withMap hw fun n m hn hget hok => ?_
  op_split

theorem Good.opNvalid {w : World} (hw : w.Good) (a : Args) : (HS.opNvalid w a).1.Good := by
  unfold HS.opNvalid
  refine good_withMap hw fun n m hn hget hok => ?_
  simp only [hn]
  op_split
  all_goals exact hw.put_inplace hget ((MapObj.Ok_cache _ _).2 hok) (MapObj.same_cache _ _)

theorem Good.opCovmap {w : World} (hw : w.Good) (a : Args) : (HS.opCovmap w a).1.Good := by
  unfold HS.opCovmap
  refine good_withMap hw fun n m hn hget hok => ?_
  exact hw

theorem Good.opVpsc {w : World} (hw : w.Good) (a : Args) : (HS.opVpsc w a).1.Good := by
  unfold HS.opVpsc
  refine good_withMap hw fun n m hn hget hok => ?_
  op_split

theorem Good.opFracdet {w : World} (hw : w.Good) (a : Args) : (HS.opFracdet w a).1.Good := by
  unfold HS.opFracdet
  refine good_withMap hw fun n m hn hget hok => ?_
  op_split
  all_goals
    rename_i ord _ _ hc
    have hc' : ¬ (ord > m.spord) ∧ ¬ (ord < m.covord) := by simpa using hc
    exact hw.bind _ ⟨WF.fracdet (ord := ord) hok.1 hok.2.1 (by omega) (by omega),
      kindOk_plain rfl (fun hd => nomatch hd), MapObj.sentOK_of_plain rfl⟩

theorem Good.opCovmask {w : World} (hw : w.Good) (a : Args) : (HS.opCovmask w a).1.Good := by
  unfold HS.opCovmask
  refine good_withMap hw fun n m hn hget hok => ?_
  exact hw

theorem Good.opDump {w : World} (hw : w.Good) (a : Args) : (HS.opDump w a).1.Good := by
  unfold HS.opDump
  refine good_withMap hw fun n m hn hget hok => ?_
  exact hw

theorem Good.opState {w : World} (hw : w.Good) (a : Args) : (HS.opState w a).1.Good := by
  unfold HS.opState
  refine good_withMap hw fun n m hn hget hok => ?_
  op_split

theorem Good.opDrop {w : World} (hw : w.Good) (a : Args) : (HS.opDrop w a).1.Good := by
  unfold HS.opDrop
  op_split
  refine ⟨?_, ?_, hw.2.2⟩
  · exact fun e he hev => hw.1 e (List.mem_filter.1 he).1 hev
  · exact fun e he hev => hw.2.1 e (List.mem_filter.1 he).1 hev

theorem Good.opReset {w : World} (a : Args) : (HS.opReset w a).1.Good := World.good_empty

theorem Good.opBad {w : World} (hw : w.Good) (a : Args) : (HS.opBad w a).1.Good := by
  unfold HS.opBad
  refine good_withMap hw fun n m hn hget hok => ?_
  exact hw

theorem except_bind_ok {α β : Type} {x : Except Err α} {f : α → Except Err β} {b : β}
    (h : (x >>= f) = .ok b) : ∃ a, x = .ok a ∧ f a = .ok b := by
  cases x with
  | error e => cases h
  | ok a => exact ⟨a, rfl, h⟩

theorem Good.opGeom {w : World} (hw : w.Good) (a : Args) : (HS.opGeom w a).1.Good := by
  unfold HS.opGeom
  refine good_withMap hw fun n m hn hget hok => ?_
  simp only [hn]
  op_split
  all_goals first
    | exact hw.put_inplace hget ((MapObj.Ok_cache _ _).2 hok) (MapObj.same_cache _ _)
    | (rename_i _ v hv
       obtain ⟨x, _, hu⟩ := except_bind_ok hv
       obtain ⟨h1, h2⟩ := Ok.apiUpdateRanges hok hu
       exact hw.put_inplace hget h1 h2)
    | (rename_i _ v hv
       obtain ⟨x, _, hu⟩ := except_bind_ok hv
       exact hw.bind _ ((MapObj.Ok_cache _ _).2 (Ok.apiUpdateRanges ((MapObj.Ok_cache _ _).2 hok) hu).1))
    | (rename_i _ e he _ v hv
       have hE := (Ok.apiMakeEmpty he).1
       refine hw.bind _ ((MapObj.Ok_cache _ _).2 ?_)
       split at hv
       · exact (Ok.apiSetBits hE hv).1
       · split at hv
         · exact (Ok.apiUpdate hE hv).1
         · cases hv)

/-! ### one protocol step -/

theorem Good.stepArgs {w : World} (hw : w.Good) (op : String) (a : Args) :
    (HS.stepArgs w op a).1.Good := by
  unfold HS.stepArgs
  split
  all_goals with_reducible first
    | exact hw
    | exact Good.opReset a
    | exact Good.opCfg hw a | exact Good.opUpd hw a | exact Good.opUpdr hw a | exact Good.opSop hw a
    | exact Good.opMask hw a | exact Good.opAstype hw a | exact Good.opPack hw a | exact Good.opBop hw a
    | exact Good.opInv hw a | exact Good.opBits hw a | exact Good.opChk hw a | exact Good.opCopy hw a
    | exact Good.opInfo hw a | exact Good.opMop hw a | exact Good.opDeg hw a | exact Good.opUpg hw a
    | exact Good.opMoc hw a | exact Good.opMocread hw a | exact Good.opSingle hw a | exact Good.opScov hw a
    | exact Good.opMeta hw a | exact Good.opGetmeta hw a | exact Good.opWrite hw a | exact Good.opRead hw a
    | exact Good.opCovread hw a | exact Good.opFitsraw hw a | exact Good.opDor hw a | exact Good.opCat hw a
    | exact Good.opFromhp hw a | exact Good.opGenhp hw a | exact Good.opInterp hw a
    | exact Good.opHpxwrite hw a | exact Good.opHpximplicit hw a | exact Good.opHpxread hw a
    | exact Good.opRand hw a | exact Good.opGeom hw a | exact Good.opSet hw a | exact Good.opVals hw a
    | exact Good.opGet hw a | exact Good.opValid hw a | exact Good.opNvalid hw a | exact Good.opCovmap hw a
    | exact Good.opVpsc hw a | exact Good.opFracdet hw a | exact Good.opCovmask hw a | exact Good.opDump hw a
    | exact Good.opState hw a | exact Good.opDrop hw a | exact Good.opBad hw a

/-- **every protocol line preserves the world invariant** -/
theorem Good.step {w : World} (hw : w.Good) (line : String) : (HS.step w line).1.Good := by
  unfold HS.step
  simp only
  split
  · exact hw
  · split
    · exact hw
    · exact Good.stepArgs hw _ _

/-- run a history from any good world -/
theorem Good.foldl_step {w : World} (hw : w.Good) (lines : List String) :
    (lines.foldl (fun w l => (HS.step w l).1) w).Good := by
  induction lines generalizing w with
  | nil => exact hw
  | cons l ls ih => exact ih (Good.step hw l)

/-- **every world reachable by a protocol history is good** -/
theorem Good.runLines (lines : List String) : (HS.runLines lines).Good :=
  Good.foldl_step World.good_empty lines

/-! ### regression: the two histories that broke the first version of the model

Evaluated by the compiler (`#guard`; the kernel cannot run the string parser).  Before the
repair the owning entry `B` of the first history and the owning entry `c` of the second were
not well formed. -/

/-- every owning entry of the world is `Ok` (executable) -/
def World.poolOk (w : World) : Bool := w.pool.all fun e => e.2.view.isSome || decide e.2.Ok

/-- (F-A) a copy of one view stored under the name of another view: `vb` is simply rebound -/
def exCrossView : List String := [
  "cfg A kind=rec covord=0 spord=0 fields=i4,f8 primary=0",
  "cfg B kind=rec covord=0 spord=0 fields=i4,i2 primary=0",
  "single A field=1 r=va",
  "single B field=1 r=vb",
  "copy va r=vb"]

#guard (HS.runLines exCrossView).poolOk &&
  (HS.runLines exCrossView).pool.map (fun e => (e.1, e.2.view.isSome)) ==
    [("vb", false), ("va", true), ("B", false), ("A", false)]

/-- (F-B) the parent's name rebound to a record map whose field 1 is boolean: the stale
    descriptor `v` no longer resolves (`inv v` answers `bad-op:no-such-map`) -/
def exReboundParent : List String := [
  "cfg A kind=rec covord=0 spord=0 fields=i4,u2 primary=0",
  "single A field=1 r=v",
  "cfg A kind=rec covord=0 spord=0 fields=i4,b1 primary=0",
  "inv v r=c"]

#guard (HS.runLines exReboundParent).poolOk &&
  ((HS.runLines exReboundParent).get? "v").isNone &&
  (HS.runLines exReboundParent).pool.map (·.1) == ["A", "v"]

example : (HS.runLines exCrossView).Good ∧ (HS.runLines exReboundParent).Good :=
  ⟨Good.runLines _, Good.runLines _⟩

end HS
