import HealSparse.Generated.Kernels
import HealSparse.Model.Api
import HealSparse.Model.WideMask
import HealSparse.Model.Moc
open HS
#eval IO.println s!"bitshift {(Kernels.bitshiftTable.filter fun r => (cfgOf r.1 r.2.1).shift != r.2.2).map fun r => (r, (cfgOf r.1 r.2.1).shift)}"
#eval IO.println s!"sentinels {(Kernels.sentinelTable.filter fun r => r.1.defaultSentinel != r.2).map fun r => (repr r.1, repr r.2, repr r.1.defaultSentinel)}"
#eval IO.println s!"unseen {(if Kernels.unseenF64 != unseen64 then [(Kernels.unseenF64, unseen64)] else []) ++ (if Kernels.unseenF32 != unseen32 then [(Kernels.unseenF32, unseen32)] else [])}"
#eval IO.println s!"fieldbit {(Kernels.fieldBitTable.filter fun r => !(r.2.1 == r.1 / 8 && r.2.2 == 2 ^ (r.1 % 8))).map fun r => (r, (r.1 / 8, 2 ^ (r.1 % 8)))}"
#eval IO.println s!"bitvals {(Kernels.bitvalsTable.filter fun r => bitvalsToPacked r.1 r.2.1 != r.2.2).map fun r => (r, bitvalsToPacked r.1 r.2.1)}"
#eval IO.println s!"uniq {(Kernels.uniqTable.filter fun r => uniqOrder r.1 != r.2).map fun r => (r, uniqOrder r.1)}"
