"""C02 — all validity accounting interfaces agree, at every point in a map's history."""
import gen

PID = 'C02'
RULE = ("histories over every map kind in which every mutator call is wrapped query-mutate-query: n_valid (cached) "
        "is read before and after each mutation, and after each step a random subset of the eleven accounting "
        "observers (valid_pixels, valid mask, per-coverage-pixel iterators and sub-maps, n_valid / area / __str__, "
        "coverage_map, coverage_mask, fracdet_map at every permitted order, valid_pixels_single_covpix) is compared "
        "with the Lean model; coverage grows in shuffled order and cov_pixels pre-allocation leaves empty blocks; "
        "non-trivial = a mutator executed while the n_valid cache is warm")
ASSUMPTIONS = ["floating coverage fractions are compared as exact integer counts (fraction * nfine)"]


def observers(rng, c, h, all_=False):
    n = c.name
    obs = [
        'valid %s path=list' % n, 'valid %s path=mask' % n, 'valid %s path=iter' % n,
        'valid %s path=covpix_maps' % n, 'valid %s path=pos' % n,
        'nvalid %s path=n_valid' % n, 'nvalid %s path=area' % n, 'nvalid %s path=str' % n,
        'covmap %s' % n, 'covmask %s' % n,
        'vpsc %s k=%d' % (n, rng.randrange(c.ncov)),
    ]
    picks = obs if all_ else rng.sample(obs, rng.randint(2, 5))
    h.extend(picks)
    if all_ or rng.random() < 0.4:
        o = rng.randint(c.covord, c.spord)
        h.append('fracdet r=fd %s ord=%d' % (n, o))
        h.append('vals fd')
        h.append('covmask fd')
        h.append('state fd')


def mutator(rng, c, focus):
    return gen.upd_line(rng, c, focus=focus)


def histories(rng, tier):
    n = 120 if tier == 'quick' else 2500
    out = []
    for _ in range(n):
        c = gen.rand_cfg(rng, max_npix=768)
        focus = rng.sample(range(c.ncov), min(c.ncov, rng.randint(2, 5)))
        h = [c.line()]
        observers(rng, c, h)
        for _ in range(rng.randint(3, 10)):
            if rng.random() < 0.8:
                h.append('nvalid %s' % c.name)          # warm the cache
            h.append(mutator(rng, c, focus))
            h.append('nvalid %s' % c.name)
            observers(rng, c, h)
        observers(rng, c, h, all_=True)
        out.append(h)
    return out


def nontrivial(h):
    warm = False
    for ln in h:
        t = ln.split()
        if t[0] == 'nvalid':
            warm = True
        elif t[0] == 'upd' and warm:
            return True
    return False
